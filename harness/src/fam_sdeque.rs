//! Family `sdeque`: `sliding_deque::SlidingDeque` (C15).
//!
//! Every op runs on a `SlidingVec<u32>`, on a `SlidingSmallVec<[u32; 4]>` (so that
//! inline -> heap transitions happen) and on a `std::collections::VecDeque<u32>`
//! (the reference double-ended queue = the direct oracle).  Observations: return
//! value, the whole `Deref` slice view, `len()`.
//!
//! The space bound ("consumed prefix <= half of the container's length") is not
//! observable through the public API proper; it is (a) the crate's own `check_rep`
//! debug assertion - the harness profile keeps debug assertions ON, so a violation
//! is a panic, reported as `V C15 panic` - and (b) read off the derived `Debug`
//! output (`consumed_prefix: N, container: [...]`) when that output has the expected
//! shape (if it does not, the oracle stays silent and counts `debug_unparsed`).
//!
//! Op vocabulary (the Lean driver `Woodpile/Driver/SlidingDeque.lean` speaks the same):
//!   push v | front | back | pop_front | pop_back | advance n | clear | slide
//!   wfront v | wback v | wat i v | from v1,v2,..
//!   at k <op>   : restart from snapshot k (a `clone()`; snapshot 0 = the fresh deque),
//!                 run <op>, and record the result as snapshot k+1 (dropping deeper ones).
//!                 This is how the exhaustive enumeration walks the tree of op sequences
//!                 without replaying every prefix.
use crate::util::*;
use sliding_deque::traits::PushTruncateContainer;
use sliding_deque::{SlidingDeque, SlidingSmallVec, SlidingVec};
use std::collections::VecDeque;
use std::fmt::Debug;
use std::panic::{catch_unwind, AssertUnwindSafe};

#[derive(Clone, Debug)]
pub enum Op {
    Push(u32),
    Front,
    Back,
    PopFront,
    PopBack,
    Advance(usize),
    Clear,
    Slide,
    WFront(u32),
    WBack(u32),
    WAt(usize, u32),
    From(Vec<u32>),
}

pub fn parse_u32_list(s: &str) -> Option<Vec<u32>> {
    if s == "-" {
        return Some(vec![]);
    }
    s.split(',').map(|t| t.parse().ok()).collect()
}

pub fn u32_list(xs: &[u32]) -> String {
    if xs.is_empty() {
        "-".to_string()
    } else {
        xs.iter().map(|x| x.to_string()).collect::<Vec<_>>().join(",")
    }
}

pub fn parse_op(w: &[&str]) -> Option<Op> {
    Some(match w {
        ["push", v] => Op::Push(v.parse().ok()?),
        ["front"] => Op::Front,
        ["back"] => Op::Back,
        ["pop_front"] => Op::PopFront,
        ["pop_back"] => Op::PopBack,
        ["advance", n] => Op::Advance(n.parse().ok()?),
        ["clear"] => Op::Clear,
        ["slide"] => Op::Slide,
        ["wfront", v] => Op::WFront(v.parse().ok()?),
        ["wback", v] => Op::WBack(v.parse().ok()?),
        ["wat", i, v] => Op::WAt(i.parse().ok()?, v.parse().ok()?),
        ["from", l] => Op::From(parse_u32_list(l)?),
        _ => return None,
    })
}

fn fmt_item(o: Option<u32>) -> String {
    match o {
        Some(v) => format!("some:{}", v),
        None => "none".into(),
    }
}

fn fmt_wrote(b: bool) -> String {
    if b { "w=1".into() } else { "w=0".into() }
}

fn fmt_obs(ret: &str, view: &[u32]) -> String {
    format!("{} view={} len={}", ret, u32_list(view), view.len())
}

/// One op on the real deque; returns the observation line.
fn apply_real<C>(d: &mut SlidingDeque<C>, op: &Op) -> String
where
    C: PushTruncateContainer<Item = u32> + Clone + Default + FromIterator<u32>,
{
    let ret = match op {
        Op::Push(v) => {
            d.push_back(*v);
            "()".to_string()
        }
        Op::Front => fmt_item(d.front().copied()),
        Op::Back => fmt_item(d.back().copied()),
        Op::PopFront => fmt_item(d.pop_front()),
        Op::PopBack => fmt_item(d.pop_back()),
        Op::Advance(n) => format!("n={}", d.advance(*n)),
        Op::Clear => {
            d.clear();
            "()".to_string()
        }
        Op::Slide => {
            d.slide();
            "()".to_string()
        }
        Op::WFront(v) => fmt_wrote(match d.front_mut() {
            Some(r) => {
                *r = *v;
                true
            }
            None => false,
        }),
        Op::WBack(v) => fmt_wrote(match d.back_mut() {
            Some(r) => {
                *r = *v;
                true
            }
            None => false,
        }),
        Op::WAt(i, v) => fmt_wrote(match d.get_mut(*i) {
            Some(r) => {
                *r = *v;
                true
            }
            None => false,
        }),
        Op::From(l) => {
            *d = SlidingDeque::from(l.iter().copied().collect::<C>());
            "()".to_string()
        }
    };
    let len = d.len();
    let view: &[u32] = d;
    assert_eq!(len, view.len());
    assert_eq!(d.is_empty(), view.is_empty());
    fmt_obs(&ret, view)
}

/// The same op on the reference deque.
fn apply_ref(r: &mut VecDeque<u32>, op: &Op) -> String {
    let ret = match op {
        Op::Push(v) => {
            r.push_back(*v);
            "()".to_string()
        }
        Op::Front => fmt_item(r.front().copied()),
        Op::Back => fmt_item(r.back().copied()),
        Op::PopFront => fmt_item(r.pop_front()),
        Op::PopBack => fmt_item(r.pop_back()),
        Op::Advance(n) => {
            let k = (*n).min(r.len());
            r.drain(..k);
            format!("n={}", k)
        }
        Op::Clear => {
            r.clear();
            "()".to_string()
        }
        Op::Slide => "()".to_string(),
        Op::WFront(v) => fmt_wrote(match r.front_mut() {
            Some(x) => {
                *x = *v;
                true
            }
            None => false,
        }),
        Op::WBack(v) => fmt_wrote(match r.back_mut() {
            Some(x) => {
                *x = *v;
                true
            }
            None => false,
        }),
        Op::WAt(i, v) => fmt_wrote(match r.get_mut(*i) {
            Some(x) => {
                *x = *v;
                true
            }
            None => false,
        }),
        Op::From(l) => {
            *r = l.iter().copied().collect();
            "()".to_string()
        }
    };
    let view: Vec<u32> = r.iter().copied().collect();
    fmt_obs(&ret, &view)
}

/// `(consumed_prefix, container length)` read off the derived `Debug` output
/// `SlidingDeque { consumed_prefix: N, container: [a, b, c] }`.
pub fn parse_debug(s: &str) -> Option<(usize, usize)> {
    let rest = s.strip_prefix("SlidingDeque { consumed_prefix: ")?;
    let (num, rest) = rest.split_once(", container: [")?;
    let consumed: usize = num.parse().ok()?;
    let body = rest.strip_suffix("] }")?;
    let n = if body.is_empty() {
        0
    } else {
        if !body.split(", ").all(|t| !t.is_empty() && t.bytes().all(|b| b.is_ascii_digit())) {
            return None;
        }
        body.split(", ").count()
    };
    Some((consumed, n))
}

/// The space-bound half of C15, on the real representation.
fn space_oracle<T: Debug>(which: &str, d: &T, view_len: usize, v: &mut Vec<String>, tags: &mut Vec<String>) {
    match parse_debug(&format!("{:?}", d)) {
        Some((consumed, clen)) => {
            if consumed * 2 > clen {
                v.push(format!(
                    "C15 {}: space bound broken: consumed_prefix={} > half of container length {}",
                    which, consumed, clen
                ));
            }
            if clen < consumed || clen - consumed != view_len {
                v.push(format!(
                    "C15 {}: view length {} is not container length {} - consumed_prefix {}",
                    which, view_len, clen, consumed
                ));
            }
            if consumed > 0 {
                tags.push(format!("{}_consumed_nonzero", which));
            }
        }
        None => tags.push("debug_unparsed".into()),
    }
}

#[derive(Clone)]
struct St {
    v: SlidingVec<u32>,
    s: SlidingSmallVec<[u32; 4]>,
    r: VecDeque<u32>,
}

impl St {
    fn new() -> Self {
        St { v: SlidingDeque::new(), s: SlidingDeque::new(), r: VecDeque::new() }
    }
}

struct SdExec {
    cur: St,
    snaps: Vec<St>,
    dead: bool,
}

impl SdExec {
    fn run_op(&mut self, op: &Op, text: &str) -> StepOut {
        let mut so = StepOut::default();
        let cur = &mut self.cur;
        let real = catch_unwind(AssertUnwindSafe(|| {
            let a = apply_real(&mut cur.v, op);
            let b = apply_real(&mut cur.s, op);
            (a, b)
        }));
        let expected = apply_ref(&mut cur.r, op);
        match real {
            Err(_) => {
                self.dead = true;
                so.obs.push("panic".into());
                so.violations.push(format!("C15 panic in `{}` (no operation sequence may panic; debug assertions are on)", text));
            }
            Ok((a, b)) => {
                if a != expected {
                    so.violations.push(format!("C15 vec: `{}` gave [{}] but the reference deque gives [{}]", text, a, expected));
                }
                if b != expected {
                    so.violations.push(format!("C15 smallvec: `{}` gave [{}] but the reference deque gives [{}]", text, b, expected));
                }
                let n = cur.r.len();
                space_oracle("vec", &cur.v, n, &mut so.violations, &mut so.tags);
                space_oracle("smallvec", &cur.s, n, &mut so.violations, &mut so.tags);
                if n > 4 {
                    so.tags.push("len_gt_inline".into());
                }
                if n > 32 {
                    so.tags.push("len_gt_32".into());
                }
                so.obs.push(format!("vec {}", a));
                so.obs.push(format!("small {}", b));
            }
        }
        so.tags.push(format!("op_{}", text.split(' ').next().unwrap_or("?")));
        so
    }
}

impl Exec for SdExec {
    fn step(&mut self, w: &[&str]) -> StepOut {
        if self.dead {
            return StepOut::obs("dead");
        }
        match w {
            ["at", k, rest @ ..] => {
                let (Ok(k), Some(op)) = (k.parse::<usize>(), parse_op(rest)) else { return StepOut::bad() };
                if k >= self.snaps.len() {
                    return StepOut::obs("nosnap");
                }
                self.cur = self.snaps[k].clone();
                let so = self.run_op(&op, &rest.join(" "));
                self.snaps.truncate(k + 1);
                if !self.dead {
                    self.snaps.push(self.cur.clone());
                }
                so
            }
            _ => match parse_op(w) {
                Some(op) => self.run_op(&op, &w.join(" ")),
                None => StepOut::bad(),
            },
        }
    }
}

pub struct SDequeFamily;

/// The 11-symbol alphabet of the exhaustive enumeration; `lvl` makes the values
/// written at different depths distinct.
pub fn symbol(i: usize, lvl: usize) -> String {
    match i {
        0 => format!("push {}", lvl + 1),
        1 => "pop_front".into(),
        2 => "pop_back".into(),
        3 => "advance 0".into(),
        4 => "advance 1".into(),
        5 => "advance 2".into(),
        6 => "advance 9".into(),
        7 => "clear".into(),
        8 => "slide".into(),
        9 => format!("wfront {}", 70 + lvl),
        _ => format!("wback {}", 80 + lvl),
    }
}
pub const NSYM: usize = 11;

/// Depth-first walk of all op sequences of length `depth` that start with `prefix`,
/// as one case using `at k <op>` (one line per tree node).
pub fn tree_case(prefix: &[usize], depth: usize) -> Vec<String> {
    let mut ops = Vec::new();
    for (lvl, &sym) in prefix.iter().enumerate() {
        ops.push(format!("at {} {}", lvl, symbol(sym, lvl)));
    }
    fn rec(ops: &mut Vec<String>, lvl: usize, depth: usize) {
        if lvl >= depth {
            return;
        }
        for sym in 0..NSYM {
            ops.push(format!("at {} {}", lvl, symbol(sym, lvl)));
            rec(ops, lvl + 1, depth);
        }
    }
    rec(&mut ops, prefix.len(), depth);
    ops
}

impl Family for SDequeFamily {
    fn name(&self) -> &'static str {
        "sdeque"
    }

    fn new_exec(&self) -> Box<dyn Exec> {
        Box::new(SdExec { cur: St::new(), snaps: vec![St::new()], dead: false })
    }

    /// All op sequences over the 11-symbol alphabet:
    /// * up to length 6 (quick) / 7 (thorough), walked as a tree through `clone()`d
    ///   snapshots (one case per 2-symbol prefix);
    /// * up to length 4 (quick) / 5 (thorough) as plain sequences without any clone
    ///   (so the SmallVec keeps whatever inline/heap state the sequence itself produced).
    fn enumerated(&self, thorough: bool) -> Vec<Vec<String>> {
        let depth = if thorough { 7 } else { 6 };
        let mut cases = Vec::new();
        for a in 0..NSYM {
            for b in 0..NSYM {
                cases.push(tree_case(&[a, b], depth));
            }
        }
        let plain = if thorough { 5 } else { 4 };
        let mut idx = vec![0usize; plain];
        loop {
            cases.push(idx.iter().enumerate().map(|(lvl, &s)| symbol(s, lvl)).collect());
            let mut k = plain;
            loop {
                if k == 0 {
                    return cases;
                }
                k -= 1;
                idx[k] += 1;
                if idx[k] < NSYM {
                    break;
                }
                idx[k] = 0;
            }
        }
    }

    /// Random sequences up to length 200 (values distinct within a case, so the view
    /// identifies every element), with a shadow length to aim indices/counts at the edges.
    fn gen_case(&self, rng: &mut Rng, _idx: u64, thorough: bool) -> Vec<String> {
        let maxlen = if thorough { 200 } else { *rng.pick(&[12u64, 40, 200]) };
        let nops = rng.range(1, maxlen);
        let push_w = *rng.pick(&[3u64, 5, 7]); // out of 10: shrinking / balanced / growing runs
        let mut len: usize = 0;
        let mut next = 1u32;
        let mut ops = Vec::new();
        if rng.chance(1, 8) {
            let n = rng.range(0, 9) as usize;
            let l: Vec<u32> = (0..n).map(|_| { next += 1; next - 1 }).collect();
            ops.push(format!("from {}", u32_list(&l)));
            len = n;
        }
        for _ in 0..nops {
            if rng.below(10) < push_w {
                ops.push(format!("push {}", next));
                next += 1;
                len += 1;
                continue;
            }
            match rng.below(14) {
                0 | 1 | 2 => {
                    ops.push("pop_front".into());
                    len = len.saturating_sub(1);
                }
                3 | 4 | 5 => {
                    ops.push("pop_back".into());
                    len = len.saturating_sub(1);
                }
                6 | 7 => {
                    let n = match rng.below(8) {
                        0 => 0,
                        1 => 1,
                        2 => len / 2,
                        3 => len / 2 + 1,
                        4 => len,
                        5 => len + 1,
                        6 => usize::MAX,
                        _ => rng.range(0, len as u64 + 2) as usize,
                    };
                    ops.push(format!("advance {}", n));
                    len -= n.min(len);
                }
                8 => {
                    if rng.chance(1, 4) {
                        ops.push("clear".into());
                        len = 0;
                    } else {
                        ops.push("slide".into());
                    }
                }
                9 => ops.push(format!("wfront {}", 1000 + rng.below(1000))),
                10 => ops.push(format!("wback {}", 2000 + rng.below(1000))),
                11 => {
                    let i = match rng.below(4) {
                        0 => len,
                        1 => len.saturating_sub(1),
                        _ => rng.range(0, len as u64 + 1) as usize,
                    };
                    ops.push(format!("wat {} {}", i, 3000 + rng.below(1000)));
                }
                12 => ops.push("front".into()),
                _ => ops.push("back".into()),
            }
        }
        ops
    }
}

/-
C04 — Pending backpatches are never observable; filled ones unblock everything.

Property theorems only (lemmas: `Woodpile/Proofs/IovecInv.lean`, `IovecAbs.lean`).
Same model, operation vocabulary, `step`/`run`, invariant `Inv` and abstraction
`abs` as C03 (see `Props/C03.lean`): this file covers the histories of one iovec over the
`Op` vocabulary; the same clauses for every handle of every multi-object `WOp` history
(clone, take, arena hand-off, anchored / detached slices, drops, …) are `Props/C04W.lean`
(`stable_prefix_has_no_hole_w`, `ok_iff_no_pending_w`, `all_filled_unblocks_w`,
`observed_bytes_immutable_w` / `_handle` / `_unshared`, `slices_never_overwritten_w`), and
`iovs` / `flatten` / `stable_consumer` as model functions are `Props/C04A.lean`.

`World.visible w v` is what EVERY consumer-side view of the model exposes: the
bytes of the slices `stable_prefix` returns (`front`, `iovs`, `flatten`,
iteration, `Read`, `consume`, `advance_slices` are all computed from that
prefix, in the Rust code and in the model).  `Pipe.stable` is the abstract
bound: the bytes before the first hole.
-/
import Woodpile.Proofs.IovecAbs

namespace Woodpile.Props.C04
open Woodpile.Iovec Woodpile.Arena
open Woodpile.Pipe (Cell Pipe)

/-- The stable prefix never contains a placeholder byte: the cells at the front of the pipe that
correspond to it are all byte cells, holding exactly the visible bytes. -/
theorem stable_prefix_has_no_hole (i : Nat) (s : State) (hinv : Inv i s) :
    ∃ v, s.w.iov i = some v ∧ ∃ rest, (abs i s).cells = (s.w.visible v).map Cell.byte ++ rest := by
  obtain ⟨v, hv, hi⟩ := hinv
  refine ⟨v, hv, mkCells v.backrefs (v.consumedSize + (s.w.visible v).length) (s.w.flat (v.slices.drop v.stableN)), ?_⟩
  rw [abs_eq i s v hv]
  exact absCells_visible hi

/-- What is visible is a prefix of the bytes before the first pending placeholder, so nothing
appended after the earliest pending placeholder is visible.  (It can be strictly shorter: visibility
goes by whole slices, and a slice that contains a pending range is hidden entirely, including
earlier bytes merged into it — see the example below.) -/
theorem stable_is_prefix_before_first_hole (i : Nat) (s : State) (hinv : Inv i s) :
    ∃ v, s.w.iov i = some v ∧ s.w.visible v <+: (abs i s).stable := by
  obtain ⟨v, hv, hrest, hcells⟩ := stable_prefix_has_no_hole i s hinv
  refine ⟨v, hv, ?_⟩
  rw [Pipe.stable_of_cells (abs i s) _ _ hcells]
  exact List.prefix_append _ _

/-- A byte, once observed, never changes.  Along any history without `clear`, every byte of the
consumed log and of the stable prefix of the starting state keeps its position (counted from the
last clear) and its value in every later state: there it is either in the consumed log or still
buffered as the same byte cell.  More generally this holds for every byte cell of the pipe, visible
or not: heap writes only ever target fresh arena memory or pending placeholder ranges. -/
theorem observed_bytes_immutable (i : Nat) (s s' : State) (ops : List Op) (rs : List Ret) (hinv : Inv i s)
    (hnc : Op.clear ∉ ops) (h : run i s ops = some (s', rs)) :
    (∀ (j : Nat) (b : UInt8), (pipeHistory (abs i s))[j]? = some (Cell.byte b) →
      (pipeHistory (abs i s'))[j]? = some (Cell.byte b)) ∧
    ∃ v, s.w.iov i = some v ∧ ∀ j : Nat, j < s.ghost.length + (s.w.visible v).length →
      (pipeHistory (abs i s'))[j]? = ((s.ghost ++ s.w.visible v)[j]?).map Cell.byte := by
  obtain ⟨_, habs, hok⟩ := run_refines i (fun _ => True)
    (fun s op _ hinv s' r h => step_refines i s s' op r hinv h) ops s s' rs (fun _ _ => trivial) hinv h
  have hl := history_specRun ops (abs i s) rs hok
  rw [← habs] at hl
  have hgen : ∀ (j : Nat) (b : UInt8), (pipeHistory (abs i s))[j]? = some (Cell.byte b) →
      (pipeHistory (abs i s'))[j]? = some (Cell.byte b) := by
    intro j b hb
    rw [hl]
    exact ledger_byte ops _ rs hnc j b hb
  refine ⟨hgen, ?_⟩
  obtain ⟨v, hv, hi⟩ := hinv
  refine ⟨v, hv, ?_⟩
  intro j hj
  have hhist : pipeHistory (abs i s) = (s.ghost ++ s.w.visible v).map Cell.byte ++
      mkCells v.backrefs (v.consumedSize + (s.w.visible v).length) (s.w.flat (v.slices.drop v.stableN)) := by
    rw [abs_eq i s v hv]
    simp only [pipeHistory, absCells_visible hi, List.map_append, List.append_assoc]
  have hlt : j < (s.ghost ++ s.w.visible v).length := by simpa using hj
  have hcell : (pipeHistory (abs i s))[j]? = some (Cell.byte (s.ghost ++ s.w.visible v)[j]) := by
    rw [hhist, List.getElem?_append_left (by simpa using hlt)]
    rw [List.getElem?_map, List.getElem?_eq_getElem hlt]
    rfl
  rw [hgen j _ hcell, List.getElem?_eq_getElem hlt]
  rfl

/-- The same at the level of memory: no operation ever writes into memory covered by a slice of
the stable prefix (so a consumer that looks at those addresses again sees the same bytes).  Heap
writes are `push_copy`'s (into freshly allocated arena bytes at or above the bump pointer) and
`backfill`'s (into a slice that holds a pending placeholder, which is never in the stable prefix). -/
theorem stable_slices_never_overwritten (i : Nat) (s s' : State) (op : Op) (r : Ret) (hinv : Inv i s)
    (h : step i s op = some (s', r)) :
    ∃ v, s.w.iov i = some v ∧ ∀ x ∈ v.slices.take v.stableN, s'.w.sliceBytes x = s.w.sliceBytes x := by
  obtain ⟨v, hv, hi⟩ := hinv
  refine ⟨v, hv, fun x hx => ?_⟩
  by_cases hop : ∃ tok src, op = .backfill tok src
  · obtain ⟨tok, src, rfl⟩ := hop
    cases tok with
    | none =>
      simp only [step, Option.map_eq_some_iff] at h
      obtain ⟨w', hw, he⟩ := h
      cases he
      unfold World.backfill at hw
      rw [hv] at hw
      simp only at hw
      split at hw
      · cases hw; rfl
      · cases hw
    | some e =>
      have hvalid : ValidToken v (some e) src := by
        apply Classical.byContradiction
        intro hnv
        rw [step_backfill_invalid i s v _ _ hv hnv] at h; cases h
      obtain ⟨w', v', h1, _, _, _, _, _, _, _, _, hframe⟩ :=
        World.backfill_spec s.w i v e src hv hi hvalid.1 hvalid.2
      simp only [step, h1, Option.map_some, Option.some.injEq, Prod.mk.injEq] at h
      obtain ⟨rfl, _⟩ := h
      apply hframe x
      have hle : v.stableN ≤ e.2.sliceIndex - v.consumedSlices := by
        have := hi.noBrBelow_stableN e hvalid.1
        omega
      have : v.slices.take v.stableN = (v.slices.take (e.2.sliceIndex - v.consumedSlices)).take v.stableN := by
        rw [List.take_take, Nat.min_eq_left hle]
      rw [this] at hx
      exact List.mem_of_mem_take hx
  · have hop' : ∀ tok src, op ≠ .backfill tok src := fun tok src e => hop ⟨tok, src, e⟩
    exact (step_mem i s s' op r v hv hi hop' h).frame hi x (List.mem_of_mem_take hx)

/-- `has_pending_backrefs` — and therefore `iovs`, `flatten` and `stable_consumer`, which report
success exactly when it is false — agrees with the abstract pipe: it is true exactly when some
placeholder cell is still unfilled. -/
theorem ok_iff_no_pending (i : Nat) (s : State) (hinv : Inv i s) :
    ∃ v, s.w.iov i = some v ∧ v.hasPending = (abs i s).pending := by
  obtain ⟨v, hv, hi⟩ := hinv
  refine ⟨v, hv, ?_⟩
  rw [abs_eq i s v hv]
  exact hasPending_eq_pending hi

/-- Once every placeholder has been backfilled — after any history, hence in any order — every
buffered byte is consumable: the stable prefix is the whole pipe content, `total_size` bytes long,
and consumed ++ visible is everything appended since the last clear with the backfilled values in
place. -/
theorem all_filled_unblocks (pol : Policy) (tun : Tuning) (ops : List Op) (s : State) (rs : List Ret)
    (h : run 0 (State.init pol tun) ops = some (s, rs)) :
    ∃ v, s.w.iov 0 = some v ∧ (v.hasPending = false →
      s.w.visible v = (abs 0 s).bytes ∧ (abs 0 s).cells = (s.w.visible v).map Cell.byte ∧
      (s.w.visible v).length = v.totalSize ∧
      ledger [] ops rs = (s.ghost ++ s.w.visible v).map Cell.byte) := by
  obtain ⟨⟨v, hv, hi⟩, habs, hok⟩ := run_refines 0 (fun _ => True)
    (fun s op _ hinv s' r h => step_refines 0 s s' op r hinv h) ops _ s rs (fun _ _ => trivial)
    (Inv.init pol tun) h
  refine ⟨v, hv, fun hp => ?_⟩
  obtain ⟨h1, h2⟩ := visible_all_of_no_pending hi hp
  have hcells : (abs 0 s).cells = (s.w.visible v).map Cell.byte := by rw [abs_eq 0 s v hv]; exact h2
  refine ⟨?_, hcells, ?_, ?_⟩
  · unfold Pipe.bytes
    rw [hcells]
    have := cellBytes_map_byte_append (s.w.visible v) []
    simpa [Woodpile.Pipe.cellBytes] using this.symm
  · rw [h1, hi.flat_length]
    unfold Iov.totalSize
    have := hi.size_eq
    omega
  · have hl := history_specRun ops _ rs hok
    rw [← habs, abs_init] at hl
    simp only [pipeHistory, Woodpile.Pipe.empty, List.map_nil, List.nil_append] at hl
    rw [← hl, abs_eq 0 s v hv]
    simp only [h2, List.map_append]

/-! ### Non-vacuity -/

def exPol : Policy := ⟨64, 256⟩
def exTun : Tuning := ⟨[4096, 8192], 4096⟩

/-- (visible bytes, abstract stable bytes, has_pending) after a history -/
def exView (ops : List Op) : Option (List UInt8 × List UInt8 × Bool) :=
  (run 0 (State.init exPol exTun) ops).bind (fun x =>
    (x.1.w.iov 0).map (fun v => (x.1.w.visible v, (abs 0 x.1).stable, v.hasPending)))

-- The visible bytes can be strictly shorter than the bytes before the first hole: `1 2 3` were
-- copied into the arena slice the placeholder was then merged into, so that whole slice is hidden.
example : exView [.pushBorrowed ⟨[], [7,8], []⟩, .pushCopy [1,2,3], .registerPatch [0,0], .pushCopy [4]]
    = some ([7,8], [7,8,1,2,3], true) := by decide +kernel
-- After the fill everything is visible, with the filled values in place.
example : exView [.pushBorrowed ⟨[], [7,8], []⟩, .pushCopy [1,2,3], .registerPatch [0,0], .pushCopy [4],
      .backfill (some (7, ⟨1, 3, 2⟩)) [5,6]]
    = some ([7,8,1,2,3,5,6,4], [7,8,1,2,3,5,6,4], false) := by decide +kernel
-- Four placeholders filled in the order 1, 2, 4 (the F2 shape): the third still blocks its slice.
example : exView [.registerPatch [0,0], .pushBorrowed ⟨[], [9], []⟩, .registerPatch [0,0], .registerPatch [0],
      .registerPatch [0,0,0], .backfill (some (2, ⟨0, 0, 2⟩)) [1,1], .backfill (some (5, ⟨2, 0, 2⟩)) [2,2],
      .backfill (some (9, ⟨2, 3, 3⟩)) [4,4,4]]
    = some ([1,1,9], [1,1,9,2,2], true) := by decide +kernel
example : exView [.registerPatch [0,0], .pushBorrowed ⟨[], [9], []⟩, .registerPatch [0,0], .registerPatch [0],
      .registerPatch [0,0,0], .backfill (some (2, ⟨0, 0, 2⟩)) [1,1], .backfill (some (5, ⟨2, 0, 2⟩)) [2,2],
      .backfill (some (9, ⟨2, 3, 3⟩)) [4,4,4], .backfill (some (6, ⟨2, 2, 1⟩)) [3]]
    = some ([1,1,9,2,2,3,4,4,4], [1,1,9,2,2,3,4,4,4], false) := by decide +kernel

end Woodpile.Props.C04

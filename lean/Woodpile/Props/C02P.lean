/-
C02 for `Encoder::new_from_iovec` on a PRE-FILLED `OwningIovec` (track `apileft`, audit gap 15): what the
encoder ADDS behind the bytes the iovec held at the hand-over — `(drained ++ flatten).drop |prefill|`, by
`Props/C01P.prefilled_output` exactly `Spec.encode p input` — contains no stuff sequence, does not depend on
how the input was cut, fed or drained, NOR on what the iovec held or how it was structured, and obeys the
production length bound.  (A pair `FE FD` may of course straddle the boundary between the caller's prefill and
the encoder's first header byte, or sit inside the prefill: those bytes are the caller's.)  Hypotheses as in
`Props/C01P`: the structural invariant and nothing pending at the hand-over.
-/
import Woodpile.Props.C01P
import Woodpile.Props.C02G

namespace Woodpile.Props.C02P
open Woodpile.Hcobs Woodpile.Iovec Woodpile.Arena Woodpile.EncWorld

/-- No stuff sequence in what the encoder added behind the prefill. -/
theorem prefilled_no_stuff (p : Params) (hp : p.Valid) (i : Nat) (w : World) (v : Iov) (g : List UInt8)
    (hv : w.iov i = some v) (hinv : IovInv w v) (hnp : v.hasPending = false) (calls : List ACall) :
    ∃ w' dr v', encRunFrom p w i g calls = some (w', dr) ∧ w'.iov i = some v' ∧
      findStuff ((dr ++ w'.flat v'.slices).drop (g ++ w.flat v.slices).length) = none := by
  obtain ⟨w', dr, v', k1, k2, _, _, _, k6⟩ := C01P.prefilled_output p hp i w v g hv hinv hnp calls
  refine ⟨w', dr, v', k1, k2, ?_⟩
  rw [k6, List.drop_left' rfl]
  exact C02.no_stuff p hp _

/-- Split / method / drain / PREFILL independence: two runs whose concatenated inputs agree add the same bytes,
whatever their segmentations, methods, reader and drain schedules, and whatever the two iovecs held. -/
theorem prefilled_split_independent (p : Params) (hp : p.Valid) (i j : Nat) (w1 w2 : World) (v1 v2 : Iov) (g1 g2 : List UInt8)
    (hv1 : w1.iov i = some v1) (hi1 : IovInv w1 v1) (hn1 : v1.hasPending = false)
    (hv2 : w2.iov j = some v2) (hi2 : IovInv w2 v2) (hn2 : v2.hasPending = false)
    (calls calls' : List ACall) (h : ainputOf calls = ainputOf calls') :
    ∃ w1' dr1 v1' w2' dr2 v2', encRunFrom p w1 i g1 calls = some (w1', dr1) ∧ w1'.iov i = some v1' ∧
      encRunFrom p w2 j g2 calls' = some (w2', dr2) ∧ w2'.iov j = some v2' ∧
      (dr1 ++ w1'.flat v1'.slices).drop (g1 ++ w1.flat v1.slices).length =
        (dr2 ++ w2'.flat v2'.slices).drop (g2 ++ w2.flat v2.slices).length := by
  obtain ⟨w1', dr1, v1', k1, k2, _, _, _, k6⟩ := C01P.prefilled_output p hp i w1 v1 g1 hv1 hi1 hn1 calls
  obtain ⟨w2', dr2, v2', j1, j2, _, _, _, j6⟩ := C01P.prefilled_output p hp j w2 v2 g2 hv2 hi2 hn2 calls'
  exact ⟨w1', dr1, v1', w2', dr2, v2', k1, k2, j1, j2, by rw [k6, j6, List.drop_left' rfl, List.drop_left' rfl, h]⟩

/-- Length bound, production constants: the encoder adds at most `len + 1 + 2·⌈len/64008⌉` bytes to the prefill. -/
theorem prefilled_length_bound_prod (i : Nat) (w : World) (v : Iov) (g : List UInt8)
    (hv : w.iov i = some v) (hinv : IovInv w v) (hnp : v.hasPending = false) (calls : List ACall) :
    ∃ w' dr v', encRunFrom C02.prod w i g calls = some (w', dr) ∧ w'.iov i = some v' ∧
      (dr ++ w'.flat v'.slices).length ≤ (g ++ w.flat v.slices).length +
        ((ainputOf calls).length + 1 + 2 * (((ainputOf calls).length + 64008 - 1) / 64008)) := by
  obtain ⟨w', dr, v', k1, k2, _, _, _, k6⟩ := C01P.prefilled_output C02.prod C02.prod_params_valid i w v g hv hinv hnp calls
  refine ⟨w', dr, v', k1, k2, ?_⟩
  have hl := C02.length_bound_prod (ainputOf calls)
  rw [k6, List.length_append]
  omega

/-! ### Non-vacuity -/

-- "12\xFE\xFD" behind a prefill that itself ENDS in `FE`: the pair `FE 03`… is the caller's business; what the
-- encoder added is stuff-free
example : C01P.obs [.pushCopy [7, 0xFE]] [.call (.feed .copy [0x31, 0x32, 0xFE]), .call (.feed .borrow [0xFD])]
    = some ([], [7, 0xFE, 3, 0x31, 0x32, 0xFE, 1, 0, 0xFD], false) := by decide +kernel
example : findStuff ([7, 0xFE, 3, 0x31, 0x32, 0xFE, 1, 0, 0xFD].drop 2) = none := by decide

end Woodpile.Props.C02P

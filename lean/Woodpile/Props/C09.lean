/-
C09 — drained output is a prefix of the final output; bounded lag (abstract half).

Statements on the abstract pipe (`Woodpile.Pipe`, the specification of
`OwningIovec` the codecs are written against) and on the codec models emitting
pipe ops.  A producer/consumer history is an event list (`Ev.prod op` = one
producer op, `Ev.drain k` = the consumer takes up to `k` stable bytes, at any
moment).  The structural half (slices, arena chunks) lives elsewhere.

Property theorems only; lemmas in `Woodpile/Proofs/PipeLemmas.lean`,
`HcobsEnc.lean`, `HcobsDec.lean`.
-/
import Woodpile.Proofs.HcobsEnc
import Woodpile.Proofs.HcobsDec

namespace Woodpile.Props.C09
open Woodpile.Pipe Woodpile.Hcobs

/-- Draining commutes with producing: under any interleaved drain schedule, what the
producer has built — the drained bytes followed by the buffered cells, placeholders and
their ids included — is exactly what the same producer ops build on an undrained pipe. -/
theorem drain_commutes (q : Pipe) (evs : List Ev) :
    (runEv q evs).total = q.total.run (prodOps evs) :=
  runEv_total q evs

/-- Step form: taking `n` currently stable bytes before or after any producer op gives the
same pipe, the same consumed bytes and the same count. -/
theorem drain_commutes_step (q : Pipe) (op : Op) (n : Nat) (hn : n ≤ q.stable.length) :
    (q.apply op).consume n = (((q.consume n).1).apply op, n) :=
  consume_apply_comm q op n hn

/-- At every moment of every interleaving, what was drained so far followed by what is stable
now is a prefix of the final output (the bytes the producer ops alone produce). -/
theorem drain_prefix (evs1 evs2 : List Ev) :
    (runEv Pipe.empty evs1).consumed ++ (runEv Pipe.empty evs1).stable
      <+: (Pipe.empty.run (prodOps (evs1 ++ evs2))).bytes := by
  have := Woodpile.Pipe.drain_prefix Pipe.empty evs1 evs2
  rwa [total_empty] at this

/-- At the end, everything drained followed by what is still buffered is the final output, and
the buffer has a pending placeholder exactly when the undrained run has one. -/
theorem drain_complete (evs : List Ev) :
    (runEv Pipe.empty evs).consumed ++ (runEv Pipe.empty evs).bytes = (Pipe.empty.run (prodOps evs)).bytes ∧
    (runEv Pipe.empty evs).pending = (Pipe.empty.run (prodOps evs)).pending := by
  have := Woodpile.Pipe.drain_complete Pipe.empty evs
  rwa [total_empty] at this

/-- Between calls the encoder has exactly one pending placeholder (the size header of the open
chunk, 1 or 2 cells with one id); everything before it is bytes and is stable; after it come
only the `cur` bytes written into the open chunk.  (`q` is the undrained output pipe;
`EncProof.Reachable` = `EncoderState::new` followed by any `consume_once` calls.) -/
theorem enc_one_pending (p : Params) (hp : p.Valid) {s : EncState} {nid : Nat} {q : Pipe}
    (h : EncProof.Reachable p s nid q) :
    ∃ done body : List UInt8,
      q.cells = done.map Cell.byte ++ List.replicate s.brLen (Cell.hole s.backref) ++ body.map Cell.byte ∧
      1 ≤ s.brLen ∧ s.brLen ≤ 2 ∧ body.length = s.cur ∧ q.stable = done := by
  obtain ⟨done, body, hq, hb, _, hk1, hk2, _, _⟩ := EncProof.reachable_shape p hp h
  refine ⟨done, body, by rw [hq]; rfl, hk1, hk2, hb, ?_⟩
  rw [hq]; exact EncProof.stable_pipeOf _ _ _ _ hk1

/-- Encoder lag on the pipe, under any drain schedule: the bytes appended but not yet stable
are the placeholder and the open chunk's bytes, at most `2 + max_chunk_size`. -/
theorem enc_lag_pipe (p : Params) (hp : p.Valid) {s : EncState} {nid : Nat} {q0 : Pipe}
    (h : EncProof.Reachable p s nid q0) (evs : List Ev) (hev : Pipe.empty.run (prodOps evs) = q0) :
    (runEv Pipe.empty evs).size - (runEv Pipe.empty evs).stable.length = s.brLen + s.cur ∧
    s.brLen + s.cur + (if s.mid then 1 else 0) ≤ 2 + s.maxChunk ∧
    (s.maxChunk = p.maxInit ∨ s.maxChunk = p.maxSub) := by
  obtain ⟨done, body, hq, hb, _, hk1, hk2, hinv, hmax⟩ := EncProof.reachable_shape p hp h
  refine ⟨?_, by omega, hmax⟩
  rw [← size_sub_stable_total, runEv_total, total_empty, hev, hq, EncProof.stable_pipeOf _ _ _ _ hk1,
    EncProof.size_pipeOf]
  omega

/-- The decoder never registers a placeholder: every call's emits are plain appends, whether the
call succeeds or fails … -/
theorem dec_appends_only (p : Params) (m : Method) (s : DecState) (input : List UInt8) :
    match Dec.feedAll p m s input with
    | .error (_, es) => (es.map (·.op)).all Op.isAppend = true
    | .ok (_, es) => (es.map (·.op)).all Op.isAppend = true := by
  have := DecProof.feed_appendOnly p m (input.length + 1) s input
  unfold Dec.feedAll
  cases h : Dec.feed p m (input.length + 1) s input with
  | error ee => rw [h] at this; obtain ⟨e, es⟩ := ee; exact this
  | ok se => rw [h] at this; obtain ⟨s', es⟩ := se; exact this

/-- … hence, under any drain schedule, all of the decoder's output is immediately stable:
nothing is ever pending and the lag is zero. -/
theorem dec_lag_zero (evs : List Ev) (h : (prodOps evs).all Op.isAppend = true) :
    (runEv Pipe.empty evs).pending = false ∧
    (runEv Pipe.empty evs).stable = (runEv Pipe.empty evs).bytes ∧
    (runEv Pipe.empty evs).size - (runEv Pipe.empty evs).stable.length = 0 := by
  have hp : (runEv Pipe.empty evs).pending = false := by
    rw [← pending_total, runEv_total, total_empty]
    exact pending_run_appendOnly _ _ h rfl
  obtain ⟨h1, h2⟩ := stable_of_not_pending _ hp
  exact ⟨hp, h1, by omega⟩

end Woodpile.Props.C09

namespace Woodpile.Props.C09
open Woodpile.Pipe Woodpile.Hcobs

/-! Non-vacuity. -/

-- a history with a placeholder, early drains, a late fill: 2 bytes drained early, 1 stuck behind the hole
private def evs : List Ev :=
  [.prod (.append [1, 2]), .drain 1, .prod (.register 1), .prod (.append [3]), .drain 5,
   .prod (.fill 0 [9]), .drain 1]

example : (runEv Pipe.empty evs).consumed = [1, 2, 9] ∧ (runEv Pipe.empty evs).bytes = [3]
    ∧ (Pipe.empty.run (prodOps evs)).bytes = [1, 2, 9, 3] := by decide
-- mid-history (before the fill) only `1 2` is visible although `3` was appended
example : (runEv Pipe.empty (evs.take 5)).consumed = [1, 2] ∧ (runEv Pipe.empty (evs.take 5)).stable = []
    ∧ (runEv Pipe.empty (evs.take 5)).size = 2 := by decide
-- `Reachable` is inhabited beyond the initial state: test params ⟨3,5,253⟩ after "1234" (one closed
-- chunk, one byte in the open one, 2-cell placeholder)
example : EncProof.Reachable ⟨3, 5, 253⟩ ⟨5, 1, false, 1, 2⟩ 2
    ⟨[.byte 3, .byte 0x31, .byte 0x32, .byte 0x33, .hole 1, .hole 1, .byte 0x34], [], 2⟩ :=
  EncProof.Reachable.step .copy [0x34] (EncProof.Reachable.step .borrow [0x31, 0x32, 0x33, 0x34]
    EncProof.Reachable.init (by decide)) (by decide)
-- decoder output ops are appends
example : (match Dec.feedAll ⟨3, 5, 253⟩ .copy .initial [1, 7, 0, 0] with
    | .ok (_, es) => es.map (·.op) | .error _ => []) = [.append [7], .append [FE, FD]] := by decide

end Woodpile.Props.C09

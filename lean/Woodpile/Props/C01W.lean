/-
C01 on what the real `Encoder` drives: an `OwningIovec` (structural model,
Layer B), not the abstract pipe.

`Woodpile.EncWorld` (`Model/EncWorld.lean`) is the HCOBS encoder state machine
issuing the iovec calls the Rust code makes (`push` of a sub-slice of the
caller's buffer for `encode`, `push_copy` for `encode_copy`, `register_patch`
for a size header, `backfill_or_panic` to fill it in); the correspondence family
`codecw` runs exactly these functions against the real `Encoder`.  A run
(`EncWorld.encRun`) is `Encoder::new()` on a fresh iovec, then any list of
calls — `feed borrow d`, `feed copy d`, `consume k` (`ConsumingIovec::consume`,
by slices), `advance k` (`advance_slices`, by bytes) — then `finish()`.  It
returns the final world and every byte the consumer took out (`drained`).

The theorems hold for all `Params.Valid` parameters, all policy / arena tuning
constants, all call lists (any segmentation, empty pieces included, any method
per piece among borrow / copy, any drain schedule).

Partial (hence the `_partial` suffix): the anchored input method (`encode_read`
/ `encode_anchored`: `read_n` into the encoder's own arena, a borrowed push of
that chunk slice, `push_anchor`) is not in the proved iovec operation
vocabulary (`Woodpile.Iovec.Op`) and is left out; the full statements quantify
over `Method ∈ {borrow, copy, anchored}`.  On the abstract pipe the method is
irrelevant (`Props/C01.lean` covers all three there); here it matters only for
which iovec call is made.

Lemmas: `Woodpile/Proofs/EncWorldComp.lean`.
-/
import Woodpile.Proofs.EncWorldComp
import Woodpile.Props.C01

namespace Woodpile.Props.C01W
open Woodpile.Hcobs Woodpile.Iovec Woodpile.Arena Woodpile.EncWorld
open Woodpile.Pipe (Cell Pipe Ev runEv prodOps)

/- Full statement (not proved): as `encWorld_abs_partial` / `enc_world_output_partial` below with
`Call.feed` ranging over the three methods, the anchored one performing
`World.readN` + `World.push` of the anchored slice + `World.pushAnchor`. -/

/-- Target 1, panic-freedom: for every call list the composed run returns (`some`): no
`backfill_or_panic`, `push_back_or_panic`, anchor-count or underflow assertion of the iovec model,
and no assertion of the encoder, is reachable — the tokens the encoder backfills are exactly the
pending ones, with matching sizes.  Between calls (`encPrefix` = `new` + the calls so far) the
iovec satisfies the structural invariant `IovInv`. -/
theorem encWorld_no_panic_partial (p : Params) (hp : p.Valid) (pol : Policy) (tun : Tuning) (calls : List Call) :
    (∃ r v, encPrefix p pol tun calls = some r ∧ r.w.iov 0 = some v ∧ IovInv r.w v) ∧
    (∃ w' dr v', encRun p pol tun calls = some (w', dr) ∧ w'.iov 0 = some v' ∧ IovInv w' v') := by
  obtain ⟨r, acc, h1, ⟨v, q, evs, hv, hsim, _⟩, _⟩ := encPrefix_inv p hp pol tun calls
  obtain ⟨w', v', dr, _, k1, k2, k3, _⟩ := encRun_sim p hp pol tun calls
  exact ⟨⟨r, v, h1, hv, hsim.inv⟩, ⟨w', dr, v', k1, k2, k3⟩⟩

/-- Target 1, the run as operations of the C03/C04 vocabulary: the composed run IS the run
(`xrun`, built on `Woodpile.Iovec.step`) of an explicit operation list on iovec 0 of the fresh world
`State.init pol tun`, ending in the same world with the same drained bytes (the ghost log of
`step`).  The list (`encRunOps`) is the image of the emits, in order, under `emitOp`:
`append bs` by copy ↦ `Op.pushCopy bs`; by borrow ↦ `pushAt` of the sub-slice of the caller's buffer
(the second half of `Op.push`, see `push_is_lend_pushAt`; the buffer is lent once per `encode` call
by `XOp.lend`); `register n` ↦ `Op.registerPatch` of `n` zero bytes; `fill id bs` ↦ `Op.backfill`
with the token the `id`-th registration returned; consumer calls ↦ `Op.consume` / `Op.advance`.
None of them panics (`xrun` returns `some`), so `Props/C03.op_refines`, `no_panic_valid`, … apply
to every step. -/
theorem encWorld_is_ops_partial (p : Params) (hp : p.Valid) (pol : Policy) (tun : Tuning) (calls : List Call) :
    ∃ w' dr n rs, encRun p pol tun calls = some (w', dr) ∧
      xrun 0 (State.init pol tun) (encRunOps p pol tun calls) = some (⟨w', dr, n⟩, rs) := by
  obtain ⟨w', v', dr, _, k1, _⟩ := encRun_sim p hp pol tun calls
  obtain ⟨n, rs, h⟩ := encRun_xrun p pol tun calls w' dr k1
  exact ⟨w', dr, n, rs, k1, h⟩

/-- Target 2 between calls: the iovec's abstraction (`absCells`: unconsumed bytes read through the
heap and the caller buffers, pending backref ranges as holes whose id is the backref KEY) is the
abstract pipe reached by running the encoder's emits so far with some drain schedule interleaved
(`evs`), up to the renaming of placeholder ids: pipe id `j` (registration order) ↦ key of the
`j`-th token the encoder holds (`tokKey r.e.toks`); the drained bytes are the pipe's consumed log;
and the emits so far followed by `finish`'s are `Enc.runPieces` of the pieces fed. -/
theorem encWorld_abs_between_calls_partial (p : Params) (hp : p.Valid) (pol : Policy) (tun : Tuning)
    (calls : List Call) :
    ∃ r v evs acc, encPrefix p pol tun calls = some r ∧ r.w.iov 0 = some v ∧
      absCells r.w v = (runEv Woodpile.Pipe.empty evs).cells.map (renameCell (tokKey r.e.toks)) ∧
      r.drained = (runEv Woodpile.Pipe.empty evs).consumed ∧
      prodOps evs = acc.map (·.op) ∧ Enc.runPieces p (pieces calls) = acc ++ Enc.finish p r.e.st := by
  obtain ⟨r, acc, h1, ⟨v, q, evs, hv, hsim, hq, hev, _⟩, h3⟩ := encPrefix_inv p hp pol tun calls
  subst hq
  exact ⟨r, v, evs, acc, h1, hv, hsim.cells, hsim.ghost, hev, h3⟩

/-- Target 2 after `finish`: no placeholder is pending any more, so no renaming is needed: the
iovec's abstraction EQUALS the abstract pipe obtained by running exactly the emits of
`Enc.runPieces` (the run `Props/C01.lean` is about) under some drain schedule, and the drained
bytes are that pipe's consumed log. -/
theorem encWorld_abs_partial (p : Params) (hp : p.Valid) (pol : Policy) (tun : Tuning) (calls : List Call) :
    ∃ w' dr v' evs, encRun p pol tun calls = some (w', dr) ∧ w'.iov 0 = some v' ∧
      prodOps evs = (Enc.runPieces p (pieces calls)).map (·.op) ∧
      absCells w' v' = (runEv Woodpile.Pipe.empty evs).cells ∧
      dr = (runEv Woodpile.Pipe.empty evs).consumed := by
  obtain ⟨w', v', dr, evs, k1, k2, _, k4, k5, k6, _⟩ := encRun_sim p hp pol tun calls
  exact ⟨w', dr, v', evs, k1, k2, k4, k5, k6⟩

/-- Target 3 (C01 half): after `finish`, for every segmentation, method choice and drain schedule,
the bytes drained so far followed by `flatten` of the iovec (all its slices, read through the heap
and the caller buffers) are `Spec.encode p` of the concatenated input; `has_pending_backrefs` is
false (so `flatten` / `iovs` return `Ok`), and everything buffered is in the stable prefix. -/
theorem enc_world_output_partial (p : Params) (hp : p.Valid) (pol : Policy) (tun : Tuning) (calls : List Call) :
    ∃ w' dr v', encRun p pol tun calls = some (w', dr) ∧ w'.iov 0 = some v' ∧
      dr ++ w'.flat v'.slices = Spec.encode p (inputOf calls) ∧
      v'.hasPending = false ∧ w'.visible v' = w'.flat v'.slices := by
  obtain ⟨w', v', dr, evs, k1, k2, _, _, _, _, k7, k8, k9⟩ := encRun_sim p hp pol tun calls
  exact ⟨w', dr, v', k1, k2, k8, k7, k9⟩

/-- … hence decoding what came out (drained ++ flattened), cut into any pieces and fed by any
methods to the decoder state machine, gives back the input (`Props/C01.roundtrip` composed). -/
theorem world_roundtrip_partial (p : Params) (hp : p.Valid) (pol : Policy) (tun : Tuning) (calls : List Call)
    (wire : List (Method × List UInt8)) :
    ∃ w' dr v', encRun p pol tun calls = some (w', dr) ∧ w'.iov 0 = some v' ∧
      ((wire.map (·.2)).flatten = dr ++ w'.flat v'.slices → Dec.output p wire = .ok (inputOf calls)) := by
  obtain ⟨w', dr, v', k1, k2, k3, _⟩ := enc_world_output_partial p hp pol tun calls
  refine ⟨w', dr, v', k1, k2, fun hw => ?_⟩
  have h := DecProof.decode_agrees p (wire.map (·.2)).flatten
  rw [← DecProof.output_eq_decRun, hw, k3, Spec.decode_encode p hp] at h
  exact h

/-! ### The decoder on the structural iovec

`EncWorld.decRun` = `Decoder::new()` on a fresh iovec, any calls (`feed borrow d` = `decode`, `feed copy d`
= `decode_copy`, `consume k`, `advance k`), `finish()`; it stops at the first decoding error, as the
Rust `Decoder` is consumed by it.  Returns the world, the drained bytes and the verdict. -/

/-- Target 3, decoder half: for every segmentation, method choice and drain schedule the decoder's
run on the structural iovec never panics (`some`); its verdict is `Ok` exactly when `Spec.decode`
accepts the concatenated input, and then the drained bytes followed by `flatten` of the iovec are the
decoded data; an error is the one the batch classifier `DecProof.decodeE` assigns to the input
(`Props/C01.dec_error_classified`).  In every case — also after an error — no backref is pending
and everything buffered is in the stable prefix (the decoder never registers a placeholder: lag 0).

On error the world holds whatever was decoded before the offending byte, plus, when the error is
`InvalidHeaderByte(false, _)` after a short chunk, the owed `FE FD`, which `BeforeChunk::decode`
pushes BEFORE it validates the header byte (see the last example below); nothing is claimed about
those bytes, as the Rust API hands no output back on error. -/
theorem dec_world_output_partial (p : Params) (hp : p.Valid) (pol : Policy) (tun : Tuning) (calls : List Call) :
    ∃ w' dr res v', decRun p pol tun calls = some (w', dr, res) ∧ w'.iov 0 = some v' ∧ IovInv w' v' ∧
      v'.hasPending = false ∧ w'.visible v' = w'.flat v'.slices ∧
      (res = .ok () ↔ ∃ d, Spec.decode p (inputOf calls) = some d) ∧
      (res = .ok () → Spec.decode p (inputOf calls) = some (dr ++ w'.flat v'.slices)) ∧
      (∀ e, res = .error e ↔ DecProof.decodeE p (inputOf calls) = .error e) := by
  obtain ⟨w', v', dr, res, h1, h2, h3, h4, h5, h6, h7, h8⟩ := decRun_sim p pol tun calls
  obtain ⟨r1, r2⟩ := C01.dec_impl_refines_spec p hp (pieces calls)
  refine ⟨w', dr, res, v', h1, h2, h3, h4, h5, ?_, ?_, ?_⟩
  · rw [h8]
    constructor
    · rintro ⟨d, hd⟩; exact ⟨d, (r1 d).2 hd⟩
    · rintro ⟨d, hd⟩; exact ⟨d, (r1 d).1 hd⟩
  · intro hr
    exact (r1 _).2 (h7.1 hr)
  · intro e
    rw [h6 e, C01.dec_error_classified]; rfl

/-- C01 on both real data paths: whatever comes out of the encoder's iovec (drained ++ flattened, any
calls), fed in any pieces, by any of the two methods, under any drain schedule, to a decoder driving
its own iovec, is accepted, and what comes out of THAT iovec is the original input. -/
theorem world_roundtrip_both_partial (p : Params) (hp : p.Valid) (pol pol' : Policy) (tun tun' : Tuning)
    (calls wire : List Call) :
    ∃ w1 dr1 v1 w2 dr2 res v2, encRun p pol tun calls = some (w1, dr1) ∧ w1.iov 0 = some v1 ∧
      decRun p pol' tun' wire = some (w2, dr2, res) ∧ w2.iov 0 = some v2 ∧
      (inputOf wire = dr1 ++ w1.flat v1.slices → res = .ok () ∧ dr2 ++ w2.flat v2.slices = inputOf calls) := by
  obtain ⟨w1, dr1, v1, k1, k2, k3, _⟩ := enc_world_output_partial p hp pol tun calls
  obtain ⟨w2, dr2, res, v2, j1, j2, _, _, _, j6, j7, _⟩ := dec_world_output_partial p hp pol' tun' wire
  refine ⟨w1, dr1, v1, w2, dr2, res, v2, k1, k2, j1, j2, fun hw => ?_⟩
  have hd : Spec.decode p (inputOf wire) = some (inputOf calls) := by
    rw [hw, k3]; exact Spec.decode_encode p hp _
  have hok : res = .ok () := j6.2 ⟨_, hd⟩
  have := j7 hok
  rw [hd] at this
  exact ⟨hok, (Option.some.inj this).symm⟩

/-! ### Non-vacuity: the crate's vector `"1234\xFE\xFE\xFD"`, test parameters ⟨3, 5⟩ -/

def tp : Params := ⟨3, 5, 253⟩
/-- production thresholds 64 / 256, 4 KiB first chunk -/
def exPol : Policy := ⟨64, 256⟩
/-- never copy opportunistically: every borrowed piece stays a borrowed slice -/
def noCopy : Policy := ⟨0, 0⟩
def exTun : Tuning := ⟨[4096, 8192], 4096⟩

/-- (drained, flattened rest, has_pending, number of slices) after a whole run -/
def obs (pol : Policy) (calls : List Call) : Option (List UInt8 × List UInt8 × Bool × Nat) :=
  (encRun tp pol exTun calls).bind fun x => (x.1.iov 0).map fun v => (x.2, x.1.flat v.slices, v.hasPending, v.slices.length)

example : Spec.encode tp [0x31, 0x32, 0x33, 0x34, 0xFE, 0xFE, 0xFD] = [3, 0x31, 0x32, 0x33, 2, 0, 0x34, 0xFE, 0, 0] := by
  decide

-- borrow "1234\xFE", drain, copy "\xFE\xFD": with the production thresholds everything so far was
-- copied into ONE arena slice that also holds the pending 2-byte header, so the drain gets nothing
example : obs exPol [.feed .borrow [0x31, 0x32, 0x33, 0x34, 0xFE], .consume 5, .feed .copy [0xFE, 0xFD]]
    = some ([], [3, 0x31, 0x32, 0x33, 2, 0, 0x34, 0xFE, 0, 0], false, 1) := by decide +kernel
-- with borrowed slices kept as such, the drain takes the first header and "123" (2 slices) …
example : obs noCopy [.feed .borrow [0x31, 0x32, 0x33, 0x34, 0xFE], .consume 5, .feed .copy [0xFE, 0xFD]]
    = some ([3, 0x31, 0x32, 0x33], [2, 0, 0x34, 0xFE, 0, 0], false, 3) := by decide +kernel
-- … and a byte-wise drain stops in the middle of "123"
example : obs noCopy [.feed .borrow [0x31, 0x32, 0x33, 0x34, 0xFE], .advance 2, .feed .copy [0xFE, 0xFD], .advance 1]
    = some ([3, 0x31, 0x32], [0x33, 2, 0, 0x34, 0xFE, 0, 0], false, 4) := by decide +kernel
-- the same bytes in one copied piece, no drain
example : obs exPol [.feed .copy [0x31, 0x32, 0x33, 0x34, 0xFE, 0xFE, 0xFD]]
    = some ([], [3, 0x31, 0x32, 0x33, 2, 0, 0x34, 0xFE, 0, 0], false, 1) := by decide +kernel
-- the operation list of a small run (policy ⟨0,0⟩: "123" stays borrowed): register the 1-byte header,
-- push the borrowed "123" (buffer 0, offset 0), backfill the header with its token (key 1), register the
-- 2-byte header (key 6), push "4" (offset 3; the FE is held back), then a drain, then `finish`: flush
-- the FE by copy, backfill the second header
example : encRunOps tp noCopy exTun [.feed .borrow [0x31, 0x32, 0x33, 0x34, 0xFE], .consume 2]
    = [.op (.registerPatch [0]), .lend [0x31, 0x32, 0x33, 0x34, 0xFE], .pushAt ⟨.ext 0, 0, 3⟩,
       .op (.backfill (some (1, ⟨0, 0, 1⟩)) [3]), .op (.registerPatch [0, 0]), .pushAt ⟨.ext 0, 3, 1⟩,
       .op (.consume 2), .op (.pushCopy [0xFE]), .op (.backfill (some (6, ⟨2, 0, 2⟩)) [2, 0])] := by
  decide +kernel
-- between calls a placeholder IS pending and the renaming is not the identity: pipe id 1 ↦ key 6
example : (encPrefix tp noCopy exTun [.feed .borrow [0x31, 0x32, 0x33, 0x34, 0xFE]]).bind (fun r =>
      (r.w.iov 0).map fun v => (absCells r.w v, r.e.toks.map bkey, v.hasPending))
    = some ([.byte 3, .byte 0x31, .byte 0x32, .byte 0x33, .hole 6, .hole 6, .byte 0x34], [1, 6], true) := by
  decide +kernel

/-- (error if any, drained, flattened rest, has_pending) after a decoder run -/
def dobs (pol : Policy) (calls : List Call) : Option (Option DecErr × List UInt8 × List UInt8 × Bool) :=
  (decRun tp pol exTun calls).bind fun x => (x.1.iov 0).map fun v =>
    ((match x.2.2 with | .ok _ => none | .error e => some e), x.2.1, x.1.flat v.slices, v.hasPending)

-- the wire image of "1234\xFE\xFE\xFD", split inside the 2-byte header and inside the body, drained
example : dobs noCopy [.feed .copy [3, 0x31, 0x32, 0x33, 2], .consume 9, .feed .borrow [0, 0x34], .advance 1,
      .feed .copy [0xFE, 0, 0]]
    = some (none, [0x31, 0x32, 0x33, 0x34], [0xFE, 0xFE, 0xFD], false) := by decide +kernel
example : Spec.decode tp [3, 0x31, 0x32, 0x33, 2, 0, 0x34, 0xFE, 0, 0] = some [0x31, 0x32, 0x33, 0x34, 0xFE, 0xFE, 0xFD] := by
  decide
-- errors: cut short (verdict at `finish`), and a bad first header digit after an empty first chunk:
-- the owed FE FD was pushed before the header byte was rejected
example : dobs exPol [.feed .borrow [2, 0x31]] = some (some .cutShort, [], [0x31], false) := by decide +kernel
example : dobs exPol [.feed .copy [0], .feed .borrow [0xFD, 7]]
    = some (some (.invalidHeaderByte false 0xFD), [], [0xFE, 0xFD], false) := by decide +kernel

end Woodpile.Props.C01W

/-
C03 (public-API completion, track `apigaps`) — the remaining public entry points of `owning_iovec`
behave as the same FIFO byte pipe.

`Props/C03.lean` proves the pipe refinement for histories of push / push_copy / push_borrowed /
extend / register_patch / backfill / clear / consume / pop / advance_slices / Read that start from
`OwningIovec::new()`.  This module covers the public functions that were outside that vocabulary,
each modelled in `Model/IovecApi.lean` and exercised by the `iovec` correspondence family
(op words `from_iter`, `from_iter_ref`, `new_from_slices_arena`, `front`, `iter`, `flatten_into`,
`stable`, `try_stable`, `sc_*`, `sink_*`):

* constructors with initial contents (`FromIterator<IoSlice>`, `FromIterator<&IoSlice>`,
  `new_from_slices(slices, Some(arena))`): the new iovec satisfies the invariant of C03 and abstracts
  to the pipe holding the concatenation, so every C03 / C04 theorem applies to histories that start
  from it (`from_iter_abs`, `new_from_slices_arena_abs`, `from_iter_then_run`);
* read accessors (`front`, `IntoIterator for &OwningIovec`, `iovs`, `flatten`, `flatten_into(dst)`,
  `StableIovec::{iovs, flatten, flatten_into}`): they return the stable bytes of the pipe, in order,
  `dst` kept in front (`front_is_first_stable`, `iter_is_stable_prefix`, `flatten_into_appends`,
  `stable_views_complete`);
* `impl Read for ConsumingIovec` as written (loop of `front()` + `advance_slices()`) is the `readInto`
  of C03 (`read_takes_stable_prefix`);
* `ZeroCopySink` (for `OwningIovec`, for `&mut T`, through `dyn`) is `push_copy` / `push`
  (`sink_refines`);
* consumer calls made through a `StableIovec` or through the `ConsumingIovec` that
  `stable_consumer()` returns as its error are the plain consumer calls (`stable_consumer_calls`).
-/
import Woodpile.Proofs.IovecApi

namespace Woodpile.Props.C03A
open Woodpile.Iovec Woodpile.Iovec.Api Woodpile.Arena
open Woodpile.Pipe (Cell Pipe)

/-- `new_from_slices(slices, arena)` over freshly lent caller buffers `bufs` (empty ones included),
with an arena whose cache, if any, is an already allocated chunk: the new iovec `i` satisfies the C03
invariant and abstracts to the pipe that holds exactly the concatenation of the buffers, in order,
nothing pending, nothing consumed.  `arena = none`-cache is `from_iter`. -/
theorem new_from_slices_abs (w w1 w2 : World) (bufs : List (List UInt8)) (ss : List Slice) (ar : Arena) (i : Nat)
    (har : ∀ ca, ar.cache = some ca → ca.chunk < w.next)
    (h1 : w.addExts bufs = (w1, ss)) (h2 : w1.newFromSlices ss ar = (w2, i)) :
    Inv i ⟨w2, [], 0⟩ ∧ abs i ⟨w2, [], 0⟩ = Woodpile.Pipe.empty.append bufs.flatten ∧
    ∃ v, w2.iov i = some v ∧ w2.visible v = bufs.flatten ∧ v.hasPending = false ∧
      v.totalSize = bufs.flatten.length ∧ v.arena = ar ∧ ∀ s ∈ v.slices, 0 < s.len := by
  rw [addExts_eq] at h1
  simp only [Prod.mk.injEq] at h1
  obtain ⟨rfl, rfl⟩ := h1
  have hspec := extSlices_spec bufs w.exts { w with exts := w.exts ++ bufs } rfl
  obtain ⟨v, hv, hi, hb, hc, ha, hs, hf⟩ := newFromSlices_spec { w with exts := w.exts ++ bufs }
    (extSlices w.exts.length bufs) ar (extSlices_ext _ _) hspec.2 har
  rw [h2] at hv hi hf
  simp only at hv hi hf
  rw [hspec.1] at hf
  have hcells : absCells w2 v = bufs.flatten.map Cell.byte := by rw [absCells_no_backrefs w2 v hb, hf]
  have hvis : w2.visible v = bufs.flatten := by rw [visible_no_backrefs w2 v hb, hf]
  refine ⟨⟨v, hv, hi⟩, ?_, v, hv, hvis, ?_, ?_, ha, fun s hs' => (hi.slices_ok s hs').pos⟩
  · rw [abs_eq i _ v hv]
    simp [hcells, Pipe.append, Woodpile.Pipe.empty]
  · simp [Iov.hasPending, hb]
  · have h3 := hi.flat_length
    have h4 := hi.size_eq
    rw [hf] at h3
    simp only [Iov.totalSize]
    omega

/-- `FromIterator<IoSlice>` and `FromIterator<&IoSlice>` (`iter.collect()`): the iovec built from the
slices abstracts to the pipe holding their concatenation. -/
theorem from_iter_abs (w w1 w2 : World) (bufs : List (List UInt8)) (ss : List Slice) (i : Nat)
    (h1 : w.addExts bufs = (w1, ss)) (h2 : w1.fromIter ss = (w2, i) ∨ w1.fromIterRef ss = (w2, i)) :
    Inv i ⟨w2, [], 0⟩ ∧ abs i ⟨w2, [], 0⟩ = Woodpile.Pipe.empty.append bufs.flatten ∧
    ∃ v, w2.iov i = some v ∧ w2.visible v = bufs.flatten ∧ v.hasPending = false ∧
      v.totalSize = bufs.flatten.length := by
  have h2' : w1.newFromSlices ss ⟨none⟩ = (w2, i) := by
    rcases h2 with h | h <;> exact h
  obtain ⟨a, b, v, c, d, e, f, _⟩ := new_from_slices_abs w w1 w2 bufs ss ⟨none⟩ i (by intro ca h; cases h) h1 h2'
  exact ⟨a, b, v, c, d, e, f⟩

/-- `new_from_slices(slices, Some(arena))` with the detached arena `j` of a world in which every
detached arena's cache is an allocated chunk. -/
theorem new_from_slices_arena_abs (w w1 w2 : World) (bufs : List (List UInt8)) (ss : List Slice) (i j : Nat)
    (har : ∀ ar ca, w.arena j = some ar → ar.cache = some ca → ca.chunk < w.next)
    (h1 : w.addExts bufs = (w1, ss)) (h2 : w1.newFromSlicesArena j ss = some (w2, i)) :
    Inv i ⟨w2, [], 0⟩ ∧ abs i ⟨w2, [], 0⟩ = Woodpile.Pipe.empty.append bufs.flatten ∧
    ∃ v, w2.iov i = some v ∧ w2.visible v = bufs.flatten ∧ v.hasPending = false ∧
      w.arena j = some v.arena := by
  have hw1 : w1 = { w with exts := w.exts ++ bufs } := by rw [addExts_eq] at h1; exact (Prod.mk.inj h1).1.symm
  have harena : w1.arena j = w.arena j := by rw [hw1]; rfl
  unfold World.newFromSlicesArena at h2
  rw [harena] at h2
  cases ha : w.arena j with
  | none => rw [ha] at h2; cases h2
  | some ar =>
    rw [ha] at h2
    simp only [Option.some.injEq] at h2
    have h1' : w.addExts bufs = ({ w with exts := w.exts ++ bufs }, ss) := by rw [h1, hw1]
    have h1'' : (w.setArena j none).addExts bufs = (w1.setArena j none, ss) := by
      rw [addExts_eq] at h1 ⊢
      simp only [Prod.mk.injEq] at h1
      obtain ⟨rfl, rfl⟩ := h1
      rfl
    obtain ⟨a, b, v, c, d, e, _, g, _⟩ := new_from_slices_abs (w.setArena j none) (w1.setArena j none) w2 bufs ss ar i
      (fun ca hca => har ar ca ha hca) h1'' h2
    exact ⟨a, b, v, c, d, e, by rw [g]⟩

/-- … and every later history on it is a pipe history from that concatenation: the whole of C03
(FIFO, sizes, exact consumer reports) continues from a `from_iter` / `new_from_slices` iovec. -/
theorem from_iter_then_run (w w1 w2 : World) (bufs : List (List UInt8)) (ss : List Slice) (ar : Arena) (i : Nat)
    (har : ∀ ca, ar.cache = some ca → ca.chunk < w.next)
    (h1 : w.addExts bufs = (w1, ss)) (h2 : w1.newFromSlices ss ar = (w2, i))
    (ops : List Op) (s' : State) (rs : List Ret) (h : run i ⟨w2, [], 0⟩ ops = some (s', rs)) :
    Inv i s' ∧ abs i s' = specRun (Woodpile.Pipe.empty.append bufs.flatten) ops rs ∧
      specOkRun (Woodpile.Pipe.empty.append bufs.flatten) ops rs := by
  obtain ⟨hinv, habs, _⟩ := new_from_slices_abs w w1 w2 bufs ss ar i har h1 h2
  have := run_refines i (fun _ => True) (fun s op _ hinv s' r h => step_refines i s s' op r hinv h)
    ops ⟨w2, [], 0⟩ s' rs (fun _ _ => trivial) hinv h
  rwa [habs] at this

/-- `front()`: `None` exactly when the pipe exposes no byte; otherwise a non-empty slice of the stable
prefix whose bytes are the next bytes the pipe hands out. -/
theorem front_is_first_stable (i : Nat) (s : State) (hinv : Inv i s) :
    ∃ v, s.w.iov i = some v ∧
      ((v.front = some none ∧ s.w.visible v = []) ∨
       (∃ sl, v.front = some (some sl) ∧ sl ∈ v.slices.take v.stableN ∧ 0 < sl.len ∧
          s.w.sliceBytes sl ≠ [] ∧ s.w.sliceBytes sl <+: s.w.visible v ∧
          s.w.sliceBytes sl <+: (abs i s).stable)) := by
  obtain ⟨v, hv, hi⟩ := hinv
  refine ⟨v, hv, ?_⟩
  rcases front_cases hi with h | ⟨sl, h1, h2, h3, h4, h5⟩
  · exact Or.inl h
  · exact Or.inr ⟨sl, h1, h2, h3, h4, h5, h5.trans (visible_prefix_stable i s v hv hi)⟩

/-- `IntoIterator for &OwningIovec` and `iovs()`: exactly the slices of the stable prefix, whose
concatenated bytes are the readable bytes; `iovs()` is `Ok` iff the pipe has no hole. -/
theorem iter_is_stable_prefix (i : Nat) (s : State) (hinv : Inv i s) :
    ∃ v, s.w.iov i = some v ∧ v.iter = some (v.slices.take v.stableN) ∧
      v.iovs = some (!(abs i s).pending, v.slices.take v.stableN) ∧
      s.w.flat (v.slices.take v.stableN) = s.w.visible v ∧ s.w.visible v <+: (abs i s).stable := by
  obtain ⟨v, hv, hi⟩ := hinv
  refine ⟨v, hv, iter_spec hi, ?_, rfl, ?_⟩
  · rw [iovs_spec hi, hasPending_eq_pending hi, abs_eq i s v hv]; rfl
  · exact visible_prefix_stable i s v hv hi

/-- `flatten_into(dst)` (and `flatten()` = `flatten_into([])`): the result is `dst`, untouched, followed
by the readable bytes; it is `Ok` iff the pipe has no hole, and then what follows `dst` is every
buffered byte. -/
theorem flatten_into_appends (i : Nat) (s : State) (hinv : Inv i s) (dst : List UInt8) :
    ∃ v, s.w.iov i = some v ∧
      s.w.flattenInto v dst = some (!(abs i s).pending, dst ++ s.w.visible v) ∧
      s.w.flatten v = some (!(abs i s).pending, s.w.visible v) ∧
      s.w.visible v <+: (abs i s).stable ∧
      ((abs i s).pending = false → s.w.visible v = (abs i s).bytes) := by
  obtain ⟨v, hv, hi⟩ := hinv
  have hpend : v.hasPending = (abs i s).pending := by
    rw [hasPending_eq_pending hi, abs_eq i s v hv]; rfl
  refine ⟨v, hv, ?_, ?_, ?_, ?_⟩
  · rw [flattenInto_spec hi, hpend]
  · unfold World.flatten; rw [flattenInto_spec hi, hpend]; simp
  · exact visible_prefix_stable i s v hv hi
  · intro hp
    rw [← hpend] at hp
    obtain ⟨_, h2⟩ := visible_all_of_no_pending hi hp
    unfold Pipe.bytes
    rw [abs_eq i s v hv]
    simp only
    rw [h2, cellBytes_map_byte]

/-- `stable_consumer()` / `StableIovec::try_from`: `Ok` iff the pipe has no hole; behind the
`StableIovec`, `iovs()` is every slice and `flatten()` / `flatten_into(dst)` return every buffered
byte (after `dst`). -/
theorem stable_views_complete (i : Nat) (s : State) (hinv : Inv i s) (dst : List UInt8) :
    ∃ v, s.w.iov i = some v ∧ v.tryStable = !(abs i s).pending ∧
      (v.tryStable = true →
        s.w.stableIovs v = some v.slices ∧ s.w.stableFlatten v = some (abs i s).bytes ∧
        s.w.stableFlattenInto v dst = some (dst ++ (abs i s).bytes) ∧
        (abs i s).bytes.length = v.totalSize) := by
  obtain ⟨v, hv, hi⟩ := hinv
  refine ⟨v, hv, ?_, ?_⟩
  · rw [tryStable_eq_not_pending hi, abs_eq i s v hv]; rfl
  · intro hs
    obtain ⟨h1, h2, h3, h4⟩ := stable_views hi hs dst
    have hb : (abs i s).bytes = s.w.flat v.slices := by
      unfold Pipe.bytes
      rw [abs_eq i s v hv]
      simp only
      rw [h4, cellBytes_map_byte]
    refine ⟨h1, by rw [h2, hb], by rw [h3, hb], ?_⟩
    rw [hb, hi.flat_length]
    have := hi.size_eq
    simp only [Iov.totalSize]
    omega

/-- `impl Read for ConsumingIovec` as the crate writes it — `while !dst.is_empty() { front(); copy;
advance_slices(n) }` — is the `readInto` operation of C03: into a buffer of `room` bytes it copies
exactly the first `min room |stable bytes|` stable bytes, never a byte at or after a placeholder, and
removes exactly those from the pipe. -/
theorem read_takes_stable_prefix (i : Nat) (s : State) (hinv : Inv i s) (room : Nat) :
    ∃ v w', s.w.iov i = some v ∧
      World.readViaFront (room + 2) s.w i room [] = some (w', (s.w.visible v).take room) ∧
      step i s (.readInto room) = some ({ s with w := w', ghost := s.ghost ++ (s.w.visible v).take room },
        .took ((s.w.visible v).take room).length ((s.w.visible v).take room)) ∧
      (s.w.visible v).take room <+: (abs i s).stable := by
  obtain ⟨v, hv, hi⟩ := hinv
  obtain ⟨w', v', h1, _⟩ := World.readInto_spec i (room + 2) s.w v room [] hv hi (by omega)
  simp only [List.nil_append] at h1
  refine ⟨v, w', hv, by rw [readViaFront_eq, h1], by simp only [step, h1]; rfl, ?_⟩
  exact (List.take_prefix _ _).trans (visible_prefix_stable i s v hv hi)

/-- `ZeroCopySink` for `OwningIovec` (also behind `&mut T` and `dyn ZeroCopySink`): `append_copy` is the
`pushCopy` step and `append_borrow` the size-adaptive `push` step of C03, so both append exactly their
bytes to the pipe and preserve the invariant. -/
theorem sink_refines (i : Nat) (s : State) (hinv : Inv i s) :
    (∀ src w', s.w.appendCopy i src = some w' →
      step i s (.pushCopy src) = some ({ s with w := w' }, .unit) ∧
      Inv i { s with w := w' } ∧ abs i { s with w := w' } = (abs i s).append src) ∧
    (∀ (b : Borrow) w', (s.w.lend b).1.appendBorrow i (s.w.lend b).2 = some w' →
      step i s (.push b) = some ({ s with w := w' }, .unit) ∧
      Inv i { s with w := w' } ∧ abs i { s with w := w' } = (abs i s).append b.bs) := by
  refine ⟨fun src w' h => ?_, fun b w' h => ?_⟩
  · have hs : step i s (.pushCopy src) = some ({ s with w := w' }, .unit) := by
      unfold World.appendCopy at h
      simp only [step, h, Option.map_some]
    obtain ⟨a, b, _⟩ := step_refines i s _ _ _ hinv hs
    exact ⟨hs, a, b⟩
  · have hs : step i s (.push b) = some ({ s with w := w' }, .unit) := by
      unfold World.appendBorrow at h
      simp only [step, h, Option.map_some]
    obtain ⟨a, b', _⟩ := step_refines i s _ _ _ hinv hs
    exact ⟨hs, a, b'⟩

/-- Consumer calls through whatever `stable_consumer()` / `StableIovec::try_from` returned (the
`StableIovec`, or the `ConsumingIovec` handed back as the error) are the plain `consume` /
`advance_slices` / `Read` / `pop_front` of C03, and the side taken is `Ok` iff the pipe has no hole. -/
theorem stable_consumer_calls (i : Nat) (s : State) (hinv : Inv i s) (k : Nat) :
    ∃ v, s.w.iov i = some v ∧ v.tryStable = !(abs i s).pending ∧
      s.w.scConsume i k = (s.w.consume i k).map (fun r => (v.tryStable, r.1, r.2)) ∧
      s.w.scAdvance i k = (s.w.advance i k).map (fun r => (v.tryStable, r.1, r.2)) ∧
      s.w.scRead i k = (World.readInto (k + 2) s.w i k []).map (fun r => (v.tryStable, r.1, r.2)) ∧
      (s.w.scPop i = none ↔ step i s .pop = none) := by
  obtain ⟨v, hv, hi⟩ := hinv
  refine ⟨v, hv, ?_, ?_, ?_, ?_, ?_⟩
  · rw [tryStable_eq_not_pending hi, abs_eq i s v hv]; rfl
  · unfold World.scConsume; rw [hv]; cases s.w.consume i k <;> rfl
  · unfold World.scAdvance; rw [hv]; cases s.w.advance i k <;> rfl
  · unfold World.scRead; rw [hv]; cases World.readInto (k + 2) s.w i k [] <;> rfl
  · unfold World.scPop
    simp only [step, hv]
    cases hc : s.w.consume i 1 with
    | none => simp
    | some r =>
      obtain ⟨w', n⟩ := r
      by_cases hn : n = 1
      · subst hn; simp
      · cases n with
        | zero => simp
        | succ m =>
          cases m with
          | zero => exact absurd rfl hn
          | succ m' => simp

/-! ### Non-vacuity (production thresholds 64 / 256, 4 KiB first chunk) -/

def exPol : Policy := ⟨64, 256⟩
def exTun : Tuning := ⟨[4096, 8192], 4096⟩
def w0 : World := World.init exPol exTun

/-- `from_iter` of `[1,2] [] [3]`, then what the read accessors return. -/
def exFromIter : World × Nat :=
  let (w1, ss) := w0.addExts [[1, 2], [], [3]]
  w1.fromIter ss

example : (exFromIter.1.iov exFromIter.2).map (fun v => (v.slices, v.anchors, v.totalSize))
  = some ([⟨.ext 0, 0, 2⟩, ⟨.ext 2, 0, 1⟩], [⟨2, none⟩], 3) := by decide +kernel
example : (exFromIter.1.iov exFromIter.2).map (fun v => (v.front, v.tryStable, exFromIter.1.stableFlatten v))
  = some (some (some ⟨.ext 0, 0, 2⟩), true, some [1, 2, 3]) := by decide +kernel
example : (exFromIter.1.iov exFromIter.2).bind (fun v => exFromIter.1.flattenInto v [9])
  = some (true, [9, 1, 2, 3]) := by decide +kernel

example : (abs exFromIter.2 ⟨exFromIter.1, [], 0⟩).cells = [.byte 1, .byte 2, .byte 3] := by decide +kernel

/-- a history that continues from the `from_iter` iovec: copy, placeholder, copy, then reads -/
def exRun : Option (State × List Ret) :=
  run exFromIter.2 ⟨exFromIter.1, [], 0⟩ [.pushCopy [4], .registerPatch [0, 0], .pushCopy [5], .readInto 2]

example : exRun.map (fun x => (x.2, (abs exFromIter.2 x.1).cells, (abs exFromIter.2 x.1).consumed))
  = some ([.unit, .token (some (6, ⟨2, 1, 2⟩)), .unit, .took 2 [1, 2]],
          [.byte 3, .byte 4, .hole 6, .hole 6, .byte 5], [1, 2]) := by decide +kernel

-- with the placeholder pending: `front` is the borrowed `3`, the arena slice `4 _ _ 5` is hidden as a
-- whole, `flatten_into` is an `Err` that still keeps `dst`, `stable_consumer` is `Err`; `Read` stops
-- before the placeholder
example : exRun.bind (fun x => (x.1.w.iov exFromIter.2).map (fun v => (v.front, v.tryStable, v.iter)))
  = some (some (some ⟨.ext 2, 0, 1⟩), false, some [⟨.ext 2, 0, 1⟩]) := by decide +kernel
example : exRun.bind (fun x => (x.1.w.iov exFromIter.2).bind (fun v => x.1.w.flattenInto v [7, 7]))
  = some (false, [7, 7, 3]) := by decide +kernel
example : exRun.bind (fun x => (World.readViaFront 102 x.1.w exFromIter.2 100 []).map (·.2)) = some [3] := by
  decide +kernel

-- the sink entry points are the push steps
example : ((w0.addIov Iov.empty).1.appendCopy 0 [1, 2]).map (fun w => (w.iov 0).map (·.slices))
  = some (some [⟨.chunk 0, 0, 2⟩]) := by decide +kernel

end Woodpile.Props.C03A

/-
C09, structural half: the lag of the real data path — an `Encoder` / `Decoder`
driving a structural `OwningIovec` (`Woodpile.EncWorld`, see `Props/C01W.lean`
for the run vocabulary) — between calls, under any drain schedule.

"Lag" = `total_size()` minus the bytes of `stable_prefix()`: what has been
appended but cannot be consumed yet.  On the abstract pipe it is
`brLen + cur` (`Props/C09.enc_lag_pipe`); on the iovec the whole SLICE that
holds the pending size header is unavailable, so the bytes merged into that
slice before the header count too.

Partial (`_partial`): (a) input methods borrow / copy only (the anchored method is
outside the proved iovec vocabulary, see `Props/C01W.lean`); (b) the bound by a
constant (`enc_lag_le_partial`) takes as a HYPOTHESIS that the slice holding the
pending header ends within `S` bytes of its chunk (`s.off + s.len ≤ S`).  That an
owned slice lies inside the capacity its chunk was allocated with is the
arena in-capacity invariant (`ArenaInv`, `Proofs/IovecArena.lean` on track
`iovinv`), and that the encoder's own arena never allocates a chunk above 2^20
bytes is `alloc_cap_le_prod` below (requests are ≤ maxSub = 64008 < 2^20); with
both, `S = 2^20` and the bound is the property's `2^20 + 64008 + 2`.  Full
statement (not proved here): `enc_lag_le_partial` without `hcap`, `S := 2^20`.
-/
import Woodpile.Proofs.EncWorldComp
import Woodpile.Props.C02

namespace Woodpile.Props.C09W
open Woodpile.Hcobs Woodpile.Iovec Woodpile.Arena Woodpile.EncWorld

/-- Structural lag of the encoder, exactly: after `Encoder::new` and any calls (any segmentation,
borrow / copy per piece, any interleaved `consume` / `advance_slices`), the iovec has the pending size
header as a backref `e` (`brLen` = 1 or 2 bytes) inside an OWNED slice `s` — one slice, hence inside
ONE arena chunk `c` — at offset `e.begin`, and
`total_size − |stable prefix| = e.begin + brLen + cur`: the bytes of `s` before the header, the
header, and the `cur` bytes of the open chunk written behind it; `cur` (+1 for a held `FE`) is below
the chunk limit. -/
theorem enc_lag_struct_partial (p : Params) (hp : p.Valid) (pol : Policy) (tun : Tuning) (calls : List Call) :
    ∃ r v e s c, encPrefix p pol tun calls = some r ∧ r.w.iov 0 = some v ∧
      e ∈ v.backrefs ∧ e.2.len = r.e.st.brLen ∧ 1 ≤ r.e.st.brLen ∧ r.e.st.brLen ≤ 2 ∧
      v.slices[e.2.sliceIndex - v.consumedSlices]? = some s ∧ s.region = .chunk c ∧
      e.2.begin + r.e.st.brLen ≤ s.len ∧
      v.totalSize - (r.w.visible v).length = e.2.begin + r.e.st.brLen + r.e.st.cur ∧
      r.e.st.cur + (if r.e.st.mid then 1 else 0) < r.e.st.maxChunk ∧
      (r.e.st.maxChunk = p.maxInit ∨ r.e.st.maxChunk = p.maxSub) := by
  obtain ⟨r, v, e, s, c, h1, h2, _, h4, h5, h6, h7, h8, h9, h10, h11, h12, h13⟩ := enc_lag_struct p hp pol tun calls
  exact ⟨r, v, e, s, c, h1, h2, h4, h5, h10, h11, h6, h7, h8, h9, h12, h13⟩

/-- The lag is below the length of the slice holding the header plus the chunk limit; hence, if that
slice ends within `S` bytes of its chunk (`hcap`: the arena in-capacity invariant, NOT proved here —
see the header), below `S + max(maxInit, maxSub)`; with the production parameters and `S = 2^20`
that is within the property's `2^20 + 64008 + 2`. -/
theorem enc_lag_le_partial (p : Params) (hp : p.Valid) (pol : Policy) (tun : Tuning) (calls : List Call) (S : Nat) :
    ∃ r v s c, encPrefix p pol tun calls = some r ∧ r.w.iov 0 = some v ∧ s ∈ v.slices ∧ s.region = .chunk c ∧
      v.totalSize - (r.w.visible v).length < s.len + r.e.st.maxChunk ∧
      (s.off + s.len ≤ S → v.totalSize - (r.w.visible v).length < S + max p.maxInit p.maxSub) := by
  obtain ⟨r, v, e, s, c, h1, h2, _, _, _, _, h7, h8, h9, h10, h11, h12⟩ := enc_lag_struct_partial p hp pol tun calls
  refine ⟨r, v, s, c, h1, h2, List.mem_of_getElem? h7, h8, ?_, ?_⟩
  · split at h11 <;> omega
  · intro hcap
    have : r.e.st.maxChunk ≤ max p.maxInit p.maxSub := by rcases h12 with h | h <;> rw [h] <;> omega
    split at h11 <;> omega

/-- … the production instance of the arithmetic: with `S = 2^20` the bound is `2^20 + 64008`. -/
theorem enc_lag_le_prod_partial (pol : Policy) (tun : Tuning) (calls : List Call) :
    ∃ r v s c, encPrefix C02.prod pol tun calls = some r ∧ r.w.iov 0 = some v ∧ s ∈ v.slices ∧
      s.region = .chunk c ∧
      (s.off + s.len ≤ 1048576 → v.totalSize - (r.w.visible v).length < 1048576 + 64008 + 2) := by
  obtain ⟨r, v, s, c, h1, h2, h3, h4, _, h6⟩ := enc_lag_le_partial C02.prod C02.prod_params_valid pol tun calls 1048576
  refine ⟨r, v, s, c, h1, h2, h3, h4, fun hcap => ?_⟩
  have := h6 hcap
  have hm : max C02.prod.maxInit C02.prod.maxSub = 64008 := by decide
  omega

/-- The encoder's own arena, production tuning (`BUMP_REGION_SIZE_SEQUENCE` / `_FACTOR` as extracted):
serving a request of fewer than 2^20 bytes — every request of the encoder is at most
`maxSub = 64008` bytes — never installs a chunk of more than 2^20 bytes (`find_hint_size`). -/
theorem alloc_cap_le_prod (a : Arena) (next len : Nat) (h : len < 1048576)
    (hc : ∀ c, a.cache = some c → c.cap ≤ 1048576) :
    ∀ c', (alloc prodTuning a next len).1.cache = some c' → c'.cap ≤ 1048576 :=
  EncWorld.alloc_cap_le_prod a next len h hc

/-- Decoder: lag 0.  After `Decoder::new` and any calls (and `finish`, which does not touch the
iovec), whatever the verdict, no backref is pending and the stable prefix is everything buffered. -/
theorem dec_lag_zero_world_partial (p : Params) (pol : Policy) (tun : Tuning) (calls : List Call) :
    ∃ w' dr res v', decRun p pol tun calls = some (w', dr, res) ∧ w'.iov 0 = some v' ∧
      v'.hasPending = false ∧ v'.totalSize - (w'.visible v').length = 0 := by
  obtain ⟨w', v', dr, res, h1, h2, h3, h4, h5, _⟩ := decRun_sim p pol tun calls
  refine ⟨w', dr, res, v', h1, h2, h4, ?_⟩
  rw [h5, h3.flat_length]
  have := h3.size_eq
  unfold Iov.totalSize
  omega

/-! ### Non-vacuity (test parameters ⟨3, 5⟩) -/

/-- (lag, slice lengths, begin of the pending header in its slice, brLen, cur) between calls -/
def lagObs (pol : Policy) (calls : List Call) : Option (Nat × List Nat × List Nat × Nat × Nat) :=
  (encPrefix ⟨3, 5, 253⟩ pol ⟨[4096, 8192], 4096⟩ calls).bind fun r => (r.w.iov 0).map fun v =>
    (v.totalSize - (r.w.visible v).length, v.slices.map (·.len), v.backrefs.map (·.2.begin), r.e.st.brLen, r.e.st.cur)

-- production thresholds: "1234" copied into ONE arena slice [hdr "123" hdr2 "4"]: the pending 2-byte
-- header sits at offset 4 of that 7-byte slice, so the lag is 4 + 2 + 1 = 7 although only 3 bytes
-- are behind a hole on the abstract pipe
example : lagObs ⟨64, 256⟩ [.feed .borrow [0x31, 0x32, 0x33, 0x34]] = some (7, [7], [4], 2, 1) := by decide +kernel
-- borrowed slices kept: the header has its own slice (begin 0) and the lag is the pipe's 2 + 1
example : lagObs ⟨0, 0⟩ [.feed .borrow [0x31, 0x32, 0x33, 0x34]] = some (3, [1, 3, 2, 1], [0], 2, 1) := by
  decide +kernel
-- draining does not change it
example : lagObs ⟨0, 0⟩ [.feed .borrow [0x31, 0x32, 0x33, 0x34], .advance 2] = some (3, [2, 2, 1], [0], 2, 1) := by
  decide +kernel
example : findHintSize prodTuning 64008 4096 = 65536 := by decide
example : findHintSize prodTuning 64008 1048576 = 1048576 := by decide

end Woodpile.Props.C09W

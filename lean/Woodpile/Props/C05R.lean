/-
C05 along the codecs' ANCHORED calls (track `rdrworld`; audit gap 11, the item `Props/C05H.lean` states as
NOT proved): the guard half of `WorldInv` and `ArenaInv` — hence `exposed_live`, `below_bump`, `no_overlap`
— along `encPrefixA` / `encRunA` / `decRunA` runs with ALL input methods (`ACall.read`: `read_n` into the
codec's own arena, `push` of sub-slices of the returned slice, ONE `push_anchor`).

How (`Proofs/AnchGuard.lean`, `Proofs/AnchRun.lean`).  An anchored call is not a `WOp` history and its
intermediate worlds are outside `WorldInv` (the guard of the sub-slices pushed so far is the call's own
`AnchoredSlice`, not an anchor of the deque); between calls a DECODER can leave a zero-count anchor at the
front of an empty deque (`HeadPos` fails, `Props/C05H`).  The invariant carried instead is `HInv i w held`:

* guard: `Guarded (v.anchors ++ zs) v.slices` where `zs` is the zero-count anchor the running call will push
  for the slice `held` it holds (`zs = []` between calls) — every slice in chunk `k` counted by anchor `j` has
  an anchor `j' ≥ j` of the deque holding `k`, OR the held slice's anchor holds `k`;
* arena: `ArenaInv` of the world in which the held slice is registered as one more detached slice
  (`World.holding`): one cache per chunk, EVERY slice — the held one included — below the bump pointer of
  its chunk's cache and inside the chunk's capacity.

Every run is a chain of micro-steps (`HStep`: `push_copy`, `push` of a caller-buffer range, `push` of a range
of the held slice, `register_patch`, `backfill`, drains, lending, `read_n`, `push_anchor`); every micro-step
keeps `HInv` and satisfies the conclusion of `C05.no_overlap` (`anchored_no_overlap`).  No hypothesis on the
parameters, the policy, the tuning, the reader scripts or the call list; "no panic" is `… = some _`.

The encoder's deque is never empty between calls (`Proofs/EncFootprint.encPrefixA_fpb`), so there the full
`WorldInv ∧ ArenaInv` of `Props/C05` holds (`enc_anchored_arenaInv`).
-/
import Woodpile.Proofs.AnchRun
import Woodpile.Props.C05H

namespace Woodpile.Props.C05R
open Woodpile.Hcobs Woodpile.Iovec Woodpile.Arena Woodpile.EncWorld

/-- ENCODER, all input methods, between calls: `WorldInv` (guard AND head condition) and `ArenaInv` — the
hypotheses of every statement of `Props/C05` / `C05G.good_*`. -/
theorem enc_anchored_arenaInv (p : Params) (pol : Policy) (tun : Tuning) (calls : List ACall) (r : Run)
    (h : encPrefixA p pol tun calls = some r) : WorldInv r.w ∧ ∃ caps, ArenaInv r.w caps := by
  have hi := (encPrefixA_hpath p pol tun calls r h).inv (hinv_fresh pol tun)
  obtain ⟨⟨b, hs, v, hv, hf, _⟩, _⟩ := encPrefixA_fpb p pol tun calls r h
  refine hi.good ?_
  intro j x hx
  by_cases e : j = 0
  · subst e; rw [hv] at hx; cases hx; exact hf.headPos
  · rw [hs.onlyIov j e] at hx; cases hx

/-- `C05.exposed_live` between the calls of any encoder run with anchored input. -/
theorem enc_anchored_exposed_live (p : Params) (pol : Policy) (tun : Tuning) (calls : List ACall) (r : Run)
    (h : encPrefixA p pol tun calls = some r) : ∃ caps : Nat → Nat,
    (∀ i v n, r.w.iov i = some v → v.stableCount = some n → ∀ s ∈ v.slices.take n,
      Live r.w s ∧ ∀ k, s.region = .chunk k → k ∈ anchorChunks v.anchors ∧ s.off + s.len ≤ caps k) ∧
    (∀ j a, r.w.aslice j = some a → a.slice.len ≠ 0 →
      Live r.w a.slice ∧ ∃ k, a.slice.region = .chunk k ∧ a.anchor.chunk = some k ∧
        a.slice.off + a.slice.len ≤ caps k) :=
  ((encPrefixA_hpath p pol tun calls r h).inv (hinv_fresh pol tun)).exposed_live

/-- … and after `finish`. -/
theorem enc_anchored_run_exposed_live (p : Params) (pol : Policy) (tun : Tuning) (calls : List ACall) (w' : World)
    (dr : List UInt8) (h : encRunA p pol tun calls = some (w', dr)) : ∃ caps : Nat → Nat,
    (∀ i v n, w'.iov i = some v → v.stableCount = some n → ∀ s ∈ v.slices.take n,
      Live w' s ∧ ∀ k, s.region = .chunk k → k ∈ anchorChunks v.anchors ∧ s.off + s.len ≤ caps k) ∧
    (∀ j a, w'.aslice j = some a → a.slice.len ≠ 0 →
      Live w' a.slice ∧ ∃ k, a.slice.region = .chunk k ∧ a.anchor.chunk = some k ∧
        a.slice.off + a.slice.len ≤ caps k) :=
  ((encRunA_hpath p pol tun calls w' dr h).inv (hinv_fresh pol tun)).exposed_live

/-- `C05.below_bump` between the calls of any encoder run with anchored input, and after `finish`. -/
theorem enc_anchored_below_bump (p : Params) (pol : Policy) (tun : Tuning) (calls : List ACall) :
    (∀ r, encPrefixA p pol tun calls = some r → ∃ caps : Nat → Nat,
      (∀ x x' c c', r.w.cacheAt x = some c → r.w.cacheAt x' = some c' → c.chunk = c'.chunk → x = x') ∧
      (∀ x c, r.w.cacheAt x = some c → c.bump ≤ c.cap ∧ caps c.chunk = c.cap ∧
        ∀ s, r.w.HasSlice s → s.region = .chunk c.chunk → s.off + s.len ≤ c.bump)) ∧
    (∀ w' dr, encRunA p pol tun calls = some (w', dr) → ∃ caps : Nat → Nat,
      (∀ x x' c c', w'.cacheAt x = some c → w'.cacheAt x' = some c' → c.chunk = c'.chunk → x = x') ∧
      (∀ x c, w'.cacheAt x = some c → c.bump ≤ c.cap ∧ caps c.chunk = c.cap ∧
        ∀ s, w'.HasSlice s → s.region = .chunk c.chunk → s.off + s.len ≤ c.bump)) :=
  ⟨fun r h => ((encPrefixA_hpath p pol tun calls r h).inv (hinv_fresh pol tun)).below_bump,
   fun w' dr h => ((encRunA_hpath p pol tun calls w' dr h).inv (hinv_fresh pol tun)).below_bump⟩

/-- DECODER, all input methods, at the end of (hence between the calls of) any run, whatever the verdict:
the guard `C05.slice_guarded` — the anchors count consecutive runs that cover all slices, every slice is
non-empty, and a slice in chunk `k` counted by anchor `m` has an anchor `m' ≥ m` holding `k`.  (The head
condition is false here: `Props/C05H`, header-only input.) -/
theorem dec_anchored_guard (p : Params) (pol : Policy) (tun : Tuning) (calls : List ACall) (w' : World)
    (dr : List UInt8) (res : Except DecErr Unit) (h : decRunA p pol tun calls = some (w', dr, res))
    {v : Iov} (hv : w'.iov 0 = some v) :
    countSum v.anchors = v.slices.length ∧
    ∀ n s, v.slices[n]? = some s →
      0 < s.len ∧ ∃ m, Counts v.anchors m n ∧ ∀ k, s.region = .chunk k →
        ∃ m' : Nat, ∃ a : Anchor, m ≤ m' ∧ v.anchors[m']? = some a ∧ a.chunk = some k :=
  ((decRunA_hpath p pol tun calls w' dr res h).inv (hinv_fresh pol tun)).slice_guarded hv

/-- `C05.exposed_live` for decoder runs with anchored input. -/
theorem dec_anchored_exposed_live (p : Params) (pol : Policy) (tun : Tuning) (calls : List ACall) (w' : World)
    (dr : List UInt8) (res : Except DecErr Unit) (h : decRunA p pol tun calls = some (w', dr, res)) :
    ∃ caps : Nat → Nat,
    (∀ i v n, w'.iov i = some v → v.stableCount = some n → ∀ s ∈ v.slices.take n,
      Live w' s ∧ ∀ k, s.region = .chunk k → k ∈ anchorChunks v.anchors ∧ s.off + s.len ≤ caps k) ∧
    (∀ j a, w'.aslice j = some a → a.slice.len ≠ 0 →
      Live w' a.slice ∧ ∃ k, a.slice.region = .chunk k ∧ a.anchor.chunk = some k ∧
        a.slice.off + a.slice.len ≤ caps k) :=
  ((decRunA_hpath p pol tun calls w' dr res h).inv (hinv_fresh pol tun)).exposed_live

/-- `C05.below_bump` for decoder runs with anchored input. -/
theorem dec_anchored_below_bump (p : Params) (pol : Policy) (tun : Tuning) (calls : List ACall) (w' : World)
    (dr : List UInt8) (res : Except DecErr Unit) (h : decRunA p pol tun calls = some (w', dr, res)) :
    ∃ caps : Nat → Nat,
    (∀ x x' c c', w'.cacheAt x = some c → w'.cacheAt x' = some c' → c.chunk = c'.chunk → x = x') ∧
    (∀ x c, w'.cacheAt x = some c → c.bump ≤ c.cap ∧ caps c.chunk = c.cap ∧
      ∀ s, w'.HasSlice s → s.region = .chunk c.chunk → s.off + s.len ≤ c.bump) :=
  ((decRunA_hpath p pol tun calls w' dr res h).inv (hinv_fresh pol tun)).below_bump

/-- Every encoder run (between calls; after `finish`) and every decoder run, all input methods, is a chain
of micro-steps (`HStep`) from the fresh world, and at EVERY micro-step — also in the middle of an anchored
call, where the call holds the slice `read_n` returned — `StepGood` holds (spelled out by `step_good`). -/
theorem anchored_no_overlap (p : Params) (pol : Policy) (tun : Tuning) (calls : List ACall) :
    (∀ r, encPrefixA p pol tun calls = some r → HPathP 0 (StepGood 0) (World.fresh pol tun) none r.w none) ∧
    (∀ w' dr, encRunA p pol tun calls = some (w', dr) → HPathP 0 (StepGood 0) (World.fresh pol tun) none w' none) ∧
    (∀ w' dr res, decRunA p pol tun calls = some (w', dr, res) →
      HPathP 0 (StepGood 0) (World.fresh pol tun) none w' none) :=
  ⟨fun r h => (encPrefixA_hpath p pol tun calls r h).all_fresh (hinv_fresh pol tun),
   fun w' dr h => (encRunA_hpath p pol tun calls w' dr h).all_fresh (hinv_fresh pol tun),
   fun w' dr res h => (decRunA_hpath p pol tun calls w' dr res h).all_fresh (hinv_fresh pol tun)⟩

/-- What `StepGood` says of one micro-step `(w, held) → (w', held')` on iovec `i`, on the worlds in which the
held slice counts as one more detached slice (`World.holding`):

1. before the step, every slice of iovec `i` in chunk `k` is guarded by an anchor of the deque or by the held
   slice's anchor, and the chunk ordinal has been allocated;
2. before and after, one cache per chunk and EVERY slice (held one included) below the bump pointer of its
   chunk's cache;
3. distinct allocations never overlap (the conclusion of `C05.no_overlap`): ONE range `[lo, hi)` of one chunk
   `k`, at or above the end of every slice that existed in `k`, such that every slice after the step is a
   sub-range / in-place merge of an old one, or lies inside `[lo, hi)`, or is an old slice that ended exactly
   at `lo` extended in place to `hi`. -/
theorem step_good {i : Nat} {w w' : World} {held held' : Option ASlice} (h : StepGood i w held w' held') :
    (∀ v s k, w.iov i = some v → s ∈ v.slices → s.region = .chunk k →
      k < w.next ∧ (k ∈ anchorChunks v.anchors ∨ ∃ a, held = some a ∧ a.anchor.chunk = some k)) ∧
    (∃ caps, ArenaInv (w.holding held) caps) ∧ (∃ caps', ArenaInv (w'.holding held') caps') ∧
    ∃ k lo hi, lo ≤ hi ∧
      (∀ s, (w.holding held).HasSlice s → s.region = .chunk k → s.off + s.len ≤ lo) ∧
      (∀ s', (w'.holding held').HasSlice s' → (w.holding held).Derived s' ∨
        (s'.region = .chunk k ∧ lo ≤ s'.off ∧ s'.off + s'.len ≤ hi) ∨
        (∃ l, (w.holding held).HasSlice l ∧ s'.region = l.region ∧ l.region = .chunk k ∧ s'.off = l.off ∧
          l.off + l.len = lo ∧ s'.off + s'.len = hi)) := by
  obtain ⟨h1, h2, h3⟩ := h
  refine ⟨?_, h1.arena, h2.arena, h3⟩
  intro v s k hv hs hk
  have hok := h1.iovOk i v hv
  rw [if_pos rfl] at hok
  have hm := (hok.guard.mem s hs).2 k hk
  refine ⟨hok.anchorsLt k hm, ?_⟩
  rw [anchorChunks_append, List.mem_append] at hm
  rcases hm with hm | hm
  · exact Or.inl hm
  · right
    cases held with
    | none => simp [heldZs, anchorChunks] at hm
    | some a =>
      refine ⟨a, rfl, ?_⟩
      rw [mem_anchorChunks] at hm
      obtain ⟨z, hz, hzk⟩ := hm
      simp only [heldZs, List.mem_singleton] at hz
      subst hz
      exact hzk

/-! ### Non-vacuity -/

private def tp : Params := ⟨3, 5, 253⟩
private def tun : Tuning := ⟨[4096, 8192], 4096⟩

-- a decoder fed two anchored reads: the first borrowed sub-slice (chunk 0, bytes 1..3) is counted by the
-- anchor `⟨1, none⟩` and guarded by the LATER anchors `⟨_, some 0⟩` pushed by the calls' `push_anchor`
example : (decRunA tp ⟨0, 0⟩ tun [.read 8 1 [2, 7, 8] [.deliver 3], .read 8 1 [0, 9] [.deliver 2]]).map
    (fun x => ((x.1.iov 0).map (fun v => (v.slices, v.anchors)), x.1.liveChunks)) =
    some (some ([⟨.chunk 0, 1, 2⟩, ⟨.chunk 0, 5, 2⟩], [⟨1, none⟩, ⟨1, some 0⟩, ⟨0, some 0⟩]), [0]) := by
  decide +kernel
-- an encoder fed an anchored read (policy: never copy): the borrowed slice `⟨chunk 0, 0, 4⟩` of the read block
-- sits next to the copied header / terminator bytes above it; the call's anchor is the zero-count one
example : (encPrefixA tp ⟨0, 0⟩ tun [.read 8 1 [1, 2, 3, 4] [.deliver 4]]).map
    (fun x => ((x.w.iov 0).map (fun v => (v.slices, v.anchors)), x.w.liveChunks)) =
    some (some ([⟨.chunk 0, 0, 4⟩, ⟨.chunk 0, 5, 2⟩, ⟨.chunk 0, 4, 1⟩], [⟨3, some 0⟩, ⟨0, some 0⟩]), [0]) := by
  decide +kernel
-- the decoder state the head condition fails in (`Props/C05H`) satisfies the guard: nothing to guard
example : (decRunA tp ⟨0, 0⟩ tun [.read 4 1 [2] [.deliver 1]]).map
    (fun x => (x.1.iov 0).map (fun v => (v.slices, v.anchors, countSum v.anchors))) =
    some (some ([], [⟨0, some 0⟩], 0)) := by decide +kernel

end Woodpile.Props.C05R

/-
C05 for `StreamChunker` chunks and `StreamReader` records (track `rdrworld`; audit gap 11, the last two rows
of the C05 table): "each byte slice reachable through … a StreamChunker chunk or a StreamReader record lies
entirely inside memory that is still alive", over "StreamChunker/StreamReader runs over arbitrary streams and
block sizes".

Model: `Model/StreamWorld.lean` — `pump` / `next_record_bytes` on the structural `World` (the arena is a
detached arena or the decoder iovec's; `StreamChunker::buf` and every `Chunk::Data` handed out are detached
`AnchoredSlice`s of the world; a record is the iovec `self.iovec`).  Liveness is derived from holders, as
everywhere in C05.

* CHUNKER (`pump` on any arena, any reader script, any block size, from any reachable world): `pump` is a run
  of operations of the `iovec` vocabulary (`pump_is_wrun`), so the world stays `Reachable` and EVERY theorem of
  `Props/C05` applies as stated; spelled out for the chunk handed out and for the chunks handed out earlier
  that the caller still holds (`chunk_slices_live`: they are untouched by later pumps only in so far as they
  remain detached slices of a reachable world — `C05.exposed_live` (2) then says: live chunk, own anchor,
  inside the capacity; `C05.below_bump`: below the bump pointer, so later reads land above them).
* READER (`next_record_bytes` with any judge, block size, reader script; any number of calls): the reader's
  world is not a `WOp` history (`decode_anchored` of a chunk: sub-slice pushes, then ONE `push_anchor`); the
  invariant `HInv` of `Props/C05R` is kept by every call (`reader_inv`), hence `record_slices_live`: every
  slice of the record returned lies in a caller-independent live chunk held by the iovec's OWN anchors, inside
  the chunk's capacity, below the bump pointer of the arena that still allocates from it; the guard
  (`record_guarded`) holds in index form; and the chunker's buffered tail is a live detached slice
  (`reader_chunks_live`).
* WHAT bytes are returned is the subject of C06 / C08 (byte-level `Model/Stream.lean`); the world-level model
  returns exactly the same, for every history: CHUNKER `pump_world_agrees`, `chunker_world_agrees`
  (`Proofs/StreamWorldRef.lean`); READER `reader_next_agrees`, `reader_world_agrees`
  (`Proofs/StreamWorldRd.lean`: same verdict and range, the byte-level record is the flattened iovec).  The
  correspondence families `chunkerw` / `readerw` compare the world-level model with the real code on the bytes AND
  on the placement (chunk ordinal, offset, length) of every slice handed out and on the live set after every call.
-/
import Woodpile.Proofs.StreamWorldRd
import Woodpile.Props.C05

namespace Woodpile.Props.C05S
open Woodpile.Hcobs Woodpile.Iovec Woodpile.Arena Woodpile.Stream Woodpile.StreamWorld Woodpile.ReadN

/-- `StreamChunker::pump` (any arena position, block size, reader) is a run of `iovec`-family operations. -/
theorem pump_is_wrun {clamp : Nat} {X : ArenaAt} {block : Nat} {s s' : PumpSt} {res : PumpResW}
    (h : pumpW clamp X block s = some (res, s')) : ∃ ops : List WOp, s.w.run ops = some s'.w :=
  pumpW_run h

/-- From a reachable world `pump` leads to a reachable world: `Props/C05` (and `C10`, `C20`) apply. -/
theorem pump_reachable {clamp : Nat} {X : ArenaAt} {block : Nat} {s s' : PumpSt} {res : PumpResW}
    (hr : Reachable s.w) (h : pumpW clamp X block s = some (res, s')) : Reachable s'.w :=
  pumpW_reachable hr h

/-- Every non-empty detached anchored slice of the world after a `pump` — the `Data` chunk just handed out,
the chunker's buffered tail, every chunk handed out earlier that has not been dropped — lies in a live chunk
kept alive by its OWN anchor, inside the chunk's capacity and below the bump pointer of any arena that still
allocates from that chunk. -/
theorem chunk_slices_live {clamp : Nat} {X : ArenaAt} {block : Nat} {s s' : PumpSt} {res : PumpResW}
    (hr : Reachable s.w) (h : pumpW clamp X block s = some (res, s')) : ∃ caps : Nat → Nat,
    ∀ j a, s'.w.aslice j = some a → a.slice.len ≠ 0 →
      Live s'.w a.slice ∧ ∃ k, a.slice.region = .chunk k ∧ a.anchor.chunk = some k ∧
        a.slice.off + a.slice.len ≤ caps k ∧
        ∀ x c, s'.w.cacheAt x = some c → c.chunk = k → a.slice.off + a.slice.len ≤ c.bump := by
  obtain ⟨caps, hg⟩ := C05.reachable_has_caps (pumpW_reachable hr h)
  refine ⟨caps, fun j a ha hl => ?_⟩
  obtain ⟨h1, k, h2, h3, h4⟩ := (C05.exposed_live hg).2 j a ha hl
  refine ⟨h1, k, h2, h3, h4, fun x c hc hk => ?_⟩
  exact ((C05.below_bump hg).2 x c hc).2.2 a.slice (Or.inr ⟨j, a, ha, rfl⟩) (by rw [h2, hk])

/-- `next_record_bytes` keeps the ownership invariant of the reader's world, whatever it returns (a record,
`None`, an I/O error), for every judge, block size and reader script; a new reader satisfies it. -/
theorem reader_inv (clamp : Nat) (p : Params) (judge : Judge) (block : Option Nat) {x x' : RdSt} {res : NextResW}
    (h : Rinv x) (hn : nextW clamp p judge block x = some (res, x')) : Rinv x' :=
  nextW_rinv clamp p judge block h hn

theorem reader_inv_new (pol : Policy) (tun : Tuning) : Rinv (RdSt.new pol tun) := rinv_new pol tun

/-- Any number of calls (each with its own judge and block size; the reader script may be replaced between
calls): the invariant holds after the last one. -/
theorem reader_inv_calls (clamp : Nat) (p : Params) :
    ∀ (calls : List (Judge × Option Nat × Reader)) (x x' : RdSt), Rinv x →
      (calls.foldlM (fun (y : RdSt) (c : Judge × Option Nat × Reader) =>
        (nextW clamp p c.1 c.2.1 { y with r := c.2.2 }).map (·.2)) x) = some x' → Rinv x' := by
  intro calls
  induction calls with
  | nil => intro x x' h hc; simp only [List.foldlM, pure, Option.some.injEq] at hc; rw [← hc]; exact h
  | cons c t ih =>
    intro x x' h hc
    simp only [List.foldlM_cons, bind, Option.bind] at hc
    cases hn : nextW clamp p c.1 c.2.1 { x with r := c.2.2 } with
    | none => rw [hn] at hc; cases hc
    | some y =>
      rw [hn] at hc
      exact ih y.2 x' (nextW_rinv clamp p c.1 c.2.1 (x := { x with r := c.2.2 }) h hn) hc

/-- Every slice of the record `next_record_bytes` hands out (the iovec `self.iovec` after a call that
returned `Some`; in fact after any call) is a live slice: it lies in a chunk of the derived live set that the
iovec's OWN anchors hold, inside the chunk's capacity, below the bump pointer of any arena that still
allocates from that chunk. -/
theorem record_slices_live (clamp : Nat) (p : Params) (judge : Judge) (block : Option Nat) {x x' : RdSt}
    {res : NextResW} (h : Rinv x) (hn : nextW clamp p judge block x = some (res, x')) : ∃ caps : Nat → Nat,
    ∀ v, x'.w.iov x'.s.iov = some v → ∀ s ∈ v.slices,
      Live x'.w s ∧ ∀ k, s.region = .chunk k → k ∈ anchorChunks v.anchors ∧ s.off + s.len ≤ caps k ∧
        ∀ y c, x'.w.cacheAt y = some c → c.chunk = k → s.off + s.len ≤ c.bump := by
  have hi := nextW_rinv clamp p judge block h hn
  obtain ⟨caps, ha⟩ := hi.arena
  simp only [holding_none] at ha
  refine ⟨caps, fun v hv s hs => ?_⟩
  have hok := hinv_iovOk hi hv
  have hg : ∀ k, s.region = .chunk k → k ∈ anchorChunks v.anchors := by
    intro k hk
    have := (hok.guard.mem s hs).2 k hk
    simpa using this
  refine ⟨?_, fun k hk => ⟨hg k hk, ha.inCap s k (Or.inl ⟨_, v, hv, hs⟩) hk, fun y c hc hck => ?_⟩⟩
  · unfold Live
    split
    · rename_i b hb; exact hok.extOk s hs b hb
    · rename_i k hk
      have := hg k hk
      exact mem_liveChunks.2 ⟨hok.anchorsLt k (by simpa using this), Or.inl ⟨_, v, hv, Or.inr this⟩⟩
  · exact ha.below y c s hc (Or.inl ⟨_, v, hv, hs⟩) (by rw [hk, hck])

/-- The guard of the record's iovec, index form (`C05.slice_guarded`). -/
theorem record_guarded (clamp : Nat) (p : Params) (judge : Judge) (block : Option Nat) {x x' : RdSt}
    {res : NextResW} (h : Rinv x) (hn : nextW clamp p judge block x = some (res, x')) {v : Iov}
    (hv : x'.w.iov x'.s.iov = some v) :
    countSum v.anchors = v.slices.length ∧
    ∀ n s, v.slices[n]? = some s →
      0 < s.len ∧ ∃ m, Counts v.anchors m n ∧ ∀ k, s.region = .chunk k →
        ∃ m' : Nat, ∃ a : Anchor, m ≤ m' ∧ v.anchors[m']? = some a ∧ a.chunk = some k :=
  (nextW_rinv clamp p judge block h hn).slice_guarded hv

/-- The chunker's buffered tail (and any other detached slice of the reader's world) after a call. -/
theorem reader_chunks_live (clamp : Nat) (p : Params) (judge : Judge) (block : Option Nat) {x x' : RdSt}
    {res : NextResW} (h : Rinv x) (hn : nextW clamp p judge block x = some (res, x')) : ∃ caps : Nat → Nat,
    ∀ j a, x'.w.aslice j = some a → a.slice.len ≠ 0 →
      Live x'.w a.slice ∧ ∃ k, a.slice.region = .chunk k ∧ a.anchor.chunk = some k ∧
        a.slice.off + a.slice.len ≤ caps k := by
  obtain ⟨caps, _, h2⟩ := (nextW_rinv clamp p judge block h hn).exposed_live
  exact ⟨caps, h2⟩

/-! ### The world-level chunker returns what the byte-level chunker (C08 / C06) returns -/

/-- One `pump`: same verdict, same offset, the handle of a `Data` chunk names a non-empty detached slice of
the world that holds exactly the byte-level chunk's bytes, same reader position and request sizes; and the
world's `self.buf` keeps holding the byte-level buffer (`CRel`).  For ANY tuning / arena on the byte-level
side (they do not influence its result: `Stream.pump_arena`). -/
theorem pump_world_agrees (clamp : Nat) (X : ArenaAt) (block : Nat) (t : Tuning) (s : PumpSt) (c : Chunker) (m : Mem)
    (res : PumpResW) (s' : PumpSt) (hrel : CRel s.w s.c c) (h : pumpW clamp X block s = some (res, s')) :
    ResRel s'.w res (pump clamp t block c m s.r).res ∧ CRel s'.w s'.c (pump clamp t block c m s.r).chunker ∧
    s'.r = (pump clamp t block c m s.r).reader ∧ s'.reqs = (pump clamp t block c m s.r).reqs :=
  let ⟨h1, h2, h3, h4, _⟩ := pumpW_refines clamp X block t s c m res s' hrel h
  ⟨h1, h2, h3, h4⟩

/-- A new chunker is related to the byte-level `Chunker.new`. -/
theorem chunker_new_rel (w : World) : CRel (ChunkerW.create w).1 (ChunkerW.create w).2 Chunker.new :=
  ⟨⟨ASlice.empty, by
      show (w.addASlice ASlice.empty).1.aslice w.aslices.length = _
      rw [aslice_addASlice, if_pos rfl], sliceBytes_empty _, rfl⟩, rfl⟩

/-- Every history of a new chunker and its caller — pumps with any block sizes on any arena, interleaved with
the caller dropping chunks it was handed; any stream and reader script; from ANY world — returns, pump by pump,
exactly the chunks of the byte-level chunker `Stream.pumpSeq` (verdicts, offsets and bytes), and leaves the
reader where it leaves it.  So everything C08 / C06 prove about the chunks (tiling, no stuff sequence inside or
across `Data` chunks, …) holds of the world-level chunker whose slices `chunk_slices_live` is about. -/
theorem chunker_world_agrees (clamp : Nat) (X : ArenaAt) (t : Tuning) (w : World) (r : Reader) (ops : List COp)
    (m : Mem) (rs : List PumpRes) (s' : PumpSt)
    (h : chunkerRun clamp X ops ⟨(ChunkerW.create w).1, (ChunkerW.create w).2, r, []⟩ = some (rs, s')) :
    rs = (pumpSeq clamp t (blocksOf ops) Chunker.new m r).1 ∧
    s'.r = (pumpSeq clamp t (blocksOf ops) Chunker.new m r).2.2.2 := by
  obtain ⟨h1, _, h3⟩ := chunkerRun_refines clamp X t ops _ Chunker.new m rs s' (chunker_new_rel w) h
  exact ⟨h1, h3⟩

/-- The `Data` chunk a `pump` hands out IS a non-empty detached slice of the world (its handle is not dangling),
holds the byte-level chunk's bytes, and is live: own anchor, live chunk, inside the capacity, below the bump
pointer. -/
theorem data_chunk_live {clamp : Nat} {X : ArenaAt} {block : Nat} (t : Tuning) {s s' : PumpSt} {c : Chunker} (m : Mem)
    {off hd : Nat} (hr : Reachable s.w) (hrel : CRel s.w s.c c)
    (h : pumpW clamp X block s = some (.ok (.data off hd), s')) :
    ∃ a bs, s'.w.aslice hd = some a ∧ (pump clamp t block c m s.r).res = .ok (.data off bs) ∧
      s'.w.sliceBytes a.slice = bs ∧ a.slice.len ≠ 0 ∧ Live s'.w a.slice ∧
      ∃ k, a.slice.region = .chunk k ∧ a.anchor.chunk = some k ∧
        ∀ x ch, s'.w.cacheAt x = some ch → ch.chunk = k → a.slice.off + a.slice.len ≤ ch.bump := by
  obtain ⟨h1, _, _, _⟩ := pumpW_refines clamp X block t s c m _ s' hrel h
  cases hres : (pump clamp t block c m s.r).res with
  | ioerr k => rw [hres] at h1; exact absurd h1 (by simp [ResRel])
  | panic => rw [hres] at h1; exact absurd h1 (by simp [ResRel])
  | ok ch =>
    rw [hres] at h1
    cases ch with
    | sentinel o => exact absurd h1 (by simp [ResRel])
    | eof => exact absurd h1 (by simp [ResRel])
    | data o bs =>
      obtain ⟨rfl, a, ha, hb, hl, hne⟩ := h1
      have hl0 : a.slice.len ≠ 0 := by
        rw [hl]; intro e; exact hne (List.length_eq_zero_iff.mp e)
      obtain ⟨caps, hc⟩ := chunk_slices_live hr h
      obtain ⟨g1, k, g2, g3, _, g5⟩ := hc hd a ha hl0
      exact ⟨a, bs, ha, rfl, hb, hl0, g1, k, g2, g3, g5⟩

/-- READER, one call: from related states (`RRel0`: the world's `self.buf` holds the byte-level buffer, same
`last_sentinel_offset`, same judge history, the ownership invariant `Rinv`; `Only`: the chunker's buffer is the
only non-empty detached slice), with the same reader, judge and block size, `next_record_bytes` at world level
returns what the byte-level reader of C06 (`Stream.next`, any tuning) returns — `Some` with the same byte range
and with the byte-level record equal to the FLATTENED IOVEC, `None`, the same I/O error — leaves the reader in the
same position, and the states are related again.  (`Proofs/StreamWorldRd.lean`: the iovec satisfies the
single-iovec invariant `IovInv` and every detached slice is held with respect to it — `Geo` —; `decode_anchored`
of a chunk appends exactly the decoder's emits — `decFeed_pushed` — and leaves the chunker's buffered tail and its
bytes alone — `FrameOut`.) -/
theorem reader_next_agrees (clamp : Nat) (t : Tuning) (p : Params) (judge : Judge) (block : Option Nat) {x x' : RdSt}
    {s : RdState} {res : NextResW} (h : RRel0 x s) (hon : Only x.w x.s.chunker.buf)
    (hn : nextW clamp p judge block x = some (res, x')) :
    ResN x' res (next clamp t p judge block s x.r).1 ∧ RRel0 x' (next clamp t p judge block s x.r).2.1 ∧
    Only x'.w x'.s.chunker.buf ∧ x'.r = (next clamp t p judge block s x.r).2.2 :=
  nextW_refines clamp t p judge block h hon hn

/-- READER, any number of calls of a new `StreamReader` (each call with its own judge and block size; any
stream and reader script; any policy and tuning of the world, any tuning of the byte-level arena): the results,
as the caller sees them when they are returned (`absNext`: a record is the flattened iovec), are exactly the
results of the byte-level reader of C06, call by call, and the reader ends in the same position.  So everything
C06 proves about `Stream.next` (exactly the valid records, their ranges, `last_sentinel_offset`, …) holds of the
world-level reader whose slices `record_slices_live` is about. -/
theorem reader_world_agrees (clamp : Nat) (t : Tuning) (p : Params) (pol : Policy) (tun : Tuning) (r : Reader)
    (calls : List (Judge × Option Nat)) (rs : List NextRes) (x' : RdSt)
    (h : readerRunW clamp p calls { RdSt.new pol tun with r := r } = some (rs, x')) :
    rs = (readerRunB clamp t p calls RdState.new r).1 ∧ x'.r = (readerRunB clamp t p calls RdState.new r).2.2 := by
  obtain ⟨h0, hon⟩ := rrel0_new pol tun
  have h0' : RRel0 { RdSt.new pol tun with r := r } RdState.new := ⟨h0.crel, h0.ls, h0.hist, h0.rinv⟩
  obtain ⟨a1, _, a3⟩ := readerRun_refines clamp t p calls _ RdState.new rs x' h0' hon h
  exact ⟨a1, a3⟩

/-! ### Non-vacuity -/

private def pol : Policy := ⟨4, 8⟩
private def tun : Tuning := ⟨[16, 32], 16⟩

-- a chunker on a detached arena: the first `Data` chunk (handle 3) sits at chunk 0, offset 0, two bytes;
-- it is still there, live, after two more pumps that read two more blocks
example :
    let w0 := ((World.init pol tun).addArena ⟨none⟩).1
    let (w1, c) := ChunkerW.create w0
    ((pumpW 2 (.arena 0) 3 ⟨w1, c, ⟨[1, 0x61, 0xFE, 0xFD, 2, 0x62, 0x63], [.deliver 100]⟩, []⟩).map
      (fun o => (o.1, (o.2.w.aslice 3).map (·.slice), o.2.w.liveChunks))) =
      some (.ok (.data 2 3), some ⟨.chunk 0, 0, 2⟩, [0]) := by decide +kernel

-- a reader: the first record of the stream `01 61 FE FD 02 62 63` read in blocks of 3: one byte, copied into
-- the arena (chunk 0, above the two blocks read so far)
example :
    ((nextW 2 ⟨252, 64008, 253⟩ keepGoingJudge (some 3)
        { RdSt.new pol tun with r := ⟨[1, 0x61, 0xFE, 0xFD, 2, 0x62, 0x63], List.replicate 6 (.deliver 100)⟩ }).map
      (fun o => (o.1, (o.2.w.iov 0).map (fun v => (v.slices, v.anchors)), o.2.w.liveChunks))) =
      some (.some 0 2, some ([⟨.chunk 0, 3, 1⟩], [⟨1, some 0⟩, ⟨0, some 0⟩]), [0]) := by decide +kernel

end Woodpile.Props.C05S

/-
C04 for the FULL multi-object vocabulary (track `wabs`): pending backpatches are never observable and
observed bytes never change, for every iovec handle of every `Woodpile.Iovec.WOp` history (several iovecs,
`take`, `clone`, detached arenas and anchored slices, …) — INCLUDING operations on other handles, `clear`s
of other handles, writes by other objects (`read_n` into a swapped arena, another iovec's copies and
backfills).

Property theorems only.  Vocabulary (`GW`, `absW`, `PW`, `Rel`, `AllInv` / `W.IovInv`, `OkRun`): see the header
of `Props/C03W.lean`.  `AllInv w` holds in every reachable world (`Props/C03W.reachable_inv_w`).  `World.visible w v` is what every consumer-side view of the model exposes
(the bytes of the slices `stable_prefix` returns), as in `Props/C04.lean`.

The immutability statement (`observed_bytes_immutable_w`): along ANY history from a state `g` to a
state `g'` in which handle `i` is not reset (`clear i`, `take i` — which moves the contents to a fresh
handle —, `drop i`), every byte of `ghost i ++ visible i` of `g` — indeed every byte cell of `i`'s pipe,
visible or not — is still there in `g'`, at the same position counted from `i`'s last clear, with the same
value: consumed, or still buffered as the same byte cell.  Side condition on the history: `OkRun`, whose
`FillPrivate` part says that every `backfill` through an iovec `X` finds no other iovec referencing `X`'s
pending placeholder memory — `Props/C20W.lean` shows that this can only fail between an iovec and a clone
of it taken while the placeholder was pending, and the last example of `Props/C03W.lean` shows that an
observed byte of such a clone DOES change.
-/
import Woodpile.Proofs.IovecWLedger

namespace Woodpile.Props.C04W
open Woodpile.Iovec Woodpile.Arena
open Woodpile.Pipe (Cell Pipe)

/-- The stable prefix of every live handle never contains a placeholder byte: the cells at the front of
the handle's pipe that correspond to it are all byte cells, holding exactly the visible bytes; hence what
is visible is a prefix of the bytes before the first pending placeholder. -/
theorem stable_prefix_has_no_hole_w {g : GW} (hall : AllInv g.w) {i : Nat} {v : Iov} (hv : g.w.iov i = some v) :
    (∃ rest, (absW g i).cells = (g.w.visible v).map Cell.byte ++ rest) ∧ g.w.visible v <+: (absW g i).stable := by
  have hi := hall i v hv
  have hc : (absW g i).cells = (g.w.visible v).map Cell.byte ++
      mkCells v.backrefs (v.consumedSize + (g.w.visible v).length) (g.w.flat (v.slices.drop v.stableN)) := by
    rw [absW_live g i v hv]; exact W.absCells_visible hi
  refine ⟨⟨_, hc⟩, ?_⟩
  rw [Pipe.stable_of_cells (absW g i) _ _ hc]
  exact List.prefix_append _ _

/-- `has_pending_backrefs` of every live handle agrees with its abstract pipe. -/
theorem ok_iff_no_pending_w {g : GW} (hall : AllInv g.w) {i : Nat} {v : Iov} (hv : g.w.iov i = some v) :
    v.hasPending = (absW g i).pending := by
  rw [absW_live g i v hv]
  exact W.hasPending_eq_pending (hall i v hv)

/-- `AllInv` — the hypothesis of the two theorems above — holds in every reachable world. -/
theorem reachable_allInv {w : World} (h : Reachable w) : AllInv w := by
  obtain ⟨caps, hg⟩ := h.exists_caps
  exact hg.allInv

/-- Once every placeholder of handle `i` has been backfilled — after any history of the whole world, hence
in any order, through whichever handle held the pipe at the time — every buffered byte of `i` is
consumable: the stable prefix is the whole pipe content, `total_size` bytes long, and consumed ++ visible
is `i`'s whole ledger, with the backfilled values in place. -/
theorem all_filled_unblocks_w (pol : Policy) (tun : Tuning) (ops : List WOp) (g : GW) (rs : List WRet)
    (hok : (GW.init pol tun).OkRun ops) (h : (GW.init pol tun).run ops = some (g, rs)) (i : Nat) (v : Iov)
    (hv : g.w.iov i = some v) (hp : v.hasPending = false) :
    g.w.visible v = (absW g i).bytes ∧ (absW g i).cells = (g.w.visible v).map Cell.byte ∧
    (g.w.visible v).length = v.totalSize ∧
    (LW.init.run ops rs).led i = (g.ghost i ++ g.w.visible v).map Cell.byte := by
  obtain ⟨hall, hrel, hokr, _⟩ := grun_init pol tun ops g rs hok h
  have hi := hall i v hv
  obtain ⟨h1, h2⟩ := W.visible_all_of_no_pending hi hp
  have hcells : (absW g i).cells = (g.w.visible v).map Cell.byte := by rw [absW_live g i v hv]; exact h2
  refine ⟨?_, hcells, ?_, ?_⟩
  · unfold Pipe.bytes
    rw [hcells]
    have := cellBytes_map_byte_append (g.w.visible v) []
    simpa [Woodpile.Pipe.cellBytes] using this.symm
  · rw [h1, hi.flat_length]
    unfold Iov.totalSize
    have := hi.size_eq
    omega
  · have hh := hist_run ops PW.init rs hokr
    have e0 : PW.init.hist = LW.init := rfl
    rw [e0] at hh
    rw [← hh]
    show pipeHistory ((PW.init.run ops rs).pipe i) = _
    rw [← hrel.pipe i v hv, absW_live g i v hv]
    simp only [pipeHistory, h2, List.map_append]

/-- A byte, once observed, never changes — whatever happens to the other objects of the world.  See the
file header. -/
theorem observed_bytes_immutable_w {g g' : GW} {caps : Nat → Nat} (hg : GReach g.w caps)
    (ops : List WOp) (rs : List WRet) (hok : g.OkRun ops) (h : g.run ops = some (g', rs)) (i : Nat) (v v' : Iov)
    (hv : g.w.iov i = some v) (hv' : g'.w.iov i = some v') (hnr : ∀ op ∈ ops, ¬ op.resets i) :
    (∀ (j : Nat) (b : UInt8), (pipeHistory (absW g i))[j]? = some (Cell.byte b) →
      (pipeHistory (absW g' i))[j]? = some (Cell.byte b)) ∧
    ∀ j : Nat, j < (g.ghost i).length + (g.w.visible v).length →
      (pipeHistory (absW g' i))[j]? = ((g.ghost i ++ g.w.visible v)[j]?).map Cell.byte := by
  have hall := hg.allInv
  obtain ⟨_, hrel', hokr, _⟩ := grun_rel ops g g' rs g.pw caps hg hall (rel_self g) hok h
  have hgen : ∀ (j : Nat) (b : UInt8), (pipeHistory (absW g i))[j]? = some (Cell.byte b) →
      (pipeHistory (absW g' i))[j]? = some (Cell.byte b) := by
    intro j b hb
    rw [hrel'.pipe i v' hv']
    exact pw_run_byte_persist i ops g.pw rs (iov_lt_of_some hv) hnr hokr j b hb
  refine ⟨hgen, ?_⟩
  intro j hj
  have hi := hall i v hv
  have hhist : pipeHistory (absW g i) = (g.ghost i ++ g.w.visible v).map Cell.byte ++
      mkCells v.backrefs (v.consumedSize + (g.w.visible v).length) (g.w.flat (v.slices.drop v.stableN)) := by
    rw [absW_live g i v hv]
    simp only [pipeHistory, W.absCells_visible hi, List.map_append, List.append_assoc]
  have hlt : j < (g.ghost i ++ g.w.visible v).length := by simpa using hj
  have hcell : (pipeHistory (absW g i))[j]? = some (Cell.byte (g.ghost i ++ g.w.visible v)[j]) := by
    rw [hhist, List.getElem?_append_left (by simpa using hlt)]
    rw [List.getElem?_map, List.getElem?_eq_getElem hlt]
    rfl
  rw [hgen j _ hcell, List.getElem?_eq_getElem hlt]
  rfl

/-- … with the side condition for handle `i` ONLY (`FillFreeRun i`: every `backfill` through ANOTHER iovec
`X` finds no slice of `i` over `X`'s pending placeholder ranges — by `Props/C20W.lean` this holds throughout
unless `i` itself is a party to a clone taken while a placeholder was pending): whatever the other handles
do to each other — clones with pending placeholders filled twice included — every observed byte of `i`
stays; and `i` stays live (only `drop i` ends it). -/
theorem observed_bytes_immutable_handle {g g' : GW} {caps : Nat → Nat} (hg : GReach g.w caps)
    (ops : List WOp) (rs : List WRet) (h : g.run ops = some (g', rs)) (i : Nat) (v : Iov)
    (hv : g.w.iov i = some v) (hnr : ∀ op ∈ ops, ¬ op.resets i) (hff : GW.FillFreeRun i g ops) :
    (∃ v', g'.w.iov i = some v') ∧
    (∀ (j : Nat) (b : UInt8), (pipeHistory (absW g i))[j]? = some (Cell.byte b) →
      (pipeHistory (absW g' i))[j]? = some (Cell.byte b)) ∧
    ∀ j : Nat, j < (g.ghost i).length + (g.w.visible v).length →
      (pipeHistory (absW g' i))[j]? = ((g.ghost i ++ g.w.visible v)[j]?).map Cell.byte := by
  obtain ⟨hlive, hgen⟩ := byte_persist_run i ops g g' rs caps v hg h hv hnr hff
  refine ⟨hlive, hgen, ?_⟩
  intro j hj
  have hi := hg.allInv i v hv
  have hhist : pipeHistory (absW g i) = (g.ghost i ++ g.w.visible v).map Cell.byte ++
      mkCells v.backrefs (v.consumedSize + (g.w.visible v).length) (g.w.flat (v.slices.drop v.stableN)) := by
    rw [absW_live g i v hv]
    simp only [pipeHistory, W.absCells_visible hi, List.map_append, List.append_assoc]
  have hlt : j < (g.ghost i ++ g.w.visible v).length := by simpa using hj
  have hcell : (pipeHistory (absW g i))[j]? = some (Cell.byte (g.ghost i ++ g.w.visible v)[j]) := by
    rw [hhist, List.getElem?_append_left (by simpa using hlt)]
    rw [List.getElem?_map, List.getElem?_eq_getElem hlt]
    rfl
  rw [hgen j _ hcell, List.getElem?_eq_getElem hlt]
  rfl

/-- … hence with a per-OBJECT premise and no side condition on the rest of the world: if iovec `i` references
no other iovec's pending placeholder memory now (`Unshared`; e.g. it is empty, or it was never a party to a
clone taken with a placeholder pending) and is never cloned while IT has a placeholder pending
(`CleanClonesOf i`), then along ANY history that does not reset it — arbitrary operations on all other
objects, other iovecs cloned with placeholders pending and filled any number of times included — `i` stays
live and every observed byte of `i` stays. -/
theorem observed_bytes_immutable_unshared {g g' : GW} {caps : Nat → Nat} (hg : GReach g.w caps)
    (ops : List WOp) (rs : List WRet) (h : g.run ops = some (g', rs)) (i : Nat) (v : Iov)
    (hv : g.w.iov i = some v) (hnr : ∀ op ∈ ops, ¬ op.resets i) (hu : Unshared g.w i)
    (hc : GW.CleanClonesOf i g ops) :
    (∃ v', g'.w.iov i = some v') ∧
    (∀ (j : Nat) (b : UInt8), (pipeHistory (absW g i))[j]? = some (Cell.byte b) →
      (pipeHistory (absW g' i))[j]? = some (Cell.byte b)) ∧
    ∀ j : Nat, j < (g.ghost i).length + (g.w.visible v).length →
      (pipeHistory (absW g' i))[j]? = ((g.ghost i ++ g.w.visible v)[j]?).map Cell.byte :=
  observed_bytes_immutable_handle hg ops rs h i v hv hnr
    (fillFreeRun_of_unshared i ops g caps hg (iov_lt_of_some hv) hu hc)

/-- The same at the level of memory, for every op but `backfill`, with NO side condition: no slice of any
object reads different bytes after the step (heap writes go to freshly allocated arena memory);
`backfill` through another iovec: `Props/C03W.other_handles_unchanged`. -/
theorem slices_never_overwritten_w {w w' : World} {caps : Nat → Nat} {op : WOp} (hg : GReach w caps)
    (h : w.step op = some w') (hnb : ∀ i b bs, op ≠ .backfill i b bs) {j : Nat} {v : Iov} (hv : w.iov j = some v)
    {s : Slice} (hs : s ∈ v.slices) : w'.sliceBytes s = w.sliceBytes s :=
  step_bytes_unchanged hg h hnb (Or.inl ⟨j, v, hv, hs⟩) ((hg.reachable.inv.iovOk j v hv).extOk s hs)

/-! ### Non-vacuity -/

def exPol : Policy := ⟨64, 256⟩
def exTun : Tuning := ⟨[4096, 8192], 4096⟩

/-- per handle: (visible bytes, abstract stable bytes, has_pending) after a history -/
def exView (ops : List WOp) : Option (List (Option (List UInt8 × List UInt8 × Bool))) :=
  ((GW.init exPol exTun).run ops).map (fun x =>
    (List.range x.1.w.iovs.length).map (fun j =>
      (x.1.w.iov j).map (fun v => (x.1.w.visible v, (absW x.1 j).stable, v.hasPending))))

def exC : List WOp :=
  [.new, .pushBorrowed 0 [7, 8], .pushCopy 0 [1, 2, 3], .register 0 [0, 0], .pushCopy 0 [4], .take 0,
   .new, .pushCopy 2 [5], .clear 2, .newArena, .swapArena 1 0, .pushCopy 1 [6]]

-- The visible bytes of the taken value (handle 1) are strictly shorter than the bytes before its first
-- hole; traffic on other handles (`new`, pushes, `clear 2`) and an arena swap do not change them.
example : (World.init exPol exTun).okRunB exC = true := by decide +kernel
example : exView exC = some [some ([], [], false), some ([7, 8], [7, 8, 1, 2, 3], true), some ([], [], false)] := by
  decide +kernel
-- After the fill (through handle 1, with the token handed out to handle 0) everything is visible.
example : (World.init exPol exTun).okRunB (exC ++ [.backfill 1 0 [9, 9]]) = true := by decide +kernel
example : exView (exC ++ [.backfill 1 0 [9, 9]]) =
    some [some ([], [], false), some ([7, 8, 1, 2, 3, 9, 9, 4, 6], [7, 8, 1, 2, 3, 9, 9, 4, 6], false),
          some ([], [], false)] := by decide +kernel
-- The immutability hypotheses are met by a history with operations on, and clears of, OTHER handles.
example : ∀ op ∈ exC.drop 6, ¬ op.resets 1 := by
  intro op hop
  simp only [exC, List.drop_succ_cons, List.drop_zero, List.mem_cons, List.not_mem_nil, or_false] at hop
  rcases hop with rfl | rfl | rfl | rfl | rfl | rfl <;> simp [WOp.resets]

end Woodpile.Props.C04W

/-
C17 — Arena reads return exactly what the reader delivered, under any I/O faults.

Property theorems only (helper lemmas live in `Woodpile/Proofs/ReadN.lean`).
The model is `Woodpile.ReadN` (`Reader.read`, `loop` = `read_n_impl`,
`readNCore`/`readN` = `ByteArena::read_n`).  All statements quantify over every
reader (source bytes × script of deliver/Interrupted/EOF/hard-error answers of
any length), every `count`, every `max_attempts` and every arena state.
-/
import Woodpile.Proofs.ReadN

namespace Woodpile.Props.C17
open Woodpile.ReadN Woodpile.Arena

/-- `count = 0`: an empty slice, and the reader is never called. -/
theorem count0_no_read (r : Reader) (attempts : Nat) :
    readNCore r 0 attempts = ⟨.ok [], [], r⟩ := by
  simp [readNCore]

/-- The reader is called at most `max_attempts` times. -/
theorem calls_le_attempts (r : Reader) (count attempts : Nat) :
    (readNCore r count attempts).calls.length ≤ attempts := by
  unfold readNCore
  split
  · simp
  · rename_i hc
    obtain ⟨new, hs⟩ := loop_spec count attempts r [] none [] (by simp; omega)
    have h1 := hs.calls_eq
    have h2 := hs.len_le
    simp only [List.nil_append] at h1
    rw [finish_calls, h1]; exact h2

/-- Everything else, for `count > 0`.  With `o := read_n(reader, count, attempts)`:
* every call offers a buffer of exactly `count − (bytes delivered so far)` bytes
  and all calls but the last are "continuing" ones (a non-empty delivery that
  does not complete the request, or `Interrupted`) — so the loop stops at EOF,
  at the first hard error, and on completion (`Run`);
* at most `count` bytes are delivered in total;
* the source is consumed by exactly the delivered bytes, in order;
* if fewer than `max_attempts` calls were made, the last one was terminal
  (it never gives up early);
* success returns exactly the delivered bytes; it returns no bytes only if
  the last call was an EOF (or no attempt was allowed);
* failure happens only when nothing was delivered, and reports the kind of the
  last call's error. -/
theorem read_n_spec (r : Reader) (count attempts : Nat) (hc : 0 < count) :
    let o := readNCore r count attempts
    Run count [] o.calls ∧
    (delivered o.calls).length ≤ count ∧
    r.src = delivered o.calls ++ o.reader.src ∧
    (o.calls.length < attempts →
      ∃ pre c, o.calls = pre ++ [c] ∧ Call.terminal count (delivered pre) c) ∧
    (match o.res with
     | .ok bs => bs = delivered o.calls ∧
        (bs = [] → o.calls = [] ∨ ∃ pre n, o.calls = pre ++ [(n, .ok [])])
     | .err k => delivered o.calls = [] ∧ ∃ pre n, o.calls = pre ++ [(n, .err k)]) := by
  intro o
  obtain ⟨new, hs⟩ := loop_spec count attempts r [] none [] (by simpa using hc)
  have hcalls : (loop count attempts r [] none []).calls = new := by simpa using hs.calls_eq
  have hgot : (loop count attempts r [] none []).got = delivered new := by simpa using hs.got_eq
  have hne : count ≠ 0 := by omega
  -- shape of the result
  have ho : o = finish (loop count attempts r [] none []) := by
    show readNCore r count attempts = _
    unfold readNCore; rw [if_neg hne]
  have hres : o.calls = new ∧ o.reader = (loop count attempts r [] none []).reader ∧
      ((o.res = .ok (delivered new) ∧ ¬ (delivered new = [] ∧ ∃ e, (loop count attempts r [] none []).err = some e)) ∨
       (∃ e, o.res = .err e ∧ delivered new = [] ∧ (loop count attempts r [] none []).err = some e)) := by
    rw [ho]
    refine ⟨by simp [hcalls], by simp, ?_⟩
    have := finish_res (loop count attempts r [] none [])
    rw [hgot] at this
    exact this
  obtain ⟨hc1, hrd, hres⟩ := hres
  have hlast : delivered new = [] →
      (loop count attempts r [] none []).err =
        match new.getLast? with
        | none => none
        | some (_, .ok _) => none
        | some (_, .err k) => some k := fun h => hs.err_eq (by rw [hgot]; exact h)
  refine ⟨by rw [hc1]; exact hs.run, ?_, ?_, ?_, ?_⟩
  · rw [hc1, ← hgot]; exact hs.got_le
  · rw [hc1, hrd]; simpa using hs.src_eq
  · intro hl
    rw [hc1] at hl ⊢
    simpa using hs.stop hl
  · rcases hres with ⟨hok, hnot⟩ | ⟨e, herr, hd, he⟩
    · rw [hok, hc1]
      refine ⟨rfl, fun hd => ?_⟩
      have := hlast hd
      rcases List.eq_nil_or_concat new with hn | ⟨pre, c, hn⟩
      · exact Or.inl hn
      · right
        subst hn
        simp only [List.concat_eq_append, List.getLast?_append, List.getLast?_singleton,
          Option.some_or] at this
        obtain ⟨n, res⟩ := c
        cases res with
        | ok bs =>
          have : bs = [] := by
            have h := hd
            rw [List.concat_eq_append, delivered_append] at h
            simp [delivered] at h
            exact h.2
          subst this
          exact ⟨pre, n, by simp⟩
        | err k =>
          exfalso
          exact hnot ⟨hd, k, by simpa using this⟩
    · rw [herr, hc1]
      refine ⟨hd, ?_⟩
      have := hlast hd
      rw [he] at this
      rcases List.eq_nil_or_concat new with hn | ⟨pre, c, hn⟩
      · subst hn; simp at this
      · subst hn
        simp only [List.concat_eq_append, List.getLast?_append, List.getLast?_singleton,
          Option.some_or] at this
        obtain ⟨n, res⟩ := c
        cases res with
        | ok bs => simp at this
        | err k =>
          simp at this
          subst this
          exact ⟨pre, n, by simp⟩

/-- The arena side of `read_n`: after the call the bump pointer of the cache the
allocation came from has advanced by exactly the number of bytes returned —
the unread tail (everything, on failure) was handed back — so a failed or short
read leaves nothing behind in the arena but the bytes actually read. -/
theorem read_n_releases_unread (t : Tuning) (a : Arena) (next : Nat) (r : Reader)
    (count attempts : Nat) (hc : 0 < count) :
    let a0 := (ensureCapacity t a next count).1
    let out := readN t a next r count attempts
    ∃ c0, a0.cache = some c0 ∧ count ≤ c0.remaining ∧
      out.2.1.cache = some { c0 with bump := c0.bump +
        (match out.1.res with | .ok bs => bs.length | .err _ => 0) } ∧
      out.2.2.2.1 = c0.chunk ∧ out.2.2.2.2 = c0.bump := by
  intro a0 out
  obtain ⟨c0, hc0, hrem⟩ := ensureCapacity_spec t a next count
  refine ⟨c0, hc0, hrem, ?_⟩
  have hne : count ≠ 0 := by omega
  have hlen : ∀ bs, (readNCore r count attempts).res = .ok bs → bs.length ≤ count := by
    intro bs hb
    have := read_n_spec r count attempts hc
    simp only at this
    obtain ⟨_, hle, _, _, hm⟩ := this
    rw [hb] at hm
    rw [hm.1]; exact hle
  have hout : out = readN t a next r count attempts := rfl
  unfold readN at hout
  rw [if_neg hne] at hout
  simp only [alloc, hc0] at hout
  cases hres : (readNCore r count attempts).res with
  | ok bs =>
    have hl := hlen bs hres
    simp only [hres] at hout
    rw [hout]
    simp only [release, hres]
    refine ⟨?_, trivial, trivial⟩
    congr 2
    omega
  | err k =>
    simp only [hres] at hout
    rw [hout]
    simp only [release, hres]
    refine ⟨?_, trivial, trivial⟩
    congr 2
    omega

end Woodpile.Props.C17

namespace Woodpile.Props.C17
open Woodpile.ReadN Woodpile.Arena

/-! Non-vacuity: concrete readers exercising the hypotheses and every verdict. -/

-- Interrupted, a short delivery, then EOF: succeeds with the two bytes delivered.
example : (readNCore ⟨[1, 2, 3], [.err 0, .deliver 2, .eof]⟩ 3 5).res = .ok [1, 2] := by decide
-- Only interruptions: fails with `Interrupted` after exactly `max_attempts` calls.
example : (readNCore ⟨[1, 2, 3], [.err 0, .err 0, .err 0]⟩ 3 2).res = .err 0
    ∧ (readNCore ⟨[1, 2, 3], [.err 0, .err 0, .err 0]⟩ 3 2).calls.length = 2 := by decide
-- A hard error after a delivery is swallowed (bytes were delivered) and stops the loop.
example : (readNCore ⟨[1, 2, 3], [.deliver 1, .err 4, .deliver 2]⟩ 3 9).res = .ok [1]
    ∧ (readNCore ⟨[1, 2, 3], [.deliver 1, .err 4, .deliver 2]⟩ 3 9).calls.length = 2 := by decide
-- EOF first: success with an empty slice.
example : (readNCore ⟨[1, 2, 3], [.eof, .deliver 2]⟩ 3 9).res = .ok [] := by decide
-- The arena theorem's hypothesis `0 < count` is met by a short read on a fresh arena:
-- the 4096-byte chunk keeps only the 2 bytes read.
example : (readN ⟨[4096, 8192], 4096⟩ ⟨none⟩ 0 ⟨[1, 2, 3], [.deliver 2, .eof]⟩ 3 5).2.1
    = ⟨some ⟨0, 4096, 2⟩⟩ := by decide

end Woodpile.Props.C17

/-
C05 (public-API completion, track `apigaps`).

(1) The state-changing entry points added in `Model/IovecApi.lean` ARE steps of the op vocabulary
`WOp` over which C05 / C10 / C20 quantify (`Reachable`, `GReach`): the `iovec` driver executes their
op words as exactly these `World.step`s (`Driver/Iovec.lean`, `stepApi` → `runApi`), so every
theorem about reachable worlds covers histories that use `from_iter`, the `ZeroCopySink` impls,
`ByteArena::clone`, `Backref::default`, consumer calls through a `StableIovec`, ….

(2) The read accessors added there (`front`, iteration, `iovs`, `StableIovec::iovs`) hand out slices
of the stable prefix only, so `C05.exposed_live` applies to each of them: a caller buffer, or a chunk
of the derived live set held by the iovec's own anchors.
-/
import Woodpile.Proofs.IovecApi
import Woodpile.Proofs.IovecArena

namespace Woodpile.Props.C05A
open Woodpile.Iovec Woodpile.Iovec.Api Woodpile.Arena

/-- `FromIterator<IoSlice>` / `FromIterator<&IoSlice>` over freshly lent buffers is the step
`newFromSlices`. -/
theorem from_iter_is_wstep (w : World) (bufs : List (List UInt8)) :
    w.step (.newFromSlices bufs) = some ((w.addExts bufs).1.fromIter (w.addExts bufs).2).1 ∧
    w.step (.newFromSlices bufs) = some ((w.addExts bufs).1.fromIterRef (w.addExts bufs).2).1 :=
  ⟨rfl, rfl⟩

/-- `ZeroCopySink::append_copy` is the step `pushCopy`, `append_borrow` of a freshly lent buffer the
step `push`. -/
theorem sink_is_wstep (w : World) (i : Nat) (bs : List UInt8) :
    w.step (.pushCopy i bs) = w.appendCopy i bs ∧
    w.step (.push i bs) = (w.addExt bs).1.appendBorrow i ⟨.ext (w.addExt bs).2, 0, bs.length⟩ :=
  ⟨rfl, rfl⟩

/-- `ByteArena::clone()` adds a default arena (step `newArena`); `Backref::default()` is the token
`register_patch(&[])` returns (step `register` with an empty pattern). -/
theorem defaults_are_wsteps (w : World) (ar : Arena) (i : Nat) :
    w.step .newArena = some (w.addArena (arenaClone ar)).1 ∧
    w.step (.register i []) = some (w.addBref none).1 :=
  ⟨rfl, rfl⟩

/-- Consumer calls through `stable_consumer()` / `StableIovec::try_from` (either outcome) are the
steps `consume` / `advance` / `read` / `pop`. -/
theorem stable_consumer_is_wstep (w : World) (i k : Nat) :
    (∀ f w' n, w.scConsume i k = some (f, w', n) → w.step (.consume i k) = some w') ∧
    (∀ f w' n, w.scAdvance i k = some (f, w', n) → w.step (.advance i k) = some w') ∧
    (∀ f w' bs, w.scRead i k = some (f, w', bs) → w.step (.read i k) = some w') ∧
    (∀ f w', w.scPop i = some (f, w') → w.step (.pop i) = some w') := by
  refine ⟨fun f w' n h => ?_, fun f w' n h => ?_, fun f w' bs h => ?_, fun f w' h => ?_⟩
  · unfold World.scConsume at h
    cases hv : w.iov i with
    | none => rw [hv] at h; cases h
    | some v =>
      rw [hv] at h
      cases hc : w.consume i k with
      | none => rw [hc] at h; cases h
      | some r =>
        rw [hc] at h
        simp only [Option.some.injEq, Prod.mk.injEq] at h
        simp only [World.step, hc, h.2.1]
  · unfold World.scAdvance at h
    cases hv : w.iov i with
    | none => rw [hv] at h; cases h
    | some v =>
      rw [hv] at h
      cases hc : w.advance i k with
      | none => rw [hc] at h; cases h
      | some r =>
        rw [hc] at h
        simp only [Option.some.injEq, Prod.mk.injEq] at h
        simp only [World.step, hc, h.2.1]
  · unfold World.scRead at h
    cases hv : w.iov i with
    | none => rw [hv] at h; cases h
    | some v =>
      rw [hv] at h
      cases hc : World.readInto (k + 2) w i k [] with
      | none => rw [hc] at h; cases h
      | some r =>
        rw [hc] at h
        simp only [Option.some.injEq, Prod.mk.injEq] at h
        simp only [World.step, hc, h.2.1]
  · unfold World.scPop at h
    cases hv : w.iov i with
    | none => rw [hv] at h; cases h
    | some v =>
      rw [hv] at h
      cases hc : w.consume i 1 with
      | none => rw [hc] at h; simp at h
      | some r =>
        obtain ⟨w1, n⟩ := r
        rw [hc] at h
        by_cases hn : n = 1
        · subst hn
          simp only [Option.some.injEq, Prod.mk.injEq] at h
          simp only [World.step, hc, h.2]
        · exfalso
          cases n with
          | zero => simp at h
          | succ m =>
            cases m with
            | zero => exact hn rfl
            | succ m' => simp at h

/-- `OwningIovec::new_from_slices(slices, Some(arena))` over freshly lent buffers is the two-step history
`new_from_arena(arena); extend(slices)` — the same world, handle for handle (this is how the driver
executes the op word `new_from_slices_arena`). -/
theorem new_from_slices_arena_is_wrun (w : World) (j : Nat) (ar : Arena) (bufs : List (List UInt8))
    (ha : w.arena j = some ar) :
    w.run [.newFromArena j, .extend w.iovs.length bufs] =
      ((w.addExts bufs).1.newFromSlicesArena j (w.addExts bufs).2).map (·.1) := by
  have hb0 : borrowedIov ar [] = { Iov.empty with arena := ar } := rfl
  -- left: `extend` on the fresh iovec
  have hL : ∀ W0 : World, W0.iov w.iovs.length = some (borrowedIov ar []) →
      (W0.addExts bufs).1.extend w.iovs.length (W0.addExts bufs).2 =
        some (({ W0 with exts := W0.exts ++ bufs } : World).setIov w.iovs.length
          (some (borrowedIov ar ((extSlices W0.exts.length bufs).filter (fun s => s.len > 0))))) := by
    intro W0 h0
    rw [Api.addExts_eq]
    simp only
    have := extend_borrowed w.iovs.length ar (extSlices W0.exts.length bufs) [] ({ W0 with exts := W0.exts ++ bufs } : World)
      (by intro x hx; exact extSlices_ext _ _ x (by simpa using hx)) h0
    simpa using this
  simp only [World.run, World.step, ha]
  rw [hL _ (by simp [World.iov, World.addIov, World.setArena, List.getD_eq_getElem?_getD, hb0])]
  -- right: `new_from_slices` with the arena
  rw [Api.addExts_eq]
  unfold World.newFromSlicesArena
  have harena : ({ w with exts := w.exts ++ bufs } : World).arena j = some ar := ha
  simp only [harena, Option.map_some, Option.some.injEq]
  unfold World.newFromSlices World.addIov World.setIov World.setArena
  simp only [World.mk.injEq, and_true, true_and]
  unfold listSet
  simp only [List.length_append, List.length_singleton, Nat.lt_add_one, if_true]
  rw [List.set_append_right _ _ (Nat.le_refl _)]
  simp [borrowedIov]

/-- What `front()`, iteration, `iovs()` and `StableIovec::iovs()` hand out are slices of the stable
prefix … -/
theorem accessors_return_stable_slices (w : World) (v : Iov) (n : Nat) (h : v.stableCount = some n) :
    (∀ sl, v.front = some (some sl) → sl ∈ v.slices.take n) ∧
    v.iter = some (v.slices.take n) ∧
    (∀ okf ss, v.iovs = some (okf, ss) → ss = v.slices.take n) ∧
    w.stableIovs v = some (v.slices.take n) := by
  have hp : v.stablePrefix = some (v.slices.take n) := by unfold Iov.stablePrefix; rw [h]
  refine ⟨fun sl hf => ?_, hp, fun okf ss hio => ?_, hp⟩
  · unfold Iov.front at hf
    rw [hp] at hf
    simp only [Option.some.injEq] at hf
    exact List.mem_of_mem_head? hf
  · unfold Iov.iovs at hio
    rw [hp] at hio
    simp only [Option.some.injEq, Prod.mk.injEq] at hio
    exact hio.2.symm

/-- … hence, in every reachable world, each of them is a caller buffer or lies inside a chunk of the
derived live set that the iovec's OWN anchors hold, within the chunk's allocation-time capacity
(`C05.exposed_live` applied to the new accessors). -/
theorem accessors_exposed_live {w : World} {caps : Nat → Nat} (hg : GReach w caps) (i : Nat) (v : Iov)
    (hv : w.iov i = some v) :
    (∀ sl, v.front = some (some sl) →
      Live w sl ∧ ∀ k, sl.region = .chunk k → k ∈ anchorChunks v.anchors ∧ sl.off + sl.len ≤ caps k) ∧
    (∀ ss, v.iter = some ss ∨ w.stableIovs v = some ss ∨ (∃ okf, v.iovs = some (okf, ss)) → ∀ sl ∈ ss,
      Live w sl ∧ ∀ k, sl.region = .chunk k → k ∈ anchorChunks v.anchors ∧ sl.off + sl.len ≤ caps k) := by
  have hw := hg.reachable.inv
  have key : ∀ sl ∈ v.slices, Live w sl ∧ ∀ k, sl.region = .chunk k →
      k ∈ anchorChunks v.anchors ∧ sl.off + sl.len ≤ caps k := by
    intro sl hm
    obtain ⟨h1, h2⟩ := hw.iov_slice_live hv hm
    exact ⟨h1, fun k hk => ⟨h2 k hk, hg.inv.inCap sl k (Or.inl ⟨i, v, hv, hm⟩) hk⟩⟩
  refine ⟨fun sl hf => ?_, fun ss hss sl hsl => ?_⟩
  · cases hc : v.stableCount with
    | none => unfold Iov.front Iov.stablePrefix at hf; rw [hc] at hf; cases hf
    | some n =>
      exact key sl (List.mem_of_mem_take ((accessors_return_stable_slices w v n hc).1 sl hf))
  · cases hc : v.stableCount with
    | none =>
      exfalso
      rcases hss with h | h | ⟨okf, h⟩
      · unfold Iov.iter Iov.stablePrefix at h; rw [hc] at h; cases h
      · unfold World.stableIovs Iov.stablePrefix at h; rw [hc] at h; cases h
      · unfold Iov.iovs Iov.stablePrefix at h; rw [hc] at h; cases h
    | some n =>
      obtain ⟨_, h2, h3, h4⟩ := accessors_return_stable_slices w v n hc
      have : ss = v.slices.take n := by
        rcases hss with h | h | ⟨okf, h⟩
        · rw [h2] at h; exact (Option.some.inj h).symm
        · rw [h4] at h; exact (Option.some.inj h).symm
        · exact h3 okf ss h
      subst this
      exact key sl (List.mem_of_mem_take hsl)

/-! ### Non-vacuity -/

def exPol : Policy := ⟨64, 256⟩
def exTun : Tuning := ⟨[4096, 8192], 4096⟩

-- a `from_iter` iovec that then copies through the sink: its front is the caller buffer, the arena
-- chunk of the copy is live
example : ((World.init exPol exTun).run [.newFromSlices [[1, 2], []], .pushCopy 0 [3]]).map
    (fun w => ((w.iov 0).map (fun v => (v.front, v.iter)), w.liveChunks))
  = some (some (some (some ⟨.ext 0, 0, 2⟩), some [⟨.ext 0, 0, 2⟩, ⟨.chunk 0, 0, 1⟩]), [0]) := by decide +kernel

end Woodpile.Props.C05A

/-
C16 — SortedDeque behaves like an ordered map with append-only insertion.

Property theorems only (helper lemmas: `Woodpile/Proofs/SortedDeque{,Ops,Conv}.lean`).
The model is `Woodpile.SortedDeque` (`Woodpile/Model/SortedDeque.lean`): items with
tombstones over the SlidingDeque model of C15, every method of
`sliding_deque::SortedDeque` in the `Option` monad (`none` = panic: either `check_rep`,
the `assert_eq!` of `push_back_or_panic`, the `assert!` after `mark_erased`, a slice index,
or a SlidingDeque-level panic), generic in the comparator record `Cmp` (`key`, `cmp`,
`isErased`, `markErased`).  `slice::binary_search_by` is modelled as the actual algorithm of
core 1.95 and proved correct on every strictly sorted list (`binarySearchBy_spec`), so the
theorems do not depend on which correct search std uses.

The reference ordered map (`stepRef`) is the list of present items in key order:
lookups by `cmp … = Equal`, removal by filtering, push = append with the one *specified*
panic.  The abstraction function is `abs` = the non-erased items of the deque's view.

Hypotheses, all explicit:
* `c.Lawful`: `cmp` is a strict total order up to its own equality, and `mark_erased` makes
  an item erased;
* `EraseOrder c P`: among the items in play (`P`), erasing does not change the strict order
  of two items (DESIGN.md observation O2).  It holds unconditionally for the
  `(Key, Option<Value>)` convention (`pair_convention_lawful`) and for whole-item ordering
  when the items in play have distinct keys (`whole_item_lawful_of_distinct_keys`); it is
  necessary: `whole_item_needs_distinct_keys` exhibits a whole-item history on which the
  real algorithm misses a present item.
* an operation sequence is *valid* when every non-erased item it pushes is in play.
-/
import Woodpile.Proofs.SortedDequeConv

namespace Woodpile.Props.C16
open Woodpile.SortedDeque

variable {α κ : Type} {c : Cmp α κ} {P : α → Prop}

/-- **Refinement, one operation.**  From any state satisfying the invariant, every operation
(push_back_or_panic, find, remove, pop_first, pop_last, first, last, is_empty, iteration,
clear) does exactly what the reference ordered map does on the present items: it panics iff
the reference does (only a push of a non-erased item not strictly greater than the last),
otherwise it returns the same result, and the present items afterwards are the
reference's.  The invariant is re-established. -/
theorem refines_ordered_map (hc : c.Lawful) (he : EraseOrder c P) (s : SortedDeque α)
    (hs : SInv c P s) (op : Op α κ) (hv : ValidOp c P op) :
    match stepRef c (abs c s) op with
    | none => step c s op = none
    | some (r, m') => ∃ s', step c s op = some (r, s') ∧ abs c s' = m' ∧ SInv c P s' :=
  step_spec hc he hs op hv

/-- **All valid operation sequences from `Default::default()`.**  The run panics iff the
reference run does (at a push that violates the order); otherwise the list of results
equals the reference's and the present items at the end are the reference's. -/
theorem run_refines_ordered_map (hc : c.Lawful) (he : EraseOrder c P) (ops : List (Op α κ))
    (hv : ∀ op ∈ ops, ValidOp c P op) :
    match runRef c [] ops with
    | none => run c SortedDeque.empty ops = none
    | some (rs, m) => ∃ s', run c SortedDeque.empty ops = some (rs, s') ∧ abs c s' = m ∧ SInv c P s' := by
  have := run_spec hc he (SortedDeque.sinv_empty (c := c) (P := P) (α := α)) ops hv
  rwa [SortedDeque.abs_empty] at this

/-- The same from `SortedDeque::new(container, marker)` for any container the caller is
entitled to hand over: the items as pushed (`gp`: in play, live, strictly sorted), some of
the inner ones possibly erased since, both ends live.  (`new` itself checks nothing.) -/
theorem run_refines_from_container (hc : c.Lawful) (he : EraseOrder c P) (l : List α)
    (gp : List (α × Bool)) (hg : Ghost c P l gp)
    (hhead : ∀ x, l.head? = some x → c.isErased x = false)
    (hlast : ∀ x, l.getLast? = some x → c.isErased x = false)
    (ops : List (Op α κ)) (hv : ∀ op ∈ ops, ValidOp c P op) :
    match runRef c (live c l) ops with
    | none => run c (SortedDeque.new l) ops = none
    | some (rs, m) => ∃ s', run c (SortedDeque.new l) ops = some (rs, s') ∧ abs c s' = m ∧ SInv c P s' := by
  have hs : SInv c P (SortedDeque.new l) :=
    ⟨Woodpile.SlidingDeque.SDeque.inv_ofList l,
      by simpa [SortedDeque.new, Woodpile.SlidingDeque.SDeque.view_ofList] using hhead,
      by simpa [SortedDeque.new, Woodpile.SlidingDeque.SDeque.view_ofList] using hlast,
      ⟨gp, by simpa [SortedDeque.new, Woodpile.SlidingDeque.SDeque.view_ofList] using hg⟩⟩
  have habs : abs c (SortedDeque.new l) = live c l := by
    simp [abs, SortedDeque.new, Woodpile.SlidingDeque.SDeque.view_ofList]
  have := run_spec hc he hs ops hv
  rw [habs] at this
  cases hr : runRef c (live c l) ops with
  | none => rw [hr] at this; exact this
  | some p => obtain ⟨rs, m⟩ := p; rw [hr] at this; exact this

/-- **No valid sequence panics**: if no push violates the order (the reference run succeeds),
the run succeeds — no `check_rep` of either layer fails, the binary search stays in bounds,
`cleanup_back` terminates, and no other assertion fires. -/
theorem no_panic_valid (hc : c.Lawful) (he : EraseOrder c P) (ops : List (Op α κ))
    (hv : ∀ op ∈ ops, ValidOp c P op) (hok : (runRef c [] ops).isSome = true) :
    (run c SortedDeque.empty ops).isSome = true := by
  have := run_refines_ordered_map hc he ops hv
  cases hr : runRef c [] ops with
  | none => simp [hr] at hok
  | some p =>
    obtain ⟨rs, m⟩ := p
    rw [hr] at this
    obtain ⟨s', h, _⟩ := this
    simp [h]

/-- **`ends_live`**: the invariant the Rust `check_rep` asserts — the first and the last item
of the underlying deque are never erased — holds after every valid sequence; hence
`first()`/`last()` return present items, namely the smallest / largest. -/
theorem ends_live (hc : c.Lawful) (he : EraseOrder c P) (ops : List (Op α κ))
    (hv : ∀ op ∈ ops, ValidOp c P op) (rs : List (Ret α)) (s : SortedDeque α)
    (hrun : run c SortedDeque.empty ops = some (rs, s)) :
    (∀ x, s.items.view.head? = some x → c.isErased x = false) ∧
    (∀ x, s.items.view.getLast? = some x → c.isErased x = false) ∧
    SortedDeque.checkRep c s = some () := by
  have := run_refines_ordered_map hc he ops hv
  cases hr : runRef c [] ops with
  | none => rw [hr] at this; simp only at this; rw [this] at hrun; cases hrun
  | some p =>
    obtain ⟨rs', m⟩ := p
    rw [hr] at this
    obtain ⟨s', h, _, hi⟩ := this
    rw [h] at hrun; cases hrun
    exact ⟨hi.head_live, hi.last_live, hi.checkRep⟩

/-- **`push_panics_iff`**: `push_back_or_panic` panics exactly when the item is not erased and
its key is not strictly greater than the key of the current last (= largest) present item. -/
theorem push_panics_iff (hc : c.Lawful) (he : EraseOrder c P) (s : SortedDeque α) (hs : SInv c P s)
    (x : α) (hv : c.isErased x = true ∨ P x) :
    SortedDeque.pushBackOrPanic c s x = none ↔
      c.isErased x = false ∧ ∃ l, (abs c s).getLast? = some l ∧ c.cmp (c.key l) (c.key x) ≠ .lt := by
  have h := step_spec hc he hs (.push x) hv
  have hstep : step c s (.push x) = none ↔ SortedDeque.pushBackOrPanic c s x = none := by
    simp only [step]
    cases SortedDeque.pushBackOrPanic c s x <;> simp
  rw [← hstep]
  simp only [stepRef] at h
  by_cases hx : c.isErased x = true
  · simp only [hx, if_true] at h
    obtain ⟨s', h1, _⟩ := h
    simp [h1, hx]
  · have hxl : c.isErased x = false := by simpa using hx
    simp only [hxl, Bool.false_eq_true, if_false] at h
    cases hl : (abs c s).getLast? with
    | none =>
      rw [hl] at h
      obtain ⟨s', h1, _⟩ := h
      simp [h1]
    | some l =>
      rw [hl] at h
      by_cases hlt : c.cmp (c.key l) (c.key x) = .lt
      · simp only [hlt, beq_self_eq_true, if_true] at h
        obtain ⟨s', h1, _⟩ := h
        simp [h1, hlt]
      · have : (c.cmp (c.key l) (c.key x) == Ordering.lt) = false := by simpa using hlt
        simp only [this, Bool.false_eq_true, if_false] at h
        simp [h, hxl, hlt]

/-- **`erased_push_noop`**: pushing an already-erased item changes nothing and never panics,
whatever its key. -/
theorem erased_push_noop (s : SortedDeque α) (hs : SInv c P s) (x : α) (hx : c.isErased x = true) :
    SortedDeque.pushBackOrPanic c s x = some s :=
  SortedDeque.push_erased hs hx

/-! ### The reference really is an ordered map (the clauses of the property, on `stepRef`) -/

/-- The present items are always in strictly ascending key order (so iteration is ascending). -/
theorem reference_sorted (hc : c.Lawful) (ops : List (Op α κ)) (rs : List (Ret α)) (m : List α)
    (h : runRef c [] ops = some (rs, m)) : Sorted c m := by
  have : ∀ (ops : List (Op α κ)) (m0 : List α), Sorted c m0 → ∀ rs m, runRef c m0 ops = some (rs, m) → Sorted c m := by
    intro ops
    induction ops with
    | nil => intro m0 h0 rs m h; simp only [runRef] at h; cases h; exact h0
    | cons op ops ih =>
      intro m0 h0 rs m h
      simp only [runRef] at h
      cases hs : stepRef c m0 op with
      | none => simp [hs] at h
      | some p =>
        obtain ⟨r, m1⟩ := p
        simp only [hs] at h
        cases hr : runRef c m1 ops with
        | none => simp [hr] at h
        | some q =>
          obtain ⟨rs', m2⟩ := q
          simp only [hr, Option.some.injEq, Prod.mk.injEq] at h
          obtain ⟨_, rfl⟩ := h
          exact ih m1 (stepRef_sorted hc h0 hs) _ _ hr
  exact this ops [] (by simp [Sorted]) rs m h

/-- A present item is found, with its value, under its own key. -/
theorem present_key_found (hc : c.Lawful) (m : List α) (hs : Sorted c m) (x : α) (hx : x ∈ m) :
    stepRef c m (.find (c.key x)) = some (.item (some x), m) := by
  simp [stepRef, find_present hc hs hx]

/-- A removed key is not found afterwards (nor iterated: it is filtered out of the list). -/
theorem removed_key_not_found (m : List α) (k : κ) (r : Ret α) (m' : List α)
    (h : stepRef c m (.remove k) = some (r, m')) :
    stepRef c m' (.find k) = some (.item none, m') ∧ ∀ y ∈ m', c.cmp (c.key y) k ≠ .eq := by
  simp only [stepRef, Option.some.injEq, Prod.mk.injEq] at h
  obtain ⟨_, rfl⟩ := h
  refine ⟨by simp [stepRef], ?_⟩
  intro y hy
  simpa using (List.mem_filter.1 hy).2

/-- `first` / `pop_first` return the item with the smallest key, `last` / `pop_last` the largest. -/
theorem first_last_extreme (m : List α) (hs : Sorted c m) :
    (∀ a, m.head? = some a → ∀ b ∈ m, b = a ∨ c.cmp (c.key a) (c.key b) = .lt) ∧
    (∀ a, m.getLast? = some a → ∀ b ∈ m, b = a ∨ c.cmp (c.key b) (c.key a) = .lt) :=
  ⟨fun _ ha => head_is_min hs ha, fun _ ha => last_is_max hs ha⟩

/-! ### The conventions -/

/-- The `(Key, Option<Value>)` convention satisfies all the laws, with every item in play. -/
theorem pair_convention_lawful :
    pairCmp.Lawful ∧ EraseOrder pairCmp (fun _ => True) :=
  ⟨pairCmp_lawful, pairCmp_eraseOrder _⟩

/-- Whole-item (lexicographic) ordering satisfies the laws whenever the items in play have
distinct keys. -/
theorem whole_item_lawful_of_distinct_keys (P : Nat × Option Nat → Prop) (hP : DistinctKeys P) :
    wholeCmp.Lawful ∧ EraseOrder wholeCmp P :=
  ⟨wholeCmp_lawful, wholeCmp_eraseOrder hP⟩

/-- The order-preservation law is *necessary* (observation O2): with whole-item ordering and
two items sharing a key, the law fails, and on the history
`push (1,1); push (1,2); push (1,3); remove (1,2); find (1,1)` — in which no push violates the
order — the real algorithm (binary search over `[(1,1), (1,None), (1,3)]`) does not find the
present item `(1,1)`, while the ordered map does. -/
theorem whole_item_needs_distinct_keys :
    ¬ EraseOrder wholeCmp (fun _ => True) ∧
    let ops : List (Op (Nat × Option Nat) (Nat × Option Nat)) :=
      [.push (1, some 1), .push (1, some 2), .push (1, some 3), .remove (1, some 2), .find (1, some 1)]
    (run wholeCmp SortedDeque.empty ops).map (·.1) =
      some [.unit, .unit, .unit, .item (some (1, some 2)), .item none] ∧
    (runRef wholeCmp [] ops).map (·.1) =
      some [.unit, .unit, .unit, .item (some (1, some 2)), .item (some (1, some 1))] :=
  ⟨wholeCmp_not_eraseOrder, by decide, by decide⟩

/-- Instance for the harness's `pair` convention: every operation sequence whatsoever. -/
theorem pair_run_refines (ops : List (Op (Nat × Option Nat) Nat)) :
    match runRef pairCmp [] ops with
    | none => run pairCmp SortedDeque.empty ops = none
    | some (rs, m) => ∃ s', run pairCmp SortedDeque.empty ops = some (rs, s') ∧ abs pairCmp s' = m :=  by
  have hv : ∀ op ∈ ops, ValidOp pairCmp (fun _ => True) op := by
    intro op _
    cases op <;> simp [ValidOp]
  have := run_refines_ordered_map pairCmp_lawful (pairCmp_eraseOrder _) ops hv
  cases hr : runRef pairCmp [] ops with
  | none => rw [hr] at this; exact this
  | some p =>
    obtain ⟨rs, m⟩ := p
    rw [hr] at this
    obtain ⟨s', h1, h2, _⟩ := this
    exact ⟨s', h1, h2⟩

end Woodpile.Props.C16

namespace Woodpile.Props.C16
open Woodpile.SortedDeque

/-! Non-vacuity. -/

-- A valid history with a middle removal (tombstone), a lookup of the tombstoned key, a
-- pop_first that cleans the tombstone up, an erased push and the final iteration.
example :
    (run pairCmp SortedDeque.empty
      [.push (1, some 10), .push (2, some 20), .push (3, some 30), .push (2, none), .remove 2, .find 2,
       .find 3, .popFirst, .first, .iter]).map (·.1) =
    some [.unit, .unit, .unit, .unit, .item (some (2, some 20)), .item none, .item (some (3, some 30)),
      .item (some (1, some 10)), .item (some (3, some 30)), .items [(3, some 30)]] := by decide
-- the tombstone is physically there after the removal …
example :
    (run pairCmp SortedDeque.empty [.push (1, some 10), .push (2, some 20), .push (3, some 30), .remove 2]).map
      (·.2.items) = some ⟨0, [(1, some 10), (2, none), (3, some 30)]⟩ := by decide
-- … and the specified panic happens (model and reference both `none`).
example : run pairCmp SortedDeque.empty [.push (2, some 20), .push (2, some 21)] = none := by decide
example : runRef pairCmp [] [.push (2, some 20), .push (2, some 21)] = none := by decide
-- `check_rep` is not vacuous: a deque whose first item is erased fails it.
example : SortedDeque.checkRep pairCmp (SortedDeque.new [(1, none), (2, some 1)]) = none := by decide
-- the hypotheses of `run_refines_from_container` are satisfiable by a container with an
-- inner tombstone
example : Ghost pairCmp (fun _ => True) [(1, some 10), (2, none), (3, some 30)]
    [((1, some 10), false), ((2, some 20), true), ((3, some 30), false)] :=
  ⟨by decide, by decide, by decide⟩
-- `DistinctKeys` is satisfiable by an interesting set (the harness's `value = 10*key + 1`).
example : DistinctKeys (fun x => x.2 = some (10 * x.1 + 1)) := by
  intro x y hx hy h
  obtain ⟨x1, x2⟩ := x
  obtain ⟨y1, y2⟩ := y
  simp only at hx hy h
  subst h
  rw [hx, hy]
-- the whole-item convention on a distinct-keys history (find through the tombstone key too)
example :
    (run wholeCmp SortedDeque.empty
      [.push (1, some 11), .push (2, some 21), .push (3, some 31), .remove (2, some 21), .find (2, none),
       .find (2, some 21), .find (1, some 11), .popLast, .last]).map (·.1) =
    some [.unit, .unit, .unit, .item (some (2, some 21)), .item none, .item none, .item (some (1, some 11)),
      .item (some (3, some 31)), .item (some (1, some 11))] := by decide

end Woodpile.Props.C16

/-
C16 — SortedDeque behaves like an ordered map with append-only insertion.

Property theorems only (helper lemmas: `Woodpile/Proofs/SortedDeque{,Ops,Conv}.lean`).
The model is `Woodpile.SortedDeque` (`Woodpile/Model/SortedDeque.lean`): items with
tombstones over the SlidingDeque model of C15, every method of
`sliding_deque::SortedDeque` in the `Option` monad (`none` = panic: either `check_rep`,
the `assert_eq!` of `push_back_or_panic`, the `assert!` after `mark_erased`, a slice index,
or a SlidingDeque-level panic), generic in the comparator record `Cmp` (`key`, `cmp`,
`isErased`, `markErased`).  `slice::binary_search_by` is modelled as the actual algorithm of
core 1.95 and proved correct on every strictly sorted list (`binarySearchBy_spec`), so the
theorems do not depend on which correct search std uses.

The reference ordered map (`stepRef`) is the list of present items in key order:
lookups by `cmp … = Equal`, removal by filtering, push = append with the one *specified*
panic.  The abstraction function is `abs` = the non-erased items of the deque's view.

Hypotheses, all explicit:
* `c.Lawful`: `cmp` is a strict total order up to its own equality, and `mark_erased` makes
  an item erased;
* `EraseOrder c P`: among the items in play (`P`), erasing does not change the strict order
  of two items (DESIGN.md observation O2).  It holds unconditionally for the
  `(Key, Option<Value>)` convention (`pair_convention_lawful`) and for whole-item ordering
  when the items in play have distinct keys (`whole_item_lawful_of_distinct_keys`); it is
  necessary: `whole_item_needs_distinct_keys` exhibits a whole-item history on which the
  real algorithm misses a present item.
* an operation sequence is *valid* when every non-erased item it pushes is in play.
-/
import Woodpile.Proofs.SortedDequeRun

namespace Woodpile.Props.C16
open Woodpile.SortedDeque

variable {α κ : Type} {c : Cmp α κ} {P : α → Prop}

/-- **Refinement, one operation.**  From any state satisfying the invariant, every operation
(push_back_or_panic, find, remove, pop_first, pop_last, first, last, is_empty, iteration,
clear) does exactly what the reference ordered map does on the present items: it panics iff
the reference does (only a push of a non-erased item not strictly greater than the last),
otherwise it returns the same result, and the present items afterwards are the
reference's.  The invariant is re-established. -/
theorem refines_ordered_map (hc : c.Lawful) (he : EraseOrder c P) (s : SortedDeque α)
    (hs : SInv c P s) (op : Op α κ) (hv : ValidOp c P op) :
    match stepRef c (abs c s) op with
    | none => step c s op = none
    | some (r, m') => ∃ s', step c s op = some (r, s') ∧ abs c s' = m' ∧ SInv c P s' :=
  step_spec hc he hs op hv

/-- **All valid operation sequences from `Default::default()`.**  The run panics iff the
reference run does (at a push that violates the order); otherwise the list of results
equals the reference's and the present items at the end are the reference's. -/
theorem run_refines_ordered_map (hc : c.Lawful) (he : EraseOrder c P) (ops : List (Op α κ))
    (hv : ∀ op ∈ ops, ValidOp c P op) :
    match runRef c [] ops with
    | none => run c SortedDeque.empty ops = none
    | some (rs, m) => ∃ s', run c SortedDeque.empty ops = some (rs, s') ∧ abs c s' = m ∧ SInv c P s' := by
  have := run_spec hc he (SortedDeque.sinv_empty (c := c) (P := P) (α := α)) ops hv
  rwa [SortedDeque.abs_empty] at this

/-- The reference's results are produced operation by operation: a prefix of a sequence the
reference completes is completed too, with the corresponding prefix of the results. -/
theorem runRef_take (c : Cmp α κ) (m : List α) (ops : List (Op α κ)) (k : Nat)
    (rs : List (Ret α)) (m' : List α) (h : runRef c m ops = some (rs, m')) :
    ∃ m'', runRef c m (ops.take k) = some (rs.take k, m'') := by
  induction ops generalizing m k rs with
  | nil =>
    simp only [runRef, Option.some.injEq, Prod.mk.injEq] at h
    obtain ⟨rfl, rfl⟩ := h
    exact ⟨m, by simp [runRef]⟩
  | cons o ops ih =>
    cases k with
    | zero => exact ⟨m, by simp [runRef]⟩
    | succ k =>
      simp only [runRef] at h
      cases hs : stepRef c m o with
      | none => rw [hs] at h; cases h
      | some p =>
        obtain ⟨r, m1⟩ := p
        rw [hs] at h
        simp only at h
        cases hr : runRef c m1 ops with
        | none => rw [hr] at h; cases h
        | some q =>
          obtain ⟨rs1, m2⟩ := q
          rw [hr] at h
          simp only [Option.some.injEq, Prod.mk.injEq] at h
          obtain ⟨rfl, rfl⟩ := h
          obtain ⟨m'', h2⟩ := ih m1 k rs1 hr
          exact ⟨m'', by simp [runRef, hs, h2]⟩

/-- **After every operation**, prefix explicit: if the reference ordered map runs `ops`
without the specified panic, then for every `k` the real deque's model has executed the
first `k` operations without any panic, has returned exactly the first `k` of the
reference's results over the whole sequence, and is in a state satisfying the invariant
whose abstraction is the reference's map at that point. -/
theorem after_every_operation (hc : c.Lawful) (he : EraseOrder c P) (ops : List (Op α κ))
    (hv : ∀ op ∈ ops, ValidOp c P op) (rs : List (Ret α)) (m : List α)
    (h : runRef c [] ops = some (rs, m)) (k : Nat) :
    ∃ s' mk, runRef c [] (ops.take k) = some (rs.take k, mk) ∧
      run c SortedDeque.empty (ops.take k) = some (rs.take k, s') ∧ abs c s' = mk ∧ SInv c P s' := by
  obtain ⟨mk, hk⟩ := runRef_take c [] ops k rs m h
  have := run_refines_ordered_map hc he (ops.take k) (fun op hop => hv op (List.mem_of_mem_take hop))
  rw [hk] at this
  obtain ⟨s', h1, h2, h3⟩ := this
  exact ⟨s', mk, hk, h1, h2, h3⟩

/-- The same from `SortedDeque::new(container, marker)` for any container the caller is
entitled to hand over: the items as pushed (`gp`: in play, live, strictly sorted), some of
the inner ones possibly erased since, both ends live.  (`new` itself checks nothing.) -/
theorem run_refines_from_container (hc : c.Lawful) (he : EraseOrder c P) (l : List α)
    (gp : List (α × Bool)) (hg : Ghost c P l gp)
    (hhead : ∀ x, l.head? = some x → c.isErased x = false)
    (hlast : ∀ x, l.getLast? = some x → c.isErased x = false)
    (ops : List (Op α κ)) (hv : ∀ op ∈ ops, ValidOp c P op) :
    match runRef c (live c l) ops with
    | none => run c (SortedDeque.new l) ops = none
    | some (rs, m) => ∃ s', run c (SortedDeque.new l) ops = some (rs, s') ∧ abs c s' = m ∧ SInv c P s' := by
  have hs : SInv c P (SortedDeque.new l) :=
    ⟨Woodpile.SlidingDeque.SDeque.inv_ofList l,
      by simpa [SortedDeque.new, Woodpile.SlidingDeque.SDeque.view_ofList] using hhead,
      by simpa [SortedDeque.new, Woodpile.SlidingDeque.SDeque.view_ofList] using hlast,
      ⟨gp, by simpa [SortedDeque.new, Woodpile.SlidingDeque.SDeque.view_ofList] using hg⟩⟩
  have habs : abs c (SortedDeque.new l) = live c l := by
    simp [abs, SortedDeque.new, Woodpile.SlidingDeque.SDeque.view_ofList]
  have := run_spec hc he hs ops hv
  rw [habs] at this
  cases hr : runRef c (live c l) ops with
  | none => rw [hr] at this; exact this
  | some p => obtain ⟨rs, m⟩ := p; rw [hr] at this; exact this

/-- **No valid sequence panics**: if no push violates the order (the reference run succeeds),
the run succeeds — no `check_rep` of either layer fails, the binary search stays in bounds,
`cleanup_back` terminates, and no other assertion fires. -/
theorem no_panic_valid (hc : c.Lawful) (he : EraseOrder c P) (ops : List (Op α κ))
    (hv : ∀ op ∈ ops, ValidOp c P op) (hok : (runRef c [] ops).isSome = true) :
    (run c SortedDeque.empty ops).isSome = true := by
  have := run_refines_ordered_map hc he ops hv
  cases hr : runRef c [] ops with
  | none => simp [hr] at hok
  | some p =>
    obtain ⟨rs, m⟩ := p
    rw [hr] at this
    obtain ⟨s', h, _⟩ := this
    simp [h]

/-- **`ends_live`**: the invariant the Rust `check_rep` asserts — the first and the last item
of the underlying deque are never erased — holds after every valid sequence; hence
`first()`/`last()` return present items, namely the smallest / largest. -/
theorem ends_live (hc : c.Lawful) (he : EraseOrder c P) (ops : List (Op α κ))
    (hv : ∀ op ∈ ops, ValidOp c P op) (rs : List (Ret α)) (s : SortedDeque α)
    (hrun : run c SortedDeque.empty ops = some (rs, s)) :
    (∀ x, s.items.view.head? = some x → c.isErased x = false) ∧
    (∀ x, s.items.view.getLast? = some x → c.isErased x = false) ∧
    SortedDeque.checkRep c s = some () := by
  have := run_refines_ordered_map hc he ops hv
  cases hr : runRef c [] ops with
  | none => rw [hr] at this; simp only at this; rw [this] at hrun; cases hrun
  | some p =>
    obtain ⟨rs', m⟩ := p
    rw [hr] at this
    obtain ⟨s', h, _, hi⟩ := this
    rw [h] at hrun; cases hrun
    exact ⟨hi.head_live, hi.last_live, hi.checkRep⟩

/-- **`push_panics_iff`**: `push_back_or_panic` panics exactly when the item is not erased and
its key is not strictly greater than the key of the current last (= largest) present item. -/
theorem push_panics_iff (hc : c.Lawful) (he : EraseOrder c P) (s : SortedDeque α) (hs : SInv c P s)
    (x : α) (hv : c.isErased x = true ∨ P x) :
    SortedDeque.pushBackOrPanic c s x = none ↔
      c.isErased x = false ∧ ∃ l, (abs c s).getLast? = some l ∧ c.cmp (c.key l) (c.key x) ≠ .lt := by
  have h := step_spec hc he hs (.push x) hv
  have hstep : step c s (.push x) = none ↔ SortedDeque.pushBackOrPanic c s x = none := by
    simp only [step]
    cases SortedDeque.pushBackOrPanic c s x <;> simp
  rw [← hstep]
  simp only [stepRef] at h
  by_cases hx : c.isErased x = true
  · simp only [hx, if_true] at h
    obtain ⟨s', h1, _⟩ := h
    simp [h1, hx]
  · have hxl : c.isErased x = false := by simpa using hx
    simp only [hxl, Bool.false_eq_true, if_false] at h
    cases hl : (abs c s).getLast? with
    | none =>
      rw [hl] at h
      obtain ⟨s', h1, _⟩ := h
      simp [h1]
    | some l =>
      rw [hl] at h
      by_cases hlt : c.cmp (c.key l) (c.key x) = .lt
      · simp only [hlt, beq_self_eq_true, if_true] at h
        obtain ⟨s', h1, _⟩ := h
        simp [h1, hlt]
      · have : (c.cmp (c.key l) (c.key x) == Ordering.lt) = false := by simpa using hlt
        simp only [this, Bool.false_eq_true, if_false] at h
        simp [h, hxl, hlt]

/-- **`erased_push_noop`**: pushing an already-erased item changes nothing and never panics,
whatever its key. -/
theorem erased_push_noop (s : SortedDeque α) (hs : SInv c P s) (x : α) (hx : c.isErased x = true) :
    SortedDeque.pushBackOrPanic c s x = some s :=
  SortedDeque.push_erased hs hx

/-! ### The reference really is an ordered map (the clauses of the property, on `stepRef`) -/

/-- The present items are always in strictly ascending key order (so iteration is ascending). -/
theorem reference_sorted (hc : c.Lawful) (ops : List (Op α κ)) (rs : List (Ret α)) (m : List α)
    (h : runRef c [] ops = some (rs, m)) : Sorted c m := by
  have : ∀ (ops : List (Op α κ)) (m0 : List α), Sorted c m0 → ∀ rs m, runRef c m0 ops = some (rs, m) → Sorted c m := by
    intro ops
    induction ops with
    | nil => intro m0 h0 rs m h; simp only [runRef] at h; cases h; exact h0
    | cons op ops ih =>
      intro m0 h0 rs m h
      simp only [runRef] at h
      cases hs : stepRef c m0 op with
      | none => simp [hs] at h
      | some p =>
        obtain ⟨r, m1⟩ := p
        simp only [hs] at h
        cases hr : runRef c m1 ops with
        | none => simp [hr] at h
        | some q =>
          obtain ⟨rs', m2⟩ := q
          simp only [hr, Option.some.injEq, Prod.mk.injEq] at h
          obtain ⟨_, rfl⟩ := h
          exact ih m1 (stepRef_sorted hc h0 hs) _ _ hr
  exact this ops [] (by simp [Sorted]) rs m h

/-- A present item is found, with its value, under its own key. -/
theorem present_key_found (hc : c.Lawful) (m : List α) (hs : Sorted c m) (x : α) (hx : x ∈ m) :
    stepRef c m (.find (c.key x)) = some (.item (some x), m) := by
  simp [stepRef, find_present hc hs hx]

/-- A removed key is not found afterwards (nor iterated: it is filtered out of the list). -/
theorem removed_key_not_found (m : List α) (k : κ) (r : Ret α) (m' : List α)
    (h : stepRef c m (.remove k) = some (r, m')) :
    stepRef c m' (.find k) = some (.item none, m') ∧ ∀ y ∈ m', c.cmp (c.key y) k ≠ .eq := by
  simp only [stepRef, Option.some.injEq, Prod.mk.injEq] at h
  obtain ⟨_, rfl⟩ := h
  refine ⟨by simp [stepRef], ?_⟩
  intro y hy
  simpa using (List.mem_filter.1 hy).2

/-- `first` / `pop_first` return the item with the smallest key, `last` / `pop_last` the largest. -/
theorem first_last_extreme (m : List α) (hs : Sorted c m) :
    (∀ a, m.head? = some a → ∀ b ∈ m, b = a ∨ c.cmp (c.key a) (c.key b) = .lt) ∧
    (∀ a, m.getLast? = some a → ∀ b ∈ m, b = a ∨ c.cmp (c.key b) (c.key a) = .lt) :=
  ⟨fun _ ha => head_is_min hs ha, fun _ ha => last_is_max hs ha⟩

/-! ### The conventions -/

/-- The `(Key, Option<Value>)` convention satisfies all the laws, with every item in play. -/
theorem pair_convention_lawful :
    pairCmp.Lawful ∧ EraseOrder pairCmp (fun _ => True) :=
  ⟨pairCmp_lawful, pairCmp_eraseOrder _⟩

/-- Whole-item (lexicographic) ordering satisfies the laws whenever the items in play have
distinct keys. -/
theorem whole_item_lawful_of_distinct_keys (P : Nat × Option Nat → Prop) (hP : DistinctKeys P) :
    wholeCmp.Lawful ∧ EraseOrder wholeCmp P :=
  ⟨wholeCmp_lawful, wholeCmp_eraseOrder hP⟩

/-- The order-preservation law is *necessary* (observation O2): with whole-item ordering and
two items sharing a key, the law fails, and on the history
`push (1,1); push (1,2); push (1,3); remove (1,2); find (1,1)` — in which no push violates the
order — the real algorithm (binary search over `[(1,1), (1,None), (1,3)]`) does not find the
present item `(1,1)`, while the ordered map does. -/
theorem whole_item_needs_distinct_keys :
    ¬ EraseOrder wholeCmp (fun _ => True) ∧
    let ops : List (Op (Nat × Option Nat) (Nat × Option Nat)) :=
      [.push (1, some 1), .push (1, some 2), .push (1, some 3), .remove (1, some 2), .find (1, some 1)]
    (run wholeCmp SortedDeque.empty ops).map (·.1) =
      some [.unit, .unit, .unit, .item (some (1, some 2)), .item none] ∧
    (runRef wholeCmp [] ops).map (·.1) =
      some [.unit, .unit, .unit, .item (some (1, some 2)), .item (some (1, some 1))] :=
  ⟨wholeCmp_not_eraseOrder, by decide, by decide⟩

/-- Instance for the harness's `pair` convention: every operation sequence whatsoever. -/
theorem pair_run_refines (ops : List (Op (Nat × Option Nat) Nat)) :
    match runRef pairCmp [] ops with
    | none => run pairCmp SortedDeque.empty ops = none
    | some (rs, m) => ∃ s', run pairCmp SortedDeque.empty ops = some (rs, s') ∧ abs pairCmp s' = m :=  by
  have hv : ∀ op ∈ ops, ValidOp pairCmp (fun _ => True) op := by
    intro op _
    cases op <;> simp [ValidOp]
  have := run_refines_ordered_map pairCmp_lawful (pairCmp_eraseOrder _) ops hv
  cases hr : runRef pairCmp [] ops with
  | none => rw [hr] at this; exact this
  | some p =>
    obtain ⟨rs, m⟩ := p
    rw [hr] at this
    obtain ⟨s', h1, h2, _⟩ := this
    exact ⟨s', h1, h2⟩

/-! ### Run-level clauses (claim-audit gap 17): persistence, any start state, whole items -/

/-- **Iteration is ascending from any state**, not only from `[]`: from every strictly
sorted map (in particular the present items of any state the real deque can be in, see
`reachable_sorted`, and of any container handed to `new`), after every run the map is
strictly sorted and every list returned by an iteration along the way was strictly sorted. -/
theorem reference_sorted_from (hc : c.Lawful) (m0 : List α) (h0 : Sorted c m0) (ops : List (Op α κ))
    (rs : List (Ret α)) (m : List α) (h : runRef c m0 ops = some (rs, m)) :
    Sorted c m ∧ ∀ r ∈ rs, ∀ l, r = .items l → Sorted c l :=
  runRef_sorted hc m0 h0 ops rs m h

/-- … and the states of the real deque are such starts: under the invariant (every state
reached by valid operations from `Default::default()` or from an entitled `new(container)`)
the present items are strictly sorted, `iter()` returns exactly them, and the same holds
after any further valid run, for every iteration result in it. -/
theorem reachable_sorted (hc : c.Lawful) (he : EraseOrder c P) (s : SortedDeque α) (hs : SInv c P s)
    (ops : List (Op α κ)) (hv : ∀ op ∈ ops, ValidOp c P op) (rs : List (Ret α)) (s' : SortedDeque α)
    (hrun : run c s ops = some (rs, s')) :
    Sorted c (abs c s) ∧ SortedDeque.iter c s = some (abs c s) ∧
    Sorted c (abs c s') ∧ SortedDeque.iter c s' = some (abs c s') ∧
    ∀ r ∈ rs, ∀ l, r = .items l → Sorted c l := by
  obtain ⟨h1, h2⟩ := run_eq_runRef hc he hs ops hv rs s' hrun
  obtain ⟨h3, h4⟩ := runRef_sorted hc _ (hs.abs_sorted he) ops rs _ h1
  exact ⟨hs.abs_sorted he, SortedDeque.iter_spec hs, h3, SortedDeque.iter_spec h2, h4⟩

/-- **Present keys are found, on the model of the real code**, in every state under the
invariant (not only on the reference, and not only from `[]`): `find(key x)` returns `x`
itself - key and value - for every present `x`, and an item `find` returns is present. -/
theorem present_key_found_impl (hc : c.Lawful) (he : EraseOrder c P) (s : SortedDeque α) (hs : SInv c P s) :
    (∀ x ∈ abs c s, SortedDeque.find c s (c.key x) = some (some x)) ∧
    (∀ k y, SortedDeque.find c s k = some (some y) → y ∈ abs c s ∧ c.cmp (c.key y) k = .eq) := by
  refine ⟨fun x hx => ?_, fun k y h => ?_⟩
  · rw [SortedDeque.find_spec hc he hs, find_present hc (hs.abs_sorted he) hx]
  · rw [SortedDeque.find_spec hc he hs] at h
    simp only [Option.some.injEq] at h
    exact ⟨List.mem_of_find?_eq_some h, by simpa using List.find?_some h⟩

/-- **Gone stays gone** (reference map, any later state).  Let some operation make a
present item `x` vanish from the (strictly sorted) map - `remove` of its key, a
`pop_first` / `pop_last` that returned it, or `clear`.  Then along EVERY continuation `ops`
that does not push a live item with `x`'s key again (`hno`), at its end and - `ops` being
arbitrary - after each of its prefixes: no present item has `x`'s key, no result of any
operation (`find`, `remove`, pops, `first`/`last`, iteration) contains an item with that
key, and `find(key x)` answers `None`. -/
theorem gone_stays_gone (hc : c.Lawful) (m1 m2 : List α) (hs : Sorted c m1) (op : Op α κ) (r : Ret α)
    (hstep : stepRef c m1 op = some (r, m2)) (x : α) (hx : x ∈ m1) (hgone : x ∉ m2)
    (ops : List (Op α κ))
    (hno : ∀ y, Op.push y ∈ ops → c.isErased y = false → c.cmp (c.key y) (c.key x) ≠ .eq)
    (rs : List (Ret α)) (m3 : List α) (hrun : runRef c m2 ops = some (rs, m3)) :
    (∀ y ∈ m3, c.cmp (c.key y) (c.key x) ≠ .eq) ∧
    (∀ r ∈ rs, ∀ y ∈ r.returned, c.cmp (c.key y) (c.key x) ≠ .eq) ∧
    stepRef c m3 (.find (c.key x)) = some (.item none, m3) := by
  have h2 := absent_after_vanish hc hs hstep hx hgone
  obtain ⟨a, b⟩ := runRef_absent (c.key x) m2 h2 ops hno rs m3 hrun
  exact ⟨a, b, find_absent a⟩

/-- The operations that make an item vanish do: after `remove(key x)` of a present `x`,
and after a pop that returned `x`, `x` is not in the map. -/
theorem removed_or_popped_vanishes (hc : c.Lawful) (m : List α) (hs : Sorted c m) (x : α) :
    (x ∈ m → ∀ r m', stepRef c m (.remove (c.key x)) = some (r, m') → r = .item (some x) ∧ x ∉ m') ∧
    (∀ m', stepRef c m .popFirst = some (.item (some x), m') → x ∈ m ∧ x ∉ m') ∧
    (∀ m', stepRef c m .popLast = some (.item (some x), m') → x ∈ m ∧ x ∉ m') := by
  refine ⟨?_, ?_, ?_⟩
  · intro hx r m' h
    simp only [stepRef, Option.some.injEq, Prod.mk.injEq] at h
    obtain ⟨rfl, rfl⟩ := h
    refine ⟨by rw [find_present hc hs hx], ?_⟩
    intro hm
    have := (List.mem_filter.1 hm).2
    simp [hc.refl] at this
  · intro m' h
    simp only [stepRef, Option.some.injEq, Prod.mk.injEq, Ret.item.injEq] at h
    obtain ⟨h1, rfl⟩ := h
    obtain ⟨t, rfl⟩ := List.head?_eq_some_iff.1 h1
    refine ⟨by simp, ?_⟩
    intro hm
    simp only [List.drop_succ_cons, List.drop_zero] at hm
    have := (List.pairwise_cons.1 hs).1 x hm
    rw [hc.refl] at this; cases this
  · intro m' h
    simp only [stepRef, Option.some.injEq, Prod.mk.injEq, Ret.item.injEq] at h
    obtain ⟨h1, rfl⟩ := h
    obtain ⟨ys, rfl⟩ := List.getLast?_eq_some_iff.1 h1
    refine ⟨by simp, ?_⟩
    intro hm
    simp only [List.dropLast_concat] at hm
    have := (List.pairwise_append.1 hs).2.2 x hm x (by simp)
    rw [hc.refl] at this; cases this

/-- **Increasing keys** (the histories the property speaks of: "push_back_or_panic with
increasing keys").  If the live items a history pushes are in strictly increasing key order
over the whole history, then from `[]` the reference run never hits the specified panic, and
an item that vanishes at some point can never come back: no `hno` side condition is
needed, every later push has a strictly greater key. -/
theorem gone_stays_gone_increasing (hc : c.Lawful) (ops1 : List (Op α κ)) (op : Op α κ) (ops2 : List (Op α κ))
    (hinc : IncreasingPushes c (ops1 ++ op :: ops2)) :
    (runRef c [] (ops1 ++ op :: ops2)).isSome = true ∧
    ∀ rs1 m1 r m2 rs2 m3, runRef c [] ops1 = some (rs1, m1) → stepRef c m1 op = some (r, m2) →
      runRef c m2 ops2 = some (rs2, m3) → ∀ x ∈ m1, x ∉ m2 →
      (∀ y ∈ m3, c.cmp (c.key y) (c.key x) ≠ .eq) ∧
      (∀ r ∈ rs2, ∀ y ∈ r.returned, c.cmp (c.key y) (c.key x) ≠ .eq) ∧
      stepRef c m3 (.find (c.key x)) = some (.item none, m3) := by
  refine ⟨runRef_increasing_isSome [] _ hinc (by simp), ?_⟩
  intro rs1 m1 r m2 rs2 m3 h1 h2 h3 x hx hgone
  have hs1 : Sorted c m1 := (runRef_sorted hc [] (by simp [Sorted]) ops1 rs1 m1 h1).1
  have hxp : x ∈ pushedLive c ops1 := by
    rcases runRef_subset_pushed [] ops1 rs1 m1 h1 x hx with h | h
    · simp at h
    · exact h
  refine gone_stays_gone hc m1 m2 hs1 op r h2 x hx hgone ops2 ?_ rs2 m3 h3
  intro y hy he
  have hyp : y ∈ pushedLive c ops2 := mem_pushedLive.2 ⟨hy, he⟩
  unfold IncreasingPushes at hinc
  rw [pushedLive_append, show op :: ops2 = [op] ++ ops2 from rfl, pushedLive_append] at hinc
  have := (List.pairwise_append.1 hinc).2.2 x hxp y (List.mem_append_right _ hyp)
  rw [hc.gt_of_lt this]; decide

/-- **Gone stays gone, on the model of the real code.**  From any state satisfying the
invariant: if a valid operation makes the present item `x` vanish, then in every later
state of every valid continuation that does not push `x`'s key again, `find(key x)` is
`None`, `iter()` contains no item with that key, and no operation along the way returned
one. -/
theorem gone_stays_gone_impl (hc : c.Lawful) (he : EraseOrder c P) (s : SortedDeque α) (hs : SInv c P s)
    (op : Op α κ) (hvo : ValidOp c P op) (r : Ret α) (s1 : SortedDeque α)
    (hstep : step c s op = some (r, s1)) (x : α) (hx : x ∈ abs c s) (hgone : x ∉ abs c s1)
    (ops : List (Op α κ)) (hv : ∀ o ∈ ops, ValidOp c P o)
    (hno : ∀ y, Op.push y ∈ ops → c.isErased y = false → c.cmp (c.key y) (c.key x) ≠ .eq)
    (rs : List (Ret α)) (s2 : SortedDeque α) (hrun : run c s1 ops = some (rs, s2)) :
    SortedDeque.find c s2 (c.key x) = some none ∧
    (∃ l, SortedDeque.iter c s2 = some l ∧ ∀ y ∈ l, c.cmp (c.key y) (c.key x) ≠ .eq) ∧
    (∀ r ∈ rs, ∀ y ∈ r.returned, c.cmp (c.key y) (c.key x) ≠ .eq) := by
  have h1 := step_spec hc he hs op hvo
  cases hr : stepRef c (abs c s) op with
  | none => rw [hr] at h1; simp only at h1; rw [h1] at hstep; cases hstep
  | some p =>
    obtain ⟨r', m1⟩ := p
    rw [hr] at h1
    obtain ⟨s1', e1, e2, hs1⟩ := h1
    rw [e1] at hstep
    simp only [Option.some.injEq, Prod.mk.injEq] at hstep
    obtain ⟨rfl, rfl⟩ := hstep
    obtain ⟨h2, hs2⟩ := run_eq_runRef hc he hs1 ops hv rs s2 hrun
    rw [e2] at h2
    rw [e2] at hgone
    obtain ⟨a, b, _⟩ := gone_stays_gone hc (abs c s) m1 (hs.abs_sorted he) op r' hr x hx hgone ops hno rs _ h2
    refine ⟨?_, ⟨abs c s2, SortedDeque.iter_spec hs2, a⟩, b⟩
    rw [SortedDeque.find_spec hc he hs2]
    have : (abs c s2).find? (fun y => c.cmp (c.key y) (c.key x) == .eq) = none := by
      rw [List.find?_eq_none]; intro y hy; simpa using a y hy
    rw [this]

/-- **Whole-item convention, run level.**  For the whole-item ordering (`wholeCmp`, the
crate's `TestItem` / the harness's `WItem`) every history is refined as soon as it passes
the decidable check `wholeKeysDistinct`: among the live items the history pushes, the
key field determines the item.  (Necessary: `whole_item_needs_distinct_keys`.) -/
theorem whole_run_refines (ops : List (Op (Nat × Option Nat) (Nat × Option Nat)))
    (hd : wholeKeysDistinct ops = true) :
    match runRef wholeCmp [] ops with
    | none => run wholeCmp SortedDeque.empty ops = none
    | some (rs, m) => ∃ s', run wholeCmp SortedDeque.empty ops = some (rs, s') ∧ abs wholeCmp s' = m := by
  have hv := valid_of_pushedLive (c := wholeCmp) (ops := ops)
  have := run_refines_ordered_map wholeCmp_lawful (wholeCmp_eraseOrder (wholeKeysDistinct_spec hd)) ops hv
  cases hr : runRef wholeCmp [] ops with
  | none => rw [hr] at this; exact this
  | some p =>
    obtain ⟨rs, m⟩ := p
    rw [hr] at this
    obtain ⟨s', h1, h2, _⟩ := this
    exact ⟨s', h1, h2⟩

/-- The condition is discharged for the regime of the `sorted` correspondence family
(harness/src/fam_sorted.rs: `value = 10 * key + 1`), and more generally whenever the
pushed value is a function `f` of the key: such a history passes `wholeKeysDistinct`, so
`whole_run_refines` applies to every history the family generates in that regime. -/
theorem whole_run_refines_of_keyed_values (f : Nat → Nat)
    (ops : List (Op (Nat × Option Nat) (Nat × Option Nat)))
    (hf : ∀ x, Op.push x ∈ ops → x.2 = none ∨ x.2 = some (f x.1)) :
    wholeKeysDistinct ops = true ∧
    match runRef wholeCmp [] ops with
    | none => run wholeCmp SortedDeque.empty ops = none
    | some (rs, m) => ∃ s', run wholeCmp SortedDeque.empty ops = some (rs, s') ∧ abs wholeCmp s' = m := by
  have hd : wholeKeysDistinct ops = true := by
    simp only [wholeKeysDistinct, List.all_eq_true, Bool.or_eq_true, bne_iff_ne, ne_eq, beq_iff_eq]
    intro x hx y hy
    obtain ⟨hx1, hx2⟩ := mem_pushedLive.1 hx
    obtain ⟨hy1, hy2⟩ := mem_pushedLive.1 hy
    by_cases hk : x.1 = y.1
    · right
      obtain ⟨x1, x2⟩ := x
      obtain ⟨y1, y2⟩ := y
      simp only at hk; subst hk
      have a := hf _ hx1
      have b := hf _ hy1
      simp only [wholeCmp, Option.isNone_eq_false_iff, Option.isSome_iff_exists] at hx2 hy2
      rcases a with a | a
      · simp only at a; subst a; obtain ⟨_, h⟩ := hx2; cases h
      · rcases b with b | b
        · simp only at b; subst b; obtain ⟨_, h⟩ := hy2; cases h
        · simp only at a b; rw [a, b]
    · left; exact hk
  exact ⟨hd, whole_run_refines ops hd⟩

end Woodpile.Props.C16

namespace Woodpile.Props.C16
open Woodpile.SortedDeque

/-! Non-vacuity. -/

-- A valid history with a middle removal (tombstone), a lookup of the tombstoned key, a
-- pop_first that cleans the tombstone up, an erased push and the final iteration.
example :
    (run pairCmp SortedDeque.empty
      [.push (1, some 10), .push (2, some 20), .push (3, some 30), .push (2, none), .remove 2, .find 2,
       .find 3, .popFirst, .first, .iter]).map (·.1) =
    some [.unit, .unit, .unit, .unit, .item (some (2, some 20)), .item none, .item (some (3, some 30)),
      .item (some (1, some 10)), .item (some (3, some 30)), .items [(3, some 30)]] := by decide
-- the tombstone is physically there after the removal …
example :
    (run pairCmp SortedDeque.empty [.push (1, some 10), .push (2, some 20), .push (3, some 30), .remove 2]).map
      (·.2.items) = some ⟨0, [(1, some 10), (2, none), (3, some 30)]⟩ := by decide
-- … and the specified panic happens (model and reference both `none`).
example : run pairCmp SortedDeque.empty [.push (2, some 20), .push (2, some 21)] = none := by decide
example : runRef pairCmp [] [.push (2, some 20), .push (2, some 21)] = none := by decide
-- `check_rep` is not vacuous: a deque whose first item is erased fails it.
example : SortedDeque.checkRep pairCmp (SortedDeque.new [(1, none), (2, some 1)]) = none := by decide
-- the hypotheses of `run_refines_from_container` are satisfiable by a container with an
-- inner tombstone
example : Ghost pairCmp (fun _ => True) [(1, some 10), (2, none), (3, some 30)]
    [((1, some 10), false), ((2, some 20), true), ((3, some 30), false)] :=
  ⟨by decide, by decide, by decide⟩
-- `DistinctKeys` is satisfiable by an interesting set (the harness's `value = 10*key + 1`).
example : DistinctKeys (fun x => x.2 = some (10 * x.1 + 1)) := by
  intro x y hx hy h
  obtain ⟨x1, x2⟩ := x
  obtain ⟨y1, y2⟩ := y
  simp only at hx hy h
  subst h
  rw [hx, hy]
-- the whole-item convention on a distinct-keys history (find through the tombstone key too)
example :
    (run wholeCmp SortedDeque.empty
      [.push (1, some 11), .push (2, some 21), .push (3, some 31), .remove (2, some 21), .find (2, none),
       .find (2, some 21), .find (1, some 11), .popLast, .last]).map (·.1) =
    some [.unit, .unit, .unit, .item (some (2, some 21)), .item none, .item none, .item (some (1, some 11)),
      .item (some (3, some 31)), .item (some (1, some 11))] := by decide

-- gone stays gone is not vacuous: a middle removal, a pop of each end, then later ops; the removed
-- key 2 can be pushed again once everything above it is gone (so `hno` is a real side condition) …
example : (runRef pairCmp [] [.push (1, some 10), .push (2, some 20), .push (3, some 30), .remove 2,
      .popLast, .push (2, some 21), .find 2]).map (·.1) =
    some [.unit, .unit, .unit, .item (some (2, some 20)), .item (some (3, some 30)), .unit,
      .item (some (2, some 21))] := by decide
-- … which a history with increasing pushes never does
example : IncreasingPushes pairCmp
    [.push (1, some 10), .push (2, some 20), .remove 1, .push (2, none), .push (5, some 50), .popLast] := by
  simp [IncreasingPushes, pushedLive, Sorted, pairCmp]; decide
example : ¬ IncreasingPushes pairCmp [.push (2, some 20), .popLast, .push (2, some 21)] := by
  simp [IncreasingPushes, pushedLive, Sorted, pairCmp]
-- the checkable whole-item condition: accepts the harness regime, rejects the O2 history
example : wholeKeysDistinct [.push (1, some 11), .push (2, some 21), .remove (2, some 21), .push (3, some 31)] = true := by
  decide
example : wholeKeysDistinct [.push (1, some 1), .push (1, some 2), .push (1, some 3)] = false := by decide

end Woodpile.Props.C16

/-
C19 — The NFS base time only moves forward, and only on evidence from trusted devices.

Property theorems only (helper lemmas: `Woodpile/Proofs/NfsVoucher.lean`).
Model: `Woodpile.NfsVoucher` — the module state (`TRUSTED_PATHS`, `BASE_TIME`)
and one function per public function of vouched_time/src/nfs_voucher.rs
(`add_trusted_path`, `observe_file_time`, `maybe_observe_file_time`,
`scan_base_time`, `get_base_time`, `get_base_time_unlocked`,
`should_refresh_base_time`), with every answer of the operating system (open
succeeds or fails, what `stat` reports, the clock, the rate limiter) an
explicit input of the call (`Call`).  A history is a `List Call` applied to the
initial state `init`; the theorems quantify over all histories, i.e. over all
call sequences *and* all OS answers (any device ids, any change-times including
negative ones, failing opens/stats, any clock readings).

The cell follows the sequential specification of `AtomicBaseTime`
(single-threaded histories; concurrency is C13/C18).
-/
import Woodpile.Proofs.NfsVoucher
import Woodpile.Proofs.VouchedTime

namespace Woodpile.Props.C19
open Woodpile.Raffle Woodpile.NfsVoucher

/-- The base time never decreases: between any two points of any history
(`pre` is the history up to the earlier point, `pre ++ suf` up to the later). -/
theorem base_monotone (pre suf : List Call) :
    (finalState init pre).base ≤ (finalState init (pre ++ suf)).base := by
  rw [finalState_append]
  exact finalState_base_le _ (finalState_inv init inv_init pre) suf

/-- Whenever a call changes the cell (base time or voucher), the new content is
exactly the change-time (in ms, as `update_base_time` computes it) and voucher
of a file whose `stat` answer was presented to *this* call and whose device was
registered as trusted before the call — or is being registered by this very
call (`add_trusted_path`).  The new base time is not older than the old one. -/
theorem changes_only_to_trusted_ctime (pre : List Call) (c : Call) :
    let s := finalState init pre
    let s' := (step s c).1
    (s'.base, s'.voucher) ≠ (s.base, s.voucher) →
      ∃ f : Stat, c.presents f ∧
        (s.trusts f.dev = true ∨ ∃ path, c = .addTrusted path (.stat f)) ∧
        s'.base = millisOf f ∧ s'.voucher = vouchRaw nfsVouch (millisOf f) ∧ s.base ≤ millisOf f := by
  intro s s' hne
  have hinv : Inv s := finalState_inv init inv_init pre
  rcases (step_spec s hinv c).shape with h | ⟨f, hp, ht, h⟩ | ⟨p, f, hc, h⟩
  · exact absurd (by show ((step s c).1.base, (step s c).1.voucher) = _; rw [h]) hne
  · have hs' : s' = offer s f := h
    rcases offer_cell s f with ⟨h1, h2⟩ | ⟨h1, h2, h3⟩
    · exact absurd (by rw [hs', h1, h2]) hne
    · exact ⟨f, hp, Or.inl ht, by rw [hs', h1], by rw [hs', h2], h3⟩
  · have hb : s'.base = (offer s f).base := by show (step s c).1.base = _; rw [h]
    have hv : s'.voucher = (offer s f).voucher := by show (step s c).1.voucher = _; rw [h]
    rcases offer_cell s f with ⟨h1, h2⟩ | ⟨h1, h2, h3⟩
    · exact absurd (by rw [hb, hv, h1, h2]) hne
    · exact ⟨f, by rw [hc]; rfl, Or.inr ⟨p, hc⟩, by rw [hb, h1], by rw [hv, h2], h3⟩

/-- The set of trusted devices changes only through a successful `add_trusted_path`. -/
theorem trust_changes_only_by_add (pre : List Call) (c : Call) :
    let s := finalState init pre
    (step s c).1.trusted ≠ s.trusted → ∃ path f, c = .addTrusted path (.stat f) := by
  intro s hne
  have hinv : Inv s := finalState_inv init inv_init pre
  rcases (step_spec s hinv c).shape with h | ⟨f, _, _, h⟩ | ⟨p, f, hc, _⟩
  · exact absurd (by rw [h]) hne
  · exact absurd (by rw [h, offer_trusted]) hne
  · exact ⟨p, f, hc⟩

/-- Observing a file on a device that is not (yet) trusted reports `None` and
leaves the whole module state untouched — for `observe_file_time`, and for
`maybe_observe_file_time` whatever the refresh policy decides. -/
theorem untrusted_reports_none_and_noop (pre : List Call) (f : Stat) :
    let s := finalState init pre
    s.trusts f.dev = false →
      step s (.observe (.stat f)) = (s, .observed f none) ∧
      ∀ rl now, step s (.maybeObserve rl now (.stat f)) = (s, .unit) := by
  intro s ht
  have hinv : Inv s := finalState_inv init inv_init pre
  refine ⟨by simp [step, observeFileTime, updateBaseTime_stat, ht], ?_⟩
  intro rl now
  obtain ⟨b, hb⟩ := shouldRefresh_inv s hinv defaultLeewayMs rl now
  cases b with
  | false => simp only [step, maybeObserveFileTime, hb]; simp [maybeObserveOn]
  | true =>
    simp only [step, maybeObserveFileTime, hb]
    simp [maybeObserveOn, observeFileTime, updateBaseTime_stat, ht]

/-- Every (base time, voucher) pair any call of any history returns — from
`observe_file_time`, `get_base_time`, `get_base_time_unlocked` — passes the
voucher check `VouchedTime::check` starts with (`BASE_TIME_CHECK`). -/
theorem returned_pairs_check (cs : List Call) :
    ∀ r ∈ run init cs, ∀ bv ∈ r.2.pairs,
      Raffle.check baseTimeCheck bv.1 bv.2 = true ∧
      ∀ ns, VouchedTime.check VouchedTime.prodCfg ns bv.1 bv.2 ≠ .err .badVoucher := by
  intro r hr bv hbv
  obtain ⟨pre, c, suf, _, rfl⟩ := run_mem init cs r hr
  have hinv : Inv (finalState init pre) := finalState_inv init inv_init pre
  have hc := (step_spec _ hinv c).pairs bv hbv
  refine ⟨hc, fun ns => ?_⟩
  have hp : VouchedTime.prodCfg.params = baseTimeCheck := rfl
  intro h
  rw [VouchedTime.check_badVoucher_iff, hp, hc] at h
  cases h

/-- No call of any history panics: the assertions in `raffle::vouch`,
`BaseTime::update`, `AtomicBaseTime::snapshot` and the `expect("Path is
trusted.")` of `add_trusted_path` are unreachable. -/
theorem no_panic (cs : List Call) : ∀ r ∈ run init cs, r.2 ≠ .panic := by
  intro r hr
  obtain ⟨pre, c, suf, _, rfl⟩ := run_mem init cs r hr
  exact (step_spec _ (finalState_inv init inv_init pre) c).noPanic

end Woodpile.Props.C19

namespace Woodpile.Props.C19
open Woodpile.Raffle Woodpile.NfsVoucher

/-! Non-vacuity: a concrete history in which every clause fires — an untrusted
observation (no-op), a registration that moves the base time, a newer trusted
file (moves it), an older trusted file (ignored), a newer file on an untrusted
device (ignored), a refresh through `get_base_time` (moves it). -/

example :
    (run init [
      .observe (.stat ⟨27, 1790739306, 500000000⟩),
      .addTrusted 0 (.stat ⟨27, 1790739306, 500000000⟩),
      .observe (.stat ⟨27, 1790739307, 0⟩),
      .observe (.stat ⟨27, 1790739000, 0⟩),
      .observe (.stat ⟨65024, 1790740000, 0⟩),
      .getBaseTime 1790739310000000000 [(0, .stat ⟨27, 1790739309, 999999999⟩)],
      .getUnlocked]).map (fun r => (r.1.base, r.2.pairs.map (·.1)))
    = [(0, []), (1790739306500, []), (1790739307000, [1790739307000]), (1790739307000, [1790739000000]),
       (1790739307000, []), (1790739309999, [1790739309999]), (1790739309999, [1790739309999])] := by
  decide +kernel

-- The hypothesis of `untrusted_reports_none_and_noop` holds in the initial state and after trusting another device.
example : (finalState init []).trusts 27 = false := by decide +kernel
example : (finalState init [.addTrusted 0 (.stat ⟨27, 1, 0⟩)]).trusts 65024 = false
    ∧ (finalState init [.addTrusted 0 (.stat ⟨27, 1, 0⟩)]).trusts 27 = true := by decide +kernel
-- The hypothesis of `changes_only_to_trusted_ctime` (the cell changed) is met by a registration.
example : ((step init (.addTrusted 0 (.stat ⟨27, 1, 0⟩))).1.base, (step init (.addTrusted 0 (.stat ⟨27, 1, 0⟩))).1.voucher)
    ≠ (init.base, init.voucher) := by decide +kernel
-- Observation O3: a negative change-time saturates the base time at 2^64 - 1 (the model follows the code).
example : millisOf ⟨27, -1, 0⟩ = 18446744073709551615 := by decide +kernel

end Woodpile.Props.C19

/-
C19 — The NFS base time only moves forward, and only on evidence from trusted devices.

Property theorems only (helper lemmas: `Woodpile/Proofs/NfsVoucher.lean`).
Model: `Woodpile.NfsVoucher` — the module state (`TRUSTED_PATHS`, `BASE_TIME`)
and one function per public function of vouched_time/src/nfs_voucher.rs
(`add_trusted_path`, `observe_file_time`, `maybe_observe_file_time`,
`scan_base_time`, `get_base_time`, `get_base_time_unlocked`,
`should_refresh_base_time`), with every answer of the operating system (open
succeeds or fails, what `stat` reports, the clock, the rate limiter) an
explicit input of the call (`Call`).  A history is a `List Call` applied to the
initial state `init`; the theorems quantify over all histories, i.e. over all
call sequences *and* all OS answers (any device ids, any change-times including
negative ones, failing opens/stats, any clock readings).

The cell follows the sequential specification of `AtomicBaseTime`
(single-threaded histories; concurrency is C13/C18).
-/
import Woodpile.Proofs.NfsVoucher
import Woodpile.Proofs.VouchedTime
import Woodpile.Props.C13R

namespace Woodpile.Props.C19
open Woodpile.Raffle Woodpile.NfsVoucher

/-- The base time never decreases: between any two points of any history
(`pre` is the history up to the earlier point, `pre ++ suf` up to the later). -/
theorem base_monotone (pre suf : List Call) :
    (finalState init pre).base ≤ (finalState init (pre ++ suf)).base := by
  rw [finalState_append]
  exact finalState_base_le _ (finalState_inv init inv_init pre) suf

/-- Whenever a call changes the cell (base time or voucher), the new content is
exactly the change-time (in ms, as `update_base_time` computes it) and voucher
of a file whose `stat` answer was presented to *this* call and whose device was
registered as trusted before the call — or is being registered by this very
call (`add_trusted_path`).  The new base time is not older than the old one. -/
theorem changes_only_to_trusted_ctime (pre : List Call) (c : Call) :
    let s := finalState init pre
    let s' := (step s c).1
    (s'.base, s'.voucher) ≠ (s.base, s.voucher) →
      ∃ f : Stat, c.presents f ∧
        (s.trusts f.dev = true ∨ ∃ path, c = .addTrusted path (.stat f)) ∧
        s'.base = millisOf f ∧ s'.voucher = vouchRaw nfsVouch (millisOf f) ∧ s.base ≤ millisOf f := by
  intro s s' hne
  have hinv : Inv s := finalState_inv init inv_init pre
  rcases (step_spec s hinv c).shape with h | ⟨f, hp, ht, h⟩ | ⟨p, f, hc, h⟩
  · exact absurd (by show ((step s c).1.base, (step s c).1.voucher) = _; rw [h]) hne
  · have hs' : s' = offer s f := h
    rcases offer_cell s f with ⟨h1, h2⟩ | ⟨h1, h2, h3⟩
    · exact absurd (by rw [hs', h1, h2]) hne
    · exact ⟨f, hp, Or.inl ht, by rw [hs', h1], by rw [hs', h2], h3⟩
  · have hb : s'.base = (offer s f).base := by show (step s c).1.base = _; rw [h]
    have hv : s'.voucher = (offer s f).voucher := by show (step s c).1.voucher = _; rw [h]
    rcases offer_cell s f with ⟨h1, h2⟩ | ⟨h1, h2, h3⟩
    · exact absurd (by rw [hb, hv, h1, h2]) hne
    · exact ⟨f, by rw [hc]; rfl, Or.inr ⟨p, hc⟩, by rw [hb, h1], by rw [hv, h2], h3⟩

/-- The set of trusted devices changes only through a successful `add_trusted_path`. -/
theorem trust_changes_only_by_add (pre : List Call) (c : Call) :
    let s := finalState init pre
    (step s c).1.trusted ≠ s.trusted → ∃ path f, c = .addTrusted path (.stat f) := by
  intro s hne
  have hinv : Inv s := finalState_inv init inv_init pre
  rcases (step_spec s hinv c).shape with h | ⟨f, _, _, h⟩ | ⟨p, f, hc, _⟩
  · exact absurd (by rw [h]) hne
  · exact absurd (by rw [h, offer_trusted]) hne
  · exact ⟨p, f, hc⟩

/-- Observing a file on a device that is not (yet) trusted reports `None` and
leaves the whole module state untouched — for `observe_file_time`, and for
`maybe_observe_file_time` whatever the refresh policy decides. -/
theorem untrusted_reports_none_and_noop (pre : List Call) (f : Stat) :
    let s := finalState init pre
    s.trusts f.dev = false →
      step s (.observe (.stat f)) = (s, .observed f none) ∧
      ∀ rl now, step s (.maybeObserve rl now (.stat f)) = (s, .unit) := by
  intro s ht
  have hinv : Inv s := finalState_inv init inv_init pre
  refine ⟨by simp [step, observeFileTime, updateBaseTime_stat, ht], ?_⟩
  intro rl now
  obtain ⟨b, hb⟩ := shouldRefresh_inv s hinv defaultLeewayMs rl now
  cases b with
  | false => simp only [step, maybeObserveFileTime, hb]; simp [maybeObserveOn]
  | true =>
    simp only [step, maybeObserveFileTime, hb]
    simp [maybeObserveOn, observeFileTime, updateBaseTime_stat, ht]

/-- Every (base time, voucher) pair any call of any history returns — from
`observe_file_time`, `get_base_time`, `get_base_time_unlocked` — passes the
voucher check `VouchedTime::check` starts with (`BASE_TIME_CHECK`). -/
theorem returned_pairs_check (cs : List Call) :
    ∀ r ∈ run init cs, ∀ bv ∈ r.2.pairs,
      Raffle.check baseTimeCheck bv.1 bv.2 = true ∧
      ∀ ns, VouchedTime.check VouchedTime.prodCfg ns bv.1 bv.2 ≠ .err .badVoucher := by
  intro r hr bv hbv
  obtain ⟨pre, c, suf, _, rfl⟩ := run_mem init cs r hr
  have hinv : Inv (finalState init pre) := finalState_inv init inv_init pre
  have hc := (step_spec _ hinv c).pairs bv hbv
  refine ⟨hc, fun ns => ?_⟩
  have hp : VouchedTime.prodCfg.params = baseTimeCheck := rfl
  intro h
  rw [VouchedTime.check_badVoucher_iff, hp, hc] at h
  cases h

/-- No call of any history panics: the assertions in `raffle::vouch`,
`BaseTime::update`, `AtomicBaseTime::snapshot` and the `expect("Path is
trusted.")` of `add_trusted_path` are unreachable. -/
theorem no_panic (cs : List Call) : ∀ r ∈ run init cs, r.2 ≠ .panic := by
  intro r hr
  obtain ⟨pre, c, suf, _, rfl⟩ := run_mem init cs r hr
  exact (step_spec _ (finalState_inv init inv_init pre) c).noPanic

end Woodpile.Props.C19

namespace Woodpile.Props.C19
open Woodpile.Raffle Woodpile.NfsVoucher

/-! Non-vacuity: a concrete history in which every clause fires — an untrusted
observation (no-op), a registration that moves the base time, a newer trusted
file (moves it), an older trusted file (ignored), a newer file on an untrusted
device (ignored), a refresh through `get_base_time` (moves it). -/

example :
    (run init [
      .observe (.stat ⟨27, 1790739306, 500000000⟩),
      .addTrusted 0 (.stat ⟨27, 1790739306, 500000000⟩),
      .observe (.stat ⟨27, 1790739307, 0⟩),
      .observe (.stat ⟨27, 1790739000, 0⟩),
      .observe (.stat ⟨65024, 1790740000, 0⟩),
      .getBaseTime 1790739310000000000 [(0, .stat ⟨27, 1790739309, 999999999⟩)],
      .getUnlocked]).map (fun r => (r.1.base, r.2.pairs.map (·.1)))
    = [(0, []), (1790739306500, []), (1790739307000, [1790739307000]), (1790739307000, [1790739000000]),
       (1790739307000, []), (1790739309999, [1790739309999]), (1790739309999, [1790739309999])] := by
  decide +kernel

-- The hypothesis of `untrusted_reports_none_and_noop` holds in the initial state and after trusting another device.
example : (finalState init []).trusts 27 = false := by decide +kernel
example : (finalState init [.addTrusted 0 (.stat ⟨27, 1, 0⟩)]).trusts 65024 = false
    ∧ (finalState init [.addTrusted 0 (.stat ⟨27, 1, 0⟩)]).trusts 27 = true := by decide +kernel
-- The hypothesis of `changes_only_to_trusted_ctime` (the cell changed) is met by a registration.
example : ((step init (.addTrusted 0 (.stat ⟨27, 1, 0⟩))).1.base, (step init (.addTrusted 0 (.stat ⟨27, 1, 0⟩))).1.voucher)
    ≠ (init.base, init.voucher) := by decide +kernel
-- Observation O3: a negative change-time saturates the base time at 2^64 - 1 (the model follows the code).
example : millisOf ⟨27, -1, 0⟩ = 18446744073709551615 := by decide +kernel

end Woodpile.Props.C19

namespace Woodpile.Props.C19
open Woodpile.Raffle Woodpile.NfsVoucher Woodpile.Abt

/-! ## What the cell of this model is, and what concurrency C19 covers (track abt2, claim-audit gap 10)

`nfs_voucher.rs` does NOT serialise its public functions: there is no module-wide mutex.
`TRUSTED_PATHS` is an `RwLock` (read-locked for one lookup in `update_base_time` and for the
whole loop of `scan_for_base_time_impl`, write-locked only for the `insert` of
`add_trusted_path`), `LAST_UPDATE` is thread-local, and `BASE_TIME` is a bare `AtomicBaseTime`
reached through `update` (`blocking: true`, from the scan), `try_update` (`blocking: false`,
from `observe_file_time` / `add_trusted_path`) and `snapshot` (`get_base_time_unlocked`,
`should_refresh_base_time`).  So two threads may be inside any two module functions at once.

The theorems of C19 (`base_monotone` … `no_panic`) are about SEQUENTIAL histories: a `List Call`
executed one call after the other by `NfsVoucher.step`, whose cell operations are
`cellUpdate` / `cellSnapshot`.  The theorems below say exactly what those two functions are in
terms of the verified concurrent object: the `AtomicBaseTime` programs of `Woodpile.Abt` (the
ones C13 / C18 are about, tied to the code by hook H3), run ALONE from a state in which the
writer mutex is free and not poisoned, on the SC machine at the crate's real voucher check.
Hence C19's dependence: C19 = these refinement theorems + the sequential model.  For
CONCURRENT use of the module nothing in C19 applies directly; what carries over is C13/C18 on
the cell itself (every pair ever returned by `get_base_time*` is a published, valid pair;
published base times never decrease - `C13.ra_published_monotone`; per thread the observed base
time never decreases; `get_base_time_unlocked` never waits), and the fact that the only pairs
the module ever passes to the cell are `(millisOf stat, vouch …)` of a file it just found on a
trusted (or being-registered) device - the latter is a property of the straight-line code of
`update_base_time`, which the sequential model covers call by call. -/

/-- The check used on the `Woodpile.Abt` machines here is C13R's `chkReal`. -/
theorem chkNat_is_chkReal : chkNat = Woodpile.Props.C13R.chkReal := rfl

/-- `BASE_TIME`'s initial abstract value is the cell of `NfsVoucher.init`. -/
theorem init_cells_agree :
    SC.cellOf (SC.init Woodpile.Props.C13R.v0Real) = some (absCell NfsVoucher.init) := by
  simp [SC.cellOf, SC.init, absCell, NfsVoucher.init, Woodpile.Props.C13R.v0Real]

/-- `seq_update_refines`: `cellUpdate` IS `AtomicBaseTime::update` / `try_update` run alone.
From any reachable SC state of the `Abt` machine (real voucher check) whose writer mutex is
free and unpoisoned (`SC.Quiescent`; by `C13.sc_invariant.lock` no thread is then inside
`advance_once`; other threads may be idle, mid-snapshot, or about to lock) and whose most
recently published pair is the cell of the module state `st`: thread `tid` starting
`update (t, v)` or `try_update (t, v)` and running alone completes in 5 (ignored) or 8 (accepted)
steps, returns the flag `cellUpdate` computes, leaves the mutex free and unpoisoned, and the
most recently published pair is the cell of `cellUpdate`'s new state (the trusted-path table
is not touched); if `cellUpdate` says the assertion fires, the program ends at the failed
`assert!` with the mutex poisoned and nothing published. -/
theorem seq_update_refines {s : SC.State} (h : SC.Reachable chkNat Woodpile.Props.C13R.v0Real s)
    (hq : SC.Quiescent s) (tid : Nat) (hterm : (s.thr tid).pc.terminal = true)
    (st : St) (hcell : SC.cellOf s = some (absCell st)) (t v : UInt64)
    (op : Op) (hop : op = .update t.toNat v.toNat ∨ op = .tryUpdate t.toNat v.toNat) :
    match cellUpdate st t v with
    | some (st', r) =>
      ∃ s', SC.run chkNat s (.start tid op :: List.replicate (if r then 8 else 5) (.run tid 0)) = some s' ∧
        (s'.thr tid).pc = .retBool r ∧ SC.Quiescent s' ∧ SC.cellOf s' = some (absCell st') ∧
        st'.trusted = st.trusted
    | none =>
      ∃ s', SC.run chkNat s (.start tid op :: List.replicate 5 (.run tid 0)) = some s' ∧
        (s'.thr tid).pc = .aPanic ∧ s'.held = none ∧ s'.poisoned = true ∧ s'.hist = s.hist := by
  have hI := SC.inv_reachable (chk := chkNat) Woodpile.Props.C13R.epoch_pair_checks h
  have hw := SC.writer_refines hI hq tid hterm (absCell st) hcell t.toNat v.toNat op hop
  have hc := cellUpdate_refines st t v
  cases hcu : cellUpdate st t v with
  | none =>
    rw [hcu] at hc
    simp only [hc] at hw
    exact hw
  | some x =>
    obtain ⟨st', r⟩ := x
    rw [hcu] at hc
    simp only [hc.1] at hw
    obtain ⟨s', a, b, c, d, _⟩ := hw
    exact ⟨s', a, b, c, d, hc.2⟩

/-- `cellSnapshot` / `NfsVoucher.getBaseTimeUnlocked` IS `AtomicBaseTime::snapshot` run alone, and
it needs NO quiescence (statement and comments: `NfsVoucher.unlocked_refines`; also pinned for
C18 as `C18.unlocked_is_abt_snapshot`): from any reachable SC state - a writer may hold the lock
half way through its stores, the mutex may be poisoned - whose most recently published pair is
the cell of `st`, four loads, nothing shared changes, and the result is the pair the NFS model
returns. -/
theorem seq_snapshot_refines {s : SC.State} (h : SC.Reachable chkNat Woodpile.Props.C13R.v0Real s)
    (tid : Nat) (hterm : (s.thr tid).pc.terminal = true) (st : St) (hcell : SC.cellOf s = some (absCell st)) :
    getBaseTimeUnlocked st = (st, .pair st.base st.voucher) ∧
    cellSnapshot st = some (st.base, st.voucher) ∧
    ∃ s', SC.run chkNat s (.start tid getBaseTimeUnlockedOp :: List.replicate 4 (.run tid 0)) = some s' ∧
      (s'.thr tid).pc = .retSnap ∧ (s'.thr tid).base = st.base.toNat ∧ (s'.thr tid).bits = st.voucher.toNat ∧
      s'.mem = s.mem ∧ s'.held = s.held ∧ s'.poisoned = s.poisoned ∧ s'.hist = s.hist :=
  unlocked_refines Woodpile.Props.C13R.epoch_pair_checks h tid hterm st hcell

/-- Where the sequential model's identification of `try_update` with `update` stops: on a
poisoned (free) mutex `try_update` returns `false` without looking at its argument, whatever
`cellUpdate` says, while `update` recovers (`SC.update_recovers_from_poison`).  A mutex is
poisoned only by a panic inside `advance_once`; `no_panic` (sequential) and the fact that the
module only ever passes `(t, vouch t)` - a valid pair, `Raffle.check_nfs` - keep that arm dead. -/
theorem try_update_differs_only_when_poisoned (s : SC.State) (hheld : s.held = none) (hpois : s.poisoned = true)
    (tid : Nat) (hterm : (s.thr tid).pc.terminal = true) (b v : Nat) :
    ∃ s', SC.run chkNat s (.start tid (.tryUpdate b v) :: List.replicate 3 (.run tid 0)) = some s' ∧
      (s'.thr tid).pc = .retBool false ∧ SC.Quiescent s' ∧ s'.hist = s.hist ∧ s'.mem = s.mem :=
  SC.try_update_poisoned_returns_false chkNat s hheld hpois tid hterm b v

end Woodpile.Props.C19

namespace Woodpile.Props.C19
open Woodpile.Raffle Woodpile.NfsVoucher Woodpile.Abt

/-! Non-vacuity (gap 10): the hypotheses of `seq_update_refines` / `seq_snapshot_refines` hold in the
initial state of `BASE_TIME` against the initial module state ... -/
example : SC.Reachable chkNat Woodpile.Props.C13R.v0Real (SC.init Woodpile.Props.C13R.v0Real) ∧
    SC.Quiescent (SC.init Woodpile.Props.C13R.v0Real) ∧
    ((SC.init Woodpile.Props.C13R.v0Real).thr 0).pc.terminal = true ∧
    SC.cellOf (SC.init Woodpile.Props.C13R.v0Real) = some (absCell NfsVoucher.init) :=
  ⟨⟨[], rfl⟩, ⟨rfl, rfl⟩, rfl, init_cells_agree⟩

/-- ... and all three outcomes of `cellUpdate` occur: accepted, ignored (stale), assertion. -/
example : (cellUpdate NfsVoucher.init 5 (vouchRaw nfsVouch 5)).map (·.2) = some true
    ∧ (cellUpdate { NfsVoucher.init with base := 7, voucher := vouchRaw nfsVouch 7 } 5 (vouchRaw nfsVouch 5)).map (·.2) = some false
    ∧ (cellUpdate NfsVoucher.init 5 0).map (·.2) = none := by decide +kernel

end Woodpile.Props.C19

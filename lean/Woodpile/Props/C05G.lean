/-
C05 for the histories of the OTHER two Layer-B vocabularies (track `glue`): the single-iovec
vocabulary of C03/C04 (`Woodpile.Iovec.Op`, `State`, `step`, `run`) and the vocabulary of the HCOBS
codec driving an iovec (`Woodpile.EncWorld.XOp`, `xstep`, `xrun`; encoder runs `encPrefix` / `encRun`).

`Props/C05.lean` states C05 for every world reachable by a list of `Woodpile.Iovec.WOp`s.  Here:

* every `Op` / `XOp` step on iovec handle `i` IS a run of one or two `WOp`s on the world component
  (`op_is_wstep`, `xop_is_wstep`; the mapping is `Op.toWOps` / `XOp.toWOps`: a `Borrow` becomes
  `lend` of its buffer followed by `pushAt` / `pushBorrowedAt` of the sub-slice).  The resulting
  worlds are equal, except that `register` of the `WOp` vocabulary also records the token in the
  handle table `World.brefs` (which `Op` passes by value); `backfill tok` is the `WOp` `backfill` of
  any handle that holds `tok`;
* hence every state reachable by `Op` / `XOp` histories from `State.init`, and every state of an
  encoder run, satisfies `WorldInv` and `ArenaInv` (`op_run_worldInv`, `op_run_arenaInv`,
  `xop_run_arenaInv`, `enc_run_arenaInv`), from which the statements of C05 are read off
  (`good_exposed_live`, `good_below_bump`).

A run-level statement "the `Op` history IS one `WOp` history" would need the `WOp` world to carry the
handle table along; it differs from the `Op` world in that one field only, which no model function
reads except `backfill`'s handle lookup.  Not stated here (the invariants do not need it).
-/
import Woodpile.Proofs.EncGlue

namespace Woodpile.Props.C05G
open Woodpile.Iovec Woodpile.Arena Woodpile.EncWorld

/-- Target 1, `Op`: one step of the C03/C04 vocabulary on handle `i` is the `World.run` of
`op.toWOps i s.w` from the same world (see `Woodpile.Iovec.OpAgrees` for the two token-passing ops). -/
theorem op_is_wstep (i : Nat) (s s' : State) (op : Op) (r : Ret) (h : step i s op = some (s', r)) :
    OpAgrees i s op s' r :=
  Woodpile.Iovec.op_is_wstep i s s' op r h

/-- … spelled out for the ops that lend a caller buffer: equal worlds. -/
theorem push_is_wrun (i : Nat) (s s' : State) (b : Borrow) (r : Ret) (h : step i s (.push b) = some (s', r)) :
    s.w.run [.lend (b.pre ++ b.bs ++ b.post), .pushAt i s.w.exts.length b.pre.length b.bs.length] = some s'.w :=
  Woodpile.Iovec.op_is_wstep i s s' (.push b) r h

/-- Target 1, `XOp`: `lend` is the `WOp` `lend`; `pushAt` of an in-bounds range of a known caller
buffer (`XOk`) is the `WOp` `pushAt`; `op o` as above. -/
theorem xop_is_wstep (i : Nat) (s s' : State) (x : XOp) (r : Ret) (hok : XOk s.w x)
    (h : xstep i s x = some (s', r)) : XAgrees i s x s' r :=
  Woodpile.EncWorld.xop_is_wstep i s s' x r hok h

theorem op_run_worldInv (pol : Policy) (tun : Tuning) (ops : List Op) (s' : State) (rs : List Ret)
    (h : run 0 (State.init pol tun) ops = some (s', rs)) : WorldInv s'.w :=
  (op_run_good 0 ops _ s' rs (state_init_reachable pol tun).good h).1

theorem op_run_arenaInv (pol : Policy) (tun : Tuning) (ops : List Op) (s' : State) (rs : List Ret)
    (h : run 0 (State.init pol tun) ops = some (s', rs)) : ∃ caps, ArenaInv s'.w caps :=
  (op_run_good 0 ops _ s' rs (state_init_reachable pol tun).good h).2

/-- `XOp` histories whose `pushAt`s are in bounds when executed (`XOkRun`). -/
theorem xop_run_arenaInv (pol : Policy) (tun : Tuning) (ops : List XOp) (s' : State) (rs : List Ret)
    (hok : XOkRun 0 (State.init pol tun) ops) (h : xrun 0 (State.init pol tun) ops = some (s', rs)) :
    WorldInv s'.w ∧ ∃ caps, ArenaInv s'.w caps :=
  xop_run_good 0 ops _ s' rs (state_init_reachable pol tun).good hok h

/-- Encoder runs (`Encoder::new`, any calls with borrowed / copied input, any drain schedule; then
`finish`): the C05 invariants hold between calls and at the end — no side condition: that every
borrowed push is in bounds is part of what is proved. -/
theorem enc_run_arenaInv (p : Woodpile.Hcobs.Params) (hp : p.Valid) (pol : Policy) (tun : Tuning) (calls : List Call) :
    (∀ r, encPrefix p pol tun calls = some r → WorldInv r.w ∧ ∃ caps, ArenaInv r.w caps) ∧
    (∀ w' dr, encRun p pol tun calls = some (w', dr) → WorldInv w' ∧ ∃ caps, ArenaInv w' caps) :=
  ⟨fun r h => encPrefix_closed (good_closed _) p hp (Nat.le_refl _) pol tun calls r (good_fresh pol tun) h,
   fun w' dr h => encRun_closed (good_closed _) p hp (Nat.le_refl _) pol tun calls w' dr (good_fresh pol tun) h⟩

/-- `C05.exposed_live` from the two invariants (so for every state of the theorems above). -/
theorem good_exposed_live {w : World} (hg : Good w) : ∃ caps : Nat → Nat,
    (∀ i v n, w.iov i = some v → v.stableCount = some n → ∀ s ∈ v.slices.take n,
      Live w s ∧ ∀ k, s.region = .chunk k → k ∈ anchorChunks v.anchors ∧ s.off + s.len ≤ caps k) ∧
    (∀ j a, w.aslice j = some a → a.slice.len ≠ 0 →
      Live w a.slice ∧ ∃ k, a.slice.region = .chunk k ∧ a.anchor.chunk = some k ∧
        a.slice.off + a.slice.len ≤ caps k) := by
  obtain ⟨hw, caps, ha⟩ := hg
  refine ⟨caps, fun i v n hv _ s hs => ?_, fun j a haj hl => ?_⟩
  · have hm := List.mem_of_mem_take hs
    obtain ⟨h1, h2⟩ := hw.iov_slice_live hv hm
    exact ⟨h1, fun k hk => ⟨h2 k hk, ha.inCap s k (Or.inl ⟨i, v, hv, hm⟩) hk⟩⟩
  · obtain ⟨h1, k, h2, h3⟩ := hw.aslice_live haj hl
    exact ⟨h1, k, h2, h3, ha.inCap a.slice k (Or.inr ⟨j, a, haj, rfl⟩) h2⟩

/-- `C05.below_bump` from the two invariants. -/
theorem good_below_bump {w : World} (hg : Good w) : ∃ caps : Nat → Nat,
    (∀ h h' c c', w.cacheAt h = some c → w.cacheAt h' = some c' → c.chunk = c'.chunk → h = h') ∧
    (∀ h c, w.cacheAt h = some c → c.bump ≤ c.cap ∧ caps c.chunk = c.cap ∧
      ∀ s, w.HasSlice s → s.region = .chunk c.chunk → s.off + s.len ≤ c.bump) := by
  obtain ⟨_, caps, ha⟩ := hg
  exact ⟨caps, ha.unique, fun h c hc => ⟨(ha.bumpLe h c hc).1, (ha.bumpLe h c hc).2,
    fun s hs hr => ha.below h c s hc hs hr⟩⟩

/-! ### Non-vacuity -/

private def pol : Policy := ⟨2, 4⟩
private def tun : Tuning := ⟨[4096, 8192], 4096⟩

-- an `Op` history that lends sub-slices of caller buffers (a borrowed one that stays borrowed, a small
-- one that is copied), registers and fills a placeholder, and drains
private def hist : List Op :=
  [.push ⟨[9], [1, 2, 3, 4, 5], [9, 9]⟩, .push ⟨[9, 9], [6], []⟩, .registerPatch [0, 0],
   .pushBorrowed ⟨[], [7, 7, 7], [9]⟩, .extend [⟨[9], [8, 8, 8], []⟩, ⟨[], [], [9]⟩], .consume 1]

example : ((run 0 (State.init pol tun) hist).map fun x => ((x.1.w.iov 0).map (·.slices), x.1.w.exts.length)) =
    some (some [⟨.chunk 0, 0, 3⟩, ⟨.ext 2, 0, 3⟩, ⟨.ext 3, 1, 3⟩], 5) := by decide
-- the first op of that history as a `WOp` run: same world
example : ((State.init pol tun).w.run (Op.toWOps 0 (State.init pol tun).w (.push ⟨[9], [1, 2, 3, 4, 5], [9, 9]⟩))).map
      (fun w => (w.iov 0, w.exts, w.heap, w.next)) =
    (step 0 (State.init pol tun) (.push ⟨[9], [1, 2, 3, 4, 5], [9, 9]⟩)).map
      (fun x => (x.1.w.iov 0, x.1.w.exts, x.1.w.heap, x.1.w.next)) := by decide
example : Op.toWOps 0 (State.init pol tun).w (.extend [⟨[9], [8, 8, 8], []⟩, ⟨[], [], [9]⟩]) =
    [.lend [9, 8, 8, 8], .lend [9], .pushBorrowedAt 0 0 1 3] := by decide
-- an out-of-bounds `pushAt` / `pushBorrowedAt` is not a step (it would not type-check in Rust)
example : (World.init pol tun).run [.new, .lend [1, 2, 3], .pushBorrowedAt 0 0 1 3] = none := by decide
example : ((World.init pol tun).run [.new, .lend [1, 2, 3], .pushBorrowedAt 0 0 1 2]).map
    (fun w => (w.iov 0).map (·.slices)) = some (some [⟨.ext 0, 1, 2⟩]) := by decide

end Woodpile.Props.C05G

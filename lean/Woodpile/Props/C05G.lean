/-
C05 for the histories of the OTHER two Layer-B vocabularies (track `glue`): the single-iovec
vocabulary of C03/C04 (`Woodpile.Iovec.Op`, `State`, `step`, `run`) and the vocabulary of the HCOBS
codec driving an iovec (`Woodpile.EncWorld.XOp`, `xstep`, `xrun`; encoder runs `encPrefix` / `encRun`).

`Props/C05.lean` states C05 for every world reachable by a list of `Woodpile.Iovec.WOp`s.  Here:

* every `Op` / `XOp` step on iovec handle `i` IS a run of one or two `WOp`s on the world component
  (`op_is_wstep`, `xop_is_wstep`; the mapping is `Op.toWOps` / `XOp.toWOps`: a `Borrow` becomes
  `lend` of its buffer followed by `pushAt` / `pushBorrowedAt` of the sub-slice).  The resulting
  worlds are equal, except that `register` of the `WOp` vocabulary also records the token in the
  handle table `World.brefs` (which `Op` passes by value); `backfill tok` is the `WOp` `backfill` of
  any handle that holds `tok`;
* hence every state reachable by `Op` / `XOp` histories from `State.init`, and every state of an
  encoder run, satisfies `WorldInv` and `ArenaInv` (`op_run_worldInv`, `op_run_arenaInv`,
  `xop_run_arenaInv`, `enc_run_arenaInv`), from which the statements of C05 are read off
  (`good_exposed_live`, `good_below_bump`).

* run level (`op_run_is_wrun`, `enc_prefix_is_wrun`, `enc_run_is_wrun`): a whole `Op` history, and a
  whole encoder run, is ONE `WOp` history on the world whose handle table carries the tokens
  (`World.wb`: the only field in which the two worlds differ; no model function reads it except
  `backfill`'s handle lookup, `Proofs/IovecWb.lean`).  So these worlds are `Reachable` as `Props/C05`,
  `C10`, `C20` require, and every theorem stated there applies to them.  For `Op` histories the
  tokens passed to `backfill` must come from the history's own `registerPatch`es (`TokOk`; in Rust a
  `Backref` cannot be forged); for encoder runs nothing is assumed.
-/
import Woodpile.Proofs.EncGlue

namespace Woodpile.Props.C05G
open Woodpile.Iovec Woodpile.Arena Woodpile.EncWorld

/-- Target 1, `Op`: one step of the C03/C04 vocabulary on handle `i` is the `World.run` of
`op.toWOps i s.w` from the same world (see `Woodpile.Iovec.OpAgrees` for the two token-passing ops). -/
theorem op_is_wstep (i : Nat) (s s' : State) (op : Op) (r : Ret) (h : step i s op = some (s', r)) :
    OpAgrees i s op s' r :=
  Woodpile.Iovec.op_is_wstep i s s' op r h

/-- … spelled out for the ops that lend a caller buffer: equal worlds. -/
theorem push_is_wrun (i : Nat) (s s' : State) (b : Borrow) (r : Ret) (h : step i s (.push b) = some (s', r)) :
    s.w.run [.lend (b.pre ++ b.bs ++ b.post), .pushAt i s.w.exts.length b.pre.length b.bs.length] = some s'.w :=
  Woodpile.Iovec.op_is_wstep i s s' (.push b) r h

/-- Target 1, `XOp`: `lend` is the `WOp` `lend`; `pushAt` of an in-bounds range of a known caller
buffer (`XOk`) is the `WOp` `pushAt`; `op o` as above. -/
theorem xop_is_wstep (i : Nat) (s s' : State) (x : XOp) (r : Ret) (hok : XOk s.w x)
    (h : xstep i s x = some (s', r)) : XAgrees i s x s' r :=
  Woodpile.EncWorld.xop_is_wstep i s s' x r hok h

theorem op_run_worldInv (pol : Policy) (tun : Tuning) (ops : List Op) (s' : State) (rs : List Ret)
    (h : run 0 (State.init pol tun) ops = some (s', rs)) : WorldInv s'.w :=
  (op_run_good 0 ops _ s' rs (state_init_reachable pol tun).good h).1

theorem op_run_arenaInv (pol : Policy) (tun : Tuning) (ops : List Op) (s' : State) (rs : List Ret)
    (h : run 0 (State.init pol tun) ops = some (s', rs)) : ∃ caps, ArenaInv s'.w caps :=
  (op_run_good 0 ops _ s' rs (state_init_reachable pol tun).good h).2

/-- `XOp` histories whose `pushAt`s are in bounds when executed (`XOkRun`). -/
theorem xop_run_arenaInv (pol : Policy) (tun : Tuning) (ops : List XOp) (s' : State) (rs : List Ret)
    (hok : XOkRun 0 (State.init pol tun) ops) (h : xrun 0 (State.init pol tun) ops = some (s', rs)) :
    WorldInv s'.w ∧ ∃ caps, ArenaInv s'.w caps :=
  xop_run_good 0 ops _ s' rs (state_init_reachable pol tun).good hok h

/-- Encoder runs (`Encoder::new`, any calls with borrowed / copied input, any drain schedule; then
`finish`): the C05 invariants hold between calls and at the end — no side condition: that every
borrowed push is in bounds is part of what is proved. -/
theorem enc_run_arenaInv (p : Woodpile.Hcobs.Params) (hp : p.Valid) (pol : Policy) (tun : Tuning) (calls : List Call) :
    (∀ r, encPrefix p pol tun calls = some r → WorldInv r.w ∧ ∃ caps, ArenaInv r.w caps) ∧
    (∀ w' dr, encRun p pol tun calls = some (w', dr) → WorldInv w' ∧ ∃ caps, ArenaInv w' caps) :=
  ⟨fun r h => encPrefix_closed (good_closed _) p hp (Nat.le_refl _) pol tun calls r (good_fresh pol tun) h,
   fun w' dr h => (encRun_closed (good_closed _) p hp (Nat.le_refl _) pol tun calls w' dr (good_fresh pol tun) h).elim
     (fun _ hg => hg)⟩

/-- Run level: an `Op` history from `State.init` whose `backfill` tokens are its own (`TokOk`) reaches
a world that, with the tokens in the handle table, is `Reachable` — literally a `WOp` history. -/
theorem op_run_is_wrun (pol : Policy) (tun : Tuning) (ops : List Op) (s' : State) (rs : List Ret)
    (h : run 0 (State.init pol tun) ops = some (s', rs)) (htok : TokOk [] ops rs) :
    ∃ B', Reachable (s'.w.wb B') :=
  op_run_reachable pol tun ops s' rs h htok

/-- Run level, encoder: between calls (and after `finish`) the world with the encoder's token list as
handle table is literally the world after a `WOp` history from `World.init`. -/
theorem enc_prefix_is_wrun (p : Woodpile.Hcobs.Params) (hp : p.Valid) (pol : Policy) (tun : Tuning)
    (calls : List Call) (r : Run) (h : encPrefix p pol tun calls = some r) : Reachable (r.w.wb r.e.toks) := by
  obtain ⟨wops, hr⟩ := Woodpile.EncWorld.enc_prefix_is_wrun p hp pol tun calls r h
  exact ⟨pol, tun, wops, hr⟩

theorem enc_run_is_wrun (p : Woodpile.Hcobs.Params) (hp : p.Valid) (pol : Policy) (tun : Tuning)
    (calls : List Call) (w' : World) (dr : List UInt8) (h : encRun p pol tun calls = some (w', dr)) :
    ∃ toks, Reachable (w'.wb toks) := by
  obtain ⟨toks, wops, hr⟩ := Woodpile.EncWorld.enc_run_is_wrun p hp pol tun calls w' dr h
  exact ⟨toks, pol, tun, wops, hr⟩

/-- `C05.exposed_live` from the two invariants (so for every state of the theorems above). -/
theorem good_exposed_live {w : World} (hg : Good w) : ∃ caps : Nat → Nat,
    (∀ i v n, w.iov i = some v → v.stableCount = some n → ∀ s ∈ v.slices.take n,
      Live w s ∧ ∀ k, s.region = .chunk k → k ∈ anchorChunks v.anchors ∧ s.off + s.len ≤ caps k) ∧
    (∀ j a, w.aslice j = some a → a.slice.len ≠ 0 →
      Live w a.slice ∧ ∃ k, a.slice.region = .chunk k ∧ a.anchor.chunk = some k ∧
        a.slice.off + a.slice.len ≤ caps k) := by
  obtain ⟨hw, caps, ha⟩ := hg
  refine ⟨caps, fun i v n hv _ s hs => ?_, fun j a haj hl => ?_⟩
  · have hm := List.mem_of_mem_take hs
    obtain ⟨h1, h2⟩ := hw.iov_slice_live hv hm
    exact ⟨h1, fun k hk => ⟨h2 k hk, ha.inCap s k (Or.inl ⟨i, v, hv, hm⟩) hk⟩⟩
  · obtain ⟨h1, k, h2, h3⟩ := hw.aslice_live haj hl
    exact ⟨h1, k, h2, h3, ha.inCap a.slice k (Or.inr ⟨j, a, haj, rfl⟩) h2⟩

/-- `C05.below_bump` from the two invariants. -/
theorem good_below_bump {w : World} (hg : Good w) : ∃ caps : Nat → Nat,
    (∀ h h' c c', w.cacheAt h = some c → w.cacheAt h' = some c' → c.chunk = c'.chunk → h = h') ∧
    (∀ h c, w.cacheAt h = some c → c.bump ≤ c.cap ∧ caps c.chunk = c.cap ∧
      ∀ s, w.HasSlice s → s.region = .chunk c.chunk → s.off + s.len ≤ c.bump) := by
  obtain ⟨_, caps, ha⟩ := hg
  exact ⟨caps, ha.unique, fun h c hc => ⟨(ha.bumpLe h c hc).1, (ha.bumpLe h c hc).2,
    fun s hs hr => ha.below h c s hc hs hr⟩⟩

/-! ### Non-vacuity -/

private def pol : Policy := ⟨2, 4⟩
private def tun : Tuning := ⟨[4096, 8192], 4096⟩

-- an `Op` history that lends sub-slices of caller buffers (a borrowed one that stays borrowed, a small
-- one that is copied), registers and fills a placeholder, and drains
private def hist : List Op :=
  [.push ⟨[9], [1, 2, 3, 4, 5], [9, 9]⟩, .push ⟨[9, 9], [6], []⟩, .registerPatch [0, 0],
   .pushBorrowed ⟨[], [7, 7, 7], [9]⟩, .extend [⟨[9], [8, 8, 8], []⟩, ⟨[], [], [9]⟩], .consume 1]

example : ((run 0 (State.init pol tun) hist).map fun x => ((x.1.w.iov 0).map (·.slices), x.1.w.exts.length)) =
    some (some [⟨.chunk 0, 0, 3⟩, ⟨.ext 2, 0, 3⟩, ⟨.ext 3, 1, 3⟩], 5) := by decide
-- a history that backfills the token its own `registerPatch` returned satisfies `TokOk`
example : (run 0 (State.init pol tun) [.registerPatch [0, 0], .backfill (some (2, ⟨0, 0, 2⟩)) [7, 7]]).map (·.2) =
    some [.token (some (2, ⟨0, 0, 2⟩)), .unit] := by decide
example : TokOk [] [.registerPatch [0, 0], .backfill (some (2, ⟨0, 0, 2⟩)) [7, 7]]
    [.token (some (2, ⟨0, 0, 2⟩)), .unit] := ⟨trivial, by simp [tokIn, tokAfter], trivial⟩
-- the first op of that history as a `WOp` run: same world
example : ((State.init pol tun).w.run (Op.toWOps 0 (State.init pol tun).w (.push ⟨[9], [1, 2, 3, 4, 5], [9, 9]⟩))).map
      (fun w => (w.iov 0, w.exts, w.heap, w.next)) =
    (step 0 (State.init pol tun) (.push ⟨[9], [1, 2, 3, 4, 5], [9, 9]⟩)).map
      (fun x => (x.1.w.iov 0, x.1.w.exts, x.1.w.heap, x.1.w.next)) := by decide
example : Op.toWOps 0 (State.init pol tun).w (.extend [⟨[9], [8, 8, 8], []⟩, ⟨[], [], [9]⟩]) =
    [.lend [9, 8, 8, 8], .lend [9], .pushBorrowedAt 0 0 1 3] := by decide
-- an out-of-bounds `pushAt` / `pushBorrowedAt` is not a step (it would not type-check in Rust)
example : (World.init pol tun).run [.new, .lend [1, 2, 3], .pushBorrowedAt 0 0 1 3] = none := by decide
example : ((World.init pol tun).run [.new, .lend [1, 2, 3], .pushBorrowedAt 0 0 1 2]).map
    (fun w => (w.iov 0).map (·.slices)) = some (some [⟨.ext 0, 1, 2⟩]) := by decide

end Woodpile.Props.C05G

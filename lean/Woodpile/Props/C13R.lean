/-
C13 instantiated at the crate's real voucher check.

The theorems of `Props/C13.lean` are parametric in the voucher check `chk` and the
initial voucher `v0`, and need only `chk 0 v0`.  Here `chk` is the exact `raffle`
check with the parameter strings extracted from /repo (`Woodpile.Raffle`,
C14), and `v0` the voucher `BaseTime::new` computes for the epoch: the hypothesis is
discharged by C14's `check_vouch`, so "never a panic" and "every returned pair passes
the voucher check" hold for the concrete arithmetic the crate performs.
-/
import Woodpile.Props.C13
import Woodpile.Props.C14

namespace Woodpile.Props.C13R
open Woodpile.Abt Woodpile.Raffle

/-- The crate's check on machine words, as a predicate on the model's naturals. -/
def chkReal (b v : Nat) : Bool := Raffle.check baseTimeCheck (UInt64.ofNat b) (UInt64.ofNat v)

/-- The voucher `BaseTime::new` stores for the epoch pair. -/
def v0Real : Nat := (vouchRaw abtVouch 0).toNat

theorem epoch_pair_checks : chkReal 0 v0Real = true := by
  have h := (Woodpile.Props.C14.check_vouch 0).2.1
  simpa [chkReal, v0Real] using h

/-- Under release/acquire, with the real voucher check: the assertion in `snapshot` never fails. -/
theorem ra_no_panic_real {s : RA.State} (h : RA.Reachable chkReal v0Real s) (t : Nat) :
    (s.thr t).loc.pc ≠ .sPanic :=
  Woodpile.Props.C13.ra_no_panic epoch_pair_checks h t

/-- … and every pair any snapshot ever returned passes the crate's voucher check. -/
theorem ra_returned_pairs_check_real {s : RA.State} (h : RA.Reachable chkReal v0Real s) (t : Nat)
    (p : Nat × Nat) (hp : p ∈ s.log t) : chkReal p.1 p.2 = true :=
  Woodpile.Props.C13.ra_history_valid epoch_pair_checks h p
    (Woodpile.Props.C13.ra_snapshot_in_history epoch_pair_checks h t p hp)

end Woodpile.Props.C13R

/-
C17, codec level (track `anch`): `Encoder::read_n` / `Decoder::read_n`, `encode_read`, `decode_read` —
the composites `Model/EncWorld.lean` defines (`readOwn`, `encodeRead`, `decodeRead`; the functions
`Driver/CodecW.lean` replays for the op words `feed a` / `feed_read` of the correspondence family
`codecw`, against the real `Encoder` / `Decoder` with scripted faulty readers).

`Props/C17.lean` is about the retry loop (`ReadN.readNCore`) and the bare arena (`ReadN.readN`).  Here:

* `codec_read_n`: the codec's `read_n` IS that loop on the iovec's own arena: the reader-side transcript
  is `readNCore`'s (so `C17.read_n_spec` — attempts, request sizes, delivered prefix, verdict — applies
  verbatim), the arena is `ReadN.readN`'s (so `C17.read_n_releases_unread` applies: the bump pointer ends
  exactly past the bytes returned), the returned slice holds exactly the bytes read and is at most `count`
  long (`Encoder::read_n`'s `assert!`), and the iovec's slices, anchors, backrefs, sizes and bytes are
  untouched;
* `encode_read_spec`: between the calls of ANY encoder run, `encode_read` never panics; when the read
  fails it returns the error, and the encoder state, the iovec (but for its arena) and the drained
  bytes are unchanged; when it succeeds it returns the number of bytes read and the encoder state is the
  one `encode` of exactly those bytes leaves;
* `encode_read_failed_bump`: … and after a failed read the arena's bump pointer is where `ensure_capacity`
  left it: nothing stays behind;
* `read_is_feed_of_delivered`, `dec_read_is_feed_of_delivered`: in any run, replacing an `encode_read` /
  `decode_read` by `encode` / `decode` of the bytes its reader delivered (by nothing, when it failed)
  changes neither the bytes that come out (drained ++ flattened) nor, for the decoder, the verdict:
  a failed or short read leaves the output unaffected apart from the bytes actually read.
-/
import Woodpile.Proofs.EncWorldAnch
import Woodpile.Props.C17
import Woodpile.Props.C01G

namespace Woodpile.Props.C17W
open Woodpile.Hcobs Woodpile.Iovec Woodpile.Arena Woodpile.EncWorld
open Woodpile.Pipe (Cell Pipe)

/-- The codec's `read_n` on an iovec satisfying the structural invariant. -/
theorem codec_read_n (w : World) (i : Nat) (v : Iov) (r : ReadN.Reader) (count attempts : Nat)
    (hv : w.iov i = some v) (hinv : IovInv w v) :
    ∃ w' res, readOwn w i r count attempts = some (w', res, ReadN.readNCore r count attempts) ∧
      w'.iov i = some { v with arena := (ReadN.readN w.tun v.arena w.next r count attempts).2.1 } ∧
      IovInv w' { v with arena := (ReadN.readN w.tun v.arena w.next r count attempts).2.1 } ∧
      w'.flat v.slices = w.flat v.slices ∧
      absCells w' { v with arena := (ReadN.readN w.tun v.arena w.next r count attempts).2.1 } = absCells w v ∧
      w'.exts = w.exts ∧
      (∀ k, (ReadN.readNCore r count attempts).res = .err k → res = .error k) ∧
      (∀ got, (ReadN.readNCore r count attempts).res = .ok got →
        ∃ a, res = .ok a ∧ a.slice.len = got.length ∧ a.slice.len ≤ count ∧ w'.sliceBytes a.slice = got) := by
  obtain ⟨w1, ar', res, hrn, hv1, hex, hpush, _, herr, hok⟩ := World.readN_spec w i v r count attempts hv hinv
  have har : ar' = (ReadN.readN w.tun v.arena w.next r count attempts).2.1 := by
    rw [← (World.readN_arena w v.arena r count attempts).1, hrn]
  subst har
  refine ⟨_, res, readOwn_eq w i v r count attempts hv w1 _ res _ hrn hv1, by simp, hpush.inv, ?_, ?_, hex, herr, ?_⟩
  · simpa using hpush.flat
  · simpa using hpush.cells
  · intro got hg
    obtain ⟨a, h1, h2, h3, _⟩ := hok got hg
    refine ⟨a, h1, h2, ?_, h3⟩
    rw [h2]
    by_cases hc : count = 0
    · subst hc
      have : ReadN.readNCore r 0 attempts = ⟨.ok [], [], r⟩ := by simp [ReadN.readNCore]
      rw [this] at hg
      simp only [ReadN.ReadRes.ok.injEq] at hg
      subst hg; simp
    · have := C17.read_n_spec r count attempts (by omega)
      simp only at this
      obtain ⟨_, hle, _, _, hm⟩ := this
      rw [hg] at hm
      rw [hm.1]; exact hle

/-- `encode_read` between the calls of any run (any earlier calls, all input methods, any drains). -/
theorem encode_read_spec (p : Params) (hp : p.Valid) (pol : Policy) (tun : Tuning) (calls : List ACall)
    (count attempts : Nat) (src : List UInt8) (script : List ReadN.Ev) :
    ∃ r v w' e' ret, encPrefixA p pol tun calls = some r ∧ r.w.iov 0 = some v ∧
      encodeRead p r.w 0 r.e ⟨src, script⟩ count attempts =
        some (w', e', ret, ReadN.readNCore ⟨src, script⟩ count attempts) ∧
      (∀ k, (ReadN.readNCore ⟨src, script⟩ count attempts).res = .err k →
        ret = .error k ∧ e' = r.e ∧
        w'.iov 0 = some { v with arena := (ReadN.readN r.w.tun v.arena r.w.next ⟨src, script⟩ count attempts).2.1 } ∧
        w'.flat v.slices = r.w.flat v.slices ∧ w'.exts = r.w.exts) ∧
      (∀ got, (ReadN.readNCore ⟨src, script⟩ count attempts).res = .ok got →
        ret = .ok got.length ∧ got.length ≤ count ∧
        e'.st = (Enc.feedAll p r.e.st r.e.nid .borrow got).1 ∧
        e'.nid = (Enc.feedAll p r.e.st r.e.nid .borrow got).2.1) := by
  obtain ⟨r, acc, h1, h2, _⟩ := encPrefixA_inv p hp pol tun calls
  obtain ⟨v, w', e', ret, hv, k1, kerr, kok⟩ :=
    encodeRead_spec p hp 0 r.w r.e r.drained (ainputOf calls) acc count attempts src script h2
  refine ⟨r, v, w', e', ret, h1, hv, k1, ?_, ?_⟩
  · intro k hk
    obtain ⟨a1, a2, _, a4, a5, a6⟩ := kerr k hk
    exact ⟨a1, a2, a4, a5, a6⟩
  · intro got hg
    obtain ⟨a1, a2, a3, _⟩ := kok got hg
    refine ⟨a1, ?_, a2, a3⟩
    by_cases hc : count = 0
    · subst hc
      have : ReadN.readNCore ⟨src, script⟩ 0 attempts = ⟨.ok [], [], ⟨src, script⟩⟩ := by simp [ReadN.readNCore]
      rw [this] at hg
      simp only [ReadN.ReadRes.ok.injEq] at hg
      subst hg; simp
    · have := C17.read_n_spec ⟨src, script⟩ count attempts (by omega)
      simp only at this
      obtain ⟨_, hle, _, _, hm⟩ := this
      rw [hg] at hm
      rw [hm.1]; exact hle

/-- After a failed `encode_read` (or codec `read_n`) that asked for `count > 0` bytes, the arena's cache is
the one `ensure_capacity(count)` installed or kept, with its bump pointer unmoved. -/
theorem encode_read_failed_bump (t : Tuning) (a : Arena) (next : Nat) (r : ReadN.Reader) (count attempts k : Nat)
    (hc : 0 < count) (hk : (ReadN.readNCore r count attempts).res = .err k) :
    (ReadN.readN t a next r count attempts).2.1 = (ensureCapacity t a next count).1 := by
  obtain ⟨c0, h0, _, h1, _⟩ := C17.read_n_releases_unread t a next r count attempts hc
  have hres : (ReadN.readN t a next r count attempts).1.res = .err k := by
    unfold ReadN.readN
    rw [if_neg (by omega)]
    generalize alloc t a next count = al
    obtain ⟨a1, n1, ch, off⟩ := al
    simp only [hk]
  simp only [hres, Nat.add_zero] at h1
  cases hA : (ReadN.readN t a next r count attempts).2.1 with
  | mk cache =>
    cases hB : (ensureCapacity t a next count).1 with
    | mk cache0 =>
      rw [hA] at h1; rw [hB] at h0
      simp only at h1 h0
      rw [h1, h0]

/-- A failed or short read leaves the encoder's output unaffected apart from the bytes actually read: in
any run, an `encode_read` can be replaced by `encode` of the bytes its reader delivered (dropped, when
the read failed) without changing drained ++ flattened. -/
theorem read_is_feed_of_delivered (p : Params) (hp : p.Valid) (pol : Policy) (tun : Tuning)
    (pre post : List ACall) (count attempts : Nat) (src : List UInt8) (script : List ReadN.Ev) :
    ∃ w1 dr1 v1 w2 dr2 v2,
      encRunA p pol tun (pre ++ .read count attempts src script :: post) = some (w1, dr1) ∧ w1.iov 0 = some v1 ∧
      encRunA p pol tun (pre ++ (match (ReadN.readNCore ⟨src, script⟩ count attempts).res with
          | .ok got => [.call (.feed .borrow got)]
          | .err _ => []) ++ post) = some (w2, dr2) ∧ w2.iov 0 = some v2 ∧
      dr1 ++ w1.flat v1.slices = dr2 ++ w2.flat v2.slices := by
  obtain ⟨w1, dr1, v1, a1, a2, a3, _⟩ := C01G.enc_world_output p hp pol tun (pre ++ .read count attempts src script :: post)
  obtain ⟨w2, dr2, v2, b1, b2, b3, _⟩ := C01G.enc_world_output p hp pol tun
    (pre ++ (match (ReadN.readNCore ⟨src, script⟩ count attempts).res with
          | .ok got => [.call (.feed .borrow got)]
          | .err _ => []) ++ post)
  refine ⟨w1, dr1, v1, w2, dr2, v2, a1, a2, b1, b2, ?_⟩
  rw [a3, b3]
  congr 1
  have hap : ∀ (x y : List ACall), apieces (x ++ y) = apieces x ++ apieces y := by
    intro x y
    induction x with
    | nil => rfl
    | cons c t ih => cases c <;> simp [apieces, ih]
  simp only [ainputOf, hap, List.map_append, List.flatten_append]
  cases hres : (ReadN.readNCore ⟨src, script⟩ count attempts).res <;> simp [apieces, readPiece, pieces, hres]

/-- … and the same for `decode_read`: same verdict, same decoded bytes. -/
theorem dec_read_is_feed_of_delivered (p : Params) (hp : p.Valid) (pol : Policy) (tun : Tuning)
    (pre post : List ACall) (count attempts : Nat) (src : List UInt8) (script : List ReadN.Ev) :
    ∃ w1 dr1 res1 v1 w2 dr2 res2 v2,
      decRunA p pol tun (pre ++ .read count attempts src script :: post) = some (w1, dr1, res1) ∧ w1.iov 0 = some v1 ∧
      decRunA p pol tun (pre ++ (match (ReadN.readNCore ⟨src, script⟩ count attempts).res with
          | .ok got => [.call (.feed .borrow got)]
          | .err _ => []) ++ post) = some (w2, dr2, res2) ∧ w2.iov 0 = some v2 ∧
      res1 = res2 ∧ (res1 = .ok () → dr1 ++ w1.flat v1.slices = dr2 ++ w2.flat v2.slices) := by
  have hap : ∀ (x y : List ACall), apieces (x ++ y) = apieces x ++ apieces y := by
    intro x y
    induction x with
    | nil => rfl
    | cons c t ih => cases c <;> simp [apieces, ih]
  have hin : ainputOf (pre ++ .read count attempts src script :: post) =
      ainputOf (pre ++ (match (ReadN.readNCore ⟨src, script⟩ count attempts).res with
          | .ok got => [.call (.feed .borrow got)]
          | .err _ => []) ++ post) := by
    simp only [ainputOf, hap, List.map_append, List.flatten_append]
    cases hres : (ReadN.readNCore ⟨src, script⟩ count attempts).res <;> simp [apieces, readPiece, pieces, hres]
  obtain ⟨w1, dr1, res1, v1, a1, a2, _, _, _, a6, a7, a8⟩ :=
    C01G.dec_world_output p hp pol tun (pre ++ .read count attempts src script :: post)
  obtain ⟨w2, dr2, res2, v2, b1, b2, _, _, _, b6, b7, b8⟩ := C01G.dec_world_output p hp pol tun
    (pre ++ (match (ReadN.readNCore ⟨src, script⟩ count attempts).res with
          | .ok got => [.call (.feed .borrow got)]
          | .err _ => []) ++ post)
  rw [← hin] at b6 b7 b8
  have hres : res1 = res2 := by
    cases res1 with
    | ok u =>
      cases u
      exact (b6.2 (a6.1 rfl)).symm
    | error e =>
      exact ((b8 e).2 ((a8 e).1 rfl)).symm
  refine ⟨w1, dr1, res1, v1, w2, dr2, res2, v2, a1, a2, b1, b2, hres, ?_⟩
  intro hok
  have h1 := a7 hok
  have h2 := b7 (hres ▸ hok)
  rw [h1] at h2
  exact Option.some.inj h2

/-! ### Non-vacuity -/

def tp : Params := ⟨3, 5, 253⟩
def exTun : Tuning := ⟨[4096, 8192], 4096⟩

/-- ((ok?, bytes read or error kind), reader requests, bump pointer of the arena) of an `encode_read` right
after `Encoder::new` -/
def rd (pol : Policy) (count attempts : Nat) (src : List UInt8) (script : List ReadN.Ev) :
    Option ((Bool × Nat) × List Nat × Option Nat) :=
  (encPrefixA tp pol exTun []).bind fun r =>
    (encodeRead tp r.w 0 r.e ⟨src, script⟩ count attempts).bind fun x => (x.1.iov 0).map fun v =>
      ((match x.2.2.1 with | .ok n => (true, n) | .error k => (false, k)), x.2.2.2.reqs, v.arena.cache.map (·.bump))

/-- (slices as (offset, length), encoder `cur`) after the same call -/
def rd' (pol : Policy) (count attempts : Nat) (src : List UInt8) (script : List ReadN.Ev) :
    Option (List (Nat × Nat) × Nat) :=
  (encPrefixA tp pol exTun []).bind fun r =>
    (encodeRead tp r.w 0 r.e ⟨src, script⟩ count attempts).bind fun x => (x.1.iov 0).map fun v =>
      (v.slices.map (fun s => (s.off, s.len)), x.2.1.st.cur)

-- only interruptions: `Err(Interrupted)` after exactly 3 requests of 5 bytes; the bump pointer is back at 1
-- (the header placeholder), the iovec is untouched
example : rd ⟨0, 0⟩ 5 3 [1, 2, 3] [.err 0, .err 0, .err 0, .deliver 3] = some ((false, 0), [5, 5, 5], some 1) := by
  decide +kernel
example : rd' ⟨0, 0⟩ 5 3 [1, 2, 3] [.err 0, .err 0, .err 0, .deliver 3] = some ([(0, 1)], 0) := by decide +kernel
-- a short read then a hard error: `Ok(2)`, requests 5 then 3, bump past exactly the 2 bytes read (they fit
-- the open 3-byte chunk: no header yet); the two bytes borrowed at 1..3, merged with the placeholder
example : rd ⟨0, 0⟩ 5 3 [1, 2, 3] [.deliver 2, .err 7] = some ((true, 2), [5, 3], some 3) := by decide +kernel
example : rd' ⟨0, 0⟩ 5 3 [1, 2, 3] [.deliver 2, .err 7] = some ([(0, 3)], 2) := by decide +kernel
-- EOF at once: `Ok(0)`, nothing encoded, no anchor
example : rd ⟨0, 0⟩ 5 3 [] [.eof] = some ((true, 0), [5], some 1) := by decide +kernel
example : rd' ⟨0, 0⟩ 5 3 [] [.eof] = some ([(0, 1)], 0) := by decide +kernel

end Woodpile.Props.C17W

/-
C07 / C01 — the structural `Decoder` after an error (track apileft, helper decw; leftovers of audit gap 19).

"For every byte string the Decoder either rejects it or returns exactly what the format defines … and never
panics."  Track hc3 (`Props/C07P.lean`) modelled what REJECTING leaves behind on the abstract pipe:
`Decoder::decode` swaps `Default::default()` into `self.state` before it runs the state machine and returns
early on `Err` (hcobs/src/lib.rs:282-295), so the object lives on in `InitialState` over the same iovec
(`Dec.call`, `dec_after_error_is_fresh`).  The STRUCTURAL model (`Model/EncWorld.lean` on `Model/Iovec.lean`:
what the correspondence family `codecw` runs against the real `Decoder`: slices, anchors, arena chunks)
stopped at the first error (`EncWorld.decCallsA`, `Driver/CodecW` set `Codec.failed`).  Now both continue:

* model: `EncWorld.decResume` (state after a call = `InitialState` on `Err`), applied by `Driver/CodecW.lean`
  after every `R err`; `EncWorld.decFeed` had already applied the emits that precede the rejected byte
  (`BeforeChunk::decode` pushes the owed `FE FD` before it validates the header byte), and
  `EncWorld.decodeAnchored` pushes the anchor whatever the verdict (`decode_anchored`: `let ret =
  self.decode(slice); self.iovec.push_anchor(anchor); ret`);
* the object over the full call vocabulary `EncWorld.BCall` (borrow / copy / `decode_read` with any scripted
  reader; `consume`, `advance_slices`, `Read` drains): `EncWorld.decCallB`, `decSessB`
  (`Proofs/EncWorldDec.lean`), related to the pipe-level object `Dec.calls` of track hc3 by
  `EncWorld.decCallsB_sim` (composition, not re-proof: states, errors and emits are `Dec.calls`'s).

Theorems:

* `dec_world_session_never_panics` — any calls, errors or not: the structural run returns (`some`): no
  `push` / `push_copy` / `push_anchor` / `consume` / `advance_slices` / `read` assertion of the iovec model
  is reachable; `IovInv` holds and nothing is pending at every call boundary; state, errors and bytes are
  those of the pipe-level session.
* `dec_world_after_error_is_fresh` — a call returned `Err(e)`: the state is `InitialState`; the iovec holds
  exactly what the session had emitted up to and including the failed call (a prefix of the pipe-level
  emits: nothing truncated, nothing added); and the rest of the run IS the run of a fresh decoder
  (`DecState.initial`) started on that world, its output appended after those bytes.
* `dec_world_finish_after_error` — `finish` right after an `Err` reports `CutShort` (the error is not
  remembered: `terminate` of `InitialState`).
* `dec_world_session` / `dec_world_resync` — resynchronisation by the caller: from any point where the
  decoder is in `InitialState` (a fresh decoder, or right after any failed call, after any number of failed
  messages), the calls `post` decode a complete well-formed message `d` (`Spec.decode p (binputOf post) =
  some d`) exactly when none of them fails, `finish` accepts, and the output (drained ++ flattened) is what
  the iovec held at that point followed by `d`.

Ownership across errors (`WorldInv`, `ArenaInv`, exposed slices live): `Props/C05D.lean`.
-/
import Woodpile.Proofs.EncWorldDec
import Woodpile.Props.C07P

namespace Woodpile.Props.C07W
open Woodpile.Hcobs Woodpile.Iovec Woodpile.Arena Woodpile.EncWorld

/-- **The decoder object on the structural iovec never panics**, whatever it is fed and however often it
returns `Err`: for every call list (all input methods, all drains) the run returns; between calls the iovec
satisfies `IovInv`, nothing is pending, everything buffered is stable; the decoder state and the errors
returned are those of the pipe-level object `Dec.calls` (`Props/C07P.dec_session_never_panics`: which itself
never panics), and the bytes output so far (drained ++ buffered) are exactly what its calls — failed ones
included — emitted. -/
theorem dec_world_session_never_panics (p : Params) (pol : Policy) (tun : Tuning) (calls : List BCall) :
    ∃ r v, decSessB p pol tun calls = some r ∧ r.w.iov 0 = some v ∧ IovInv r.w v ∧
      v.hasPending = false ∧ r.w.visible v = r.w.flat v.slices ∧
      r.drained ++ r.w.flat v.slices = DecProof.emitBytes (Dec.calls p .initial (bpieces calls)).emits ∧
      r.s = (Dec.calls p .initial (bpieces calls)).st ∧
      r.errs = (Dec.calls p .initial (bpieces calls)).verdicts.filterMap id :=
  decSessB_sim p pol tun calls

/-- Sessions compose: the run of `pre ++ post` is the run of `post` from where `pre` ended. -/
theorem dec_world_session_append (p : Params) (pol : Policy) (tun : Tuning) (pre post : List BCall) :
    decSessB p pol tun (pre ++ post) = (decSessB p pol tun pre).bind fun r => decCallsB p 0 r post :=
  decCallsB_append p 0 pre post _

/-- **After an error the structural decoder is a fresh decoder over the same iovec.**  If, after any calls
`pre`, the call `c` (any input method) returns `Err(e)`, then

1. the state left behind is `InitialState`;
2. the iovec keeps everything decoded before the error: drained ++ buffered is exactly what the pipe-level
   session emitted up to and including the failed call (`Dec.calls … (bpieces (pre ++ [c]))`: the emits of a
   failed call are those before the rejected byte — `Props/C07P.dec_output_until_error` says which bytes,
   as a function of the input alone);
3. whatever calls `post` follow, the whole run equals the run of a FRESH decoder (`DecState.initial`) started
   on that world (same iovec, same drained bytes), and
4. that continuation's state, errors and output are those of `Dec.calls p .initial (bpieces post)` — a
   `Decoder::new_from_iovec(iovec)` — its bytes appended after the ones of (2). -/
theorem dec_world_after_error_is_fresh (p : Params) (pol : Policy) (tun : Tuning) (pre : List BCall) (c : BCall)
    (post : List BCall) (r1 r2 : DRun) (e : DecErr)
    (h1 : decSessB p pol tun pre = some r1) (h2 : decCallB p 0 r1 c = some r2) (he : r2.errs = r1.errs ++ [e]) :
    r2.s = .initial ∧
    (∃ v2, r2.w.iov 0 = some v2 ∧ IovInv r2.w v2 ∧
      r2.drained ++ r2.w.flat v2.slices = DecProof.emitBytes (Dec.calls p .initial (bpieces (pre ++ [c]))).emits ∧
      ∃ r' v', decSessB p pol tun (pre ++ c :: post) = some r' ∧ r'.w.iov 0 = some v' ∧ IovInv r'.w v' ∧
        r'.s = (Dec.calls p .initial (bpieces post)).st ∧
        r'.errs = r2.errs ++ (Dec.calls p .initial (bpieces post)).verdicts.filterMap id ∧
        r'.drained ++ r'.w.flat v'.slices =
          (r2.drained ++ r2.w.flat v2.slices) ++ DecProof.emitBytes (Dec.calls p .initial (bpieces post)).emits) ∧
    decSessB p pol tun (pre ++ c :: post) = decCallsB p 0 ⟨r2.w, .initial, r2.drained, r2.errs⟩ post := by
  have hs : r2.s = .initial := decCallB_failed p 0 r1 r2 c e h2 he
  have hpc : decSessB p pol tun (pre ++ [c]) = some r2 := by
    rw [dec_world_session_append, h1]
    simp only [Option.bind_some, decCallsB, h2]
  have hall : decSessB p pol tun (pre ++ c :: post) = decCallsB p 0 r2 post := by
    rw [show pre ++ c :: post = (pre ++ [c]) ++ post by simp, dec_world_session_append, hpc]
    rfl
  refine ⟨hs, ?_, ?_⟩
  · obtain ⟨ra, v2, g1, g2, g3, _, _, g6, g7, g8⟩ := decSessB_sim p pol tun (pre ++ [c])
    rw [hpc] at g1
    cases g1
    obtain ⟨r', v', k1, k2, k3, _, _, k6, k7, k8⟩ := decSessB_sim p pol tun (pre ++ c :: post)
    have hsplit : bpieces (pre ++ c :: post) = bpieces (pre ++ [c]) ++ bpieces post := by
      rw [show pre ++ c :: post = (pre ++ [c]) ++ post by simp, bpieces_append]
    rw [hsplit, DecProof.calls_append, ← g7, hs] at k6 k7 k8
    refine ⟨v2, g2, g3, g6, r', v', k1, k2, k3, k7, ?_, ?_⟩
    · rw [k8, g8]; simp [errsOf]
    · rw [k6, g6]; simp only [DecProof.emitBytes_append]
  · rw [hall]
    obtain ⟨w2, s2, d2, e2⟩ := r2
    simp only at hs
    subst hs
    rfl

/-- `finish` right after a failed call reports `CutShort`: the error is not remembered by the object
(`DecoderState::terminate` of `InitialState`). -/
theorem dec_world_finish_after_error (p : Params) (r1 r2 : DRun) (c : BCall) (e : DecErr)
    (h2 : decCallB p 0 r1 c = some r2) (he : r2.errs = r1.errs ++ [e]) :
    Dec.finish r2.s = .error .cutShort := by
  rw [decCallB_failed p 0 r1 r2 c e h2 he]; rfl

/-- **Sessions: a decoder in `InitialState` decodes the next message as a fresh decoder would, appended to
what the iovec holds.**  Let `pre` be any calls after which the decoder is in `InitialState` (`pre = []`; or
`pre` ends in a call that returned `Err`: `dec_world_after_error_is_fresh`; any number of failed messages
before).  Then for every `post` the run returns, and the bytes fed by `post` are a complete well-formed
message decoding to `d` EXACTLY when no call of `post` fails, `finish` accepts, and drained ++ flattened is
what the iovec held after `pre` followed by `d`. -/
theorem dec_world_session (p : Params) (hp : p.Valid) (pol : Policy) (tun : Tuning) (pre post : List BCall)
    (r1 : DRun) (h1 : decSessB p pol tun pre = some r1) (hs : r1.s = .initial) :
    ∃ v1 r' v', r1.w.iov 0 = some v1 ∧ decSessB p pol tun (pre ++ post) = some r' ∧ r'.w.iov 0 = some v' ∧
      IovInv r'.w v' ∧
      ∀ d, Spec.decode p (binputOf post) = some d ↔
        (r'.errs = r1.errs ∧ Dec.finish r'.s = .ok () ∧
          r'.drained ++ r'.w.flat v'.slices = (r1.drained ++ r1.w.flat v1.slices) ++ d) := by
  obtain ⟨ra, v1, g1, g2, _, _, _, g6, g7, g8⟩ := decSessB_sim p pol tun pre
  rw [h1] at g1
  cases g1
  obtain ⟨r', v', k1, k2, k3, _, _, k6, k7, k8⟩ := decSessB_sim p pol tun (pre ++ post)
  rw [bpieces_append, DecProof.calls_append, ← g7, hs] at k6 k7 k8
  refine ⟨v1, r', v', g2, k1, k2, k3, fun d => ?_⟩
  unfold binputOf
  rw [(C01.dec_impl_refines_spec p hp (bpieces post)).1 d, output_ok_iff]
  simp only [DecProof.emitBytes_append] at k6
  have herr : r'.errs = r1.errs ++ errsOf (Dec.calls p .initial (bpieces post)) := by
    rw [k8, g8]; simp [errsOf]
  rw [herr, k7, k6, g6]
  constructor
  · rintro ⟨a, b, c⟩
    exact ⟨by rw [a, List.append_nil], b, by rw [c]⟩
  · rintro ⟨a, b, c⟩
    refine ⟨?_, b, ?_⟩
    · have := congrArg List.length a
      simp only [List.length_append] at this
      exact List.eq_nil_of_length_eq_zero (by omega)
    · exact (List.append_cancel_left c).symm

/-- **Resynchronisation by the caller** (the harness oracle of family `codecw`, as a theorem): after a call
that returned `Err` — in the middle of a multi-piece message, after any earlier messages, failed or not —
feeding a complete valid encoding `Spec.encode p x` (cut into any pieces, by any methods, with any drains in
between) and finishing succeeds, and yields exactly `x` appended after the bytes the iovec held after the
error. -/
theorem dec_world_resync (p : Params) (hp : p.Valid) (pol : Policy) (tun : Tuning) (pre : List BCall) (c : BCall)
    (post : List BCall) (r1 r2 : DRun) (e : DecErr) (x : List UInt8)
    (h1 : decSessB p pol tun pre = some r1) (h2 : decCallB p 0 r1 c = some r2) (he : r2.errs = r1.errs ++ [e])
    (hx : binputOf post = Spec.encode p x) :
    ∃ v2 r' v', r2.w.iov 0 = some v2 ∧ decSessB p pol tun (pre ++ c :: post) = some r' ∧ r'.w.iov 0 = some v' ∧
      r'.errs = r2.errs ∧ Dec.finish r'.s = .ok () ∧
      r'.drained ++ r'.w.flat v'.slices = (r2.drained ++ r2.w.flat v2.slices) ++ x := by
  have hpc : decSessB p pol tun (pre ++ [c]) = some r2 := by
    rw [dec_world_session_append, h1]
    simp only [Option.bind_some, decCallsB, h2]
  obtain ⟨v2, r', v', g1, g2, g3, _, g5⟩ := dec_world_session p hp pol tun (pre ++ [c]) post r2 hpc
    (decCallB_failed p 0 r1 r2 c e h2 he)
  have hd : Spec.decode p (binputOf post) = some x := by rw [hx]; exact Spec.decode_encode p hp x
  obtain ⟨a, b, c'⟩ := (g5 x).1 hd
  rw [show (pre ++ [c]) ++ post = pre ++ c :: post by simp] at g2
  exact ⟨v2, r', v', g1, g2, g3, a, b, c'⟩

/-! ### Non-vacuity (test parameters ⟨3, 5⟩) -/

private def tp : Params := ⟨3, 5, 253⟩
private def tun : Tuning := ⟨[4096, 8192], 4096⟩

/-- (drained, flattened rest, decoder state, errors so far) between calls -/
def sobs (pol : Policy) (calls : List BCall) : Option (List UInt8 × List UInt8 × DecState × List DecErr) :=
  (decSessB tp pol tun calls).bind fun r => (r.w.iov 0).map fun v => (r.drained, r.w.flat v.slices, r.s, r.errs)

/-- anchor counts between calls -/
def aobs (pol : Policy) (calls : List BCall) : Option (List Nat) :=
  (decSessB tp pol tun calls).bind fun r => (r.w.iov 0).map fun v => v.anchors.map (·.count)

-- message 1 ("1", then the owed FE FD, then a bad header digit) fails in its second call, AFTER the stuff
-- sequence was pushed; message 2 ("AB", complete) then decodes as on a fresh decoder, appended; one byte was
-- taken out through `Read` in between
example : sobs ⟨64, 256⟩ [.a (.call (.feed .copy [1, 0x31])), .a (.call (.feed .borrow [0xFF, 9])), .rd 1,
      .a (.call (.feed .copy [2, 0x41, 0x42]))]
    = some ([0x31], [0xFE, 0xFD, 0x41, 0x42], .beforeChunk true, [.invalidHeaderByte false 0xFF]) := by
  decide +kernel
example : Spec.decode tp [2, 0x41, 0x42] = some [0x41, 0x42] := by decide
-- the failing call is an anchored read (`decode_read`): the anchor is pushed although the verdict is `Err`
-- (count 0: the only output of the call, FE FD, was COPIED - above the two bytes read, as a second slice
-- counted by the first anchor), and the decoder is fresh
example : sobs ⟨64, 256⟩ [.a (.call (.feed .copy [1, 0x31])), .a (.read 2 1 [0xFF, 9] [.deliver 2])]
    = some ([], [0x31, 0xFE, 0xFD], .initial, [.invalidHeaderByte false 0xFF]) := by decide +kernel
example : aobs ⟨64, 256⟩ [.a (.call (.feed .copy [1, 0x31])), .a (.read 2 1 [0xFF, 9] [.deliver 2])]
    = some [2, 0] := by decide +kernel
-- `finish` right after an error: `CutShort`
example : (decSessB tp ⟨64, 256⟩ tun [.a (.call (.feed .copy [9]))]).map
      (fun r => (r.errs, match Dec.finish r.s with | .ok _ => none | .error e => some e))
    = some ([.invalidInitialSizeHeader 9], some .cutShort) := by decide +kernel
-- two failed messages, then a valid one
example : sobs ⟨0, 0⟩ [.a (.call (.feed .borrow [9])), .a (.call (.feed .borrow [1, 7, 0, 0xFD])),
      .a (.call (.feed .borrow [0])), .a (.call (.consume 9))]
    = some ([7, 0xFE, 0xFD], [], .beforeChunk true,
        [.invalidInitialSizeHeader 9, .invalidHeaderByte true 0xFD]) := by decide +kernel

end Woodpile.Props.C07W

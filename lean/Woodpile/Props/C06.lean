/-
C06 — StreamReader returns exactly the valid delimited records of any byte stream.

Property theorems only (helper lemmas: `Woodpile/Proofs/StreamReader.lean`,
`Woodpile/Proofs/Stream.lean`).  The model is `Woodpile.Stream.next`
(`StreamReader::next_record_bytes`, arm by arm: the `'retry` loop, the states
SkipSentinel / DecodeRecord / SkipRecord, the judge, all five assertions) on top
of the chunker model of C08 and the incremental decoder model `Woodpile.Hcobs.Dec`
with the production parameters; `nextSeq … n s r` is `n` successive calls.

Specification (all in `Woodpile/Model/Stream.lean`):
* `segments s`     — the maximal `FE FD`-free pieces of `s` with their byte ranges,
                     found by one left-to-right scan (occurrences never overlap);
* `decodePieces p [seg]` — the incremental decoder `Dec` run over the segment's
                     bytes and finished: `some decoded` or `none`;
* `recordsAll p segs`  — `[(d, range) | (seg, range) ∈ segs, seg ≠ [], Dec decodes seg to d]`
                     (`recordsAll_eq` spells this out);
* `recordsStd p max limit segs` — the same, additionally requiring `|d| ≤ max`, and cut at the
                     first segment (empty or not) whose start is `≥ limit` (`recordsStd_eq`);
* `expectedSeq E n` — what `n` calls return when the records `E` are expected:
                     `E` in order, then `None` forever (`expectedSeq_spelled_out`).

Quantifiers: every stream `r.src`, every well-behaved read script (`WellBehaved r`:
any interleaving of short reads of any size ≥ 1 and `Interrupted` failures, EOF
only at the real end), every `io_block_size` (`none` = default, 0, 1, … — the same
for all calls of a run), every arena state, every clamp ≥ 2, every number of calls.

Hypothesis `SplitIndep prod`: the incremental decoder's verdict and output do not
depend on how a record is cut into pieces.  It is a consequence of
`Dec` = `Spec.decode` (C01/C07: `dec_impl_refines_spec`), see `splitIndep_of_spec`;
it is needed because the reader feeds the decoder chunk by chunk, along the
read schedule, while the specification decodes the segment in one piece.
Under the same hypothesis `decodePieces_eq_spec` replaces `decodePieces p [seg]`
by the batch `Spec.decode p seg`.
-/
import Woodpile.Proofs.StreamReader

namespace Woodpile.Props.C06
open Woodpile.Stream Woodpile.ReadN Woodpile.Hcobs Woodpile.Arena

/-! ### What the specification functions say -/

/-- `recordsAll`: exactly the non-empty segments that the decoder accepts, in
order, with the decoded bytes and the segment's byte range. -/
theorem recordsAll_eq (p : Params) (segs : List Seg) :
    recordsAll p segs = segs.filterMap (fun sg =>
      if sg.bytes = [] then none
      else (decodePieces p [sg.bytes]).map (fun d => (d, sg.start, sg.stop))) := by
  induction segs with
  | nil => rfl
  | cons sg rest ih =>
    have ih' : recordsT p none (fun _ => false) rest = _ := ih
    simp only [recordsAll, recordsT, atLimit, Bool.false_eq_true, if_false, List.filterMap_cons]
    rw [ih']
    simp only [contrib]
    split
    · rfl
    · cases decodePieces p [sg.bytes] <;> simp

/-- `recordsStd`, the exact rule of `chunk_judge(max, limit)`: nothing at all
from the first segment — empty or not — that starts at or after `limit`
(`limit = none`: never); before that, the non-empty segments the decoder
accepts and whose decoded size is at most `max`. -/
theorem recordsStd_eq (p : Params) (maxSize : Nat) (limit : Option Nat) (sg : Seg) (rest : List Seg) :
    recordsStd p maxSize limit [] = [] ∧
    recordsStd p maxSize limit (sg :: rest) =
      if atLimit limit sg.start then []
      else (if sg.bytes = [] then []
            else match decodePieces p [sg.bytes] with
              | some d => if maxSize < d.length then [] else [(d, sg.start, sg.stop)]
              | none => []) ++ recordsStd p maxSize limit rest := by
  refine ⟨rfl, ?_⟩
  simp only [recordsStd, recordsT, contrib]
  split
  · rfl
  · congr 1
    split
    · rfl
    · cases decodePieces p [sg.bytes] with
      | none => rfl
      | some d => simp

/-- `expectedSeq E n`: the first `n` of "the records `E`, then `None` forever". -/
theorem expectedSeq_spelled_out (E : List Rcd) (n : Nat) :
    expectedSeq E n = (E.take n).map (fun x => NextRes.some x.1 x.2.1 x.2.2)
      ++ List.replicate (n - E.length) NextRes.none :=
  expectedSeq_eq E n

/-- The hypothesis of the theorems below follows from the decoder refinement
theorem (`Dec.output` accepts exactly what `Spec.decode` accepts, with the same
result, for every way of cutting the input into pieces). -/
theorem splitIndep_of_spec (p : Params)
    (hdec : ∀ pieces d, Dec.output p pieces = .ok d ↔ Spec.decode p (pieces.map (·.2)).flatten = some d) :
    SplitIndep p :=
  Woodpile.Stream.splitIndep_of_spec p hdec

/-- … and then the specification's per-segment decoder is the batch decoder. -/
theorem decodePieces_eq_spec (p : Params)
    (hdec : ∀ pieces d, Dec.output p pieces = .ok d ↔ Spec.decode p (pieces.map (·.2)).flatten = some d)
    (seg : List UInt8) : decodePieces p [seg] = Spec.decode p seg := by
  apply Option.ext
  intro d
  have := hdec (borrowed [seg]) d
  simp only [borrowed, List.map_cons, List.map_nil, List.flatten_cons, List.flatten_nil,
    List.append_nil] at this
  rw [← this]
  simp only [decodePieces, borrowed, List.map_cons, List.map_nil]
  cases Dec.output p [(Method.borrow, seg)] <;> simp

/-! ### The reader -/

/-- **Always-KeepGoing judge.**  Successive calls return, in order, exactly the
decoded contents and byte ranges of the non-empty segments of the stream that
are valid encodings, then `None` forever — no error, no panic. -/
theorem reader_keepgoing (hs : SplitIndep prod) (clamp : Nat) (hclamp : 2 ≤ clamp) (t : Tuning)
    (block : Option Nat) (r : Reader) (hwb : WellBehaved r) (n : Nat) :
    (nextSeq clamp t prod keepGoingJudge block n RdState.new r).1 =
      expectedSeq (recordsAll prod (segments r.src)) n := by
  rw [keepGoingJudge_eq]
  exact nextSeq_spec prod none (fun _ => false) clamp hclamp t block hs (fun _ _ _ h => h) rfl n
    RdState.new r hwb

/-- **Standard judge** `chunk_judge(max, limit)`.  As above, restricted to the
records of decoded size at most `max`, and nothing from the first segment or
delimiter position at or after `limit` on (`recordsStd_eq`).  The judge is
consulted after every chunk, i.e. at schedule-dependent points, but the
outcome is this schedule-independent list: the decoded size only grows and
the start offset is fixed. -/
theorem reader_std_judge (hs : SplitIndep prod) (clamp : Nat) (hclamp : 2 ≤ clamp) (t : Tuning)
    (block : Option Nat) (maxSize : Nat) (limit : Option Nat) (r : Reader) (hwb : WellBehaved r) (n : Nat) :
    (nextSeq clamp t prod (chunkJudge maxSize limit) block n RdState.new r).1 =
      expectedSeq (recordsStd prod maxSize limit (segments r.src)) n := by
  rw [chunkJudge_eq]
  exact nextSeq_spec prod limit (fun n => decide (maxSize < n)) clamp hclamp t block hs
    (fun a b hab h => by simp at h ⊢; omega) (by simp) n RdState.new r hwb

/-- **No panic, no error** (either judge): every call returns a record or `None`. -/
theorem reader_total (hs : SplitIndep prod) (clamp : Nat) (hclamp : 2 ≤ clamp) (t : Tuning)
    (block : Option Nat) (maxSize : Nat) (limit : Option Nat) (r : Reader) (hwb : WellBehaved r) (n : Nat) :
    (∀ res ∈ (nextSeq clamp t prod (chunkJudge maxSize limit) block n RdState.new r).1,
      res = .none ∨ ∃ d a b, res = .some d a b) ∧
    (∀ res ∈ (nextSeq clamp t prod keepGoingJudge block n RdState.new r).1,
      res = .none ∨ ∃ d a b, res = .some d a b) := by
  have key : ∀ E : List Rcd, ∀ res ∈ expectedSeq E n, res = .none ∨ ∃ d a b, res = NextRes.some d a b := by
    intro E res h
    rw [expectedSeq_eq] at h
    rcases List.mem_append.mp h with h | h
    · obtain ⟨x, _, rfl⟩ := List.mem_map.mp h
      exact Or.inr ⟨_, _, _, rfl⟩
    · exact Or.inl (List.eq_of_mem_replicate h)
  rw [reader_std_judge hs clamp hclamp t block maxSize limit r hwb n,
    reader_keepgoing hs clamp hclamp t block r hwb n]
  exact ⟨key _, key _⟩

/-- **Schedule, block size and arena independence.**  Two runs over the same
stream return the same sequence of results whatever the read schedules, the
block sizes, the clamps (≥ 2) and the arenas. -/
theorem reader_schedule_independent (hs : SplitIndep prod) (clamp clamp' : Nat) (hclamp : 2 ≤ clamp)
    (hclamp' : 2 ≤ clamp') (t t' : Tuning) (block block' : Option Nat) (maxSize : Nat) (limit : Option Nat)
    (r r' : Reader) (hwb : WellBehaved r) (hwb' : WellBehaved r') (hsrc : r.src = r'.src) (n : Nat) :
    (nextSeq clamp t prod (chunkJudge maxSize limit) block n RdState.new r).1 =
      (nextSeq clamp' t' prod (chunkJudge maxSize limit) block' n RdState.new r').1 ∧
    (nextSeq clamp t prod keepGoingJudge block n RdState.new r).1 =
      (nextSeq clamp' t' prod keepGoingJudge block' n RdState.new r').1 := by
  rw [reader_std_judge hs clamp hclamp t block maxSize limit r hwb n,
    reader_std_judge hs clamp' hclamp' t' block' maxSize limit r' hwb' n,
    reader_keepgoing hs clamp hclamp t block r hwb n,
    reader_keepgoing hs clamp' hclamp' t' block' r' hwb' n, hsrc]
  exact ⟨rfl, rfl⟩

/-- **Any judge** (any `FnMut` closure: the verdict may depend on everything the
judge has been asked before), provided it never answers `SkipRecord` for an
empty range (`JudgeOK`; see the last example of this file for what happens
otherwise): no call ever panics or fails — all five assertions of
`next_record_bytes` and both of `pump` are unreachable — and the records
returned before the first `None` are, in order, a sub-list of what the
always-KeepGoing judge returns: a judge can only drop records (or stop), never
alter one or make up one.  (After a `Stop` verdict the reader may be in the
middle of a record, so nothing is claimed about records returned after the first
`None`; with `chunk_judge` there are none, by `reader_std_judge`.) -/
theorem reader_generic_judge (hs : SplitIndep prod) (clamp : Nat) (hclamp : 2 ≤ clamp) (t : Tuning)
    (block : Option Nat) (judge : Judge) (hj : JudgeOK judge) (r : Reader) (hwb : WellBehaved r) (n : Nat) :
    (leading (nextSeq clamp t prod judge block n RdState.new r).1).Sublist (recordsAll prod (segments r.src)) ∧
    ∀ res ∈ (nextSeq clamp t prod judge block n RdState.new r).1, res = .none ∨ ∃ d a b, res = .some d a b :=
  g_nextSeq_spec prod clamp hclamp t block hs judge hj n RdState.new r hwb

/-- `chunk_judge` and the always-KeepGoing judge satisfy `JudgeOK`; the latter and
`chunk_judge(max, None)` never answer `Stop`. -/
theorem std_judges_ok (maxSize : Nat) (limit : Option Nat) :
    JudgeOK keepGoingJudge ∧ JudgeOK (chunkJudge maxSize limit) ∧
    (∀ h c, keepGoingJudge h c ≠ .stop) ∧ (∀ h c, chunkJudge maxSize none h c ≠ .stop) := by
  refine ⟨fun h c _ _ => by simp [keepGoingJudge], fun h c _ hc => ?_,
    fun h c => by simp [keepGoingJudge], fun h c => ?_⟩
  · simp only [chunkJudge, hc]
    split <;> simp
  · simp only [chunkJudge, atLimit, Bool.false_eq_true, if_false]
    split <;> simp

/-- **`last_sentinel_offset`.**  For a judge that never answers `Stop` (the
always-KeepGoing judge, `chunk_judge(max, None)`): whenever the last of any
number of calls returns a record with range `a..b`, either the record was ended
by a delimiter — then the reader sits right after it (`offset = b + 2`) and
`last_sentinel_offset = b` is where that delimiter starts — or it was ended by
the end of the stream — then everything has been consumed and
`last_sentinel_offset` is where the delimiter just before the record starts
(`a - 2`), or 0 if the record starts the stream (`AtBoundary a ls`). -/
theorem last_sentinel_offset_correct (hs : SplitIndep prod) (clamp : Nat) (hclamp : 2 ≤ clamp) (t : Tuning)
    (block : Option Nat) (judge : Judge) (hj : JudgeOK judge) (hns : ∀ h c, judge h c ≠ .stop)
    (r : Reader) (hwb : WellBehaved r) (n : Nat) (d : List UInt8) (a b : Nat)
    (hlast : (nextSeq clamp t prod judge block (n + 1) RdState.new r).1.getLast? = some (.some d a b)) :
    ((nextSeq clamp t prod judge block (n + 1) RdState.new r).2.1.lastSentinel = b ∧
      (nextSeq clamp t prod judge block (n + 1) RdState.new r).2.1.chunker.offset = b + 2) ∨
    ((nextSeq clamp t prod judge block (n + 1) RdState.new r).2.1.chunker.buf ++
        (nextSeq clamp t prod judge block (n + 1) RdState.new r).2.2.src = [] ∧
      AtBoundary a (nextSeq clamp t prod judge block (n + 1) RdState.new r).2.1.lastSentinel) :=
  l_nextSeq_spec prod clamp hclamp t block hs judge hj hns n RdState.new r hwb
    (Or.inr (Or.inl ⟨rfl, rfl⟩)) d a b hlast

/-- The block-size clamp of the code as it is now satisfies the side condition
`2 ≤ clamp` of every theorem here (finding F1 is the case `clamp = 1`). -/
theorem clamp_in_code : 2 ≤ Woodpile.Gen.minBlock := by decide

/-! ### Resynchronisation -/

/-- A delimiter-free piece between two delimiters is a segment of the stream,
with its exact byte range, **whatever bytes `a` precede the first delimiter and
whatever bytes `b` follow the second** (torn writes, corruption, more
delimiters, …).  Likewise at the very start and the very end of the stream. -/
theorem resync_segment (a seg b : List UInt8) (h : findStuff seg = none) :
    (⟨seg, a.length + 2, a.length + 2 + seg.length⟩ : Seg) ∈
        segments (a ++ FE :: FD :: (seg ++ FE :: FD :: b)) ∧
    (⟨seg, 0, seg.length⟩ : Seg) ∈ segments (seg ++ FE :: FD :: b) ∧
    (⟨seg, a.length + 2, a.length + 2 + seg.length⟩ : Seg) ∈ segments (a ++ FE :: FD :: seg) := by
  refine ⟨?_, ?_, ?_⟩
  · simp only [segments]
    rw [segScan_append_stuff, segScan_append_stuff, segScan_no_stuff _ _ _ h]
    simp
  · simp only [segments]
    rw [segScan_append_stuff, segScan_no_stuff _ _ _ h]
    simp
  · simp only [segments]
    rw [segScan_append_stuff, segScan_no_stuff _ _ _ h]
    simp

/-- **A valid record delimited by stuff sequences is returned intact no matter
what surrounds it.**  If `seg` is a non-empty delimiter-free piece that the
decoder accepts as `d`, then in any stream `a ++ FE FD ++ seg ++ FE FD ++ b`,
read through any well-behaved reader with any block size, one of the first
`|segments| ` calls returns exactly `(d, |a|+2 .. |a|+2+|seg|)`. -/
theorem resync (hs : SplitIndep prod) (clamp : Nat) (hclamp : 2 ≤ clamp) (t : Tuning)
    (block : Option Nat) (a seg b d : List UInt8) (hseg : findStuff seg = none) (hne : seg ≠ [])
    (hdec : decodePieces prod [seg] = some d) (r : Reader) (hwb : WellBehaved r)
    (hsrc : r.src = a ++ FE :: FD :: (seg ++ FE :: FD :: b)) (n : Nat)
    (hn : (segments r.src).length ≤ n) :
    NextRes.some d (a.length + 2) (a.length + 2 + seg.length) ∈
      (nextSeq clamp t prod keepGoingJudge block n RdState.new r).1 := by
  rw [reader_keepgoing hs clamp hclamp t block r hwb n]
  have hmem := (resync_segment a seg b hseg).1
  rw [← hsrc] at hmem
  have := mem_recordsT_of_mem prod none (fun _ => false) (segments r.src) _ d hmem hne hdec rfl
    (fun _ _ => rfl)
  exact mem_expectedSeq _ n d _ _
    (Nat.le_trans (recordsT_length_le prod none (fun _ => false) _) hn) this

end Woodpile.Props.C06

namespace Woodpile.Props.C06
open Woodpile.Stream Woodpile.ReadN Woodpile.Hcobs Woodpile.Arena

/-! Non-vacuity: concrete streams, schedules and judges. -/

def tun : Tuning := ⟨[4096, 8192], 4096⟩
/-- `01 61 | FE FD | 02 62 63 | FE FD FE FD | 05 64` (truncated) `| FE FD | 00` -/
def demo : List UInt8 :=
  [0x01, 0x61, 0xFE, 0xFD, 0x02, 0x62, 0x63, 0xFE, 0xFD, 0xFE, 0xFD, 0x05, 0x64, 0xFE, 0xFD, 0x00]
/-- one or two bytes per read, with `Interrupted` failures -/
def demoReader : Reader := ⟨demo, [.deliver 1, .err 0, .deliver 2, .deliver 1, .err 0, .err 0] ++
  List.replicate 16 (.deliver 1)⟩

example : WellBehaved demoReader := ⟨by decide, by decide⟩
-- The specification on the demo stream: "a", "bc", the empty record; the truncated one is dropped.
example : recordsAll prod (segments demo) = [([0x61], 0, 2), ([0x62, 0x63], 4, 7), ([], 15, 16)] := by
  decide +kernel
-- The model returns exactly that, for block size 1 (clamped to 2) …
example : (nextSeq 2 tun prod keepGoingJudge (some 1) 5 RdState.new demoReader).1 =
    [.some [0x61] 0 2, .some [0x62, 0x63] 4 7, .some [] 15 16, .none, .none] := by decide +kernel
-- … and the standard judge with max size 1 skips "bc"; with limit 4 it stops before it.
example : (nextSeq 2 tun prod (chunkJudge 1 none) (some 3) 4 RdState.new demoReader).1 =
    [.some [0x61] 0 2, .some [] 15 16, .none, .none] := by decide +kernel
example : (nextSeq 2 tun prod (chunkJudge 9 (some 4)) (some 3) 3 RdState.new demoReader).1 =
    [.some [0x61] 0 2, .none, .none] := by decide +kernel
example : recordsStd prod 9 (some 4) (segments demo) = [([0x61], 0, 2)] := by decide +kernel
-- A judge that answers SkipRecord for the empty range it is shown after a leading delimiter
-- (`FE FD 01 61`, second consultation would come after the data chunk): the real code fails
-- `assert_eq!(range.is_empty(), state == State::SkipSentinel)`, and so does the model.
example : (nextSeq 2 tun prod (listJudge [.skipRecord]) (some 3) 1 RdState.new
    ⟨[0xFE, 0xFD, 0x01, 0x61], [.deliver 4]⟩).1 = [.panic] := by decide +kernel
-- `last_sentinel_offset` after the second record ("bc", ended by the delimiter at 7).
example : (nextSeq 2 tun prod keepGoingJudge none 2 RdState.new demoReader).2.1.lastSentinel = 7 := by
  decide +kernel

end Woodpile.Props.C06

/-
C03 for the FULL multi-object vocabulary (track `wabs`): every `OwningIovec` handle of every
`Woodpile.Iovec.WOp` history — the histories `Driver/Iovec.lean` replays against the real crate: several
iovecs, `take`, `clone`, detached arenas (swap / take / flush / `read_n`), detached anchored slices
(`s_split`, `s_skip`, …, `push_aslice`), `new_from_slices` / `new_from_arena`, `extend`, drops — is a
faithful FIFO byte pipe.

Property theorems only; the development is `Proofs/IovecWAbs.lean` (definitions), `IovecWFrame.lean`,
`IovecWStep.lean`, `IovecWRun.lean`, `IovecWLedger.lean`, `IovecWPriv.lean`.  It REUSES the single-iovec
development of `Props/C03.lean`: every definition (`abs`, `absCells`, `Op`, `step`, `specStep`, `specOk`, the
ledger) is the original one; the lemmas (`step_refines`, `Pushed`, the anchored-push lemmas of track `anch`)
are the originals re-proved for the weaker invariant `W.IovInv` (`Proofs/IovecXInv.lean`, `IovecXAbs.lean`,
`IovecXAnch.lean`; see below).

Vocabulary of the statements:

* `GW` = the model `World` plus, per handle, the ghost the abstraction needs (consumed-bytes log, register
  counter).  `GW.step` / `GW.run` ARE `World.step` / `World.run` on the world component
  (`ghost_run_is_world_run`) and return what each call handed back (`WRet`).
* `absW g i : Pipe` = `abs` of C03 on handle `i` (`Pipe.empty` if `i` is not a live iovec).
* `PW` = the reference: one `Pipe` per handle, evolved by `PW.step` from the op and the returned value ONLY
  (`Proofs/IovecWAbs.lean`): `push*` / `extend` / `push_aslice` / sub-slice pushes = append, `register` =
  register, `backfill` = fill, `consume` / `advance` / `read` / `pop` = consume the reported count, `clear` =
  clear, `take` = the whole pipe MOVES to the fresh handle and `Pipe.empty` stays, `clone` = the pipe is
  COPIED, holes included, `new*` = a fresh pipe (`new_from_slices`: holding the buffers' bytes), `drop` =
  the pipe is forgotten, every other call (arena traffic, `read_n`, detached-slice surgery, ops on other
  objects) = identity.
* `Rel g s` = every live handle's `absW` is the reference pipe; `AllInv` = every live iovec satisfies the
  single-iovec invariant in the form `W.IovInv` (see below).

What a CLONE WITH PENDING HOLES means: the clone has its own copy of the placeholder bookkeeping (so its
pipe has the same holes, with the same ids) but SHARES the placeholder's memory with the original; either
side may backfill its copy.  A backfill through one side is the abstract `fill` on that side and, on the
other side, is invisible as long as the other side's placeholder is still pending (its cells are holes
whatever the memory holds) — but it overwrites bytes the other side has already filled.  The reference
keeps the two pipes independent, so the step theorem needs, for a `backfill` through `X`, that no OTHER
live iovec references `X`'s pending placeholder memory: `FillPrivate` (= `NoShare w X j` for every other
handle `j`).  `Props/C20W.lean`: `NoShare` is preserved by every step and holds for every pair of iovecs
unless one was cloned from the other while a placeholder was pending.

The invariant: `IovInv` of C03/C04 demands that the owned slices of an iovec are pairwise disjoint, which is
FALSE in this vocabulary (an anchored slice can be `s_clone`d and both copies pushed into one iovec).  The
development uses `W.IovInv` (`Proofs/IovecXInv.lean`, `IovecXAbs.lean`, `IovecXAnch.lean`: the single-iovec
lemmas re-proved): disjointness is replaced by what `backfill` actually needs — no slice of the iovec other
than its target covers a pending placeholder range.  `AllInv` (every live iovec satisfies it) holds in EVERY
reachable world, with no side condition (`reachable_inv_w`), for all 38 constructors of `WOp`.

Run-level statements carry `OkRun` = `FillPrivate` at every step (decidable by running the model:
`World.okRunB`, `ok_run_decidable`; it holds at every step of every history in which each clone found nothing
pending: `Props/C20W.fill_private_of_clean_clones`).
-/
import Woodpile.Proofs.IovecWLedger

namespace Woodpile.Props.C03W
open Woodpile.Iovec Woodpile.Arena
open Woodpile.Pipe (Cell Pipe)

/-- The ghost changes nothing: a `GW` history is the `World.run` history the driver executes. -/
theorem ghost_run_is_world_run (ops : List WOp) (g : GW) : (g.run ops).map (·.1.w) = g.w.run ops :=
  GW.run_world ops g

/-- Per-operation refinement, ALL handles at once: a step that does not panic keeps `W.IovInv` for every live
iovec, keeps every live handle's abstraction equal to the reference pipe — the named handle by the
corresponding pipe operation, a created handle by move / copy / fresh pipe, every other handle by the
identity —, keeps the handle count and the token table in step, and its returned value satisfies the
pipe-level side condition (`specOk` of C03 for the named handle). -/
theorem wop_refines {g g' : GW} {op : WOp} {r : WRet} {caps : Nat → Nat} {s : PW} (hg : GReach g.w caps)
    (hok : FillPrivate g.w op) (hrel : Rel g s) (h : g.step op = some (g', r)) :
    AllInv g'.w ∧ Rel g' (s.step op r) ∧ s.ok op r :=
  gstep_rel hg hg.allInv hok hrel h

/-- The invariant holds in EVERY reachable world — all 38 constructors, no side condition: every live iovec
satisfies `W.IovInv` (non-empty in-bounds slices below their arena's bump pointer, size and anchor-count
bookkeeping, sane sorted pending backrefs whose ranges no other slice of the iovec covers). -/
theorem reachable_inv_w {w : World} (h : Reachable w) : AllInv w := by
  obtain ⟨caps, hg⟩ := h.exists_caps
  exact hg.allInv

/-- … spelled out for the handles the op does not name: same model value, same abstraction — for every op
on any other object (another iovec, a detached arena or anchored slice), a `backfill` through another
iovec `X` included when no slice of `j` covers a pending placeholder range of `X`. -/
theorem other_handles_unchanged {g g' : GW} {op : WOp} {r : WRet} {caps : Nat → Nat} (hg : GReach g.w caps)
    (h : g.step op = some (g', r)) {j : Nat} {v : Iov} (hv : g.w.iov j = some v)
    (hj : op.iovTarget ≠ some j) (hff : FillFree g.w op j) :
    g'.w.iov j = some v ∧ W.IovInv g'.w v ∧ absW g' j = absW g j := by
  obtain ⟨w', h1, rfl, rfl⟩ := GW.step_some' h
  obtain ⟨f1, f2, f3⟩ := frame_other hg h1 hv hj (hg.allInv j v hv) hff
  refine ⟨f1, f2, ?_⟩
  obtain ⟨e1, e2⟩ := ghost'_other g op j hj (Nat.ne_of_lt (iov_lt_of_some hv))
  rw [absW_live _ j v f1, absW_live g j v hv, absCells_congr f3]
  simp only [e1, e2]

/-- … and for the named handle (any of the 22 calls that name one). -/
theorem named_handle_refines {g g' : GW} {op : WOp} {r : WRet} {caps : Nat → Nat} (hg : GReach g.w caps)
    (h : g.step op = some (g', r)) {i : Nat} {v : Iov}
    (hi : op.iovTarget = some i) (hv : g.w.iov i = some v) :
    absW g' i = (g.pw.step op r).pipe i ∧ g.pw.ok op r := by
  obtain ⟨w', h1, rfl, rfl⟩ := GW.step_some' h
  obtain ⟨_, t2, t3⟩ := target_all hg h1 hi hv (hg.allInv i v hv)
  exact ⟨t2, t3⟩

/-- Lifted to every history from the initial world (side conditions: see the file header). -/
theorem reachable_refines_w (pol : Policy) (tun : Tuning) (ops : List WOp) (g : GW) (rs : List WRet)
    (hok : (GW.init pol tun).OkRun ops) (h : (GW.init pol tun).run ops = some (g, rs)) :
    AllInv g.w ∧ Rel g (PW.init.run ops rs) ∧ PW.init.okRun ops rs := by
  obtain ⟨a, b, c, _⟩ := grun_init pol tun ops g rs hok h
  exact ⟨a, b, c⟩

/-- FIFO, per handle: after any history, for every live iovec `j`, the bytes handed to its consumer,
followed by the bytes still readable (the stable prefix), followed by the not-yet-readable cells, are
exactly `j`'s ledger: everything appended to it since its last clear (to the iovec it was taken from /
cloned from, up to that moment), in order, with every backfilled placeholder holding its value. -/
theorem fifo_w (pol : Policy) (tun : Tuning) (ops : List WOp) (g : GW) (rs : List WRet)
    (hok : (GW.init pol tun).OkRun ops) (h : (GW.init pol tun).run ops = some (g, rs)) (j : Nat) (v : Iov)
    (hv : g.w.iov j = some v) :
    (LW.init.run ops rs).led j = (g.ghost j).map Cell.byte ++ (g.w.visible v).map Cell.byte ++
      mkCells v.backrefs (v.consumedSize + (g.w.visible v).length) (g.w.flat (v.slices.drop v.stableN)) := by
  obtain ⟨hall, hrel, hokr⟩ := reachable_refines_w pol tun ops g rs hok h
  have hh := hist_run ops PW.init rs hokr
  have e0 : PW.init.hist = LW.init := rfl
  rw [e0] at hh
  rw [← hh]
  show pipeHistory ((PW.init.run ops rs).pipe j) = _
  rw [← hrel.pipe j v hv, absW_live g j v hv]
  simp only [pipeHistory, W.absCells_visible (hall j v hv), List.append_assoc]

/-- The reported total size is the number of buffered cells, and buffered plus consumed is the whole ledger. -/
theorem size_eq_w (pol : Policy) (tun : Tuning) (ops : List WOp) (g : GW) (rs : List WRet)
    (hok : (GW.init pol tun).OkRun ops) (h : (GW.init pol tun).run ops = some (g, rs)) (j : Nat) (v : Iov)
    (hv : g.w.iov j = some v) :
    v.totalSize = (absW g j).size ∧ v.totalSize + (g.ghost j).length = ((LW.init.run ops rs).led j).length := by
  obtain ⟨hall, hrel, hokr⟩ := reachable_refines_w pol tun ops g rs hok h
  have hi := hall j v hv
  have hsz : v.totalSize = (absCells g.w v).length := by
    simp only [absCells, mkCells_length, hi.flat_length, Iov.totalSize]
    have := hi.size_eq
    omega
  have hh := hist_run ops PW.init rs hokr
  have e0 : PW.init.hist = LW.init := rfl
  rw [e0] at hh
  refine ⟨by rw [absW_live g j v hv]; exact hsz, ?_⟩
  rw [← hh]
  show _ = (pipeHistory ((PW.init.run ops rs).pipe j)).length
  rw [← hrel.pipe j v hv, absW_live g j v hv, hsz]
  simp [pipeHistory]; omega

/-- Every consuming call reports exactly what it removed: it returns `took n rm`, the bytes `rm` are
byte cells at the front of the handle's pipe, they are exactly what leaves the pipe and what is added to
the consumed log, and the byte-counting calls (`advance`, `read`) return `rm.length`. -/
theorem consume_reports_w {g g' : GW} {op : WOp} {r : WRet} {caps : Nat → Nat} (hg : GReach g.w caps)
    (h : g.step op = some (g', r)) {i : Nat} {v : Iov} (hv : g.w.iov i = some v)
    (hop : (∃ k, op = .consume i k) ∨ op = .pop i ∨ (∃ k, op = .advance i k) ∨ (∃ k, op = .read i k)) :
    ∃ n rm, r = .took n rm ∧ (absW g i).cells = rm.map Cell.byte ++ (absW g' i).cells ∧
      (absW g' i).consumed = (absW g i).consumed ++ rm ∧ (absW g' i).size + rm.length = (absW g i).size ∧
      ((∃ k, op = .advance i k ∨ op = .read i k) → n = rm.length) := by
  have hi : op.iovTarget = some i := by
    rcases hop with ⟨k, rfl⟩ | rfl | ⟨k, rfl⟩ | ⟨k, rfl⟩ <;> rfl
  obtain ⟨habs, hok⟩ := named_handle_refines hg h hi hv
  obtain ⟨w', h1, _, hr⟩ := GW.step_some' h
  have key : ∀ n rm, r = .took n rm → rm <+: (absW g i).stable → absW g' i = ((absW g i).consume rm.length).1 →
      (absW g i).cells = rm.map Cell.byte ++ (absW g' i).cells ∧
      (absW g' i).consumed = (absW g i).consumed ++ rm ∧ (absW g' i).size + rm.length = (absW g i).size := by
    intro n rm _ hpre he
    obtain ⟨_, h2, h3⟩ := Pipe.consume_history (absW g i) rm hpre
    rw [← he] at h2 h3
    refine ⟨h2, h3, ?_⟩
    simp only [Pipe.size]
    rw [h2]; simp; omega
  rcases hop with ⟨k, rfl⟩ | rfl | ⟨k, rfl⟩ | ⟨k, rfl⟩
  · simp only [World.step] at h1
    cases hc : g.w.consume i k with
    | none => rw [hc] at h1; cases h1
    | some x =>
      obtain ⟨w1, n⟩ := x
      have hret : r = .took n (g.w.flat (v.slices.take n)) := by rw [hr]; simp [World.ret, hv, hc]
      subst hret
      simp only [PW.ok, PW.step, WOp.asOp, GW.pw, specOk, specStep, fupd_same] at hok habs
      obtain ⟨a, b, c⟩ := key _ _ rfl hok habs
      exact ⟨_, _, rfl, a, b, c, by rintro ⟨_, e | e⟩ <;> cases e⟩
  · simp only [World.step] at h1
    have hret : r = .took 1 (g.w.flat (v.slices.take 1)) := by rw [hr]; simp [World.ret, hv]
    subst hret
    simp only [PW.ok, PW.step, WOp.asOp, GW.pw, specOk, specStep, fupd_same] at hok habs
    obtain ⟨a, b, c⟩ := key _ _ rfl hok.2 habs
    exact ⟨_, _, rfl, a, b, c, by rintro ⟨_, e | e⟩ <;> cases e⟩
  · simp only [World.step] at h1
    cases hc : g.w.advance i k with
    | none => rw [hc] at h1; cases h1
    | some x =>
      obtain ⟨w1, c⟩ := x
      have hret : r = .took c ((g.w.flat v.slices).take c) := by rw [hr]; simp [World.ret, hv, hc]
      subst hret
      simp only [PW.ok, PW.step, WOp.asOp, GW.pw, specOk, specStep, fupd_same] at hok habs
      obtain ⟨a, b, c'⟩ := key _ _ rfl hok.2.2 habs
      exact ⟨_, _, rfl, a, b, c', fun _ => hok.1.symm⟩
  · simp only [World.step] at h1
    cases hc : World.readInto (k + 2) g.w i k [] with
    | none => rw [hc] at h1; cases h1
    | some x =>
      obtain ⟨w1, bytes⟩ := x
      have hret : r = .took bytes.length bytes := by rw [hr]; simp [World.ret, hc]
      subst hret
      simp only [PW.ok, PW.step, WOp.asOp, GW.pw, specOk, specStep, fupd_same] at hok habs
      obtain ⟨a, b, c'⟩ := key _ _ rfl hok.2.2 habs
      exact ⟨_, _, rfl, a, b, c', fun _ => rfl⟩

/-- No exposed slice of any iovec is empty, in every reachable world. -/
theorem no_empty_slice_w {w : World} (h : Reachable w) :
    ∀ j v, w.iov j = some v → ∀ sl ∈ v.slices, 0 < sl.len :=
  fun j v hv sl hsl => ((reachable_inv_w h j v hv).slices_ok sl hsl).pos

/-- The side condition is decided by running the model. -/
theorem ok_run_decidable (pol : Policy) (tun : Tuning) (ops : List WOp)
    (h : (World.init pol tun).okRunB ops = true) : (GW.init pol tun).OkRun ops :=
  okRunB_sound ops (GW.init pol tun) h

/-! ### Non-vacuity: concrete histories with `take`, `clone`, arena swaps, anchored pushes -/

def exPol : Policy := ⟨64, 256⟩
def exTun : Tuning := ⟨[4096, 8192], 4096⟩

/-- returned values and, per handle, (abstract cells, consumed log) after a history -/
def exObs (ops : List WOp) : Option (List WRet × List (List Cell × List UInt8)) :=
  ((GW.init exPol exTun).run ops).map (fun x =>
    (x.2, (List.range x.1.w.iovs.length).map (fun j => ((absW x.1 j).cells, (absW x.1 j).consumed))))

/-- the per-handle ledgers after a history -/
def exLedger (ops : List WOp) : Option (List (List Cell)) :=
  ((GW.init exPol exTun).run ops).map (fun x =>
    (List.range x.1.w.iovs.length).map (fun j => (LW.init.run ops x.2).led j))

def exA : List WOp :=
  [.new, .pushCopy 0 [1, 2], .register 0 [0, 0], .push 0 [3], .consume 0 1, .take 0, .pushCopy 0 [9],
   .backfill 1 0 [7, 8], .clone 1, .advance 1 3, .clear 2, .pushCopy 2 [5]]

-- take moves the pipe (hole included) to handle 1 and leaves handle 0 empty; the token still fills it
-- there; the clone (taken with nothing pending) copies cells and consumed log; then all three diverge.
example : (World.init exPol exTun).okRunB exA = true := by decide +kernel
example : exObs exA = some
    ([.handle 0, .unit, .token (some (4, ⟨0, 2, 2⟩)), .unit, .took 0 [], .handle 1, .unit, .unit, .handle 2,
      .took 3 [1, 2, 7], .unit, .unit],
     [([.byte 9], []), ([.byte 8, .byte 3], [1, 2, 7]), ([.byte 5], [])]) := by decide +kernel
example : exLedger exA = some
    [[.byte 9], [.byte 1, .byte 2, .byte 7, .byte 8, .byte 3], [.byte 5]] := by decide +kernel

def exB : List WOp :=
  [.new, .newArena, .readNArena 0 100 3 (List.replicate 100 7) [.deliver 100], .sSplit 0 70, .sSkip 1 2,
   .pushCopy 0 [1], .pushASlice 0 1, .swapArena 0 0, .readNIov 0 8 3 [4, 5, 6] [.deliver 2, .eof],
   .pushASlice 0 3, .takeArena 0, .newFromSlices [[1, 2], [], [3]], .extend 1 [[4], []], .drop 0]

-- anchored pushes of slices read into a detached arena and into the iovec's own (swapped-in) arena,
-- `s_split` / `s_skip`, arena swap / take, `new_from_slices`, `extend`, `drop`.
example : (World.init exPol exTun).okRunB exB = true := by decide +kernel
example : (exObs exB).map (fun x => x.2.map (fun y => (y.1.length, y.2))) =
    some [(0, []), (4, [])] := by decide +kernel
example : ((GW.init exPol exTun).run (exB.take 11)).map (fun x => ((absW x.1 0).cells.length, (absW x.1 0).consumed)) =
    some (71, []) := by decide +kernel

-- A clone taken WHILE a placeholder is pending copies the hole; both sides can fill it; the side
-- condition `FillPrivate` rejects the fills (they write memory the other side references) …
example : exObs [.new, .pushCopy 0 [1], .register 0 [0, 0], .clone 0] = some
    ([.handle 0, .unit, .token (some (3, ⟨0, 1, 2⟩)), .handle 1],
     [([.byte 1, .hole 3, .hole 3], []), ([.byte 1, .hole 3, .hole 3], [])]) := by decide +kernel
example : (World.init exPol exTun).okRunB [.new, .pushCopy 0 [1], .register 0 [0, 0], .clone 0, .backfill 0 0 [8, 9]]
    = false := by decide +kernel
-- … and rightly so: after handle 1 has filled its copy, a fill through handle 0 changes handle 1's bytes
-- (the reference would keep `7 7`).
example : exObs [.new, .pushCopy 0 [1], .register 0 [0, 0], .clone 0, .backfill 1 0 [7, 7], .backfill 0 0 [8, 9]] = some
    ([.handle 0, .unit, .token (some (3, ⟨0, 1, 2⟩)), .handle 1, .unit, .unit],
     [([.byte 1, .byte 8, .byte 9], []), ([.byte 1, .byte 8, .byte 9], [])]) := by decide +kernel
-- The double push of a cloned anchored slice (overlapping slices inside one iovec) is covered: both copies'
-- bytes are appended.
example : (World.init exPol exTun).okRunB [.new, .newArena, .readNArena 0 100 3 (List.replicate 100 7) [.deliver 100],
    .sClone 0, .pushASlice 0 0, .pushASlice 0 1] = true := by decide +kernel
example : ((GW.init exPol exTun).run [.new, .newArena, .readNArena 0 100 3 (List.replicate 100 7) [.deliver 100],
    .sClone 0, .pushASlice 0 0, .pushASlice 0 1]).map (fun x => ((absW x.1 0).cells.length, (x.1.w.iov 0).map (·.slices))) =
    some (200, some [⟨.chunk 0, 0, 100⟩, ⟨.chunk 0, 0, 100⟩]) := by decide +kernel

/-- The hypotheses of the run-level theorems are satisfiable: both example histories run. -/
example : ((GW.init exPol exTun).run exA).isSome = true ∧ ((GW.init exPol exTun).run exB).isSome = true := by
  decide +kernel

end Woodpile.Props.C03W

/-
C05 — Every slice handed out points into live memory.

Property theorems only (helper lemmas: `Woodpile/Proofs/IovecOwn.lean`).  The
model is the structural multi-object model `Woodpile.Iovec` (`World`: iovecs,
detached arenas, detached anchored slices, backref tokens, caller buffers;
symbolic addresses = chunk ordinal + offset).  Chunk liveness is DERIVED:
`World.liveChunks` = the allocated chunks that some holder (an arena's cache, an
anchor in some iovec's anchor deque, a detached slice's anchor) references — that
is what `Arc<Chunk>` implements; the correspondence run compares this set with
the real allocator's registry (hook H1) after every operation.

All statements quantify over every `Reachable` world: the state after ANY list
of operations of the `iovec` family vocabulary (`Woodpile.Iovec.WOp`, every op of
the driver), from `World.init` with ANY policy / tuning constants.

Scope notes.  The anchored codec input (`Encoder::encode_anchored`, `push` of an
`AnchoredSlice`) is modelled as the composite the safe API performs:
`push(slice); push_anchor(anchor)` (op `pushASlice`).  The raw
`unsafe AnchoredSlice::components()` route hands the caller a slice and an anchor
separately; keeping the anchor alive is then the caller's obligation and is out of
scope.  That `Arc`/`Box`/raw-pointer code implements derived liveness and symbolic
addresses is established by the correspondence run + debug poisoning, not proved.
-/
import Woodpile.Proofs.IovecArena
import Woodpile.Proofs.IovecOpsCheck

namespace Woodpile.Props.C05
open Woodpile.Iovec Woodpile.Arena

/-- (G) The guard invariant.  In every iovec of every reachable world the anchors count
consecutive runs of slices that cover all slices (`Σ counts = #slices`), every slice is
non-empty, and a slice `n` whose region is `chunk k`, counted by anchor `j`
(`Counts anchors j n`), has an anchor at a deque position `j' ≥ j` holding `some k`.
Anchors leave the deque only from the front (`consumeSlices`: `drainAnchors`,
`dropZeroAnchors`) — so the guard cannot leave before the slice does; this theorem says
so for every reachable state. -/
theorem slice_guarded {w : World} (hr : Reachable w) {i : Nat} {v : Iov} (hv : w.iov i = some v) :
    countSum v.anchors = v.slices.length ∧
    ∀ n s, v.slices[n]? = some s →
      0 < s.len ∧ ∃ j, Counts v.anchors j n ∧ ∀ k, s.region = .chunk k →
        ∃ j' : Nat, ∃ a : Anchor, j ≤ j' ∧ v.anchors[j']? = some a ∧ a.chunk = some k := by
  have hg := (hr.inv.iovOk i v hv).guard
  exact ⟨hg.countSum_eq, fun n s hs => hg.index n s hs⟩

/-- (A) Every detached `AnchoredSlice` that points into a chunk carries an anchor holding that
chunk; only the empty default slice is not owned. -/
theorem detached_anchored {w : World} (hr : Reachable w) {j : Nat} {a : ASlice} (ha : w.aslice j = some a) :
    (∀ k, a.slice.region = .chunk k → a.anchor.chunk = some k) ∧
    (∀ b, a.slice.region = .ext b → a.slice.len = 0) :=
  ⟨(hr.inv.asliceOk j a ha).anchored, (hr.inv.asliceOk j a ha).extEmpty⟩

/-- (C) An allocation cache keeps its chunk alive. -/
theorem cache_holds_chunk {w : World} (hr : Reachable w) {i : Nat} {v : Iov} {c : Cache}
    (hv : w.iov i = some v) (hc : v.arena.cache = some c) : c.chunk ∈ w.liveChunks :=
  cache_live hr.inv hv hc

/-- Every reachable world has a capacity ghost: `GReach w caps` = "`w` is reachable and `caps k` is the
capacity chunk `k` was allocated with" (recorded by the step that creates the chunk, from the cache that
holds it — exactly what the driver prints on the `L live=` line and the correspondence run compares with
the real allocator's chunk sizes). -/
theorem reachable_has_caps {w : World} (hr : Reachable w) : ∃ caps, GReach w caps := hr.exists_caps

/-- Every slice reachable through a read accessor — the stable prefix of any iovec (in fact
every slice it buffers), any non-empty detached anchored slice — is a caller buffer (and lies
inside it) or lies in a chunk of the derived live set, inside `[0, cap)` of that chunk; for an
iovec the chunk is held by the iovec's OWN anchor deque, for a detached slice by its own anchor,
independent of every other object. -/
theorem exposed_live {w : World} {caps : Nat → Nat} (hg : GReach w caps) :
    (∀ i v n, w.iov i = some v → v.stableCount = some n → ∀ s ∈ v.slices.take n,
      Live w s ∧ ∀ k, s.region = .chunk k → k ∈ anchorChunks v.anchors ∧ s.off + s.len ≤ caps k) ∧
    (∀ j a, w.aslice j = some a → a.slice.len ≠ 0 →
      Live w a.slice ∧ ∃ k, a.slice.region = .chunk k ∧ a.anchor.chunk = some k ∧
        a.slice.off + a.slice.len ≤ caps k) := by
  have hw := hg.reachable.inv
  refine ⟨fun i v n hv _ s hs => ?_, fun j a ha hl => ?_⟩
  · have hm := List.mem_of_mem_take hs
    obtain ⟨h1, h2⟩ := hw.iov_slice_live hv hm
    exact ⟨h1, fun k hk => ⟨h2 k hk, hg.inv.inCap s k (Or.inl ⟨i, v, hv, hm⟩) hk⟩⟩
  · obtain ⟨h1, k, h2, h3⟩ := hw.aslice_live ha hl
    exact ⟨h1, k, h2, h3, hg.inv.inCap a.slice k (Or.inr ⟨j, a, ha, rfl⟩) h2⟩

/-- (B) At most ONE arena (an iovec's or a detached one) caches a given chunk (`Clone for ByteArena`
yields an empty arena; arenas only move), its bump pointer is inside the chunk, and every slice and
anchored slice, in ANY object, that points into the cached chunk lies below the bump pointer. -/
theorem below_bump {w : World} {caps : Nat → Nat} (hg : GReach w caps) :
    (∀ h h' c c', w.cacheAt h = some c → w.cacheAt h' = some c' → c.chunk = c'.chunk → h = h') ∧
    (∀ h c, w.cacheAt h = some c → c.bump ≤ c.cap ∧ caps c.chunk = c.cap ∧
      ∀ s, w.HasSlice s → s.region = .chunk c.chunk → s.off + s.len ≤ c.bump) :=
  ⟨hg.inv.unique, fun h c hc => ⟨(hg.inv.bumpLe h c hc).1, (hg.inv.bumpLe h c hc).2,
    fun s hs hr => hg.inv.below h c s hc hs hr⟩⟩

/-- Distinct owned allocations never overlap, and a fresh allocation never covers bytes any existing
slice can read.  For every step `w → w'` of every history: there is ONE range `[lo, hi)` of one chunk
`k` (the allocation the step made, after `release_or_die` trimmed it; `lo = hi` if it made none) that
lies inside the chunk and starts at or above the end of EVERY slice of EVERY object of `w` in that
chunk — hence above every earlier allocation still readable — such that every slice of `w'` is a
sub-range or in-place merge of a slice of `w`, or lies inside `[lo, hi)`, or is a slice of `w` that
ended exactly at `lo`, extended in place to `hi` (`maybe_collapse_last_pair` after `copy`). -/
theorem no_overlap {w w' : World} {caps caps' : Nat → Nat} {op : WOp} (hg : GReach w caps) (hs : w.step op = some w')
    (hg' : GReach w' caps') :
    ∃ k lo hi, lo ≤ hi ∧ hi ≤ caps' k ∧
      (∀ s, w.HasSlice s → s.region = .chunk k → s.off + s.len ≤ lo) ∧
      (∀ s', w'.HasSlice s' → w.Derived s' ∨
        (s'.region = .chunk k ∧ lo ≤ s'.off ∧ s'.off + s'.len ≤ hi) ∨
        (∃ l, w.HasSlice l ∧ s'.region = l.region ∧ l.region = .chunk k ∧ s'.off = l.off ∧
          l.off + l.len = lo ∧ s'.off + s'.len = hi)) :=
  step_fresh hg hs hg'

/-- Contrapositive: a chunk that is no longer live (released, in the real allocator) is not
reachable through any slice of any iovec nor through any non-empty detached slice. -/
theorem released_only_when_unreachable {w : World} (hr : Reachable w) {k : Nat} (hk : k ∉ w.liveChunks) :
    (∀ i v, w.iov i = some v → ∀ s ∈ v.slices, s.region ≠ .chunk k) ∧
    (∀ j a, w.aslice j = some a → a.slice.len ≠ 0 → a.slice.region ≠ .chunk k) := by
  refine ⟨fun i v hv s hs hreg => hk ?_, fun j a ha hl hreg => hk ?_⟩
  · have := (hr.inv.iov_slice_live hv hs).1
    unfold Live at this; rw [hreg] at this; exact this
  · have := (hr.inv.aslice_live ha hl).1
    unfold Live at this; rw [hreg] at this; exact this

end Woodpile.Props.C05

namespace Woodpile.Props.C05
open Woodpile.Iovec Woodpile.Arena

/-! Non-vacuity: concrete histories (production-like constants) reaching the interesting states. -/

private def pol : Policy := ⟨64, 256⟩
private def tun : Tuning := ⟨[4096, 8192], 4096⟩

-- clone, drop the original, read the clone: the clone's own anchor keeps chunk 0 alive.
example : ((World.init pol tun).run [.new, .pushCopy 0 [1, 2, 3], .clone 0, .drop 0]).map
    (fun w => (w.liveChunks, (w.iov 1).map (·.slices), (w.iov 1).map (·.anchors))) =
    some ([0], some [⟨.chunk 0, 0, 3⟩], some [⟨1, some 0⟩]) := by decide
-- anchored slice split in two, one half pushed (as a borrowed slice guarded by a zero-count anchor),
-- the other half dropped: the pushed half keeps chunk 0 alive on its own.
example : ((World.init ⟨4, 8⟩ tun).run [.new, .newArena,
    .readNArena 0 20 3 (List.replicate 20 7) [.deliver 20], .sSplit 0 10, .pushASlice 0 1, .sDrop 2,
    .dropArena 0]).map (fun w => ((w.iov 0).map (·.slices), (w.iov 0).map (·.anchors), w.liveChunks)) =
    some (some [⟨.chunk 0, 0, 10⟩], some [⟨1, none⟩, ⟨0, some 0⟩], [0]) := by decide
-- arena taken from one iovec and given to another while both hold slices in the same chunk:
-- the second allocation starts at the bump pointer (offset 2), above the first iovec's slice.
example : ((World.init pol tun).run [.new, .new, .newArena, .pushCopy 0 [1, 2], .takeArena 0,
    .swapArena 1 1, .pushCopy 1 [3, 4]]).map
    (fun w => ((w.iov 0).map (·.slices), (w.iov 1).map (·.slices), w.cacheAt (.iov 1))) =
    some (some [⟨.chunk 0, 0, 2⟩], some [⟨.chunk 0, 2, 2⟩], some ⟨0, 4096, 4⟩) := by decide
-- … and once the clone is consumed the chunk is released.
example : ((World.init pol tun).run [.new, .pushCopy 0 [1, 2, 3], .clone 0, .drop 0, .consume 1 1]).map
    (·.liveChunks) = some [] := by decide

end Woodpile.Props.C05

/-
C05 — Every slice handed out points into live memory.

Property theorems only (helper lemmas: `Woodpile/Proofs/IovecOwn.lean`).  The
model is the structural multi-object model `Woodpile.Iovec` (`World`: iovecs,
detached arenas, detached anchored slices, backref tokens, caller buffers;
symbolic addresses = chunk ordinal + offset).  Chunk liveness is DERIVED:
`World.liveChunks` = the allocated chunks that some holder (an arena's cache, an
anchor in some iovec's anchor deque, a detached slice's anchor) references — that
is what `Arc<Chunk>` implements; the correspondence run compares this set with
the real allocator's registry (hook H1) after every operation.

All statements quantify over every `Reachable` world: the state after ANY list
of operations of the `iovec` family vocabulary (`Woodpile.Iovec.Op`, every op of
the driver), from `World.init` with ANY policy / tuning constants.

Scope notes.  The anchored codec input (`Encoder::encode_anchored`, `push` of an
`AnchoredSlice`) is modelled as the composite the safe API performs:
`push(slice); push_anchor(anchor)` (op `pushASlice`).  The raw
`unsafe AnchoredSlice::components()` route hands the caller a slice and an anchor
separately; keeping the anchor alive is then the caller's obligation and is out of
scope.  That `Arc`/`Box`/raw-pointer code implements derived liveness and symbolic
addresses is established by the correspondence run + debug poisoning, not proved.
-/
import Woodpile.Proofs.IovecOwn

namespace Woodpile.Props.C05
open Woodpile.Iovec Woodpile.Arena

/-- (G) The guard invariant.  In every iovec of every reachable world the anchors count
consecutive runs of slices that cover all slices (`Σ counts = #slices`), every slice is
non-empty, and a slice `n` whose region is `chunk k`, counted by anchor `j`
(`Counts anchors j n`), has an anchor at a deque position `j' ≥ j` holding `some k`.
Anchors leave the deque only from the front (`consumeSlices`: `drainAnchors`,
`dropZeroAnchors`) — so the guard cannot leave before the slice does; this theorem says
so for every reachable state. -/
theorem slice_guarded {w : World} (hr : Reachable w) {i : Nat} {v : Iov} (hv : w.iov i = some v) :
    countSum v.anchors = v.slices.length ∧
    ∀ n s, v.slices[n]? = some s →
      0 < s.len ∧ ∃ j, Counts v.anchors j n ∧ ∀ k, s.region = .chunk k →
        ∃ j' : Nat, ∃ a : Anchor, j ≤ j' ∧ v.anchors[j']? = some a ∧ a.chunk = some k := by
  have hg := (hr.inv.iovOk i v hv).guard
  exact ⟨hg.countSum_eq, fun n s hs => hg.index n s hs⟩

/-- (A) Every detached `AnchoredSlice` that points into a chunk carries an anchor holding that
chunk; only the empty default slice is not owned. -/
theorem detached_anchored {w : World} (hr : Reachable w) {j : Nat} {a : ASlice} (ha : w.aslice j = some a) :
    (∀ k, a.slice.region = .chunk k → a.anchor.chunk = some k) ∧
    (∀ b, a.slice.region = .ext b → a.slice.len = 0) :=
  ⟨(hr.inv.asliceOk j a ha).anchored, (hr.inv.asliceOk j a ha).extEmpty⟩

/-- (C) An allocation cache keeps its chunk alive. -/
theorem cache_holds_chunk {w : World} (hr : Reachable w) {i : Nat} {v : Iov} {c : Cache}
    (hv : w.iov i = some v) (hc : v.arena.cache = some c) : c.chunk ∈ w.liveChunks :=
  cache_live hr.inv hv hc

/-- Every slice reachable through a read accessor — the stable prefix of any iovec (in fact
every slice it buffers), any non-empty detached anchored slice — is a caller buffer (and lies
inside it) or lies in a chunk of the derived live set; for an iovec the chunk is held by the
iovec's OWN anchor deque, for a detached slice by its own anchor, independent of every other
object. -/
theorem exposed_live {w : World} (hr : Reachable w) :
    (∀ i v n, w.iov i = some v → v.stableCount = some n → ∀ s ∈ v.slices.take n,
      Live w s ∧ ∀ k, s.region = .chunk k → k ∈ anchorChunks v.anchors) ∧
    (∀ j a, w.aslice j = some a → a.slice.len ≠ 0 →
      Live w a.slice ∧ ∃ k, a.slice.region = .chunk k ∧ a.anchor.chunk = some k) :=
  ⟨fun _ _ _ hv _ _ hs => hr.inv.iov_slice_live hv (List.mem_of_mem_take hs),
   fun _ _ ha hl => hr.inv.aslice_live ha hl⟩

/-- Contrapositive: a chunk that is no longer live (released, in the real allocator) is not
reachable through any slice of any iovec nor through any non-empty detached slice. -/
theorem released_only_when_unreachable {w : World} (hr : Reachable w) {k : Nat} (hk : k ∉ w.liveChunks) :
    (∀ i v, w.iov i = some v → ∀ s ∈ v.slices, s.region ≠ .chunk k) ∧
    (∀ j a, w.aslice j = some a → a.slice.len ≠ 0 → a.slice.region ≠ .chunk k) := by
  refine ⟨fun i v hv s hs hreg => hk ?_, fun j a ha hl hreg => hk ?_⟩
  · have := (hr.inv.iov_slice_live hv hs).1
    unfold Live at this; rw [hreg] at this; exact this
  · have := (hr.inv.aslice_live ha hl).1
    unfold Live at this; rw [hreg] at this; exact this

end Woodpile.Props.C05

namespace Woodpile.Props.C05
open Woodpile.Iovec Woodpile.Arena

/-! Non-vacuity: concrete histories (production-like constants) reaching the interesting states. -/

private def pol : Policy := ⟨64, 256⟩
private def tun : Tuning := ⟨[4096, 8192], 4096⟩

-- clone, drop the original, read the clone: the clone's own anchor keeps chunk 0 alive.
example : ((World.init pol tun).run [.new, .pushCopy 0 [1, 2, 3], .clone 0, .drop 0]).map
    (fun w => (w.liveChunks, (w.iov 1).map (·.slices), (w.iov 1).map (·.anchors))) =
    some ([0], some [⟨.chunk 0, 0, 3⟩], some [⟨1, some 0⟩]) := by decide
-- … and once the clone is consumed the chunk is released.
example : ((World.init pol tun).run [.new, .pushCopy 0 [1, 2, 3], .clone 0, .drop 0, .consume 1 1]).map
    (·.liveChunks) = some [] := by decide

end Woodpile.Props.C05

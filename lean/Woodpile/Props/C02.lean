/-
C02 — The encoder's output never contains the stuff sequence `FE FD`, and its
length is at most `len + 1 + 2·⌈len/64008⌉`.

Spec-level half (helper lemmas in `Woodpile/Proofs/HcobsSpec.lean`): the
statements are about `Spec.encode p d`, the batch definition of the wire format,
for ALL byte strings `d` and ALL parameters satisfying `Params.Valid`
(`1 ≤ maxInit < radix`, `1 ≤ maxSub < radix²`, `radix ≤ 253`); the production
constants extracted from the Rust sources are an instance (`prod_params_valid`).
That the incremental `Encoder` (any segmentation, any input method, any drain
schedule) produces exactly `Spec.encode p (concatenated input)` — hence the
"function of the concatenated input only" clause, and that slice / drain
boundaries cannot hide a pair — is the refinement half (`Proofs/HcobsEnc`, C09).
-/
import Woodpile.Gen.Consts
import Woodpile.Proofs.HcobsSpec

namespace Woodpile.Props.C02
open Woodpile.Hcobs Woodpile.Hcobs.Spec

/-- The production parameters, from the constants extracted from `hcobs/src/lib.rs`. -/
def prod : Params := ⟨Gen.maxInit, Gen.maxSub, Gen.radix⟩

/-- The production constants satisfy every side condition of the theorems below
(re-checked whenever the constants are re-extracted). -/
theorem prod_params_valid : prod.Valid := by decide

/-- The model's stuff bytes are the crate's `STUFF_SEQUENCE`. -/
theorem stuff_consts : FE.toNat = Gen.stuff0 ∧ FD.toNat = Gen.stuff1 := by decide

/-- **No stuff sequence**: `find_stuff_sequence` finds nothing in the encoding. -/
theorem no_stuff (p : Params) (hp : p.Valid) (d : List UInt8) :
    findStuff (encode p d) = none :=
  findStuff_encode p hp d

/-- … which means what it says: `FE FD` is not a contiguous sublist of the encoding … -/
theorem no_stuff_infix (p : Params) (hp : p.Valid) (d : List UInt8) :
    ¬ [FE, FD] <:+: encode p d :=
  findStuff_none_iff_not_infix.1 (no_stuff p hp d)

/-- … at no position `i` is there an `FE` immediately followed by an `FD` … -/
theorem no_stuff_at (p : Params) (hp : p.Valid) (d : List UInt8) (i : Nat) :
    ¬ ((encode p d)[i]? = some FE ∧ (encode p d)[i + 1]? = some FD) :=
  findStuff_none_iff_getElem.1 (no_stuff p hp d) i

/-- … and however the output bytes are cut into slices (internal iovec slices, or
"drained early" / "drained late"), no pair straddles a boundary: the property is
one about the concatenation. -/
theorem no_stuff_across_slices (p : Params) (hp : p.Valid) (d : List UInt8)
    (slices : List (List UInt8)) (h : slices.flatten = encode p d) :
    ¬ [FE, FD] <:+: slices.flatten :=
  h ▸ no_stuff_infix p hp d

/-- **Exact length**: the payload, one byte for the first header, and two bytes per
*full* chunk (a chunk ended by a stuff sequence trades the two dropped bytes for
the next chunk's header). -/
theorem length_eq (p : Params) (hp : p.Valid) (d : List UInt8) :
    (encode p d).length = d.length + 1 + 2 * fullChunks p d :=
  encode_length_eq p hp d

/-- **Length bound**, all valid parameters. -/
theorem length_bound (p : Params) (hp : p.Valid) (d : List UInt8) :
    (encode p d).length ≤ d.length + 1 + 2 * ((d.length + p.maxSub - 1) / p.maxSub) :=
  encode_length_le p hp d

/-- **Length bound**, production constants: `len + 1 + 2·⌈len/64008⌉`. -/
theorem length_bound_prod (d : List UInt8) :
    (encode prod d).length ≤ d.length + 1 + 2 * ((d.length + 64008 - 1) / 64008) :=
  encode_length_le prod prod_params_valid d

/-! ### Non-vacuity: the crate's own vectors (`hcobs/src/encoder.rs`, test parameters 3/5) -/

/-- Test parameters `PROD_PARAMS`' little sibling: `max_initial_size = 3`,
`max_subsequent_size = 5`. -/
def tiny : Params := ⟨3, 5, 253⟩

example : tiny.Valid := by decide

-- `FE` and `FD` both survive in the output, separated by a header.
example : encode tiny [0x31, 0x32, FE, FD] = [3, 0x31, 0x32, FE, 1, 0, FD] := by decide
example : findStuff [0x31, 0x32, FE, FD] = some 2 := by decide
example : findStuff (encode tiny [0x31, 0x32, FE, FD]) = none := by decide
-- a stuff sequence inside the window is dropped
example : encode tiny [FE, FD] = [0, 0, 0] := by decide
example : encode tiny [0x31, 0x32, 0x33, FE, FD] = [3, 0x31, 0x32, 0x33, 0, 0, 0, 0] := by decide
-- the bound is attained: 8 bytes, two full chunks
example : (encode tiny [1, 2, 3, 4, 5, 6, 7, 8]).length = 8 + 1 + 2 * ((8 + 5 - 1) / 5) := by decide
example : fullChunks tiny [1, 2, 3, 4, 5, 6, 7, 8] = 2 := by decide
-- … and is not an equality in general
example : (encode tiny [1, 2, 3, 4]).length = 4 + 1 + 2 * 1 := by decide
example : (encode tiny [1, 2]).length = 2 + 1 := by decide
example : encode prod [] = [0] := by decide
example : encode prod [FE, FD, 7] = [0, 1, 0, 7] := by decide

/-! ### Each side condition is needed

What a changed constant would break (`Params.Valid` is
`1 ≤ maxInit < radix`, `1 ≤ maxSub < radix²`, `radix ≤ 253`; its `2 ≤ radix` is
implied by the first two). -/

/-- `radix = 254`: a header digit can be `FD`; after a full chunk ending in `FE`
the output contains `FE FD` (at offset 1 here). -/
example : findStuff (encode ⟨1, 253, 254⟩ (FE :: List.replicate 253 0)) = some 1 := by
  decide +kernel

/-- `maxInit = 254 ≥ radix`: the first header can be `FE`, and an `FD` first payload
byte completes the pair. -/
example : findStuff (encode ⟨254, 5, 253⟩ (FD :: List.replicate 253 0)) = some 0 := by
  decide +kernel

/-- `maxSub = radix²`: a full chunk's length does not fit two radix digits; the
decoder rejects the encoder's own output. -/
example : decode ⟨1, 9, 3⟩ (encode ⟨1, 9, 3⟩ (List.replicate 10 0)) = none := by decide

/-- `maxSub = 0` / `maxInit = 0`: the encoder makes no progress (the Rust type is
`NonZeroUsize`). -/
example : decode ⟨3, 0, 253⟩ (encode ⟨3, 0, 253⟩ [1, 2, 3, 4]) = none := by decide
example : decode ⟨0, 5, 253⟩ (encode ⟨0, 5, 253⟩ []) = none := by decide

end Woodpile.Props.C02

/-
C12 — MessageView is total on untrusted bytes and its accessors agree.

Property theorems only (helper lemmas live in `Woodpile/Proofs/RoughTlv.lean`).
The model is `Woodpile.RoughTlv` (`View.new` = `MessageView::new`, and one
function per accessor).  A `none` result of a model function means "the Rust
code panics here" (every slice expression is checked in the model), so the
`≠ none` / `= some …` conclusions below are the "never panics" claims.

The header of a byte string `d` is read directly by the specification functions
`hdrCount d` (word 0), `hdrOffsets d` (words `1 … N-1`) and `hdrTags d` (words
`N … 2N-1`); they do not go through the model's slicing.

64-bit `usize` is assumed (so `8 * N` cannot overflow for `N < 2^32`).
-/
import Woodpile.Proofs.RoughTlv

namespace Woodpile.Props.C12
open Woodpile.RoughTlv

/-- `MessageView::new` never panics, on any byte string. -/
theorem new_no_panic (d : List UInt8) : View.new d ≠ none :=
  View.new_ne_none d

/-- `MessageView::new` accepts `d` (and then simply wraps `d`) exactly when the
format allows: at least four bytes, room for the `2N`-word header,
non-decreasing offsets, non-decreasing tags, and the last offset inside the
payload (`8N + last ≤ len`). -/
theorem new_accepts_iff (d : List UInt8) (v : View) :
    View.new d = some (.ok v) ↔
      v = ⟨d⟩ ∧ 4 ≤ d.length ∧ 8 * hdrCount d ≤ d.length ∧
      List.Pairwise (· ≤ ·) (hdrOffsets d) ∧ List.Pairwise (· ≤ ·) (hdrTags d) ∧
      (∀ last, (hdrOffsets d).getLast? = some last → 8 * hdrCount d + last ≤ d.length) := by
  rw [View.new_ok_iff]
  constructor
  · rintro ⟨rfl, h⟩; exact ⟨rfl, h.h4, h.h8, h.offs, h.tags, h.last⟩
  · rintro ⟨rfl, h1, h2, h3, h4, h5⟩; exact ⟨rfl, ⟨h1, h2, h3, h4, h5⟩⟩

/-- On every accepted message, iteration, indexed access, the tag array and the
pair count agree with each other — and none of these accessors panics: there is
one list of pairs `ps` such that `iter()` yields exactly `ps`, `len()` is its
length, `is_empty()` says whether it is empty, `tags()` is its first components,
`tags_match_exactly` compares against those, and for EVERY index `i` (in or out
of range) `get(i)` is `ps[i]?` and `get_value(i)` is the value of `ps[i]?`. -/
theorem accessors_agree (d : List UInt8) (v : View) (h : View.new d = some (.ok v)) :
    ∃ ps : List (Nat × List UInt8),
      v.iter = some ps ∧
      v.len = some ps.length ∧
      v.isEmpty = some (ps.length == 0) ∧
      v.tags = some (ps.map (·.1)) ∧
      (∀ expected, v.tagsMatchExactly expected = some (ps.map (·.1) == expected)) ∧
      (∀ i, v.get i = some ps[i]?) ∧
      (∀ i, v.getValue i = some (ps[i]?.map (·.2))) := by
  obtain ⟨rfl, hv⟩ := (View.new_ok_iff d v).mp h
  refine ⟨pairsOf d, View.iter_eq hv, ?_, ?_, ?_, ?_, View.get_eq hv, View.getValue_eq' hv⟩
  · rw [View.len_eq d hv.h4, pairsOf_length]
  · simp [View.isEmpty, View.len_eq d hv.h4]
  · rw [View.tags_eq d hv.h4 hv.h8, hdrTags_eq_pairsOf]
  · intro e; simp [View.tagsMatchExactly, View.tags_eq d hv.h4 hv.h8, hdrTags_eq_pairsOf]

/-- No accessor panics on an accepted message (for all indices and all wanted tags). -/
theorem no_panic (d : List UInt8) (v : View) (h : View.new d = some (.ok v)) :
    v.len ≠ none ∧ v.isEmpty ≠ none ∧ v.tags ≠ none ∧ v.iter ≠ none ∧
    (∀ e, v.tagsMatchExactly e ≠ none) ∧
    (∀ i, v.get i ≠ none) ∧ (∀ i, v.getValue i ≠ none) ∧
    (∀ w, v.findTag w ≠ none) ∧ (∀ w, v.find w ≠ none) := by
  obtain ⟨ps, h1, h2, h3, h4, h5, h6, h7⟩ := accessors_agree d v h
  obtain ⟨rfl, hv⟩ := (View.new_ok_iff d v).mp h
  refine ⟨by simp [h2], by simp [h3], by simp [h4], by simp [h1], fun e => by simp [h5 e],
    fun i => by simp [h6 i], fun i => by simp [h7 i], ?_, ?_⟩
  · intro w
    obtain ⟨r, hr, _⟩ := binarySearch_isSearch (hdrTags d) w hv.tags
    simp [View.findTag, View.findTagWith, View.tags_eq d hv.h4 hv.h8, hr]
  · intro w
    obtain ⟨r, hr, _⟩ := View.findWith_sound binarySearch_isSearch hv w
    simp [View.find, hr]

/-- The values returned for indices `0..N` are consecutive slices that tile the
bytes after the `2N`-word header exactly and in order.  (`N ≥ 1`: an empty
message has no value, and whatever follows its count word belongs to nothing.) -/
theorem values_tile (d : List UInt8) (v : View) (h : View.new d = some (.ok v))
    (hN : 0 < hdrCount d) :
    ∃ vals : List (List UInt8), vals.length = hdrCount d ∧
      (∀ i, i < hdrCount d → v.getValue i = some vals[i]?) ∧
      vals.flatten = d.drop (8 * hdrCount d) := by
  obtain ⟨rfl, hv⟩ := (View.new_ok_iff d v).mp h
  refine ⟨(pairsOf d).map (·.2), by simp, ?_, Woodpile.RoughTlv.values_tile d hv hN⟩
  intro i _
  rw [View.getValue_eq' hv i]; simp

/-- Every index `≥ N` (so every index of an empty message) yields nothing. -/
theorem oob_none (d : List UInt8) (v : View) (h : View.new d = some (.ok v)) (i : Nat)
    (hi : hdrCount d ≤ i) : v.getValue i = some none ∧ v.get i = some none := by
  obtain ⟨rfl, hv⟩ := (View.new_ok_iff d v).mp h
  rw [View.getValue_eq' hv i, View.get_eq hv i, pairsOf_getElem?]
  simp [Nat.not_lt.mpr hi]

/-- The search std performs today (`binary_search_by`, Rust 1.95) is an acceptable search. -/
theorem std_search_ok : IsSearch binarySearch := binarySearch_isSearch

/-- Tag lookup, for ANY search algorithm that returns some matching index on a
sorted array (in particular std's, whichever of several equal tags it picks):
`find(w)` does not panic; what it returns is a value stored under exactly the
tag `w` (it is the value of some pair `(w, val)` that `get` also returns); and
it returns nothing only when no pair carries the tag `w`. -/
theorem find_sound (s : List Nat → Nat → Option (Option Nat)) (hs : IsSearch s)
    (d : List UInt8) (v : View) (h : View.new d = some (.ok v)) (w : Nat) :
    ∃ r, v.findWith s w = some r ∧
      (∀ val, r = some val → ∃ i : Nat, v.get i = some (some (w, val))) ∧
      (r = none → ∀ i p, v.get i = some (some p) → p.1 ≠ w) := by
  obtain ⟨rfl, hv⟩ := (View.new_ok_iff d v).mp h
  obtain ⟨r, hr, h1, h2⟩ := View.findWith_sound hs hv w
  refine ⟨r, hr, ?_, ?_⟩
  · intro val hval
    obtain ⟨i, hi⟩ := h1 val hval
    exact ⟨i, by rw [View.get_eq hv i, hi]⟩
  · intro hnone i p hp
    rw [View.get_eq hv i] at hp
    simp only [Option.some.injEq] at hp
    exact h2 hnone p (List.mem_of_getElem? hp)

/-- **`find_tag`** (claim-audit, C12 table: it had only `no_panic`), for ANY acceptable
search: it does not panic; an index it returns is in range and holds exactly the tag `w`
(`get` at that index returns a pair tagged `w`), and then `find(w)` is that pair's value
(`find` IS `get_value(find_tag(w)?)`); it returns nothing only when no pair carries `w`,
and then so does `find`. -/
theorem find_tag_sound (s : List Nat → Nat → Option (Option Nat)) (hs : IsSearch s)
    (d : List UInt8) (v : View) (h : View.new d = some (.ok v)) (w : Nat) :
    ∃ r, v.findTagWith s w = some r ∧
      (∀ i, r = some i → i < hdrCount d ∧
        ∃ val, v.get i = some (some (w, val)) ∧ v.getValue i = some (some val) ∧
          v.findWith s w = some (some val)) ∧
      (r = none → (∀ i p, v.get i = some (some p) → p.1 ≠ w) ∧ v.findWith s w = some none) := by
  obtain ⟨rfl, hv⟩ := (View.new_ok_iff d v).mp h
  obtain ⟨r, hr, hsome, hnone⟩ := hs (hdrTags d) w hv.tags
  have hft : View.findTagWith s ⟨d⟩ w = some r := by
    unfold View.findTagWith
    rw [View.tags_eq d hv.h4 hv.h8]
    exact hr
  refine ⟨r, hft, ?_, ?_⟩
  · intro i hi
    subst hi
    have hti := hsome i rfl
    rw [hdrTags_getElem?] at hti
    by_cases hlt : i < hdrCount d
    · simp only [hlt, if_true, Option.some.injEq] at hti
      refine ⟨hlt, valueAt d i, ?_, View.getValue_eq hv hlt, ?_⟩
      · rw [View.get_eq hv i, pairsOf_getElem?]
        simp [hlt, tagAt, hti]
      · unfold View.findWith
        rw [hft]
        exact View.getValue_eq hv hlt
    · simp [hlt] at hti
  · intro hn
    subst hn
    refine ⟨?_, by unfold View.findWith; rw [hft]⟩
    intro i p hp hpw
    rw [View.get_eq hv i] at hp
    simp only [Option.some.injEq] at hp
    apply hnone rfl
    rw [hdrTags_eq_pairsOf]
    exact List.mem_map.mpr ⟨p, List.mem_of_getElem? hp, hpw⟩

/-- **The empty message** (the case `values_tile` has to exclude): when `N = 0` the view is
accepted whatever follows the count word, and those bytes belong to nothing - iteration is
empty, every index and every tag lookup yields nothing.  (So "the values tile the bytes
after the header" holds for `N = 0` exactly when nothing follows the count word; the
property's tiling clause is stated for `N ≥ 1`.) -/
theorem empty_message (d : List UInt8) (v : View) (h : View.new d = some (.ok v)) (hN : hdrCount d = 0) :
    v.iter = some [] ∧ v.len = some 0 ∧ v.isEmpty = some true ∧ v.tags = some [] ∧
    (∀ i, v.getValue i = some none ∧ v.get i = some none) ∧
    (∀ w, v.find w = some none ∧ v.findTag w = some none) := by
  obtain ⟨ps, h1, h2, h3, h4, _, _, _⟩ := accessors_agree d v h
  obtain ⟨rfl, hv⟩ := (View.new_ok_iff d v).mp h
  have hps : ps = [] := by
    have := View.iter_eq hv
    rw [h1] at this
    simp only [Option.some.injEq] at this
    subst this
    exact List.eq_nil_of_length_eq_zero (by simp [hN])
  subst hps
  refine ⟨h1, h2, by simpa using h3, by simpa using h4, fun i => oob_none d _ h i (by omega), ?_⟩
  intro w
  obtain ⟨r, hr, hs1, hs2⟩ := find_tag_sound binarySearch binarySearch_isSearch d _ h w
  cases r with
  | some i => exact absurd (hs1 i rfl).1 (by omega)
  | none => exact ⟨(hs2 rfl).2, hr⟩

/-- … and an accepted message with `N = 0` and trailing bytes exists, so the tiling clause
cannot be stated for `N = 0` (the counter-example of the audit). -/
theorem empty_message_trailing_bytes :
    View.new [0,0,0,0, 9,9,9] = some (.ok ⟨[0,0,0,0, 9,9,9]⟩) ∧ hdrCount [0,0,0,0, 9,9,9] = 0 ∧
    ([0,0,0,0, 9,9,9] : List UInt8).drop (8 * 0) ≠ [] := by decide

end Woodpile.Props.C12

namespace Woodpile.Props.C12
open Woodpile.RoughTlv

/-! Non-vacuity. -/

-- the crate's 2-pair test vector is accepted …
example : View.new [2,0,0,0, 3,0,0,0, 1,0,0,0, 2,0,0,0, 97,115,100, 122,120,99,118]
    = some (.ok ⟨[2,0,0,0, 3,0,0,0, 1,0,0,0, 2,0,0,0, 97,115,100, 122,120,99,118]⟩) := by decide
-- … and each of the five rejections happens.
example : View.new [1,2,3] = some (.error (.impossibleHeader 3)) := by decide
example : View.new [2,0,0,0, 0,0,0,0, 1,0,0,0] = some (.error (.truncatedHeader 2 12)) := by decide
example : View.new [3,0,0,0, 2,0,0,0, 1,0,0,0, 10,0,0,0, 11,0,0,0, 12,0,0,0]
    = some (.error (.nonMonotonicOffsets 0 2 1)) := by decide
example : View.new [2,0,0,0, 0,0,0,0, 13,0,0,0, 12,0,0,0]
    = some (.error (.nonMonotonicTags 0 13 12)) := by decide
example : View.new [2,0,0,0, 4,0,0,0, 10,0,0,0, 13,0,0,0, 255,255]
    = some (.error (.truncatedPayload 20 18)) := by decide
-- accessors on the accepted vector: a hit, a miss, the duplicate-tag case, out of range
example : (View.mk [2,0,0,0, 3,0,0,0, 1,0,0,0, 2,0,0,0, 97,115,100, 122,120,99,118]).find 2
    = some (some [122,120,99,118]) := by decide
example : (View.mk [2,0,0,0, 3,0,0,0, 1,0,0,0, 2,0,0,0, 97,115,100, 122,120,99,118]).find 3
    = some none := by decide
example : (View.mk [2,0,0,0, 1,0,0,0, 7,0,0,0, 7,0,0,0, 97, 98]).findTag 7 = some (some 1) := by decide
example : (View.mk [0,0,0,0, 9,9,9]).getValue 0 = some none := by decide
-- `values_tile` has instances (N ≥ 1 accepted) and `oob_none` covers the empty message
example : hdrCount [2,0,0,0, 3,0,0,0, 1,0,0,0, 2,0,0,0, 97,115,100, 122,120,99,118] = 2 := by decide
example : View.new [0,0,0,0, 9,9,9] = some (.ok ⟨[0,0,0,0, 9,9,9]⟩) := by decide

end Woodpile.Props.C12

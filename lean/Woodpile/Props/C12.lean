/-
C12 — MessageView is total on untrusted bytes and its accessors agree.

Property theorems only (helper lemmas live in `Woodpile/Proofs/RoughTlv.lean`).
The model is `Woodpile.RoughTlv` (`View.new` = `MessageView::new`, and one
function per accessor).  A `none` result of a model function means "the Rust
code panics here" (every slice expression is checked in the model), so the
`≠ none` / `= some …` conclusions below are the "never panics" claims.

The header of a byte string `d` is read directly by the specification functions
`hdrCount d` (word 0), `hdrOffsets d` (words `1 … N-1`) and `hdrTags d` (words
`N … 2N-1`); they do not go through the model's slicing.

64-bit `usize` is assumed (so `8 * N` cannot overflow for `N < 2^32`).
-/
import Woodpile.Proofs.RoughTlv

namespace Woodpile.Props.C12
open Woodpile.RoughTlv

/-- `MessageView::new` never panics, on any byte string. -/
theorem new_no_panic (d : List UInt8) : View.new d ≠ none :=
  View.new_ne_none d

/-- `MessageView::new` accepts `d` (and then simply wraps `d`) exactly when the
format allows: at least four bytes, room for the `2N`-word header,
non-decreasing offsets, non-decreasing tags, and the last offset inside the
payload (`8N + last ≤ len`). -/
theorem new_accepts_iff (d : List UInt8) (v : View) :
    View.new d = some (.ok v) ↔
      v = ⟨d⟩ ∧ 4 ≤ d.length ∧ 8 * hdrCount d ≤ d.length ∧
      List.Pairwise (· ≤ ·) (hdrOffsets d) ∧ List.Pairwise (· ≤ ·) (hdrTags d) ∧
      (∀ last, (hdrOffsets d).getLast? = some last → 8 * hdrCount d + last ≤ d.length) := by
  rw [View.new_ok_iff]
  constructor
  · rintro ⟨rfl, h⟩; exact ⟨rfl, h.h4, h.h8, h.offs, h.tags, h.last⟩
  · rintro ⟨rfl, h1, h2, h3, h4, h5⟩; exact ⟨rfl, ⟨h1, h2, h3, h4, h5⟩⟩

end Woodpile.Props.C12

namespace Woodpile.Props.C12
open Woodpile.RoughTlv

/-! Non-vacuity. -/

-- the crate's 2-pair test vector is accepted …
example : View.new [2,0,0,0, 3,0,0,0, 1,0,0,0, 2,0,0,0, 97,115,100, 122,120,99,118]
    = some (.ok ⟨[2,0,0,0, 3,0,0,0, 1,0,0,0, 2,0,0,0, 97,115,100, 122,120,99,118]⟩) := by decide
-- … and each of the five rejections happens.
example : View.new [1,2,3] = some (.error (.impossibleHeader 3)) := by decide
example : View.new [2,0,0,0, 0,0,0,0, 1,0,0,0] = some (.error (.truncatedHeader 2 12)) := by decide

end Woodpile.Props.C12

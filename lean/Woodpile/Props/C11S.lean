/-
C11, sink-agnostic clause: writing a Rough TLV message through an HCOBS `Encoder`
sink yields the HCOBS encoding of the message's layout.

`MessageWrapper::encode` is a sequence of `append_copy` / `append_borrow` calls on
its `ZeroCopySink`; `Wrapper.encodePieces` (Model/RoughTlv.lean) is that sequence,
call by call, with the method of each call (borrowed `Cow`s are `append_borrow`,
everything else `append_copy`, nested messages recurse).  `impl ZeroCopySink for
hcobs::Encoder` maps `append_copy` to `encode_copy` and `append_borrow` to `encode`,
i.e. to the two `Method`s of the encoder model, so the encoder sink fed by
`encode` is `Enc.output prod (encodePieces …)`: the incremental encoder state machine
run on exactly those pieces by exactly those methods.  `sink_agnostic` says what it
produces.  That the real `encode` makes exactly these calls is tied by the `tlv`
correspondence family (`calls` lines: method and length of every call, both sinks;
`wire` line: the bytes the real `hcobs::Encoder` sink produced against
`Enc.output prod` of the model's calls).
-/
import Woodpile.Props.C11
import Woodpile.Props.C01
import Woodpile.Props.C02

namespace Woodpile.Props.C11S
open Woodpile.RoughTlv Woodpile.Hcobs

/-- **Sink agnostic.**  For every list the constructors accept, over lawful values
that do not panic (any `Cow` variant, any nesting: `calls` is arbitrary), `encode`
makes a call sequence `cs` whose concatenation `out` is the Roughtime layout of
`C11.encode_layout` (what an `OwningIovec` sink ends up holding, `C03`), and the
HCOBS `Encoder` sink fed with those calls by those methods (`append_copy` =
`encode_copy`, `append_borrow` = `encode`) ends, after `finish`, holding exactly the
HCOBS encoding of `out` with no placeholder pending; the batch decoder and the
incremental `Decoder` (fed the wire bytes in any segmentation by any method) give
`out` back, on which `MessageView` returns the caller's pairs (`C11.view_roundtrip`). -/
theorem sink_agnostic {V : Type} (calls : V → Option (List Piece)) (len : V → Nat)
    (ps : List (Pair V)) (w : Wrapper V) (h : Accepted len ps w)
    (hl : ∀ p ∈ ps, CallsLawful calls len p.2) (hs : ∀ p ∈ ps, (calls p.2).isSome = true) :
    ∃ cs out, w.encodePieces calls len = some cs ∧ flat cs = out ∧
      w.encode (bytesOf calls) len = some out ∧ out.length = w.tlvLen ∧
      (Enc.output Woodpile.Props.C02.prod cs).bytes = Spec.encode Woodpile.Props.C02.prod out ∧
      (Enc.output Woodpile.Props.C02.prod cs).pending = false ∧
      Spec.decode Woodpile.Props.C02.prod (Enc.output Woodpile.Props.C02.prod cs).bytes = some out ∧
      (∀ wire : List (Method × List UInt8),
        (wire.map (·.2)).flatten = (Enc.output Woodpile.Props.C02.prod cs).bytes →
        Dec.output Woodpile.Props.C02.prod wire = .ok out) ∧
      View.new out = some (.ok ⟨out⟩) := by
  obtain ⟨cs, h1, h2, h3⟩ := h.calls hl hs
  have hv := Woodpile.Props.C02.prod_params_valid
  have he := Woodpile.Props.C01.enc_impl_refines_spec Woodpile.Props.C02.prod hv cs
  have hflat : (cs.map (·.2)).flatten = flat cs := rfl
  rw [hflat] at he
  have hlb : ∀ p ∈ ps, len p.2 = (bytesOf calls p.2).length := fun p hp => (hl p hp).bytes (hs p hp)
  obtain ⟨out', h4, h5⟩ := Woodpile.Props.C11.view_accepts (bytesOf calls) len ps w h hlb
  rw [h2] at h4
  cases h4
  refine ⟨cs, flat cs, h1, rfl, h2, h3, he.1, he.2, ?_, ?_, h5⟩
  · rw [he.1]
    exact Woodpile.Hcobs.Spec.decode_encode _ hv _
  · intro wire hw
    have := Woodpile.Props.C01.roundtrip Woodpile.Props.C02.prod hv cs wire hw
    rwa [hflat] at this

/-- The earlier, weaker form (kept: it is the general fact the strong form
instantiates): ANY pieces that concatenate to the layout, by any methods, give the
same HCOBS encoding.  It says nothing about which pieces `encode` actually makes. -/
theorem sink_agnostic_any_pieces {V : Type} (bytes : V → List UInt8) (len : V → Nat) (_ps : List (Pair V))
    (w : Wrapper V) (out : List UInt8) (_henc : w.encode bytes len = some out)
    (pieces : List (Method × List UInt8)) (hp : (pieces.map (·.2)).flatten = out) :
    (Enc.output Woodpile.Props.C02.prod pieces).bytes = Spec.encode Woodpile.Props.C02.prod out ∧
    (Enc.output Woodpile.Props.C02.prod pieces).pending = false ∧
    Spec.decode Woodpile.Props.C02.prod (Enc.output Woodpile.Props.C02.prod pieces).bytes = some out := by
  have h := Woodpile.Props.C01.enc_impl_refines_spec Woodpile.Props.C02.prod Woodpile.Props.C02.prod_params_valid pieces
  rw [hp] at h
  refine ⟨h.1, h.2, ?_⟩
  rw [h.1]
  exact Woodpile.Hcobs.Spec.decode_encode _ Woodpile.Props.C02.prod_params_valid out

/-- The same for the `tlv` family's own values, with every hypothesis discharged:
in any reachable state, encoding a stored fake-free message into the HCOBS sink
model yields the HCOBS encoding of its layout. -/
theorem sink_agnostic_driver (s : TlvSt) (hr : TlvReach s) (i : Nat) (w : Wrapper DVal)
    (hi : s.slots[i]? = some (some w)) (hf : hasFake w = false) :
    ∃ cs, w.encodePieces DVal.calls DVal.len = some cs ∧
      (Enc.output Woodpile.Props.C02.prod cs).bytes = Spec.encode Woodpile.Props.C02.prod (flat cs) ∧
      (Enc.output Woodpile.Props.C02.prod cs).pending = false ∧
      w.encode DVal.bytes DVal.len = some (flat cs) := by
  obtain ⟨ps, ha, _, hcl, hs⟩ := (hr.slotOK i w hi).hyps hf
  obtain ⟨cs, out, h1, h2, h3, _, h5, h6, _⟩ := sink_agnostic DVal.calls DVal.len ps w ha hcl hs
  subst h2
  exact ⟨cs, h1, h5, h6, h3⟩

/-! Non-vacuity: the crate's Cow message through the encoder model (one borrowed,
one owned value): header byte 23, then the layout. -/
example : (Enc.output Woodpile.Props.C02.prod
      [(.copy, [2,0,0,0]), (.copy, [3,0,0,0]), (.copy, [1,0,0,0]), (.copy, [2,0,0,0]),
        (.borrow, [97,115,100]), (.copy, [122,120,99,118])]).bytes
    = [23, 2,0,0,0, 3,0,0,0, 1,0,0,0, 2,0,0,0, 97,115,100, 122,120,99,118] := by decide +kernel

end Woodpile.Props.C11S

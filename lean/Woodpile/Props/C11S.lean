/-
C11, sink-agnostic clause: writing a Rough TLV message through an HCOBS `Encoder`
sink yields the HCOBS encoding of the message's layout.

`MessageWrapper::encode` emits the layout as a sequence of `append_copy` /
`append_borrow` calls; whatever that sequence is, its concatenation is the layout
(`C11.encode_layout`), and the HCOBS encoder's output depends on the concatenation
only (`C01.enc_impl_refines_spec`).  That the real code's call sequence concatenates
to the layout is tied by the `tlv` correspondence family (sink `hcobs`).
-/
import Woodpile.Props.C11
import Woodpile.Props.C01
import Woodpile.Props.C02

namespace Woodpile.Props.C11S
open Woodpile.RoughTlv Woodpile.Hcobs

theorem sink_agnostic {V : Type} (bytes : V → List UInt8) (len : V → Nat) (_ps : List (Pair V))
    (w : Wrapper V) (out : List UInt8) (_henc : w.encode bytes len = some out)
    (pieces : List (Method × List UInt8)) (hp : (pieces.map (·.2)).flatten = out) :
    (Enc.output Woodpile.Props.C02.prod pieces).bytes = Spec.encode Woodpile.Props.C02.prod out ∧
    (Enc.output Woodpile.Props.C02.prod pieces).pending = false ∧
    Spec.decode Woodpile.Props.C02.prod (Enc.output Woodpile.Props.C02.prod pieces).bytes = some out := by
  have h := Woodpile.Props.C01.enc_impl_refines_spec Woodpile.Props.C02.prod Woodpile.Props.C02.prod_params_valid pieces
  rw [hp] at h
  refine ⟨h.1, h.2, ?_⟩
  rw [h.1]
  exact Woodpile.Hcobs.Spec.decode_encode _ Woodpile.Props.C02.prod_params_valid out

end Woodpile.Props.C11S

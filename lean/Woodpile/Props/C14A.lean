/-
C14 (public-API completion, track `apigaps`): the `_or_die` constructors obey the same rule — a
`VouchedTime` comes out exactly inside the window, everything else dies (no value is ever produced
outside the rule).  Modelled in `Model/VouchedTimeApi.lean`, exercised by the ops `new_or_die` /
`now_or_die` of the `vtime` family.
-/
import Woodpile.Model.VouchedTimeApi
import Woodpile.Props.C14

namespace Woodpile.Props.C14A
open Woodpile.VouchedTime Woodpile

/-- `new_or_die` (any configuration, any inputs) returns exactly what `new` returns when that is `Ok`,
panics otherwise, and never returns an error. -/
theorem new_or_die_cases (c : Cfg) (ns : Int) (base v : UInt64) :
    (∀ vt, newOrDie c ns base v = .ok vt ↔ new c ns base v = .ok vt) ∧
    (newOrDie c ns base v = .panic ↔ ¬ ∃ vt, new c ns base v = .ok vt) ∧
    (∀ e, newOrDie c ns base v ≠ .err e) := by
  unfold newOrDie
  generalize new c ns base v = r
  cases r <;> simp

/-- For the production window: `new_or_die` returns a value exactly when (C14.new_ok_iff) the voucher
checks, the local time is not before the epoch and `floor(local/1ms) - base` is in `[-59900, 2990]`;
otherwise it dies. -/
theorem new_or_die_rule (ns : Int) (hr : InRange ns) (base v : UInt64) :
    (∃ vt, newOrDie prodCfg ns base v = .ok vt) ↔
      Raffle.check Raffle.baseTimeCheck base v = true ∧ 0 ≤ ns ∧
      -59900 ≤ ns / 1000000 - (base.toNat : Int) ∧ ns / 1000000 - (base.toNat : Int) ≤ 2990 := by
  rw [← Woodpile.Props.C14.new_ok_iff ns hr base v]
  have h1 := (new_or_die_cases prodCfg ns base v).1
  exact ⟨fun ⟨vt, h⟩ => ⟨vt, (h1 vt).mp h⟩, fun ⟨vt, h⟩ => ⟨vt, (h1 vt).mpr h⟩⟩

/-- `now_or_die` is `new_or_die` on the clock reading and the provider's answer; a failing provider
makes it die. -/
theorem now_or_die_same_rule (c : Cfg) (clock : Int) (provider : Int → Option (UInt64 × UInt64)) :
    (∀ b w, provider clock = some (b, w) → nowOrDie c clock provider = newOrDie c clock b w) ∧
    (provider clock = none → nowOrDie c clock provider = .panic) := by
  refine ⟨fun b w h => ?_, fun h => ?_⟩
  · unfold nowOrDie newOrDie now; rw [h]
  · unfold nowOrDie now; rw [h]

end Woodpile.Props.C14A

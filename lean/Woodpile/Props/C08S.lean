/-
C08 / C06 — what the specification function `segments` (`Model/Stream.lean`) is.

`C08.chunks_regroup_to_segments` says the chunker's chunks regroup to `segments s`, and
`C06U.reader_keepgoing` / `reader_std_judge` say the reader returns the decodable ones among
`segments s`.  Both rest on `segments` (a left-to-right scan) being "the maximal
`FE FD`-free pieces of the stream with their exact ranges".  That is proved here, without
reference to the scan: soundness, completeness, tiling, and uniqueness (= maximality).

Helper lemmas: `Woodpile/Proofs/StreamSegments.lean`.
-/
import Woodpile.Proofs.StreamSegments

namespace Woodpile.Props.C08S
open Woodpile.Hcobs Woodpile.Stream

/-- **`segments` is sound**: every segment is a piece of the stream at exactly the range it
claims, contains no stuff sequence, and is delimited on each side by a stuff sequence or by
the start / the end of the stream (`IsDelimitedPiece`). -/
theorem segments_sound (s : List UInt8) (sg : Seg) (h : sg ∈ segments s) : IsDelimitedPiece s sg :=
  Woodpile.Stream.segments_sound s sg h

/-- **`segments` is complete**: every such piece is a segment — whatever bytes lie beyond
its delimiters. -/
theorem segments_complete (s : List UInt8) (sg : Seg) (h : IsDelimitedPiece s sg) : sg ∈ segments s :=
  Woodpile.Stream.segments_complete s sg h

/-- **Tiling**: the segments, in order, joined by stuff sequences, are the stream; their
ranges are consecutive, start at 0, and skip exactly the 2-byte delimiters; there is at
least one. -/
theorem segments_tile (s : List UInt8) :
    segments s ≠ [] ∧ joinStuff ((segments s).map (·.bytes)) = s ∧
      segments s = segsOfPieces 0 ((segments s).map (·.bytes)) := by
  obtain ⟨ps, hne, _, hjoin, hseg⟩ := segments_decomp s
  have hm : (segments s).map (·.bytes) = ps := by rw [hseg, segsOfPieces_map_bytes]
  rw [hm]
  refine ⟨?_, hjoin, hseg⟩
  rw [hseg]
  cases ps with
  | nil => exact absurd rfl hne
  | cons p rest => simp [segsOfPieces]

/-- **Maximality**: the decomposition is unique.  Whenever the stream is written as
stuff-free pieces joined by stuff sequences, those pieces (with the ranges that follow) ARE
`segments`: no piece can be extended (it would swallow a delimiter, i.e. contain `FE FD`),
and no delimiter can be placed anywhere but at an occurrence of `FE FD`. -/
theorem segments_unique (s : List UInt8) (ps : List (List UInt8)) (hne : ps ≠ [])
    (hall : ∀ p ∈ ps, findStuff p = none) (hjoin : joinStuff ps = s) :
    segments s = segsOfPieces 0 ps :=
  Woodpile.Stream.segments_unique s ps hne hall hjoin

end Woodpile.Props.C08S

namespace Woodpile.Props.C08S
open Woodpile.Hcobs Woodpile.Stream

/-! Non-vacuity. -/

example : segments [0x05, 0xFE, 0xFE, 0xFD, 0x01, 0x61, 0xFE, 0xFD] =
    [⟨[0x05, 0xFE], 0, 2⟩, ⟨[0x01, 0x61], 4, 6⟩, ⟨[], 8, 8⟩] := by decide
example : IsDelimitedPiece [0x05, 0xFE, 0xFE, 0xFD, 0x01, 0x61, 0xFE, 0xFD] ⟨[0x01, 0x61], 4, 6⟩ :=
  ⟨[0x05, 0xFE, 0xFE, 0xFD], [0xFE, 0xFD], rfl, rfl, rfl, by decide, Or.inr ⟨[0x05, 0xFE], rfl⟩, Or.inr ⟨[], rfl⟩⟩
-- a piece that is not maximal is not a segment
example : (⟨[0x01], 4, 5⟩ : Seg) ∉ segments [0x05, 0xFE, 0xFE, 0xFD, 0x01, 0x61, 0xFE, 0xFD] := by decide
-- two adjacent delimiters delimit an empty segment; a trailing delimiter, one at the end
example : segments [0xFE, 0xFD, 0xFE, 0xFD] = [⟨[], 0, 0⟩, ⟨[], 2, 2⟩, ⟨[], 4, 4⟩] := by decide
example : joinStuff [[0x05, 0xFE], [0x01, 0x61], []] = [0x05, 0xFE, 0xFE, 0xFD, 0x01, 0x61, 0xFE, 0xFD] := by decide

end Woodpile.Props.C08S

/-
C09, structural half, with the arena in-capacity invariant DISCHARGED (track `glue`).

`Props/C09W.enc_lag_le_partial` bounds the lag of the encoder-driven iovec by a constant only under the
hypothesis `hcap : s.off + s.len ≤ S` ("the slice holding the pending size header ends within `S` bytes
of its chunk").  Here that hypothesis is proved, for every run: every step of an encoder run (each
emit, each lent caller buffer, each drain) preserves `WorldInv` and `ArenaInv` (C05; the steps are
`WOp` steps, `Proofs/EncGlue.good_closed`), the capacity ghost of `ArenaInv` is at most 2^20 on every
chunk the encoder's arena allocates because every request is at most `max maxInit maxSub ≤ 64008 < 2^20`
(`once_small`, `findHintSize_le_prod` from the extracted production tuning), and `ArenaInv.inCap` puts
every owned slice inside its chunk's capacity (`Proofs/EncGlue.enc_slices_in_cap`).

Still partial (`_partial`): input methods borrow / copy only (the anchored method is outside the proved
iovec vocabulary, see `Props/C01W.lean`).  Nothing else is assumed: any valid parameters, any policy
constants, the production arena tuning, any calls, any drain schedule.
-/
import Woodpile.Props.C09W
import Woodpile.Proofs.EncGlue

namespace Woodpile.Props.C09G
open Woodpile.Hcobs Woodpile.Iovec Woodpile.Arena Woodpile.EncWorld

/-- Between calls of an encoder run on the production arena tuning: the world satisfies the C05
invariants (`WorldInv`, `ArenaInv`), and every owned slice of the encoder's iovec ends within 2^20
bytes of the start of its chunk. -/
theorem enc_slices_in_cap_partial (p : Params) (hp : p.Valid) (pol : Policy) (calls : List Call) (r : Run)
    (h : encPrefix p pol prodTuning calls = some r) :
    (WorldInv r.w ∧ ∃ caps, ArenaInv r.w caps) ∧
    ∀ v, r.w.iov 0 = some v → ∀ s ∈ v.slices, ∀ c, s.region = .chunk c → s.off + s.len ≤ 1048576 :=
  enc_slices_in_cap p hp pol calls r h

/-- The lag bound of C09 on the structural iovec, unconditionally: after `Encoder::new` and any calls
(any segmentation, borrow / copy per piece, any interleaved `consume` / `advance_slices`), on the
production arena tuning, `total_size − |stable prefix| < 2^20 + max(maxInit, maxSub)`. -/
theorem enc_lag_le_partial (p : Params) (hp : p.Valid) (pol : Policy) (calls : List Call) :
    ∃ r v, encPrefix p pol prodTuning calls = some r ∧ r.w.iov 0 = some v ∧
      v.totalSize - (r.w.visible v).length < 1048576 + max p.maxInit p.maxSub := by
  obtain ⟨r, v, s, c, h1, h2, h3, h4, _, h6⟩ := C09W.enc_lag_le_partial p hp pol prodTuning calls 1048576
  exact ⟨r, v, h1, h2, h6 ((enc_slices_in_cap p hp pol calls r h1).2 v h2 s h3 c h4)⟩

/-- … with the production parameters: the property's `2^20 + 64008 + 2`. -/
theorem enc_lag_le_prod_partial (pol : Policy) (calls : List Call) :
    ∃ r v, encPrefix C02.prod pol prodTuning calls = some r ∧ r.w.iov 0 = some v ∧
      v.totalSize - (r.w.visible v).length < 1048576 + 64008 + 2 := by
  obtain ⟨r, v, h1, h2, h3⟩ := enc_lag_le_partial C02.prod C02.prod_params_valid pol calls
  have hm : max C02.prod.maxInit C02.prod.maxSub = 64008 := by decide
  exact ⟨r, v, h1, h2, by omega⟩

/-! ### Non-vacuity (test parameters ⟨3, 5, 253⟩, production tuning) -/

/-- (lag, slices of the iovec, the arena's cache) between calls -/
def obs (pol : Policy) (calls : List Call) : Option (Nat × List Slice × Option Cache) :=
  (encPrefix ⟨3, 5, 253⟩ pol prodTuning calls).bind fun r => (r.w.iov 0).map fun v =>
    (v.totalSize - (r.w.visible v).length, v.slices, v.arena.cache)

-- the first chunk the production arena hands out has 4096 bytes; "1234" copied behind the header
-- placeholder gives one 7-byte slice at its bottom; the lag is 7
example : obs ⟨64, 256⟩ [.feed .borrow [0x31, 0x32, 0x33, 0x34]] =
    some (7, [⟨.chunk 0, 0, 7⟩], some ⟨0, 4096, 7⟩) := by decide +kernel
-- the bound is about capacities, not sizes in use: a request that does not fit the current chunk
-- makes the arena move to the next size of the sequence
example : findHintSize prodTuning 64008 4096 = 65536 := by decide
example : findHintSize prodTuning 64008 1048576 = 1048576 := by decide

end Woodpile.Props.C09G

/-
C15 — SlidingDeque behaves like a double-ended queue with a contiguous view.

Property theorems only (helper lemmas: `Woodpile/Proofs/SlidingDeque.lean`).
The model is `Woodpile.SlidingDeque` (`Woodpile/Model/SlidingDeque.lean`):
`SDeque = {consumed, container : List α}`, one function per public method of
`sliding_deque::SlidingDeque`, in the `Option` monad where `none` is a panic — a
failed `check_rep` debug assertion (evaluated exactly where the Rust code
evaluates it) or a failed slice bounds check.  `step`/`run` execute one operation /
an operation sequence, `stepRef`/`runRef` do the same on the reference deque, a
plain `List` (push at the end, pop at either end, `drop`, `set`).

Everything is for every element type, every element value and every operation
sequence of any length.  Vec-backed and SmallVec-backed deques are the same model:
they differ only below the `PushTruncateContainer` interface (`push`, `pop`,
`truncate`, `slice`), which is std / smallvec code (trusted; exercised by the
correspondence run on both containers).
-/
import Woodpile.Proofs.SlidingDeque
import Woodpile.Proofs.ZDeque

namespace Woodpile.Props.C15
open Woodpile.SlidingDeque

variable {α : Type}

/-- The invariant `Inv` is literally the space bound plus the clean-empty-state rule … -/
theorem inv_iff (s : SDeque α) :
    Inv s ↔ s.consumed ≤ s.container.length / 2 ∧ (s.view = [] → s.consumed = 0) :=
  ⟨fun h => ⟨h.half, h.clean⟩, fun h => ⟨h.1, h.2⟩⟩

/-- … and is exactly what the Rust `check_rep` asserts (so "`check_rep` passes" and
"`Inv` holds" are interchangeable below). -/
theorem checkRep_iff_inv (s : SDeque α) : s.checkRep = true ↔ Inv s :=
  SDeque.checkRep_iff s

/-- The states a caller can start from satisfy the invariant: `new()` (which itself
does not panic) and `From<Container>` for any container contents. -/
theorem rep_inv_init :
    (SDeque.new : Option (SDeque α)) = some SDeque.empty ∧ Inv (SDeque.empty : SDeque α) ∧
    ∀ l : List α, Inv (SDeque.ofList l) ∧ (SDeque.ofList l).view = l :=
  ⟨SDeque.new_eq, SDeque.inv_empty, fun l => ⟨SDeque.inv_ofList l, SDeque.view_ofList l⟩⟩

/-- **Refinement, one operation.**  From any state satisfying the invariant, every
operation (push_back, front, back, pop_front, pop_back, advance, clear, slide and the
in-place writes through `front_mut`, `back_mut` and the slice view) returns exactly
what the reference `List` deque returns on the view `container.drop consumed`, and the
new view is the reference's new contents. -/
theorem refines_list (s : SDeque α) (h : Inv s) (op : Op α) :
    ∃ s', step s op = some ((stepRef s.view op).1, s') ∧ s'.view = (stepRef s.view op).2 := by
  obtain ⟨s', h1, h2, _⟩ := step_spec h op
  exact ⟨s', h1, h2⟩

/-- **The representation invariant is preserved** by every public operation: after it,
the consumed prefix is at most half of the backing container's length, and an empty
deque has no consumed prefix. -/
theorem rep_inv (s : SDeque α) (h : Inv s) (op : Op α) (r : Ret α) (s' : SDeque α)
    (hstep : step s op = some (r, s')) :
    s'.consumed ≤ s'.container.length / 2 ∧ (s'.view = [] → s'.consumed = 0) := by
  obtain ⟨s'', h1, _, h3⟩ := step_spec h op
  rw [h1] at hstep
  cases hstep
  exact ⟨h3.half, h3.clean⟩

/-- **No panic, one operation**: no `check_rep` evaluated inside the operation fails and
no slice index is out of bounds. -/
theorem no_panic (s : SDeque α) (h : Inv s) (op : Op α) : (step s op).isSome = true := by
  obtain ⟨s', h1, _⟩ := step_spec h op
  simp [h1]

/-- **All operation sequences.**  Starting from `new()` or from `From<Container>` with any
contents `l`, for every list of operations: the run does not panic (every `check_rep`
along the way evaluated to true), the list of returned values equals the reference
deque's, the final view equals the reference's final contents, and the final state
satisfies the space bound.  Since every prefix of an operation sequence is an operation
sequence, this is "after every operation". -/
theorem run_refines_list (l : List α) (ops : List (Op α)) :
    ∃ s', run (SDeque.ofList l) ops = some ((runRef l ops).1, s') ∧
      s'.view = (runRef l ops).2 ∧
      s'.consumed ≤ s'.container.length / 2 ∧ (s'.view = [] → s'.consumed = 0) := by
  obtain ⟨s', h1, h2, h3⟩ := run_spec (SDeque.inv_ofList l) ops
  rw [SDeque.view_ofList] at h1 h2
  exact ⟨s', h1, h2, h3.half, h3.clean⟩

/-- The same from `new()` (`ofList []` is the state `new()` returns). -/
theorem run_from_new (ops : List (Op α)) :
    ∃ s', run (SDeque.empty : SDeque α) ops = some ((runRef [] ops).1, s') ∧
      s'.view = (runRef [] ops).2 ∧ s'.consumed ≤ s'.container.length / 2 :=  by
  obtain ⟨s', h1, h2, h3, _⟩ := run_refines_list ([] : List α) ops
  exact ⟨s', h1, h2, h3⟩

/-- `run` is the operation-by-operation execution: appending one more operation to a
sequence executes it in the state the sequence reached (so the statement above really
speaks about the state after each operation of a longer sequence). -/
theorem run_snoc (s : SDeque α) (ops : List (Op α)) (op : Op α) :
    run s (ops ++ [op]) =
      match run s ops with
      | none => none
      | some (rs, s') =>
        match step s' op with
        | none => none
        | some (r, s'') => some (rs ++ [r], s'') := by
  induction ops generalizing s with
  | nil =>
    simp only [List.nil_append, run]
    cases step s op with
    | none => rfl
    | some p => rfl
  | cons o ops ih =>
    simp only [List.cons_append, run]
    cases step s o with
    | none => rfl
    | some p =>
      obtain ⟨r, s1⟩ := p
      simp only [ih s1]
      cases run s1 ops with
      | none => rfl
      | some q =>
        obtain ⟨rs, s2⟩ := q
        simp only
        cases step s2 op with
        | none => rfl
        | some p2 => rfl

/-- **The slice view the caller actually reads** (claim-audit, C15 table): `view` above is
the total function `container.drop consumed`; what the Rust `Deref` impl - and the model
driver, and the harness - evaluates is the bounds-checked `&container[consumed..]`
(`SDeque.deref`, `none` = the slice index panics).  Under the invariant they coincide, so
every statement about `view` is a statement about the `Deref` slice and `len()`. -/
theorem deref_is_view (s : SDeque α) (h : Inv s) :
    s.deref = some s.view ∧ s.view.length = s.container.length - s.consumed :=
  ⟨h.deref, by simp [SDeque.view]⟩

/-- … in particular after every operation sequence from `new()` / `From<Container>`: the
`Deref` slice (and hence `len()`, `is_empty()`, indexing) does not panic and is exactly the
reference deque's contents. -/
theorem run_deref_refines_list (l : List α) (ops : List (Op α)) :
    ∃ s', run (SDeque.ofList l) ops = some ((runRef l ops).1, s') ∧
      s'.deref = some (runRef l ops).2 := by
  obtain ⟨s', h1, h2, h3⟩ := run_spec (SDeque.inv_ofList l) ops
  rw [SDeque.view_ofList] at h1 h2
  exact ⟨s', h1, by rw [h3.deref, h2]⟩

/-- The reference's returned values are produced operation by operation: the results of
the first `k` operations of a sequence are the first `k` results of the whole sequence. -/
theorem runRef_take (l : List α) (ops : List (Op α)) (k : Nat) :
    (runRef l (ops.take k)).1 = (runRef l ops).1.take k := by
  induction ops generalizing l k with
  | nil => simp [runRef]
  | cons o ops ih =>
    cases k with
    | zero => simp [runRef]
    | succ k =>
      simp only [List.take_succ_cons, runRef]
      rw [ih]

/-- **After every operation**, with the prefix explicit (the property's "after every
operation" rather than "at the end of every sequence"): for every sequence `ops` and every
`k`, the state reached after the first `k` operations exists (no panic so far), the values
returned so far are the first `k` values the reference returns over the WHOLE sequence,
the checked `Deref` slice is the reference's contents at that point, and the space bound
holds there. -/
theorem after_every_operation (l : List α) (ops : List (Op α)) (k : Nat) :
    ∃ s', run (SDeque.ofList l) (ops.take k) = some ((runRef l ops).1.take k, s') ∧
      s'.deref = some (runRef l (ops.take k)).2 ∧
      s'.consumed ≤ s'.container.length / 2 := by
  obtain ⟨s', h1, h2, h3⟩ := run_spec (SDeque.inv_ofList l) (ops.take k)
  rw [SDeque.view_ofList] at h1 h2
  exact ⟨s', by rw [h1, runRef_take], by rw [h3.deref, h2], h3.half⟩

end Woodpile.Props.C15

namespace Woodpile.Props.C15
open Woodpile.SlidingDeque

/-! Non-vacuity. -/

-- The invariant is not trivially true, and `check_rep` does reject: this is the state the
-- pre-repair `pop_back` left behind in finding F2 (2 consumed of 3).
example : (⟨2, [1, 2, 3]⟩ : SDeque Nat).checkRep = false := by decide
example : ¬ Inv (⟨2, [1, 2, 3]⟩ : SDeque Nat) := by
  intro h; have := h.half; simp at this
-- ... and operations do panic (`none`) from states that violate it.
example : step (⟨2, [1, 2, 3]⟩ : SDeque Nat) .popFront = none := by decide
-- F2's history on the repaired code: push x4, advance 2 (consumed = 2 of 4, no slide),
-- pop_back slides; the writes and reads see what a list deque sees.
example :
    run (SDeque.empty : SDeque Nat)
      [.pushBack 1, .pushBack 2, .pushBack 3, .pushBack 4, .advance 2, .setFront 9, .popBack, .front] =
    some ([.unit, .unit, .unit, .unit, .count 2, .wrote true, .item (some 4), .item (some 9)], ⟨0, [9]⟩) := by
  decide
-- a state with a non-empty consumed prefix is reached (the bound is tight: 2 of 4)
example :
    run (SDeque.empty : SDeque Nat) [.pushBack 1, .pushBack 2, .pushBack 3, .pushBack 4, .advance 2] =
    some ([.unit, .unit, .unit, .unit, .count 2], ⟨2, [1, 2, 3, 4]⟩) := by decide
example :
    runRef ([] : List Nat)
      [.pushBack 1, .pushBack 2, .pushBack 3, .pushBack 4, .advance 2, .setFront 9, .popBack, .front] =
    ([.unit, .unit, .unit, .unit, .count 2, .wrote true, .item (some 4), .item (some 9)], [9]) := by
  decide

end Woodpile.Props.C15

/-! ### Zero-sized items: the length-only model replayed by the driver

For `SlidingDeque<Vec<()>>` the correspondence run uses container lengths up to
`usize::MAX`, so the driver cannot materialise the list model.  It replays the ops on
`ZDeque = (consumed, container length)` (`Woodpile/Model/ZDeque.lean`), which the next two
theorems tie to the list model: `ZDeque` *is* the list model at item type `Unit`, seen
through `length` (and a list of `Unit`s is its length), so everything above transfers. -/
namespace Woodpile.Props.C15
open Woodpile.SlidingDeque

/-- **The length-only model is the image of the list model under `length`**, operation by
operation: from any state `s` of the list model at item type `Unit` (no invariant assumed),
`zstep` on `(s.consumed, s.container.length)` panics iff `step` does, returns the same value
(items reduced to "was there one") and reaches the image of the state `step` reaches. -/
theorem zdeque_step_is_length_image (s : SDeque Unit) (op : ZOp) :
    zstep s.abs op = (step s op.toOp).map (fun p => (p.1.toZ, p.2.abs)) :=
  zstep_abs s op

/-- The same for operation sequences, from `From<Vec<()>>` of any length. -/
theorem zdeque_run_is_length_image (n : Nat) (ops : List ZOp) :
    zrun (ZDeque.ofLen n) ops =
      (run (SDeque.ofList (List.replicate n ())) (ops.map ZOp.toOp)).map
        (fun p => (p.1.map Ret.toZ, p.2.abs)) := by
  have h := zrun_abs (SDeque.ofList (List.replicate n ())) ops
  rwa [SDeque.abs_ofList, List.length_replicate] at h

/-- **Transfer**: what `run_refines_list` says about the list model holds for the
length-only model the driver replays.  From a vector of `n` units, for every operation
sequence: no panic, the returned values are the reference deque's, the logical length is
the reference's, and the consumed prefix is at most half of the container's length. -/
theorem zdeque_run_spec (n : Nat) (ops : List ZOp) :
    ∃ z', zrun (ZDeque.ofLen n) ops =
        some ((runRef (List.replicate n ()) (ops.map ZOp.toOp)).1.map Ret.toZ, z') ∧
      z'.len - z'.consumed = (runRef (List.replicate n ()) (ops.map ZOp.toOp)).2.length ∧
      z'.consumed ≤ z'.len / 2 := by
  obtain ⟨s', h1, h2, h3, _⟩ := run_refines_list (List.replicate n ()) (ops.map ZOp.toOp)
  refine ⟨s'.abs, ?_, ?_, h3⟩
  · rw [zdeque_run_is_length_image, h1]; rfl
  · rw [← h2, SDeque.view_length]; rfl

-- non-vacuity: 2^63 of 2^64 - 1 units consumed in one go slides (the C15-2 scenario) ...
example :
    zrun (ZDeque.ofLen 18446744073709551615) [.advance 9223372036854775808, .popFront, .pushBack] =
      some ([.count 9223372036854775808, .has true, .unit], ⟨1, 9223372036854775808⟩) := by decide
-- ... one less does not (the bound is tight) ...
example :
    zrun (ZDeque.ofLen 18446744073709551615) [.advance 9223372036854775807] =
      some ([.count 9223372036854775807], ⟨9223372036854775807, 18446744073709551615⟩) := by decide
-- ... and the length-only model does reject states that violate the bound.
example : zstep ⟨2, 3⟩ .popFront = none := by decide

end Woodpile.Props.C15

/-
C15T — the standard-trait methods of `SlidingDeque` (track traits): `Clone::clone`,
`Clone::clone_from`, `Default::default`, moves (`mem::swap`, `mem::take`) between several
object instances, mixed with the single-object operations of C15.

Model: `Woodpile/Model/DequeTraits.lean` (`SDeque.clone`, `SDeque.cloneFrom`, `SDeque.default`,
`MOp` / `mstep` over a current deque and a list of further deques; `Cmd` / `crun` = histories
mixing `Op`s on the current deque with `MOp`s).  The model drivers execute `mstep` for the
handle ops of the `sdeque` family; the harness runs the real `clone` / `clone_from` / `default` /
`mem::take` on a Vec-backed and a SmallVec-backed deque and compares every object with its own
reference `VecDeque` after every such op.
-/
import Woodpile.Proofs.DequeTraits

set_option linter.unusedSimpArgs false

namespace Woodpile.Props.C15T
open Woodpile.SlidingDeque Woodpile.DequeTraits

variable {α : Type}

/-- **`clone_from` is assignment.**  Whatever state the destination is in - a consumed prefix
left behind by earlier `pop_front` / `advance` calls, a spilled backing store, a state that
does not even satisfy the representation invariant - afterwards it IS the source: same
consumed prefix, same container. -/
theorem clone_from_is_assign (dst src : SDeque α) : dst.cloneFrom src = src := rfl

/-- … in particular nothing of the destination survives. -/
theorem clone_from_forgets_destination (dst dst' src : SDeque α) :
    dst.cloneFrom src = dst'.cloneFrom src := rfl

/-- `clone` is a copy of the representation. -/
theorem clone_is_copy (s : SDeque α) : s.clone = s := rfl

/-- `Default::default()` is the state `new()` returns: empty view, invariant holds. -/
theorem default_is_new :
    (SDeque.default : SDeque α) = SDeque.empty ∧ (SDeque.default : SDeque α).view = [] ∧
      Inv (SDeque.default : SDeque α) :=
  ⟨rfl, by simp [SDeque.default, SDeque.view], SDeque.inv_empty⟩

/-- After `dst.clone_from(&src)` every operation sequence on the destination returns what the
reference `List` deque returns from the SOURCE's contents, without panic, for any destination. -/
theorem clone_from_run_refines_list (dst src : SDeque α) (h : Inv src) (ops : List (Op α)) :
    ∃ s', run (dst.cloneFrom src) ops = some ((runRef src.view ops).1, s') ∧
      s'.view = (runRef src.view ops).2 ∧ Inv s' :=
  run_spec h ops

/-- **One handle operation** (`new`, `default`, `store` = `objs[k] = cur.clone()`, `load`,
`swap`, `clone_from`, `clone_into`, `take`): with every object satisfying the invariant, it finds
a handle iff the reference over plain `List`s does, never panics, the object it wrote has the
view the reference shows, every object's view is the reference's, and every object satisfies the
invariant again (so the space bound holds for clones and `clone_from` destinations too). -/
theorem multi_step_refines (m : Multi (SDeque α)) (hm : MInv Inv m) (op : MOp) :
    match mstep (refTraits (List α) []) (m.abs SDeque.view) op with
    | .nohandle => mstep (sdequeTraits α) m op = .nohandle
    | .panic => False
    | .ok r mr => ∃ d m', mstep (sdequeTraits α) m op = .ok d m' ∧ d.view = r ∧
        m'.abs SDeque.view = mr ∧ MInv Inv m' := by
  have h := mstep_refines (sdeque_refines α) m hm op
  cases hr : mstep (refTraits (List α) []) (m.abs SDeque.view) op <;> simp only [hr] at h ⊢ <;> exact h

/-- the single-object step of C15 in the form `crun` takes -/
def stepR (l : List α) (o : Op α) : Option (Ret α × List α) := some (stepRef l o)

/-- **All mixed histories.**  From any objects satisfying the invariant (in particular from
fresh ones), for every list of single-object operations on the current deque interleaved with
handle operations: no panic, every answer (return values; views of the objects written) and
the final view of EVERY object are those of independent reference `List` deques on which
`clone` copies, `clone_from` assigns and `default` / `take` leave the empty deque. -/
theorem multi_run_refines (m : Multi (SDeque α)) (hm : MInv Inv m) (cs : List (Cmd (Op α))) :
    ∃ os mr, crun (refTraits (List α) []) stepR (m.abs SDeque.view) cs = some (os, mr) ∧
      ∃ os' m', crun (sdequeTraits α) step m cs = some (os', m') ∧ os'.map (Out.map SDeque.view) = os ∧
        m'.abs SDeque.view = mr ∧ MInv Inv m' := by
  have hs : StepRefines SDeque.view Inv (fun _ => True) (step (α := α)) stepR := by
    intro s hI o _
    obtain ⟨s', h1, h2, h3⟩ := step_spec hI o
    exact ⟨s', h1, h2, h3⟩
  have h := crun_refines (sdeque_refines α) hs m hm cs (fun c _ => by cases c <;> trivial)
  have hne : ∀ (mr : Multi (List α)) (cs : List (Cmd (Op α))),
      (crun (refTraits (List α) []) stepR mr cs).isSome = true := by
    intro mr cs
    induction cs generalizing mr with
    | nil => rfl
    | cons c cs ih =>
      cases c with
      | op o =>
        simp only [crun, cstep, stepR]
        have := ih ⟨(stepRef mr.cur o).2, mr.objs⟩
        cases hr : crun (refTraits (List α) []) stepR ⟨(stepRef mr.cur o).2, mr.objs⟩ cs with
        | none => rw [hr] at this; cases this
        | some q => simp [hr]
      | m o =>
        simp only [crun, cstep]
        cases hm' : mstep (refTraits (List α) []) mr o with
        | nohandle =>
          have := ih mr
          cases hr : crun (refTraits (List α) []) stepR mr cs with
          | none => rw [hr] at this; cases this
          | some q => simp [hr]
        | panic =>
          exfalso
          cases o <;> simp only [mstep, refTraits] at hm' <;> (try split at hm') <;> (try split at hm') <;> cases hm'
        | ok d m2 =>
          have := ih m2
          cases hr : crun (refTraits (List α) []) stepR m2 cs with
          | none => rw [hr] at this; cases this
          | some q => simp [hr]
  cases hr : crun (refTraits (List α) []) stepR (m.abs SDeque.view) cs with
  | none => have := hne (m.abs SDeque.view) cs; rw [hr] at this; cases this
  | some p =>
    obtain ⟨os, mr⟩ := p
    rw [hr] at h
    exact ⟨os, mr, rfl, h⟩

/-! Non-vacuity: the seeded `clone_from` (copies the source's live elements, keeps the
destination's consumed prefix) is NOT this model - on the history below the model's destination
shows all four elements of the source. -/
example :
    crun (sdequeTraits Nat) step ⟨SDeque.empty, []⟩
      [.op (.pushBack 1), .op (.pushBack 2), .op (.pushBack 3), .op (.pushBack 4), .m (.store 0),
       .op (.pushBack 5), .op (.pushBack 6), .op .popFront, .m (.cloneFrom 0), .op .front] =
    some ([.ret .unit, .ret .unit, .ret .unit, .ret .unit, .shown ⟨0, [1, 2, 3, 4]⟩,
           .ret .unit, .ret .unit, .ret (.item (some 1)), .shown ⟨0, [1, 2, 3, 4]⟩, .ret (.item (some 1))],
          ⟨⟨0, [1, 2, 3, 4]⟩, [⟨0, [1, 2, 3, 4]⟩]⟩) := by decide

end Woodpile.Props.C15T

/-
C01 — HCOBS round trip (implementation-refinement half; also the split/method
independence used by C02 and the canonicity / totality used by C07).

Property theorems only; the lemmas live in `Woodpile/Proofs/HcobsEnc.lean`,
`HcobsDec.lean`, `HcobsSpec.lean` and `PipeLemmas.lean`.  Models:
`Woodpile.Hcobs.Enc` (= `EncoderState::{new, consume_once, encode_borrow,
encode_copy, terminate}`), `Woodpile.Hcobs.Dec` (= `DecoderState` and the four
per-state `decode` functions), `Woodpile.Hcobs.Spec` (the batch definition of
the wire format).  All statements quantify over every byte string, every
segmentation into pieces (`pieces : List (Method × List UInt8)`, empty pieces
included) and every choice of input method per piece, for every `Params`
satisfying `Params.Valid` (the production constants are an instance).
-/
import Woodpile.Proofs.HcobsEnc
import Woodpile.Proofs.HcobsDec

namespace Woodpile.Props.C01
open Woodpile.Pipe Woodpile.Hcobs

/-- The incremental encoder computes the batch encoder: whatever the segmentation and the
methods, the bytes in the output pipe after `terminate` are `Spec.encode` of the concatenated
input, and no placeholder is left pending (`flatten()` is `Ok`). -/
theorem enc_impl_refines_spec (p : Params) (hp : p.Valid) (pieces : List (Method × List UInt8)) :
    (Enc.output p pieces).bytes = Spec.encode p (pieces.map (·.2)).flatten ∧
    (Enc.output p pieces).pending = false := by
  obtain ⟨n, h⟩ := EncProof.output_eq p hp pieces
  rw [h]
  exact ⟨by simp [Pipe.bytes], by simp only [Pipe.pending, any_hole_map_byte]⟩

/-- The encoder's output is a function of the concatenated input only. -/
theorem enc_split_independent (p : Params) (hp : p.Valid) (pieces pieces' : List (Method × List UInt8))
    (h : (pieces.map (·.2)).flatten = (pieces'.map (·.2)).flatten) :
    (Enc.output p pieces).bytes = (Enc.output p pieces').bytes := by
  rw [(enc_impl_refines_spec p hp pieces).1, (enc_impl_refines_spec p hp pieces').1, h]

/-- The incremental decoder computes the batch decoder: it succeeds with `d` exactly when
`Spec.decode` of the concatenated input is `some d`, and fails exactly when it is `none`. -/
theorem dec_impl_refines_spec (p : Params) (_hp : p.Valid) (pieces : List (Method × List UInt8)) :
    (∀ d, Spec.decode p (pieces.map (·.2)).flatten = some d ↔ Dec.output p pieces = .ok d) ∧
    (Spec.decode p (pieces.map (·.2)).flatten = none ↔ ∃ e, Dec.output p pieces = .error e) := by
  have h := DecProof.decode_agrees p (pieces.map (·.2)).flatten
  rw [← DecProof.output_eq_decRun] at h
  unfold DecProof.Agrees at h
  cases hd : Spec.decode p (pieces.map (·.2)).flatten with
  | none =>
    rw [hd] at h
    obtain ⟨e, he⟩ := h
    refine ⟨fun d => ?_, ?_⟩
    · constructor
      · intro h'; cases h'
      · intro h'; rw [he] at h'; cases h'
    · constructor
      · intro _; exact ⟨e, he⟩
      · intro _; rfl
  | some out =>
    rw [hd] at h
    simp only at h
    refine ⟨fun d => ?_, ?_⟩
    · constructor
      · intro h'; cases h'; exact h
      · intro h'; rw [h] at h'; cases h'; rfl
    · constructor
      · intro h'; cases h'
      · intro ⟨e, he⟩; rw [h] at he; cases he

/-- The decoder's verdict — success, bytes, or the error variant with its payload — is a
function of the concatenated input only: it is `decRun`, the byte-at-a-time reference run. -/
theorem dec_error_split_independent (p : Params) (pieces pieces' : List (Method × List UInt8))
    (h : (pieces.map (·.2)).flatten = (pieces'.map (·.2)).flatten) :
    Dec.output p pieces = Dec.output p pieces' := by
  rw [DecProof.output_eq_decRun, DecProof.output_eq_decRun, h]

/-- Which verdict for which input: for any segmentation and methods the decoder returns what
the error-reporting batch decoder `DecProof.decodeE` returns on the concatenated input — chunk
by chunk: `InvalidInitialSizeHeader(b)` iff the first byte exceeds `max_initial_size`;
`InvalidHeaderByte(false, b)` / `(true, c)` for the first 2-byte header with a digit `≥ radix`
(first digit checked first, also when the second byte is missing); `InvalidSubsequentSizeHeader(n)`
for the first in-radix header above `max_subsequent_size`; `CutShort` when the input is empty or
ends inside a header or a body; `MissingImplicitTerminator` when it ends after a full-size chunk. -/
theorem dec_error_classified (p : Params) (pieces : List (Method × List UInt8)) :
    Dec.output p pieces = DecProof.decodeE p (pieces.map (·.2)).flatten := by
  rw [DecProof.output_eq_decRun, DecProof.decRun_eq_decodeE]

/-- No panic site of the decoder is reachable: in every state the decoder can be in (any
pieces, any methods, any input whatsoever), every `NonZeroU32::new(..).unwrap()`, the
`assert_eq!` of `InChunk::update` and the caller's `&input[consumed..]` are passed, and each
`once` call consumes at least one byte. -/
theorem dec_total (p : Params) (hp : p.Valid) (s : DecState) (hs : DecProof.Reachable p s)
    (m : Method) (b : UInt8) (rest : List UInt8) : DecProof.OnceNoPanic p m s b rest :=
  DecProof.once_noPanic p hp m s b rest (DecProof.reachable_wf32 p hp hs)

/-- … and the states `decode_borrow`/`decode_copy` hand back to the caller are reachable ones. -/
theorem dec_feed_reachable (p : Params) (m : Method) (s : DecState) (input : List UInt8)
    (hs : DecProof.Reachable p s) {s' : DecState} {es : List Emit}
    (h : Dec.feedAll p m s input = .ok (s', es)) : DecProof.Reachable p s' :=
  DecProof.feed_reachable p m _ s input hs h

/-- Between `consume_once` calls the encoder satisfies
`current_chunk_size + maybe_mid_stuff < max_chunk_size` (`EncProof.Reachable` = `EncoderState::new`
on an empty iovec followed by any `consume_once` calls on non-empty inputs, by either method). -/
theorem enc_inv_between_calls (p : Params) (hp : p.Valid) {s : EncState} {nid : Nat} {q : Pipe}
    (h : EncProof.Reachable p s nid q) : s.cur + (if s.mid then 1 else 0) < s.maxChunk := by
  obtain ⟨_, _, _, _, _, _, _, hinv, _⟩ := EncProof.reachable_shape p hp h
  exact hinv

/-- None of the encoder's `assert!`s can fire: in every reachable state and for every non-empty
input, all assertions on the path `consume_once` takes hold (entry, the `cur < max` checks, `write`
/`copy`/`write_partial_stuff_sequence`'s `cur ≤ max`, the non-empty window, `encode_header`'s
`chunk_size < RADIX²`, `1 ≤ len ≤ 2`, `header[len] == 0`, `backfill_or_panic`'s placeholder being
present with exactly that length, the exit assert, and the callers' `consumed ≤ input.len()` and
progress asserts); see `EncProof.OnceAsserts`. -/
theorem enc_asserts_unreachable (p : Params) (hp : p.Valid) {s : EncState} {nid : Nat} {q : Pipe}
    (h : EncProof.Reachable p s nid q) (m : Method) (input : List UInt8) (hne : input ≠ []) :
    EncProof.OnceAsserts p s nid m q input :=
  EncProof.once_asserts p hp h m input hne

/-- … and the same for `terminate` (see `EncProof.FinishAsserts`). -/
theorem enc_finish_asserts_unreachable (p : Params) (hp : p.Valid) {s : EncState} {nid : Nat} {q : Pipe}
    (h : EncProof.Reachable p s nid q) : EncProof.FinishAsserts p s q :=
  EncProof.finish_asserts p hp h

/-- The states `encode_borrow`/`encode_copy` hand back are reachable ones (so the two theorems
above apply to every call of every run). -/
theorem enc_feed_reachable (p : Params) (m : Method) (s : EncState) (nid : Nat) (q : Pipe)
    (input : List UInt8) (h : EncProof.Reachable p s nid q) :
    EncProof.Reachable p (Enc.feedAll p s nid m input).1 (Enc.feedAll p s nid m input).2.1
      (q.run ((Enc.feedAll p s nid m input).2.2.map (·.op))) :=
  EncProof.feed_reachable p m _ s nid q input h

/-- Draining the encoder's output while the stream is in flight changes nothing: interleave any
drain schedule with the ops of any run (`evs`); what was drained followed by what `terminate` leaves
buffered is `Spec.encode` of the input, nothing is pending, and at every earlier moment the
drained-plus-stable bytes are a prefix of it. -/
theorem enc_refines_spec_drained (p : Params) (hp : p.Valid) (pieces : List (Method × List UInt8))
    (evs : List Ev) (hev : prodOps evs = (Enc.runPieces p pieces).map (·.op)) :
    (runEv Pipe.empty evs).consumed ++ (runEv Pipe.empty evs).bytes = Spec.encode p (pieces.map (·.2)).flatten ∧
    (runEv Pipe.empty evs).pending = false ∧
    ∀ evs1 evs2, evs = evs1 ++ evs2 →
      (runEv Pipe.empty evs1).consumed ++ (runEv Pipe.empty evs1).stable
        <+: Spec.encode p (pieces.map (·.2)).flatten := by
  obtain ⟨h1, h2⟩ := enc_impl_refines_spec p hp pieces
  have hc := Woodpile.Pipe.drain_complete Pipe.empty evs
  rw [total_empty, hev] at hc
  refine ⟨by rw [hc.1]; exact h1, by rw [hc.2]; exact h2, ?_⟩
  intro evs1 evs2 he
  have hp' := Woodpile.Pipe.drain_prefix Pipe.empty evs1 evs2
  rw [total_empty, ← he, hev] at hp'
  rw [← h1]; exact hp'

/-- The same on the decoding side: with any drain schedule interleaved into a successful run, the
drained bytes followed by the buffered ones are the decoded message. -/
theorem dec_refines_spec_drained (p : Params) (pieces : List (Method × List UInt8)) (es : List Emit)
    (hrun : Dec.runPieces p pieces .initial [] = .ok es)
    (evs : List Ev) (hev : prodOps evs = es.map (·.op)) :
    Spec.decode p (pieces.map (·.2)).flatten
      = some ((runEv Pipe.empty evs).consumed ++ (runEv Pipe.empty evs).bytes) := by
  have hc := (Woodpile.Pipe.drain_complete Pipe.empty evs).1
  rw [total_empty, hev] at hc
  have hout : Dec.output p pieces = .ok (Pipe.run Pipe.empty (es.map (·.op))).bytes := by
    simp only [Dec.output, hrun]
  have h := DecProof.decode_agrees p (pieces.map (·.2)).flatten
  rw [← DecProof.output_eq_decRun, hout] at h
  unfold DecProof.Agrees at h
  cases hd : Spec.decode p (pieces.map (·.2)).flatten with
  | none => rw [hd] at h; obtain ⟨e, he⟩ := h; cases he
  | some out => rw [hd] at h; simp only at h; cases h; rw [hc]

/-- C01 given the spec-level round trip. -/
theorem roundtrip_given_spec (p : Params) (hp : p.Valid)
    (hrt : ∀ d, Spec.decode p (Spec.encode p d) = some d)
    (pieces : List (Method × List UInt8)) (wire : List (Method × List UInt8))
    (hw : (wire.map (·.2)).flatten = (Enc.output p pieces).bytes) :
    Dec.output p wire = .ok (pieces.map (·.2)).flatten := by
  rw [← (dec_impl_refines_spec p hp wire).1, hw, (enc_impl_refines_spec p hp pieces).1]
  exact hrt _

/-- C01: encode in any pieces by any methods, cut the produced bytes into any pieces, decode
by any methods: the original byte string comes back. -/
theorem roundtrip (p : Params) (hp : p.Valid)
    (pieces : List (Method × List UInt8)) (wire : List (Method × List UInt8))
    (hw : (wire.map (·.2)).flatten = (Enc.output p pieces).bytes) :
    Dec.output p wire = .ok (pieces.map (·.2)).flatten :=
  roundtrip_given_spec p hp (Spec.decode_encode p hp) pieces wire hw

end Woodpile.Props.C01

namespace Woodpile.Props.C01
open Woodpile.Pipe Woodpile.Hcobs

/-! Non-vacuity: the crate's test parameters ⟨3, 5⟩ (radix 253) and test vectors. -/

private def tp : Params := ⟨3, 5, 253⟩

example : tp.Valid := by decide
-- production parameters
example : (⟨252, 64008, 253⟩ : Params).Valid := by decide

-- "1234\xFE\xFE\xFD" split between FE and FD, borrow then copy
example : (Enc.output tp [(.borrow, [0x31, 0x32, 0x33, 0x34, 0xFE, 0xFE]), (.copy, [0xFD])]).bytes
    = [3, 0x31, 0x32, 0x33, 2, 0, 0x34, 0xFE, 0, 0] := by decide
-- the same bytes in one piece
example : (Enc.output tp [(.copy, [0x31, 0x32, 0x33, 0x34, 0xFE, 0xFE, 0xFD])]).bytes
    = [3, 0x31, 0x32, 0x33, 2, 0, 0x34, 0xFE, 0, 0] := by decide
-- "12\xFE\xFD": the FE is the last byte of a full first chunk
example : (Enc.output tp [(.copy, [0x31, 0x32, 0xFE]), (.borrow, []), (.borrow, [0xFD])]).bytes
    = [3, 0x31, 0x32, 0xFE, 1, 0, 0xFD] := by decide
-- the drained variant's hypothesis is satisfiable: drain 2 bytes right after the first piece
example : prodOps ([.prod (.register 1), .prod (.append [0x31]), .prod (.fill 0 [1]), .drain 2] : List Ev)
    = (Enc.runPieces tp [(.copy, [0x31])]).map (·.op) := by decide
-- decoding that wire image, split inside the 2-byte header and inside the body
example : Dec.output tp [(.copy, [3, 0x31, 0x32, 0x33, 2]), (.borrow, [0, 0x34]), (.copy, [0xFE, 0, 0])]
    = .ok [0x31, 0x32, 0x33, 0x34, 0xFE, 0xFE, 0xFD] := by rfl
-- malformed inputs: every error variant
example : Dec.output tp [(.copy, [4])] = .error (.invalidInitialSizeHeader 4) := by rfl
example : Dec.output tp [(.copy, [0]), (.copy, [0xFD])] = .error (.invalidHeaderByte false 0xFD) := by rfl
example : Dec.output tp [(.copy, [0, 1]), (.copy, [0xFE])] = .error (.invalidHeaderByte true 0xFE) := by rfl
example : Dec.output tp [(.copy, [0, 6, 0])] = .error (.invalidSubsequentSizeHeader 6) := by rfl
example : Dec.output tp [(.copy, [2, 0x31])] = .error .cutShort := by rfl
example : Dec.output tp [(.copy, [3, 0x31, 0x32, 0x33])] = .error .missingImplicitTerminator := by rfl
example : Spec.decode tp [3, 0x31, 0x32, 0x33] = none := by decide
example : DecProof.decodeE tp [0, 6, 0] = .error (.invalidSubsequentSizeHeader 6) := by rfl
example : DecProof.decodeE tp [0, 0xFD] = .error (.invalidHeaderByte false 0xFD) := by rfl
-- the reachable-state hypothesis of `dec_total` is met by a mid-chunk state
example : DecProof.Reachable tp (.inChunk 2 true) :=
  DecProof.Reachable.step (m := .copy) (b := 2) (rest := []) (o := ⟨.inChunk 2 true, 1, []⟩)
    DecProof.Reachable.init (by rfl)

end Woodpile.Props.C01

/-
C06, unconditional: discharges the hypothesis `SplitIndep prod` of the theorems in
`Props/C06.lean` from the decoder refinement theorem of C01 (the incremental
decoder accepts exactly what `Spec.decode` accepts, with the same result, for every
segmentation), and restates the headline theorems without it and with the
specification's per-segment decoder rewritten to the batch `Spec.decode`.
-/
import Woodpile.Props.C06
import Woodpile.Props.C01

namespace Woodpile.Props.C06U
open Woodpile.Hcobs Woodpile.Stream Woodpile.ReadN Woodpile.Arena Woodpile.Props.C06

/-- `Dec.output` = `Spec.decode` in the form `Props/C06` asks for. -/
theorem hdec_prod (hp : Woodpile.Stream.prod.Valid) :
    ∀ pieces d, Dec.output Woodpile.Stream.prod pieces = .ok d ↔
      Spec.decode Woodpile.Stream.prod (pieces.map (·.2)).flatten = some d :=
  fun pieces d => ((Woodpile.Props.C01.dec_impl_refines_spec Woodpile.Stream.prod hp pieces).1 d).symm

/-- The production parameters (re-extracted from /repo on every run) are valid. -/
theorem prod_valid : Woodpile.Stream.prod.Valid := by decide

/-- The hypothesis of every theorem in `Props/C06.lean` holds. -/
theorem split_indep_prod : SplitIndep Woodpile.Stream.prod :=
  Woodpile.Props.C06.splitIndep_of_spec _ (hdec_prod prod_valid)

/-- The specification's per-segment decoder is the batch decoder of the wire format. -/
theorem decodePieces_is_spec (seg : List UInt8) :
    decodePieces Woodpile.Stream.prod [seg] = Spec.decode Woodpile.Stream.prod seg :=
  Woodpile.Props.C06.decodePieces_eq_spec _ (hdec_prod prod_valid) seg

/-- `reader_keepgoing`, unconditional. -/
theorem reader_keepgoing (clamp : Nat) (hclamp : 2 ≤ clamp) (t : Tuning)
    (block : Option Nat) (r : Reader) (hwb : WellBehaved r) (n : Nat) :
    (nextSeq clamp t Woodpile.Stream.prod keepGoingJudge block n RdState.new r).1 =
      expectedSeq (recordsAll Woodpile.Stream.prod (segments r.src)) n :=
  Woodpile.Props.C06.reader_keepgoing split_indep_prod clamp hclamp t block r hwb n

/-- `reader_std_judge`, unconditional. -/
theorem reader_std_judge (clamp : Nat) (hclamp : 2 ≤ clamp) (t : Tuning)
    (block : Option Nat) (maxSize : Nat) (limit : Option Nat) (r : Reader) (hwb : WellBehaved r) (n : Nat) :
    (nextSeq clamp t Woodpile.Stream.prod (chunkJudge maxSize limit) block n RdState.new r).1 =
      expectedSeq (recordsStd Woodpile.Stream.prod maxSize limit (segments r.src)) n :=
  Woodpile.Props.C06.reader_std_judge split_indep_prod clamp hclamp t block maxSize limit r hwb n

end Woodpile.Props.C06U

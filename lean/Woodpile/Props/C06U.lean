/-
C06, unconditional: discharges the hypothesis `SplitIndep prod` of the theorems in
`Props/C06.lean` from the decoder refinement theorem of C01 (the incremental
decoder accepts exactly what `Spec.decode` accepts, with the same result, for every
segmentation), and restates the headline theorems without it and with the
specification's per-segment decoder rewritten to the batch `Spec.decode`.
-/
import Woodpile.Props.C06
import Woodpile.Props.C01
import Woodpile.Proofs.StreamSegments

namespace Woodpile.Props.C06U
open Woodpile.Hcobs Woodpile.Stream Woodpile.ReadN Woodpile.Arena Woodpile.Props.C06

/-- `Dec.output` = `Spec.decode` in the form `Props/C06` asks for. -/
theorem hdec_prod (hp : Woodpile.Stream.prod.Valid) :
    ∀ pieces d, Dec.output Woodpile.Stream.prod pieces = .ok d ↔
      Spec.decode Woodpile.Stream.prod (pieces.map (·.2)).flatten = some d :=
  fun pieces d => ((Woodpile.Props.C01.dec_impl_refines_spec Woodpile.Stream.prod hp pieces).1 d).symm

/-- The production parameters (re-extracted from /repo on every run) are valid. -/
theorem prod_valid : Woodpile.Stream.prod.Valid := by decide

/-- The hypothesis of every theorem in `Props/C06.lean` holds. -/
theorem split_indep_prod : SplitIndep Woodpile.Stream.prod :=
  Woodpile.Props.C06.splitIndep_of_spec _ (hdec_prod prod_valid)

/-- The specification's per-segment decoder is the batch decoder of the wire format. -/
theorem decodePieces_is_spec (seg : List UInt8) :
    decodePieces Woodpile.Stream.prod [seg] = Spec.decode Woodpile.Stream.prod seg :=
  Woodpile.Props.C06.decodePieces_eq_spec _ (hdec_prod prod_valid) seg

/-- `reader_keepgoing`, unconditional. -/
theorem reader_keepgoing (clamp : Nat) (hclamp : 2 ≤ clamp) (t : Tuning)
    (block : Option Nat) (r : Reader) (hwb : WellBehaved r) (n : Nat) :
    (nextSeq clamp t Woodpile.Stream.prod keepGoingJudge block n RdState.new r).1 =
      expectedSeq (recordsAll Woodpile.Stream.prod (segments r.src)) n :=
  Woodpile.Props.C06.reader_keepgoing split_indep_prod clamp hclamp t block r hwb n

/-- `reader_std_judge`, unconditional. -/
theorem reader_std_judge (clamp : Nat) (hclamp : 2 ≤ clamp) (t : Tuning)
    (block : Option Nat) (maxSize : Nat) (limit : Option Nat) (r : Reader) (hwb : WellBehaved r) (n : Nat) :
    (nextSeq clamp t Woodpile.Stream.prod (chunkJudge maxSize limit) block n RdState.new r).1 =
      expectedSeq (recordsStd Woodpile.Stream.prod maxSize limit (segments r.src)) n :=
  Woodpile.Props.C06.reader_std_judge split_indep_prod clamp hclamp t block maxSize limit r hwb n

/-! ### "without panicking" includes the embedded decoder -/

/-- **The reader never trips a panic site of the decoder.**  `nextP` is `next_record_bytes`
with the embedded decoder replaced by its panic-aware version (`Dec.feedAllP`: every
`assert!`, `unwrap`, slice index and overflow-checked operation of `decoder.rs` is a `panic`
outcome that makes the call return `NextRes.panic`); it is the function the model driver
runs.  It equals `next` from every reader state, for every stream, read script, judge and
block size — so every C06 theorem about `next` / `nextSeq` (in particular "never
`NextRes.panic`") is a theorem about it. -/
theorem reader_never_trips_decoder (clamp : Nat) (t : Tuning) (judge : Judge) (block : Option Nat)
    (s : RdState) (r : Reader) :
    nextP clamp t Woodpile.Stream.prod judge block s r = next clamp t Woodpile.Stream.prod judge block s r :=
  nextP_eq clamp t _ prod_valid judge block s r

/-- The reason: every decoder state the reader feeds is a reachable decoder state
(`DecProof.Reachable`, the hypothesis of `C01.dec_total` / `C07P.dec_call_never_panics`).
Each turn of the `'retry` loop starts from `Decoder::new_from_iovec` (`Rec.fresh`), and one
iteration of the inner loop takes a reachable state to a reachable state. -/
theorem reader_feeds_reachable_states (clamp : Nat) (t : Tuning) (p : Params) (judge : Judge) (block : Nat)
    (s : RdState) (r : Reader) (rc : Rec) (h : DecProof.Reachable p rc.dec) :
    DecProof.Reachable p Rec.fresh.dec ∧
    match step clamp t p judge block s r rc with
    | .continue _ _ rc' => DecProof.Reachable p rc'.dec
    | .done _ _ _ => True := by
  refine ⟨DecProof.Reachable.init, ?_⟩
  have := step_reach clamp t p judge block s r rc h
  cases hs : step clamp t p judge block s r rc with
  | done res s' r' => trivial
  | «continue» s' r' rc' => rw [hs] at this; exact this

/-! ### one `io_block_size` per call -/

/-- `io_block_size` is an argument of `next_record_bytes`, so it may differ from call to call
(`nextSeqBP`: the panic-aware reader, one block size per call).  The results do not depend on
it: always-KeepGoing judge. -/
theorem reader_keepgoing_blocks (clamp : Nat) (hclamp : 2 ≤ clamp) (t : Tuning)
    (blocks : List (Option Nat)) (r : Reader) (hwb : WellBehaved r) :
    (nextSeqBP clamp t Woodpile.Stream.prod keepGoingJudge blocks RdState.new r).1 =
      expectedSeq (recordsAll Woodpile.Stream.prod (segments r.src)) blocks.length := by
  rw [nextSeqBP_eq clamp t _ prod_valid, keepGoingJudge_eq]
  exact nextSeqB_spec _ none (fun _ => false) clamp hclamp t split_indep_prod (fun _ _ _ h => h) rfl
    blocks RdState.new r hwb

/-- … and the standard judge. -/
theorem reader_std_judge_blocks (clamp : Nat) (hclamp : 2 ≤ clamp) (t : Tuning)
    (blocks : List (Option Nat)) (maxSize : Nat) (limit : Option Nat) (r : Reader) (hwb : WellBehaved r) :
    (nextSeqBP clamp t Woodpile.Stream.prod (chunkJudge maxSize limit) blocks RdState.new r).1 =
      expectedSeq (recordsStd Woodpile.Stream.prod maxSize limit (segments r.src)) blocks.length := by
  rw [nextSeqBP_eq clamp t _ prod_valid, chunkJudge_eq]
  exact nextSeqB_spec _ limit (fun n => decide (maxSize < n)) clamp hclamp t split_indep_prod
    (fun a b hab h => by simp at h ⊢; omega) (by simp) blocks RdState.new r hwb

/-- The one-block-size-per-run sequences of `Props/C06.lean` are the constant lists. -/
theorem blocks_constant (clamp : Nat) (t : Tuning) (judge : Judge) (block : Option Nat) (n : Nat)
    (s : RdState) (r : Reader) :
    nextSeqBP clamp t Woodpile.Stream.prod judge (List.replicate n block) s r =
      nextSeq clamp t Woodpile.Stream.prod judge block n s r := by
  rw [nextSeqBP_eq clamp t _ prod_valid, nextSeqB_replicate]

/-! What `segments` is: `Props/C08S.lean` (sound, complete, tiling, unique = maximal). -/

/-! ### Resynchronisation, phrased with the encoder -/

/-- **A valid record delimited by stuff sequences or by the stream's start / end is returned
intact no matter what surrounds it** — standard judge.  `Spec.encode prod d` is what an
`Encoder` produces for `d` (C01/C07).  Wherever it sits in the stream (`Placed`: between two
delimiters `a FE FD · FE FD b`, at the start `· FE FD b`, at the end `a FE FD ·`, or alone;
`a`, `b` arbitrary bytes: torn writes, corruption, more delimiters), if `|d| ≤ max` and the
record starts before the limit offset, one of the first `|segments|` calls returns exactly
`(d, start .. start + |encoding|)`, for any read schedule and any block size per call. -/
theorem resync_std (clamp : Nat) (hclamp : 2 ≤ clamp) (t : Tuning) (blocks : List (Option Nat))
    (maxSize : Nat) (limit : Option Nat) (d : List UInt8) (start : Nat) (r : Reader) (hwb : WellBehaved r)
    (hpl : Placed (Spec.encode Woodpile.Stream.prod d) r.src start) (hd : d.length ≤ maxSize)
    (hlim : atLimit limit start = false) (hn : (segments r.src).length ≤ blocks.length) :
    NextRes.some d start (start + (Spec.encode Woodpile.Stream.prod d).length) ∈
      (nextSeqBP clamp t Woodpile.Stream.prod (chunkJudge maxSize limit) blocks RdState.new r).1 := by
  rw [nextSeqBP_eq clamp t _ prod_valid, chunkJudge_eq]
  exact resync_thresh _ limit (fun n => decide (maxSize < n)) clamp hclamp t split_indep_prod
    (fun a b hab h => by simp at h ⊢; omega) (by simp) blocks r hwb _ d start hpl
    (Spec.findStuff_encode _ prod_valid d) (Spec.encode_ne_nil _ prod_valid d)
    (by rw [decodePieces_is_spec]; exact Spec.decode_encode _ prod_valid d)
    (by simp; omega) hlim hn

/-- The same for the always-KeepGoing judge (no size or offset condition). -/
theorem resync_keepgoing (clamp : Nat) (hclamp : 2 ≤ clamp) (t : Tuning) (blocks : List (Option Nat))
    (d : List UInt8) (start : Nat) (r : Reader) (hwb : WellBehaved r)
    (hpl : Placed (Spec.encode Woodpile.Stream.prod d) r.src start)
    (hn : (segments r.src).length ≤ blocks.length) :
    NextRes.some d start (start + (Spec.encode Woodpile.Stream.prod d).length) ∈
      (nextSeqBP clamp t Woodpile.Stream.prod keepGoingJudge blocks RdState.new r).1 := by
  rw [nextSeqBP_eq clamp t _ prod_valid, keepGoingJudge_eq]
  exact resync_thresh _ none (fun _ => false) clamp hclamp t split_indep_prod
    (fun _ _ _ h => h) rfl blocks r hwb _ d start hpl
    (Spec.findStuff_encode _ prod_valid d) (Spec.encode_ne_nil _ prod_valid d)
    (by rw [decodePieces_is_spec]; exact Spec.decode_encode _ prod_valid d) rfl rfl hn

/-- The three shapes spelled out (the fourth, the record alone, is `Placed.alone`). -/
theorem placed_shapes (seg a b : List UInt8) :
    Placed seg (a ++ FE :: FD :: (seg ++ FE :: FD :: b)) (a.length + 2) ∧
    Placed seg (seg ++ FE :: FD :: b) 0 ∧
    Placed seg (a ++ FE :: FD :: seg) (a.length + 2) :=
  ⟨.middle a b rfl rfl, .atStart b rfl rfl, .atEnd a rfl rfl⟩

end Woodpile.Props.C06U

namespace Woodpile.Props.C06U
open Woodpile.Hcobs Woodpile.Stream Woodpile.ReadN Woodpile.Arena Woodpile.Props.C06

/-! Non-vacuity. -/

-- "a" encoded (`01 61`) after garbage that itself ends in a lone FE, before a torn record
example : Placed (Spec.encode Woodpile.Stream.prod [0x61])
    ([0x05, 0xFE] ++ FE :: FD :: (Spec.encode Woodpile.Stream.prod [0x61] ++ FE :: FD :: [0x09, 0x01])) 4 :=
  .middle _ _ rfl rfl
example : (nextSeqBP 2 C06.tun Woodpile.Stream.prod (chunkJudge 4 none) [some 0, none, some 7, some 1] RdState.new
    ⟨[0x05, 0xFE, 0xFE, 0xFD, 0x01, 0x61, 0xFE, 0xFD, 0x09, 0x01], List.replicate 12 (.deliver 3)⟩).1 =
    [.some [0x61] 4 6, .none, .none, .none] := by decide +kernel

end Woodpile.Props.C06U

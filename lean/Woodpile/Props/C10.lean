/-
C10 — Arena memory is reclaimed: no leak after drop, bounded footprint in streaming.

Property theorems only (helper lemmas: `Woodpile/Proofs/IovecOwn.lean`,
`Woodpile/Proofs/IovecFootprint.lean`).  Model: `Woodpile.Iovec` (see C05).

First sentence of the property.  In the model a chunk is live iff it was allocated and
some holder references it (`live_iff_held`) — liveness is DERIVED from the holders, so
"no leak after everything is dropped" is immediate (`drop_all_releases`); the real
content is the correspondence of the derived live set with the real allocator's registry
(hook H1) after every operation and at the end of every harness history (which ends by
dropping every object in random order), and the process-wide counters' leak oracle.
The theorems that carry weight on the model side are the ones that say holders go away
when they should: anchors leave the anchor deque as soon as the slices they count are
consumed (`consumed_anchors_released`, `front_anchor_counts`).

PARTIAL BY NATURE: a leak below the model (`Arc`/`Box::leak`/`from_raw` internals) is
visible only to the counters, i.e. to the correspondence run, not to these theorems.
-/
import Woodpile.Proofs.IovecFootprint

namespace Woodpile.Props.C10
open Woodpile.Iovec Woodpile.Arena

/-- Derived liveness, spelled out: a chunk is live iff it has been allocated and an arena's cache,
an anchor of some iovec's anchor deque, or a detached slice's anchor references it. -/
theorem live_iff_held {w : World} {k : Nat} :
    k ∈ w.liveChunks ↔ k < w.next ∧
      ((∃ i v, w.iov i = some v ∧ (k ∈ arenaChunks v.arena ∨ k ∈ anchorChunks v.anchors)) ∨
       (∃ j a, w.arena j = some a ∧ k ∈ arenaChunks a) ∨
       (∃ j s, w.aslice j = some s ∧ s.anchor.chunk = some k)) :=
  mem_liveChunks

/-- Once every iovec (including clones and taken ones), every detached arena and every anchored
slice has been dropped — in any order, after any history — no chunk is live. -/
theorem drop_all_releases {w : World} (h1 : ∀ i, w.iov i = none) (h2 : ∀ j, w.arena j = none)
    (h3 : ∀ j, w.aslice j = none) : w.liveChunks = [] :=
  liveChunks_nil_of_no_objects h1 h2 h3

/-- The same for the explicit "drop everything" function (`World.dropAll`). -/
theorem dropAll_releases (w : World) : w.dropAll.liveChunks = [] := dropAll_liveChunks w

/-- `consume`: in any iovec of any reachable world, consuming `k` slices leaves as anchor deque a
SUFFIX of the old one (anchors leave only from the front; the ones that left counted at most the
`k` consumed slices), whose front anchor still counts an unconsumed slice — so an anchor all of
whose slices are consumed is gone as soon as it reaches the front, and a zero-count anchor pushed
by `push_anchor` is dropped as soon as everything before it is consumed; when every slice is
consumed, no anchor is left (the iovec holds no chunk except through its arena's cache). -/
theorem consumed_anchors_released {w : World} (hr : Reachable w) {i : Nat} {v v' : Iov} {count k : Nat}
    (hv : w.iov i = some v) (h : v.consumeSlices count = some (v', k)) :
    (∃ gone : List Anchor, countSum gone ≤ k ∧
      v.anchors.map (·.chunk) = gone.map (·.chunk) ++ v'.anchors.map (·.chunk)) ∧
    HeadPos v'.anchors ∧ (k = v.slices.length → v'.anchors = [] ∧ v'.slices = []) :=
  consumeSlices_anchors (hr.inv.iovOk i v hv) h

/-- In every reachable world the front anchor of every iovec counts at least one unconsumed
slice (consumed-out and zero-count anchors never linger at the front), and an iovec with no
slices has no anchors. -/
theorem front_anchor_counts {w : World} (hr : Reachable w) {i : Nat} {v : Iov} (hv : w.iov i = some v) :
    HeadPos v.anchors ∧ (v.slices = [] → v.anchors = []) := by
  have hok := hr.inv.iovOk i v hv
  exact ⟨hok.headPos, fun hs => anchors_nil_of_no_slices (hs ▸ hok.guard) hok.headPos⟩

/-! ### Second sentence of the property: the streaming footprint

The streaming pattern (`Streaming tun P B w`, `Woodpile/Proofs/IovecFootprint.lean`): ONE iovec, fed only
through `push_copy` (≤ `P` bytes per call), `register_patch` (≤ `P` bytes, only when no placeholder is
pending — at most one pending placeholder) and `backfill`, with at most `B` bytes pushed while a
placeholder is pending (the HCOBS encoder: `P = maxSub`, `B = maxSub + 2`, a chunk body plus the next
header), and the consumer draining the whole stable prefix (`consume(n)`, `n ≥ #slices`) after EVERY
producer call; any number of calls, any amount of data.  Foreign `AnchoredSlice`s / borrowed pushes are
bounded by what the caller lends and are excluded (stated). -/

/-- `findHintSize_le`: with the production tuning constants (re-extracted from the Rust sources on every
run), a request of fewer than 2^20 bytes makes the arena allocate a chunk of at most 2^20 bytes (and
never one smaller than 4096 bytes), whatever the previous chunk's capacity. -/
theorem findHintSize_le (len prevCap : Nat) (h : len < 1048576) :
    max (findHintSize prodTuning len prevCap) len ≤ 1048576 ∧
    4096 ≤ max (findHintSize prodTuning len prevCap) len :=
  ⟨Woodpile.Iovec.findHintSize_le len prevCap h, findHintSize_ge len prevCap⟩

/-- `streaming_footprint`: for every tuning whose chunks (for requests ≤ `P`) have capacities in
`[m₀, S]`, at EVERY quiescent point of the streaming pattern the set of live chunks is covered by a
list `L` of at most `K = 2·B/m₀ + 2` chunks, each recorded with the capacity (≤ `S`) its allocation
cache had, the last one being the current cache: live chunks ≤ K and live bytes ≤ K·S, independent of
the amount of data streamed.  (With no placeholder pending, `L` has at most ONE element: everything
but the cache's chunk has been released.)

Proof idea (the qualitative half): every live chunk other than the current cache is held by an anchor
of the anchor deque, i.e. by the unconsumed slices behind the pending placeholder (`C05.slice_guarded`,
`consumed_anchors_released`); quantitative half: a chunk allocated while the placeholder is pending
is abandoned only when the next push does not fit, so two consecutive such chunks hold more than `m₀`
of the ≤ `B` bytes pushed since the placeholder was registered. -/
theorem streaming_footprint {tun : Tuning} {P B m₀ S : Nat} {w : World} (hb : TuningBounds tun P m₀ S) (hm : 0 < m₀)
    (h : Streaming tun P B w) :
    ∃ L : List (Nat × Nat), L.length ≤ 2 * B / m₀ + 2 ∧ (∀ k ∈ w.liveChunks, k ∈ L.map (·.1)) ∧
      (∀ p ∈ L, p.2 ≤ S) ∧
      (∀ v c, w.iov 0 = some v → v.arena.cache = some c → L.getLast? = some (c.chunk, c.cap)) :=
  h.footprint hb hm

/-- The production instance: pushes of fewer than 2^20 bytes, at most `B` bytes behind a pending
placeholder: at most `2·B/4096 + 2` live chunks of at most 1 MiB each — for the HCOBS encoder
(`B = 64010`) at most 33 chunks, i.e. live arena bytes ≤ 33 MiB however much data is streamed.
(The constant is not tight: in the steady state the 1 MiB chunks hold far more than 4096 bytes each
and 3 chunks suffice; the proof charges every chunk only the minimum capacity.) -/
theorem streaming_footprint_prod {P B : Nat} {w : World} (hP : P < 1048576) (h : Streaming prodTuning P B w) :
    ∃ L : List (Nat × Nat), L.length ≤ 2 * B / 4096 + 2 ∧ (∀ k ∈ w.liveChunks, k ∈ L.map (·.1)) ∧
      (∀ p ∈ L, p.2 ≤ 1048576) ∧
      (∀ v c, w.iov 0 = some v → v.arena.cache = some c → L.getLast? = some (c.chunk, c.cap)) :=
  h.footprint (prodTuning_bounds P hP) (by decide)

end Woodpile.Props.C10

namespace Woodpile.Props.C10
open Woodpile.Iovec Woodpile.Arena

/-! Non-vacuity. -/

private def pol : Policy := ⟨64, 256⟩
private def tun : Tuning := ⟨[4096, 8192], 4096⟩

-- Two iovecs, a clone, a taken arena, a detached anchored slice: chunks live while held …
example : ((World.init pol tun).run [.new, .pushCopy 0 [1, 2, 3], .clone 0, .takeArena 0,
    .readNArena 0 4 3 [9, 9, 9, 9] [.deliver 4]]).map (·.liveChunks) = some [0] := by decide
-- … and nothing is live once every object is dropped (here in an order that drops the arena first).
example : ((World.init pol tun).run [.new, .pushCopy 0 [1, 2, 3], .clone 0, .takeArena 0,
    .readNArena 0 4 3 [9, 9, 9, 9] [.deliver 4], .dropArena 0, .drop 0, .sDrop 0, .drop 1]).map
    (fun w => (w.liveChunks, (w.iov 0).isNone, (w.iov 1).isNone, (w.arena 0).isNone, (w.aslice 0).isNone)) =
    some ([], true, true, true, true) := by decide
-- A zero-count anchor (anchored slice pushed as a borrowed slice) leaves with the slice it follows.
example : ((World.init pol tun).run [.new, .newArena,
    .readNArena 0 100 3 (List.replicate 100 7) [.deliver 100], .dropArena 0,
    .pushASlice 0 0]).map (fun w => ((w.iov 0).map (·.anchors), w.liveChunks)) =
    some (some [⟨1, none⟩, ⟨0, some 0⟩], [0]) := by decide
example : ((World.init pol tun).run [.new, .newArena,
    .readNArena 0 100 3 (List.replicate 100 7) [.deliver 100], .dropArena 0,
    .pushASlice 0 0, .consume 0 1]).map (fun w => ((w.iov 0).map (·.anchors), w.liveChunks)) =
    some (some [], []) := by decide

-- the encoder's constant: 33 chunks
example : 2 * (Woodpile.Gen.maxSub + 2) / 4096 + 2 = 33 := by decide

-- A streaming run: register a 2-byte placeholder, drain (nothing consumable), push 3 bytes behind it,
-- drain (5 bytes buffered, nothing consumable), backfill, drain (everything consumed; only the cache's
-- chunk stays live).
private def w0 : World := ((World.init ⟨64, 256⟩ tun).addIov Iov.empty).1
private def after (w : World) (op : WOp) : World := (w.step op).getD w
private def drained (w : World) : World := ((w.consume 0 9).map (·.1)).getD w
private def drainedK (w : World) : Nat := ((w.consume 0 9).map (·.2)).getD 0
private def wA : World := drained (after w0 (.register 0 [0, 0]))
private def wB : World := drained (after wA (.pushCopy 0 [7, 7, 7]))
private def wC : World := drained (after wB (.backfill 0 0 [1, 2]))

example : Streaming tun 8 10 wC ∧ (wB.iov 0).map (·.totalSize) = some 5 ∧
    (wC.iov 0).map (·.totalSize) = some 0 ∧ wC.liveChunks = [0] := by
  have s0 : Streaming tun 8 10 w0 := Streaming.start _
  have sA : Streaming tun 8 10 wA :=
    Streaming.call (op := .register 0 [0, 0]) (n := 9) (k := drainedK (after w0 (.register 0 [0, 0]))) s0
      ⟨rfl, by decide, by intro v hv; simp [w0, World.init, World.addIov, World.iov] at hv; subst hv; rfl⟩
      (w1 := after w0 (.register 0 [0, 0])) rfl (by decide) rfl
  have sB : Streaming tun 8 10 wB :=
    Streaming.call (op := .pushCopy 0 [7, 7, 7]) (n := 9) (k := drainedK (after wA (.pushCopy 0 [7, 7, 7]))) sA
      ⟨rfl, by decide, by
        intro v key info hv hb
        have e : wA.iov 0 = some ((wA.iov 0).getD Iov.empty) := rfl
        rw [e] at hv; cases hv
        have hb' : ((wA.iov 0).getD Iov.empty).backrefs = [(2, ⟨0, 0, 2⟩)] := by decide
        rw [hb'] at hb; cases hb; decide⟩
      (w1 := after wA (.pushCopy 0 [7, 7, 7])) rfl (by decide) rfl
  have sC : Streaming tun 8 10 wC :=
    Streaming.call (op := .backfill 0 0 [1, 2]) (n := 9) (k := drainedK (after wB (.backfill 0 0 [1, 2]))) sB
      rfl (w1 := after wB (.backfill 0 0 [1, 2])) rfl (by decide) rfl
  exact ⟨sC, by decide, by decide, by decide⟩

end Woodpile.Props.C10

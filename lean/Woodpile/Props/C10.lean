/-
C10 — Arena memory is reclaimed: no leak after drop, bounded footprint in streaming.

Property theorems only (helper lemmas: `Woodpile/Proofs/IovecOwn.lean`,
`Woodpile/Proofs/IovecFootprint.lean`).  Model: `Woodpile.Iovec` (see C05).

First sentence of the property.  In the model a chunk is live iff it was allocated and
some holder references it (`live_iff_held`) — liveness is DERIVED from the holders, so
"no leak after everything is dropped" is immediate (`drop_all_releases`); the real
content is the correspondence of the derived live set with the real allocator's registry
(hook H1) after every operation and at the end of every harness history (which ends by
dropping every object in random order), and the process-wide counters' leak oracle.
The theorems that carry weight on the model side are the ones that say holders go away
when they should: anchors leave the anchor deque as soon as the slices they count are
consumed (`consumed_anchors_released`, `front_anchor_counts`).

PARTIAL BY NATURE: a leak below the model (`Arc`/`Box::leak`/`from_raw` internals) is
visible only to the counters, i.e. to the correspondence run, not to these theorems.
-/
import Woodpile.Proofs.IovecOwn

namespace Woodpile.Props.C10
open Woodpile.Iovec Woodpile.Arena

/-- Derived liveness, spelled out: a chunk is live iff it has been allocated and an arena's cache,
an anchor of some iovec's anchor deque, or a detached slice's anchor references it. -/
theorem live_iff_held {w : World} {k : Nat} :
    k ∈ w.liveChunks ↔ k < w.next ∧
      ((∃ i v, w.iov i = some v ∧ (k ∈ arenaChunks v.arena ∨ k ∈ anchorChunks v.anchors)) ∨
       (∃ j a, w.arena j = some a ∧ k ∈ arenaChunks a) ∨
       (∃ j s, w.aslice j = some s ∧ s.anchor.chunk = some k)) :=
  mem_liveChunks

/-- Once every iovec (including clones and taken ones), every detached arena and every anchored
slice has been dropped — in any order, after any history — no chunk is live. -/
theorem drop_all_releases {w : World} (h1 : ∀ i, w.iov i = none) (h2 : ∀ j, w.arena j = none)
    (h3 : ∀ j, w.aslice j = none) : w.liveChunks = [] :=
  liveChunks_nil_of_no_objects h1 h2 h3

/-- The same for the explicit "drop everything" function (`World.dropAll`). -/
theorem dropAll_releases (w : World) : w.dropAll.liveChunks = [] := dropAll_liveChunks w

/-- `consume`: in any iovec of any reachable world, consuming `k` slices leaves as anchor deque a
SUFFIX of the old one (anchors leave only from the front; the ones that left counted at most the
`k` consumed slices), whose front anchor still counts an unconsumed slice — so an anchor all of
whose slices are consumed is gone as soon as it reaches the front, and a zero-count anchor pushed
by `push_anchor` is dropped as soon as everything before it is consumed; when every slice is
consumed, no anchor is left (the iovec holds no chunk except through its arena's cache). -/
theorem consumed_anchors_released {w : World} (hr : Reachable w) {i : Nat} {v v' : Iov} {count k : Nat}
    (hv : w.iov i = some v) (h : v.consumeSlices count = some (v', k)) :
    (∃ gone : List Anchor, countSum gone ≤ k ∧
      v.anchors.map (·.chunk) = gone.map (·.chunk) ++ v'.anchors.map (·.chunk)) ∧
    HeadPos v'.anchors ∧ (k = v.slices.length → v'.anchors = [] ∧ v'.slices = []) :=
  consumeSlices_anchors (hr.inv.iovOk i v hv) h

/-- In every reachable world the front anchor of every iovec counts at least one unconsumed
slice (consumed-out and zero-count anchors never linger at the front), and an iovec with no
slices has no anchors. -/
theorem front_anchor_counts {w : World} (hr : Reachable w) {i : Nat} {v : Iov} (hv : w.iov i = some v) :
    HeadPos v.anchors ∧ (v.slices = [] → v.anchors = []) := by
  have hok := hr.inv.iovOk i v hv
  exact ⟨hok.headPos, fun hs => anchors_nil_of_no_slices (hs ▸ hok.guard) hok.headPos⟩

end Woodpile.Props.C10

namespace Woodpile.Props.C10
open Woodpile.Iovec Woodpile.Arena

/-! Non-vacuity. -/

private def pol : Policy := ⟨64, 256⟩
private def tun : Tuning := ⟨[4096, 8192], 4096⟩

-- Two iovecs, a clone, a taken arena, a detached anchored slice: chunks live while held …
example : ((World.init pol tun).run [.new, .pushCopy 0 [1, 2, 3], .clone 0, .takeArena 0,
    .readNArena 0 4 3 [9, 9, 9, 9] [.deliver 4]]).map (·.liveChunks) = some [0] := by decide
-- … and nothing is live once every object is dropped (here in an order that drops the arena first).
example : ((World.init pol tun).run [.new, .pushCopy 0 [1, 2, 3], .clone 0, .takeArena 0,
    .readNArena 0 4 3 [9, 9, 9, 9] [.deliver 4], .dropArena 0, .drop 0, .sDrop 0, .drop 1]).map
    (fun w => (w.liveChunks, (w.iov 0).isNone, (w.iov 1).isNone, (w.arena 0).isNone, (w.aslice 0).isNone)) =
    some ([], true, true, true, true) := by decide
-- A zero-count anchor (anchored slice pushed as a borrowed slice) leaves with the slice it follows.
example : ((World.init pol tun).run [.new, .newArena,
    .readNArena 0 100 3 (List.replicate 100 7) [.deliver 100], .dropArena 0,
    .pushASlice 0 0]).map (fun w => ((w.iov 0).map (·.anchors), w.liveChunks)) =
    some (some [⟨1, none⟩, ⟨0, some 0⟩], [0]) := by decide
example : ((World.init pol tun).run [.new, .newArena,
    .readNArena 0 100 3 (List.replicate 100 7) [.deliver 100], .dropArena 0,
    .pushASlice 0 0, .consume 0 1]).map (fun w => ((w.iov 0).map (·.anchors), w.liveChunks)) =
    some (some [], []) := by decide

end Woodpile.Props.C10

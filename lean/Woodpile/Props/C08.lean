/-
C08 — StreamChunker tiles the input stream exactly, sentinels never hidden in data.

Property theorems only (helper lemmas: `Woodpile/Proofs/Stream.lean`,
`Woodpile/Proofs/StreamBytes.lean`).  The model is `Woodpile.Stream.pump`
(`StreamChunker::pump`, arm by arm, on top of the `read_n` model of C17);
`pumpSeq clamp t blocks c m r` is one `pump` call per element of `blocks`, each
with its own `io_block_size`.

Quantifiers, identical in every theorem below:
* `r : Reader` — any source bytes (the stream is `r.src`) and any *well-behaved*
  script (`WellBehaved r`): an arbitrary interleaving of short reads of any size
  ≥ 1 and `Interrupted` failures, with end-of-file only at the real end of the
  stream.  (A hard I/O error in the middle of a stream is outside the property:
  DESIGN.md observation O1.)
* `blocks : List Nat` — any number of successive `pump` calls with any block
  sizes, 0 and 1 included, not necessarily the same for every call;
* `t : Tuning`, `m : Mem` — any arena state (and `arena_irrelevant`: it has no
  influence on what is returned);
* `clamp ≥ 2` — the minimum block size `pump` clamps to.  The code's value is
  `Woodpile.Gen.minBlock`, re-extracted from the source on every run
  (`clamp_in_code`).  With the old clamp of 1 the property is false
  (`example` at the end: finding F1).

`chunks` is the list of chunks the calls returned (`pumps_succeed_and_tile` shows
that every call does return a chunk).
-/
import Woodpile.Proofs.Stream

namespace Woodpile.Props.C08
open Woodpile.Stream Woodpile.ReadN Woodpile.Hcobs Woodpile.Arena

/-- The block-size clamp of the code as it is now satisfies the side condition
of every theorem below. -/
theorem clamp_in_code : 2 ≤ Woodpile.Gen.minBlock := by decide

/-- **Invariant over pump calls.**  Every call returns a chunk (no error, no
panic: `pump`'s two assertions are unreachable), and after any number of calls
`emitted ++ buf ++ unread = stream` and `offset = |emitted|`; the reader is left
well-behaved. -/
theorem pumps_succeed_and_tile (clamp : Nat) (hclamp : 2 ≤ clamp) (t : Tuning) (blocks : List Nat)
    (m : Mem) (r : Reader) (hwb : WellBehaved r) :
    ∃ chunks, (pumpSeq clamp t blocks Chunker.new m r).1 = chunks.map PumpRes.ok ∧
      chunks.length = blocks.length ∧
      emitted chunks ++ (pumpSeq clamp t blocks Chunker.new m r).2.1.buf
        ++ (pumpSeq clamp t blocks Chunker.new m r).2.2.2.src = r.src ∧
      (pumpSeq clamp t blocks Chunker.new m r).2.1.offset = (emitted chunks).length ∧
      WellBehaved (pumpSeq clamp t blocks Chunker.new m r).2.2.2 := by
  obtain ⟨chunks, h1, hl, h2, h3, h4⟩ := pumpSeq_tiles clamp hclamp t blocks Chunker.new m r hwb
  refine ⟨chunks, h1, hl, ?_, by simpa [Chunker.new] using h4, h3⟩
  have hs : ([] : List UInt8) ++ r.src = _ := h2.stream_eq
  rw [List.nil_append] at hs
  conv => rhs; rw [hs]
  simp

/-- The tiling behind all the statements below (`Tiles` is spelled out by the
theorems that follow). -/
theorem tiles_of_run (clamp : Nat) (hclamp : 2 ≤ clamp) (t : Tuning) (blocks : List Nat)
    (m : Mem) (r : Reader) (hwb : WellBehaved r) (chunks : List Chunk)
    (hrun : (pumpSeq clamp t blocks Chunker.new m r).1 = chunks.map PumpRes.ok) :
    ∃ rest, Tiles 0 r.src chunks rest := by
  obtain ⟨chunks', h1, _, h2, _, _⟩ := pumpSeq_tiles clamp hclamp t blocks Chunker.new m r hwb
  have : chunks = chunks' := by
    rw [h1] at hrun
    exact (map_ok_inj hrun).symm
  subst this
  exact ⟨_, by simpa [Chunker.new] using h2⟩

/-- **Eof only at the real end, and it is sticky.**  When a call returns `Eof`,
the chunks returned before it concatenate to the whole stream, and every later
call returns `Eof` again. -/
theorem eof_only_at_end (clamp : Nat) (hclamp : 2 ≤ clamp) (t : Tuning) (blocks : List Nat)
    (m : Mem) (r : Reader) (hwb : WellBehaved r) (chunks pre post : List Chunk)
    (hrun : (pumpSeq clamp t blocks Chunker.new m r).1 = chunks.map PumpRes.ok)
    (hsplit : chunks = pre ++ Chunk.eof :: post) :
    emitted pre = r.src ∧ ∀ ch ∈ post, ch = Chunk.eof := by
  obtain ⟨rest, ht⟩ := tiles_of_run clamp hclamp t blocks m r hwb chunks hrun
  subst hsplit
  obtain ⟨after, h1, h2, h3⟩ := ht.at
  simp only [ChunkOK] at h2
  subst h2
  exact ⟨by rw [h1]; simp [Chunk.bytes], h3.of_nil.1⟩

/-- **Tiling.**  The chunks returned up to (and after) `Eof` concatenate, in
order, to the input stream — `Sentinel`s counting as `FE FD`. -/
theorem tiling (clamp : Nat) (hclamp : 2 ≤ clamp) (t : Tuning) (blocks : List Nat)
    (m : Mem) (r : Reader) (hwb : WellBehaved r) (chunks : List Chunk)
    (hrun : (pumpSeq clamp t blocks Chunker.new m r).1 = chunks.map PumpRes.ok)
    (heof : Chunk.eof ∈ chunks) : emitted chunks = r.src := by
  obtain ⟨pre, post, hsplit⟩ := List.append_of_mem heof
  obtain ⟨h1, h2⟩ := eof_only_at_end clamp hclamp t blocks m r hwb chunks pre post hrun hsplit
  rw [hsplit, emitted_append, h1, emitted_cons]
  have : emitted post = [] := by
    clear hsplit
    induction post with
    | nil => rfl
    | cons p ps ih =>
      rw [emitted_cons, h2 p (by simp), ih (fun ch hch => h2 ch (by simp [hch]))]
      rfl
  simp [this, Chunk.bytes]

/-- **Eof is reached.**  More calls than the stream has bytes always include an
`Eof`: every other chunk stands for at least one byte. -/
theorem eof_reached (clamp : Nat) (hclamp : 2 ≤ clamp) (t : Tuning) (blocks : List Nat)
    (m : Mem) (r : Reader) (hwb : WellBehaved r) (chunks : List Chunk)
    (hrun : (pumpSeq clamp t blocks Chunker.new m r).1 = chunks.map PumpRes.ok)
    (hmany : r.src.length < blocks.length) : Chunk.eof ∈ chunks := by
  obtain ⟨chunks', h1, hl, h2, _, _⟩ := pumpSeq_tiles clamp hclamp t blocks Chunker.new m r hwb
  have : chunks = chunks' := by
    rw [h1] at hrun
    exact (map_ok_inj hrun).symm
  subst this
  by_cases h : Chunk.eof ∈ chunks
  · exact h
  · exfalso
    have := h2.length_le (fun ch hch heq => h (heq ▸ hch))
    simp only [Chunker.new, List.nil_append] at this
    omega

/-- **Offsets are absolute end positions**: the offset reported with a chunk is
the length of everything emitted up to and including it. -/
theorem offsets_are_ends (clamp : Nat) (hclamp : 2 ≤ clamp) (t : Tuning) (blocks : List Nat)
    (m : Mem) (r : Reader) (hwb : WellBehaved r) (chunks pre post : List Chunk) (ch : Chunk)
    (hrun : (pumpSeq clamp t blocks Chunker.new m r).1 = chunks.map PumpRes.ok)
    (hsplit : chunks = pre ++ ch :: post) :
    match ch with
    | .sentinel off => off = (emitted (pre ++ [ch])).length
    | .data off _ => off = (emitted (pre ++ [ch])).length
    | .eof => True := by
  obtain ⟨rest, ht⟩ := tiles_of_run clamp hclamp t blocks m r hwb chunks hrun
  subst hsplit
  obtain ⟨after, h1, h2, h3⟩ := ht.at
  cases ch with
  | eof => trivial
  | sentinel o =>
    simp only [ChunkOK, Chunk.bytes] at h2
    simp only [emitted_append, emitted_cons, emitted_nil, Chunk.bytes, List.length_append]
    simp at h2 ⊢; omega
  | data o bs =>
    simp only [ChunkOK, Chunk.bytes] at h2
    simp only [emitted_append, emitted_cons, emitted_nil, Chunk.bytes, List.length_append]
    have := h2.1
    simp at this ⊢; omega

/-- **Every Sentinel stands for an `FE FD` at that position**: a `Sentinel`
reported with end offset `off` means the stream has `FE FD` at `off - 2`, right
after what was emitted before it. -/
theorem sentinel_is_occurrence (clamp : Nat) (hclamp : 2 ≤ clamp) (t : Tuning) (blocks : List Nat)
    (m : Mem) (r : Reader) (hwb : WellBehaved r) (chunks pre post : List Chunk) (off : Nat)
    (hrun : (pumpSeq clamp t blocks Chunker.new m r).1 = chunks.map PumpRes.ok)
    (hsplit : chunks = pre ++ Chunk.sentinel off :: post) :
    off = (emitted pre).length + 2 ∧ (r.src.drop (off - 2)).take 2 = [FE, FD] := by
  obtain ⟨rest, ht⟩ := tiles_of_run clamp hclamp t blocks m r hwb chunks hrun
  subst hsplit
  obtain ⟨after, h1, h2, h3⟩ := ht.at
  simp only [ChunkOK, Chunk.bytes] at h2
  have ho : off = (emitted pre).length + 2 := by simpa using h2
  refine ⟨ho, ?_⟩
  rw [h1, ho]
  simp [Chunk.bytes]

/-- **No Data chunk is empty or contains `FE FD`.** -/
theorem data_nonempty_stuff_free (clamp : Nat) (hclamp : 2 ≤ clamp) (t : Tuning) (blocks : List Nat)
    (m : Mem) (r : Reader) (hwb : WellBehaved r) (chunks : List Chunk) (off : Nat) (bs : List UInt8)
    (hrun : (pumpSeq clamp t blocks Chunker.new m r).1 = chunks.map PumpRes.ok)
    (hmem : Chunk.data off bs ∈ chunks) : bs ≠ [] ∧ findStuff bs = none := by
  obtain ⟨rest, ht⟩ := tiles_of_run clamp hclamp t blocks m r hwb chunks hrun
  obtain ⟨pre, post, hsplit⟩ := List.append_of_mem hmem
  subst hsplit
  obtain ⟨after, h1, h2, h3⟩ := ht.at
  simp only [ChunkOK] at h2
  exact ⟨h2.2.1, ((findStuff_append_none _ _).mp h2.2.2).1⟩

/-- **No `FE FD` straddles two consecutive Data chunks.** -/
theorem no_straddle (clamp : Nat) (hclamp : 2 ≤ clamp) (t : Tuning) (blocks : List Nat)
    (m : Mem) (r : Reader) (hwb : WellBehaved r) (chunks pre post : List Chunk)
    (o1 o2 : Nat) (a b : List UInt8)
    (hrun : (pumpSeq clamp t blocks Chunker.new m r).1 = chunks.map PumpRes.ok)
    (hsplit : chunks = pre ++ Chunk.data o1 a :: Chunk.data o2 b :: post) :
    ¬ (a.getLast? = some FE ∧ b.head? = some FD) := by
  obtain ⟨rest, ht⟩ := tiles_of_run clamp hclamp t blocks m r hwb chunks hrun
  subst hsplit
  obtain ⟨after, h1, h2, h3⟩ := ht.at
  simp only [ChunkOK] at h2
  cases h3 with
  | cons _ _ after' _ _ hok _ =>
    simp only [ChunkOK] at hok
    have hne := hok.2.1
    have h := ((findStuff_append_none _ _).mp h2.2.2).2.2
    intro hc
    apply h
    refine ⟨hc.1, ?_⟩
    cases b with
    | nil => exact absurd rfl hne
    | cons x xs => simpa [Chunk.bytes] using hc.2

/-- **Sentinels are never hidden in data**: regrouping the chunks returned up to
`Eof` (Data extends the current piece, Sentinel closes it) gives exactly the
segments found by scanning the stream left to right for `FE FD`, byte ranges
included.  So every occurrence is reported as a Sentinel, at its position, and
the data between two sentinels is the stream's data between them, however the
read schedule and the block sizes cut it into chunks. -/
theorem chunks_regroup_to_segments (clamp : Nat) (hclamp : 2 ≤ clamp) (t : Tuning) (blocks : List Nat)
    (m : Mem) (r : Reader) (hwb : WellBehaved r) (chunks : List Chunk)
    (hrun : (pumpSeq clamp t blocks Chunker.new m r).1 = chunks.map PumpRes.ok)
    (heof : Chunk.eof ∈ chunks) : regroup 0 [] chunks = segments r.src := by
  obtain ⟨rest, ht⟩ := tiles_of_run clamp hclamp t blocks m r hwb chunks hrun
  have hrest : rest = [] := by
    obtain ⟨pre, post, hsplit⟩ := List.append_of_mem heof
    subst hsplit
    obtain ⟨after, _, h2, h3⟩ := ht.at
    simp only [ChunkOK] at h2
    subst h2
    exact h3.of_nil.2
  exact ht.regroup_eq hrest 0 [] rfl

/-- **Termination / `usize::MAX` attempts.**  `pump` calls `read_n` with
`max_attempts = usize::MAX`; the model uses `script length + 1`.  For *any*
reader (well-behaved or not) that is the same thing: with at least that many
attempts allowed the result no longer depends on the number, and the reader is
called at most `script length + 1` times — every refill, hence every `pump`,
returns after finitely many reader calls. -/
theorem attempts_irrelevant (r : Reader) (count attempts : Nat) (h : r.script.length + 1 ≤ attempts) :
    readNCore r count attempts = readNCore r count (r.script.length + 1) ∧
    (readNCore r count attempts).calls.length ≤ r.script.length + 1 := by
  have e := readNCore_fuel_irrelevant r count attempts (r.script.length + 1) (by omega) (by omega)
  refine ⟨e, ?_⟩
  rw [e]
  unfold readNCore
  split
  · simp
  · obtain ⟨new, hs⟩ := loop_spec count (r.script.length + 1) r [] none [] (by simp; omega)
    have h1 := hs.calls_eq
    simp only [List.nil_append] at h1
    rw [finish_calls, h1]; exact hs.len_le

/-- **All arena states.**  Neither the arena's tuning constants nor its state
influence the chunks, the chunker state or the reader position (for any
reader, any clamp). -/
theorem arena_irrelevant (clamp : Nat) (t t' : Tuning) (blocks : List Nat) (c : Chunker) (m m' : Mem)
    (r : Reader) :
    (pumpSeq clamp t blocks c m r).1 = (pumpSeq clamp t' blocks c m' r).1 ∧
    (pumpSeq clamp t blocks c m r).2.1 = (pumpSeq clamp t' blocks c m' r).2.1 ∧
    (pumpSeq clamp t blocks c m r).2.2.2 = (pumpSeq clamp t' blocks c m' r).2.2.2 :=
  pumpSeq_arena clamp t t' blocks c m m' r

end Woodpile.Props.C08

namespace Woodpile.Props.C08
open Woodpile.Stream Woodpile.ReadN Woodpile.Hcobs Woodpile.Arena

/-! Non-vacuity and documentation of F1. -/

def tun : Tuning := ⟨[4096, 8192], 4096⟩
/-- the 7-byte witness of finding F1: `01 61 FE FD 02 62 63` -/
def f1 : List UInt8 := [0x01, 0x61, 0xFE, 0xFD, 0x02, 0x62, 0x63]
/-- one byte per read, with an `Interrupted` thrown in -/
def f1Reader : Reader := ⟨f1, [.deliver 1, .err 0, .deliver 1, .deliver 1, .deliver 1, .deliver 1,
  .err 0, .err 0, .deliver 1, .deliver 1]⟩

-- The hypotheses are satisfiable: this reader is well-behaved …
example : WellBehaved f1Reader := ⟨by decide, by decide⟩
-- … and with the clamp of the code (2), block size 1, the chunks are Data "01 61",
-- Sentinel, Data "02 62", Data "63", Eof, Eof.
example : (pumpSeq 2 tun [1, 1, 1, 1, 1, 1] Chunker.new Mem.fresh f1Reader).1 =
    [.ok (.data 2 [0x01, 0x61]), .ok (.sentinel 4), .ok (.data 6 [0x02, 0x62]), .ok (.data 7 [0x63]),
     .ok .eof, .ok .eof] := by decide
-- A trailing FE is held back and the pair is recognised across reads and chunks.
example : (pumpSeq 2 tun [0, 0, 0, 0] Chunker.new Mem.fresh ⟨[0x61, 0xFE, 0xFE, 0xFD], [.deliver 1, .deliver 1,
    .deliver 1, .deliver 1]⟩).1 = [.ok (.data 1 [0x61]), .ok (.data 2 [0xFE]), .ok (.sentinel 4), .ok .eof] := by
  decide
-- The segments of the witness.
example : segments f1 = [⟨[0x01, 0x61], 0, 2⟩, ⟨[0x02, 0x62, 0x63], 4, 7⟩] := by decide

/-- **F1 (repaired in /repo by commit 1fb4fe8).**  With the *old* clamp
(`io_block_size.max(1)`) and block size 1 the witness stream comes out as seven
one-byte `Data` chunks: the `FE FD` is never reported as a Sentinel
(`sentinels never hidden` fails), two consecutive Data chunks split it
(`no_straddle` fails).  The theorems above are therefore false for `clamp = 1`. -/
example : (pumpSeq 1 tun [1, 1, 1, 1, 1, 1, 1, 1] Chunker.new Mem.fresh ⟨f1, List.replicate 8 (.deliver 1)⟩).1 =
    [.ok (.data 1 [0x01]), .ok (.data 2 [0x61]), .ok (.data 3 [0xFE]), .ok (.data 4 [0xFD]),
     .ok (.data 5 [0x02]), .ok (.data 6 [0x62]), .ok (.data 7 [0x63]), .ok .eof] := by decide

end Woodpile.Props.C08

/-
C12, iterator protocol (track gen3): on every accepted message, every script of `Iterator` calls
(`next`, `nth`, `size_hint`, `skip`, `take`, `step_by`, `count`, `last`, `collect`, `fold`, ... -
`Model/IterScript.lean`) answers on `iter()` exactly what it answers on a cursor over the pairs
obtained through `get(i)`, `i < len()` - which is the reference the harness' iterator-protocol
oracle uses (`harness/src/iterscript.rs`, op `viewit`); likewise for `tags()`.  Together with
`Proofs/IterScript.lean` (the list cursor IS the `next`-only semantics of the provided methods)
this states "iteration and indexed access agree" for the whole `Iterator` interface, not only
for a plain `for` loop.
-/
import Woodpile.Props.C12
import Woodpile.Proofs.IterScript

namespace Woodpile.Props.C12I
open Woodpile.RoughTlv Woodpile.IterScript

/-- The pairs obtained through `get(0)`, ..., `get(n-1)` (the harness' reference cursor). -/
def indexedPairs (v : View) (n : Nat) : List (Nat × List UInt8) :=
  (List.range n).filterMap (fun i => (v.get i).join)

theorem iter_script_agrees_with_indexed (d : List UInt8) (v : View) (h : View.new d = some (.ok v))
    (script : List Step) :
    ∃ ps n, v.iter = some ps ∧ v.len = some n ∧
      run ps script = run (indexedPairs v n) script := by
  obtain ⟨ps, h1, h2, _, _, _, h6, _⟩ := Woodpile.Props.C12.accessors_agree d v h
  refine ⟨ps, ps.length, h1, h2, run_congr ?_ script⟩
  have : (fun i => (v.get i).join) = fun i => ps[i]? := by
    funext i; simp [h6 i]
  simp only [indexedPairs, this]
  exact (indexed_rebuilds ps).symm

theorem tags_script_agrees_with_indexed (d : List UInt8) (v : View) (h : View.new d = some (.ok v))
    (script : List Step) :
    ∃ ts n, v.tags = some ts ∧ v.len = some n ∧
      run ts script = run ((indexedPairs v n).map (·.1)) script := by
  obtain ⟨ps, _, h2, _, h4, _, h6, _⟩ := Woodpile.Props.C12.accessors_agree d v h
  refine ⟨ps.map (·.1), ps.length, h4, h2, run_congr ?_ script⟩
  have : (fun i => (v.get i).join) = fun i => ps[i]? := by
    funext i; simp [h6 i]
  simp only [indexedPairs, this]
  rw [indexed_rebuilds ps]

/-- Non-vacuity: a two-pair message, the script `next, nth(0), size_hint, count`. -/
example :
    (View.new [2,0,0,0, 1,0,0,0, 5,0,0,0, 7,0,0,0, 0xAA, 0xBB]).bind (fun r =>
      match r with
      | .ok v => v.iter.map (fun ps => run ps [.next, .nth 0, .hint, .count])
      | .error _ => none)
    = some [.item (some (5, [0xAA])), .item (some (7, [0xBB])), .num 0, .num 0] := by decide

end Woodpile.Props.C12I

/-
C11 — Rough TLV round trip and layout: encode then view yields the same pairs.

Property theorems only (helper lemmas live in `Woodpile/Proofs/RoughTlvEnc.lean`
and `Woodpile/Proofs/RoughTlv.lean`).  The model is `Woodpile.RoughTlv`:
`Wrapper.new` / `newFromSlice` / `newFromSorted` = the three `MessageWrapper`
constructors (with `compute_len`'s saturating `usize` arithmetic), `Wrapper.encode`
= `MessageWrapper::encode` (`none` = one of its `assert!`s fails), `View.*` =
`MessageView`.

Everything is generic in the value type `V`, seen only through
`bytes : V → List UInt8` (what `to_rough_tlv` writes) and `len : V → Nat` (what
`rough_tlv_len` reports); where the bytes matter the values of the list are
assumed lawful, `len v = (bytes v).length`.  Borrowed/owned `Cow`s, slices and
strings are instances with the same `bytes`; a value that is itself a message is
the instance `V := Wrapper V'`, `bytes := Wrapper.bytes …`, `len := Wrapper.tlvLen`,
and `nested_lawful` shows that every accepted message is a lawful value, so the
theorems apply at every nesting depth.

`Accepted len ps w` means: one of the three constructors, applied to the caller's
list `ps`, returned the wrapper `w`.  64-bit `usize` is assumed.

Sink-call level (second half of the file): `Wrapper.encodePieces` is
`MessageWrapper::encode` as the SEQUENCE OF `ZeroCopySink` CALLS it makes
(`append_copy` of each header word; per value `append_borrow` for `Cow::Borrowed`,
`append_copy` for `Cow::Owned` / `&[u8]` / `&str`, the nested call sequence for a
message); values are seen through `calls : V → Option (List Piece)` (`none` = the
value's `to_rough_tlv` panics) and `bytesOf calls` is the byte-level `bytes` of the
first half.  The lawfulness hypothesis `hl` of the first half is discharged for
the value type of the `tlv` correspondence family (`dval_lawful`) and for nested
messages of every depth (`nested_lawful_every_depth`).
-/
import Woodpile.Proofs.RoughTlvSink
import Woodpile.Props.C12

namespace Woodpile.Props.C11
open Woodpile.RoughTlv

variable {V : Type}

/-- What "stable sort by tag" means, independently of the algorithm: the result
is a permutation, ascending in the tag, and for every tag the pairs carrying it
appear in their original (insertion) order. -/
theorem sort_is_stable (ps : List (Pair V)) :
    (sortByTag ps).Perm ps ∧
    List.Pairwise (fun a b => a.1.toNat ≤ b.1.toNat) (sortByTag ps) ∧
    ∀ t : Nat, (sortByTag ps).filter (fun p => p.1.toNat == t) = ps.filter (fun p => p.1.toNat == t) :=
  ⟨sortByTag_perm ps, sortByTag_sorted ps, sortByTag_filter ps⟩

/-- Every accepted wrapper holds the stable sort of the caller's list (for
`new_from_sorted`, which only accepts sorted lists, that is the list itself). -/
theorem accepted_entries (len : V → Nat) (ps : List (Pair V)) (w : Wrapper V)
    (h : Accepted len ps w) : w.entries = sortByTag ps :=
  h.spec.1

/-- The bytes emitted for an accepted list are exactly the Roughtime layout of
`es := stable sort of ps` (no `assert!` fires): the pair count `N`; then `N-1`
cumulative end offsets — offset `i` is the total size of values `0..i`; then the
`N` tags in ascending order; then the values' bytes concatenated. -/
theorem encode_layout (bytes : V → List UInt8) (len : V → Nat) (ps : List (Pair V))
    (w : Wrapper V) (h : Accepted len ps w) (hl : ∀ p ∈ ps, len p.2 = (bytes p.2).length) :
    let es := sortByTag ps
    w.encode bytes len = some (
      le32 es.length
      ++ ((List.range (es.length - 1)).map
            (fun i => le32 ((es.take (i + 1)).map (fun p => (bytes p.2).length)).sum)).flatten
      ++ (es.map (fun p => le32 p.1.toNat)).flatten
      ++ (es.map (fun p => bytes p.2)).flatten) := by
  intro es
  obtain ⟨h1, _⟩ := h.encode_eq bytes
  have he : w.entries = es := h.spec.1
  rw [h1, he]
  unfold layout
  have hlens : es.map (fun p => len p.2) = es.map (fun p => (bytes p.2).length) := by
    apply List.map_congr_left
    intro p hp
    exact hl p ((sortByTag_perm ps).mem_iff.mp hp)
  rw [hlens, offsetsSpec_eq]
  simp only [List.length_map, List.map_map, Function.comp_def, ← List.map_take]
  rfl

/-- The emitted length equals `rough_tlv_len()` (the length cached by the constructor). -/
theorem len_eq (bytes : V → List UInt8) (len : V → Nat) (ps : List (Pair V))
    (w : Wrapper V) (h : Accepted len ps w) (hl : ∀ p ∈ ps, len p.2 = (bytes p.2).length) :
    ∃ out, w.encode bytes len = some out ∧ out.length = w.tlvLen := by
  obtain ⟨h1, h2, _, _⟩ := h.encode_eq bytes
  refine ⟨_, h1, ?_⟩
  rw [layout_length bytes len w.entries, Wrapper.tlvLen, h2]
  intro p hp
  rw [h.spec.1] at hp
  exact hl p ((sortByTag_perm ps).mem_iff.mp hp)

/-- Nesting: an accepted message is itself a lawful value (what it writes when
used as a value has exactly the length it reports), provided its own values are.
By induction this covers messages nested to any depth. -/
theorem nested_lawful (bytes : V → List UInt8) (len : V → Nat) (ps : List (Pair V))
    (w : Wrapper V) (h : Accepted len ps w) (hl : ∀ p ∈ ps, len p.2 = (bytes p.2).length) :
    w.tlvLen = (w.bytes bytes len).length := by
  obtain ⟨out, h1, h2⟩ := len_eq bytes len ps w h hl
  simp [Wrapper.bytes, h1, h2]

/-- `MessageView::new` accepts the emitted bytes (and does not panic). -/
theorem view_accepts (bytes : V → List UInt8) (len : V → Nat) (ps : List (Pair V))
    (w : Wrapper V) (h : Accepted len ps w) (hl : ∀ p ∈ ps, len p.2 = (bytes p.2).length) :
    ∃ out, w.encode bytes len = some out ∧ View.new out = some (.ok ⟨out⟩) := by
  obtain ⟨out, h1, hv, _⟩ := h.view bytes hl
  exact ⟨out, h1, (View.new_ok_iff out ⟨out⟩).mpr ⟨rfl, hv⟩⟩

/-- The view of the emitted bytes returns the same pairs in the same (stably
sorted) order through iteration, indexing (`get`, `get_value`, for every index,
in or out of range), `tags()` and `len()`; no accessor panics.
`pairs` is the caller's list, stably sorted, with each value replaced by its bytes. -/
theorem view_roundtrip (bytes : V → List UInt8) (len : V → Nat) (ps : List (Pair V))
    (w : Wrapper V) (h : Accepted len ps w) (hl : ∀ p ∈ ps, len p.2 = (bytes p.2).length) :
    let pairs := (sortByTag ps).map (fun p => (p.1.toNat, bytes p.2))
    ∃ out, w.encode bytes len = some out ∧
      (View.mk out).iter = some pairs ∧
      (View.mk out).len = some pairs.length ∧
      (View.mk out).tags = some (pairs.map (·.1)) ∧
      (∀ i, (View.mk out).get i = some pairs[i]?) ∧
      (∀ i, (View.mk out).getValue i = some (pairs[i]?.map (·.2))) := by
  intro pairs
  obtain ⟨out, h1, hv, hp⟩ := h.view bytes hl
  refine ⟨out, h1, ?_, ?_, ?_, ?_, ?_⟩
  · rw [View.iter_eq hv, hp]
  · rw [View.len_eq out hv.h4, ← pairsOf_length, hp]
  · rw [View.tags_eq out hv.h4 hv.h8, hdrTags_eq_pairsOf, hp]
  · intro i; rw [View.get_eq hv i, hp]
  · intro i; rw [View.getValue_eq' hv i, hp]

/-- Tag lookup on the emitted bytes, for ANY search that returns some matching
index on a sorted array (std's `binary_search` is one: `C12.std_search_ok`; with
repeated tags the theorem does not depend on which match it picks): `find(t)`
does not panic, returns the bytes of a value the caller stored under exactly the
tag `t`, and returns nothing only if no pair carries `t`.  In particular, when
all pairs tagged `t` have the same bytes `val` (e.g. `t` occurs once), then
`find(t) = Some(val)`. -/
theorem view_find (bytes : V → List UInt8) (len : V → Nat) (ps : List (Pair V))
    (w : Wrapper V) (h : Accepted len ps w) (hl : ∀ p ∈ ps, len p.2 = (bytes p.2).length)
    (s : List Nat → Nat → Option (Option Nat)) (hs : IsSearch s) (t : Nat) :
    ∃ out r, w.encode bytes len = some out ∧ (View.mk out).findWith s t = some r ∧
      (∀ val, r = some val → ∃ p ∈ ps, p.1.toNat = t ∧ bytes p.2 = val) ∧
      (r = none → ∀ p ∈ ps, p.1.toNat ≠ t) ∧
      (∀ val, (∃ p ∈ ps, p.1.toNat = t) → (∀ p ∈ ps, p.1.toNat = t → bytes p.2 = val) →
        r = some val) := by
  obtain ⟨out, h1, hv, hp⟩ := h.view bytes hl
  obtain ⟨r, hr, hsome, hnone⟩ := View.findWith_sound hs hv t
  have hperm := sortByTag_perm ps
  have hA : ∀ val, r = some val → ∃ p ∈ ps, p.1.toNat = t ∧ bytes p.2 = val := by
    intro val hval
    obtain ⟨i, hi⟩ := hsome val hval
    have hm := List.mem_of_getElem? hi
    rw [hp] at hm
    obtain ⟨p, hpm, hpe⟩ := List.mem_map.mp hm
    simp only [Prod.mk.injEq] at hpe
    exact ⟨p, hperm.mem_iff.mp hpm, hpe.1, hpe.2⟩
  have hB : r = none → ∀ p ∈ ps, p.1.toNat ≠ t := by
    intro hn p hpm
    have := hnone hn (p.1.toNat, bytes p.2) (by
      rw [hp]; exact List.mem_map.mpr ⟨p, hperm.mem_iff.mpr hpm, rfl⟩)
    exact this
  refine ⟨out, r, h1, hr, hA, hB, ?_⟩
  intro val ⟨p, hpm, hpt⟩ hall
  cases hr' : r with
  | none => exact absurd hpt (hB hr' p hpm)
  | some v =>
    obtain ⟨q, hq, hqt, hqv⟩ := hA v hr'
    rw [← hqv, hall q hq hqt]

/-- `find_tag` on the emitted bytes (the audit's "nothing on `find_tag`"), for any
acceptable search: it does not panic; an index it returns is the position, in the stably
sorted list, of a pair the caller stored under exactly the tag `t`, and `find(t)` is that
pair's bytes; it returns nothing only if no pair carries `t`. -/
theorem view_find_tag (bytes : V → List UInt8) (len : V → Nat) (ps : List (Pair V))
    (w : Wrapper V) (h : Accepted len ps w) (hl : ∀ p ∈ ps, len p.2 = (bytes p.2).length)
    (s : List Nat → Nat → Option (Option Nat)) (hs : IsSearch s) (t : Nat) :
    ∃ out r, w.encode bytes len = some out ∧ (View.mk out).findTagWith s t = some r ∧
      (∀ i, r = some i → ∃ p, (sortByTag ps)[i]? = some p ∧ p.1.toNat = t ∧
        (View.mk out).findWith s t = some (some (bytes p.2))) ∧
      (r = none → ∀ p ∈ ps, p.1.toNat ≠ t) := by
  obtain ⟨out, h1, hacc⟩ := view_accepts bytes len ps w h hl
  obtain ⟨out', h1', _, _, _, hget, _⟩ := view_roundtrip bytes len ps w h hl
  rw [h1] at h1'; cases h1'
  obtain ⟨r, hr, hsome, hnone⟩ := Woodpile.Props.C12.find_tag_sound s hs out ⟨out⟩ hacc t
  refine ⟨out, r, h1, hr, ?_, ?_⟩
  · intro i hi
    obtain ⟨_, val, hg, _, hf⟩ := hsome i hi
    rw [hget i] at hg
    simp only [Option.some.injEq, List.getElem?_map, Option.map_eq_some_iff, Prod.mk.injEq] at hg
    obtain ⟨p, hp, hpt, hpv⟩ := hg
    exact ⟨p, hp, hpt, by rw [hf, hpv]⟩
  · intro hn p hp hpt
    obtain ⟨hno, _⟩ := hnone hn
    have hmem : p ∈ sortByTag ps := (sortByTag_perm ps).mem_iff.mpr hp
    obtain ⟨i, hi⟩ := List.getElem?_of_mem hmem
    have := hno i (p.1.toNat, bytes p.2) (by rw [hget i]; simp [hi])
    exact this hpt

/-- `new` (and `new_from_slice`) reject exactly the lists whose pair count, some
single value length, or total encoded length (count word + `N-1` offsets + `N`
tags + values, in unbounded arithmetic) exceeds `i32::MAX`. -/
theorem reject_iff (len : V → Nat) (ps : List (Pair V)) :
    ((∃ e, Wrapper.new len ps = .error e) ↔
      ps.length > i32Max ∨ (∃ p ∈ ps, len p.2 > i32Max) ∨
      4 + 4 * (ps.length - 1) + 4 * ps.length + (ps.map (fun p => len p.2)).sum > i32Max) ∧
    Wrapper.newFromSlice len ps = Wrapper.new len ps := by
  refine ⟨?_, rfl⟩
  unfold Wrapper.new
  rw [mkWrapper_err_iff, computeLen_err_iff]
  have hp := sortByTag_perm ps
  rw [hp.length_eq, natTotal_perm len hp]
  have : (∃ p ∈ sortByTag ps, len p.2 > i32Max) ↔ (∃ p ∈ ps, len p.2 > i32Max) :=
    ⟨fun ⟨p, h1, h2⟩ => ⟨p, hp.mem_iff.mp h1, h2⟩, fun ⟨p, h1, h2⟩ => ⟨p, hp.mem_iff.mpr h1, h2⟩⟩
  rw [this]
  rfl

/-- `new_from_sorted` additionally rejects exactly the lists whose tags decrease somewhere. -/
theorem sorted_reject_iff (len : V → Nat) (ps : List (Pair V)) :
    (∃ e, Wrapper.newFromSorted len ps = .error e) ↔
      (∃ e, Wrapper.new len ps = .error e) ∨
      (∃ i a b, ps[i]? = some a ∧ ps[i + 1]? = some b ∧ a.1.toNat > b.1.toNat) := by
  have hnew := (reject_iff len ps).1
  have hperm := sortByTag_perm ps
  constructor
  · rintro ⟨e, he⟩
    by_cases hs : List.Pairwise (· ≤ ·) (ps.map key)
    · left
      rw [hnew]
      have hfd := (firstDecrease_none_iff _ 0).mpr hs
      unfold Wrapper.newFromSorted at he
      rw [hfd] at he
      simp only at he
      have := (computeLen_err_iff len ps).mp ((mkWrapper_err_iff len ps).mp ⟨e, he⟩)
      exact this
    · right
      cases hfd : firstDecrease (ps.map key) 0 with
      | none => exact absurd ((firstDecrease_none_iff _ 0).mp hfd) hs
      | some x =>
        obtain ⟨i, a, b⟩ := x
        obtain ⟨_, h2, h3, h4, _⟩ := firstDecrease_some _ 0 i a b hfd
        simp only [Nat.sub_zero, List.getElem?_map, Option.map_eq_some_iff] at h2 h3
        obtain ⟨pa, hpa, rfl⟩ := h2
        obtain ⟨pb, hpb, rfl⟩ := h3
        exact ⟨i, pa, pb, hpa, hpb, h4⟩
  · rintro (h | ⟨i, a, b, ha, hb, hab⟩)
    · rw [hnew] at h
      cases hc : Wrapper.newFromSorted len ps with
      | error e => exact ⟨e, rfl⟩
      | ok w =>
        exfalso
        obtain ⟨_, hm⟩ := (newFromSorted_ok_iff len ps w).mp hc
        obtain ⟨h1, _⟩ := (mkWrapper_ok_iff len ps w).mp hm
        obtain ⟨c1, c2, c3, _⟩ := (computeLen_ok_iff len ps _).mp h1
        rcases h with h | ⟨p, hp, hpl⟩ | h
        · omega
        · have := c2 p hp; omega
        · unfold natTotal lensSum at c3; omega
    · cases hc : Wrapper.newFromSorted len ps with
      | error e => exact ⟨e, rfl⟩
      | ok w =>
        exfalso
        obtain ⟨hs, _⟩ := (newFromSorted_ok_iff len ps w).mp hc
        have := pairwise_getElem?_le hs (i := i) (j := i + 1) (x := key a) (y := key b)
          (by omega) (by simp [ha]) (by simp [hb])
        unfold key at this; omega

/-- **Which error** (the audit's "error variant not stated").  With `es` the list the
constructor sums over (the stable sort for `new` / `new_from_slice`, the caller's list for
`new_from_sorted`): `new_from_sorted` first reports `NonMonotonicTags(i, tag_i, tag_{i+1})`
at the FIRST decrease; otherwise every constructor reports `TooManyElements(N)` if the
count exceeds `i32::MAX`; else `ValueTooLarge(rank, len)` for the FIRST value whose length
does (rank in `es`, as the `u32` the code casts it to); else `TotalTooLarge(N, total)` with
the total saturated at `usize::MAX`. -/
theorem reject_error_kind (len : V → Nat) (ps : List (Pair V)) (e : EncErr) :
    let kinds := fun (es : List (Pair V)) =>
      (es.length > i32Max ∧ e = .tooManyElements es.length) ∨
      (es.length ≤ i32Max ∧ ∃ r p, es[r]? = some p ∧ len p.2 > i32Max ∧
        (∀ j q, j < r → es[j]? = some q → len q.2 ≤ i32Max) ∧
        e = .valueTooLarge (r % 4294967296) (len p.2)) ∨
      (es.length ≤ i32Max ∧ (∀ p ∈ es, len p.2 ≤ i32Max) ∧
        4 + 4 * (es.length - 1) + 4 * es.length + (es.map (fun p => len p.2)).sum > i32Max ∧
        e = .totalTooLarge (es.length % 4294967296)
          (min (4 + 4 * (es.length - 1) + 4 * es.length + (es.map (fun p => len p.2)).sum) usizeMax))
    (Wrapper.new len ps = .error e → kinds (sortByTag ps)) ∧
    (Wrapper.newFromSlice len ps = .error e → kinds (sortByTag ps)) ∧
    (Wrapper.newFromSorted len ps = .error e →
      (∃ i a b, ps[i]? = some a ∧ ps[i + 1]? = some b ∧ a.1.toNat > b.1.toNat ∧
        List.Pairwise (· ≤ ·) ((ps.take (i + 1)).map (fun p => p.1.toNat)) ∧
        e = .nonMonotonicTags i a.1.toNat b.1.toNat) ∨
      (List.Pairwise (· ≤ ·) (ps.map (fun p => p.1.toNat)) ∧ kinds ps)) := by
  intro kinds
  have hk : ∀ es, mkWrapper len es = .error e → kinds es := by
    intro es h
    have : computeLen len es = .error e := by
      unfold mkWrapper at h
      cases hc : computeLen len es with
      | error e' => rw [hc] at h; simpa using h
      | ok n => rw [hc] at h; cases h
    exact computeLen_error_kind len es e this
  refine ⟨hk _, hk _, ?_⟩
  intro h
  unfold Wrapper.newFromSorted at h
  cases hfd : firstDecrease (ps.map key) 0 with
  | none =>
    rw [hfd] at h
    exact Or.inr ⟨(firstDecrease_none_iff _ 0).mp hfd, hk ps h⟩
  | some x =>
    obtain ⟨i, a, b⟩ := x
    rw [hfd] at h
    simp only [Except.error.injEq] at h
    obtain ⟨_, h2, h3, h4, h5⟩ := firstDecrease_some _ 0 i a b hfd
    simp only [Nat.sub_zero, List.getElem?_map, Option.map_eq_some_iff] at h2 h3
    obtain ⟨pa, hpa, rfl⟩ := h2
    obtain ⟨pb, hpb, rfl⟩ := h3
    left
    refine ⟨i, pa, pb, hpa, hpb, h4, ?_, h.symm⟩
    rw [List.map_take]; exact h5

/-! ### The sink-call level: borrowed / owned values, any `ZeroCopySink` -/

open Woodpile.Hcobs (Method)

/-- **The calls concatenate to the flat encoding.**  Whatever the values do
(`calls`), if `encode` makes the calls `cs` on its sink then the byte-level encoder of
the theorems above returns their concatenation; and when no value panics the two
have the same verdict, `(encodePieces …).map flat = encode …` (`flat cs` is
`cs.flatMap (·.2)`). -/
theorem encode_pieces_flat (calls : V → Option (List Piece)) (len : V → Nat) (w : Wrapper V) :
    (∀ cs, w.encodePieces calls len = some cs → w.encode (bytesOf calls) len = some (flat cs)) ∧
    ((∀ p ∈ w.entries, (calls p.2).isSome = true) →
      (w.encodePieces calls len).map flat = w.encode (bytesOf calls) len) ∧
    (∀ cs : List Piece, flat cs = cs.flatMap (·.2)) :=
  ⟨fun cs h => encodePieces_flat calls len w cs h, encodePieces_map_flat calls len w, flat_eq_flatMap⟩

/-- **The call sequence of an accepted list**, for values that do not panic: with
`es := stable sort of ps`, exactly `append_copy(N)`; `append_copy(offset_i)` for the
`N-1` cumulative end offsets; `append_copy(tag_i)` for the `N` tags in ascending
order; then every value's own calls, in order (a borrowed `Cow` is one
`append_borrow` of its bytes, an owned one / a slice / a string one `append_copy`, a
nested message its own call sequence).  No `assert!` fires. -/
theorem encode_calls_layout (calls : V → Option (List Piece)) (len : V → Nat) (ps : List (Pair V))
    (w : Wrapper V) (h : Accepted len ps w) (hs : ∀ p ∈ ps, (calls p.2).isSome = true) :
    let es := sortByTag ps
    w.encodePieces calls len = some (
      ((Method.copy, le32 es.length) : Piece)
      :: (List.range (es.length - 1)).map
            (fun i => ((Method.copy, le32 ((es.take (i + 1)).map (fun p => len p.2)).sum) : Piece))
      ++ es.map (fun p => ((Method.copy, le32 p.1.toNat) : Piece))
      ++ (es.map (fun p => (calls p.2).getD [])).flatten) := by
  intro es
  have he : w.entries = es := h.spec.1
  rw [h.calls_eq hs, he]
  unfold callLayout
  rw [offsetsSpec_eq]
  simp only [List.length_map, List.map_map, Function.comp_def, ← List.map_take]
  rfl

/-- Call-level `len_eq`: over lawful, non-panicking values the calls hand the sink
exactly `rough_tlv_len()` bytes, and they are the layout of `encode_layout`. -/
theorem calls_len_eq (calls : V → Option (List Piece)) (len : V → Nat) (ps : List (Pair V))
    (w : Wrapper V) (h : Accepted len ps w) (hl : ∀ p ∈ ps, CallsLawful calls len p.2)
    (hs : ∀ p ∈ ps, (calls p.2).isSome = true) :
    ∃ cs, w.encodePieces calls len = some cs ∧ w.encode (bytesOf calls) len = some (flat cs) ∧
      (flat cs).length = w.tlvLen :=
  h.calls hl hs

/-- **Nesting, every depth.**  `NV d` is the type of values nested at most `d` deep
(leaves: byte strings handed over by either sink method; inner nodes: messages);
`NV.Ok` says every message inside was returned by a constructor.  Every such value
is lawful - what it reports as `rough_tlv_len` is the number of bytes its calls
write - and never panics.  (Structural induction on `d`; the step is the call-level
`nested_lawful`.)  So `hl` holds for every list of `Ok` values of any depth. -/
theorem nested_lawful_every_depth (d : Nat) (v : NV d) (h : NV.Ok d v) :
    CallsLawful (NV.calls d) (NV.len d) v ∧ (NV.calls d v).isSome = true ∧
    NV.len d v = (bytesOf (NV.calls d) v).length :=
  ⟨NV.lawful d v h, NV.calls_isSome d v h, (NV.lawful d v h).bytes (NV.calls_isSome d v h)⟩

/-- **`hl` discharged for the `tlv` family.**  In every state the family's state
machine (`TlvSt.msg`, the function the model driver executes) can reach, every
stored message was returned by a constructor on a list of lawful values; if it
contains no never-encoded fake, the list satisfies the hypothesis `hl` of
`encode_layout`, `len_eq`, `view_accepts`, `view_roundtrip`, `view_find`
(`bytes := DVal.bytes`, `len := DVal.len`), none of its values panics, the encoder
makes its calls (the driver's `panic` answer to `enc` is dead) and `MessageView`
accepts what they write. -/
theorem dval_lawful (s : TlvSt) (hr : TlvReach s) (i : Nat) (w : Wrapper DVal)
    (hi : s.slots[i]? = some (some w)) :
    (∃ ps, Accepted DVal.len ps w ∧ ∀ p ∈ ps, p.2.Lawful) ∧
    (hasFake w = false →
      ∃ ps, Accepted DVal.len ps w ∧ (∀ p ∈ ps, DVal.len p.2 = (DVal.bytes p.2).length) ∧
        (∀ p ∈ ps, (DVal.calls p.2).isSome = true) ∧
        ∃ cs, w.encodePieces DVal.calls DVal.len = some cs ∧
          w.encode DVal.bytes DVal.len = some (flat cs) ∧ (flat cs).length = w.tlvLen ∧
          View.new (flat cs) = some (.ok ⟨flat cs⟩)) := by
  have hok := hr.slotOK i w hi
  refine ⟨hok, fun hf => ?_⟩
  obtain ⟨ps, ha, hl, hcl, hs⟩ := hok.hyps hf
  obtain ⟨cs, h1, h2, h3⟩ := ha.calls hcl hs
  obtain ⟨out, h4, h5⟩ := view_accepts DVal.bytes DVal.len ps w ha hl
  rw [bytesOf_dval] at h2
  rw [h2] at h4
  cases h4
  exact ⟨ps, ha, hl, hs, cs, h1, h2, h3, h5⟩

end Woodpile.Props.C11

namespace Woodpile.Props.C11
open Woodpile.RoughTlv

/-! Non-vacuity: the hypotheses are satisfiable and every verdict occurs. -/

-- The crate's test vector: unsorted input, accepted, sorted, 23 bytes, exact layout.
example : Wrapper.new List.length [((2 : UInt32), [122,120,99,118]), (1, [97,115,100])]
    = .ok ⟨23, [(1, [97,115,100]), (2, [122,120,99,118])]⟩ := by decide
example : (Wrapper.mk 23 [((1 : UInt32), [97,115,100]), (2, [122,120,99,118])]).encode id List.length
    = some [2,0,0,0, 3,0,0,0, 1,0,0,0, 2,0,0,0, 97,115,100, 122,120,99,118] := by decide
-- … and the view of those bytes iterates over the same pairs and finds tag 2.
example : (View.mk [2,0,0,0, 3,0,0,0, 1,0,0,0, 2,0,0,0, 97,115,100, 122,120,99,118]).iter
    = some [(1, [97,115,100]), (2, [122,120,99,118])] := by decide
example : IsSearch binarySearch := binarySearch_isSearch
-- Ties stay in insertion order; empty values and the empty message are fine.
example : sortByTag [((5 : UInt32), [1]), (3, [2]), (5, []), (3, [4])]
    = [(3, [2]), (3, [4]), (5, [1]), (5, [])] := by decide
example : Wrapper.new List.length ([] : List (Pair (List UInt8))) = .ok ⟨4, []⟩ := by decide
-- `Accepted` is inhabited through each constructor.
example : Accepted List.length [((2 : UInt32), [7]), (1, [])] ⟨17, [(1, []), (2, [7])]⟩ :=
  Or.inl (by decide)
example : Accepted List.length [((1 : UInt32), []), (2, [7])] ⟨17, [(1, []), (2, [7])]⟩ :=
  Or.inr (Or.inr (by decide))
-- The three size rejections (values that only report a length: `V := Nat`, `len := id`) …
example : Wrapper.new id [((1 : UInt32), 2147483648)] = .error (.valueTooLarge 0 2147483648) := by decide
example : Wrapper.new id [((1 : UInt32), 2147483640)] = .error (.totalTooLarge 1 2147483648) := by decide
example : Wrapper.new id [((1 : UInt32), 2147483639)] = .ok ⟨2147483647, [(1, 2147483639)]⟩ := by decide
example : Wrapper.new id [((1 : UInt32), 2147483647), (2, 2147483647), (3, 18446744073709551615)]
    = .error (.valueTooLarge 2 18446744073709551615) := by decide
-- … and the order rejection of `new_from_sorted`, which `new` does not have.
example : Wrapper.newFromSorted List.length [((2 : UInt32), [7]), (1, [])]
    = .error (.nonMonotonicTags 0 2 1) := by decide
-- A nested message: the inner wrapper used as a value of the outer one.
example : Wrapper.new Wrapper.tlvLen [((128 : UInt32), Wrapper.mk 13 [((7 : UInt32), [9])])]
    = .ok ⟨21, [(128, ⟨13, [(7, [9])]⟩)]⟩ := by decide
example : (Wrapper.mk 21 [((128 : UInt32), Wrapper.mk 13 [((7 : UInt32), [(9 : UInt8)])])]).encode
      (Wrapper.bytes id List.length) Wrapper.tlvLen
    = some [1,0,0,0, 128,0,0,0, 1,0,0,0, 7,0,0,0, 9] := by decide

-- The sink-call level.  The crate's Cow test (`test_encode_cow_miri`): a borrowed and an owned value.
example : (Wrapper.mk 23 [((1 : UInt32), DVal.mk (some [(.borrow, [97,115,100])]) 3),
      (2, DVal.mk (some [(.copy, [122,120,99,118])]) 4)]).encodePieces DVal.calls DVal.len
    = some [(.copy, [2,0,0,0]), (.copy, [3,0,0,0]), (.copy, [1,0,0,0]), (.copy, [2,0,0,0]),
        (.borrow, [97,115,100]), (.copy, [122,120,99,118])] := by decide
-- a value that panics makes `encode` panic; an empty borrowed value is still a call
example : (Wrapper.mk 12 [((1 : UInt32), DVal.mk none 0)]).encodePieces DVal.calls DVal.len = none := by decide
example : (Wrapper.mk 12 [((1 : UInt32), DVal.mk (some [(.borrow, [])]) 0)]).encodePieces DVal.calls DVal.len
    = some [(.copy, [1,0,0,0]), (.copy, [1,0,0,0]), (.borrow, [])] := by decide
-- the family's state machine: two leaves, then a message nesting slot 0 twice (by reference and as a view)
example :
    ((TlvSt.init.msg .new [(2, .bytes .borrow [7]), (1, .bytes .copy [])]).bind fun (s, _) =>
      (s.msg .sorted [(5, .msg 0), (6, .view 0)]).map fun (s', r) => (s'.slots.length, r.toOption.map (·.len))) =
    some (2, some 50) := by decide
example : TlvReach (TlvSt.mk [some ⟨17, [(1, ⟨some [(.copy, [])], 0⟩), (2, ⟨some [(.borrow, [7])], 1⟩)]⟩]) :=
  .msg (s := TlvSt.init) (c := .new) (items := [(2, .bytes .borrow [7]), (1, .bytes .copy [])])
    (r := .ok ⟨17, [(1, ⟨some [(.copy, [])], 0⟩), (2, ⟨some [(.borrow, [7])], 1⟩)]⟩) .init (by decide)
-- a depth-2 value: a message holding a leaf and a message holding a leaf
example : NV.calls 2 (.inr ⟨29, [(1, .inl (.borrow, [9])), (2, .inr ⟨9, [(3, (.copy, [8]))]⟩)]⟩)
    = some [(.copy, [2,0,0,0]), (.copy, [1,0,0,0]), (.copy, [1,0,0,0]), (.copy, [2,0,0,0]), (.borrow, [9]),
        (.copy, [1,0,0,0]), (.copy, [3,0,0,0]), (.copy, [8])] := by decide
example : NV.Ok 1 (.inr ⟨9, [(3, (.copy, [8]))]⟩) :=
  ⟨[(3, (.copy, [8]))], Or.inl (by rfl), by simp [NV.Ok]⟩

end Woodpile.Props.C11

/-
C16, iterator protocol (track gen3): in every state satisfying the invariant, every script of
`Iterator` calls on `SortedDeque::iter()` answers what it answers on the present items of the
reference ordered map (the harness' op `iterscript` of family `sorted`; the list cursor is
`Model/IterScript.lean`).
-/
import Woodpile.Props.C16
import Woodpile.Proofs.IterScript

namespace Woodpile.Props.C16I
open Woodpile.SortedDeque

variable {α κ : Type} {c : Cmp α κ} {P : α → Prop}

theorem iter_script_refines_ordered_map (s : SortedDeque α) (hs : SInv c P s)
    (script : List Woodpile.IterScript.Step) :
    ∃ l, SortedDeque.iter c s = some l ∧
      Woodpile.IterScript.run l script = Woodpile.IterScript.run (abs c s) script :=
  ⟨abs c s, SortedDeque.iter_spec hs, rfl⟩

end Woodpile.Props.C16I

/-
C16T — the standard-trait methods of `SortedDeque` (track traits): `Clone::clone`,
`Clone::clone_from`, `Default::default`, moves between several object instances, mixed with the
single-object operations of C16.

Model: `Woodpile/Model/DequeTraits.lean` (`SortedDeque.clone`, `SortedDeque.cloneFrom`, `MOp` /
`mstep`, `Cmd` / `crun`); hypotheses on the comparator exactly as in `Props/C16.lean`.  The model
driver executes `mstep` for the handle ops of the `sorted` family; the harness runs the real trait
methods on a Vec-backed and a SmallVec-backed deque and compares every object with its own
reference `BTreeMap` after every such op.
-/
import Woodpile.Proofs.DequeTraits

namespace Woodpile.Props.C16T
open Woodpile.SortedDeque Woodpile.DequeTraits

variable {α κ : Type} {c : Cmp α κ} {P : α → Prop}

/-- **`clone_from` is assignment**: whatever the destination held - tombstones, a consumed but
not yet slid prefix left by `pop_first` / front `remove`s - afterwards it IS the source. -/
theorem clone_from_is_assign (dst src : SortedDeque α) : dst.cloneFrom src = src := rfl

/-- … nothing of the destination survives. -/
theorem clone_from_forgets_destination (dst dst' src : SortedDeque α) :
    dst.cloneFrom src = dst'.cloneFrom src := rfl

/-- `clone` is a copy of the representation (tombstones and consumed prefix included). -/
theorem clone_is_copy (s : SortedDeque α) : s.clone = s := rfl

/-- After `dst.clone_from(&src)` every valid operation sequence on the destination does what
the reference ordered map does from the SOURCE's present items, for any destination. -/
theorem clone_from_run_refines (hc : c.Lawful) (he : EraseOrder c P) (dst src : SortedDeque α)
    (hs : SInv c P src) (ops : List (Op α κ)) (hv : ∀ op ∈ ops, ValidOp c P op) :
    match runRef c (abs c src) ops with
    | none => run c (dst.cloneFrom src) ops = none
    | some (rs, m) => ∃ s', run c (dst.cloneFrom src) ops = some (rs, s') ∧ abs c s' = m ∧ SInv c P s' :=
  run_spec hc he hs ops hv

/-- **One handle operation**: with every object satisfying the invariant, it finds a handle iff
the reference over plain association lists does, never panics, the object it wrote has the
present items the reference shows, every object's present items are the reference's, and every
object satisfies the invariant again. -/
theorem multi_step_refines (m : Multi (SortedDeque α)) (hm : MInv (SInv c P) m) (op : MOp) :
    match mstep (refTraits (List α) []) (m.abs (abs c)) op with
    | .nohandle => mstep (sortedTraits α) m op = .nohandle
    | .panic => False
    | .ok r mr => ∃ d m', mstep (sortedTraits α) m op = .ok d m' ∧ abs c d = r ∧
        m'.abs (abs c) = mr ∧ MInv (SInv c P) m' := by
  have h := mstep_refines (sorted_refines c P) m hm op
  cases hr : mstep (refTraits (List α) []) (m.abs (abs c)) op <;> simp only [hr] at h ⊢ <;> exact h

/-- **All valid mixed histories**: single-object operations on the current deque interleaved
with handle operations.  The run panics iff the reference run does (only at a push that violates
the order); otherwise every answer and the present items of EVERY object at the end are those of
independent reference ordered maps on which `clone` copies and `clone_from` assigns. -/
theorem multi_run_refines (hc : c.Lawful) (he : EraseOrder c P)
    (m : Multi (SortedDeque α)) (hm : MInv (SInv c P) m) (cs : List (Cmd (Op α κ)))
    (hv : ∀ cm ∈ cs, Cmd.Valid (ValidOp c P) cm) :
    match crun (refTraits (List α) []) (stepRef c) (m.abs (abs c)) cs with
    | none => crun (sortedTraits α) (step c) m cs = none
    | some (os, mr) => ∃ os' m', crun (sortedTraits α) (step c) m cs = some (os', m') ∧
        os'.map (Out.map (abs c)) = os ∧ m'.abs (abs c) = mr ∧ MInv (SInv c P) m' := by
  have hs : StepRefines (abs c) (SInv c P) (ValidOp c P) (step c) (stepRef c) := by
    intro s hI o ho
    have h := step_spec hc he hI o ho
    cases hr : stepRef c (abs c s) o with
    | none => rw [hr] at h; exact h
    | some p => obtain ⟨r, a'⟩ := p; rw [hr] at h; exact h
  have h := crun_refines (sorted_refines c P) hs m hm cs hv
  cases hr : crun (refTraits (List α) []) (stepRef c) (m.abs (abs c)) cs with
  | none => rw [hr] at h; exact h
  | some p => obtain ⟨os, mr⟩ := p; rw [hr] at h; exact h

end Woodpile.Props.C16T

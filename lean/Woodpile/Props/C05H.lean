/-
C05 along DECODER runs and along the codecs' anchored calls (track `c10enc`; audit gap 11).

`Props/C05G.lean` establishes `WorldInv ∧ ArenaInv` (hence `exposed_live`, `below_bump`, `no_overlap`, …)
along ENCODER runs with borrowed / copied input.  Here:

* the DECODER, borrowed / copied input (`EncWorldComp.decRun`: `Decoder::new`, any `decode` /
  `decode_copy` calls, any `consume` / `advance_slices`, `finish`; the run stops at the first decoding error,
  after applying what was emitted before it): every world predicate closed under one emit / one lent
  buffer / one drain (`EncWorld.EncClosed`) holds at the end of the run (`Proofs/DecGlue.decRun_closed`) —
  and, taking the run of the calls made so far, between any two calls (`finish` does not touch the world).
  Instances: `dec_run_arenaInv` (`WorldInv`, `ArenaInv`), `dec_run_is_wrun` (the decoder's world is
  literally a `WOp` history from `World.init`: `Reachable`, so every theorem of `Props/C05`, `C10`, `C20`
  applies to it as stated), `dec_exposed_live`, `dec_below_bump`.

* ALL input methods (`EncWorldAnch.ACall`: also `encode_read` / `decode_read`, anchored input read into the
  codec's own arena): `enc_anchored_shape`, `dec_anchored_shape` — the codec's world holds ONE iovec and
  nothing else (no detached arena, no detached anchored slice: the `AnchoredSlice` returned by `read_n` is
  consumed by the same call), the anchors count exactly the buffered slices (`Σ counts = #slices`:
  conjunct 1 of the guard `C05.slice_guarded`), the encoder's front anchor counts a slice, the decoder has
  nothing pending.  Together with `Props/C09H.enc_slices_in_cap` (every owned slice inside its chunk's
  capacity, all input methods) and `Props/C01G` (`IovInv`: every slice non-empty, bytes as appended).

  NOT proved here (stated precisely): the GUARD half of `WorldInv` along anchored calls — "a slice in chunk
  `k` counted by anchor `j` has an anchor `j' ≥ j` holding `k`" — and `ArenaInv` (`below`, `unique`) there.
  The anchored route is `read_n; push(sub-slice)*; push_anchor`: between `read_n` and `push_anchor` the guard
  is held by the call's local `AnchoredSlice`, not by the deque, so the intermediate worlds are outside
  `WorldInv`; the invariant to carry is `Guarded (anchors ++ [⟨0, chunk⟩]) slices` (the lemmas of
  `Proofs/IovecOwn.lean` — `optimize_guard`, `pushBorrowedSlice_guard`, `Guarded.snoc_inc` — already take
  such a zero-count suffix; `copyAnchors_guard` does not yet), re-established as `Guarded` by the final
  `push_anchor`; and the run is not a `WOp` history (`WOp.pushASlice` pushes ONE slice and its anchor).

  `WorldInv.headPos` ("the front anchor counts a slice"; `Props/C10.front_anchor_counts`) is FALSE along
  decoder runs with anchored input: `decode_read` of bytes that are all header produces no output, and
  `push_anchor` then puts a zero-count anchor on an EMPTY deque (`example` below; harmless: the next
  `consume` pops it, but until then it pins its chunk).  The encoder's deque is never empty (the pending
  size header), so it does not arise there.

* StreamChunker chunks / StreamReader records (C05's text): see the note at the end of this file.
-/
import Woodpile.Props.C05G
import Woodpile.Proofs.DecGlue
import Woodpile.Proofs.EncFootprint

namespace Woodpile.Props.C05H
open Woodpile.Hcobs Woodpile.Iovec Woodpile.Arena Woodpile.EncWorld

/-- Decoder runs (borrowed / copied input, any drain schedule, whatever the verdict): the C05 invariants
hold in the final world — no side condition: that every borrowed push is in bounds is part of what is
proved. -/
theorem dec_run_arenaInv (p : Params) (pol : Policy) (tun : Tuning) (calls : List Call) (w' : World)
    (dr : List UInt8) (res : Except DecErr Unit) (h : decRun p pol tun calls = some (w', dr, res)) :
    WorldInv w' ∧ ∃ caps, ArenaInv w' caps :=
  decRun_closed (good_closed (max 2 (max p.maxInit p.maxSub))) p (by omega) (by omega) pol tun calls
    (good_fresh pol tun) w' dr res h

/-- Run level: the decoder's final world (its handle table is empty: a decoder registers nothing) is
literally the world after a `WOp` history from `World.init`. -/
theorem dec_run_is_wrun (p : Params) (pol : Policy) (tun : Tuning) (calls : List Call) (w' : World)
    (dr : List UInt8) (res : Except DecErr Unit) (h : decRun p pol tun calls = some (w', dr, res)) :
    Reachable (w'.wb []) := by
  obtain ⟨wops, hr⟩ := decRun_closed (lit_closed pol tun (max 2 (max p.maxInit p.maxSub))) p (by omega) (by omega)
    pol tun calls (lit_fresh pol tun) w' dr res h
  exact ⟨pol, tun, wops, hr⟩

/-- `C05.exposed_live` for the decoder's world. -/
theorem dec_exposed_live (p : Params) (pol : Policy) (tun : Tuning) (calls : List Call) (w' : World)
    (dr : List UInt8) (res : Except DecErr Unit) (h : decRun p pol tun calls = some (w', dr, res)) :
    ∃ caps : Nat → Nat,
    (∀ i v n, w'.iov i = some v → v.stableCount = some n → ∀ s ∈ v.slices.take n,
      Live w' s ∧ ∀ k, s.region = .chunk k → k ∈ anchorChunks v.anchors ∧ s.off + s.len ≤ caps k) ∧
    (∀ j a, w'.aslice j = some a → a.slice.len ≠ 0 →
      Live w' a.slice ∧ ∃ k, a.slice.region = .chunk k ∧ a.anchor.chunk = some k ∧
        a.slice.off + a.slice.len ≤ caps k) :=
  C05G.good_exposed_live (dec_run_arenaInv p pol tun calls w' dr res h)

/-- `C05.below_bump` for the decoder's world. -/
theorem dec_below_bump (p : Params) (pol : Policy) (tun : Tuning) (calls : List Call) (w' : World)
    (dr : List UInt8) (res : Except DecErr Unit) (h : decRun p pol tun calls = some (w', dr, res)) :
    ∃ caps : Nat → Nat,
    (∀ h h' c c', w'.cacheAt h = some c → w'.cacheAt h' = some c' → c.chunk = c'.chunk → h = h') ∧
    (∀ h c, w'.cacheAt h = some c → c.bump ≤ c.cap ∧ caps c.chunk = c.cap ∧
      ∀ s, w'.HasSlice s → s.region = .chunk c.chunk → s.off + s.len ≤ c.bump) :=
  C05G.good_below_bump (dec_run_arenaInv p pol tun calls w' dr res h)

/-- The decoder's world between calls: the run of the calls made so far ends in it (`finish` only computes
a verdict), so the theorems above speak about every call boundary of a longer run. -/
theorem dec_run_prefix_world (p : Params) (i : Nat) (c1 : List Call) : ∀ (c2 : List Call) (w : World) (s : DecState)
    (dr : List UInt8) (w1 : World) (dr1 : List UInt8), decCalls p i w s dr c1 = some (w1, dr1, .ok ()) →
    ∃ s1, decCalls p i w s dr (c1 ++ c2) = decCalls p i w1 s1 dr1 c2 := by
  induction c1 with
  | nil =>
    intro c2 w s dr w1 dr1 h
    simp only [decCalls, Option.some.injEq, Prod.mk.injEq] at h
    obtain ⟨rfl, rfl, _⟩ := h
    exact ⟨s, rfl⟩
  | cons c t ih =>
    intro c2 w s dr w1 dr1 h
    cases c with
    | feed m d =>
      simp only [List.cons_append, decCalls] at h ⊢
      cases h1 : decFeedCall p i w s m d with
      | none => rw [h1] at h; cases h
      | some x =>
        obtain ⟨wa, ra⟩ := x
        rw [h1] at h
        cases ra with
        | ok sa => exact ih c2 wa sa dr w1 dr1 h
        | error e => simp at h
    | consume k =>
      simp only [List.cons_append, decCalls] at h ⊢
      cases hv : w.iov i with
      | none => rw [hv] at h; cases h
      | some v =>
        cases hx : w.consume i k with
        | none => rw [hv, hx] at h; cases h
        | some x =>
          rw [hv, hx] at h
          exact ih c2 x.1 s _ w1 dr1 h
    | advance k =>
      simp only [List.cons_append, decCalls] at h ⊢
      cases hv : w.iov i with
      | none => rw [hv] at h; cases h
      | some v =>
        cases hx : w.advance i k with
        | none => rw [hv, hx] at h; cases h
        | some x =>
          rw [hv, hx] at h
          exact ih c2 x.1 s _ w1 dr1 h

/-! ### All input methods: the shape of the codec's world -/

/-- Between the calls of any ENCODER run, all input methods: one iovec and nothing else; the anchors count
exactly the buffered slices; the front anchor counts a slice; exactly one placeholder is pending, inside a
buffered slice. -/
theorem enc_anchored_shape (p : Params) (pol : Policy) (tun : Tuning) (calls : List ACall) (r : Run)
    (h : encPrefixA p pol tun calls = some r) :
    (∀ j, j ≠ 0 → r.w.iov j = none) ∧ (∀ j, r.w.arena j = none) ∧ (∀ j, r.w.aslice j = none) ∧
    ∃ v e, r.w.iov 0 = some v ∧ countSum v.anchors = v.slices.length ∧ HeadPos v.anchors ∧ v.backrefs = [e] ∧
      v.consumedSlices ≤ e.2.sliceIndex ∧ e.2.sliceIndex - v.consumedSlices < v.slices.length := by
  obtain ⟨⟨b, hs, v, hv, hf, hb⟩, _⟩ := encPrefixA_fpb p pol tun calls r h
  refine ⟨hs.onlyIov, hs.noArena, hs.noASlice, v, b, hv, hf.count, hf.headPos, hb, ?_⟩
  rcases hf.pend with h0 | ⟨e', h1, h2, h3, _⟩
  · rw [hb] at h0; cases h0
  · rw [hb] at h1; cases h1; exact ⟨h2, h3⟩

/-- At the end of (hence between the calls of) any DECODER run, all input methods, whatever the verdict:
one iovec and nothing else; the anchors count exactly the buffered slices; nothing is pending. -/
theorem dec_anchored_shape (p : Params) (pol : Policy) (tun : Tuning) (calls : List ACall) (w' : World)
    (dr : List UInt8) (res : Except DecErr Unit) (h : decRunA p pol tun calls = some (w', dr, res)) :
    (∀ j, j ≠ 0 → w'.iov j = none) ∧ (∀ j, w'.arena j = none) ∧ (∀ j, w'.aslice j = none) ∧
    ∃ v, w'.iov 0 = some v ∧ countSum v.anchors = v.slices.length ∧ v.backrefs = [] := by
  obtain ⟨hs, v, hv, hd⟩ := decRunA_dpw p pol tun calls w' dr res h
  exact ⟨hs.onlyIov, hs.noArena, hs.noASlice, v, hv, hd.count, hd.nopend⟩

/-! ### Non-vacuity -/

private def tp : Params := ⟨3, 5, 253⟩
private def tun : Tuning := ⟨[4096, 8192], 4096⟩

-- a decoder run with a borrowed piece that stays borrowed, a copied one, and a partial drain
example : (decRun tp ⟨0, 0⟩ tun [.feed .borrow [2, 7, 8], .feed .copy [2, 0, 9, 9], .consume 1]).map
    (fun x => ((x.1.iov 0).map (fun v => (v.slices, v.anchors)), x.1.liveChunks,
      (match x.2.2 with | .ok _ => true | .error _ => false))) =
    some (some ([⟨.chunk 0, 0, 4⟩], [⟨1, some 0⟩]), [0], true) := by decide +kernel
-- `HeadPos` fails along decoder runs with anchored input: header-only bytes, then `push_anchor` on an empty deque
example : (decRunA tp ⟨0, 0⟩ tun [.read 4 1 [2] [.deliver 1]]).map
    (fun x => (x.1.iov 0).map (fun v => (v.slices, v.anchors))) =
    some (some ([], [⟨0, some 0⟩])) := by decide +kernel
example : ¬ HeadPos [(⟨0, some 0⟩ : Anchor)] := fun h => absurd (h _ rfl) (by decide)

/-! ### StreamChunker chunks / StreamReader records: what is missing

`Model/Stream.lean` / `Model/StreamP.lean` model the reader and the chunker at the level of BYTES: a chunk
or record is a `List UInt8` (with its byte range), `read_n` is `ReadN.readNCore` (what is delivered), and the
arena / iovec the Rust objects use (`StreamChunker`: one `ByteArena`, `read_n` block + carry-over prefix
copied to the front of the next block; `StreamReader`: a `Decoder` whose iovec is `clear`ed and re-used per
record, fed through `decode_anchored` of chunk slices) do not appear.  A theorem "the slices a chunk /
record hands out are `Live` in the reader's world" therefore has no object to be about yet.  What it needs:
(1) a `World`-level chunker (`arena : Nat` handle; `pump` = `World.readNArena` + `ASlice.skipPrefix` /
`splitAt` of the returned slice + `copy` of the carried-over prefix), whose chunks are detached `ASlice`s —
`C05.detached_anchored` / `exposed_live` (2) then give liveness directly, every such history being a `WOp`
history (`readNArena`, `sSplit`, `sSkip`, `sDrop` are op words); (2) a `World`-level reader = that chunker
plus `decodeAnchored` into iovec 0 and `WOp.clear` per record — which needs the guard invariant along
anchored decoder calls (the item NOT proved above).  The correspondence families `reader` / `chunker` and
the harness containment oracle (every exposed slice ⊆ a live registry range, hook H1) cover these objects
today; no Lean theorem does. -/

end Woodpile.Props.C05H

/-
C01 on what the real `Encoder` / `Decoder` drive — a structural `OwningIovec` — for ALL input methods
(track `anch`).  `Props/C01W.lean` states these theorems for the borrow and copy methods only
(`_partial`); here the restriction is lifted: the call vocabulary `EncWorld.ACall` is `EncWorld.Call`
(borrow / copy pieces, `consume`, `advance`) plus

    ACall.read count attempts src script   =   encode_read(reader, count, attempts)
                                           =   encode_anchored(self.read_n(reader, count, attempts)?)

with an arbitrary scripted reader (`ReadN.Reader`: short deliveries, `Interrupted`, hard errors, EOF):
`read_n` into the codec's OWN arena (`EncWorld.readOwn` = `World.readN` on the iovec's arena: fresh
allocation, unread tail released — `Props/C17.lean`), then `encode(slice)` — the state machine's
borrowed appends become `OwningIovec::push` of sub-slices of that chunk slice, copied when small,
borrowed and possibly merged with the previous slice otherwise — then `push_anchor(anchor)`
(`Model/EncWorld.lean`: `encodeRead`, `encodeAnchored`, `decodeRead`, `decodeAnchored`; these are the
functions `Driver/CodecW.lean` replays for the op words `feed a` and `feed_read` of the correspondence
family `codecw`).  A failed read encodes nothing and the codec lives on.

Anchored input that lives in a FOREIGN arena is, as far as the iovec's content is concerned, a borrowed
push of memory that outlives the iovec (kept alive by the pushed anchor — that is C05's concern); its
content side is the borrow method (`Call.feed .borrow`, `XOp.lend`).

At the level of the state machines the anchored method IS the borrow method (`encode_anchored` calls
`self.encode(slice)`), which is why `EncWorld.apieces` lists an anchored piece as `(.borrow, bytes read)`
and `Hcobs.Method` has no third constructor.

The old vocabulary is embedded: `run_extends` (`encRunA (calls.map .call) = encRun calls`, same for the
decoder), so every theorem below specialises to its `_partial` namesake in `Props/C01W.lean`.

What changed underneath (`Proofs/IovecInv.lean`): the single-iovec invariant `IovInv` no longer says that
owned slices are in allocation order (sub-slices of one `read_n` allocation are pushed with copied size
headers — allocated later, hence above — in between) but only that they are pairwise disjoint; and
anchors may have count zero (`push_anchor`).  Lemmas: `Proofs/IovecAnch.lean` (held arena slices),
`Proofs/EncWorldAnch.lean`.
-/
import Woodpile.Proofs.EncWorldAnch
import Woodpile.Props.C01

namespace Woodpile.Props.C01G
open Woodpile.Hcobs Woodpile.Iovec Woodpile.Arena Woodpile.EncWorld
open Woodpile.Pipe (Cell Pipe Ev runEv prodOps)

/-- The full vocabulary extends the old one: a call list without anchored calls runs exactly as in
`Props/C01W.lean`, with the same pieces. -/
theorem run_extends (p : Params) (pol : Policy) (tun : Tuning) (calls : List Call) :
    encRunA p pol tun (calls.map .call) = encRun p pol tun calls ∧
    decRunA p pol tun (calls.map .call) = decRun p pol tun calls ∧
    apieces (calls.map .call) = pieces calls ∧ ainputOf (calls.map .call) = inputOf calls :=
  ⟨encRunA_call p pol tun calls, decRunA_call p pol tun calls, apieces_call calls, ainputOf_call calls⟩

/-- The bytes an anchored call feeds are what `read_n` returned: the delivered prefix of the reader's
stream (`Props/C17.read_n_spec`), nothing on failure; as a piece, it is a borrow-method piece. -/
theorem read_piece (count attempts : Nat) (src : List UInt8) (script : List ReadN.Ev) :
    apieces [.read count attempts src script] =
      match (ReadN.readNCore ⟨src, script⟩ count attempts).res with
      | .ok got => [(.borrow, got)]
      | .err _ => [] := by
  cases h : (ReadN.readNCore ⟨src, script⟩ count attempts).res <;> simp [apieces, readPiece, h]

/-- Panic-freedom, all input methods: for every call list the composed run returns (`some`): no
`backfill_or_panic`, `push_back_or_panic`, anchor-count (`maybe_collapse_last_pair`, `consume` with
zero-count anchors in the deque) or underflow assertion of the iovec model, and no assertion of the
encoder, is reachable.  Between calls the iovec satisfies the structural invariant `IovInv`. -/
theorem encWorld_no_panic (p : Params) (hp : p.Valid) (pol : Policy) (tun : Tuning) (calls : List ACall) :
    (∃ r v, encPrefixA p pol tun calls = some r ∧ r.w.iov 0 = some v ∧ IovInv r.w v) ∧
    (∃ w' dr v', encRunA p pol tun calls = some (w', dr) ∧ w'.iov 0 = some v' ∧ IovInv w' v') := by
  obtain ⟨r, acc, h1, ⟨v, q, evs, hv, hsim, _⟩, _⟩ := encPrefixA_inv p hp pol tun calls
  obtain ⟨w', v', dr, _, k1, k2, k3, _⟩ := encRunA_sim p hp pol tun calls
  exact ⟨⟨r, v, h1, hv, hsim.inv⟩, ⟨w', dr, v', k1, k2, k3⟩⟩

/-- The run as an explicit operation list, all input methods: the composed run IS the run (`axrun`) of
`encRunOpsA` on iovec 0 of the fresh world, ending in the same world with the same drained bytes.  The
operations are those of `C01W.encWorld_is_ops_partial` (`XOp`: the C03/C04 vocabulary `Woodpile.Iovec.Op`,
`lend`, `pushAt`), plus, for an anchored call, `readN` (the read into the own arena), `pushAt` of
sub-slices of the returned CHUNK slice, and `pushAnchor`. -/
theorem encWorld_is_ops (p : Params) (hp : p.Valid) (pol : Policy) (tun : Tuning) (calls : List ACall) :
    ∃ w' dr n rs, encRunA p pol tun calls = some (w', dr) ∧
      axrun 0 (State.init pol tun) (encRunOpsA p pol tun calls) = some (⟨w', dr, n⟩, rs) := by
  obtain ⟨w', v', dr, _, k1, _⟩ := encRunA_sim p hp pol tun calls
  obtain ⟨n, rs, h⟩ := encRunA_axrun p pol tun calls w' dr k1
  exact ⟨w', dr, n, rs, k1, h⟩

/-- Between calls, all input methods: the iovec's abstraction is the abstract pipe reached by running
the encoder's emits so far with some drain schedule interleaved, up to the renaming of placeholder ids
(pipe id `j` ↦ key of the `j`-th token); the drained bytes are the pipe's consumed log; the emits so
far followed by `finish`'s are `Enc.runPieces` of the pieces fed. -/
theorem encWorld_abs_between_calls (p : Params) (hp : p.Valid) (pol : Policy) (tun : Tuning)
    (calls : List ACall) :
    ∃ r v evs acc, encPrefixA p pol tun calls = some r ∧ r.w.iov 0 = some v ∧
      absCells r.w v = (runEv Woodpile.Pipe.empty evs).cells.map (renameCell (tokKey r.e.toks)) ∧
      r.drained = (runEv Woodpile.Pipe.empty evs).consumed ∧
      prodOps evs = acc.map (·.op) ∧ Enc.runPieces p (apieces calls) = acc ++ Enc.finish p r.e.st := by
  obtain ⟨r, acc, h1, ⟨v, q, evs, hv, hsim, hq, hev, _⟩, h3⟩ := encPrefixA_inv p hp pol tun calls
  subst hq
  exact ⟨r, v, evs, acc, h1, hv, hsim.cells, hsim.ghost, hev, h3⟩

/-- After `finish`, all input methods: the iovec's abstraction EQUALS the abstract pipe obtained by
running exactly the emits of `Enc.runPieces` (the run `Props/C01.lean` is about) under some drain
schedule, and the drained bytes are that pipe's consumed log. -/
theorem encWorld_abs (p : Params) (hp : p.Valid) (pol : Policy) (tun : Tuning) (calls : List ACall) :
    ∃ w' dr v' evs, encRunA p pol tun calls = some (w', dr) ∧ w'.iov 0 = some v' ∧
      prodOps evs = (Enc.runPieces p (apieces calls)).map (·.op) ∧
      absCells w' v' = (runEv Woodpile.Pipe.empty evs).cells ∧
      dr = (runEv Woodpile.Pipe.empty evs).consumed := by
  obtain ⟨w', v', dr, evs, k1, k2, _, k4, k5, k6, _⟩ := encRunA_sim p hp pol tun calls
  exact ⟨w', dr, v', evs, k1, k2, k4, k5, k6⟩

/-- C01, encoder half, all input methods: after `finish`, for every segmentation, every method per
piece among borrow / copy / anchored (any reader behaviour), every drain schedule, the bytes drained
so far followed by `flatten` of the iovec are `Spec.encode p` of the concatenated input;
`has_pending_backrefs` is false, and everything buffered is in the stable prefix. -/
theorem enc_world_output (p : Params) (hp : p.Valid) (pol : Policy) (tun : Tuning) (calls : List ACall) :
    ∃ w' dr v', encRunA p pol tun calls = some (w', dr) ∧ w'.iov 0 = some v' ∧
      dr ++ w'.flat v'.slices = Spec.encode p (ainputOf calls) ∧
      v'.hasPending = false ∧ w'.visible v' = w'.flat v'.slices := by
  obtain ⟨w', v', dr, evs, k1, k2, _, _, _, _, k7, k8, k9⟩ := encRunA_sim p hp pol tun calls
  exact ⟨w', dr, v', k1, k2, k8, k7, k9⟩

/-- … hence decoding what came out, cut into any pieces and fed by any methods to the decoder state
machine, gives back the input. -/
theorem world_roundtrip (p : Params) (hp : p.Valid) (pol : Policy) (tun : Tuning) (calls : List ACall)
    (wire : List (Method × List UInt8)) :
    ∃ w' dr v', encRunA p pol tun calls = some (w', dr) ∧ w'.iov 0 = some v' ∧
      ((wire.map (·.2)).flatten = dr ++ w'.flat v'.slices → Dec.output p wire = .ok (ainputOf calls)) := by
  obtain ⟨w', dr, v', k1, k2, k3, _⟩ := enc_world_output p hp pol tun calls
  refine ⟨w', dr, v', k1, k2, fun hw => ?_⟩
  have h := DecProof.decode_agrees p (wire.map (·.2)).flatten
  rw [← DecProof.output_eq_decRun, hw, k3, Spec.decode_encode p hp] at h
  exact h

/-- C01, decoder half, all input methods (`ACall.read` = `decode_read`: `read_n` into the decoder's own
arena, `decode(slice)`, `push_anchor`): for every segmentation, method choice, reader behaviour and
drain schedule the decoder's run on the structural iovec never panics; its verdict is `Ok` exactly when
`Spec.decode` accepts the concatenated input, and then the drained bytes followed by `flatten` of the
iovec are the decoded data; an error is the one the batch classifier assigns to the input.  In every
case no backref is pending and everything buffered is in the stable prefix. -/
theorem dec_world_output (p : Params) (hp : p.Valid) (pol : Policy) (tun : Tuning) (calls : List ACall) :
    ∃ w' dr res v', decRunA p pol tun calls = some (w', dr, res) ∧ w'.iov 0 = some v' ∧ IovInv w' v' ∧
      v'.hasPending = false ∧ w'.visible v' = w'.flat v'.slices ∧
      (res = .ok () ↔ ∃ d, Spec.decode p (ainputOf calls) = some d) ∧
      (res = .ok () → Spec.decode p (ainputOf calls) = some (dr ++ w'.flat v'.slices)) ∧
      (∀ e, res = .error e ↔ DecProof.decodeE p (ainputOf calls) = .error e) := by
  obtain ⟨w', v', dr, res, h1, h2, h3, h4, h5, h6, h7, h8⟩ := decRunA_sim p pol tun calls
  obtain ⟨r1, r2⟩ := C01.dec_impl_refines_spec p hp (apieces calls)
  refine ⟨w', dr, res, v', h1, h2, h3, h4, h5, ?_, ?_, ?_⟩
  · rw [h8]
    constructor
    · rintro ⟨d, hd⟩; exact ⟨d, (r1 d).2 hd⟩
    · rintro ⟨d, hd⟩; exact ⟨d, (r1 d).1 hd⟩
  · intro hr
    exact (r1 _).2 (h7.1 hr)
  · intro e
    rw [h6 e, C01.dec_error_classified]; rfl

/-- C01 on both real data paths, all input methods on both sides: whatever comes out of the encoder's
iovec (drained ++ flattened, any calls), fed in any pieces, by any of the three methods, under any
drain schedule, to a decoder driving its own iovec, is accepted, and what comes out of THAT iovec is
the original input. -/
theorem world_roundtrip_both (p : Params) (hp : p.Valid) (pol pol' : Policy) (tun tun' : Tuning)
    (calls wire : List ACall) :
    ∃ w1 dr1 v1 w2 dr2 res v2, encRunA p pol tun calls = some (w1, dr1) ∧ w1.iov 0 = some v1 ∧
      decRunA p pol' tun' wire = some (w2, dr2, res) ∧ w2.iov 0 = some v2 ∧
      (ainputOf wire = dr1 ++ w1.flat v1.slices → res = .ok () ∧ dr2 ++ w2.flat v2.slices = ainputOf calls) := by
  obtain ⟨w1, dr1, v1, k1, k2, k3, _⟩ := enc_world_output p hp pol tun calls
  obtain ⟨w2, dr2, res, v2, j1, j2, _, _, _, j6, j7, _⟩ := dec_world_output p hp pol' tun' wire
  refine ⟨w1, dr1, v1, w2, dr2, res, v2, k1, k2, j1, j2, fun hw => ?_⟩
  have hd : Spec.decode p (ainputOf wire) = some (ainputOf calls) := by
    rw [hw, k3]; exact Spec.decode_encode p hp _
  have hok : res = .ok () := j6.2 ⟨_, hd⟩
  have := j7 hok
  rw [hd] at this
  exact ⟨hok, (Option.some.inj this).symm⟩

/-! ### Non-vacuity: the crate's vector `"1234\xFE\xFE\xFD"`, test parameters ⟨3, 5⟩, anchored input -/

def tp : Params := ⟨3, 5, 253⟩
/-- production thresholds 64 / 256 -/
def exPol : Policy := ⟨64, 256⟩
/-- never copy: every piece of an anchored slice stays a borrowed slice of the arena chunk -/
def noCopy : Policy := ⟨0, 0⟩
def exTun : Tuning := ⟨[4096, 8192], 4096⟩

/-- (drained, flattened rest, has_pending) after a whole run -/
def obs (pol : Policy) (calls : List ACall) : Option (List UInt8 × List UInt8 × Bool) :=
  (encRunA tp pol exTun calls).bind fun x => (x.1.iov 0).map fun v => (x.2, x.1.flat v.slices, v.hasPending)

/-- ((offset, length) of the slices — all in chunk 0 here —, anchor counts) after a whole run -/
def shape (pol : Policy) (calls : List ACall) : Option (List (Nat × Nat) × List Nat) :=
  (encRunA tp pol exTun calls).bind fun x => (x.1.iov 0).map fun v =>
    (v.slices.map (fun s => (s.off, s.len)), v.anchors.map (·.count))

-- the whole vector read in one `encode_read` (a reader that delivers 5 then 2 bytes); with the
-- production thresholds every piece is copied: the 1-byte header placeholder at offset 0 (allocated by
-- `Encoder::new`, before the 7-byte `read_n` allocation at 1..8), everything else merged into one slice
-- above it; the pushed anchor (count 0) sits at the back of the anchor deque
example : obs exPol [.read 7 4 [0x31, 0x32, 0x33, 0x34, 0xFE, 0xFE, 0xFD] [.deliver 5, .deliver 9]]
    = some ([], [3, 0x31, 0x32, 0x33, 2, 0, 0x34, 0xFE, 0, 0], false) := by decide +kernel
example : shape exPol [.read 7 4 [0x31, 0x32, 0x33, 0x34, 0xFE, 0xFE, 0xFD] [.deliver 5, .deliver 9]]
    = some ([(0, 1), (8, 9)], [2, 0]) := by decide +kernel
-- policy ⟨0,0⟩: "123" and "4\xFE" stay BORROWED sub-slices of the `read_n` allocation (offsets 1..4 —
-- merged by `optimize` with the header placeholder at 0 into (0, 4) — and 4..6), the second one BELOW the
-- size header copied after the read (offset 8) that precedes it in the iovec: slices of one chunk out of
-- allocation order, the reason `IovInv.ordered` had to become pairwise disjointness
example : obs noCopy [.read 7 4 [0x31, 0x32, 0x33, 0x34, 0xFE, 0xFE, 0xFD] [.deliver 7]]
    = some ([], [3, 0x31, 0x32, 0x33, 2, 0, 0x34, 0xFE, 0, 0], false) := by decide +kernel
example : shape noCopy [.read 7 4 [0x31, 0x32, 0x33, 0x34, 0xFE, 0xFE, 0xFD] [.deliver 7]]
    = some ([(0, 4), (8, 2), (4, 2), (10, 2)], [4, 0]) := by decide +kernel
example : Spec.encode tp [0x31, 0x32, 0x33, 0x34, 0xFE, 0xFE, 0xFD] = [3, 0x31, 0x32, 0x33, 2, 0, 0x34, 0xFE, 0, 0] := by
  decide
-- mixed methods mid-chunk, a short read after an `Interrupted`, an EOF read, a failed read (hard error:
-- nothing encoded), drains by slices and by bytes
example : obs noCopy [.call (.feed .borrow [0x31]), .read 5 3 [0x32, 0x33, 0x34, 0xFE, 0xFE] [.err 0, .deliver 2],
      .call (.consume 9), .read 4 2 [] [.eof], .read 4 2 [9, 9] [.err 5], .call (.feed .copy [0x34, 0xFE]),
      .call (.advance 1), .read 2 1 [0xFE, 0xFD] [.deliver 2]]
    = some ([3, 0x31], [0x32, 0x33, 2, 0, 0x34, 0xFE, 0, 0], false) := by decide +kernel
example : shape noCopy [.call (.feed .borrow [0x31]), .read 5 3 [0x32, 0x33, 0x34, 0xFE, 0xFE] [.err 0, .deliver 2],
      .call (.consume 9), .read 4 2 [] [.eof], .read 4 2 [9, 9] [.err 5], .call (.feed .copy [0x34, 0xFE]),
      .call (.advance 1), .read 2 1 [0xFE, 0xFD] [.deliver 2]]
    = some ([(1, 4), (5, 1), (8, 3)], [1, 2, 0]) := by decide +kernel
example : ainputOf [.call (.feed .borrow [0x31]), .read 5 3 [0x32, 0x33, 0x34, 0xFE, 0xFE] [.err 0, .deliver 2],
      .call (.consume 9), .read 4 2 [] [.eof], .read 4 2 [9, 9] [.err 5], .call (.feed .copy [0x34, 0xFE]),
      .call (.advance 1), .read 2 1 [0xFE, 0xFD] [.deliver 2]]
    = [0x31, 0x32, 0x33, 0x34, 0xFE, 0xFE, 0xFD] := by decide
-- the operation list of a small anchored run (policy ⟨0,0⟩)
example : encRunOpsA tp noCopy exTun [.read 4 1 [0x31, 0x32, 0x33, 0x34] [.deliver 4]]
    = [.x (.op (.registerPatch [0])), .readN 4 1 [0x31, 0x32, 0x33, 0x34] [.deliver 4],
       .x (.pushAt ⟨.chunk 0, 1, 3⟩), .x (.op (.backfill (some (1, ⟨0, 0, 1⟩)) [3])), .x (.op (.registerPatch [0, 0])),
       .x (.pushAt ⟨.chunk 0, 4, 1⟩), .pushAnchor ⟨1, some 0⟩, .x (.op (.backfill (some (6, ⟨1, 0, 2⟩)) [1, 0]))] := by
  decide +kernel

/-- (error if any, drained, flattened rest, has_pending) after a decoder run -/
def dobs (pol : Policy) (calls : List ACall) : Option (Option DecErr × List UInt8 × List UInt8 × Bool) :=
  (decRunA tp pol exTun calls).bind fun x => (x.1.iov 0).map fun v =>
    ((match x.2.2 with | .ok _ => none | .error e => some e), x.2.1, x.1.flat v.slices, v.hasPending)

-- the wire image, read in two `decode_read` calls (split inside the 2-byte header) with a copy in between
example : dobs noCopy [.read 5 2 [3, 0x31, 0x32, 0x33, 2] [.deliver 5], .call (.consume 9), .call (.feed .copy [0]),
      .read 9 3 [0x34, 0xFE, 0, 0] [.deliver 1, .err 0, .deliver 8]]
    = some (none, [0x31, 0x32, 0x33], [0x34, 0xFE, 0xFE, 0xFD], false) := by decide +kernel
-- a decoding error inside an anchored piece: the anchor is pushed all the same, the verdict is the error
example : dobs exPol [.read 2 1 [0, 0xFD] [.deliver 2]]
    = some (some (.invalidHeaderByte false 0xFD), [], [0xFE, 0xFD], false) := by decide +kernel

end Woodpile.Props.C01G

/-
C20 with a PER-CLONE premise (track `wabs`; audit gap 13).

`Props/C20.clone_independent` needs `CReach`: EVERY `clone` anywhere in the history found nothing pending.
The property speaks of THIS clone.  Here the premise is per object / per pair, and the history is
arbitrary (`GReach` = reachable with its capacity ghost; other iovecs may be cloned with placeholders
pending, before or after):

* `NoShare w X Y` — no slice of iovec `Y` covers a byte of a pending placeholder range of iovec `X` — is
  preserved by EVERY step of EVERY history, for every pair of handles that exist (`no_share_preserved`,
  `no_share_along_run`);
* the clone in question, taken with nothing pending, has `NoShare` with its original both ways
  (`this_clone_shares_nothing`);
* under `NoShare w X Y`, every operation through `X` — `backfill` included — leaves the model value, the
  invariant and every byte of `Y` unchanged (`independent_step_w`);
* together (`clone_independent_w`): after `clone i` taken with nothing pending, along ANY later history,
  every operation on either side leaves the other side's value and bytes unchanged.

`Props/C20.lean` keeps the global versions (`pending_private`, `clone_independent`); `private_gives_no_share`
relates the two.  The counter-example of `Props/C20.lean` (a clone taken WHILE a placeholder is pending)
shows the premise is needed.
-/
import Woodpile.Proofs.IovecWPriv
import Woodpile.Proofs.IovecWLedger

namespace Woodpile.Props.C20W
open Woodpile.Iovec Woodpile.Arena

/-- In every reachable world: the backref bookkeeping of every iovec is sane, and no DETACHED anchored
slice covers a pending placeholder range of any iovec — with no premise on how clones were taken. -/
theorem reachable_base {w : World} {caps : Nat → Nat} (hg : GReach w caps) : Base w := hg.base

/-- `NoShare` is preserved by every step, for every pair of existing handles. -/
theorem no_share_preserved {w w' : World} {caps : Nat → Nat} {op : WOp} (hg : GReach w caps) (h : w.step op = some w')
    {X Y : Nat} (hXY : X ≠ Y) (hX : X < w.iovs.length) (hY : Y < w.iovs.length) (hns : NoShare w X Y) :
    NoShare w' X Y :=
  noShare_step hg h hXY hX hY hns

/-- … hence along every history. -/
theorem no_share_along_run {w w' : World} {caps : Nat → Nat} (hg : GReach w caps) (ops : List WOp)
    (h : w.run ops = some w') {X Y : Nat} (hXY : X ≠ Y) (hX : X < w.iovs.length) (hY : Y < w.iovs.length)
    (hns : NoShare w X Y) : NoShare w' X Y :=
  noShare_run hXY ops w w' caps hg h hX hY hns

/-- THIS clone, taken with nothing pending: original and clone share no placeholder memory. -/
theorem this_clone_shares_nothing {w w' : World} {i : Nat} {v : Iov} (h : w.step (.clone i) = some w')
    (hv : w.iov i = some v) (hnp : v.backrefs = []) :
    NoShare w' i w.iovs.length ∧ NoShare w' w.iovs.length i :=
  noShare_clone h hv hnp

/-- `take` moves the relation with the value (the fresh handle stands where the taken one stood), and a
clone inherits what its original shares with third parties: so a pair of iovecs shares placeholder memory
only through a lineage of `take`s back to a `clone` taken while the placeholder was pending. -/
theorem no_share_moves_with_take {w w' : World} {i : Nat} (h : w.step (.take i) = some w') {X : Nat}
    (hX : X ≠ w.iovs.length) (hXi : X ≠ i) :
    (NoShare w X i → NoShare w' X w.iovs.length) ∧ (NoShare w i X → NoShare w' w.iovs.length X) :=
  noShare_take h hX hXi

theorem no_share_inherited_by_clone {w w' : World} {i : Nat} (h : w.step (.clone i) = some w') {X : Nat}
    (hX : X ≠ w.iovs.length) :
    (NoShare w X i → NoShare w' X w.iovs.length) ∧ (NoShare w i X → NoShare w' w.iovs.length X) :=
  noShare_clone_other h hX

/-- In a history in which every clone found nothing pending (the global premise of `Props/C20.lean`) the
side condition `FillPrivate` of `Props/C03W.lean` / `C04W.lean` holds at every step. -/
theorem fill_private_of_clean_clones {w : World} {caps : Nat → Nat} (hr : CReach w caps) (op : WOp) :
    FillPrivate w op :=
  fun _ _ _ _ _ hj => noShare_of_private hr.priv.priv (fun e => hj e.symm)

/-- One iovec against all others: `Unshared w i` (no slice of `i` covers a pending placeholder range of any
other iovec) is preserved by every step of every history, except a `clone` of `i` itself taken while `i` has a
placeholder pending.  An iovec without slices (fresh, cleared, taken-from) is `Unshared`. -/
theorem unshared_preserved {w w' : World} {caps : Nat → Nat} {op : WOp} {i : Nat} (hg : GReach w caps)
    (h : w.step op = some w') (hi : i < w.iovs.length) (hu : Unshared w i)
    (hc : ∀ v, op = .clone i → w.iov i = some v → v.backrefs = []) : Unshared w' i :=
  unshared_step hg h hi hu hc

theorem unshared_when_empty {w : World} {i : Nat} (h : ∀ v, w.iov i = some v → v.slices = []) : Unshared w i :=
  unshared_of_no_slices h

/-- The global premise of `Props/C20.lean` implies the pairwise one, for every pair. -/
theorem private_gives_no_share {w : World} (hp : PendingPrivate w) {X Y : Nat} (hXY : X ≠ Y) : NoShare w X Y :=
  noShare_of_private hp hXY

/-- One step that does not name `Y`: `Y` keeps its model value and every byte of every slice — for every
op but `backfill` unconditionally, for a `backfill` through `X` under `NoShare w X Y`. -/
theorem independent_step_w {w w' : World} {caps : Nat → Nat} {op : WOp} (hg : GReach w caps) (h : w.step op = some w')
    {Y : Nat} {vY : Iov} (hY : w.iov Y = some vY) (hj : op.iovTarget ≠ some Y)
    (hns : ∀ X b bs, op = .backfill X b bs → NoShare w X Y) :
    w'.iov Y = some vY ∧ ∀ s ∈ vY.slices, w'.sliceBytes s = w.sliceBytes s := by
  refine ⟨step_frame_iov h hY hj, ?_⟩
  intro s hs
  by_cases hb : ∃ X b bs, op = .backfill X b bs
  · obtain ⟨X, b, bs, rfl⟩ := hb
    exact backfill_bytes_noShare hg hY (hns X b bs rfl) h hs
  · exact step_bytes_unchanged hg h (fun i b bs e => hb ⟨i, b, bs, e⟩) (Or.inl ⟨Y, vY, hY, hs⟩)
      ((hg.reachable.inv.iovOk Y vY hY).extOk s hs)

/-- `clone_independent`, per clone.  `w1` is ANY reachable world (its history may contain clones taken with
placeholders pending, of other iovecs or of this one earlier).  `clone i` is taken while `i` has NOTHING
pending; `j` is the clone.  Then along ANY later history `ops` (arbitrary operations on any objects — more
clones, with or without pending placeholders, included), at every later state `w3`: every operation that
names one side (`i` or `j`) — pushes that extend or merge slices, placeholder registration and BACKFILL,
consumption, `clear`, `drop`, `take`, arena traffic — leaves the other side's model value and the bytes
of all its slices unchanged. -/
theorem clone_independent_w {w1 w2 w3 w4 : World} {caps1 : Nat → Nat} {i : Nat} {v : Iov} (hg : GReach w1 caps1)
    (hv : w1.iov i = some v) (hnp : v.backrefs = []) (hc : w1.step (.clone i) = some w2)
    (ops : List WOp) (hrun : w2.run ops = some w3) (op : WOp) (hstep : w3.step op = some w4) :
    let j := w1.iovs.length
    (op.iovTarget = some i → ∀ vj, w3.iov j = some vj →
      w4.iov j = some vj ∧ ∀ s ∈ vj.slices, w4.sliceBytes s = w3.sliceBytes s) ∧
    (op.iovTarget = some j → ∀ vi, w3.iov i = some vi →
      w4.iov i = some vi ∧ ∀ s ∈ vi.slices, w4.sliceBytes s = w3.sliceBytes s) := by
  intro j
  have hij : i ≠ j := Nat.ne_of_lt (iov_lt_of_some hv)
  obtain ⟨caps2, ho, hn⟩ := (step_astep hc).exists_caps hg.reachable.inv hg.inv
  have hg2 : GReach w2 caps2 := hg.step hc ho hn
  obtain ⟨n1, n2⟩ := noShare_clone hc hv hnp
  have hlen : w2.iovs.length = w1.iovs.length + 1 := by
    have := (step_book hc).1
    simpa [WOp.creates] using this
  have hi2 : i < w2.iovs.length := by have := iov_lt_of_some hv; omega
  have hj2 : j < w2.iovs.length := by show w1.iovs.length < _; omega
  have m1 : NoShare w3 i j := noShare_run hij ops w2 w3 caps2 hg2 hrun hi2 hj2 n1
  have m2 : NoShare w3 j i := noShare_run (fun e => hij e.symm) ops w2 w3 caps2 hg2 hrun hj2 hi2 n2
  -- `w3` is reachable
  obtain ⟨caps3, hg3⟩ : ∃ caps3, GReach w3 caps3 := by
    have hr2 := hg2.reachable
    obtain ⟨pol, tun, ops0, h0⟩ := hr2
    exact Reachable.exists_caps ⟨pol, tun, ops0 ++ ops, by rw [run_append, h0]; exact hrun⟩
  refine ⟨?_, ?_⟩
  · intro ht vj hvj
    refine independent_step_w hg3 hstep hvj (by rw [ht]; intro e; exact hij (Option.some.inj e)) ?_
    intro X b bs e
    subst e
    simp only [WOp.iovTarget, Option.some.injEq] at ht
    subst ht
    exact m1
  · intro ht vi hvi
    refine independent_step_w hg3 hstep hvi (by rw [ht]; intro e; exact hij (Option.some.inj e).symm) ?_
    intro X b bs e
    subst e
    simp only [WOp.iovTarget, Option.some.injEq] at ht
    subst ht
    exact m2

/-! ### Non-vacuity -/

private def pol : Policy := ⟨64, 256⟩
private def tun : Tuning := ⟨[4096, 8192], 4096⟩

/-- A history that is NOT `CReach` (handle 0 is cloned while a placeholder is pending → handle 1), followed
by a clone of handle 2 taken with nothing pending (→ handle 3): the premise of `clone_independent_w` holds
for THIS clone although the global premise of `Props/C20.clone_independent` fails for the history. -/
def exPre : List WOp :=
  [.new, .pushCopy 0 [1], .register 0 [0, 0], .clone 0, .new, .pushCopy 2 [4, 5]]

example : ((World.init pol tun).runC (exPre ++ [.clone 2])).isNone = true := by decide
example : ((World.init pol tun).run exPre).map (fun w => ((w.iov 2).map (·.backrefs), w.iovs.length)) =
    some (some [], 3) := by decide
-- after the clean clone: register + backfill on the original, more traffic on both sides, a pending
-- clone of the original later on; the clone (handle 3) still reads its snapshot, the original its own.
example : ((World.init pol tun).run (exPre ++ [.clone 2, .register 2 [0, 0], .pushCopy 3 [6], .clone 2,
    .backfill 2 1 [8, 9], .backfill 0 0 [7, 7]])).map
    (fun w => ((w.iov 3).map (fun v => v.slices.flatMap w.sliceBytes),
               (w.iov 2).map (fun v => v.slices.flatMap w.sliceBytes))) =
    some (some [4, 5, 6], some [4, 5, 8, 9]) := by decide
-- `NoShare` between the clean pair holds at the end (checked by evaluation), and fails for the pending pair.
example : ((World.init pol tun).run (exPre ++ [.clone 2, .register 2 [0, 0], .pushCopy 3 [6]])).map
    (fun w => (w.noShareB 2 3, w.noShareB 3 2, w.noShareB 0 1)) = some (true, true, false) := by decide

end Woodpile.Props.C20W

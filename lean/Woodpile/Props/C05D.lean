/-
C05 along decoder SESSIONS — across errors, `Read` drains included (track apileft, helper decw).

`Props/C05H.lean` establishes `WorldInv ∧ ArenaInv` along decoder runs that stop at the first decoding error
(`EncWorldComp.decRun`: borrowed / copied input, `consume` / `advance_slices`).  The `Decoder` object lives on
after an error (`Props/C07W.lean`): here the same invariants are carried through the failed call (which has
applied the emits that precede the rejected byte: `EncClosed.emit`; the state it leaves, `InitialState`, waits
for no chunk: `DecSmall`), through every later call, and through drains by `impl Read for ConsumingIovec`
(`World.readInto` = iterated `advance_slices`: `EncClosed.advance`).

Vocabulary: the `EncWorld.BCall` lists without anchored read (`EncWorld.Plain`: borrow / copy pieces,
`consume`, `advance_slices`, `Read`) — the guard half of `WorldInv` along ANCHORED calls is the item
`Props/C05H.lean` states as not proved, and is not proved here either; `IovInv` (every slice non-empty and in
bounds, bytes as appended) holds for all input methods: `Props/C07W.dec_world_session_never_panics`.
-/
import Woodpile.Proofs.EncWorldDec
import Woodpile.Props.C05G

namespace Woodpile.Props.C05D
open Woodpile.Hcobs Woodpile.Iovec Woodpile.Arena Woodpile.EncWorld

/-- Decoder sessions (borrowed / copied input, any drains incl. `Read`, any number of calls that returned
`Err`): the C05 invariants hold at every call boundary — no side condition. -/
theorem dec_session_arenaInv (p : Params) (pol : Policy) (tun : Tuning) (calls : List BCall) (hpl : Plain calls)
    (r : DRun) (h : decSessB p pol tun calls = some r) :
    WorldInv r.w ∧ ∃ caps, ArenaInv r.w caps :=
  (decCallsB_closed (good_closed (max 2 (max p.maxInit p.maxSub))) p (by omega) (by omega) 0 calls
    ⟨World.fresh pol tun, .initial, [], []⟩ r hpl trivial (good_fresh pol tun) h).1

/-- Run level: the session's world (handle table empty: a decoder registers nothing) is literally the world
after a `WOp` history from `World.init`, errors or not: every theorem of `Props/C05`, `C10`, `C20` about
`Reachable` worlds applies to it as stated. -/
theorem dec_session_is_wrun (p : Params) (pol : Policy) (tun : Tuning) (calls : List BCall) (hpl : Plain calls)
    (r : DRun) (h : decSessB p pol tun calls = some r) :
    Reachable (r.w.wb []) := by
  obtain ⟨wops, hr⟩ := (decCallsB_closed (lit_closed pol tun (max 2 (max p.maxInit p.maxSub))) p (by omega) (by omega)
    0 calls ⟨World.fresh pol tun, .initial, [], []⟩ r hpl trivial (lit_fresh pol tun) h).1
  exact ⟨pol, tun, wops, hr⟩

/-- `C05.exposed_live` for the session's world: every slice `stable_prefix()` exposes — after any errors —
lies in a live chunk its own anchors hold, inside the chunk's capacity. -/
theorem dec_session_exposed_live (p : Params) (pol : Policy) (tun : Tuning) (calls : List BCall) (hpl : Plain calls)
    (r : DRun) (h : decSessB p pol tun calls = some r) :
    ∃ caps : Nat → Nat,
    (∀ i v n, r.w.iov i = some v → v.stableCount = some n → ∀ s ∈ v.slices.take n,
      Live r.w s ∧ ∀ k, s.region = .chunk k → k ∈ anchorChunks v.anchors ∧ s.off + s.len ≤ caps k) ∧
    (∀ j a, r.w.aslice j = some a → a.slice.len ≠ 0 →
      Live r.w a.slice ∧ ∃ k, a.slice.region = .chunk k ∧ a.anchor.chunk = some k ∧
        a.slice.off + a.slice.len ≤ caps k) :=
  C05G.good_exposed_live (dec_session_arenaInv p pol tun calls hpl r h)

/-! ### Non-vacuity -/

private def tp : Params := ⟨3, 5, 253⟩
private def tun : Tuning := ⟨[4096, 8192], 4096⟩

-- a session with a failed message (bad second header digit after a borrowed chunk), a `Read` drain, and a
-- valid message: slices, anchors and live chunks afterwards
example : Plain [.a (.call (.feed .borrow [2, 7, 8, 0, 0xFE])), .rd 1, .a (.call (.feed .copy [1, 9]))] := by
  simp [Plain]
example : (decSessB tp ⟨0, 0⟩ tun [.a (.call (.feed .borrow [2, 7, 8, 0, 0xFE])), .rd 1, .a (.call (.feed .copy [1, 9]))]).map
    (fun r => ((r.w.iov 0).map (fun v => (v.slices, v.anchors)), r.w.liveChunks, r.errs)) =
    some (some ([⟨.ext 0, 2, 1⟩, ⟨.chunk 0, 0, 3⟩], [⟨1, none⟩, ⟨1, some 0⟩]), [0], [.invalidHeaderByte true 0xFE]) := by
  decide +kernel

end Woodpile.Props.C05D

/-
C09, structural half, DECODER prefix clause, and `Read` drains in the call vocabulary (track apileft,
helper decw; leftovers of audit gaps 8 and 15).

`Props/C09H.lean` has the encoder's prefix clause on the structural iovec (`enc_drained_stable_prefix`)
but, for the decoder, only the whole-run `dec_lag_zero_world` (after `finish`, stopping at the first
error), and its call vocabulary `EncWorld.ACall` has no drain through `impl Read for ConsumingIovec`.

Vocabulary here: `EncWorld.BCall` = `ACall` (borrow / copy pieces, `consume`, `advance_slices`,
`encode_read` / `decode_read` with any scripted reader) + `rd k` = `consumer().read(&mut buf[..k])`
(`Model/EncWorld.readDrain` = `World.readInto`, the model function `Driver/Iovec.lean` and `Driver/CodecW.lean`
run for the op words `read` / `drain_read`; it copies out the first `min k |stable|` stable bytes, slice by
slice through `front()` / `advance_slices`, and consumes exactly those: `Proofs/IovecAbs.World.readInto_spec`).

Decoder (the between-calls function `EncWorld.decSessB`: `Decoder::new()`, then any calls, CONTINUING
after a call returned `Err` — `Props/C07W.lean` is about that —; state `DRun` = world, decoder state, bytes
drained so far, errors returned so far):

* `dec_lag_zero_between_calls`: between any two calls nothing is pending and `stable_prefix()` (the first
  `n` slices, `n` the value of `Iov.stableCount`, what the driver prints through) is EVERYTHING buffered:
  the decoder registers no placeholder, so the lag is 0 at every call boundary, not only after `finish`;
* `dec_drained_stable_prefix`: drained ++ stable is a prefix of what the decoder will have output at any
  later point of the run, whatever calls follow (errors included: a failed call only appends), and of the
  decoded data `d` whenever the whole wire input decodes (`Spec.decode p (binputOf (c1 ++ c2)) = some d`);
* `dec_drained_complete`: at `finish`, the whole input decodes to `d` exactly when no call failed, `finish`
  accepts, and drained ++ flattened = `d` (`Props/C01G.dec_world_output` says this for the old whole run
  without `Read` drains; `dec_run_extends`: that run IS this object read up to its first error).

Encoder, `_r` = the theorem of `Props/C01G` / `Props/C09H` of the same name over `BCall`
(`encPrefixB` / `encRunB`; `run_extends_r`: they extend `encPrefixA` / `encRunA`):
`enc_world_output_r`, `enc_drained_stable_prefix_r`, `enc_drained_complete_r`, `enc_lag_struct_r`,
`enc_slices_in_cap_r`, `enc_lag_le_r`, `enc_lag_le_prod_r`.

Helper lemmas: `Proofs/EncWorldDec.lean`.
-/
import Woodpile.Proofs.EncWorldDec
import Woodpile.Props.C09H
import Woodpile.Props.C01G

namespace Woodpile.Props.C09D
open Woodpile.Hcobs Woodpile.Iovec Woodpile.Arena Woodpile.EncWorld

/-! ### Decoder -/

/-- Decoder, lag 0 at EVERY call boundary, all input methods, all drains, errors or not: after
`Decoder::new()` and any calls — some of which may have returned `Err` — no backref is pending, the stable
prefix is all `n = |slices|` buffered slices, and `total_size − |stable prefix| = 0`. -/
theorem dec_lag_zero_between_calls (p : Params) (pol : Policy) (tun : Tuning) (calls : List BCall) :
    ∃ r v n, decSessB p pol tun calls = some r ∧ r.w.iov 0 = some v ∧ v.hasPending = false ∧
      v.stableCount = some n ∧ n = v.slices.length ∧
      v.totalSize - (r.w.flat (v.slices.take n)).length = 0 := by
  obtain ⟨r, v, h1, h2, h3, h4, _, _⟩ := decSessB_sim p pol tun calls
  refine ⟨r, v, v.slices.length, h1, h2, h4, stableCount_of_no_pending v h4, rfl, ?_⟩
  rw [List.take_length, h3.flat_length]
  have := h3.size_eq
  unfold Iov.totalSize
  omega

/-- C09's prefix clause for the DECODER on the structural iovec.  Between the calls of any run (`c1`: all
input methods, all drains incl. `Read`; calls may have failed), the bytes drained so far followed by the
bytes of `stable_prefix()` (first `n` slices, `n` = `Iov.stableCount`; here `n` = all slices: the decoder
registers no placeholder, `dec_lag_zero_between_calls`) are

* a prefix of what the decoder has emitted after ANY further pieces `X` of whatever calls `c2` follow
  (`Dec.calls`: the pipe-level decoder object of `Model/HcobsP.lean`; in particular of everything emitted
  up to and including the first failing call, and of the whole session's output);
* a prefix of the decoded data `d` whenever the WHOLE wire input decodes. -/
theorem dec_drained_stable_prefix (p : Params) (hp : p.Valid) (pol : Policy) (tun : Tuning) (c1 c2 : List BCall) :
    ∃ r v n, decSessB p pol tun c1 = some r ∧ r.w.iov 0 = some v ∧ v.stableCount = some n ∧ n = v.slices.length ∧
      (∀ X Y, bpieces c2 = X ++ Y →
        r.drained ++ r.w.flat (v.slices.take n) <+: DecProof.emitBytes (Dec.calls p .initial (bpieces c1 ++ X)).emits) ∧
      (∀ d, Spec.decode p (binputOf (c1 ++ c2)) = some d → r.drained ++ r.w.flat (v.slices.take n) <+: d) := by
  obtain ⟨r, v, h1, h2, _, h4, _, h6, _, _⟩ := decSessB_sim p pol tun c1
  have hpre : ∀ X, r.drained ++ r.w.flat (v.slices.take v.slices.length) <+:
      DecProof.emitBytes (Dec.calls p .initial (bpieces c1 ++ X)).emits := by
    intro X
    rw [List.take_length, h6, DecProof.calls_append]
    simp only [DecProof.emitBytes_append]
    exact List.prefix_append _ _
  refine ⟨r, v, v.slices.length, h1, h2, stableCount_of_no_pending v h4, rfl, fun X _ _ => hpre X, ?_⟩
  intro d hd
  have hout := ((C01.dec_impl_refines_spec p hp (bpieces (c1 ++ c2))).1 d).1 hd
  obtain ⟨_, _, hd'⟩ := (output_ok_iff p _ d).1 hout
  rw [hd', bpieces_append]
  exact hpre (bpieces c2)

/-- … and nothing is lost: when the calls end (`finish` = `Dec.finish r.s`), the whole wire input decodes to
`d` exactly when no call returned `Err`, `finish` accepts, and the bytes drained (by `consume`,
`advance_slices` or `Read`, in any amounts at any moments) followed by `flatten` of the iovec are `d`. -/
theorem dec_drained_complete (p : Params) (hp : p.Valid) (pol : Policy) (tun : Tuning) (calls : List BCall) :
    ∃ r v, decSessB p pol tun calls = some r ∧ r.w.iov 0 = some v ∧
      ∀ d, Spec.decode p (binputOf calls) = some d ↔
        (r.errs = [] ∧ Dec.finish r.s = .ok () ∧ r.drained ++ r.w.flat v.slices = d) := by
  obtain ⟨r, v, h1, h2, _, _, _, h6, h7, h8⟩ := decSessB_sim p pol tun calls
  refine ⟨r, v, h1, h2, fun d => ?_⟩
  unfold binputOf
  rw [(C01.dec_impl_refines_spec p hp (bpieces calls)).1 d, output_ok_iff, h6, h7, h8]
  constructor
  · rintro ⟨a, b, c⟩; exact ⟨a, b, c.symm⟩
  · rintro ⟨a, b, c⟩; exact ⟨a, b, c.symm⟩

/-- The old whole-run function (`EncWorld.decRunA`: stops at the first error; `Props/C01G.dec_world_output`,
`Props/C09H.dec_lag_zero_world`, `Props/C05H`, `C10H` are stated on it) is the object read up to its first
error: a session without error is the old run, verdict `finish`'s; and if, after an error-free session
`pre`, the call `c` fails with `e`, the old run of ANY call list starting with `pre ++ [c]` stops there, in
the world the failed call left, with `e`. -/
theorem dec_run_extends (p : Params) (pol : Policy) (tun : Tuning) :
    (∀ (calls : List ACall) (r : DRun), decSessB p pol tun (calls.map .a) = some r → r.errs = [] →
      decRunA p pol tun calls = some (r.w, r.drained, Dec.finish r.s)) ∧
    (∀ (pre : List ACall) (c : ACall) (post : List ACall) (e : DecErr) (r1 r : DRun),
      decSessB p pol tun (pre.map .a) = some r1 → r1.errs = [] → decCallB p 0 r1 (.a c) = some r → r.errs = [e] →
      decRunA p pol tun (pre ++ c :: post) = some (r.w, r.drained, .error e)) := by
  constructor
  · intro calls r h he
    exact decCallsA_of_no_error p 0 calls ⟨World.fresh pol tun, .initial, [], []⟩ r h he
  · intro pre c post e r1 r h he hc hce
    exact decCallsA_of_first_error p 0 pre c post e ⟨World.fresh pol tun, .initial, [], []⟩ r1 r h he hc
      (by simpa using hce)

/-! ### Encoder: the theorems of `Props/C01G` / `Props/C09H` with `Read` drains in the vocabulary -/

/-- The vocabulary with `Read` drains extends `ACall`: a call list without `rd` runs exactly as in
`Props/C01G.lean` / `Props/C09H.lean`, with the same pieces. -/
theorem run_extends_r (p : Params) (pol : Policy) (tun : Tuning) (calls : List ACall) :
    encPrefixB p pol tun (calls.map .a) = encPrefixA p pol tun calls ∧
    encRunB p pol tun (calls.map .a) = encRunA p pol tun calls ∧
    bpieces (calls.map .a) = apieces calls ∧ binputOf (calls.map .a) = ainputOf calls :=
  ⟨encPrefixB_a p pol tun calls, encRunB_a p pol tun calls, bpieces_a calls, binputOf_a calls⟩

/-- `Props/C01G.enc_world_output` with `Read` drains: after `finish`, for every segmentation, method
choice, reader behaviour and drain schedule (by slices, by bytes, through `Read`), drained ++ flattened is
`Spec.encode p` of the input, nothing is pending, everything buffered is stable. -/
theorem enc_world_output_r (p : Params) (hp : p.Valid) (pol : Policy) (tun : Tuning) (calls : List BCall) :
    ∃ w' dr v', encRunB p pol tun calls = some (w', dr) ∧ w'.iov 0 = some v' ∧ IovInv w' v' ∧
      dr ++ w'.flat v'.slices = Spec.encode p (binputOf calls) ∧
      v'.hasPending = false ∧ w'.visible v' = w'.flat v'.slices := by
  obtain ⟨w', v', dr, evs, k1, k2, k3, _, _, _, k7, k8, k9⟩ := encRunB_sim p hp pol tun calls
  exact ⟨w', dr, v', k1, k2, k3, k8, k7, k9⟩

/-- `Props/C09H.enc_drained_stable_prefix` with `Read` drains: between the calls of any run, drained ++
`stable_prefix()` (first `n` slices, `n` = `Iov.stableCount`) is a prefix of the FINAL output whatever calls
follow. -/
theorem enc_drained_stable_prefix_r (p : Params) (hp : p.Valid) (pol : Policy) (tun : Tuning) (c1 c2 : List BCall) :
    ∃ r v n, encPrefixB p pol tun c1 = some r ∧ r.w.iov 0 = some v ∧ v.stableCount = some n ∧
      r.drained ++ r.w.flat (v.slices.take n) <+: Spec.encode p (binputOf (c1 ++ c2)) := by
  obtain ⟨r, v, h1, h2, h3, h4⟩ := enc_prefix_structB p hp pol tun c1 c2
  exact ⟨r, v, v.stableN, h1, h2, h3.stableCount, h4⟩

/-- `Props/C09H.enc_drained_complete` with `Read` drains. -/
theorem enc_drained_complete_r (p : Params) (hp : p.Valid) (pol : Policy) (tun : Tuning) (calls : List BCall) :
    ∃ w' dr v', encRunB p pol tun calls = some (w', dr) ∧ w'.iov 0 = some v' ∧
      dr ++ w'.flat v'.slices = Spec.encode p (binputOf calls) := by
  obtain ⟨w', dr, v', k1, k2, _, k4, _⟩ := enc_world_output_r p hp pol tun calls
  exact ⟨w', dr, v', k1, k2, k4⟩

/-- `Props/C09H.enc_lag_struct` with `Read` drains: the exact structural lag between calls. -/
theorem enc_lag_struct_r (p : Params) (hp : p.Valid) (pol : Policy) (tun : Tuning) (calls : List BCall) :
    ∃ r v e s c, encPrefixB p pol tun calls = some r ∧ r.w.iov 0 = some v ∧
      e ∈ v.backrefs ∧ e.2.len = r.e.st.brLen ∧ 1 ≤ r.e.st.brLen ∧ r.e.st.brLen ≤ 2 ∧
      v.slices[e.2.sliceIndex - v.consumedSlices]? = some s ∧ s.region = .chunk c ∧
      e.2.begin + r.e.st.brLen ≤ s.len ∧
      v.totalSize - (r.w.visible v).length = e.2.begin + r.e.st.brLen + r.e.st.cur ∧
      r.e.st.cur + (if r.e.st.mid then 1 else 0) < r.e.st.maxChunk ∧
      (r.e.st.maxChunk = p.maxInit ∨ r.e.st.maxChunk = p.maxSub) := by
  obtain ⟨r, v, e, s, c, h1, h2, _, h4, h5, h6, h7, h8, h9, h10, h11, h12, h13⟩ := enc_lag_structB p hp pol tun calls
  exact ⟨r, v, e, s, c, h1, h2, h4, h5, h10, h11, h6, h7, h8, h9, h12, h13⟩

/-- `Props/C09H.enc_slices_in_cap` with `Read` drains. -/
theorem enc_slices_in_cap_r (T : Tuning) (B S : Nat) (hH : Hint T B S) (hB2 : 2 ≤ B) (p : Params)
    (hinit : p.maxInit ≤ B) (hsub : p.maxSub ≤ B) (pol : Policy) (calls : List BCall) (hc : ReadsLeB B calls) (r : Run)
    (h : encPrefixB p pol T calls = some r) :
    ∀ v, r.w.iov 0 = some v → ∀ s ∈ v.slices, ∀ c, s.region = .chunk c → s.off + s.len ≤ S :=
  encPrefixB_cap hH hB2 p hinit hsub pol calls hc r h

/-- `Props/C09H.enc_lag_le` with `Read` drains: the lag bound, no hypothesis left. -/
theorem enc_lag_le_r (T : Tuning) (B S : Nat) (hH : Hint T B S) (p : Params) (hp : p.Valid)
    (hB : 64008 ≤ B) (pol : Policy) (calls : List BCall) (hc : ReadsLeB B calls) :
    ∃ r v, encPrefixB p pol T calls = some r ∧ r.w.iov 0 = some v ∧
      v.totalSize - (r.w.visible v).length < S + max p.maxInit p.maxSub := by
  obtain ⟨r, v, e, s, c, h1, h2, _, _, _, _, h7, h8, h9, h10, h11, h12⟩ := enc_lag_struct_r p hp pol T calls
  have hm := valid_max_le p hp
  have hcap := enc_slices_in_cap_r T B S hH (by omega) p (by omega) (by omega) pol calls hc r h1 v h2 s
    (List.mem_of_getElem? h7) c h8
  refine ⟨r, v, h1, h2, ?_⟩
  have : r.e.st.maxChunk ≤ max p.maxInit p.maxSub := by rcases h12 with h | h <;> rw [h] <;> omega
  split at h11 <;> omega

/-- … production tuning, production parameters, anchored reads below 2^20 bytes: `2^20 + 64008 + 2`. -/
theorem enc_lag_le_prod_r (pol : Policy) (calls : List BCall) (hc : ReadsLeB 1048575 calls) :
    ∃ r v, encPrefixB C02.prod pol prodTuning calls = some r ∧ r.w.iov 0 = some v ∧
      v.totalSize - (r.w.visible v).length < 1048576 + 64008 + 2 := by
  obtain ⟨r, v, h1, h2, h3⟩ := enc_lag_le_r prodTuning 1048575 1048576 (hint_prod _ (by omega)) C02.prod
    C02.prod_params_valid (by omega) pol calls hc
  have hm : max C02.prod.maxInit C02.prod.maxSub = 64008 := by decide
  exact ⟨r, v, h1, h2, by omega⟩

/-! ### Non-vacuity (test parameters ⟨3, 5⟩) -/

private def tp : Params := ⟨3, 5, 253⟩
private def tun : Tuning := ⟨[4096, 8192], 4096⟩

/-- (drained, flattened rest, decoder state, errors so far) between calls of a decoder session -/
def dobs (pol : Policy) (calls : List BCall) : Option (List UInt8 × List UInt8 × DecState × List DecErr) :=
  (decSessB tp pol tun calls).bind fun r => (r.w.iov 0).map fun v => (r.drained, r.w.flat v.slices, r.s, r.errs)

-- "1234 FE FE FD" arrives in three pieces (copied, anchored with a hiccuping reader, borrowed); two bytes are
-- read out through `Read` in between, one more by `advance_slices`
example : dobs ⟨64, 256⟩ [.a (.call (.feed .copy [3, 0x31, 0x32])), .rd 2,
      .a (.read 5 3 [0x33, 2, 0, 0x34, 0xFE] [.deliver 1, .err 0, .deliver 8]), .a (.call (.advance 1)),
      .a (.call (.feed .borrow [0, 0]))]
    = some ([0x31, 0x32, 0x33], [0x34, 0xFE, 0xFE, 0xFD], .beforeChunk true, []) := by decide +kernel
example : Spec.decode tp [3, 0x31, 0x32, 0x33, 2, 0, 0x34, 0xFE, 0, 0] = some [0x31, 0x32, 0x33, 0x34, 0xFE, 0xFE, 0xFD] := by
  decide
-- a `Read` into a buffer larger than what is consumable returns what there is; into an empty one, nothing
example : dobs ⟨0, 0⟩ [.a (.call (.feed .borrow [3, 0x31, 0x32])), .rd 0, .rd 100, .rd 7]
    = some ([0x31, 0x32], [], .inChunk 1 false, []) := by decide +kernel
-- the encoder side: `Read` takes out stable bytes only (the pending header blocks the rest) …
example : ((encPrefixB tp ⟨0, 0⟩ tun [.a (.call (.feed .borrow [0x31, 0x32, 0x33, 0x34])), .rd 3, .rd 100]).bind fun r =>
      (r.w.iov 0).map fun v => (r.drained, r.w.flat v.slices, v.hasPending))
    = some ([3, 0x31, 0x32, 0x33], [0, 0, 0x34], true) := by decide +kernel
-- … and with copied input the closed first chunk shares ONE arena slice with the pending header, so nothing
-- is consumable yet (whole-slice visibility: the structural prefix is shorter than the abstract pipe's)
example : ((encPrefixB tp ⟨0, 0⟩ tun [.a (.call (.feed .copy [0x31, 0x32, 0x33, 0x34])), .rd 100]).bind fun r =>
      (r.w.iov 0).map fun v => (r.drained, r.w.flat v.slices, v.hasPending))
    = some ([], [3, 0x31, 0x32, 0x33, 0, 0, 0x34], true) := by decide +kernel
example : ReadsLeB 1048575 [.a (.call (.feed .copy [1])), .rd 7, .a (.read 4 2 [1, 2, 3, 4] [.deliver 4])] := by
  simp [ReadsLeB]

end Woodpile.Props.C09D

/-
C12 / C11 (public-API completion, track `apigaps`): `MessageView::inner` / `into_inner` and the `Tag`
type (conversions, ordering), modelled in `Model/RoughTlvApi.lean` and exercised by the `tlvview` /
`tlv` correspondence families (the `inner` line of every view, op `tag <u32> <u32>`).
-/
import Woodpile.Model.RoughTlvApi
import Woodpile.Props.C12

namespace Woodpile.Props.C12A
open Woodpile.RoughTlv

/-- An accepted view wraps exactly the bytes it was given: `inner()` and `into_inner()` return them,
whatever accessor calls happen in between (the view is immutable). -/
theorem inner_is_input (d : List UInt8) (v : View) (h : View.new d = some (.ok v)) :
    v.inner = d ∧ v.intoInner = d := by
  obtain ⟨rfl, _⟩ := (Woodpile.Props.C12.new_accepts_iff d v).mp h
  exact ⟨rfl, rfl⟩

/-- `Tag` ⇄ `u32`: `value()` of the tag made from `x` is `x` (for every `u32`). -/
theorem tag_value_of_u32 (x : Nat) (hx : x < 4294967296) : tagValue (tagOfU32 x) = x := by
  simp only [tagValue, tagOfU32, word, le32, byteAt, List.getElem?_cons_zero, List.getElem?_cons_succ, Option.getD_some]
  have h0 : (UInt8.ofNat (x % 256)).toNat = x % 256 := by simp [UInt8.toNat_ofNat']
  have h1 : (UInt8.ofNat (x / 256 % 256)).toNat = x / 256 % 256 := by simp [UInt8.toNat_ofNat']
  have h2 : (UInt8.ofNat (x / 65536 % 256)).toNat = x / 65536 % 256 := by simp [UInt8.toNat_ofNat']
  have h3 : (UInt8.ofNat (x / 16777216 % 256)).toNat = x / 16777216 % 256 := by simp [UInt8.toNat_ofNat']
  rw [h0, h1, h2, h3]
  omega

/-- `[u8; 4]` ⇄ `Tag`: the tag made from the value of a 4-byte tag is that tag. -/
theorem tag_of_value (b0 b1 b2 b3 : UInt8) : tagOfU32 (tagValue (tagNew [b0, b1, b2, b3])) = [b0, b1, b2, b3] := by
  simp only [tagValue, tagOfU32, tagNew, word, le32, byteAt, List.getElem?_cons_zero, List.getElem?_cons_succ, Option.getD_some]
  have e0 := b0.toNat_lt
  have e1 := b1.toNat_lt
  have e2 := b2.toNat_lt
  have e3 := b3.toNat_lt
  have r0 : (b0.toNat + 256 * b1.toNat + 65536 * b2.toNat + 16777216 * b3.toNat) % 256 = b0.toNat := by omega
  have r1 : (b0.toNat + 256 * b1.toNat + 65536 * b2.toNat + 16777216 * b3.toNat) / 256 % 256 = b1.toNat := by omega
  have r2 : (b0.toNat + 256 * b1.toNat + 65536 * b2.toNat + 16777216 * b3.toNat) / 65536 % 256 = b2.toNat := by omega
  have r3 : (b0.toNat + 256 * b1.toNat + 65536 * b2.toNat + 16777216 * b3.toNat) / 16777216 % 256 = b3.toNat := by omega
  rw [r0, r1, r2, r3]
  simp

/-- `Ord for Tag` is the order of the little-endian VALUES (what "tags in ascending order" means in C11 /
C12), `PartialOrd` agrees with it, and it is a total order on tags made from `u32`s: equal exactly for
equal values, antisymmetric under swapping. -/
theorem tag_order_is_value_order (x y : Nat) (hx : x < 4294967296) (hy : y < 4294967296) :
    tagCmp (tagOfU32 x) (tagOfU32 y) = compare x y ∧
    tagPartialCmp (tagOfU32 x) (tagOfU32 y) = some (compare x y) ∧
    (tagCmp (tagOfU32 x) (tagOfU32 y) = .eq ↔ x = y) ∧
    tagCmp (tagOfU32 y) (tagOfU32 x) = (tagCmp (tagOfU32 x) (tagOfU32 y)).swap := by
  simp only [tagCmp, tagPartialCmp, tag_value_of_u32 x hx, tag_value_of_u32 y hy]
  refine ⟨trivial, trivial, ?_, ?_⟩
  · exact Nat.compare_eq_eq
  · exact (Nat.compare_swap x y).symm

/-! ### Non-vacuity -/

-- "ROOT" = 0x544f4f52; the byte arrays of 256 and 255 are ordered the other way round than the values
example : tagOfU32 0x544f4f52 = [0x52, 0x4f, 0x4f, 0x54] ∧ tagValue [0x52, 0x4f, 0x4f, 0x54] = 0x544f4f52 := by decide
example : tagCmp (tagOfU32 256) (tagOfU32 255) = .gt ∧ tagOfU32 256 = [0, 1, 0, 0] ∧ tagOfU32 255 = [255, 0, 0, 0] := by decide
example : (View.new [0, 0, 0, 0, 9]).map (fun r => match r with | .ok v => some v.inner | .error _ => none)
    = some (some [0, 0, 0, 0, 9]) := by decide

end Woodpile.Props.C12A

/-
C01 for `Encoder::new_from_iovec` / `Decoder::new_from_iovec` on a PRE-FILLED `OwningIovec` (track
`apileft`, audit gap 15).  Every composition theorem of `Props/C01G.lean` starts from `World.fresh` (an
`Encoder::new()` / `Decoder::new()`); the public constructors `new_from_iovec(iovec)` accept ANY iovec:
one that already holds bytes (borrowed, copied, anchored slices; any slice structure), that is partly
consumed, and that may have pending placeholders of the caller's own (registered with `register_patch`
before the hand-over; the codec exposes only the read side of its iovec — `consumer()` —, so the caller
can fill them only once it gets the iovec back from `finish` / `take_iovec`).

Here the run starts from ANY world `w` and iovec `i` = `v` (`EncWorld.encRunFrom p w i g calls`,
`decRunFrom`: the same `encInit` / `encCallsA` / `encFinish` / `decCallsA` as `encRunA` / `decRunA`, which
are the instance `w = World.fresh`, `g = []`: `fresh_is_prefilled`):

* nothing pending at the hand-over — hypothesis: the structural invariant `IovInv w v` (what every
  `Op` / `WOp`-reachable iovec satisfies: `Props/C03`, `C05G`) and `v.hasPending = false`, nothing else:
  `prefilled_output`: drained ++ flatten = (drained before ++ what the iovec held) ++ `Spec.encode p input`;
  `dec_prefilled_output`: … ++ the decoded data, verdict = `Spec.decode`'s; round trips.
* caller placeholders still pending — hypothesis `SimV w v g ct Q0`: the iovec represents some pipe `Q0`
  with the caller's tokens `ct` (`prescript_sim`: every iovec a caller builds from a fresh one with
  `push` / `push_borrowed` / `push_copy` / `register_patch` / `backfill_or_panic` / `consume` /
  `advance_slices` does): `prefilled_output_cells`, `dec_prefilled_output_cells`: the abstract cells are the
  cells the iovec stood for at the hand-over (the caller's placeholders still pending, untouched) followed
  by the bytes of `Spec.encode p input` (the decoded data).  What is VISIBLE then is `Props/C09P.lean`.

`g` = the bytes drained from the iovec before the hand-over (a ghost: the iovec itself only remembers how
many); take `g = []` to count from the hand-over.

Proofs: `Proofs/EncWorldPre.lean` (the encoder's placeholder ids are shifted past the caller's; the real
pipe is the virtual fresh-start pipe of `Proofs/HcobsEnc.lean` behind the prefix), `Proofs/DecWorldPre.lean`.
The functions are the ones `Driver/CodecW.lean` runs for the op words `enc_from2` / `dec_from2` /
`post_fill` (`EncWorld.preRun`, `encInit`, `encFeed`, …, `World.backfill`).
-/
import Woodpile.Proofs.DecWorldPre
import Woodpile.Props.C01G

namespace Woodpile.Props.C01P
open Woodpile.Hcobs Woodpile.Iovec Woodpile.Arena Woodpile.EncWorld
open Woodpile.Pipe (Cell Pipe cellBytes)

/-- The fresh-start runs of `Props/C01G.lean`, `C09H.lean` are the instance `w = World.fresh`, nothing
drained. -/
theorem fresh_is_prefilled (p : Params) (pol : Policy) (tun : Tuning) (calls : List ACall) :
    encPrefixA p pol tun calls = encPrefixFrom p (World.fresh pol tun) 0 [] calls ∧
    encRunA p pol tun calls = encRunFrom p (World.fresh pol tun) 0 [] calls ∧
    decRunA p pol tun calls = decRunFrom p (World.fresh pol tun) 0 [] calls :=
  ⟨rfl, rfl, rfl⟩

/-- Any iovec with the structural invariant and nothing pending is an admissible hand-over: it represents
the pipe of its flattened bytes (no token needed). -/
theorem noPending_is_prefilled (w : World) (v : Iov) (g : List UInt8) (hinv : IovInv w v) (hnp : v.hasPending = false) :
    SimV w v g [] ⟨(w.flat v.slices).map Cell.byte, g, 0⟩ :=
  simV_of_noPending g hinv hnp

/-- `prefilled_output` (C01, encoder half, pre-filled iovec with nothing pending).  For ANY world `w` whose
iovec `i` = `v` satisfies the structural invariant and has no pending backref — whatever bytes it holds, in
whatever slices, however much of it (`g`) was consumed before —: `Encoder::new_from_iovec`, any calls (any
segmentation; borrow / copy / anchored reads with any reader behaviour; any drains), `finish` never panic,
and everything drained followed by `flatten` of the iovec is what the iovec held followed by
`Spec.encode p` of the concatenated input; nothing is pending, everything buffered is stable. -/
theorem prefilled_output (p : Params) (hp : p.Valid) (i : Nat) (w : World) (v : Iov) (g : List UInt8)
    (hv : w.iov i = some v) (hinv : IovInv w v) (hnp : v.hasPending = false) (calls : List ACall) :
    ∃ w' dr v', encRunFrom p w i g calls = some (w', dr) ∧ w'.iov i = some v' ∧ IovInv w' v' ∧
      v'.hasPending = false ∧ w'.visible v' = w'.flat v'.slices ∧
      dr ++ w'.flat v'.slices = g ++ w.flat v.slices ++ Spec.encode p (ainputOf calls) :=
  encRunFrom_flat p hp i w v g hv hinv hnp calls

/-- `prefilled_output`, caller placeholders possibly still pending: the abstract cells of the final iovec
(drained bytes in front) are the cells the iovec stood for at the hand-over — the caller's pending
placeholders still holes, with the caller's keys — followed by the bytes of `Spec.encode p input`.  (The
encoder's own placeholders are all filled; what a consumer can SEE is `Props/C09P.enc_hidden_behind_caller`.) -/
theorem prefilled_output_cells (p : Params) (hp : p.Valid) (i : Nat) (w : World) (v : Iov) (g : List UInt8)
    (ct : List Backref) (Q0 : Pipe) (hv : w.iov i = some v) (h0 : SimV w v g ct Q0) (calls : List ACall) :
    ∃ w' dr v', encRunFrom p w i g calls = some (w', dr) ∧ w'.iov i = some v' ∧ IovInv w' v' ∧
      dr.map Cell.byte ++ absCells w' v' =
        g.map Cell.byte ++ absCells w v ++ (Spec.encode p (ainputOf calls)).map Cell.byte :=
  encRunFrom_cells p hp i w v g ct Q0 hv h0 calls

/-- Between calls (any placeholders): the cells the iovec stood for at the hand-over, then the fresh
encoder's pipe — closed chunks, the pending size header (`brLen` holes carrying the key of the encoder's
current token), the open chunk's bytes. -/
theorem prefilled_abs_between_calls (p : Params) (hp : p.Valid) (i : Nat) (w : World) (v : Iov) (g : List UInt8)
    (ct : List Backref) (Q0 : Pipe) (hv : w.iov i = some v) (h0 : SimV w v g ct Q0) (calls : List ACall) :
    ∃ r v' σ, encPrefixFrom p w i g calls = some r ∧ r.w.iov i = some v' ∧ IovInv r.w v' ∧
      σ = (ainputOf calls).foldl (EncProof.byteStep p) EncProof.BS.init ∧
      r.drained.map Cell.byte ++ absCells r.w v' =
        g.map Cell.byte ++ absCells w v ++ (σ.done.map Cell.byte ++
          List.replicate r.e.st.brLen (Cell.hole (tokKey r.e.toks r.e.st.backref)) ++ σ.body.map Cell.byte) := by
  obtain ⟨r, a1, a2⟩ := encPrefixFrom_inv p hp i w v g ct Q0 hv h0 calls
  obtain ⟨v', q', b1, b2, b3, b4⟩ := RunInvP.cells h0 a2
  refine ⟨r, v', _, a1, b1, b2, rfl, ?_⟩
  rw [b4, b3.pipe]
  simp only [EncProof.pipeOf, List.map_append, rename_map_byte, rename_replicate_hole]

/-- The op `post_fill`: a caller placeholder that was still pending at the hand-over (token number `k` of the
caller, `ct[k] = some e`, its cells `hole k` in the pipe the iovec stood for) is STILL a pending backref of the
iovec `Encoder::finish` hands back — same key, same slice index and offset: the token the caller kept is
valid — so `backfill_or_panic(token, src)` with a source of its size does not panic, and afterwards the
abstract cells are those of `prefilled_output_cells` with exactly that placeholder filled by `src`.  (This
is the earliest moment safe code can fill it: `Encoder` exposes only `consumer()`, the read side.) -/
theorem prefilled_post_fill (p : Params) (hp : p.Valid) (i : Nat) (w : World) (v : Iov) (g : List UInt8)
    (ct : List Backref) (Q0 : Pipe) (hv : w.iov i = some v) (h0 : SimV w v g ct Q0) (calls : List ACall)
    (k : Nat) (e : Nat × BackrefInfo) (src : List UInt8) (hk : ct[k]? = some (some e)) (hpend : Cell.hole k ∈ Q0.cells)
    (hlen : e.2.len = src.length) :
    ∃ w' dr v' w'' v'', encRunFrom p w i g calls = some (w', dr) ∧ w'.iov i = some v' ∧ e ∈ v'.backrefs ∧
      w'.backfill i (some e) src = some w'' ∧ w''.iov i = some v'' ∧ IovInv w'' v'' ∧
      dr.map Cell.byte ++ absCells w'' v'' =
        Woodpile.Pipe.fillCells e.1
          (g.map Cell.byte ++ absCells w v ++ (Spec.encode p (ainputOf calls)).map Cell.byte) src :=
  encRunFrom_post_fill p hp i w v g ct Q0 hv h0 calls k e src hk hpend hlen

/-- … hence decoding what the ENCODER added (everything behind the prefill), cut into any pieces and fed by
any methods to the decoder state machine, gives back the input. -/
theorem prefilled_roundtrip (p : Params) (hp : p.Valid) (i : Nat) (w : World) (v : Iov) (g : List UInt8)
    (hv : w.iov i = some v) (hinv : IovInv w v) (hnp : v.hasPending = false) (calls : List ACall)
    (wire : List (Method × List UInt8)) :
    ∃ w' dr v', encRunFrom p w i g calls = some (w', dr) ∧ w'.iov i = some v' ∧
      ((wire.map (·.2)).flatten = (dr ++ w'.flat v'.slices).drop (g ++ w.flat v.slices).length →
        Dec.output p wire = .ok (ainputOf calls)) := by
  obtain ⟨w', dr, v', k1, k2, _, _, _, k6⟩ := prefilled_output p hp i w v g hv hinv hnp calls
  refine ⟨w', dr, v', k1, k2, fun hw => ?_⟩
  have h := DecProof.decode_agrees p (wire.map (·.2)).flatten
  rw [← DecProof.output_eq_decRun, hw, k6, List.drop_left' rfl, Spec.decode_encode p hp] at h
  exact h

/-- `dec_prefilled_output`, any caller placeholders: the decoder's run from a pre-filled iovec never panics;
its verdict is `Ok` exactly when `Spec.decode` accepts the concatenated input, an error is the batch
classifier's; the abstract cells of the final iovec are the cells it stood for at the hand-over followed by
the bytes the decoder emitted (on `Ok`: the decoded data); the decoder registers no placeholder and fills
none (`hasPending` is what it was: the decoder contributes nothing to the lag). -/
theorem dec_prefilled_output_cells (p : Params) (hp : p.Valid) (i : Nat) (w : World) (v : Iov) (g : List UInt8)
    (ct : List Backref) (Q0 : Pipe) (hv : w.iov i = some v) (h0 : SimV w v g ct Q0) (calls : List ACall) :
    ∃ w' v' dr res X, decRunFrom p w i g calls = some (w', dr, res) ∧ w'.iov i = some v' ∧ IovInv w' v' ∧
      dr.map Cell.byte ++ absCells w' v' = g.map Cell.byte ++ absCells w v ++ X.map Cell.byte ∧
      v'.hasPending = v.hasPending ∧
      (res = .ok () ↔ ∃ d, Spec.decode p (ainputOf calls) = some d) ∧
      (res = .ok () → Spec.decode p (ainputOf calls) = some X) ∧
      (∀ e, res = .error e ↔ DecProof.decodeE p (ainputOf calls) = .error e) := by
  obtain ⟨w', v', dr, res, X, h1, h2, h3, h4, h5, h6, h7, h8⟩ := decRunFrom_cells p i w v g ct Q0 hv h0 calls
  obtain ⟨r1, r2⟩ := C01.dec_impl_refines_spec p hp (apieces calls)
  refine ⟨w', v', dr, res, X, h1, h2, h3, h4, h5, ?_, ?_, ?_⟩
  · rw [h8]
    constructor
    · rintro ⟨d, hd⟩; exact ⟨d, (r1 d).2 hd⟩
    · rintro ⟨d, hd⟩; exact ⟨d, (r1 d).1 hd⟩
  · intro hr
    exact (r1 _).2 (h7.1 hr)
  · intro e
    rw [h6 e, C01.dec_error_classified]; rfl

/-- `dec_prefilled_output` (nothing pending at the hand-over; hypothesis: `IovInv` only): on `Ok`,
everything drained followed by `flatten` is what the iovec held followed by the decoded data; in every case
nothing is pending and everything buffered is in the stable prefix (lag 0). -/
theorem dec_prefilled_output (p : Params) (hp : p.Valid) (i : Nat) (w : World) (v : Iov) (g : List UInt8)
    (hv : w.iov i = some v) (hinv : IovInv w v) (hnp : v.hasPending = false) (calls : List ACall) :
    ∃ w' dr res v', decRunFrom p w i g calls = some (w', dr, res) ∧ w'.iov i = some v' ∧ IovInv w' v' ∧
      v'.hasPending = false ∧ w'.visible v' = w'.flat v'.slices ∧
      (res = .ok () ↔ ∃ d, Spec.decode p (ainputOf calls) = some d) ∧
      (∀ d, res = .ok () → Spec.decode p (ainputOf calls) = some d →
        dr ++ w'.flat v'.slices = g ++ w.flat v.slices ++ d) ∧
      (∀ e, res = .error e ↔ DecProof.decodeE p (ainputOf calls) = .error e) := by
  obtain ⟨w', v', dr, res, X, h1, h2, h3, h4, h5, h6, h7, h8⟩ :=
    dec_prefilled_output_cells p hp i w v g [] _ hv (simV_of_noPending g hinv hnp) calls
  have hpend : v'.hasPending = false := by rw [h5]; exact hnp
  obtain ⟨g1, g2⟩ := visible_all_of_no_pending h3 hpend
  refine ⟨w', dr, res, v', h1, h2, h3, hpend, g1, h6, ?_, h8⟩
  intro d hr hd
  have hX := h7 hr
  rw [hd] at hX
  cases hX
  rw [absCells_of_noPending hinv hnp, g2, g1, ← List.map_append, ← List.map_append, ← List.map_append] at h4
  exact map_byte_injective h4

/-- C01 on both real data paths, both constructors `new_from_iovec`: whatever the encoder ADDS to a pre-filled
iovec, fed in any pieces / methods / drains to a decoder that itself appends to a pre-filled iovec, is
accepted, and what that decoder adds behind ITS prefill is the original input. -/
theorem prefilled_roundtrip_both (p : Params) (hp : p.Valid) (i j : Nat) (w1 w2 : World) (v1 v2 : Iov) (g1 g2 : List UInt8)
    (hv1 : w1.iov i = some v1) (hi1 : IovInv w1 v1) (hn1 : v1.hasPending = false)
    (hv2 : w2.iov j = some v2) (hi2 : IovInv w2 v2) (hn2 : v2.hasPending = false) (calls wire : List ACall) :
    ∃ w1' dr1 v1' w2' dr2 res v2', encRunFrom p w1 i g1 calls = some (w1', dr1) ∧ w1'.iov i = some v1' ∧
      decRunFrom p w2 j g2 wire = some (w2', dr2, res) ∧ w2'.iov j = some v2' ∧
      (ainputOf wire = (dr1 ++ w1'.flat v1'.slices).drop (g1 ++ w1.flat v1.slices).length →
        res = .ok () ∧ dr2 ++ w2'.flat v2'.slices = g2 ++ w2.flat v2.slices ++ ainputOf calls) := by
  obtain ⟨w1', dr1, v1', k1, k2, _, _, _, k6⟩ := prefilled_output p hp i w1 v1 g1 hv1 hi1 hn1 calls
  obtain ⟨w2', dr2, res, v2', j1, j2, _, _, _, j6, j7, _⟩ := dec_prefilled_output p hp j w2 v2 g2 hv2 hi2 hn2 wire
  refine ⟨w1', dr1, v1', w2', dr2, res, v2', k1, k2, j1, j2, fun hw => ?_⟩
  have hd : Spec.decode p (ainputOf wire) = some (ainputOf calls) := by
    rw [hw, k6, List.drop_left' rfl]; exact Spec.decode_encode p hp _
  have hok : res = .ok () := j6.2 ⟨_, hd⟩
  exact ⟨hok, j7 _ hok hd⟩

/-- Every iovec a caller builds from `OwningIovec::new()` with `push` / `push_borrowed` / `push_copy` /
`register_patch` (non-empty) / `backfill_or_panic` (of a still pending token, with a source of its size: the
documented precondition, `EncWorld.PreOk`) / `consume` / `advance_slices` — the scripts of the driver's
`enc_from2` / `dec_from2` — is an admissible hand-over: the script does not panic and the iovec represents a
pipe with the caller's tokens (the hypothesis `SimV` of the `_cells` theorems and of `Props/C09P`). -/
theorem prescript_sim (pol : Policy) (tun : Tuning) (ops : List PreOp)
    (hok : PreRunOk 0 ⟨World.fresh pol tun, [], []⟩ ops) :
    ∃ s v Q, preRun 0 ⟨World.fresh pol tun, [], []⟩ ops = some s ∧ s.w.iov 0 = some v ∧
      SimV s.w v s.drained s.toks Q :=
  EncWorld.prescript_sim pol tun ops hok

/-! ### Non-vacuity: test parameters ⟨3, 5⟩, the crate's vector `"1234\xFE\xFE\xFD"`, production copy thresholds -/

def tp : Params := ⟨3, 5, 253⟩
def exPol : Policy := ⟨64, 256⟩
def exTun : Tuning := ⟨[4096, 8192], 4096⟩

/-- the caller's script on a fresh iovec -/
def pre (script : List PreOp) : Option PreSt := preRun 0 ⟨World.fresh exPol exTun, [], []⟩ script

/-- (drained, flattened rest, has_pending) after script; `Encoder::new_from_iovec`; calls; `finish` -/
def obs (script : List PreOp) (calls : List ACall) : Option (List UInt8 × List UInt8 × Bool) :=
  (pre script).bind fun s => (encRunFrom tp s.w 0 s.drained calls).bind fun x =>
    (x.1.iov 0).map fun v => (x.2, x.1.flat v.slices, v.hasPending)

/-- (drained, abstract cells, visible bytes) after the same -/
def cellsObs (script : List PreOp) (calls : List ACall) : Option (List UInt8 × List Cell × List UInt8) :=
  (pre script).bind fun s => (encRunFrom tp s.w 0 s.drained calls).bind fun x =>
    (x.1.iov 0).map fun v => (x.2, absCells x.1 v, x.1.visible v)

/-- … and then the caller, who got the iovec back from `finish`, fills its placeholder `k`: (flatten, has_pending) -/
def filled (script : List PreOp) (calls : List ACall) (k : Nat) (bs : List UInt8) : Option (List UInt8 × Bool) :=
  (pre script).bind fun s => (encRunFrom tp s.w 0 s.drained calls).bind fun x =>
    ((s.toks[k]?).bind fun b => x.1.backfill 0 b bs).bind fun w' => (w'.iov 0).map fun v => (w'.flat v.slices, v.hasPending)

/-- (error if any, drained, flattened rest, has_pending) after script; `Decoder::new_from_iovec`; calls; `finish` -/
def dobs (script : List PreOp) (calls : List ACall) : Option (Option DecErr × List UInt8 × List UInt8 × Bool) :=
  (pre script).bind fun s => (decRunFrom tp s.w 0 s.drained calls).bind fun x => (x.1.iov 0).map fun v =>
    ((match x.2.2 with | .ok _ => none | .error e => some e), x.2.1, x.1.flat v.slices, v.hasPending)

-- a copied, a pushed (copied: small) and a borrowed slice, the first (merged) slice consumed before the hand-over;
-- the vector by `encode_copy`, two bytes drained afterwards: drained ++ rest = prefill ++ Spec.encode
example : obs [.pushCopy [1, 2], .push [7], .pushBorrowed [9, 9, 9], .consume 1]
      [.call (.feed .copy [0x31, 0x32, 0x33, 0x34, 0xFE, 0xFE, 0xFD]), .call (.advance 2)]
    = some ([1, 2, 7, 9, 9], [9, 3, 0x31, 0x32, 0x33, 2, 0, 0x34, 0xFE, 0, 0], false) := by decide +kernel
-- a caller placeholder registered AND filled before the hand-over, one byte consumed by bytes; anchored input
example : obs [.pushCopy [1, 2], .register 2, .fill 0 [0xAA, 0xBB], .advance 1]
      [.read 7 4 [0x31, 0x32, 0x33, 0x34, 0xFE, 0xFE, 0xFD] [.deliver 5, .deliver 9]]
    = some ([1], [2, 0xAA, 0xBB, 3, 0x31, 0x32, 0x33, 2, 0, 0x34, 0xFE, 0, 0], false) := by decide +kernel
example : Spec.encode tp [0x31, 0x32, 0x33, 0x34, 0xFE, 0xFE, 0xFD] = [3, 0x31, 0x32, 0x33, 2, 0, 0x34, 0xFE, 0, 0] := by
  decide
-- a caller placeholder (2 bytes, key 3) still pending at the hand-over: the encoder's output `01 31` is appended
-- behind it — and behind the byte the caller pushed after it —, all in ONE arena slice: nothing is visible, the
-- consumer's `consume(5)` takes nothing
example : cellsObs [.pushCopy [9], .register 2, .pushCopy [8]] [.call (.feed .copy [0x31]), .call (.consume 5)]
    = some ([], [.byte 9, .hole 3, .hole 3, .byte 8, .byte 1, .byte 0x31], []) := by decide +kernel
-- the same with a borrowed first slice: it (and only it) can be consumed
example : cellsObs [.pushBorrowed [9, 9, 9], .register 2, .pushCopy [8]] [.call (.feed .copy [0x31]), .call (.consume 5)]
    = some ([9, 9, 9], [.hole 5, .hole 5, .byte 8, .byte 1, .byte 0x31], []) := by decide +kernel
-- once the caller has the iovec back it fills its placeholder: everything is there
example : filled [.pushCopy [9], .register 2, .pushCopy [8]] [.call (.feed .copy [0x31]), .call (.consume 5)] 0 [0xAA, 0xBB]
    = some ([9, 0xAA, 0xBB, 8, 1, 0x31], false) := by decide +kernel
-- the script of that example is admissible (`prescript_sim` applies to it)
example : PreRunOk 0 ⟨World.fresh exPol exTun, [], []⟩ [.pushCopy [9], .register 2, .pushCopy [8]] := by
  simp [PreRunOk, PreOk]
-- decoder behind a prefill: the wire image in two pieces, a drain in between
example : dobs [.pushCopy [1, 2], .push [7]]
      [.call (.feed .copy [3, 0x31, 0x32, 0x33, 2]), .call (.consume 9), .call (.feed .borrow [0, 0x34, 0xFE, 0, 0])]
    = some (none, [1, 2, 7, 0x31, 0x32, 0x33], [0x34, 0xFE, 0xFE, 0xFD], false) := by decide +kernel
-- decoder behind a pending caller placeholder: accepted, decoded, still pending
example : dobs [.pushCopy [1, 2], .register 1] [.call (.feed .copy [1, 0x31])]
    = some (none, [], [1, 2, 0, 0x31], true) := by decide +kernel

end Woodpile.Props.C01P

/-
C07 / C01 / C06 — "… and never panics", as an OUTCOME of the executable model.

`Woodpile/Model/HcobsP.lean` re-states the encoder and decoder state machines with a
`PRes.panic file line` outcome at every `assert!`, `assert_eq!`, `unwrap()`, slice index /
range and overflow-checked machine-word operation of `hcobs/src/encoder.rs`,
`hcobs/src/decoder.rs` (and `backfill_or_panic` of the iovec), each cited by line.  These are
the functions the model driver runs against the real crates (`Driver/Hcobs.lean`).  The
theorems below say that the panic outcome is unreachable — for all inputs, all segmentations,
all methods, all drain schedules, all `Params.Valid` — and that what runs is therefore exactly
the panic-free model (`Model/Hcobs.lean`) about which C01 / C02 / C07 / C09 are stated.

Second subject: the `Decoder` OBJECT after an error.  `Decoder::decode` leaves a usable
decoder in `InitialState` over the same iovec (`Dec.call`); the run continues (`Dec.calls`,
`Dec.session`).  The convention of C01/C07 ("the first `Err` is the verdict", `Dec.output`) is
derived from it (`output_of_session`).

Helper lemmas: `Woodpile/Proofs/HcobsPanic.lean`.
-/
import Woodpile.Proofs.HcobsPanic

namespace Woodpile.Props.C07P
open Woodpile.Pipe Woodpile.Hcobs

/-! ### Decoder -/

/-- **No panic site of one decoder step is reachable**: in every state the decoder can be in
(`DecProof.Reachable`: the initial state and whatever successful steps lead to, any
methods, any inputs), on every non-empty input, the panic-aware step returns exactly what
the panic-free step returns. -/
theorem dec_once_never_panics (p : Params) (hp : p.Valid) (m : Method) (s : DecState)
    (hs : DecProof.Reachable p s) (b : UInt8) (rest : List UInt8) :
    Dec.onceP p m s (b :: rest) = .ok (Dec.once p m s b rest) :=
  DecProof.onceP_eq p hp m s b rest (DecProof.reachable_wf32 p hp hs)

/-- … a whole `decode_borrow` / `decode_copy` call (the loop, its `&input[consumed..]`, and the
model's own fuel): never a panic, on any input, empty included. -/
theorem dec_call_never_panics (p : Params) (hp : p.Valid) (m : Method) (s : DecState)
    (hs : DecProof.Reachable p s) (input : List UInt8) :
    Dec.feedAllP p m s input = .ok (Dec.feedAll p m s input) :=
  DecProof.feedAllP_eq p hp m s input (DecProof.reachable_wf32 p hp hs)

/-- One call on the `Decoder` object (`Decoder::decode` / `decode_copy` / `decode_anchored`:
swap in `Default`, run, store the new state or return the error) — the function the model
driver runs for a `dec` op. -/
theorem dec_object_call_never_panics (p : Params) (hp : p.Valid) (m : Method) (s : DecState)
    (hs : DecProof.Reachable p s) (input : List UInt8) :
    Dec.callP p m s input = .ok (Dec.call p m s input) ∧ DecProof.Reachable p (Dec.call p m s input).st := by
  refine ⟨DecProof.callP_eq p hp m s input (DecProof.reachable_wf32 p hp hs), ?_⟩
  unfold Dec.call
  cases hf : Dec.feedAll p m s input with
  | error ee => obtain ⟨e, es⟩ := ee; exact DecProof.Reachable.init
  | ok se => obtain ⟨s', es⟩ := se; exact DecProof.feed_reachable p m _ s input hs hf

/-- **A whole life of a `Decoder` never panics**: `Decoder::new()`, any number of
`decode` / `decode_copy` / `decode_anchored` calls on any byte strings — INCLUDING the calls
made after a call returned `Err` — then `finish`.  For every byte string and every
segmentation. -/
theorem dec_session_never_panics (p : Params) (hp : p.Valid) (pieces : List (Method × List UInt8)) :
    Dec.sessionP p pieces = .ok (Dec.session p pieces) :=
  DecProof.sessionP_eq p hp pieces

/-- The states a `Decoder` object passes through, errors or not, are reachable decoder
states (so the step / call theorems apply to every call of every session). -/
theorem dec_calls_reachable (p : Params) (pieces : List (Method × List UInt8)) (s : DecState)
    (hs : DecProof.Reachable p s) : DecProof.Reachable p (Dec.calls p s pieces).st := by
  induction pieces generalizing s with
  | nil => exact hs
  | cons md rest ih =>
    obtain ⟨m, d⟩ := md
    simp only [Dec.calls]
    apply ih
    unfold Dec.call
    cases hf : Dec.feedAll p m s d with
    | error ee => obtain ⟨e, es⟩ := ee; exact DecProof.Reachable.init
    | ok se => obtain ⟨s', es⟩ := se; exact DecProof.feed_reachable p m _ s d hs hf

/-- **After an error the decoder is a fresh decoder over the same iovec.**  If a call fails
with `e`, the state left behind is `InitialState`; every later call behaves exactly as on
`Decoder::new_from_iovec(iovec)`: same verdicts, same bytes pushed (after what the failed
call and its predecessors had pushed, which stays), same final state. -/
theorem dec_after_error_is_fresh (p : Params) (s : DecState) (m : Method) (d : List UInt8) (e : DecErr)
    (post : List (Method × List UInt8)) (herr : (Dec.call p m s d).err = some e) :
    (Dec.call p m s d).st = .initial ∧
    Dec.calls p s ((m, d) :: post) =
      ⟨some e :: (Dec.calls p .initial post).verdicts,
       (Dec.call p m s d).emits ++ (Dec.calls p .initial post).emits,
       (Dec.calls p .initial post).st⟩ := by
  have hst : (Dec.call p m s d).st = .initial := by
    unfold Dec.call at herr ⊢
    cases hf : Dec.feedAll p m s d with
    | error ee => obtain ⟨e', es⟩ := ee; rfl
    | ok se => obtain ⟨s', es⟩ := se; rw [hf] at herr; simp at herr
  refine ⟨hst, ?_⟩
  simp only [Dec.calls, hst, herr]

/-- The same with calls before the failing one: a sequence of calls is the calls up to and
including the first failing one, then a fresh decoder on the rest. -/
theorem dec_calls_split (p : Params) (s : DecState) (pre post : List (Method × List UInt8)) :
    Dec.calls p s (pre ++ post) =
      ⟨(Dec.calls p s pre).verdicts ++ (Dec.calls p (Dec.calls p s pre).st post).verdicts,
       (Dec.calls p s pre).emits ++ (Dec.calls p (Dec.calls p s pre).st post).emits,
       (Dec.calls p (Dec.calls p s pre).st post).st⟩ :=
  DecProof.calls_append p s pre post

/-- `finish` right after a failed call reports `CutShort` (`terminate` of `InitialState`):
the error is not remembered by the object. -/
theorem dec_finish_after_error (p : Params) (s : DecState) (m : Method) (d : List UInt8) (e : DecErr)
    (herr : (Dec.call p m s d).err = some e) : Dec.finish (Dec.call p m s d).st = .error .cutShort := by
  rw [(dec_after_error_is_fresh p s m d e [] herr).1]; rfl

/-- A failed call only appends to the iovec (what was decoded before the error point, incl.
the stuff sequence `BeforeChunk::decode` pushes before it validates the header byte). -/
theorem dec_failed_call_appends (p : Params) (m : Method) (s : DecState) (d : List UInt8) :
    DecProof.AppendOnly (Dec.call p m s d).emits := by
  have := DecProof.feed_appendOnly p m (d.length + 1) s d
  unfold Dec.call Dec.feedAll
  cases hf : Dec.feed p m (d.length + 1) s d with
  | error ee => obtain ⟨e, es⟩ := ee; rw [hf] at this; exact this
  | ok se => obtain ⟨s', es⟩ := se; rw [hf] at this; exact this

/-- **Which error, for which input, also mid-session**: the first call that fails — after any
number of successful calls on this message — fails with exactly the error the
error-reporting batch decoder `DecProof.decodeE` (see `C01.dec_error_classified`) reports
on the concatenation of everything fed so far, whatever the segmentation and the methods.
(With `dec_after_error_is_fresh` this applies again to the next message, and so on.) -/
theorem dec_first_error_classified (p : Params) (pre : List (Method × List UInt8)) (m : Method)
    (d : List UInt8) (e : DecErr)
    (hpre : ∀ v ∈ (Dec.calls p .initial pre).verdicts, v = none)
    (herr : (Dec.call p m (Dec.calls p .initial pre).st d).err = some e) :
    DecProof.decodeE p ((pre.map (·.2)).flatten ++ d) = .error e := by
  have h := DecProof.calls_first_error p pre m d [] .initial [] hpre e herr
  have hout : Dec.output p (pre ++ [(m, d)]) = .error e := by
    simp only [Dec.output, h]
  rw [DecProof.output_eq_decRun, DecProof.decRun_eq_decodeE] at hout
  simpa using hout

/-- **What the iovec holds after a failed call is a function of the input alone.**  After any
successful calls on a message and one more call (failing or not), the bytes pushed so far
and the outcome (the error, or the state reached) are those of the byte-at-a-time reference
run `DecProof.foldBE` over the concatenation of everything fed so far — in particular the
partial output a failing call leaves behind (everything decoded up to the error point, incl.
the owed stuff sequence `BeforeChunk::decode` pushes before it validates the header byte)
does not depend on the segmentation or the methods. -/
theorem dec_output_until_error (p : Params) (hp : p.Valid) (pre : List (Method × List UInt8)) (m : Method)
    (d : List UInt8) (hpre : ∀ v ∈ (Dec.calls p .initial pre).verdicts, v = none) :
    (DecProof.emitBytes ((Dec.calls p .initial pre).emits ++ (Dec.call p m (Dec.calls p .initial pre).st d).emits),
      (match (Dec.call p m (Dec.calls p .initial pre).st d).err with
       | some e => Except.error e
       | none => Except.ok (Dec.call p m (Dec.calls p .initial pre).st d).st))
      = DecProof.foldBE p .initial ((pre.map (·.2)).flatten ++ d) :=
  DecProof.calls_then_call_foldBE p hp pre m d .initial trivial hpre

/-- … hence two ways of feeding the same bytes that both get as far as their last call leave
the same bytes in the iovec and end the same way. -/
theorem dec_failed_output_split_independent (p : Params) (hp : p.Valid)
    (pre pre' : List (Method × List UInt8)) (m m' : Method) (d d' : List UInt8)
    (hcat : (pre.map (·.2)).flatten ++ d = (pre'.map (·.2)).flatten ++ d')
    (hpre : ∀ v ∈ (Dec.calls p .initial pre).verdicts, v = none)
    (hpre' : ∀ v ∈ (Dec.calls p .initial pre').verdicts, v = none) :
    DecProof.emitBytes ((Dec.calls p .initial pre).emits ++ (Dec.call p m (Dec.calls p .initial pre).st d).emits)
      = DecProof.emitBytes ((Dec.calls p .initial pre').emits ++ (Dec.call p m' (Dec.calls p .initial pre').st d').emits) ∧
    (Dec.call p m (Dec.calls p .initial pre).st d).err = (Dec.call p m' (Dec.calls p .initial pre').st d').err := by
  have h1 := dec_output_until_error p hp pre m d hpre
  have h2 := dec_output_until_error p hp pre' m' d' hpre'
  rw [hcat] at h1
  have h := h1.trans h2.symm
  simp only [Prod.mk.injEq] at h
  refine ⟨h.1, ?_⟩
  have h3 := h.2
  cases he : (Dec.call p m (Dec.calls p .initial pre).st d).err with
  | none =>
    cases he' : (Dec.call p m' (Dec.calls p .initial pre').st d').err with
    | none => rfl
    | some e' => rw [he, he'] at h3; cases h3
  | some e =>
    cases he' : (Dec.call p m' (Dec.calls p .initial pre').st d').err with
    | none => rw [he, he'] at h3; cases h3
    | some e' => rw [he, he'] at h3; cases h3; rfl

/-- **The convention of C01 / C07 is a consequence**: `Dec.output` (the run that stops at the
first `Err`, about which `dec_impl_refines_spec`, `dec_error_split_independent`,
`dec_error_classified` are stated) is the session read up to its first error: the first
`Err` any call returns, else `finish`'s verdict, else the bytes pushed. -/
theorem output_of_session (p : Params) (pieces : List (Method × List UInt8)) :
    Dec.output p pieces =
      match (Dec.session p pieces).1.verdicts.findSome? id with
      | some e => .error e
      | none =>
        match (Dec.session p pieces).2 with
        | .error e => .error e
        | .ok () => .ok (Pipe.run Pipe.empty ((Dec.session p pieces).1.emits.map (·.op))).bytes := by
  have key : ∀ (pieces : List (Method × List UInt8)) (s : DecState) (acc : List Emit),
      Dec.runPieces p pieces s acc =
        match (Dec.calls p s pieces).verdicts.findSome? id with
        | some e => .error e
        | none =>
          match Dec.finish (Dec.calls p s pieces).st with
          | .error e => .error e
          | .ok () => .ok (acc ++ (Dec.calls p s pieces).emits) := by
    intro pieces
    induction pieces with
    | nil =>
      intro s acc
      simp only [Dec.runPieces, Dec.calls, List.findSome?_nil, List.append_nil]
      cases Dec.finish s with
      | error e => rfl
      | ok u => rfl
    | cons md rest ih =>
      intro s acc
      obtain ⟨m, d⟩ := md
      simp only [Dec.runPieces, Dec.calls]
      unfold Dec.call
      cases hf : Dec.feedAll p m s d with
      | error ee => obtain ⟨e, es⟩ := ee; simp
      | ok se =>
        obtain ⟨s', es⟩ := se
        simp only [List.findSome?_cons, id_eq]
        rw [ih s' (acc ++ es)]
        cases (Dec.calls p s' rest).verdicts.findSome? id with
        | some e => rfl
        | none =>
          simp only
          cases Dec.finish (Dec.calls p s' rest).st with
          | error e => rfl
          | ok u => simp [List.append_assoc]
  unfold Dec.output Dec.session
  rw [key pieces .initial []]
  simp only [List.nil_append]
  cases (Dec.calls p .initial pieces).verdicts.findSome? id with
  | some e => rfl
  | none =>
    simp only
    cases Dec.finish (Dec.calls p .initial pieces).st with
    | error e => rfl
    | ok u => rfl

/-! ### Encoder -/

/-- **No panic site of one `consume_once` is reachable**: in every state the encoder can be in
— `EncoderState::new` on an empty iovec, then any `consume_once` calls on non-empty inputs by
either method, with the consumer draining any stable bytes at any time in between
(`EncProof.DReachable`) — on every non-empty input, the panic-aware step (entry and exit
asserts, `cur < max`, `write` / `copy` / `write_partial_stuff_sequence`, the `remaining`
subtraction, the window, `input[0]`, `input[len - 1]`, `&input[0..prefix]`, `encode_header`'s
three asserts, `backfill_or_panic` finding the placeholder) is the panic-free step. -/
theorem enc_once_never_panics (p : Params) (hp : p.Valid) {s : EncState} {nid : Nat} {q : Pipe}
    (h : EncProof.DReachable p s nid q) (m : Method) (input : List UInt8) (hne : input ≠ []) :
    Enc.consumeOnceP p s nid m q input = .ok (Enc.consumeOnce p s nid m input) :=
  EncProof.consumeOnceP_eq p hp (EncProof.dreachable_total p h) m input hne

/-- … a whole `encode` / `encode_copy` / `encode_anchored` call (the loop with its two
asserts, and the model's fuel), on any input, empty included. -/
theorem enc_call_never_panics (p : Params) (hp : p.Valid) {s : EncState} {nid : Nat} {q : Pipe}
    (h : EncProof.DReachable p s nid q) (m : Method) (input : List UInt8) :
    Enc.feedAllP p s nid m q input = .ok (Enc.feedAll p s nid m input) :=
  EncProof.feedAllP_eq p hp m s nid q input (EncProof.dreachable_total p h)

/-- … and the states such a call hands back are again `DReachable`. -/
theorem enc_call_dreachable (p : Params) {s : EncState} {nid : Nat} {q : Pipe}
    (h : EncProof.DReachable p s nid q) (m : Method) (input : List UInt8) :
    EncProof.DReachable p (Enc.feedAll p s nid m input).1 (Enc.feedAll p s nid m input).2.1
      (q.run ((Enc.feedAll p s nid m input).2.2.map (·.op))) := by
  unfold Enc.feedAll
  generalize 2 * input.length + 2 = fuel
  induction fuel generalizing s nid q input with
  | zero => simpa [EncProof.feed_zero, Pipe.run] using h
  | succ fuel ih =>
    by_cases hne : input = []
    · subst hne; simpa [EncProof.feed_nil, Pipe.run] using h
    · rw [EncProof.feed_succ p fuel s nid m input hne]
      simp only [List.map_append]
      rw [run_append]
      exact ih (EncProof.DReachable.step m input h hne) _

/-- **`finish` never panics** (`terminate`: `write_partial_stuff_sequence`, `cur < max`,
`encode_header`, the backfill), whatever was drained. -/
theorem enc_finish_never_panics (p : Params) (hp : p.Valid) {s : EncState} {nid : Nat} {q : Pipe}
    (h : EncProof.DReachable p s nid q) : Enc.finishP p s q = .ok (Enc.finish p s) :=
  EncProof.finishP_eq p hp (EncProof.dreachable_total p h)

/-- **A whole encoder run never panics**: `Encoder::new()`, any pieces by any methods,
`finish` — for every byte string and every segmentation. -/
theorem enc_run_never_panics (p : Params) (hp : p.Valid) (pieces : List (Method × List UInt8)) :
    Enc.runPiecesP p pieces = .ok (Enc.runPieces p pieces) :=
  EncProof.runPiecesP_eq p hp pieces

end Woodpile.Props.C07P

namespace Woodpile.Props.C07P
open Woodpile.Pipe Woodpile.Hcobs

/-! Non-vacuity. -/

private def tp : Params := ⟨3, 5, 253⟩

-- the panic outcomes are not dead code: from states / arguments the real callers never
-- produce, each kind of site fires.
example : Dec.onceP tp .copy .initial [] = .panic .decoder 228 := by rfl
example : Dec.onceP tp .borrow (.inChunk 2 true) [] = .panic .decoder 342 := by rfl
-- `NonZeroU32::new(chunk_size as u32).unwrap()` with limits outside `Params.Valid`
-- (a 2-byte header worth 2^32): the model panics where the real code would
example : (Dec.onceP ⟨3, 2 ^ 33, 2 ^ 32⟩ .copy (.midHeader 0) [1]).isPanic = true := by decide +kernel
-- encoder: entry assert, `encode_header`'s range assert, the lost placeholder
example : Enc.consumeOnceP tp ⟨3, 3, false, 0, 1⟩ 1 .copy Pipe.empty [0x31] = .panic .encoder 174 := by rfl
example : Enc.encodeHeaderP ⟨3, 5, 2⟩ ⟨5, 4, false, 0, 2⟩ Pipe.empty = .panic .encoder 126 := by rfl
example : Enc.encodeHeaderP tp ⟨3, 2, false, 0, 1⟩ Pipe.empty = .panic .iovec 374 := by rfl
example : Enc.encodeHeaderP ⟨3, 5, 2⟩ ⟨3, 3, false, 0, 1⟩ ⟨[.hole 0], [], 1⟩ = .panic .encoder 131 := by rfl
example : Enc.finishP tp ⟨3, 3, false, 0, 1⟩ ⟨[.hole 0], [], 1⟩ = .panic .encoder 121 := by rfl
-- and on a reachable state they agree with the panic-free model
example : Enc.runPiecesP tp [(.borrow, [0x31, 0x32, 0xFE]), (.copy, [0xFD, 0x33])]
    = .ok (Enc.runPieces tp [(.borrow, [0x31, 0x32, 0xFE]), (.copy, [0xFD, 0x33])]) := by decide
-- a session that fails in its second call (out-of-radix header byte, AFTER the owed FE FD was
-- pushed), then decodes a whole message with the same object
example : (Dec.session tp [(.copy, [1, 0x31]), (.borrow, [0xFF, 9]), (.copy, [2, 0x41, 0x42])]).1.verdicts
    = [none, some (.invalidHeaderByte false 0xFF), none] := by rfl
example : (Pipe.run Pipe.empty ((Dec.session tp [(.copy, [1, 0x31]), (.borrow, [0xFF, 9]),
    (.copy, [2, 0x41, 0x42])]).1.emits.map (·.op))).bytes = [0x31, 0xFE, 0xFD, 0x41, 0x42] := by decide
example : (Dec.session tp [(.copy, [1, 0x31]), (.borrow, [0xFF, 9]), (.copy, [2, 0x41, 0x42])]).2
    = .ok () := by rfl
example : Dec.output tp [(.copy, [1, 0x31]), (.borrow, [0xFF, 9]), (.copy, [2, 0x41, 0x42])]
    = .error (.invalidHeaderByte false 0xFF) := by rfl
-- the reference run with output-at-error on that failing message: `31`, the owed `FE FD`, then the error
example : DecProof.foldBE tp .initial [1, 0x31, 0xFF, 9] = ([0x31, 0xFE, 0xFD], .error (.invalidHeaderByte false 0xFF)) := by rfl
-- `DReachable` is inhabited by a drained state
example : EncProof.DReachable tp (Enc.init tp 0).1 1 ((EncProof.runE Pipe.empty (Enc.init tp 0).2).consume 7).1 :=
  .drain 7 .init

end Woodpile.Props.C07P

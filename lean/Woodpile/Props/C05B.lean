/-
C05 (the last public corners of `owning_iovec`, track `apileft`): values that safe code can obtain only
through `Default::default()` and what the iovec does with them.

(1) `AnchoredSlice::default()` (op word `s_default`) and `ByteArena::default()` / `ByteArena::new()` (op
words `a_default`, `new_arena`) ARE steps of the op vocabulary `WOp` over which C05 / C10 / C20 (and the
world-level C03 / C04) quantify: `read_n(reader, 0, attempts)` returns `Ok(AnchoredSlice::default())`
without touching the arena, so in every world that has a live iovec or a live detached arena the default
slice is the step `readNIov i 0 …` / `readNArena j 0 …`, handle for handle.  (`ByteArena::clone()`,
`Backref::default()`, `OwningIovec::default()` are `Props/C05A.defaults_are_wsteps` and the step `new`.)

(2) `OwningIovec::push_anchor(Default::default())` — reachable from safe code although `Anchor` is not
re-exported (type inference; `Model/IovecApi2.lean`) — is NOT a `WOp` history: it leaves a zero-count
anchor WITHOUT chunk in the anchor deque, which no `WOp` does (`pushASlice` skips empty slices, and the
anchor of a non-empty anchored slice holds its chunk).  The anchor is a separator: the next borrowed slice
is counted by it instead of the previous anchor (so the previous anchor's chunk is released earlier), and
the next copy gets a fresh anchor (so it is not merged with the previous slice) — the scripted histories
of the `iovec` family compare exactly these effects with the real crate.  Theorems: the count the caller
gave the anchor is irrelevant; the step never panics; it changes no slice, no byte, no cache, no other
object and no member of the derived live set (so everything C05 says about the world before the step is
true after it, `push_anchor_default_exposed_live`); it preserves the arena invariant always and the
ownership invariant `WorldInv` whenever the anchor deque is non-empty; on an EMPTY deque exactly one
clause of the invariant fails (`HeadPos`: a zero-count anchor sits at the front until the next `consume`
pops it — the state observation O6 of DESIGN.md describes for the decoder).

(3) Histories: `XReach` = `WOp` steps + `AnchoredSlice::default()` anywhere + `push_anchor` of a
chunk-less anchor on iovecs whose anchor deque is non-empty.  C05's statements hold in every such world.
These are named `_partial`: the full statement quantifies over `push_anchor(Default::default())` on ANY
iovec, including one whose deque is empty, interleaved with ALL 38 `WOp`s; what is missing is the
re-proof of `WorldInv.step` (`Proofs/IovecOwn.lean`) for the invariant without `HeadPos`.

(4) Any deque, also an empty one, for the producer / consumer vocabulary of ONE iovec: on top of track
`rdrworld`'s invariant without head condition (`HInv`, `Proofs/AnchGuard.lean`) `push_anchor` of a
chunk-less anchor preserves the invariant on any deque (`push_anchor_default_hinv`), and after any chain of
micro-steps (push_copy, push of caller-buffer ranges, register_patch, backfill, consume, advance_slices,
`read_n` into the own arena, the codecs' anchored pushes) and such `push_anchor`s from any `XReach` world
C05's guard / exposed_live / below_bump hold (`dpath_exposed_live`, FULL for that vocabulary).  What remains
uncovered by a theorem: clone / take / arena hand-off AFTER an empty-deque `push_anchor` (correspondence run
and direct oracles only).
-/
import Woodpile.Proofs.IovecApi2H

namespace Woodpile.Props.C05B
open Woodpile.Iovec Woodpile.Arena

/-- `AnchoredSlice::default()` is the `WOp` step `read_n(count = 0)` on any live iovec's arena or any live
detached arena (whatever the reader, whatever the attempt limit): the same world, handle for handle. -/
theorem s_default_is_wstep (w : World) (attempts : Nat) (src : List UInt8) (script : List ReadN.Ev) :
    (∀ i v, w.iov i = some v → w.step (.readNIov i 0 attempts src script) = some w.sDefault) ∧
    (∀ j a, w.arena j = some a → w.step (.readNArena j 0 attempts src script) = some w.sDefault) :=
  ⟨fun _ _ hv => step_readNIov_zero hv attempts src script, fun _ _ ha => step_readNArena_zero ha attempts src script⟩

/-- `ByteArena::default()` = `ByteArena::new()` is the step `newArena`. -/
theorem arena_default_is_wstep (w : World) : w.step .newArena = some w.arenaDefault := rfl

/-- `push_anchor(a)` for an anchor built by safe code: the count `n` the caller gave it (through
`increment_count`) is irrelevant, the call never panics on a live iovec, and its whole effect is one
chunk-less zero-count anchor at the back of that iovec's anchor deque. -/
theorem push_anchor_default_effect (w : World) (i n : Nat) :
    w.pushAnchorDefault i n = w.pushAnchorDefault i 0 ∧
    (∀ v, w.iov i = some v →
      w.pushAnchorDefault i n = some (w.setIov i (some { v with anchors := v.anchors ++ [⟨0, none⟩] }))) ∧
    (w.iov i = none → w.pushAnchorDefault i n = none) := by
  refine ⟨pushAnchorDefault_count w i n, fun v hv => pushAnchorDefault_some hv n, fun hv => ?_⟩
  unfold World.pushAnchorDefault World.pushAnchor
  rw [hv]

/-- Nothing a reader can see changes: every other object, the heap, the caller buffers, the tokens, the
iovec's slices / sizes / backrefs / arena, every allocation cache and the derived live set are the same. -/
theorem push_anchor_default_frame {w w' : World} {i n : Nat} (h : w.pushAnchorDefault i n = some w') :
    (∀ j, j ≠ i → w'.iov j = w.iov j) ∧ (∀ j, w'.arena j = w.arena j) ∧ (∀ j, w'.aslice j = w.aslice j) ∧
    w'.heap = w.heap ∧ w'.exts = w.exts ∧ w'.brefs = w.brefs ∧ w'.next = w.next ∧
    (∃ v v', w.iov i = some v ∧ w'.iov i = some v' ∧ v'.slices = v.slices ∧ v'.backrefs = v.backrefs ∧
      v'.arena = v.arena ∧ v'.logicalSize = v.logicalSize ∧ v'.consumedSize = v.consumedSize ∧
      v'.consumedSlices = v.consumedSlices ∧ anchorChunks v'.anchors = anchorChunks v.anchors) ∧
    (∀ x, w'.cacheAt x = w.cacheAt x) ∧ (∀ k, k ∈ w'.liveChunks ↔ k ∈ w.liveChunks) := by
  obtain ⟨h1, h2, h3, h4, h5, h6, v, hv, hv'⟩ := pushAnchorDefault_frame h
  exact ⟨h1, h2, h3, h4, h5, h6, pushAnchorDefault_next h,
    ⟨v, _, hv, hv', rfl, rfl, rfl, rfl, rfl, rfl, anchorChunks_snoc_none _ _⟩,
    pushAnchorDefault_cacheAt h, pushAnchorDefault_live h⟩

/-- The invariants.  From a world satisfying the ownership invariant `WorldInv` and the arena invariant
`ArenaInv` (every reachable world does: `C05.reachable_has_caps`, `Reachable.inv`): the arena invariant
is kept with the same capacity ghost; of the iovec's ownership invariant `IovOk` every clause but the
head condition is kept (guard: every slice still has an anchor holding its chunk at or behind the anchor
that counts it); the head condition, hence `WorldInv`, is kept exactly when the anchor deque was not
empty. -/
theorem push_anchor_default_inv {w w' : World} {caps : Nat → Nat} {i n : Nat} (hw : WorldInv w)
    (ha : ArenaInv w caps) (h : w.pushAnchorDefault i n = some w') :
    ArenaInv w' caps ∧
    ∃ v v', w.iov i = some v ∧ w'.iov i = some v' ∧
      Guarded v'.anchors v'.slices ∧ (∀ k ∈ anchorChunks v'.anchors, k < w'.next) ∧
      (∀ c, v'.arena.cache = some c → c.chunk < w'.next) ∧ (∀ s ∈ v'.slices, ExtOk w'.exts s) ∧
      (HeadPos v'.anchors ↔ v.anchors ≠ []) ∧ (v.anchors ≠ [] → WorldInv w') := by
  obtain ⟨_, _, _, _, he, _, v, hv, hv'⟩ := pushAnchorDefault_frame h
  obtain ⟨k1, k2, k3, k4, k5⟩ := pushAnchorDefault_iovOk (hw.iovOk i v hv)
  refine ⟨ha.pushAnchorDefault hw h, v, _, hv, hv', k1, ?_, ?_, ?_, k5, fun hne => hw.pushAnchorDefault hv hne h⟩
  · rw [pushAnchorDefault_next h]; exact k2
  · rw [pushAnchorDefault_next h]; exact k3
  · rw [he]; exact k4

/-- C05's conclusion right after the call, WHATEVER the deque held (also empty): every slice of every
iovec is a caller buffer or lies in a chunk of the derived live set that the iovec's own anchors hold,
inside the chunk's capacity, and every non-empty detached anchored slice is alive through its own anchor. -/
theorem push_anchor_default_exposed_live {w w' : World} {caps : Nat → Nat} {i n : Nat} (hw : WorldInv w)
    (ha : ArenaInv w caps) (h : w.pushAnchorDefault i n = some w') :
    (∀ j v', w'.iov j = some v' → ∀ s ∈ v'.slices,
      Live w' s ∧ ∀ k, s.region = .chunk k → k ∈ anchorChunks v'.anchors ∧ s.off + s.len ≤ caps k) ∧
    (∀ j a, w'.aslice j = some a → a.slice.len ≠ 0 →
      Live w' a.slice ∧ ∃ k, a.slice.region = .chunk k ∧ a.anchor.chunk = some k ∧
        a.slice.off + a.slice.len ≤ caps k) := by
  obtain ⟨ho, _, hsl, _, he, _, _, ⟨v, v', hv, hv', hss, _, _, _, _, _, hac⟩, _, hlive⟩ := push_anchor_default_frame h
  have live_iff : ∀ s, Live w' s ↔ Live w s := by
    intro s
    unfold Live
    cases s.region with
    | ext b => simp only [he]
    | chunk k => exact hlive k
  refine ⟨fun j x hj s hs => ?_, fun j a hj hl => ?_⟩
  · by_cases e : j = i
    · subst e
      rw [hv'] at hj; cases hj
      rw [hss] at hs
      obtain ⟨h1, h2⟩ := hw.iov_slice_live hv hs
      exact ⟨(live_iff s).2 h1, fun k hk => ⟨by rw [hac]; exact h2 k hk, ha.inCap s k (Or.inl ⟨j, v, hv, hs⟩) hk⟩⟩
    · rw [ho j e] at hj
      obtain ⟨h1, h2⟩ := hw.iov_slice_live hj hs
      exact ⟨(live_iff s).2 h1, fun k hk => ⟨h2 k hk, ha.inCap s k (Or.inl ⟨j, x, hj, hs⟩) hk⟩⟩
  · rw [hsl j] at hj
    obtain ⟨h1, k, h2, h3⟩ := hw.aslice_live hj hl
    exact ⟨(live_iff _).2 h1, k, h2, h3, ha.inCap a.slice k (Or.inr ⟨j, a, hj, rfl⟩) h2⟩

/-! ### Whole histories that use the `Default` values (`XReach`) -/

/-- Every `WOp`-reachable world is `XReach`; both invariants hold in every `XReach` world. -/
theorem xreach_inv_partial {w : World} {caps : Nat → Nat} :
    (GReach w caps → XReach w caps) ∧ (XReach w caps → WorldInv w ∧ ArenaInv w caps) :=
  ⟨GReach.xreach, XReach.inv⟩

/-- `C05.slice_guarded` for histories with the `Default` values. -/
theorem slice_guarded_x_partial {w : World} {caps : Nat → Nat} (hr : XReach w caps) {i : Nat} {v : Iov}
    (hv : w.iov i = some v) :
    countSum v.anchors = v.slices.length ∧
    ∀ n s, v.slices[n]? = some s →
      0 < s.len ∧ ∃ j, Counts v.anchors j n ∧ ∀ k, s.region = .chunk k →
        ∃ j' : Nat, ∃ a : Anchor, j ≤ j' ∧ v.anchors[j']? = some a ∧ a.chunk = some k := by
  have hg := (hr.inv.1.iovOk i v hv).guard
  exact ⟨hg.countSum_eq, fun n s hs => hg.index n s hs⟩

/-- `C05.exposed_live` for histories with the `Default` values. -/
theorem exposed_live_x_partial {w : World} {caps : Nat → Nat} (hg : XReach w caps) :
    (∀ i v n, w.iov i = some v → v.stableCount = some n → ∀ s ∈ v.slices.take n,
      Live w s ∧ ∀ k, s.region = .chunk k → k ∈ anchorChunks v.anchors ∧ s.off + s.len ≤ caps k) ∧
    (∀ j a, w.aslice j = some a → a.slice.len ≠ 0 →
      Live w a.slice ∧ ∃ k, a.slice.region = .chunk k ∧ a.anchor.chunk = some k ∧
        a.slice.off + a.slice.len ≤ caps k) := by
  obtain ⟨hw, ha⟩ := hg.inv
  refine ⟨fun i v n hv _ s hs => ?_, fun j a hj hl => ?_⟩
  · have hm := List.mem_of_mem_take hs
    obtain ⟨h1, h2⟩ := hw.iov_slice_live hv hm
    exact ⟨h1, fun k hk => ⟨h2 k hk, ha.inCap s k (Or.inl ⟨i, v, hv, hm⟩) hk⟩⟩
  · obtain ⟨h1, k, h2, h3⟩ := hw.aslice_live hj hl
    exact ⟨h1, k, h2, h3, ha.inCap a.slice k (Or.inr ⟨j, a, hj, rfl⟩) h2⟩

/-- `C05.below_bump` and `C05.released_only_when_unreachable` for histories with the `Default` values. -/
theorem below_bump_released_x_partial {w : World} {caps : Nat → Nat} (hg : XReach w caps) :
    (∀ h h' c c', w.cacheAt h = some c → w.cacheAt h' = some c' → c.chunk = c'.chunk → h = h') ∧
    (∀ h c, w.cacheAt h = some c → c.bump ≤ c.cap ∧ caps c.chunk = c.cap ∧
      ∀ s, w.HasSlice s → s.region = .chunk c.chunk → s.off + s.len ≤ c.bump) ∧
    (∀ k, k ∉ w.liveChunks →
      (∀ i v, w.iov i = some v → ∀ s ∈ v.slices, s.region ≠ .chunk k) ∧
      (∀ j a, w.aslice j = some a → a.slice.len ≠ 0 → a.slice.region ≠ .chunk k)) := by
  obtain ⟨hw, ha⟩ := hg.inv
  refine ⟨ha.unique, fun h c hc => ⟨(ha.bumpLe h c hc).1, (ha.bumpLe h c hc).2, fun s hs hr => ha.below h c s hc hs hr⟩,
    fun k hk => ⟨fun i v hv s hs hreg => hk ?_, fun j a hj hl hreg => hk ?_⟩⟩
  · have := (hw.iov_slice_live hv hs).1
    unfold Live at this; rw [hreg] at this; exact this
  · have := (hw.aslice_live hj hl).1
    unfold Live at this; rw [hreg] at this; exact this

/-! ### Non-vacuity -/

private def pol : Policy := ⟨64, 256⟩
private def tun : Tuning := ⟨[4096, 8192], 4096⟩

/-- (slices as (offset, length), anchors, live set) of iovec 0 -/
private def obs (w : Option World) : Option (Option (List (Nat × Nat)) × Option (List Anchor) × List Nat) :=
  w.map fun w => ((w.iov 0).map (·.slices.map fun s => (s.off, s.len)), (w.iov 0).map (·.anchors), w.liveChunks)

-- the separator decides which anchor counts the next borrowed slice: with it, consuming the copied
-- slice releases chunk 0 at once (cache flushed) …
example : obs (((World.init pol tun).run [.new, .pushCopy 0 [1, 2]]).bind fun w =>
    (w.pushAnchorDefault 0 5).bind fun w => w.run [.pushBorrowed 0 [7, 8, 9], .flush 0, .consume 0 1])
  = some (some [(0, 3)], some [⟨1, none⟩], []) := by decide +kernel
-- … without it the borrowed slice is counted by the copy's anchor, which keeps the chunk
example : obs ((World.init pol tun).run [.new, .pushCopy 0 [1, 2], .pushBorrowed 0 [7, 8, 9], .flush 0, .consume 0 1])
  = some (some [(0, 3)], some [⟨1, some 0⟩], [0]) := by decide +kernel
-- and it keeps two adjacent copies apart (no merge: the second copy gets its own anchor)
example : obs (((World.init pol tun).run [.new, .pushCopy 0 [1, 2]]).bind fun w =>
    (w.pushAnchorDefault 0).bind fun w => w.run [.pushCopy 0 [3]])
  = some (some [(0, 2), (2, 1)], some [⟨1, some 0⟩, ⟨0, none⟩, ⟨1, some 0⟩], [0]) := by decide +kernel
example : obs ((World.init pol tun).run [.new, .pushCopy 0 [1, 2], .pushCopy 0 [3]])
  = some (some [(0, 3)], some [⟨1, some 0⟩], [0]) := by decide +kernel
-- on an empty deque the zero-count anchor sits at the front (the one clause that fails) until `consume`
example : obs (((World.init pol tun).run [.new]).bind fun w => w.pushAnchorDefault 0)
  = some (some [], some [⟨0, none⟩], []) := by decide +kernel
example : obs (((World.init pol tun).run [.new]).bind fun w => (w.pushAnchorDefault 0).bind fun w => w.run [.consume 0 0])
  = some (some [], some [], []) := by decide +kernel
-- `AnchoredSlice::default()` as a `WOp` step, and an `XReach` history using all of it
example : ((World.init pol tun).run [.new, .readNIov 0 0 3 [1] [.err 2]]).map (·.aslices) = some [some ASlice.empty] := by
  decide +kernel
example : ∃ w caps, XReach w caps ∧ ∃ v, w.iov 0 = some v ∧ v.anchors = [⟨1, some 0⟩, ⟨0, none⟩] ∧
    w.aslices = [some ASlice.empty] := by
  obtain ⟨w2, hw2⟩ := Option.isSome_iff_exists.1
    (show ((World.init pol tun).run [.new, .pushCopy 0 [1, 2]]).isSome = true by decide +kernel)
  have hobs : (w2.iov 0).map (·.anchors) = some [⟨1, some 0⟩] ∧ w2.aslices = [] := by
    have : (((World.init pol tun).run [.new, .pushCopy 0 [1, 2]]).map fun w => ((w.iov 0).map (·.anchors), w.aslices))
        = some (some [⟨1, some 0⟩], []) := by decide +kernel
    rw [hw2] at this
    simpa using this
  obtain ⟨caps, hg⟩ := Reachable.exists_caps ⟨pol, tun, _, hw2⟩
  cases hv : w2.iov 0 with
  | none => rw [hv] at hobs; simp at hobs
  | some v =>
    rw [hv] at hobs
    simp only [Option.map_some, Option.some.injEq] at hobs
    have hv' : w2.sDefault.iov 0 = some v := by simpa [World.sDefault] using hv
    refine ⟨_, caps, XReach.anchor (n := 0) hg.xreach.sdef hv' (by rw [hobs.1]; simp) (pushAnchorDefault_some hv' 0),
      { v with anchors := v.anchors ++ [⟨0, none⟩] }, by simp, by simp [hobs.1], ?_⟩
    simp [World.setIov, World.sDefault, World.addASlice, hobs.2]


/-! ### Any deque, also an empty one: the invariant without head condition (`Proofs/AnchGuard.lean`, track `rdrworld`)

`HInv i w none` = `WorldInv` without `HeadPos`, plus `ArenaInv`.  It holds in every `WOp`-reachable world, it is
all `exposed_live` / `below_bump` / `slice_guarded` need, and `push_anchor(Default::default())` preserves it
on ANY anchor deque.  `DPath i` = chains of the micro-steps of a producer / consumer of iovec `i` (`HStep`:
push_copy, push of a caller-buffer range, register_patch, backfill, consume, advance_slices, lending a buffer,
`read_n` into the iovec's own arena and the anchored pushes of the codecs, taking a detached slice) with
`push_anchor` of chunk-less anchors anywhere between calls.  These statements are FULL for that vocabulary
(they do not cover clone / take / arena hand-off after an empty-deque `push_anchor`: `WOp`s other than the
micro-steps are only allowed BEFORE the chain, see `XReach`). -/

/-- `push_anchor` of a chunk-less anchor preserves the invariant without head condition, whatever the anchor
deque holds (also when it is empty). -/
theorem push_anchor_default_hinv {i n : Nat} {w w' : World} (h : HInv i w none)
    (hp : w.pushAnchorDefault i n = some w') : HInv i w' none :=
  h.pushAnchorDefault hp

/-- C05 after ANY chain of micro-steps and chunk-less `push_anchor`s (on any deque) that starts in an `XReach`
world — in particular in any `WOp`-reachable world: the guard (`slice_guarded`), `exposed_live` and
`below_bump`. -/
theorem dpath_exposed_live {w w' : World} {caps : Nat → Nat} (hr : XReach w caps) (i : Nat)
    (p : DPath i w none w' none) :
    (∀ j v, w'.iov j = some v →
      countSum v.anchors = v.slices.length ∧
      ∀ n s, v.slices[n]? = some s →
        0 < s.len ∧ ∃ m, Counts v.anchors m n ∧ ∀ k, s.region = .chunk k →
          ∃ m' : Nat, ∃ a : Anchor, m ≤ m' ∧ v.anchors[m']? = some a ∧ a.chunk = some k) ∧
    (∃ caps' : Nat → Nat,
      (∀ j v n, w'.iov j = some v → v.stableCount = some n → ∀ s ∈ v.slices.take n,
        Live w' s ∧ ∀ k, s.region = .chunk k → k ∈ anchorChunks v.anchors ∧ s.off + s.len ≤ caps' k) ∧
      (∀ j a, w'.aslice j = some a → a.slice.len ≠ 0 →
        Live w' a.slice ∧ ∃ k, a.slice.region = .chunk k ∧ a.anchor.chunk = some k ∧
          a.slice.off + a.slice.len ≤ caps' k)) ∧
    (∃ caps' : Nat → Nat,
      (∀ x x' c c', w'.cacheAt x = some c → w'.cacheAt x' = some c' → c.chunk = c'.chunk → x = x') ∧
      (∀ x c, w'.cacheAt x = some c → c.bump ≤ c.cap ∧ caps' c.chunk = c.cap ∧
        ∀ s, w'.HasSlice s → s.region = .chunk c.chunk → s.off + s.len ≤ c.bump)) := by
  have h := p.inv (hr.hInv i)
  exact ⟨fun j v hv => h.slice_guarded hv, h.exposed_live, h.below_bump⟩

-- a chain that starts with `push_anchor(Default::default())` on the EMPTY deque of a fresh iovec, then copies:
-- the zero-count anchor stays at the front (the head condition fails), everything C05 says still holds
example : ∃ w w' caps, XReach w caps ∧ DPath 0 w none w' none ∧
    (w'.iov 0).map (·.anchors) = some [⟨0, none⟩, ⟨1, some 0⟩] := by
  have h0 : XReach (World.init pol tun) (fun _ => 0) := .init pol tun
  obtain ⟨c1, ho1, hn1⟩ := (step_astep (w := World.init pol tun) (op := .new) rfl).exists_caps h0.inv.1 h0.inv.2
  have h1 := XReach.step h0 (op := .new) rfl ho1 hn1
  obtain ⟨w1, hw1⟩ := Option.isSome_iff_exists.1
    (show (((World.init pol tun).addIov Iov.empty).1.pushAnchorDefault 0).isSome = true by decide +kernel)
  obtain ⟨w2, hw2⟩ : ∃ w2, w1.pushCopy 0 [7] = some w2 := by
    have : ((((World.init pol tun).addIov Iov.empty).1.pushAnchorDefault 0).bind fun w => w.pushCopy 0 [7]).isSome = true := by
      decide +kernel
    rw [hw1] at this
    exact Option.isSome_iff_exists.1 this
  refine ⟨_, w2, c1, h1, .cons (.anchorDefault hw1) (.cons (.micro (.copy hw2)) (.nil _ _)), ?_⟩
  have : ((((World.init pol tun).addIov Iov.empty).1.pushAnchorDefault 0).bind fun w => (w.pushCopy 0 [7]).map
      fun w => (w.iov 0).map (·.anchors)) = some (some [⟨0, none⟩, ⟨1, some 0⟩]) := by decide +kernel
  rw [hw1] at this
  simp only [Option.bind_some, hw2, Option.map_some, Option.some.injEq] at this
  exact this


end Woodpile.Props.C05B

/-
C10 for the REAL codec call sequences and for drop histories (track `c10enc`; audit gaps 2 and 4).

`Props/C10.lean` / `C10G.lean` bound the footprint of a free-standing iovec pattern (`Streaming`) and state
"no leak" for a world whose slots are already empty.  Here:

Second sentence of the property (streaming footprint), on the runs of `Proofs/EncWorldAnch.lean`:
`encPrefixA` = `Encoder::new` followed by ANY list of calls `ACall` — `encode` / `encode_copy` of a piece,
`encode_read(reader, count, attempts)` with any scripted reader (anchored input read into the encoder's own
arena), `consume(k)` / `advance_slices(k)` for any `k` —; `decRunA` = the decoder's.  Any `Policy`, any
arena `Tuning`, any HCOBS parameters.

* `enc_streaming_footprint` (all input methods): the encoder's world holds ONE iovec and nothing else, so the
  live chunks are the cache's chunk and the chunks held by the anchor deque; at every QUIESCENT point
  (`stableCount = some 0`: nothing is consumable — what a full drain by `consume` / `advance_slices` leaves,
  `full_drain_is_quiescent`) the anchor deque has at most `3·(cur + mid) + 2` anchors, `cur + mid` < the
  HCOBS chunk limit being the bytes of the current HCOBS chunk: at most `K = 3·max(maxInit, maxSub)` live
  chunks (production: 192 024), however much data has been streamed.
  The constant is NOT small, and cannot be for anchored input: `example`s below stream 1-byte short reads of
  `encode_read(count = chunk size)` and pin one arena chunk PER BYTE of the open HCOBS chunk (the expected
  "K = 3" of DESIGN.md section 5/C10 is false for `encode_read`; see the report).
* `enc_streaming_footprint_small_partial` (borrowed / copied input): there the potential argument of
  `Props/C10.streaming_footprint` goes through on the real run (`Proofs/EncPotential.lean`): at most
  `2·cur/m₀ + 2` anchors, `2·max(maxInit, maxSub)/m₀ + 3` live chunks at every quiescent point — production:
  34 chunks, `enc_streaming_liveBytes_small_prod_partial`: at most 34 MiB of live arena memory.
* `dec_streaming_footprint` (all input methods): nothing is ever pending; after `consume(k)` with `k` at
  least the number of buffered slices the iovec has no slice and NO anchor: the only live chunk is the
  cache's.
* live BYTES (`liveBytes caps w` = Σ over the live chunks of the capacity ghost of `GReach`):
  `enc_streaming_liveBytes_partial`, `dec_streaming_liveBytes_partial` — PARTIAL: borrowed / copied input
  only (`EncWorldComp.Call`).  There the codec's world, with its token list as handle table, IS a `WOp`
  history (`GReach`), every chunk was allocated with at most `S` bytes (`TuningBounds`; production
  `S = 2^20`), hence `liveBytes ≤ #live · S`: `≤ 3·max(maxInit, maxSub)·S` at the encoder's quiescent points,
  `≤ S` after the decoder's full drain.  What is missing for `encode_read` / `decode_read`: the anchored
  route (several `push`es of sub-slices of the `read_n` allocation, then ONE `push_anchor`) is not a history
  of the `WOp` vocabulary, so there is no `GReach` ghost for it; `Props/C09H.enc_slices_in_cap` bounds the
  cache and the slices (not the abandoned chunks) by `S` there.

First sentence (no leak after drop), as DROP HISTORIES (`Proofs/DropHist.lean`):
* `drop_history_releases` / `drop_perm_releases`: from ANY world (in particular every `Reachable` one), for
  every list of handles that enumerates the live objects — iovecs, clones, taken iovecs (`drop`), detached
  arenas (`dropArena`), detached anchored slices (`sDrop`) — exactly once, i.e. every permutation of
  `World.handles`, running the corresponding drop operations succeeds step by step and ends in a world
  with no object, no live chunk and `liveBytes = 0`; along the way the live set only shrinks
  (`drop_step_live_subset`).
* codec objects: `Encoder` / `Decoder` (and `StreamReader`, which owns a `Decoder` iovec and an arena that it
  swaps into it) are not `World` objects of their own; dropping one is dropping its iovec (arena included):
  `enc_drop_releases`, `dec_drop_releases` — after any run, `drop 0` leaves no live chunk.
-/
import Woodpile.Proofs.EncLiveBytes
import Woodpile.Proofs.EncPotential
import Woodpile.Props.C02

namespace Woodpile.Props.C10H
open Woodpile.Hcobs Woodpile.Iovec Woodpile.Arena Woodpile.EncWorld

/-! ### Streaming footprint: the encoder -/

/-- The encoder's world between calls, all input methods: one iovec, nothing else; exactly one placeholder
pending; the live chunks are the cache's chunk and the anchors' chunks; and at a quiescent point the anchor
deque is short. -/
theorem enc_streaming_footprint (p : Params) (hp : p.Valid) (pol : Policy) (tun : Tuning) (calls : List ACall) :
    ∃ r v, encPrefixA p pol tun calls = some r ∧ r.w.iov 0 = some v ∧
      (∀ j, j ≠ 0 → r.w.iov j = none) ∧ (∀ j, r.w.arena j = none) ∧ (∀ j, r.w.aslice j = none) ∧
      (∃ e, v.backrefs = [e]) ∧
      (∀ k ∈ r.w.liveChunks, k ∈ arenaChunks v.arena ∨ k ∈ anchorChunks v.anchors) ∧
      r.w.liveChunks.length ≤ 1 + v.anchors.length ∧
      cm r.e.st < max p.maxInit p.maxSub ∧
      (v.stableCount = some 0 →
        v.anchors.length ≤ 3 * cm r.e.st + 2 ∧ r.w.liveChunks.length ≤ 3 * max p.maxInit p.maxSub) := by
  obtain ⟨r, v, _, _, _, h1, hv, _, _, _, _, _, _, _, _, _, hcm, hmax⟩ := enc_lag_structA p hp pol tun calls
  obtain ⟨⟨b, hs, v', hv', hf, hb⟩, _⟩ := encPrefixA_fpb p pol tun calls r h1
  rw [hv] at hv'; cases hv'
  have hlen := hs.live_length hv
  have hcm' : cm r.e.st < max p.maxInit p.maxSub := by
    unfold cm; rcases hmax with h | h <;> rw [h] at hcm <;> omega
  refine ⟨r, v, h1, hv, hs.onlyIov, hs.noArena, hs.noASlice, ⟨b, hb⟩, ?_, hlen, hcm', ?_⟩
  · intro k hk
    have := hs.live hv k hk
    simpa [List.mem_append] using this
  · intro hq
    have := hf.quiescent (by rw [hb]; simp) hq
    exact ⟨by omega, by omega⟩

/-- … production parameters: at most `3 · 64008 = 192024` live chunks at every quiescent point, for any
policy, any tuning, any call sizes, any reader behaviour. -/
theorem enc_streaming_footprint_prod (pol : Policy) (tun : Tuning) (calls : List ACall) :
    ∃ r v, encPrefixA C02.prod pol tun calls = some r ∧ r.w.iov 0 = some v ∧
      (v.stableCount = some 0 → r.w.liveChunks.length ≤ 192024) := by
  obtain ⟨r, v, h1, h2, _, _, _, _, _, _, _, h⟩ := enc_streaming_footprint C02.prod C02.prod_params_valid pol tun calls
  refine ⟨r, v, h1, h2, fun hq => ?_⟩
  have := (h hq).2
  have hm : max C02.prod.maxInit C02.prod.maxSub = 64008 := by decide
  omega

/-- A full drain by slices establishes the quiescence hypothesis: after `consume(count)` with `count` at
least the length of the stable prefix nothing is consumable. -/
theorem full_drain_is_quiescent (p : Params) (pol : Policy) (tun : Tuning) (calls : List ACall) (r : Run)
    (h : encPrefixA p pol tun calls = some r) (count k : Nat) (w' : World)
    (hcount : ∀ v n, r.w.iov 0 = some v → v.stableCount = some n → n ≤ count)
    (hc : r.w.consume 0 count = some (w', k)) : ∃ v', w'.iov 0 = some v' ∧ v'.stableCount = some 0 := by
  obtain ⟨⟨b, hb⟩, _⟩ := encPrefixA_fpb p pol tun calls r h
  exact hb.consume_quiescent hcount hc

/-! ### Streaming footprint: the decoder -/

/-- The decoder's world at the end of any run — hence, taking prefixes of the call list, between any two
calls —, all input methods, whatever the verdict: one iovec, nothing else; nothing pending; and a drain of
everything (`consume(k)`, `k ≥` the number of buffered slices) leaves no slice, NO anchor, and at most one
live chunk: the allocation cache's. -/
theorem dec_streaming_footprint (p : Params) (pol : Policy) (tun : Tuning) (calls : List ACall) (w' : World)
    (dr : List UInt8) (res : Except DecErr Unit) (h : decRunA p pol tun calls = some (w', dr, res)) :
    ∃ v, w'.iov 0 = some v ∧ (∀ j, j ≠ 0 → w'.iov j = none) ∧ (∀ j, w'.arena j = none) ∧
      (∀ j, w'.aslice j = none) ∧ v.backrefs = [] ∧
      (∀ k ∈ w'.liveChunks, k ∈ arenaChunks v.arena ∨ k ∈ anchorChunks v.anchors) ∧
      (∀ count w2 n, v.slices.length ≤ count → w'.consume 0 count = some (w2, n) →
        ∃ v2, w2.iov 0 = some v2 ∧ v2.slices = [] ∧ v2.anchors = [] ∧ w2.liveChunks.length ≤ 1 ∧
          ∀ c ∈ w2.liveChunks, c ∈ arenaChunks v2.arena) := by
  have hd := decRunA_dpw p pol tun calls w' dr res h
  obtain ⟨hs, v, hv, hdv⟩ := hd
  refine ⟨v, hv, hs.onlyIov, hs.noArena, hs.noASlice, hdv.nopend, ?_, ?_⟩
  · intro k hk
    have := hs.live hv k hk
    simpa [List.mem_append] using this
  · intro count w2 n hcount hc
    obtain ⟨_, v2, hv2, g1, g2, g3, g4⟩ := DPW.full_drain ⟨hs, v, hv, hdv⟩
      (fun v0 hv0 => by rw [hv] at hv0; cases hv0; exact hcount) hc
    exact ⟨v2, hv2, g1, g2, g4, g3⟩

/-! ### Live bytes (borrowed / copied input) -/

/-- PARTIAL (borrow / copy input only — see the header).  Between the calls of any encoder run on arena
tuning `T`: the world, with the encoder's tokens as handle table, is a `WOp` history whose capacity ghost
(`GReach`) is at most `S` on every chunk ever allocated; so the live bytes are at most `#live · S`, and at a
quiescent point at most `3·max(maxInit, maxSub)·S`. -/
theorem enc_streaming_liveBytes_partial (T : Tuning) (B m₀ S : Nat) (hb : TuningBounds T B m₀ S) (p : Params)
    (hp : p.Valid) (hB : max 1 (max p.maxInit p.maxSub) ≤ B) (hB2 : 2 ≤ B) (pol : Policy) (calls : List Call) :
    ∃ r v caps, encPrefix p pol T calls = some r ∧ r.w.iov 0 = some v ∧ GReach (r.w.wb r.e.toks) caps ∧
      (∀ k, k < r.w.next → caps k ≤ S) ∧ liveBytes caps r.w ≤ r.w.liveChunks.length * S ∧
      (v.stableCount = some 0 → liveBytes caps r.w ≤ 3 * max p.maxInit p.maxSub * S) := by
  obtain ⟨r, v, h1, hv, _, _, _, _, _, _, _, hq⟩ := enc_streaming_footprint p hp pol T (calls.map .call)
  have h1' : encPrefix p pol T calls = some r := by
    unfold encPrefixA at h1
    unfold encPrefix
    cases h0 : encInit p (World.fresh pol T) 0 with
    | none => rw [h0] at h1; cases h1
    | some x =>
      obtain ⟨w1, e1⟩ := x
      rw [h0] at h1
      simp only [encCallsA_call] at h1
      exact h1
  have hcl := encPrefix_closed (capLit_closed T B m₀ S hb hB2) p hp hB pol T calls r (capLit_fresh pol T S) h1'
  obtain ⟨_, caps, hg, hcap⟩ := hcl
  have hlb : liveBytes caps r.w ≤ r.w.liveChunks.length * S :=
    liveBytes_le (fun k hk => hcap k (mem_liveChunks.1 hk).1)
  refine ⟨r, v, caps, h1', hv, hg, hcap, hlb, fun hs => ?_⟩
  have := (hq hs).2
  exact Nat.le_trans hlb (Nat.mul_le_mul_right S this)

/-- … production tuning and parameters: every chunk is at most 1 MiB. -/
theorem enc_streaming_liveBytes_prod_partial (pol : Policy) (calls : List Call) :
    ∃ r v caps, encPrefix C02.prod pol Woodpile.Iovec.prodTuning calls = some r ∧ r.w.iov 0 = some v ∧
      GReach (r.w.wb r.e.toks) caps ∧ liveBytes caps r.w ≤ r.w.liveChunks.length * 1048576 ∧
      (v.stableCount = some 0 → liveBytes caps r.w ≤ 192024 * 1048576) := by
  have hm : max C02.prod.maxInit C02.prod.maxSub = 64008 := by decide
  obtain ⟨r, v, caps, h1, h2, h3, _, h5, h6⟩ := enc_streaming_liveBytes_partial Woodpile.Iovec.prodTuning 64008 4096
    1048576 (prodTuning_bounds 64008 (by omega)) C02.prod C02.prod_params_valid (by rw [hm]; omega) (by omega) pol calls
  refine ⟨r, v, caps, h1, h2, h3, h5, fun hq => ?_⟩
  have := h6 hq
  rw [hm] at this
  exact this

/-- PARTIAL (borrow / copy input only).  The decoder: at the end of any run the world is a `WOp` history
whose capacity ghost is at most `S` everywhere, and after a drain of everything the live bytes are at most
`S` (one chunk: the cache's). -/
theorem dec_streaming_liveBytes_partial (T : Tuning) (B m₀ S : Nat) (hb : TuningBounds T B m₀ S) (p : Params)
    (hB : max p.maxInit p.maxSub ≤ B) (hB2 : 2 ≤ B) (pol : Policy) (calls : List Call) (w' : World)
    (dr : List UInt8) (res : Except DecErr Unit) (h : decRun p pol T calls = some (w', dr, res)) :
    (∃ caps, GReach (w'.wb []) caps ∧ (∀ k, k < w'.next → caps k ≤ S) ∧
      liveBytes caps w' ≤ w'.liveChunks.length * S) ∧
    (∀ count w2 n, (∀ v, w'.iov 0 = some v → v.slices.length ≤ count) → w'.consume 0 count = some (w2, n) →
      ∃ caps, GReach (w2.wb []) caps ∧ liveBytes caps w2 ≤ S) := by
  have hcl := decRun_closed (capLit_closed T B m₀ S hb hB2) p hB hB2 pol T calls (capLit_fresh pol T S) w' dr res h
  constructor
  · obtain ⟨_, caps, hg, hcap⟩ := hcl
    exact ⟨caps, hg, hcap, liveBytes_le (fun k hk => hcap k (mem_liveChunks.1 hk).1)⟩
  · intro count w2 n hcount hc
    obtain ⟨_, caps, hg, hcap⟩ := (capLit_closed T B m₀ S hb hB2).consume hc hcl
    have hd : DPW 0 w' := by
      have := decRunA_dpw p pol T (calls.map .call) w' dr res (by
        unfold decRunA; rw [decCallsA_call]; exact h)
      exact this
    obtain ⟨_, v2, _, _, _, _, hlen⟩ := hd.full_drain hcount hc
    refine ⟨caps, hg, ?_⟩
    have := liveBytes_le (caps := caps) (w := w2) (S := S) (fun k hk => hcap k (mem_liveChunks.1 hk).1)
    have h1 : w2.liveChunks.length * S ≤ 1 * S := Nat.mul_le_mul_right S hlen
    omega

/-! ### The small constant (borrowed / copied input) -/

/-- PARTIAL (borrow / copy input only).  The potential argument of `Props/C10.streaming_footprint` on the
real encoder run: on a tuning whose chunks have at least `m₀` bytes, at every quiescent point the anchor
deque has at most `2·cur/m₀ + 2` anchors (`cur` < the HCOBS chunk limit: the bytes of the open HCOBS
chunk), hence at most `2·max(maxInit, maxSub)/m₀ + 3` live chunks — whatever the policy, the piece sizes,
the drain schedule before, the amount streamed. -/
theorem enc_streaming_footprint_small_partial (T : Tuning) (m₀ : Nat) (hm : 0 < m₀)
    (hlo : ∀ len prev, m₀ ≤ max (findHintSize T len prev) len) (p : Params) (hp : p.Valid) (pol : Policy)
    (calls : List Call) :
    ∃ r v, encPrefix p pol T calls = some r ∧ r.w.iov 0 = some v ∧ r.e.st.cur < max p.maxInit p.maxSub ∧
      (v.stableCount = some 0 → v.anchors.length ≤ 2 * r.e.st.cur / m₀ + 2 ∧
        r.w.liveChunks.length ≤ 2 * max p.maxInit p.maxSub / m₀ + 3) := by
  obtain ⟨r, v, h1, hv, _, _, _, _, _, hlen, hcm, _⟩ := enc_streaming_footprint p hp pol T (calls.map .call)
  have h1' : encPrefix p pol T calls = some r := by
    unfold encPrefixA at h1
    unfold encPrefix
    cases h0 : encInit p (World.fresh pol T) 0 with
    | none => rw [h0] at h1; cases h1
    | some x =>
      obtain ⟨w1, e1⟩ := x
      rw [h0] at h1
      simp only [encCallsA_call] at h1
      exact h1
  obtain ⟨F, WF, b, ⟨_, _, v', hv', hq, hb⟩, hwf⟩ := encPrefix_qpb hlo p pol calls r h1'
  rw [hv] at hv'; cases hv'
  have hcur : r.e.st.cur < max p.maxInit p.maxSub := by unfold cm at hcm; omega
  refine ⟨r, v, h1', hv, hcur, fun hs => ?_⟩
  have h2 := hq.quiescent hm (by rw [hb]; simp) hs
  have h3 : 2 * WF / m₀ ≤ 2 * r.e.st.cur / m₀ := Nat.div_le_div_right (by omega)
  have h4 : 2 * r.e.st.cur / m₀ ≤ 2 * max p.maxInit p.maxSub / m₀ := Nat.div_le_div_right (by omega)
  constructor
  · omega
  · omega

/-- PARTIAL (borrow / copy input only).  … and the live BYTES, by the `GReach` capacity ghost: at most
`(2·max(maxInit, maxSub)/m₀ + 3)·S` at every quiescent point. -/
theorem enc_streaming_liveBytes_small_partial (T : Tuning) (B m₀ S : Nat) (hb : TuningBounds T B m₀ S) (hm : 0 < m₀)
    (p : Params) (hp : p.Valid) (hB : max 1 (max p.maxInit p.maxSub) ≤ B) (hB2 : 2 ≤ B) (pol : Policy) (calls : List Call) :
    ∃ r v caps, encPrefix p pol T calls = some r ∧ r.w.iov 0 = some v ∧ GReach (r.w.wb r.e.toks) caps ∧
      (v.stableCount = some 0 → liveBytes caps r.w ≤ (2 * max p.maxInit p.maxSub / m₀ + 3) * S) := by
  obtain ⟨r, v, caps, h1, hv, hg, _, hlb, _⟩ := enc_streaming_liveBytes_partial T B m₀ S hb p hp hB hB2 pol calls
  obtain ⟨r', v', h1', hv', _, hq⟩ := enc_streaming_footprint_small_partial T m₀ hm hb.lo p hp pol calls
  rw [h1] at h1'; cases h1'
  rw [hv] at hv'; cases hv'
  exact ⟨r, v, caps, h1, hv, hg, fun hs => Nat.le_trans hlb (Nat.mul_le_mul_right S (hq hs).2)⟩

/-- … production tuning and parameters: at most 34 live chunks and 34 MiB of live arena memory at every
quiescent point of any `encode` / `encode_copy` stream. -/
theorem enc_streaming_liveBytes_small_prod_partial (pol : Policy) (calls : List Call) :
    ∃ r v caps, encPrefix C02.prod pol Woodpile.Iovec.prodTuning calls = some r ∧ r.w.iov 0 = some v ∧
      GReach (r.w.wb r.e.toks) caps ∧
      (v.stableCount = some 0 → r.w.liveChunks.length ≤ 34 ∧ liveBytes caps r.w ≤ 34 * 1048576) := by
  have hm : max C02.prod.maxInit C02.prod.maxSub = 64008 := by decide
  obtain ⟨r, v, caps, h1, h2, h3, h4⟩ := enc_streaming_liveBytes_small_partial Woodpile.Iovec.prodTuning 64008 4096
    1048576 (prodTuning_bounds 64008 (by omega)) (by omega) C02.prod C02.prod_params_valid (by rw [hm]; omega) (by omega)
    pol calls
  obtain ⟨r', v', h1', h2', _, h5⟩ := enc_streaming_footprint_small_partial Woodpile.Iovec.prodTuning 4096 (by omega)
    (prodTuning_bounds 64008 (by omega)).lo C02.prod C02.prod_params_valid pol calls
  rw [h1] at h1'; cases h1'
  rw [h2] at h2'; cases h2'
  refine ⟨r, v, caps, h1, h2, h3, fun hs => ⟨?_, ?_⟩⟩
  · have := (h5 hs).2
    rw [hm] at this
    exact this
  · have := h4 hs
    rw [hm] at this
    exact this

/-! ### Drop histories -/

/-- Every drop history releases everything: for any world `w` (in particular any `Reachable` one) and any
list `hs` of handles that enumerates its live objects exactly once, the drop operations of `hs`, run in
that order from `w`, all succeed and leave no object, no live chunk, no live byte. -/
theorem drop_history_releases (w : World) (hs : List Handle) (hnd : hs.Nodup) (hm : ∀ h, w.LiveH h ↔ h ∈ hs)
    (caps : Nat → Nat) :
    ∃ w', w.run (hs.map Handle.dropOp) = some w' ∧ (∀ i, w'.iov i = none) ∧ (∀ j, w'.arena j = none) ∧
      (∀ j, w'.aslice j = none) ∧ w'.liveChunks = [] ∧ liveBytes caps w' = 0 := by
  obtain ⟨w', h1, h2, h3, h4, h5, _⟩ := Woodpile.Iovec.drop_history_releases hs w hnd hm
  exact ⟨w', h1, h2, h3, h4, h5, liveBytes_nil h5⟩

/-- … every permutation of the canonical enumeration `World.handles` of the live handles. -/
theorem drop_perm_releases {w : World} (_hr : Reachable w) (hs : List Handle) (hp : hs.Perm w.handles)
    (caps : Nat → Nat) :
    ∃ w', w.run (hs.map Handle.dropOp) = some w' ∧ (∀ i, w'.iov i = none) ∧ (∀ j, w'.arena j = none) ∧
      (∀ j, w'.aslice j = none) ∧ w'.liveChunks = [] ∧ liveBytes caps w' = 0 := by
  obtain ⟨w', h1, h2, h3, h4, h5, _⟩ := Woodpile.Iovec.drop_perm_releases w hs hp
  exact ⟨w', h1, h2, h3, h4, h5, liveBytes_nil h5⟩

/-- `World.handles` enumerates exactly the live objects, once each. -/
theorem handles_spec (w : World) : w.handles.Nodup ∧ ∀ h, h ∈ w.handles ↔ w.LiveH h :=
  ⟨handles_nodup w, fun _ => mem_handles⟩

/-- A drop never makes a chunk live: along a drop history the live set only shrinks. -/
theorem drop_step_live_subset {w w' : World} {h : Handle} (hs : w.step h.dropOp = some w') :
    ∀ k ∈ w'.liveChunks, k ∈ w.liveChunks :=
  Woodpile.Iovec.drop_step_live_subset hs

/-- Dropping the `Encoder` (= its iovec, arena included) after any run, all input methods, releases every
chunk. -/
theorem enc_drop_releases (p : Params) (pol : Policy) (tun : Tuning) (calls : List ACall) (r : Run)
    (h : encPrefixA p pol tun calls = some r) (caps : Nat → Nat) :
    ∃ w', r.w.step (.drop 0) = some w' ∧ w'.liveChunks = [] ∧ liveBytes caps w' = 0 := by
  obtain ⟨⟨b, hs, v, hv, _, _⟩, _⟩ := encPrefixA_fpb p pol tun calls r h
  obtain ⟨w', h1, h2⟩ := hs.drop_releases hv
  exact ⟨w', h1, h2, liveBytes_nil h2⟩

/-- Dropping the `Decoder` after any run, all input methods, whatever the verdict. -/
theorem dec_drop_releases (p : Params) (pol : Policy) (tun : Tuning) (calls : List ACall) (w' : World)
    (dr : List UInt8) (res : Except DecErr Unit) (h : decRunA p pol tun calls = some (w', dr, res))
    (caps : Nat → Nat) :
    ∃ w2, w'.step (.drop 0) = some w2 ∧ w2.liveChunks = [] ∧ liveBytes caps w2 = 0 := by
  obtain ⟨hs, v, hv, _⟩ := decRunA_dpw p pol tun calls w' dr res h
  obtain ⟨w2, h1, h2⟩ := hs.drop_releases hv
  exact ⟨w2, h1, h2, liveBytes_nil h2⟩

end Woodpile.Props.C10H

namespace Woodpile.Props.C10H
open Woodpile.Hcobs Woodpile.Iovec Woodpile.Arena Woodpile.EncWorld

/-! ### Non-vacuity -/

private def tp : Params := ⟨30, 30, 253⟩
private def tun4 : Tuning := ⟨[4], 4⟩

/-- (stable count, #anchors, live chunks, cur + mid) between calls -/
private def obs (p : Params) (pol : Policy) (tun : Tuning) (calls : List ACall) :
    Option (Option Nat × Nat × List Nat × Nat) :=
  (encPrefixA p pol tun calls).bind fun r => (r.w.iov 0).map fun v =>
    (v.stableCount, v.anchors.length, r.w.liveChunks, cm r.e.st)

-- copy input, drained after every call: quiescent, one live chunk
example : obs ⟨3, 5, 253⟩ ⟨64, 256⟩ ⟨[4096, 8192], 4096⟩
    [.call (.feed .copy [1, 2, 3, 4, 5, 6, 7]), .call (.consume 9)] = some (some 0, 1, [0], 4) := by decide +kernel

-- THE CONSTANT CANNOT BE SMALL for anchored input.  4-byte chunks; every `encode_read(count = 4)` is a short
-- read of 1 byte: the request never fits behind the byte kept from the previous read, so every read
-- abandons its chunk, which stays pinned by the byte it holds (and by its anchor) until the HCOBS chunk
-- closes.  After n reads (fully drained after each): n + 1 live chunks, `cur = n`.
example : obs tp ⟨0, 0⟩ tun4
    [.read 4 1 [1] [.deliver 1], .call (.consume 9), .read 4 1 [2] [.deliver 1], .call (.consume 9),
     .read 4 1 [3] [.deliver 1], .call (.consume 9), .read 4 1 [4] [.deliver 1], .call (.consume 9)] =
    some (some 0, 5, [0, 1, 2, 3, 4], 4) := by decide +kernel
-- … with the production copy thresholds the bytes are copied out of the read allocation, which stays pinned
-- by its (zero-count) anchor all the same
example : obs tp ⟨64, 256⟩ tun4
    [.read 4 1 [1] [.deliver 1], .call (.consume 9), .read 4 1 [2] [.deliver 1], .call (.consume 9),
     .read 4 1 [3] [.deliver 1], .call (.consume 9), .read 4 1 [4] [.deliver 1], .call (.consume 9)] =
    some (some 0, 9, [0, 1, 2, 3, 4], 4) := by decide +kernel

-- the decoder: an anchored read whose bytes are all header leaves a zero-count anchor on an EMPTY deque
-- (`front_anchor_counts` of `Props/C10` does not hold along decoder runs with anchored input); the next
-- `consume` drops it
example : (decRunA tp ⟨0, 0⟩ tun4 [.read 4 1 [5] [.deliver 1]]).map
    (fun x => ((x.1.iov 0).map (fun v => (v.slices, v.anchors)), x.1.liveChunks)) =
    some (some ([], [⟨0, some 0⟩]), [0]) := by decide +kernel
example : (decRunA tp ⟨0, 0⟩ tun4 [.read 4 1 [5] [.deliver 1], .call (.consume 0)]).map
    (fun x => ((x.1.iov 0).map (fun v => (v.slices, v.anchors)), x.1.liveChunks)) =
    some (some ([], []), [0]) := by decide +kernel

-- a drop history in an order that is not the creation order
example : (((World.init ⟨64, 256⟩ ⟨[4096, 8192], 4096⟩).run [.new, .pushCopy 0 [1, 2, 3], .clone 0, .takeArena 0,
    .readNArena 0 4 3 [9, 9, 9, 9] [.deliver 4]]).map fun w => (w.handles, w.liveChunks)) =
    some ([.iov 0, .iov 1, .arena 0, .aslice 0], [0]) := by decide
example : [Handle.aslice 0, .iov 1, .arena 0, .iov 0].Perm [.iov 0, .iov 1, .arena 0, .aslice 0] := by decide

-- the hypotheses of the live-bytes theorems are met by the production constants
example : TuningBounds Woodpile.Iovec.prodTuning 64008 4096 1048576 := prodTuning_bounds 64008 (by omega)

end Woodpile.Props.C10H

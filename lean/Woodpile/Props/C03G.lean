/-
C03 / C04 with ANCHORED pushes in the single-iovec vocabulary (track `anch`).

`Props/C03.lean` quantifies over histories of `Woodpile.Iovec.Op` (borrowed / copied / size-adaptive
pushes, extend, placeholders, clear, flush / reserve, the consumer operations).  Here the vocabulary is
`AOp` = `Op` plus the anchored push composite

    AOp.readPush count attempts src script cuts =
        read_n(reader, count, attempts) into the iovec's OWN arena (scripted, possibly faulty reader);
        push the sub-slices of the returned slice selected by `cuts` (skip, take, skip, take, …), in order —
          each `OwningIovec::push`: copied when small / appendable, borrowed arena memory otherwise, then
          possibly merged into the previous slice —;
        push_anchor(anchor) (skipped when the slice read is empty)

(`Proofs/IovecAnchOps.lean`; with `cuts = [(0, count)]` it is `push_anchored(read_n(..)?)`).  The composite
never panics, preserves the structural invariant, and acts on the abstraction as `append` of exactly the
bytes of the selected pieces of what the reader delivered; so every history of the extended vocabulary
refines the abstract pipe (`reachable_refines`), with the same consequences as in `Props/C03.lean` /
`Props/C04.lean` (they are statements about `Inv` and `abs`, which the extended histories keep).

What it took (`Proofs/IovecInv.lean`): `IovInv` now requires owned slices to be pairwise disjoint instead
of allocation-ordered, and allows zero-count anchors (`push_anchor`); `consume` pops zero-count anchors
that reach the front.  `Proofs/IovecAnch.lean`: a slice `read_n` returned is disjoint from every slice of
the iovec, below the bump pointer, and stays so (and keeps its bytes) while other pieces are pushed.

Scope: the anchored slice comes from the iovec's OWN arena and is pushed before anything else happens to
the iovec (one composite operation).  Interleaved `register_patch` / `backfill` between the pieces is what
the HCOBS encoder does: `Props/C01G.lean`.  Foreign `AnchoredSlice`s, `clone` / `take` / arena swap:
C20's multi-object vocabulary.
-/
import Woodpile.Proofs.IovecAnchOps

namespace Woodpile.Props.C03G
open Woodpile.Iovec Woodpile.Arena
open Woodpile.Pipe (Cell Pipe)

/-- Per-operation refinement for the extended vocabulary: an operation that does not panic preserves the
structural invariant, acts on the abstraction as the corresponding pipe operation (`aspecStep`: for the
anchored composite, `append` of `readPushBytes` = the selected pieces of the bytes the reader
delivered, nothing when the read failed), and its returned value satisfies the side condition. -/
theorem aop_refines (i : Nat) (s s' : State) (op : AOp) (r : Ret) (hinv : Inv i s)
    (h : astep i s op = some (s', r)) :
    Inv i s' ∧ abs i s' = aspecStep (abs i s) op r ∧ aspecOk (abs i s) op r :=
  astep_refines i s s' op r hinv h

/-- The anchored push composite never panics: no anchor-count assertion (`maybe_collapse_last_pair` after
a borrowed push of arena memory, `consume` over zero-count anchors), no arena assertion. -/
theorem read_push_no_panic (i : Nat) (s : State) (count attempts : Nat) (src : List UInt8) (script : List ReadN.Ev)
    (cuts : List (Nat × Nat)) (hinv : Inv i s) :
    ∃ s', astep i s (.readPush count attempts src script cuts) = some (s', .unit) :=
  astep_readPush_some i s count attempts src script cuts hinv

/-- … and what it appends: the selected pieces of exactly the bytes `read_n` returned. -/
theorem read_push_appends (i : Nat) (s s' : State) (count attempts : Nat) (src : List UInt8) (script : List ReadN.Ev)
    (cuts : List (Nat × Nat)) (r : Ret) (hinv : Inv i s)
    (h : astep i s (.readPush count attempts src script cuts) = some (s', r)) :
    (abs i s').cells = (abs i s).cells ++
      (match (ReadN.readNCore ⟨src, script⟩ count attempts).res with
        | .ok got => (cutBytes got cuts).flatten
        | .err _ => []).map Cell.byte ∧
    (abs i s').consumed = (abs i s).consumed := by
  obtain ⟨_, h2, _⟩ := aop_refines i s s' _ r hinv h
  rw [h2]
  simp only [aspecStep, Woodpile.Pipe.Pipe.append, readPushBytes, and_true]
  cases (ReadN.readNCore ⟨src, script⟩ count attempts).res <;> rfl

/-- Lifted to every history of the extended vocabulary from the initial world. -/
theorem reachable_refines (pol : Policy) (tun : Tuning) (ops : List AOp) (s : State) (rs : List Ret)
    (h : arun 0 (State.init pol tun) ops = some (s, rs)) :
    Inv 0 s ∧ abs 0 s = aspecRun Woodpile.Pipe.empty ops rs ∧ aspecOkRun Woodpile.Pipe.empty ops rs := by
  have := arun_refines 0 ops (State.init pol tun) s rs (Inv.init pol tun) h
  rwa [abs_init] at this

/-- Hence, in every state reachable by the extended vocabulary: the reported total size is the number of
buffered cells; no exposed slice is empty; the stable prefix has no hole and is a prefix of the cells
(C04's core, `absCells_visible`). -/
theorem reachable_facts (pol : Policy) (tun : Tuning) (ops : List AOp) (s : State) (rs : List Ret)
    (h : arun 0 (State.init pol tun) ops = some (s, rs)) :
    ∃ v, s.w.iov 0 = some v ∧ v.totalSize = (abs 0 s).size ∧ (∀ sl ∈ v.slices, 0 < sl.len) ∧
      absCells s.w v = (s.w.visible v).map Cell.byte ++
        mkCells v.backrefs (v.consumedSize + (s.w.visible v).length) (s.w.flat (v.slices.drop v.stableN)) := by
  obtain ⟨⟨v, hv, hi⟩, _, _⟩ := reachable_refines pol tun ops s rs h
  refine ⟨v, hv, ?_, fun sl hsl => (hi.slices_ok sl hsl).pos, absCells_visible hi⟩
  rw [abs_eq 0 s v hv]
  simp only [Woodpile.Pipe.Pipe.size, absCells, mkCells_length, hi.flat_length, Iov.totalSize]
  have := hi.size_eq
  omega

/-! ### Non-vacuity (production thresholds 64 / 256, 4 KiB first chunk) -/

def exPol : Policy := ⟨64, 256⟩
def exTun : Tuning := ⟨[4096, 8192], 4096⟩

/-- returned values, abstract cells and consumed log after a history -/
def exObs (pol : Policy) (ops : List AOp) : Option (List Ret × List Cell × List UInt8) :=
  (arun 0 (State.init pol exTun) ops).map (fun x => (x.2, (abs 0 x.1).cells, (abs 0 x.1).consumed))

/-- ((offset, length) of the slices, anchor counts) after a history -/
def exShape (pol : Policy) (ops : List AOp) : Option (List (Nat × Nat) × List Nat) :=
  (arun 0 (State.init pol exTun) ops).bind fun x => (x.1.w.iov 0).map fun v =>
    (v.slices.map (fun s => (s.off, s.len)), v.anchors.map (·.count))

-- a copy, then 5 of 6 requested bytes read (short delivery, then EOF), of which bytes 1..3 and 4..5 are pushed;
-- then a placeholder (in a slice of its own: the zero-count anchor handed over by the composite is the one
-- its copy is counted on, so `optimize` does not merge it), a failed read (nothing happens), and a drain
example : exObs exPol [.op (.pushCopy [7]), .readPush 6 3 [1, 2, 3, 4, 5] [.deliver 3, .deliver 9, .eof] [(1, 2), (1, 9)],
      .op (.registerPatch [0]), .readPush 4 2 [9] [.err 3] [(0, 4)], .op (.consume 9)]
    = some ([.unit, .unit, .token (some (5, ⟨2, 0, 1⟩)), .unit, .took 2 [7, 2, 3, 5]], [.hole 5], [7, 2, 3, 5]) := by
  decide +kernel
-- never copy: the pieces stay borrowed slices of the `read_n` allocation (offsets 1..6 of chunk 0); the
-- anchor handed over has count 0 and sits behind the one that counts the slices
example : exShape ⟨0, 0⟩ [.op (.pushCopy [7]), .readPush 6 3 [1, 2, 3, 4, 5] [.deliver 3, .deliver 9, .eof] [(1, 2), (1, 9)]]
    = some ([(0, 1), (2, 2), (5, 1)], [3, 0]) := by decide +kernel
-- adjacent pieces merge (`optimize`), also with the copy that precedes the read allocation
example : exShape ⟨0, 0⟩ [.op (.pushCopy [7]), .readPush 4 1 [1, 2, 3, 4] [.deliver 4] [(0, 2), (0, 2)]]
    = some ([(0, 5)], [1, 0]) := by decide +kernel
-- consuming everything pops the zero-count anchor too; the next push starts a fresh anchor
example : exShape ⟨0, 0⟩ [.readPush 4 1 [1, 2, 3, 4] [.deliver 4] [(0, 4)], .op (.consume 9), .op (.pushCopy [8])]
    = some ([(4, 1)], [1]) := by decide +kernel

end Woodpile.Props.C03G

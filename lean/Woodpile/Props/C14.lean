/-
C14 — VouchedTime exists only inside the allowed window around a vouched base time.

Property theorems only (helper lemmas: `Woodpile/Proofs/Raffle.lean`,
`Woodpile/Proofs/VouchedTime.lean`).  Models: `Woodpile.Raffle` (the raffle
crate's `check`/`vouch` in wrapping `UInt64` arithmetic) and
`Woodpile.VouchedTime` (`check_vouched_time`, `check`, `new`, `check_or_die`,
`get_local_time`, `now`).  `prodCfg`, `baseTimeCheck`, `nfsVouch`, `abtVouch`
are built from the constants re-extracted from /repo on every run
(`Woodpile/Gen/Consts.lean`); the literal numbers below are the property's.

Local times are nanoseconds since the epoch (`Int`); `InRange` is
`PrimitiveDateTime::MIN ..= MAX`.  On `Int`, `/` is Lean's `Int.div`
(Euclidean/floor for a positive divisor), i.e. Rust's `div_euclid`.
-/
import Woodpile.Proofs.VouchedTime

namespace Woodpile.Props.C14
open Woodpile.Raffle Woodpile.VouchedTime

/-- The constants of the statement are the constants of the code. -/
theorem window_consts : prodCfg.fwdMs = 2990 ∧ prodCfg.backMs = 59900 ∧ prodCfg.params = baseTimeCheck := by
  decide

/-- **The raffle crate's constants** (claim-audit gap 20).  `WANTED_SUM`,
`CHECKING_TAG`, `VOUCHING_TAG` are re-read on every run from the source of the raffle
crate that `vouched_time/Cargo.toml` resolves to (cargo registry, offline):
`Gen.raffle*Name` are the bytes of the ASCII names in `named_u64("…")`,
`Gen.raffle*` the values the extractor computed from them.  The model's literals
(`Woodpile.Raffle.wantedSum` …) are those values, and `namedU64` - the model of
`constparse::named_u64`, little-endian - maps the extracted names to them.
`Gen.raffle*Shape = 1` records that the extractor found `check` / `vouch` to be
textually the expressions `Raffle.check` / `Raffle.vouchRaw` transcribe. -/
theorem raffle_consts :
    wantedSum.toNat = Woodpile.Gen.raffleWantedSum ∧
    checkingTag.toNat = Woodpile.Gen.raffleCheckingTag ∧
    vouchingTag.toNat = Woodpile.Gen.raffleVouchingTag ∧
    wantedSum = UInt64.ofNat (namedU64 Woodpile.Gen.raffleWantedSumName) ∧
    checkingTag = UInt64.ofNat (namedU64 Woodpile.Gen.raffleCheckingTagName) ∧
    vouchingTag = UInt64.ofNat (namedU64 Woodpile.Gen.raffleVouchingTagName) ∧
    Woodpile.Gen.raffleCheckShape = 1 ∧ Woodpile.Gen.raffleVouchShape = 1 := by
  decide

/-- The names are what the crate's documentation says: "Vouch!OK", "Checking",
"Vouching" (ASCII). -/
theorem raffle_names :
    Woodpile.Gen.raffleWantedSumName = "Vouch!OK".toList.map Char.toNat ∧
    Woodpile.Gen.raffleCheckingTagName = "Checking".toList.map Char.toNat ∧
    Woodpile.Gen.raffleVouchingTagName = "Vouching".toList.map Char.toNat := by
  decide

/-- **The calendar range.**  `minLocalNs` / `maxLocalNs` (the bounds of `InRange`)
are `-Y₀-01-01 00:00:00.000000000` and `Y₁-12-31 23:59:59.999999999` for the year
range `MIN_YEAR ..= MAX_YEAR` re-read from the `time` crate that `vouched_time`
resolves to (without `large-dates`, as resolved). -/
theorem local_range_consts :
    minLocalNs = civilNs (-(Woodpile.Gen.timeMinYearNeg : Int)) 1 1 0 0 0 0 ∧
    maxLocalNs = civilNs (Woodpile.Gen.timeMaxYear : Int) 12 31 23 59 59 999999999 ∧
    civilNs 1970 1 1 0 0 0 0 = 0 ∧ civilNs 2000 3 1 0 0 0 0 = 951868800000000000 := by
  decide

/-- The crate's vouching parameters (nfs_voucher's and AtomicBaseTime's) are
matched with `BASE_TIME_CHECK`: every value's voucher passes the check, and the
assertion inside `raffle::vouch` never fires. -/
theorem check_vouch (x : UInt64) :
    Raffle.check baseTimeCheck x (vouchRaw nfsVouch x) = true ∧
    Raffle.check baseTimeCheck x (vouchRaw abtVouch x) = true ∧
    vouch? nfsVouch x = some (vouchRaw nfsVouch x) ∧
    vouch? abtVouch x = some (vouchRaw abtVouch x) :=
  ⟨check_nfs x, check_abt x, vouch?_nfs x, vouch?_abt x⟩

/-- A voucher vouches for at most one base time. -/
theorem check_injective (v x y : UInt64) :
    Raffle.check baseTimeCheck x v = true → Raffle.check baseTimeCheck y v = true → x = y :=
  check_inj_value baseTimeCheck v x y

/-- "The voucher vouches for the base time under the crate's parameters" has
exactly one solution per base time: the voucher the crate's own vouching
parameters compute. -/
theorem voucher_unique (x v : UInt64) :
    Raffle.check baseTimeCheck x v = true ↔ v = vouchRaw nfsVouch x := by
  constructor
  · intro h
    exact check_inj_voucher baseTimeCheck _ baseTimeCheck_invertible x v _ h (check_vouch x).1
  · rintro rfl; exact (check_vouch x).1

/-- **The acceptance rule.**  For every representable local time, every 64-bit
base time and every voucher, `VouchedTime::new` returns `Ok` exactly when the
voucher checks for the base time, the local time is not before the epoch, and
`floor(local / 1 ms) - base` lies in `[-59900, 2990]` — a difference of
integers, no wrap-around. -/
theorem new_ok_iff (ns : Int) (hr : InRange ns) (base v : UInt64) :
    (∃ vt, new prodCfg ns base v = .ok vt) ↔
      Raffle.check baseTimeCheck base v = true ∧ 0 ≤ ns ∧
      -59900 ≤ ns / 1000000 - (base.toNat : Int) ∧ ns / 1000000 - (base.toNat : Int) ≤ 2990 := by
  have := new_ok_iff_general prodCfg ns (localMs_le_u64Max ns hr) base v
  obtain ⟨h1, h2, h3⟩ := window_consts
  rw [h1, h2, h3] at this
  exact this

/-- The same rule for any local time whose millisecond count fits in a `u64`
(a superset of `InRange`), showing that the range hypothesis is only used to
rule out the "local time is out of range" arm. -/
theorem new_ok_iff_fits (ns : Int) (hfit : ns / 1000000 ≤ 18446744073709551615) (base v : UInt64) :
    (∃ vt, new prodCfg ns base v = .ok vt) ↔
      Raffle.check baseTimeCheck base v = true ∧ 0 ≤ ns ∧
      -59900 ≤ ns / 1000000 - (base.toNat : Int) ∧ ns / 1000000 - (base.toNat : Int) ≤ 2990 := by
  have := new_ok_iff_general prodCfg ns hfit base v
  obtain ⟨h1, h2, h3⟩ := window_consts
  rw [h1, h2, h3] at this
  exact this

/-- Neither `new`, nor `now`, nor `get_local_time`/`check_or_die` on a value
obtained from `new` can panic: the only panic site is the `expect` in
`check_or_die`, which re-evaluates the check that already succeeded on the same
inputs.  (Any configuration, any inputs — in range or not.) -/
theorem no_panic (c : Cfg) (ns : Int) (base v : UInt64) :
    new c ns base v ≠ .panic ∧
    (∀ provider, now c ns provider ≠ .panic) ∧
    (∀ vt, new c ns base v = .ok vt → checkOrDie c vt = true ∧ getLocalTime c vt ≠ none) := by
  have hnew : ∀ b w, new c ns b w ≠ .panic := by
    intro b w; rw [new_eq]; cases check c ns b w <;> simp
  refine ⟨hnew base v, ?_, ?_⟩
  · intro provider
    unfold now
    cases provider ns with
    | none => simp
    | some p => exact hnew p.1 p.2
  · intro vt h
    rw [new_ok_iff_check] at h
    obtain ⟨h, rfl⟩ := h
    simp [getLocalTime, checkOrDie, h]

/-- A constructed `VouchedTime` holds, and `get_local_time` reports, exactly
the local time it was built from (and the base time and voucher it was given). -/
theorem reports_local_time (c : Cfg) (ns : Int) (base v : UInt64) (vt : VT) :
    new c ns base v = .ok vt →
      vt = ⟨ns, base, v⟩ ∧ getLocalTime c vt = some ns := by
  intro h
  rw [new_ok_iff_check] at h
  obtain ⟨h, rfl⟩ := h
  simp [getLocalTime, checkOrDie, h]

/-- `now()` is `new` applied to the clock reading and whatever the provider
returned for that reading; hence it succeeds under exactly the same rule, and
the value it returns reports the clock reading. -/
theorem now_same_rule (clockNs : Int) (hr : InRange clockNs) (provider : Int → Option (UInt64 × UInt64)) :
    (∀ base v, provider clockNs = some (base, v) → now prodCfg clockNs provider = new prodCfg clockNs base v) ∧
    (provider clockNs = none → now prodCfg clockNs provider = .err .provider) ∧
    ((∃ vt, now prodCfg clockNs provider = .ok vt) ↔
      ∃ base v, provider clockNs = some (base, v) ∧
        Raffle.check baseTimeCheck base v = true ∧ 0 ≤ clockNs ∧
        -59900 ≤ clockNs / 1000000 - (base.toNat : Int) ∧ clockNs / 1000000 - (base.toNat : Int) ≤ 2990) ∧
    (∀ vt, now prodCfg clockNs provider = .ok vt → getLocalTime prodCfg vt = some clockNs) := by
  refine ⟨?_, ?_, ?_, ?_⟩
  · intro base v h; simp [now, h]
  · intro h; simp [now, h]
  · unfold now
    cases h : provider clockNs with
    | none => simp
    | some p =>
      obtain ⟨b, w⟩ := p
      simp only [Option.some.injEq, Prod.mk.injEq]
      rw [new_ok_iff clockNs hr b w]
      constructor
      · intro hc; exact ⟨b, w, ⟨rfl, rfl⟩, hc⟩
      · rintro ⟨b', w', ⟨rfl, rfl⟩, hc⟩; exact hc
  · intro vt
    unfold now
    cases h : provider clockNs with
    | none => simp
    | some p => exact fun hn => (reports_local_time prodCfg clockNs p.1 p.2 vt hn).2

/-- Finding F4 (repaired by b1e160f): with the old wrapping-`u64` window
formula, local = epoch + 1 ms is accepted for base = 2^64 - 1, although the
true difference is about -2^64 ms.  The current formula rejects it. -/
theorem wrap_counterexample :
    checkVouchedTimeOldWrapping prodCfg 1 18446744073709551615 = .ok ∧
    ¬ (-59900 ≤ (1 : Int) - ((18446744073709551615 : UInt64).toNat : Int)) ∧
    checkVouchedTime prodCfg 1 18446744073709551615 = .err .tooFarBehind := by
  decide +kernel

/-- Finding F5 (repaired by 44d8992): with the old truncating division, a local
time 1 ns before the epoch becomes 0 ms and passes the window check for base 0,
although it is before the epoch.  Floor division yields -1 ms: rejected. -/
theorem trunc_counterexample :
    checkVouchedTime prodCfg (localMsOldTruncating (-1)) 0 = .ok ∧
    ¬ (0 ≤ (-1 : Int)) ∧
    checkVouchedTime prodCfg (localMs (-1)) 0 = .err .beforeEpoch := by
  decide +kernel

end Woodpile.Props.C14

namespace Woodpile.Props.C14
open Woodpile.Raffle Woodpile.VouchedTime

/-! Non-vacuity: the hypotheses are satisfiable and both verdicts occur. -/

-- 2024-04-13 17:00:59 UTC with its own base time and voucher (the crate's unit test): accepted.
example : new prodCfg 1713027659000000000 1713027659000 (vouchRaw nfsVouch 1713027659000)
    = .ok ⟨1713027659000000000, 1713027659000, vouchRaw nfsVouch 1713027659000⟩ := by decide +kernel
example : InRange 1713027659000000000 := by decide
-- Both window edges are inside, one more millisecond is outside.
example : new prodCfg 1713027661990999999 1713027659000 (vouchRaw nfsVouch 1713027659000)
    = .ok ⟨1713027661990999999, 1713027659000, vouchRaw nfsVouch 1713027659000⟩ := by decide +kernel
example : new prodCfg 1713027661991000000 1713027659000 (vouchRaw nfsVouch 1713027659000)
    = .err .tooFarAhead := by decide +kernel
example : new prodCfg 1713027599100000000 1713027659000 (vouchRaw nfsVouch 1713027659000)
    = .ok ⟨1713027599100000000, 1713027659000, vouchRaw nfsVouch 1713027659000⟩ := by decide +kernel
example : new prodCfg 1713027599099999999 1713027659000 (vouchRaw nfsVouch 1713027659000)
    = .err .tooFarBehind := by decide +kernel
-- A voucher for another value, and the calendar limits.
example : new prodCfg 1713027659000000000 1713027659000 (vouchRaw nfsVouch 1713027659001)
    = .err .badVoucher := by decide +kernel
example : InRange minLocalNs ∧ InRange maxLocalNs := by decide
example : new prodCfg minLocalNs 0 (vouchRaw nfsVouch 0) = .err .beforeEpoch := by decide +kernel
example : new prodCfg maxLocalNs 253402300799999 (vouchRaw nfsVouch 253402300799999)
    = .ok ⟨maxLocalNs, 253402300799999, vouchRaw nfsVouch 253402300799999⟩ := by decide +kernel
-- `now` with a provider that vouches for the clock reading itself.
example : now prodCfg 1713027659000000000
    (fun ns => some (UInt64.ofNat (ns / 1000000).toNat, vouchRaw nfsVouch (UInt64.ofNat (ns / 1000000).toNat)))
    = .ok ⟨1713027659000000000, 1713027659000, vouchRaw nfsVouch 1713027659000⟩ := by decide +kernel

end Woodpile.Props.C14

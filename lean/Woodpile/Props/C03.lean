/-
C03 — OwningIovec is a faithful FIFO byte pipe.

Property theorems only; the invariant, the abstraction and the per-operation
lemmas live in `Woodpile/Proofs/IovecInv.lean` and `Woodpile/Proofs/IovecAbs.lean`.

Model: `Woodpile.Iovec` (structural model of `owning_iovec`, one Lean function
per Rust method, `none` = panic).  Histories: arbitrary lists of `Op` applied by
`step`/`run` to iovec 0 of the initial world (`State.init`), any tuning
constants.  The abstract pipe is `Woodpile.Pipe`; `abs` maps a model state to it
(pending backref ranges become hole cells whose id is the backref key).

WORK IN PROGRESS: the refinement is proved so far for the operations in
`Proved`; the remaining ones are added one at a time.
-/
import Woodpile.Proofs.IovecAbs

namespace Woodpile.Props.C03
open Woodpile.Iovec Woodpile.Arena
open Woodpile.Pipe (Cell Pipe)

/-- Operations for which the refinement proof is finished. -/
def Proved : Op → Prop
  | .pushCopy _ | .pushBorrowed _ | .push _ | .extend _ | .consume _ | .advance _ => True
  | _ => False

/-- Per-operation refinement: a non-panicking operation preserves the invariant, acts on the
abstraction as the corresponding pipe operation, and its returned value satisfies the pipe-level
side condition (`specOk`: consumed bytes are a prefix of the pipe's stable bytes, …). -/
theorem op_refines_partial (i : Nat) (s s' : State) (op : Op) (r : Ret) (hp : Proved op) (hinv : Inv i s)
    (h : step i s op = some (s', r)) :
    Inv i s' ∧ abs i s' = specStep (abs i s) op r ∧ specOk (abs i s) op r := by
  cases op with
  | pushCopy b => exact (refines_pushCopy i s b hinv).elim s' r h
  | pushBorrowed b => exact (refines_pushBorrowed i s b hinv).elim s' r h
  | push b => exact (refines_push i s b hinv).elim s' r h
  | extend b => exact (refines_extend i s b hinv).elim s' r h
  | consume c => exact (refines_consume i s c hinv).elim s' r h
  | advance c => exact (refines_advance i s c hinv).elim s' r h
  | _ => cases hp

/-- Lifted to histories from the initial world. -/
theorem reachable_refines_partial (pol : Policy) (tun : Tuning) (ops : List Op) (s : State) (rs : List Ret)
    (hp : ∀ op ∈ ops, Proved op) (h : run 0 (State.init pol tun) ops = some (s, rs)) :
    Inv 0 s ∧ abs 0 s = specRun Woodpile.Pipe.empty ops rs ∧ specOkRun Woodpile.Pipe.empty ops rs := by
  have := run_refines 0 Proved (fun s op hp hinv s' r h => op_refines_partial 0 s s' op r hp hinv h)
    ops (State.init pol tun) s rs hp (Inv.init pol tun) h
  rwa [abs_init] at this

/-- No exposed slice is empty (in any state satisfying the invariant, hence in every reachable one). -/
theorem no_empty_slice (i : Nat) (s : State) (hinv : Inv i s) :
    ∃ v, s.w.iov i = some v ∧ ∀ sl ∈ v.slices, 0 < sl.len := by
  obtain ⟨v, hv, hi⟩ := hinv
  exact ⟨v, hv, fun sl hsl => (hi.slices_ok sl hsl).pos⟩

/-- `total_size` is the number of buffered cells (appended minus consumed). -/
theorem size_eq (i : Nat) (s : State) (hinv : Inv i s) :
    ∃ v, s.w.iov i = some v ∧ v.totalSize = (abs i s).size := by
  obtain ⟨v, hv, hi⟩ := hinv
  refine ⟨v, hv, ?_⟩
  rw [abs_eq i s v hv]
  simp only [Pipe.size, absCells, mkCells_length, hi.flat_length, Iov.totalSize]
  have := hi.size_eq
  omega

/-! Non-vacuity -/

def pol : Policy := ⟨64, 256⟩
def tun : Tuning := ⟨[4096, 8192], 4096⟩

example : (run 0 (State.init pol tun) [.pushBorrowed ⟨[9], [1, 2, 3], [9]⟩, .pushBorrowed ⟨[], [4], []⟩,
    .advance 2, .consume 5]).map (·.2) = some [.unit, .unit, .took 2 [1, 2], .took 2 [3, 4]] := by decide

end Woodpile.Props.C03

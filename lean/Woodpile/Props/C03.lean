/-
C03 — OwningIovec is a faithful FIFO byte pipe.

Property theorems only; the invariant, the abstraction and the per-operation
lemmas live in `Woodpile/Proofs/IovecInv.lean` and `Woodpile/Proofs/IovecAbs.lean`.

Model: `Woodpile.Iovec` (structural model of `owning_iovec`, one Lean function
per Rust method, `none` = panic; tied to the crate by the `iovec` correspondence
family).  Histories: arbitrary lists of `Op` (borrowed / copied / size-adaptive
pushes, extend, placeholder registration and backfill with ARBITRARY tokens,
clear, arena flush / reserve; consume slices, pop, advance by bytes, Read)
applied by `step`/`run` to iovec 0 of the initial world `State.init`, for any
policy and tuning constants.  The abstract pipe is `Woodpile.Pipe`; `abs` maps
a model state to it: pending backref ranges become hole cells whose id is the
backref key (= logical end offset), `consumed` is the ghost log of every byte
handed to the consumer since the last clear.

Scope of THIS file: histories of one iovec over the `Op` vocabulary.  The same clauses for
every handle of every multi-object history — all `WOp` constructors: clone, take, arena
hand-off / swap, foreign anchored slices, detached `AnchoredSlice`s, drops, `new_from_slices`,
`read_n` … — are `Props/C03W.lean` (`fifo_w`, `size_eq_w`, `consume_reports_w`,
`no_empty_slice_w`, `reachable_refines_w`; side condition `FillPrivate`, decided by
`World.okRunB`), and for the anchored composite `Props/C03G.lean`; public-API spellings that
are not `WOp` constructors are reduced to `WOp` lists in `Props/C05A.lean` / `C03A.lean`.
-/
import Woodpile.Proofs.IovecAbs

namespace Woodpile.Props.C03
open Woodpile.Iovec Woodpile.Arena
open Woodpile.Pipe (Cell Pipe)

/-- Per-operation refinement: an operation that does not panic preserves the structural invariant
(non-empty slices, size bookkeeping, anchor counts, backref ranges, …), acts on the abstraction as
the corresponding pipe operation (`specStep`), and its returned value satisfies the pipe-level side
condition `specOk` (bytes reported as consumed are a prefix of the pipe's stable bytes; a fresh
placeholder id does not occur in the pipe; …). -/
theorem op_refines (i : Nat) (s s' : State) (op : Op) (r : Ret) (hinv : Inv i s)
    (h : step i s op = some (s', r)) :
    Inv i s' ∧ abs i s' = specStep (abs i s) op r ∧ specOk (abs i s) op r :=
  step_refines i s s' op r hinv h

/-- Lifted to every history from the initial world. -/
theorem reachable_refines (pol : Policy) (tun : Tuning) (ops : List Op) (s : State) (rs : List Ret)
    (h : run 0 (State.init pol tun) ops = some (s, rs)) :
    Inv 0 s ∧ abs 0 s = specRun Woodpile.Pipe.empty ops rs ∧ specOkRun Woodpile.Pipe.empty ops rs := by
  have := run_refines 0 (fun _ => True) (fun s op _ hinv s' r h => op_refines 0 s s' op r hinv h)
    ops (State.init pol tun) s rs (fun _ _ => trivial) (Inv.init pol tun) h
  rwa [abs_init] at this

/-- FIFO: after any history, the bytes handed to the consumer, followed by the bytes still readable
(the stable prefix), followed by the not-yet-readable cells, are exactly everything appended since
the last clear, in order, with every backfilled placeholder holding its backfilled value
(`ledger`: pushes append bytes, `register_patch` appends holes, `backfill` fills them, `clear`
resets, consumer calls change nothing). -/
theorem fifo (pol : Policy) (tun : Tuning) (ops : List Op) (s : State) (rs : List Ret)
    (h : run 0 (State.init pol tun) ops = some (s, rs)) :
    ∃ v, s.w.iov 0 = some v ∧
      ledger [] ops rs = s.ghost.map Cell.byte ++ (s.w.visible v).map Cell.byte ++
        mkCells v.backrefs (v.consumedSize + (s.w.visible v).length) (s.w.flat (v.slices.drop v.stableN)) := by
  obtain ⟨⟨v, hv, hi⟩, habs, hok⟩ := reachable_refines pol tun ops s rs h
  refine ⟨v, hv, ?_⟩
  have := history_specRun ops Woodpile.Pipe.empty rs hok
  rw [← habs, abs_eq 0 s v hv] at this
  simp only [pipeHistory, Woodpile.Pipe.empty, List.map_nil, List.nil_append] at this
  rw [← this, absCells_visible hi, List.append_assoc]

/-- The reported total size is the number of buffered cells, and buffered plus consumed is
everything appended since the last clear. -/
theorem size_eq (pol : Policy) (tun : Tuning) (ops : List Op) (s : State) (rs : List Ret)
    (h : run 0 (State.init pol tun) ops = some (s, rs)) :
    ∃ v, s.w.iov 0 = some v ∧ v.totalSize = (abs 0 s).size ∧
      v.totalSize + s.ghost.length = (ledger [] ops rs).length := by
  obtain ⟨⟨v, hv, hi⟩, habs, hok⟩ := reachable_refines pol tun ops s rs h
  have hl := history_specRun ops Woodpile.Pipe.empty rs hok
  rw [← habs, abs_eq 0 s v hv] at hl
  simp only [pipeHistory, Woodpile.Pipe.empty, List.map_nil, List.nil_append] at hl
  have hsz : v.totalSize = (absCells s.w v).length := by
    simp only [absCells, mkCells_length, hi.flat_length, Iov.totalSize]
    have := hi.size_eq
    omega
  refine ⟨v, hv, ?_, ?_⟩
  · rw [abs_eq 0 s v hv]; exact hsz
  · rw [← hl, hsz]; simp; omega

/-- Every consuming call reports exactly what it removed: the bytes `rm` it hands out (the contents
of the popped slices for `consume`/`pop`, the skipped bytes for `advance_slices`, the bytes copied
out for `Read`) are byte cells at the front of the pipe, they are exactly what leaves the pipe and
what is added to the consumed log, and the byte-counting calls return `rm.length`. -/
theorem consume_reports (i : Nat) (s s' : State) (op : Op) (r : Ret) (hinv : Inv i s)
    (hop : (∃ c, op = .consume c) ∨ op = .pop ∨ (∃ c, op = .advance c) ∨ (∃ c, op = .readInto c))
    (h : step i s op = some (s', r)) :
    ∃ n rm, r = .took n rm ∧ (abs i s).cells = rm.map Cell.byte ++ (abs i s').cells ∧
      (abs i s').consumed = (abs i s).consumed ++ rm ∧ (abs i s').size + rm.length = (abs i s).size ∧
      ((∃ c, op = .advance c ∨ op = .readInto c) → n = rm.length) := by
  obtain ⟨_, habs, hok⟩ := op_refines i s s' op r hinv h
  have key : ∀ n rm, r = .took n rm → rm <+: (abs i s).stable → abs i s' = ((abs i s).consume rm.length).1 →
      (abs i s).cells = rm.map Cell.byte ++ (abs i s').cells ∧
      (abs i s').consumed = (abs i s).consumed ++ rm ∧ (abs i s').size + rm.length = (abs i s).size := by
    intro n rm _ hpre he
    obtain ⟨_, h2, h3⟩ := Pipe.consume_history (abs i s) rm hpre
    rw [← he] at h2 h3
    refine ⟨h2, h3, ?_⟩
    simp only [Pipe.size]
    rw [h2]; simp; omega
  rcases hop with ⟨c, rfl⟩ | rfl | ⟨c, rfl⟩ | ⟨c, rfl⟩
  · cases r with
    | took n rm =>
      obtain ⟨a, b, c'⟩ := key n rm rfl hok habs
      exact ⟨n, rm, rfl, a, b, c', by rintro ⟨_, h | h⟩ <;> cases h⟩
    | unit => exact absurd hok (by simp [specOk])
    | token b => exact absurd hok (by simp [specOk])
  · cases r with
    | took n rm =>
      obtain ⟨a, b, c'⟩ := key n rm rfl hok.2 habs
      exact ⟨n, rm, rfl, a, b, c', by rintro ⟨_, h | h⟩ <;> cases h⟩
    | unit => exact absurd hok (by simp [specOk])
    | token b => exact absurd hok (by simp [specOk])
  · cases r with
    | took n rm =>
      obtain ⟨a, b, c'⟩ := key n rm rfl hok.2.2 habs
      exact ⟨n, rm, rfl, a, b, c', fun _ => hok.1.symm⟩
    | unit => exact absurd hok (by simp [specOk])
    | token b => exact absurd hok (by simp [specOk])
  · cases r with
    | took n rm =>
      obtain ⟨a, b, c'⟩ := key n rm rfl hok.2.2 habs
      exact ⟨n, rm, rfl, a, b, c', fun _ => hok.1.symm⟩
    | unit => exact absurd hok (by simp [specOk])
    | token b => exact absurd hok (by simp [specOk])

/-- … and how much each consuming call removes: `consume(count)` pops `min count |stable prefix|`
slices and hands out their contents, `advance_slices(count)` skips `min count |stable bytes|` bytes,
`Read` into a buffer of `room` bytes returns exactly the first `min room |stable bytes|` stable
bytes (it never returns short while stable bytes remain). -/
theorem consume_exact (i : Nat) (s : State) (hinv : Inv i s) :
    ∃ v, s.w.iov i = some v ∧
      (∀ count, ∃ s', step i s (.consume count) = some (s', .took (min count v.stableN)
          (s.w.flat (v.slices.take (min count v.stableN)))) ∧
          ∃ v', s'.w.iov i = some v' ∧ v'.slices = v.slices.drop (min count v.stableN)) ∧
      (∀ count, ∃ s', step i s (.advance count) = some (s', .took (min count (s.w.visible v).length)
          ((s.w.visible v).take count))) ∧
      (∀ room, ∃ s', step i s (.readInto room) = some (s', .took ((s.w.visible v).take room).length
          ((s.w.visible v).take room))) := by
  obtain ⟨v, hv, hi⟩ := hinv
  refine ⟨v, hv, ?_, ?_, ?_⟩
  · intro count
    obtain ⟨v', h1, h2⟩ := step_consume_exact i s v count hv hi
    exact ⟨_, h1, v', by simp, h2⟩
  · intro count
    obtain ⟨v', h1⟩ := step_advance_exact i s v count hv hi
    exact ⟨_, h1⟩
  · intro room
    obtain ⟨w', h1⟩ := step_readInto_exact i s v room hv hi
    exact ⟨_, h1⟩

/-- No exposed slice is empty, in every reachable state. -/
theorem no_empty_slice (pol : Policy) (tun : Tuning) (ops : List Op) (s : State) (rs : List Ret)
    (h : run 0 (State.init pol tun) ops = some (s, rs)) :
    ∃ v, s.w.iov 0 = some v ∧ ∀ sl ∈ v.slices, 0 < sl.len := by
  obtain ⟨⟨v, hv, hi⟩, _, _⟩ := reachable_refines pol tun ops s rs h
  exact ⟨v, hv, fun sl hsl => (hi.slices_ok sl hsl).pos⟩

/-- No operation of the vocabulary panics, except exactly: `pop_front` when the stable prefix is
empty, and `backfill_or_panic` with a token that is not (any more) a pending backref of this iovec
or whose size differs from the source's (`ValidToken`). None of the model's internal assertion
sites (anchor counts, `push_back_or_panic`, `stable_prefix` underflow, …) is reachable. -/
theorem no_panic_valid (i : Nat) (s : State) (op : Op) (hinv : Inv i s) :
    step i s op = none ↔
      match op with
      | .backfill tok src => ∀ v, s.w.iov i = some v → ¬ ValidToken v tok src
      | .pop => ∀ v, s.w.iov i = some v → v.stableN = 0
      | _ => False := by
  rw [step_none_iff i s op hinv]
  cases op <;> simp [Panics]

/-- Tokens are single-use and size-checked: backfilling with a source of the wrong size panics; a
token that was just backfilled successfully panics when used again; every token panics right after
`clear`. (A panic aborts: there is no successor state.) -/
theorem bad_token_panics (i : Nat) (s : State) (hinv : Inv i s) (e : Nat × BackrefInfo) (src : List UInt8) :
    (e.2.len ≠ src.length → step i s (.backfill (some e) src) = none) ∧
    (∀ s' r src', step i s (.backfill (some e) src) = some (s', r) →
        step i s' (.backfill (some e) src') = none) ∧
    (∀ s' r, step i s .clear = some (s', r) → step i s' (.backfill (some e) src) = none) := by
  obtain ⟨v, hv, hi⟩ := hinv
  refine ⟨?_, ?_, ?_⟩
  · intro hne
    exact step_backfill_invalid i s v _ _ hv (fun hval => hne hval.2)
  · intro s' r src' h
    have hvalid : ValidToken v (some e) src := by
      apply Classical.byContradiction
      intro hnv
      rw [step_backfill_invalid i s v _ _ hv hnv] at h; cases h
    obtain ⟨w', v', h1, h2, _, _, h5, _⟩ := World.backfill_spec s.w i v e src hv hi hvalid.1 hvalid.2
    simp only [step, h1, Option.map_some, Option.some.injEq, Prod.mk.injEq] at h
    obtain ⟨rfl, _⟩ := h
    apply step_backfill_invalid i _ v' _ _ h2
    intro hval
    have := hval.1
    rw [h5] at this
    simp at this
  · intro s' r h
    have h1 : s.w.clear i = some (s.w.setIov i (some { Iov.empty with arena := v.arena })) := by
      unfold World.clear; rw [hv]
    simp only [step, h1, Option.map_some, Option.some.injEq, Prod.mk.injEq] at h
    obtain ⟨rfl, _⟩ := h
    apply step_backfill_invalid i _ { Iov.empty with arena := v.arena } _ _ (by simp)
    intro hval
    have := hval.1
    simp [Iov.empty] at this

/-! ### Non-vacuity: concrete histories (production thresholds 64/256, 4 KiB first chunk) -/

def exPol : Policy := ⟨64, 256⟩
def exTun : Tuning := ⟨[4096, 8192], 4096⟩

/-- returned values, abstract cells and consumed log after a history -/
def exObs (ops : List Op) : Option (List Ret × List Cell × List UInt8) :=
  (run 0 (State.init exPol exTun) ops).map (fun x => (x.2, (abs 0 x.1).cells, (abs 0 x.1).consumed))

def t1 : Backref := some (2, ⟨0, 0, 2⟩)
def t2 : Backref := some (5, ⟨2, 0, 2⟩)
def t3 : Backref := some (6, ⟨2, 2, 1⟩)
def t4 : Backref := some (9, ⟨2, 3, 3⟩)

-- Four placeholders (the last three merged into one arena slice), a borrowed byte in between.
example : exObs [.registerPatch [0,0], .pushBorrowed ⟨[], [9], []⟩, .registerPatch [0,0], .registerPatch [0],
      .registerPatch [0,0,0]]
    = some ([.token t1, .unit, .token t2, .token t3, .token t4],
            [.hole 2, .hole 2, .byte 9, .hole 5, .hole 5, .hole 6, .hole 9, .hole 9, .hole 9], []) := by
  decide +kernel

-- The F2-shaped history: filled in the order 1, 2, 4; then only the first two slices are readable
-- (placeholder 3 blocks the merged slice, filled bytes included); after filling 3 everything is.
example : exObs [.registerPatch [0,0], .pushBorrowed ⟨[], [9], []⟩, .registerPatch [0,0], .registerPatch [0],
      .registerPatch [0,0,0], .backfill t1 [1,1], .backfill t2 [2,2], .backfill t4 [4,4,4], .consume 9,
      .backfill t3 [3], .readInto 100]
    = some ([.token t1, .unit, .token t2, .token t3, .token t4, .unit, .unit, .unit, .took 2 [1,1,9], .unit,
             .took 6 [2,2,3,4,4,4]], [], [1,1,9,2,2,3,4,4,4]) := by
  decide +kernel

-- A placeholder merged into a slice that already holds bytes, more bytes merged behind it, and
-- partial consumption just before it: `advance 5` stops at the slice boundary (bytes 1 2 3 are
-- hidden although they precede the hole); after the backfill `Read` and `consume` drain everything.
example : exObs [.pushBorrowed ⟨[0], [7,8], [0]⟩, .pushCopy [1,2,3], .registerPatch [0,0], .pushCopy [4],
      .advance 1, .advance 5]
    = some ([.unit, .unit, .token (some (7, ⟨1, 3, 2⟩)), .unit, .took 1 [7], .took 1 [8]],
            [.byte 1, .byte 2, .byte 3, .hole 7, .hole 7, .byte 4], [7, 8]) := by
  decide +kernel

example : exObs [.pushBorrowed ⟨[0], [7,8], [0]⟩, .pushCopy [1,2,3], .registerPatch [0,0], .pushCopy [4],
      .advance 1, .advance 5, .backfill (some (7, ⟨1, 3, 2⟩)) [5,6], .readInto 3, .consume 9]
    = some ([.unit, .unit, .token (some (7, ⟨1, 3, 2⟩)), .unit, .took 1 [7], .took 1 [8], .unit,
             .took 3 [1,2,3], .took 1 [5,6,4]], [], [7,8,1,2,3,5,6,4]) := by
  decide +kernel

-- The panics of `no_panic_valid` / `bad_token_panics` happen: wrong size, `pop` with nothing stable,
-- token reuse.
example : exObs [.registerPatch [0,0], .backfill t1 [1]] = none := by decide +kernel
example : exObs [.registerPatch [0,0], .pop] = none := by decide +kernel
example : exObs [.registerPatch [0,0], .backfill t1 [1,2], .backfill t1 [1,2]] = none := by decide +kernel
example : exObs [.registerPatch [0,0], .clear, .backfill t1 [1,2]] = none := by decide +kernel
-- … and the same calls succeed when used as intended.
example : exObs [.registerPatch [0,0], .backfill t1 [1,2], .pop] = some ([.token t1, .unit, .took 1 [1,2]], [], [1,2]) := by
  decide +kernel
-- `push` copies small slices (≤ 64) and borrows large ones; `extend`, `clear`, `flush`, `reserve`.
example : exObs [.push ⟨[], [1,2], []⟩, .extend [⟨[], [3], []⟩, ⟨[], [], []⟩, ⟨[9], [4,5], []⟩], .flush, .pushCopy [6],
      .reserve 10000, .pushCopy [7], .advance 3, .clear, .pushCopy [8]]
    = some ([.unit, .unit, .unit, .unit, .unit, .unit, .took 3 [1,2,3], .unit, .unit], [.byte 8], []) := by
  decide +kernel

end Woodpile.Props.C03

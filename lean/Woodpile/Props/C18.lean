/-
C18 — AtomicBaseTime readers and try_update never wait for a writer.

Property theorems only.  Model: `Woodpile.Abt` (`Model/AtomicBaseTime.lean`): thread programs
with one atomic access or lock operation per step, run by the SC machine and by the
release/acquire view machine.  "Steps" are the model's steps = atomic operations of the
thread itself; OS scheduling is outside any model.  The tie to the code is the H3 trace
validation (harness family `abt`): any lock operation by `snapshot`, or a blocking `lock()`
in `try_update`, is a trace mismatch.
-/
import Woodpile.Proofs.AtomicBaseTime
import Woodpile.Proofs.AbtRA
import Woodpile.Proofs.NfsVoucher
import Woodpile.Props.C13R

namespace Woodpile.Props.C18
open Woodpile.Abt

/-- `snapshot` never touches the writer lock and never writes: in every state of the
snapshot program the next access is an atomic load, and the program stays inside
`snapshot` until it returns or its assertion fails. -/
theorem snapshot_no_lock (chk : Nat → Nat → Bool) (th : Local) (h : th.pc.inSnap = true) :
    (∃ l o, th.next = .load l o) ∧
    ∀ val, (th.feedLoad chk val).pc.inSnap = true ∨ (th.feedLoad chk val).pc = .retSnap ∨
      (th.feedLoad chk val).pc = .sPanic :=
  snapshot_no_lock_aux chk th h

/-- Only `update`'s `lock()` can ever make a thread wait: a thread with an operation in
progress can always take its next step, except a thread at `update`'s `lock()` while the
lock is held.  (`SC.step … = none` means "not enabled".) -/
theorem sc_only_update_lock_blocks (chk : Nat → Nat → Bool) (s : SC.State) (t ts : Nat) :
    SC.step chk s (.run t ts) = none ↔
      ((s.thr t).next = .none ∨ ((s.thr t).pc = .uLock ∧ s.held ≠ none)) :=
  SC.step_none_iff chk s t ts

/-- `try_update` never waits: its `try_lock` step is enabled in every state, and when another
writer holds the lock it returns `false` in that single step, changing nothing. -/
theorem sc_try_update_nonblocking (chk : Nat → Nat → Bool) (s : SC.State) (t ts : Nat)
    (hpc : (s.thr t).pc = .tTry) :
    ∃ s', SC.step chk s (.run t ts) = some s' ∧
      (s.held ≠ none → (s'.thr t).pc = .retBool false ∧ s'.mem = s.mem ∧ s'.held = s.held ∧ s'.hist = s.hist) :=
  SC.try_nonblocking chk s t ts hpc

/-- `try_update` is a straight-line program of at most 9 steps, none of which is the blocking
`lock()`: `tuMeasure` is positive exactly on its program counters, every step strictly
decreases it whatever result is fed, and no step is `lock` (machine independent). -/
theorem try_update_bounded (chk : Nat → Nat → Bool) (th : Local) (hm : 0 < tuMeasure th.pc) :
    tuMeasure th.pc ≤ 9 ∧ th.next ≠ .lock ∧ th.next ≠ .none ∧
    (∀ l o val, th.next = .load l o → tuMeasure (th.feedLoad chk val).pc < tuMeasure th.pc) ∧
    (∀ r, th.next = .tryLock → tuMeasure (th.feedLock r).pc < tuMeasure th.pc) ∧
    ((∀ l o, th.next ≠ .load l o) → th.next ≠ .tryLock → tuMeasure th.feedUnit.pc < tuMeasure th.pc) := by
  refine ⟨?_, (tu_no_lock th hm).1, (tu_no_lock th hm).2, ?_, ?_, ?_⟩
  · cases th.pc <;> simp [tuMeasure]
  · intro l o val h; exact tu_feedLoad chk th val l o h hm
  · intro r h; exact tu_feedLock th r h
  · intro h h'; exact tu_feedUnit th hm h h'

/-- SC: from any reachable state, with every other thread frozen wherever it is (including a
writer holding the lock in the middle of an update), a reader run alone returns after at most 6
further steps of its own (so at most 8 counting from before the call), all of them enabled,
and it does not change memory. -/
theorem sc_solo_snapshot_terminates {chk : Nat → Nat → Bool} {v0 : Nat} (h0 : chk 0 v0 = true) {s : SC.State}
    (h : SC.Reachable chk v0 s) (t : Nat) (hpc : (s.thr t).pc.inSnap = true) :
    ∃ k, k ≤ 6 ∧ ∃ s', SC.run chk s (List.replicate k (.run t 0)) = some s' ∧
      (s'.thr t).pc = .retSnap ∧ s'.mem = s.mem := by
  refine ⟨SC.soloMeasure s t, SC.soloMeasure_le s t, ?_⟩
  exact SC.solo_terminates t _ s (SC.inv_reachable h0 h) hpc rfl

/-- SC: a snapshot retries only when a write completed during its read: if the re-check of
`sequence` sends it round the loop again, the value it now read is larger than the one it read
before, i.e. an update with sequence number `sq + 1` has been published in between. -/
theorem sc_retry_only_on_publish {chk : Nat → Nat → Bool} {v0 : Nat} (h0 : chk 0 v0 = true) {s s' : SC.State}
    (h : SC.Reachable chk v0 s) (t ts : Nat) (hpc : (s.thr t).pc = .sSeq2)
    (hs : SC.step chk s (.run t ts) = some s') (hretry : (s'.thr t).pc = .sV) :
    (s.thr t).sq < s.mem .seq ∧ (s.thr t).sq + 1 < s.hist.length ∧ (s'.thr t).sq = s.mem .seq :=
  SC.retry_publish (SC.inv_reachable h0 h) t ts hpc hs hretry

/-! ## Release/acquire view machine -/

/-- RA: a thread with an operation in progress can always take its next step, except a thread
at `update`'s `lock()` while the lock is held - and a load cannot be told to read a message
older than the thread's view or not yet written (that is not waiting: some timestamp is always
admissible, see `ra_solo_snapshot_terminates`). -/
theorem ra_only_update_lock_blocks (chk : Nat → Nat → Bool) (s : RA.State) (t ts : Nat) :
    RA.step chk s (.run t ts) = none ↔
      ((s.thr t).loc.next = .none ∨ ((s.thr t).loc.pc = .uLock ∧ s.held ≠ none) ∨
       ∃ l o, (s.thr t).loc.next = .load l o ∧ ¬ ((s.thr t).view l ≤ ts ∧ ts < (s.mem l).length)) :=
  RA.step_none_iff chk s t ts

/-- RA: `try_update` never waits: `try_lock` is enabled in every state, and when another writer
holds the lock it returns `false` in that single step, changing neither memory nor its view. -/
theorem ra_try_update_nonblocking (chk : Nat → Nat → Bool) (s : RA.State) (t ts : Nat)
    (hpc : (s.thr t).loc.pc = .tTry) :
    ∃ s', RA.step chk s (.run t ts) = some s' ∧
      (s.held ≠ none → (s'.thr t).loc.pc = .retBool false ∧ s'.mem = s.mem ∧ s'.held = s.held ∧
        s'.hist = s.hist ∧ (s'.thr t).view = (s.thr t).view) :=
  RA.try_nonblocking chk s t ts hpc

/-- RA: from any reachable state, with every other thread frozen wherever it is (including a
writer holding the lock forever, half way through its stores), a reader run alone - under ANY
admissible reads-from choices `tss` - is never stuck (the latest message of the location it wants
is always readable) and cannot take more than `soloMeasure` steps without returning; every such
step leaves memory unchanged.  `soloMeasure` is `3·(n − sq) + (3, 2 or 1)` inside the loop, where
`n` is the last published sequence number and `sq` the sequence message the current iteration
is based on; at the start of the call it is `3·(n − view(sequence)) + 4
≤ 4·(1 + number of sequence messages the reader has not seen)`. -/
theorem ra_solo_snapshot_terminates {chk : Nat → Nat → Bool} {v0 : Nat} (h0 : chk 0 v0 = true) {s : RA.State}
    (h : RA.Reachable chk v0 s) (t : Nat) (hpc : (s.thr t).loc.pc.inSnap = true) :
    (∃ ts s', RA.step chk s (.run t ts) = some s') ∧
    (∀ (tss : List Nat) (s' : RA.State), RA.run chk s (tss.map (.run t ·)) = some s' → (s'.thr t).loc.pc.inSnap = true →
      tss.length < RA.soloMeasure s t ∧ s'.mem = s.mem) ∧
    ((s.thr t).loc.pc = .sSeq →
      RA.soloMeasure s t ≤ 4 * (1 + (RA.nOf s.mem - (s.thr t).view .seq))) := by
  have hI := RA.inv_reachable h0 h
  refine ⟨RA.solo_progress hI t hpc, ?_, ?_⟩
  · intro tss s' hrun hin
    obtain ⟨h1, h2⟩ := RA.solo_bound t tss s s' hI hpc hrun hin
    have := RA.soloMeasure_pos hin
    exact ⟨by omega, h2⟩
  · intro hp
    simp only [RA.soloMeasure, hp]; omega

/-- RA: a snapshot retries only when a write completed: the re-check that sends it round the
loop again read a `sequence` message strictly newer than the one the iteration was based on
(such a message exists only because an update published it), and the next iteration is based on
that newer message. -/
theorem ra_retry_only_on_publish {chk : Nat → Nat → Bool} {v0 : Nat} (h0 : chk 0 v0 = true) {s s' : RA.State}
    (h : RA.Reachable chk v0 s) (t ts : Nat) (hpc : (s.thr t).loc.pc = .sSeq2)
    (hs : RA.step chk s (.run t ts) = some s') (hretry : (s'.thr t).loc.pc = .sV) :
    (s.thr t).loc.sq < ts ∧ ts < (s.mem .seq).length ∧ (s'.thr t).loc.sq = ts ∧ s'.mem = s.mem :=
  RA.retry_publish (RA.inv_reachable h0 h) t ts hpc hs hretry

/-- `get_base_time_unlocked` is `snapshot` on the module's cell, so it inherits every
guarantee of `snapshot` (no lock, bounded own steps). -/
theorem unlocked_inherits : getBaseTimeUnlockedOp = Op.snapshot := rfl

end Woodpile.Props.C18

namespace Woodpile.Props.C18
open Woodpile.Abt

/-! Non-vacuity -/
example : ({ pc := .sSeq2, sq := 1, base := 5, bits := 7 } : Local).pc.inSnap = true := by decide
example : (({ pc := .sSeq2, sq := 1, base := 5, bits := 7 } : Local).feedLoad (fun b v => v == b + 2) 1).pc = .retSnap := by decide
example : (({ pc := .sSeq2, sq := 1, base := 5, bits := 7 } : Local).feedLoad (fun b v => v == b + 2) 2).pc = .sV := by decide

end Woodpile.Props.C18

namespace Woodpile.Props.C18
open Woodpile.Abt

/-! Non-vacuity (RA): a writer frozen after its two slot stores (holding the lock), a reader
started afterwards at `sSeq`: the hypotheses of `ra_solo_snapshot_terminates` are met, its
measure is 4 (it has seen everything published), and four steps return the epoch pair. -/
example :
    (RA.run (fun b v => v == b + 100) (RA.init 100)
      [.start 0 (.update 5 105), .run 0 0, .run 0 0, .run 0 0, .run 0 0, .run 0 0, .run 0 0,
       .start 1 .snapshot]).map
      (fun s => decide ((s.thr 1).loc.pc.inSnap = true ∧ (s.thr 0).loc.pc = .aStSeq ∧ s.held = some 0 ∧
        RA.soloMeasure s 1 = 4)) = some true := by decide

example :
    (RA.run (fun b v => v == b + 100) (RA.init 100)
      [.start 0 (.update 5 105), .run 0 0, .run 0 0, .run 0 0, .run 0 0, .run 0 0, .run 0 0,
       .start 1 .snapshot, .run 1 0, .run 1 0, .run 1 0, .run 1 0,
       .start 2 (.tryUpdate 9 109), .run 2 0]).map
      (fun s => decide ((s.thr 1).loc.pc = .retSnap ∧ (s.thr 1).loc.base = 0 ∧
        (s.thr 2).loc.pc = .retBool false)) = some true := by decide

end Woodpile.Props.C18

namespace Woodpile.Props.C18
open Woodpile.Abt

/-! ## Track abt2 (claim-audit gap 18): one uniform termination statement on the view machine,
and "the retry was caused by a publication during this snapshot" -/

/-- SC: `sc_retry_only_on_publish` plus *during*: the sequence number the failed iteration was
based on is at least the number of updates published when the snapshot began
(`s.start t ≤ sq < mem seq`), so update number `sq + 1` - which exists, `start t + 1 < |hist|` -
was published after this snapshot began (at its start the history ended at `start t`): a write
completed during its read.  A retry does not move `start`. -/
theorem sc_retry_only_on_publish_during {chk : Nat → Nat → Bool} {v0 : Nat} (h0 : chk 0 v0 = true) {s s' : SC.State}
    (h : SC.Reachable chk v0 s) (t ts : Nat) (hpc : (s.thr t).pc = .sSeq2)
    (hs : SC.step chk s (.run t ts) = some s') (hretry : (s'.thr t).pc = .sV) :
    s.start t ≤ (s.thr t).sq ∧ (s.thr t).sq < s.mem .seq ∧ s.start t + 1 < s.hist.length ∧
    (s'.thr t).sq = s.mem .seq ∧ s'.start t = s.start t :=
  SC.retry_publish_during (SC.inv_reachable h0 h) t ts hpc hs hretry

/-- RA: `ra_retry_only_on_publish` plus *during*, in the only sense the view machine has: the
sequence message the failed iteration was based on is at or above the reader's view of
`sequence` when the snapshot began (`s.start t ≤ sq`), and the re-check read a strictly newer
message `ts`; so message `ts` is NOT among those that happened-before the start of this
snapshot - its publication is concurrent with or after the snapshot's start. -/
theorem ra_retry_only_on_publish_during {chk : Nat → Nat → Bool} {v0 : Nat} (h0 : chk 0 v0 = true) {s s' : RA.State}
    (h : RA.Reachable chk v0 s) (t ts : Nat) (hpc : (s.thr t).loc.pc = .sSeq2)
    (hs : RA.step chk s (.run t ts) = some s') (hretry : (s'.thr t).loc.pc = .sV) :
    s.start t ≤ (s.thr t).loc.sq ∧ (s.thr t).loc.sq < ts ∧ ts < (s.mem .seq).length ∧
    (s'.thr t).loc.sq = ts ∧ s'.mem = s.mem ∧ s'.start t = s.start t :=
  RA.retry_publish_during (RA.inv_reachable h0 h) t ts hpc hs hretry

/-- RA, uniform termination (same shape as `sc_solo_snapshot_terminates`): from any reachable
state, every other thread frozen anywhere (a writer may hold the lock forever, half way through
its stores), the reader `t` run alone returns within `RA.soloMeasure s t` own steps WHATEVER
admissible messages its loads are made to read: `pick j s'` chooses the timestamp read by its
`j`-th step in state `s'`, arbitrarily (adversarially) subject only to `RA.Admissible` - at or
after the reader's view of that location, and already written.  `RA.solo … k s` is the run
"`t` steps `k` times with those choices" (`ra_solo_is_run`).  Memory is unchanged.
The bound depends on the state - `3·(n − sq) + (4, 3, 2 or 1)`, `n` the last published
sequence number, `sq` the sequence message the current iteration is based on (`view(sequence)`
at `sSeq`) - and must: the view machine lets a reader that has not synchronised be fed each
of the `n − sq` sequence messages it has not seen, one stale re-check at a time. -/
theorem ra_solo_snapshot_terminates_uniform {chk : Nat → Nat → Bool} {v0 : Nat} (h0 : chk 0 v0 = true)
    {s : RA.State} (h : RA.Reachable chk v0 s) (t : Nat) (hpc : (s.thr t).loc.pc.inSnap = true)
    (pick : Nat → RA.State → Nat) (hadm : RA.Admissible chk v0 t pick) :
    ∃ k, k ≤ RA.soloMeasure s t ∧ ∃ s', RA.solo chk t pick 0 k s = some s' ∧
      (s'.thr t).loc.pc = .retSnap ∧ s'.mem = s.mem :=
  RA.solo_terminates h0 t pick hadm (RA.soloMeasure s t) 0 s h hpc (Nat.le_refl _)

/-- `RA.solo` is a run of the machine under the schedule "`t`, `k` times". -/
theorem ra_solo_is_run (chk : Nat → Nat → Bool) (t : Nat) (pick : Nat → RA.State → Nat) (k j : Nat)
    (s s' : RA.State) (h : RA.solo chk t pick j k s = some s') :
    ∃ tss : List Nat, tss.length = k ∧ RA.run chk s (tss.map (.run t ·)) = some s' :=
  RA.solo_is_run chk t pick k j s s' h

/-- Admissible strategies exist: "always read the latest message" is one (so the hypothesis of
`ra_solo_snapshot_terminates_uniform` is satisfiable in every state). -/
theorem ra_latest_admissible {chk : Nat → Nat → Bool} {v0 : Nat} (h0 : chk 0 v0 = true) (t : Nat) :
    RA.Admissible chk v0 t (RA.pickLatest t) :=
  RA.pickLatest_admissible h0 t

end Woodpile.Props.C18

namespace Woodpile.Props.C18
open Woodpile.Abt

/-! Non-vacuity (gap 18).  The writer (thread 0) publishes `(5, 105)` and then stops for ever
holding the lock half way through a SECOND update (`aStV`); the reader (thread 1) had read
sequence message 0 before: it is at `sSeq2` with `sq = 0`, `start 1 = 0`; its re-check reads
message 1 and retries: the hypotheses of `ra_retry_only_on_publish_during` hold
(`start 1 = 0 ≤ sq = 0 < ts = 1`).  From there `soloMeasure = 3`, and reading the latest
messages returns the new pair in exactly 3 further steps. -/
example :
    (RA.run (fun b v => v == b + 100) (RA.init 100)
      [.start 1 .snapshot, .run 1 0, .run 1 0, .run 1 0,
       .start 0 (.update 5 105), .run 0 0, .run 0 0, .run 0 0, .run 0 0, .run 0 0, .run 0 0, .run 0 0, .run 0 0,
       .start 0 (.update 7 107), .run 0 0, .run 0 1, .run 0 1, .run 0 1, .run 0 0]).map
      (fun s => decide ((s.thr 1).loc.pc = .sSeq2 ∧ (s.thr 1).loc.sq = 0 ∧ s.start 1 = 0 ∧
        (s.thr 0).loc.pc = .aStV ∧ s.held = some 0 ∧
        ((RA.step (fun b v => v == b + 100) s (.run 1 1)).map
          (fun s' => decide ((s'.thr 1).loc.pc = .sV ∧ (s'.thr 1).loc.sq = 1 ∧ RA.soloMeasure s' 1 = 3))) = some true ∧
        ((RA.solo (fun b v => v == b + 100) 1 (RA.pickLatest 1) 0 4 s).map
          (fun s' => decide ((s'.thr 1).loc.pc = .retSnap ∧ (s'.thr 1).loc.base = 5))) = some true))
      = some true := by decide

/-- SC: the same situation; the hypotheses of `sc_retry_only_on_publish_during` hold. -/
example :
    (SC.run (fun b v => v == b + 100) (SC.init 100)
      [.start 1 .snapshot, .run 1 0, .run 1 0, .run 1 0,
       .start 0 (.update 5 105), .run 0 0, .run 0 0, .run 0 0, .run 0 0, .run 0 0, .run 0 0, .run 0 0, .run 0 0]).map
      (fun s => decide ((s.thr 1).pc = .sSeq2 ∧ (s.thr 1).sq = 0 ∧ s.start 1 = 0 ∧ s.mem .seq = 1 ∧
        ((SC.step (fun b v => v == b + 100) s (.run 1 0)).map (fun s' => decide ((s'.thr 1).pc = .sV))) = some true))
      = some true := by decide

end Woodpile.Props.C18

namespace Woodpile.Props.C18
open Woodpile.Abt Woodpile.NfsVoucher

/-! ## `get_base_time_unlocked` (claim-audit gap 10): a statement about the NFS model's function,
not about an alias -/

/-- `get_base_time_unlocked` inherits the guarantee.  `NfsVoucher.getBaseTimeUnlocked` (the function
the C19 model and driver run) against `Abt.getBaseTimeUnlockedOp` (the program the H3 trace of the
real `get_base_time_unlocked` is validated against): from ANY reachable SC state at the crate's
real voucher check - every other thread frozen wherever it is, a writer holding the lock half
way through its stores, the mutex poisoned or not - whose most recently published pair is the
cell of the module state `st`, the caller running alone takes exactly four steps, each an atomic
load (memory, lock holder, poison flag and history are unchanged: it never acquires or even
tests the lock and never stores), and returns the very pair `NfsVoucher.getBaseTimeUnlocked st`
returns, with `st` unchanged.  On the view machine the bounded-own-steps guarantee for the same
program is `ra_solo_snapshot_terminates_uniform` (`getBaseTimeUnlockedOp = .snapshot`,
`unlocked_inherits`). -/
theorem unlocked_is_abt_snapshot {s : SC.State}
    (h : SC.Reachable chkNat Woodpile.Props.C13R.v0Real s) (tid : Nat) (hterm : (s.thr tid).pc.terminal = true)
    (st : St) (hcell : SC.cellOf s = some (absCell st)) :
    getBaseTimeUnlocked st = (st, .pair st.base st.voucher) ∧
    cellSnapshot st = some (st.base, st.voucher) ∧
    ∃ s', SC.run chkNat s (.start tid getBaseTimeUnlockedOp :: List.replicate 4 (.run tid 0)) = some s' ∧
      (s'.thr tid).pc = .retSnap ∧ (s'.thr tid).base = st.base.toNat ∧ (s'.thr tid).bits = st.voucher.toNat ∧
      s'.mem = s.mem ∧ s'.held = s.held ∧ s'.poisoned = s.poisoned ∧ s'.hist = s.hist :=
  unlocked_refines Woodpile.Props.C13R.epoch_pair_checks h tid hterm st hcell

/-- Non-vacuity: the hypotheses hold for the initial cell with a writer (thread 1) frozen for
ever holding the lock after its first slot store (so the state is NOT quiescent). -/
example :
    (SC.run chkNat (SC.init Woodpile.Props.C13R.v0Real)
      [.start 1 (.update 0 Woodpile.Props.C13R.v0Real), .run 1 0, .run 1 0, .run 1 0, .run 1 0, .run 1 0]).map
      (fun s => decide ((s.thr 1).pc = .aStV ∧ s.held = some 1 ∧ (s.thr 0).pc.terminal = true ∧
        s.hist.length = 1)) = some true := by decide +kernel

end Woodpile.Props.C18

namespace Woodpile.Props.C18
open Woodpile.Abt

/-- RA, constant bound: when every load reads the LATEST message of its location (the admissible
strategy `RA.pickLatest`, `ra_latest_admissible`: what a machine with one copy of memory does),
the solo reader returns within 6 own steps from any reachable state - exactly the SC bound of
`sc_solo_snapshot_terminates`.  The state-dependent bound of
`ra_solo_snapshot_terminates_uniform` is the price of ARBITRARY admissible reads-from choices. -/
theorem ra_solo_latest_terminates {chk : Nat → Nat → Bool} {v0 : Nat} (h0 : chk 0 v0 = true) {s : RA.State}
    (h : RA.Reachable chk v0 s) (t : Nat) (hpc : (s.thr t).loc.pc.inSnap = true) :
    ∃ k, k ≤ 6 ∧ ∃ s', RA.solo chk t (RA.pickLatest t) 0 k s = some s' ∧
      (s'.thr t).loc.pc = .retSnap ∧ s'.mem = s.mem :=
  ⟨RA.latestMeasure s t, RA.latestMeasure_le s t,
    RA.latest_terminates t _ 0 s (RA.inv_reachable h0 h) hpc rfl⟩

end Woodpile.Props.C18

/-
C18 — AtomicBaseTime readers and try_update never wait for a writer.

Property theorems only.  Model: `Woodpile.Abt` (`Model/AtomicBaseTime.lean`): thread programs
with one atomic access or lock operation per step, run by the SC machine and by the
release/acquire view machine.  "Steps" are the model's steps = atomic operations of the
thread itself; OS scheduling is outside any model.  The tie to the code is the H3 trace
validation (harness family `abt`): any lock operation by `snapshot`, or a blocking `lock()`
in `try_update`, is a trace mismatch.
-/
import Woodpile.Proofs.AtomicBaseTime

namespace Woodpile.Props.C18
open Woodpile.Abt

/-- `snapshot` never touches the writer lock and never writes: in every state of the
snapshot program the next access is an atomic load, and the program stays inside
`snapshot` until it returns or its assertion fails. -/
theorem snapshot_no_lock (chk : Nat → Nat → Bool) (th : Local) (h : th.pc.inSnap = true) :
    (∃ l o, th.next = .load l o) ∧
    ∀ val, (th.feedLoad chk val).pc.inSnap = true ∨ (th.feedLoad chk val).pc = .retSnap ∨
      (th.feedLoad chk val).pc = .sPanic :=
  snapshot_no_lock_aux chk th h

/-- `get_base_time_unlocked` is `snapshot` on the module's cell, so it inherits every
guarantee of `snapshot` (no lock, bounded own steps). -/
theorem unlocked_inherits : getBaseTimeUnlockedOp = Op.snapshot := rfl

end Woodpile.Props.C18

namespace Woodpile.Props.C18
open Woodpile.Abt

/-! Non-vacuity -/
example : ({ pc := .sSeq2, sq := 1, base := 5, bits := 7 } : Local).pc.inSnap = true := by decide
example : (({ pc := .sSeq2, sq := 1, base := 5, bits := 7 } : Local).feedLoad (fun b v => v == b + 2) 1).pc = .retSnap := by decide
example : (({ pc := .sSeq2, sq := 1, base := 5, bits := 7 } : Local).feedLoad (fun b v => v == b + 2) 2).pc = .sV := by decide

end Woodpile.Props.C18

/-
C09, structural half, for ALL input methods (track `anch`): the lag of the real data path — an
`Encoder` / `Decoder` driving a structural `OwningIovec` — between calls, under any drain schedule, the
calls ranging over `EncWorld.ACall` (`Props/C01G.lean`): borrow / copy pieces, `consume` / `advance`,
and `encode_read` / `decode_read` with an arbitrary scripted reader (anchored input read into the
codec's own arena; a failed read changes nothing the consumer can see).

`enc_lag_struct`, `dec_lag_zero_world` are `Props/C09W`'s `enc_lag_struct_partial`,
`dec_lag_zero_world_partial` with the restriction to borrow / copy input lifted.  (With anchored input the
slice that holds the pending size header may be a MERGE of the copied header with a borrowed piece of the
`read_n` allocation that happens to be adjacent to it — `Props/C01G.lean`, second example —; the exact
formula `begin + brLen + cur` is unaffected.)

The bound by a constant: `enc_lag_le_partial` keeps, like `C09W.enc_lag_le_partial`, the in-capacity fact as a
HYPOTHESIS (`hcap`: the slice holding the pending header ends within `S` bytes of its chunk) and is therefore
still called `_partial`; `enc_lag_le` and `enc_lag_le_prod` DISCHARGE it, for all input methods: the
property's "one arena chunk plus one HCOBS chunk and its header".  With anchored input the arena chunk is as
large as the largest `read_n(count)` asks for, so the statement has the bound `B` on the requests as a
parameter (`ReadsLe B calls`: every anchored read's `count ≤ B`; the encoder's own requests are at most
`max(maxInit, maxSub)`) and `S` = the largest chunk the arena tuning `T` allocates for requests up to `B`
(`Hint T B S`); for the production tuning and reads below 2^20 bytes, `S = 2^20` and the constant is the
`2^20 + 64008 + 2` of `Props/C09G.enc_lag_le_prod_partial`, now without the restriction to borrow / copy
input.  (`Proofs/EncWorldCap.lean`: a direct invariant on the cache and the slices, call by call; no
multi-object arena invariant needed.)
-/
import Woodpile.Proofs.EncWorldAnch
import Woodpile.Proofs.EncWorldCap
import Woodpile.Props.C02

namespace Woodpile.Props.C09H
open Woodpile.Hcobs Woodpile.Iovec Woodpile.Arena Woodpile.EncWorld

/-- Structural lag of the encoder, exactly, all input methods: after `Encoder::new` and any calls (any
segmentation; borrow / copy / anchored read per piece, any reader behaviour; any interleaved `consume` /
`advance_slices`), the iovec has the pending size header as a backref `e` (`brLen` = 1 or 2 bytes) inside
an OWNED slice `s` — one slice, hence inside ONE arena chunk `c` — at offset `e.begin`, and
`total_size − |stable prefix| = e.begin + brLen + cur`; `cur` (+1 for a held `FE`) is below the chunk
limit. -/
theorem enc_lag_struct (p : Params) (hp : p.Valid) (pol : Policy) (tun : Tuning) (calls : List ACall) :
    ∃ r v e s c, encPrefixA p pol tun calls = some r ∧ r.w.iov 0 = some v ∧
      e ∈ v.backrefs ∧ e.2.len = r.e.st.brLen ∧ 1 ≤ r.e.st.brLen ∧ r.e.st.brLen ≤ 2 ∧
      v.slices[e.2.sliceIndex - v.consumedSlices]? = some s ∧ s.region = .chunk c ∧
      e.2.begin + r.e.st.brLen ≤ s.len ∧
      v.totalSize - (r.w.visible v).length = e.2.begin + r.e.st.brLen + r.e.st.cur ∧
      r.e.st.cur + (if r.e.st.mid then 1 else 0) < r.e.st.maxChunk ∧
      (r.e.st.maxChunk = p.maxInit ∨ r.e.st.maxChunk = p.maxSub) := by
  obtain ⟨r, v, e, s, c, h1, h2, _, h4, h5, h6, h7, h8, h9, h10, h11, h12, h13⟩ := enc_lag_structA p hp pol tun calls
  exact ⟨r, v, e, s, c, h1, h2, h4, h5, h10, h11, h6, h7, h8, h9, h12, h13⟩

/-- The lag is below the length of the slice holding the header plus the chunk limit; hence, if that
slice ends within `S` bytes of its chunk (`hcap`, a hypothesis here — see the header), below
`S + max(maxInit, maxSub)`. -/
theorem enc_lag_le_partial (p : Params) (hp : p.Valid) (pol : Policy) (tun : Tuning) (calls : List ACall) (S : Nat) :
    ∃ r v s c, encPrefixA p pol tun calls = some r ∧ r.w.iov 0 = some v ∧ s ∈ v.slices ∧ s.region = .chunk c ∧
      v.totalSize - (r.w.visible v).length < s.len + r.e.st.maxChunk ∧
      (s.off + s.len ≤ S → v.totalSize - (r.w.visible v).length < S + max p.maxInit p.maxSub) := by
  obtain ⟨r, v, e, s, c, h1, h2, _, _, _, _, h7, h8, h9, h10, h11, h12⟩ := enc_lag_struct p hp pol tun calls
  refine ⟨r, v, s, c, h1, h2, List.mem_of_getElem? h7, h8, ?_, ?_⟩
  · split at h11 <;> omega
  · intro hcap
    have : r.e.st.maxChunk ≤ max p.maxInit p.maxSub := by rcases h12 with h | h <;> rw [h] <;> omega
    split at h11 <;> omega

/-- In-capacity, all input methods: between the calls of any run on arena tuning `T`, every owned slice of
the encoder's iovec ends within `S` bytes of the start of its chunk, when requests of at most `B` bytes are
answered with chunks of at most `S` bytes (`Hint T B S`), the chunk limits are at most `B`, and every
anchored read asks for at most `B` bytes. -/
theorem enc_slices_in_cap (T : Tuning) (B S : Nat) (hH : Hint T B S) (hB2 : 2 ≤ B) (p : Params)
    (hinit : p.maxInit ≤ B) (hsub : p.maxSub ≤ B) (pol : Policy) (calls : List ACall) (hc : ReadsLe B calls) (r : Run)
    (h : encPrefixA p pol T calls = some r) :
    ∀ v, r.w.iov 0 = some v → ∀ s ∈ v.slices, ∀ c, s.region = .chunk c → s.off + s.len ≤ S :=
  encPrefixA_cap hH hB2 p hinit hsub pol calls hc r h

/-- The lag bound of C09 on the structural iovec, all input methods, no hypothesis left: after
`Encoder::new` and any calls (any segmentation; borrow / copy / anchored reads of at most `B` bytes, any
reader behaviour; any interleaved `consume` / `advance_slices`), `total_size − |stable prefix| <
S + max(maxInit, maxSub)`, `S` the largest chunk the arena allocates for requests up to `B`. -/
theorem enc_lag_le (T : Tuning) (B S : Nat) (hH : Hint T B S) (p : Params) (hp : p.Valid)
    (hB : 64008 ≤ B) (pol : Policy) (calls : List ACall) (hc : ReadsLe B calls) :
    ∃ r v, encPrefixA p pol T calls = some r ∧ r.w.iov 0 = some v ∧
      v.totalSize - (r.w.visible v).length < S + max p.maxInit p.maxSub := by
  obtain ⟨r, v, s, c, h1, h2, h3, h4, _, h6⟩ := enc_lag_le_partial p hp pol T calls S
  have hm := valid_max_le p hp
  exact ⟨r, v, h1, h2, h6 (enc_slices_in_cap T B S hH (by omega) p (by omega) (by omega) pol calls hc r h1 v h2 s h3 c h4)⟩

/-- … production tuning, production parameters, anchored reads below 2^20 bytes: the property's
`2^20 + 64008 + 2`. -/
theorem enc_lag_le_prod (pol : Policy) (calls : List ACall) (hc : ReadsLe 1048575 calls) :
    ∃ r v, encPrefixA C02.prod pol prodTuning calls = some r ∧ r.w.iov 0 = some v ∧
      v.totalSize - (r.w.visible v).length < 1048576 + 64008 + 2 := by
  obtain ⟨r, v, h1, h2, h3⟩ := enc_lag_le prodTuning 1048575 1048576 (hint_prod _ (by omega)) C02.prod
    C02.prod_params_valid (by omega) pol calls hc
  have hm : max C02.prod.maxInit C02.prod.maxSub = 64008 := by decide
  exact ⟨r, v, h1, h2, by omega⟩

/-- Decoder: lag 0, all input methods.  After `Decoder::new` and any calls (and `finish`), whatever the
verdict, no backref is pending and the stable prefix is everything buffered. -/
theorem dec_lag_zero_world (p : Params) (pol : Policy) (tun : Tuning) (calls : List ACall) :
    ∃ w' dr res v', decRunA p pol tun calls = some (w', dr, res) ∧ w'.iov 0 = some v' ∧
      v'.hasPending = false ∧ v'.totalSize - (w'.visible v').length = 0 := by
  obtain ⟨w', v', dr, res, h1, h2, h3, h4, h5, _⟩ := decRunA_sim p pol tun calls
  refine ⟨w', dr, res, v', h1, h2, h4, ?_⟩
  rw [h5, h3.flat_length]
  have := h3.size_eq
  unfold Iov.totalSize
  omega

/-- C09's prefix clause on the structural iovec, all input methods: between the calls of any run, the
bytes drained so far followed by the bytes of `stable_prefix()` — the first `n` slices, `n` the value
`Iov.stableCount` computes (the function the correspondence driver prints through; it does not underflow) —
are a prefix of the FINAL output, `Spec.encode` of the whole input, whatever calls `c2` follow.  (On the
iovec the stable prefix ends at a slice boundary, so it can be shorter than the abstract pipe's stable
bytes of `Props/C09.drain_prefix`; it is never longer.) -/
theorem enc_drained_stable_prefix (p : Params) (hp : p.Valid) (pol : Policy) (tun : Tuning) (c1 c2 : List ACall) :
    ∃ r v n, encPrefixA p pol tun c1 = some r ∧ r.w.iov 0 = some v ∧ v.stableCount = some n ∧
      r.drained ++ r.w.flat (v.slices.take n) <+: Spec.encode p (ainputOf (c1 ++ c2)) := by
  obtain ⟨r, v, h1, h2, h3, h4⟩ := enc_prefix_struct p hp pol tun c1 c2
  exact ⟨r, v, v.stableN, h1, h2, h3.stableCount, h4⟩

/-- … and at the end nothing is lost: `Props/C01G.enc_world_output` (drained ++ flattened = the output). -/
theorem enc_drained_complete (p : Params) (hp : p.Valid) (pol : Policy) (tun : Tuning) (calls : List ACall) :
    ∃ w' dr v', encRunA p pol tun calls = some (w', dr) ∧ w'.iov 0 = some v' ∧
      dr ++ w'.flat v'.slices = Spec.encode p (ainputOf calls) := by
  obtain ⟨w', v', dr, _, k1, k2, _, _, _, _, _, k8, _⟩ := encRunA_sim p hp pol tun calls
  exact ⟨w', dr, v', k1, k2, k8⟩

/-! ### Non-vacuity (test parameters ⟨3, 5⟩) -/

/-- (lag, (offset, length) of the slices, begin of the pending header in its slice, brLen, cur) between calls -/
def lagObs (pol : Policy) (calls : List ACall) : Option (Nat × List (Nat × Nat) × List Nat × Nat × Nat) :=
  (encPrefixA ⟨3, 5, 253⟩ pol ⟨[4096, 8192], 4096⟩ calls).bind fun r => (r.w.iov 0).map fun v =>
    (v.totalSize - (r.w.visible v).length, v.slices.map (fun s => (s.off, s.len)), v.backrefs.map (·.2.begin),
      r.e.st.brLen, r.e.st.cur)

-- anchored "1234" (7 bytes requested, 4 delivered, the tail released), slices kept borrowed: [hdr "123"]
-- merged at 0..4, the pending 2-byte header copied at 5..7 (right above the 4 bytes read, 1..5), "4"
-- borrowed at 4..5: lag 0 + 2 + 1
example : lagObs ⟨0, 0⟩ [.read 7 2 [0x31, 0x32, 0x33, 0x34] [.deliver 4]] = some (3, [(0, 4), (5, 2), (4, 1)], [0], 2, 1) := by
  decide +kernel
-- production thresholds: everything copied; "123", the pending header and "4" merged into one 6-byte slice
-- right above the read allocation (1..5), the header at offset 3 of it: lag 3 + 2 + 1
example : lagObs ⟨64, 256⟩ [.read 4 2 [0x31, 0x32, 0x33, 0x34] [.deliver 4]] = some (6, [(0, 1), (5, 6)], [3], 2, 1) := by
  decide +kernel
-- a failed read changes nothing
example : lagObs ⟨64, 256⟩ [.read 4 2 [0x31, 0x32, 0x33, 0x34] [.deliver 4], .read 9 3 [1, 2] [.err 0, .err 7]]
    = some (6, [(0, 1), (5, 6)], [3], 2, 1) := by decide +kernel

-- the hypotheses of `enc_lag_le_prod` are met by any call list whose anchored reads ask for < 2^20 bytes
example : ReadsLe 1048575 [.call (.feed .copy [1]), .read 4 2 [0x31, 0x32, 0x33, 0x34] [.deliver 4], .call (.consume 1)] := by
  simp [ReadsLe]
example : Hint prodTuning 1048575 1048576 := hint_prod _ (by omega)
-- … and the capacity is what bounds the slices: a 5000-byte request makes the production arena install an
-- 8 KiB chunk (the second size of its sequence), a 2^20-byte one a 2^20-byte chunk
example : findHintSize prodTuning 5000 4096 = 8192 := by decide
example : findHintSize prodTuning 1048575 65536 = 1048576 := by decide

end Woodpile.Props.C09H

/-
C02 / C07 (public-API completion, track `apigaps`): the public helper `hcobs::find_stuff_sequence`
(model: `Woodpile.Hcobs.Spec.findStuff`, the function every encoder / chunker theorem is stated with)
called directly — op `find <hex>` of the `hcobs_enc` family.
-/
import Woodpile.Proofs.HcobsSpec

namespace Woodpile.Props.C02A
open Woodpile.Hcobs Woodpile.Hcobs.Spec

/-- `find_stuff_sequence(bytes)` returns `Some(i)` exactly when `FE FD` occurs at offset `i` and the
`i` bytes before it contain no (complete) `FE FD`; it returns `None` exactly when `FE FD` occurs
nowhere. -/
theorem find_stuff_sequence_spec (l : List UInt8) :
    (∀ i, findStuff l = some i ↔
      ∃ pre post, l = pre ++ FE :: FD :: post ∧ pre.length = i ∧ findStuff pre = none) ∧
    (findStuff l = none ↔ ∀ i, ¬ (l[i]? = some FE ∧ l[i + 1]? = some FD)) :=
  ⟨fun _ => findStuff_eq_some_iff, findStuff_none_iff_getElem⟩

example : findStuff [FE, FE, FD, FE, FD] = some 1 := by decide
example : findStuff [FD, FE] = none := by decide
example : findStuff [0x41, FE] = none := by decide

end Woodpile.Props.C02A

/-
C02 on the structural `OwningIovec` the real `Encoder` drives, for ALL input methods (track `anch`; see
`Props/C01G.lean` for the call vocabulary `EncWorld.ACall` = borrow / copy pieces, drains, and
`encode_read` with an arbitrary scripted reader — anchored input read into the encoder's own arena):
what comes out of the iovec — drained early, drained late, or read from the slices at the end, however
the iovec cut it into slices, whichever pieces were copied, borrowed from the caller or borrowed from the
arena chunk the bytes were read into — never contains `FE FD`, is a function of the concatenated input
only, and obeys the length bound.

These are the theorems of `Props/C02W.lean` without the `_partial` restriction to borrow / copy input
(`C01G.run_extends`: the old vocabulary is embedded).
-/
import Woodpile.Proofs.EncWorldAnch
import Woodpile.Props.C02

namespace Woodpile.Props.C02G
open Woodpile.Hcobs Woodpile.Iovec Woodpile.Arena Woodpile.EncWorld

/-- No stuff sequence in the output of the real data path, all input methods: for every segmentation,
method choice (borrow / copy / anchored read with any reader behaviour), drain schedule, policy and
arena tuning, the drained bytes followed by the bytes of the iovec's slices contain no `FE FD` — in
particular none straddling a slice boundary, a drain boundary, or the boundary between a borrowed caller
slice, a borrowed piece of the `read_n` allocation and a copied arena slice. -/
theorem enc_world_no_stuff (p : Params) (hp : p.Valid) (pol : Policy) (tun : Tuning) (calls : List ACall) :
    ∃ w' dr v', encRunA p pol tun calls = some (w', dr) ∧ w'.iov 0 = some v' ∧
      findStuff (dr ++ w'.flat v'.slices) = none ∧ ¬ [FE, FD] <:+: dr ++ (v'.slices.map w'.sliceBytes).flatten := by
  obtain ⟨w', v', dr, evs, k1, k2, _, _, _, _, _, k8, _⟩ := encRunA_sim p hp pol tun calls
  refine ⟨w', dr, v', k1, k2, ?_, ?_⟩
  · rw [k8]; exact C02.no_stuff p hp _
  · have : (v'.slices.map w'.sliceBytes).flatten = w'.flat v'.slices := by
      simp [World.flat, List.flatMap_def]
    rw [this, k8]; exact C02.no_stuff_infix p hp _

/-- Split / method / drain independence, all input methods: two runs whose concatenated inputs agree
(for an anchored call: the bytes its reader delivered) produce the same bytes, whatever their
segmentations, methods, reader schedules, drain schedules, policies and arena tunings. -/
theorem enc_world_split_independent (p : Params) (hp : p.Valid) (pol pol' : Policy) (tun tun' : Tuning)
    (calls calls' : List ACall) (h : ainputOf calls = ainputOf calls') :
    ∃ w1 dr1 v1 w2 dr2 v2, encRunA p pol tun calls = some (w1, dr1) ∧ w1.iov 0 = some v1 ∧
      encRunA p pol' tun' calls' = some (w2, dr2) ∧ w2.iov 0 = some v2 ∧
      dr1 ++ w1.flat v1.slices = dr2 ++ w2.flat v2.slices := by
  obtain ⟨w1, v1, dr1, _, k1, k2, _, _, _, _, _, k8, _⟩ := encRunA_sim p hp pol tun calls
  obtain ⟨w2, v2, dr2, _, j1, j2, _, _, _, _, _, j8, _⟩ := encRunA_sim p hp pol' tun' calls'
  exact ⟨w1, dr1, v1, w2, dr2, v2, k1, k2, j1, j2, by rw [k8, j8, h]⟩

/-- Length bound on the real data path, production constants, all input methods: drained plus buffered
is at most `len + 1 + 2·⌈len/64008⌉` bytes. -/
theorem enc_world_length_bound_prod (pol : Policy) (tun : Tuning) (calls : List ACall) :
    ∃ w' dr v', encRunA C02.prod pol tun calls = some (w', dr) ∧ w'.iov 0 = some v' ∧
      dr.length + v'.totalSize ≤ (ainputOf calls).length + 1 + 2 * (((ainputOf calls).length + 64008 - 1) / 64008) := by
  obtain ⟨w', v', dr, _, k1, k2, k3, _, _, _, _, k8, _⟩ := encRunA_sim C02.prod C02.prod_params_valid pol tun calls
  refine ⟨w', dr, v', k1, k2, ?_⟩
  have hl := C02.length_bound_prod (ainputOf calls)
  rw [← k8, List.length_append, k3.flat_length] at hl
  have := k3.size_eq
  unfold Iov.totalSize
  omega

/-! ### Non-vacuity -/

/-- drained ++ flattened after a run with the crate's test parameters ⟨3, 5⟩ -/
def out (pol : Policy) (calls : List ACall) : Option (List UInt8) :=
  (encRunA ⟨3, 5, 253⟩ pol ⟨[4096, 8192], 4096⟩ calls).bind fun x => (x.1.iov 0).map fun v => x.2 ++ x.1.flat v.slices

-- "12\xFE\xFD": `FE` is the last byte of a full first chunk, `FD` the first byte after the header; the FE
-- arrives at the end of an anchored read (held back across the call), the FD in the next anchored read;
-- borrowed arena slices kept (policy ⟨0,0⟩), drained in between
example : out ⟨0, 0⟩ [.read 3 2 [0x31, 0x32, 0xFE] [.deliver 3], .call (.consume 9), .read 1 1 [0xFD] [.deliver 1]]
    = some [3, 0x31, 0x32, 0xFE, 1, 0, 0xFD] := by decide +kernel
-- the same bytes: a copy, an empty read (EOF), a short anchored read that leaves one byte to a borrow
example : out ⟨64, 256⟩ [.call (.feed .copy [0x31]), .read 8 2 [] [.eof], .read 4 1 [0x32, 0xFE, 0xFD] [.deliver 2],
      .call (.feed .borrow [0xFD]), .call (.advance 3)]
    = some [3, 0x31, 0x32, 0xFE, 1, 0, 0xFD] := by decide +kernel
example : ainputOf [.call (.feed .copy [0x31]), .read 8 2 [] [.eof], .read 4 1 [0x32, 0xFE, 0xFD] [.deliver 2],
      .call (.feed .borrow [0xFD]), .call (.advance 3)]
    = ainputOf [.read 3 2 [0x31, 0x32, 0xFE] [.deliver 3], .call (.consume 9), .read 1 1 [0xFD] [.deliver 1]] := by
  decide

end Woodpile.Props.C02G

/-
C20 — A cloned or taken OwningIovec is an independent snapshot.

Property theorems only (helper lemmas: `Woodpile/Proofs/IovecFrame.lean`,
`Woodpile/Proofs/IovecOwn.lean`).  Model: the multi-object world `Woodpile.Iovec.World`
(see C05); an iovec handle is its creation ordinal.

Structural half (this file, part 1): what `clone` and `take` produce, the frame property of
every operation (`frame_struct`: in the model objects are separate values and an op rewrites
only the objects it names — this is by construction of the model, tied to the code by the
correspondence run, which prints EVERY live iovec after EVERY op on both sides), and
`frame_valid`: after any op on X every other object Y still has all its slices in live memory,
because Y's chunks are held by Y's OWN anchors (C05 `exposed_live`), whatever happened to X
(dropped, cleared, consumed, taken).

Content half (part 2, helper lemmas in `Woodpile/Proofs/IovecHeap.lean`, `IovecPriv.lean`):
`frame_heap`, `pending_private`, `clone_independent` — the bytes Y reads through the heap are
unchanged by every op on X ≠ Y, for histories that clone only iovecs with no placeholder pending
(the property's premise; shown necessary by the last example).
-/
import Woodpile.Proofs.IovecPriv

namespace Woodpile.Props.C20
open Woodpile.Iovec Woodpile.Arena

/-- `Clone for OwningIovec`: the clone is a fresh handle holding the same slices, anchors,
pending set and sizes as the original at that moment, with an EMPTY arena (it never allocates
in a chunk it shares); the original and the heap are untouched. -/
theorem clone_copies {w w' : World} {i j : Nat} (h : w.clone i = some (w', j)) :
    ∃ v, w.iov i = some v ∧ j = w.iovs.length ∧ w.iov j = none ∧
      w'.iov j = some { v with arena := ⟨none⟩ } ∧ w'.iov i = some v ∧ w'.heap = w.heap ∧
      (∀ n, n ≠ j → w'.iov n = w.iov n) := by
  unfold World.clone at h
  split at h
  · simp at h
  · rename_i v hv
    simp only [Option.some.injEq] at h
    have e1 : w' = (w.addIov { v with arena := ⟨none⟩ }).1 := by rw [h]
    have e2 : j = w.iovs.length := by
      have := congrArg Prod.snd h; simpa [World.addIov] using this.symm
    subst e1 e2
    have hi : i ≠ w.iovs.length := Nat.ne_of_lt (iov_lt_of_some hv)
    refine ⟨v, hv, rfl, iov_none_of_ge _ _ (Nat.le_refl _), by simp, by simp [hi, hv], rfl, ?_⟩
    intro n hn; simp [hn]

/-- `take()`: the handle keeps an empty, default iovec (exactly what `new` creates: fully
usable), and the ENTIRE old value — slices, anchors, sizes, arena and pending backrefs — moves
to the returned fresh handle; the heap is untouched. -/
theorem take_moves_all {w w' : World} {i j : Nat} (h : w.take i = some (w', j)) :
    ∃ v, w.iov i = some v ∧ j = w.iovs.length ∧ w.iov j = none ∧
      w'.iov i = some Iov.empty ∧ w'.iov j = some v ∧ w'.heap = w.heap ∧
      (∀ n, n ≠ j → n ≠ i → w'.iov n = w.iov n) := by
  unfold World.take at h
  split at h
  · simp at h
  · rename_i v hv
    simp only [Option.some.injEq] at h
    have e1 : w' = ((w.setIov i (some Iov.empty)).addIov v).1 := (congrArg Prod.fst h).symm
    have hlen : (w.setIov i (some Iov.empty)).iovs.length = w.iovs.length := by
      have hi := iov_lt_of_some hv
      simp [World.setIov, listSet, hi]
    have e2 : j = w.iovs.length := by
      have := congrArg Prod.snd h; rw [← hlen]; simpa [World.addIov] using this.symm
    subst e1 e2
    have hi : i ≠ w.iovs.length := Nat.ne_of_lt (iov_lt_of_some hv)
    refine ⟨v, hv, rfl, iov_none_of_ge _ _ (Nat.le_refl _), by simp [hlen, hi], by simp [hlen], rfl, ?_⟩
    intro n hn hni; simp [hlen, hn, hni]

/-- … including the ability to backfill outstanding placeholders: any token, with any payload,
does to the taken value (same success / panic, same heap write, same resulting iovec) exactly
what it would have done to the original had `take` not happened. -/
theorem take_keeps_backfill {w w' : World} {i j : Nat} (h : w.take i = some (w', j)) (b : Backref)
    (src : List UInt8) :
    (w'.backfill j b src).map (fun x => (x.heap, x.iov j)) =
      (w.backfill i b src).map (fun x => (x.heap, x.iov i)) := by
  obtain ⟨v, hv, _, _, _, hj, hh, _⟩ := take_moves_all h
  exact backfill_congr (by rw [hj, hv]) hh b src

/-- `frame_struct`: an op on X leaves the model value of every other iovec Y unchanged (same
slices, anchors, sizes, arena, pending set).  In the model objects are separate values, so this
holds by construction; the correspondence run is what ties it to the code. -/
theorem frame_struct {w w' : World} {op : WOp} (h : w.step op = some w') {j : Nat} {vY : Iov}
    (hY : w.iov j = some vY) (hj : op.iovTarget ≠ some j) : w'.iov j = some vY :=
  step_frame_iov h hY hj

/-- `frame_valid`: after ANY op (on any X: push, merge, register, backfill, consume, clear, drop,
take, arena traffic …), every iovec Y of the new world — in particular every Y the op did not
name, whose value is unchanged by `frame_struct` — has every slice in live memory, each owned
slice's chunk being held by Y's OWN anchor deque; likewise every non-empty detached slice by its
own anchor.  No object depends on another one staying alive. -/
theorem frame_valid {w w' : World} {op : WOp} (hr : Reachable w) (h : w.step op = some w') :
    (∀ j vY, w'.iov j = some vY → ∀ s ∈ vY.slices,
      Live w' s ∧ ∀ k, s.region = .chunk k → k ∈ anchorChunks vY.anchors) ∧
    (∀ j a, w'.aslice j = some a → a.slice.len ≠ 0 →
      Live w' a.slice ∧ ∃ k, a.slice.region = .chunk k ∧ a.anchor.chunk = some k) := by
  have hinv := (hr.step h).inv
  exact ⟨fun _ _ hv _ hs => hinv.iov_slice_live hv hs, fun _ _ ha hl => hinv.aslice_live ha hl⟩

/-! ### Content half: heap framing

`GReach w caps` = "`w` is reachable, with its chunk-capacity ghost" (every reachable world has one:
`C05.reachable_has_caps`).  Bytes are read through the symbolic heap (`Heap.byteO`, `World.sliceBytes`). -/

/-- `frame_heap`: every heap byte an operation changes lies at or above the end of EVERY slice of EVERY
object that existed in that chunk — it belongs to the fresh allocation `[bump, …)` of the acting arena's
cache chunk, or to a fresh chunk (`copy`, `read_n`'s `fill(0)` + reader) — or, for `backfill` on `X`
only, inside a pending backref range of `X`.  (Merges, consumption, arena traffic, anchored-slice
surgery write nothing.) -/
theorem frame_heap {w w' : World} {caps : Nat → Nat} {op : WOp} (hg : GReach w caps) (h : w.step op = some w') :
    ∀ k j, w'.heap.byteO k j ≠ w.heap.byteO k j →
      (∀ s, w.HasSlice s → s.region = .chunk k → s.off + s.len ≤ j) ∨
      (∃ X b bs v key info a, op = .backfill X b bs ∧ w.iov X = some v ∧ (key, info) ∈ v.backrefs ∧
        v.pendingRange info = some (k, a, info.len) ∧ a ≤ j ∧ j < a + info.len) :=
  step_frame_heap hg h

/-- `clone_independent`, every operation except `backfill`: after ANY such op by ANY object, NO slice of
ANY object that existed before reads different bytes — in particular the stable bytes of a clone `Y`
are unchanged by pushes (extending or merging), placeholder registration, consumption, clear, drop,
take, arena traffic on the original `X` (and vice versa), whatever chunks they share.  No premise on
how the clone was made is needed for these ops. -/
theorem clone_independent_nonfill {w w' : World} {caps : Nat → Nat} {op : WOp} (hg : GReach w caps)
    (h : w.step op = some w') (hnb : ∀ i b bs, op ≠ .backfill i b bs) {j : Nat} {vY : Iov}
    (hY : w.iov j = some vY) {s : Slice} (hs : s ∈ vY.slices) : w'.sliceBytes s = w.sliceBytes s :=
  step_bytes_unchanged hg h hnb (Or.inl ⟨j, vY, hY, hs⟩) ((hg.reachable.inv.iovOk j vY hY).extOk s hs)

/-- `pending_private` (invariant).  `CReach w caps` = `w` is reachable by a history in which every
`clone i` found iovec `i` with NO placeholder pending (the property's premise; any history accepted by
`World.runC` is one: `creach_has_history`).  In every such world, for every iovec `X` and every pending
backref of `X` that designates a byte range (its slice is still buffered), NO slice of any OTHER iovec
and no detached anchored slice covers a byte of that range; and the backref bookkeeping is sane
(`BackrefsOk`: targets in range, sorted by slice index — so `advance_slices` never shortens a
placeholder's slice — and each range fits in its owned target slice).  Tokens need no premise: in
the model `backfill` refuses a token that is not one of the target iovec's own pending backrefs. -/
theorem pending_private {w : World} {caps : Nat → Nat} (hr : CReach w caps) :
    PendingPrivate w ∧ ∀ i v, w.iov i = some v → BackrefsOk v :=
  ⟨hr.priv.priv, hr.priv.wf⟩

/-- Histories accepted by `World.runC` (every op succeeds, every `clone` finds no pending placeholder)
are `CReach`. -/
theorem creach_has_history {pol : Policy} {tun : Tuning} {ops : List WOp} {w : World}
    (h : (World.init pol tun).runC ops = some w) : ∃ caps, CReach w caps := creach_of_runC h

/-- `clone_independent`, FULL: in a history that clones only iovecs with no placeholder pending, ANY
operation on X — pushes that extend or merge slices, placeholder registration and BACKFILL,
consumption, clear, drop, take, arena traffic — leaves the bytes of every slice (in particular the
stable bytes) of every iovec Y it does not name unchanged; together with `frame_struct` (Y's model
value is unchanged) and `frame_valid` (Y's slices stay in live memory), Y's observable contents are
unchanged and valid. -/
theorem clone_independent {w w' : World} {caps : Nat → Nat} {op : WOp} (hr : CReach w caps)
    (h : w.step op = some w') {j : Nat} {vY : Iov} (hY : w.iov j = some vY) (hj : op.iovTarget ≠ some j)
    {s : Slice} (hs : s ∈ vY.slices) : w'.sliceBytes s = w.sliceBytes s :=
  clone_independent_full hr h hY hj hs

end Woodpile.Props.C20

namespace Woodpile.Props.C20
open Woodpile.Iovec Woodpile.Arena

/-! Non-vacuity. -/

private def pol : Policy := ⟨64, 256⟩
private def tun : Tuning := ⟨[4096, 8192], 4096⟩

-- clone, then drop the original, then read the clone (bytes through the heap).
example : ((World.init pol tun).run [.new, .pushCopy 0 [1, 2, 3], .clone 0, .drop 0]).map
    (fun w => ((w.iov 1).map (fun v => v.slices.flatMap w.sliceBytes), w.liveChunks)) =
    some (some [1, 2, 3], [0]) := by decide
-- the original keeps streaming into the shared chunk; the clone still reads its snapshot.
example : ((World.init pol tun).run [.new, .pushCopy 0 [1, 2, 3], .clone 0, .pushCopy 0 [4, 5],
    .clear 0, .pushCopy 0 [6]]).map
    (fun w => ((w.iov 1).map (fun v => v.slices.flatMap w.sliceBytes),
               (w.iov 0).map (fun v => v.slices.flatMap w.sliceBytes))) =
    some (some [1, 2, 3], some [6]) := by decide
-- take with a placeholder outstanding: the token backfills the taken value.
example : ((World.init pol tun).run [.new, .pushCopy 0 [1], .register 0 [0, 0], .take 0,
    .backfill 1 0 [8, 9]]).map
    (fun w => ((w.iov 1).map (fun v => (v.slices.flatMap w.sliceBytes, v.backrefs.length)),
               (w.iov 0).map (·.slices.length))) =
    some (some ([1, 8, 9], 0), some 0) := by decide
-- arena taken from one iovec and given to another while both hold slices in the same chunk.
example : ((World.init pol tun).run [.new, .new, .newArena, .pushCopy 0 [1, 2], .takeArena 0,
    .swapArena 1 1, .pushCopy 1 [3, 4], .pushCopy 0 [5]]).map
    (fun w => ((w.iov 0).map (·.slices), (w.iov 1).map (·.slices), w.liveChunks)) =
    some (some [⟨.chunk 0, 0, 2⟩, ⟨.chunk 1, 0, 1⟩], some [⟨.chunk 0, 2, 2⟩], [0, 1]) := by decide

-- The premise is met and matters.  Clone with nothing pending, THEN register + backfill on the original:
-- the clone still reads its snapshot …
example : ((World.init pol tun).runC [.new, .pushCopy 0 [1, 2, 3], .clone 0, .register 0 [0, 0],
    .backfill 0 0 [8, 9]]).map
    (fun w => ((w.iov 1).map (fun v => v.slices.flatMap w.sliceBytes),
               (w.iov 0).map (fun v => v.slices.flatMap w.sliceBytes))) =
    some (some [1, 2, 3], some [1, 2, 3, 8, 9]) := by decide
-- … whereas a clone taken WHILE the placeholder is pending is rejected by the premise (`runC` = none) …
example : ((World.init pol tun).runC [.new, .pushCopy 0 [1], .register 0 [0, 0], .clone 0]).isNone = true := by
  decide
-- … and rightly so: without the premise the original's backfill DOES change the clone's bytes.
example : ((World.init pol tun).run [.new, .pushCopy 0 [1], .register 0 [0, 0], .clone 0,
    .backfill 0 0 [8, 9]]).map (fun w => (w.iov 1).map (fun v => v.slices.flatMap w.sliceBytes)) =
    some (some [1, 8, 9]) := by decide

end Woodpile.Props.C20

/-
C09, structural half, for `Encoder::new_from_iovec` / `Decoder::new_from_iovec` on a PRE-FILLED `OwningIovec`
(track `apileft`, audit gap 15): `Props/C09H.lean` (lag, prefix, completeness — all from `World.fresh`)
restated from ANY world `w` and iovec `i` = `v` (`EncWorld.encPrefixFrom` / `encRunFrom` / `decRunFrom`;
`Props/C01P.fresh_is_prefilled`: the fresh start is the instance `World.fresh`).

* Nothing pending at the hand-over (hypotheses `IovInv w v`, `v.hasPending = false`, nothing else):
  `enc_lag_struct`, `enc_lag_le(_prod)`, `enc_drained_stable_prefix`, `enc_drained_complete`, `dec_lag_zero` —
  the statements of `Props/C09H.lean` with "what the iovec held" in front of `Spec.encode`.  The bound is about
  the ENCODER's pending header: the slice holding it may be a merge with the caller's last copied slice
  (`register_patch` extends the slice the arena allocated last), which is why the in-capacity premise is now a
  hypothesis on the iovec handed over (`CapW T S i w`: its owned slices end within `S` bytes of their chunks
  and its cache is at most `S` bytes — preserved by every caller call whose requests are at most `B` bytes:
  `pushCopy_cap`, `push_cap`, `registerPatch_cap`, `backfill_cap`, `consume_cap`, … of `Proofs/EncWorldCap.lean`;
  `World.fresh` satisfies it trivially).
* A caller placeholder still pending at the hand-over: the lag is UNBOUNDED by design (the consumer is blocked
  at the caller's placeholder, C04, however much the encoder appends: `enc_hidden_behind_caller` — at every
  moment drained ++ stable prefix is a prefix of the bytes in front of the caller's first pending placeholder,
  so every byte the encoder produced counts as lag).  Relative to the caller's hole nothing changes: the cells
  behind the prefix are exactly those of a fresh encoder (`Props/C01P.prefilled_abs_between_calls`), i.e. at
  most one pending header of the encoder's own, `cur + (held FE) < maxChunk` bytes behind it.
  The decoder registers nothing and fills nothing: `dec_lag_unchanged`.
-/
import Woodpile.Props.C01P
import Woodpile.Props.C09H

namespace Woodpile.Props.C09P
open Woodpile.Hcobs Woodpile.Iovec Woodpile.Arena Woodpile.EncWorld
open Woodpile.Pipe (Cell Pipe cellBytes)

/-- Structural lag of the encoder, exactly, from a pre-filled iovec with nothing pending (as
`C09H.enc_lag_struct`): the pending size header is a backref `e` inside ONE owned slice `s` (which may also
hold bytes the caller copied before the hand-over) at offset `e.begin`, and
`total_size − |stable prefix| = e.begin + brLen + cur`. -/
theorem enc_lag_struct (p : Params) (hp : p.Valid) (i : Nat) (w : World) (v : Iov) (g : List UInt8)
    (hv : w.iov i = some v) (hinv : IovInv w v) (hnp : v.hasPending = false) (calls : List ACall) :
    ∃ r v' e s c, encPrefixFrom p w i g calls = some r ∧ r.w.iov i = some v' ∧
      e ∈ v'.backrefs ∧ e.2.len = r.e.st.brLen ∧ 1 ≤ r.e.st.brLen ∧ r.e.st.brLen ≤ 2 ∧
      v'.slices[e.2.sliceIndex - v'.consumedSlices]? = some s ∧ s.region = .chunk c ∧
      e.2.begin + r.e.st.brLen ≤ s.len ∧
      v'.totalSize - (r.w.visible v').length = e.2.begin + r.e.st.brLen + r.e.st.cur ∧
      r.e.st.cur + (if r.e.st.mid then 1 else 0) < r.e.st.maxChunk ∧
      (r.e.st.maxChunk = p.maxInit ∨ r.e.st.maxChunk = p.maxSub) := by
  obtain ⟨r, v', e, s, c, h1, h2, _, h4, h5, h6, h7, h8, h9, h10, h11, h12, h13⟩ :=
    enc_lag_structP p hp i w v g hv hinv hnp calls
  exact ⟨r, v', e, s, c, h1, h2, h4, h5, h10, h11, h6, h7, h8, h9, h12, h13⟩

/-- The lag bound from a pre-filled iovec with nothing pending: if the iovec handed over is in-capacity
(`CapW T S i w`), requests of at most `B ≥ 64008` bytes are served from chunks of at most `S` bytes and every
anchored read asks for at most `B` bytes, then between calls `total_size − |stable prefix| <
S + max(maxInit, maxSub)`. -/
theorem enc_lag_le (T : Tuning) (B S : Nat) (hH : Hint T B S) (p : Params) (hp : p.Valid) (hB : 64008 ≤ B)
    (i : Nat) (w : World) (v : Iov) (g : List UInt8) (hv : w.iov i = some v) (hinv : IovInv w v)
    (hnp : v.hasPending = false) (hcap : CapW T S i w) (calls : List ACall) (hc : ReadsLe B calls) :
    ∃ r v', encPrefixFrom p w i g calls = some r ∧ r.w.iov i = some v' ∧
      v'.totalSize - (r.w.visible v').length < S + max p.maxInit p.maxSub := by
  obtain ⟨r, v', e, s, c, h1, h2, _, _, _, _, h7, h8, h9, h10, h11, h12⟩ := enc_lag_struct p hp i w v g hv hinv hnp calls
  have hm := valid_max_le p hp
  have hs := encPrefixFrom_cap hH (by omega) p (by omega) (by omega) w i g calls hc hcap r h1 v' h2 s
    (List.mem_of_getElem? h7) c h8
  refine ⟨r, v', h1, h2, ?_⟩
  have : r.e.st.maxChunk ≤ max p.maxInit p.maxSub := by rcases h12 with h | h <;> rw [h] <;> omega
  split at h11 <;> omega

/-- … production tuning and parameters, anchored reads below 2^20 bytes, an iovec whose chunks are at most
2^20 bytes: the property's `2^20 + 64008 + 2`. -/
theorem enc_lag_le_prod (i : Nat) (w : World) (v : Iov) (g : List UInt8) (hv : w.iov i = some v) (hinv : IovInv w v)
    (hnp : v.hasPending = false) (hcap : CapW prodTuning 1048576 i w) (calls : List ACall) (hc : ReadsLe 1048575 calls) :
    ∃ r v', encPrefixFrom C02.prod w i g calls = some r ∧ r.w.iov i = some v' ∧
      v'.totalSize - (r.w.visible v').length < 1048576 + 64008 + 2 := by
  obtain ⟨r, v', h1, h2, h3⟩ := enc_lag_le prodTuning 1048575 1048576 (hint_prod _ (by omega)) C02.prod
    C02.prod_params_valid (by omega) i w v g hv hinv hnp hcap calls hc
  have hm : max C02.prod.maxInit C02.prod.maxSub = 64008 := by decide
  exact ⟨r, v', h1, h2, by omega⟩

/-- The fresh world is in-capacity for every `S`: `C09H.enc_lag_le` is the instance. -/
theorem fresh_capW (T : Tuning) (S : Nat) (pol : Policy) : CapW T S 0 (World.fresh pol T) :=
  ⟨rfl, Iov.empty, rfl, ⟨(fun ca h => by cases h), (fun s hs => by cases hs)⟩⟩

/-- C09's prefix clause from a pre-filled iovec with nothing pending: between the calls of any run, the bytes
drained so far followed by the bytes of `stable_prefix()` (the first `n` slices, `n` the value
`Iov.stableCount` computes) are a prefix of the FINAL output: what the iovec held followed by `Spec.encode` of
the whole input, whatever calls `c2` follow. -/
theorem enc_drained_stable_prefix (p : Params) (hp : p.Valid) (i : Nat) (w : World) (v : Iov) (g : List UInt8)
    (hv : w.iov i = some v) (hinv : IovInv w v) (hnp : v.hasPending = false) (c1 c2 : List ACall) :
    ∃ r v' n, encPrefixFrom p w i g c1 = some r ∧ r.w.iov i = some v' ∧ v'.stableCount = some n ∧
      r.drained ++ r.w.flat (v'.slices.take n) <+: g ++ w.flat v.slices ++ Spec.encode p (ainputOf (c1 ++ c2)) := by
  obtain ⟨r, v', h1, h2, h3, h4⟩ := enc_prefix_structP p hp i w v g hv hinv hnp c1 c2
  exact ⟨r, v', v'.stableN, h1, h2, h3.stableCount, h4⟩

/-- … and at the end nothing is lost (`Props/C01P.prefilled_output`). -/
theorem enc_drained_complete (p : Params) (hp : p.Valid) (i : Nat) (w : World) (v : Iov) (g : List UInt8)
    (hv : w.iov i = some v) (hinv : IovInv w v) (hnp : v.hasPending = false) (calls : List ACall) :
    ∃ w' dr v', encRunFrom p w i g calls = some (w', dr) ∧ w'.iov i = some v' ∧
      dr ++ w'.flat v'.slices = g ++ w.flat v.slices ++ Spec.encode p (ainputOf calls) := by
  obtain ⟨w', dr, v', k1, k2, _, _, _, k6⟩ := C01P.prefilled_output p hp i w v g hv hinv hnp calls
  exact ⟨w', dr, v', k1, k2, k6⟩

/-- A caller placeholder pending at the hand-over (`v.hasPending`; the iovec represents a pipe `Q0` with the
caller's tokens `ct`): whatever the encoder is fed, between calls the placeholder is still pending and the
bytes drained so far followed by the stable prefix are a prefix of the bytes IN FRONT of the caller's first
pending placeholder — nothing the encoder produced is consumable, the lag grows with the output (C04; by
design). -/
theorem enc_hidden_behind_caller (p : Params) (hp : p.Valid) (i : Nat) (w : World) (v : Iov) (g : List UInt8)
    (ct : List Backref) (Q0 : Pipe) (hv : w.iov i = some v) (h0 : SimV w v g ct Q0) (hpend : v.hasPending = true)
    (calls : List ACall) :
    ∃ r v' n, encPrefixFrom p w i g calls = some r ∧ r.w.iov i = some v' ∧ v'.hasPending = true ∧
      v'.stableCount = some n ∧
      r.drained ++ r.w.flat (v'.slices.take n) <+: g ++ cellBytes ((absCells w v).takeWhile Cell.isByte) := by
  obtain ⟨r, v', h1, h2, h3, h4, h5⟩ := EncWorld.enc_hidden_behind_caller p hp i w v g ct Q0 hv h0 hpend calls
  exact ⟨r, v', v'.stableN, h1, h2, h4, h3.stableCount, h5⟩

/-- Decoder from a pre-filled iovec with nothing pending: lag 0 (as `C09H.dec_lag_zero_world`). -/
theorem dec_lag_zero (p : Params) (hp : p.Valid) (i : Nat) (w : World) (v : Iov) (g : List UInt8)
    (hv : w.iov i = some v) (hinv : IovInv w v) (hnp : v.hasPending = false) (calls : List ACall) :
    ∃ w' dr res v', decRunFrom p w i g calls = some (w', dr, res) ∧ w'.iov i = some v' ∧
      v'.hasPending = false ∧ v'.totalSize - (w'.visible v').length = 0 := by
  obtain ⟨w', dr, res, v', h1, h2, h3, h4, h5, _⟩ := C01P.dec_prefilled_output p hp i w v g hv hinv hnp calls
  refine ⟨w', dr, res, v', h1, h2, h4, ?_⟩
  rw [h5, h3.flat_length]
  have := h3.size_eq
  unfold Iov.totalSize
  omega

/-- Decoder, any caller placeholders: the decoder registers no placeholder and fills none — pending exactly
when the iovec handed over was (its contribution to the lag is zero: the only thing that can hide its output
is the caller's own placeholder). -/
theorem dec_lag_unchanged (p : Params) (hp : p.Valid) (i : Nat) (w : World) (v : Iov) (g : List UInt8)
    (ct : List Backref) (Q0 : Pipe) (hv : w.iov i = some v) (h0 : SimV w v g ct Q0) (calls : List ACall) :
    ∃ w' v' dr res, decRunFrom p w i g calls = some (w', dr, res) ∧ w'.iov i = some v' ∧
      v'.hasPending = v.hasPending := by
  obtain ⟨w', v', dr, res, X, h1, h2, _, _, h5, _⟩ := C01P.dec_prefilled_output_cells p hp i w v g ct Q0 hv h0 calls
  exact ⟨w', v', dr, res, h1, h2, h5⟩

/-! ### Non-vacuity (test parameters ⟨3, 5⟩, production copy thresholds) -/

/-- (lag, (offset, length) of the slices, begin of the pending backrefs in their slices, brLen, cur) between calls,
after the caller's script and `Encoder::new_from_iovec` -/
def lagObs (script : List PreOp) (calls : List ACall) : Option (Nat × List (Nat × Nat) × List Nat × Nat × Nat) :=
  (C01P.pre script).bind fun s => (encPrefixFrom C01P.tp s.w 0 s.drained calls).bind fun r => (r.w.iov 0).map fun v =>
    (v.totalSize - (r.w.visible v).length, v.slices.map (fun s => (s.off, s.len)), v.backrefs.map (·.2.begin),
      r.e.st.brLen, r.e.st.cur)

-- a COPIED 5-byte prefill: the encoder's 1-byte header placeholder extends the caller's arena slice (0..5 → 0..7
-- with the byte "1" behind it), so the whole slice — the caller's bytes included — waits for the header:
-- lag = begin 5 + brLen 1 + cur 1
example : lagObs [.pushCopy [1, 2, 3, 4, 5]] [.call (.feed .copy [0x31])] = some (7, [(0, 7)], [5], 1, 1) := by
  decide +kernel
-- a BORROWED prefill stays a slice of its own and is consumable at once: lag = 0 + 1 + 1
example : lagObs [.pushBorrowed [1, 2, 3, 4, 5]] [.call (.feed .copy [0x31])] = some (2, [(0, 5), (0, 2)], [0], 1, 1) := by
  decide +kernel
-- a pending caller placeholder in front: two pending backrefs, everything behind the first is lag
example : lagObs [.pushBorrowed [9, 9, 9], .register 2] [.call (.feed .copy [0x31, 0x32])] = some (5, [(0, 3), (0, 5)], [0, 2], 1, 2) := by
  decide +kernel
-- the capacity premise of `enc_lag_le_prod` holds for the fresh iovec
example : CapW prodTuning 1048576 0 (World.fresh C01P.exPol prodTuning) := fresh_capW _ _ _

end Woodpile.Props.C09P

/-
C04 (public-API completion, track `apigaps`) — "iovs, flatten and stable_consumer report success
exactly when no placeholder is pending", with what each of them hands out, for the model functions
of `Model/IovecApi.lean` (`Iov.iovs`, `World.flatten`, `World.flattenInto`, `Iov.tryStable`,
`Iov.front`, `Iov.iter`, `World.readViaFront`) that the `iovec` driver prints and the correspondence
run compares with the real `iovs()`, `flatten()`, `flatten_into(dst)`, `stable_consumer()`,
`StableIovec::try_from`, `front()`, `IntoIterator` and `Read`.

A `Result<T, T>` is modelled as `(isOk, payload)`: the crate returns the same kind of payload on both
sides (the stable prefix / the stable bytes).
-/
import Woodpile.Proofs.IovecApi

namespace Woodpile.Props.C04A
open Woodpile.Iovec Woodpile.Iovec.Api Woodpile.Arena
open Woodpile.Pipe (Cell Pipe)

/-- `iovs()`, `flatten()`, `flatten_into(dst)`, `stable_consumer()` / `StableIovec::try_from` are `Ok`
exactly when the pipe has no hole left (no placeholder is pending) — all four at once — and, `Ok` or
`Err`, the payload is the stable prefix: slices whose bytes are byte cells at the front of the pipe
(so they precede every pending placeholder; `dst` is kept in front by `flatten_into`). -/
theorem accessors_ok_iff_no_pending (i : Nat) (s : State) (hinv : Inv i s) (dst : List UInt8) :
    ∃ v, s.w.iov i = some v ∧
      v.iovs = some (!(abs i s).pending, v.slices.take v.stableN) ∧
      s.w.flatten v = some (!(abs i s).pending, s.w.visible v) ∧
      s.w.flattenInto v dst = some (!(abs i s).pending, dst ++ s.w.visible v) ∧
      v.tryStable = !(abs i s).pending ∧
      s.w.flat (v.slices.take v.stableN) = s.w.visible v ∧
      (∃ rest, (abs i s).cells = (s.w.visible v).map Cell.byte ++ rest) ∧
      ((abs i s).pending = false → (abs i s).cells = (s.w.visible v).map Cell.byte) := by
  obtain ⟨v, hv, hi⟩ := hinv
  have hpend : v.hasPending = (abs i s).pending := by
    rw [hasPending_eq_pending hi, abs_eq i s v hv]; rfl
  refine ⟨v, hv, ?_, ?_, ?_, ?_, rfl, ⟨_, by rw [abs_eq i s v hv]; exact absCells_visible hi⟩, ?_⟩
  · rw [iovs_spec hi, hpend]
  · unfold World.flatten; rw [flattenInto_spec hi, hpend]; simp
  · rw [flattenInto_spec hi, hpend]
  · unfold Iov.tryStable; rw [hpend]
  · intro hp
    rw [← hpend] at hp
    rw [abs_eq i s v hv]
    exact (visible_all_of_no_pending hi hp).2

/-- `front()` and iteration over `&OwningIovec` never reach a pending placeholder: what they hand
out are whole slices of the stable prefix, i.e. byte cells at the front of the pipe. -/
theorem front_and_iter_before_first_hole (i : Nat) (s : State) (hinv : Inv i s) :
    ∃ v, s.w.iov i = some v ∧ v.iter = some (v.slices.take v.stableN) ∧
      v.front = some ((v.slices.take v.stableN).head?) ∧
      (∀ sl, v.front = some (some sl) →
        ∃ rest, (abs i s).cells = (s.w.sliceBytes sl).map Cell.byte ++ rest) := by
  obtain ⟨v, hv, hi⟩ := hinv
  refine ⟨v, hv, iter_spec hi, front_spec hi, fun sl hsl => ?_⟩
  rcases front_cases hi with ⟨h, _⟩ | ⟨sl', h1, _, _, _, ⟨t, ht⟩⟩
  · rw [h] at hsl; cases hsl
  · rw [h1] at hsl
    simp only [Option.some.injEq] at hsl
    subst hsl
    refine ⟨t.map Cell.byte ++ mkCells v.backrefs (v.consumedSize + (s.w.visible v).length)
      (s.w.flat (v.slices.drop v.stableN)), ?_⟩
    rw [abs_eq i s v hv]
    simp only
    rw [absCells_visible hi, ← ht]
    simp

/-- `Read::read` (the crate's loop of `front()` + `advance_slices()`) stops before the first
placeholder: the bytes it copies out are byte cells at the front of the pipe, exactly those cells
leave the pipe, and every hole is still there afterwards. -/
theorem read_stops_before_placeholder (i : Nat) (s : State) (hinv : Inv i s) (room : Nat) :
    ∃ w' bytes, World.readViaFront (room + 2) s.w i room [] = some (w', bytes) ∧
      bytes <+: (abs i s).stable ∧ bytes.length ≤ room ∧
      (abs i s).cells = bytes.map Cell.byte ++ (abs i { s with w := w', ghost := s.ghost ++ bytes }).cells := by
  obtain ⟨v, hv, hi⟩ := hinv
  obtain ⟨w', h1⟩ := step_readInto_exact i s v room hv hi
  have h2 : World.readInto (room + 2) s.w i room [] = some (w', (s.w.visible v).take room) := by
    simp only [step] at h1
    cases hr : World.readInto (room + 2) s.w i room [] with
    | none => rw [hr] at h1; cases h1
    | some p =>
      rw [hr] at h1
      simp only [Option.map_some, Option.some.injEq, Prod.mk.injEq] at h1
      obtain ⟨h1a, h1b⟩ := h1
      have hp2 : p.2 = (s.w.visible v).take room := by
        have := congrArg (fun r => match r with | Ret.took _ rm => rm | _ => []) h1b
        simpa using this
      have hp1 : p.1 = w' := by
        have := congrArg State.w h1a
        simpa using this
      rw [← hp1, ← hp2]
  obtain ⟨_, habs, hok⟩ := step_refines i s _ _ _ ⟨v, hv, hi⟩ h1
  have hpre : (s.w.visible v).take room <+: (abs i s).stable := hok.2.2
  obtain ⟨_, hc, _⟩ := Pipe.consume_history (abs i s) _ hpre
  refine ⟨w', (s.w.visible v).take room, by rw [readViaFront_eq, h2], hpre, by simp; omega, ?_⟩
  rw [hc]
  congr 2
  rw [habs]
  rfl

/-! ### Non-vacuity -/

def exPol : Policy := ⟨64, 256⟩
def exTun : Tuning := ⟨[4096, 8192], 4096⟩
def exState : Option (State × List Ret) :=
  run 0 (State.init exPol exTun) [.pushBorrowed ⟨[], [7, 8], []⟩, .pushCopy [1], .registerPatch [0, 0], .pushCopy [2]]

-- a placeholder pending: every accessor is `Err`, the payload is the borrowed slice only
example : exState.bind (fun x => (x.1.w.iov 0).map (fun v => (v.iovs, x.1.w.flatten v, v.tryStable)))
  = some (some (false, [⟨.ext 0, 0, 2⟩]), some (false, [7, 8]), false) := by decide +kernel
-- after the backfill: `Ok`, everything
example : (exState.bind (fun x => run 0 x.1 [.backfill (some (5, ⟨1, 1, 2⟩)) [5, 6]])).bind
    (fun x => (x.1.w.iov 0).map (fun v => (x.1.w.flattenInto v [9], v.tryStable)))
  = some (some (true, [9, 7, 8, 1, 5, 6, 2]), true) := by decide +kernel

end Woodpile.Props.C04A

/-
C02 on the structural `OwningIovec` the real `Encoder` drives (see
`Props/C01W.lean` for the run vocabulary `EncWorld.encRun` / `Call`): what comes
out of the iovec — drained early, drained late, or read from the slices at the
end, however the iovec cut it into slices — never contains `FE FD`, is a
function of the concatenated input only, and obeys the length bound.

Partial (`_partial`): input methods borrow / copy only; the anchored method is
outside the proved iovec vocabulary (see `Props/C01W.lean`).  Full statements:
the same with `Call.feed` ranging over all three methods.
-/
import Woodpile.Proofs.EncWorldComp
import Woodpile.Props.C02

namespace Woodpile.Props.C02W
open Woodpile.Hcobs Woodpile.Iovec Woodpile.Arena Woodpile.EncWorld

/-- No stuff sequence in the output of the real data path: for every segmentation, method choice,
drain schedule, policy and arena tuning, the drained bytes followed by the bytes of the iovec's
slices contain no `FE FD` — in particular none straddling a slice boundary, a drain boundary, or the
boundary between a borrowed caller slice and an arena slice. -/
theorem enc_world_no_stuff_partial (p : Params) (hp : p.Valid) (pol : Policy) (tun : Tuning) (calls : List Call) :
    ∃ w' dr v', encRun p pol tun calls = some (w', dr) ∧ w'.iov 0 = some v' ∧
      findStuff (dr ++ w'.flat v'.slices) = none ∧ ¬ [FE, FD] <:+: dr ++ (v'.slices.map w'.sliceBytes).flatten := by
  obtain ⟨w', v', dr, evs, k1, k2, _, _, _, _, _, k8, _⟩ := encRun_sim p hp pol tun calls
  refine ⟨w', dr, v', k1, k2, ?_, ?_⟩
  · rw [k8]; exact C02.no_stuff p hp _
  · have : (v'.slices.map w'.sliceBytes).flatten = w'.flat v'.slices := by
      simp [World.flat, List.flatMap_def]
    rw [this, k8]; exact C02.no_stuff_infix p hp _

/-- Split / method / drain independence: two runs whose concatenated inputs agree produce the same
bytes, whatever their segmentations, methods, drain schedules, policies and arena tunings. -/
theorem enc_world_split_independent_partial (p : Params) (hp : p.Valid) (pol pol' : Policy) (tun tun' : Tuning)
    (calls calls' : List Call) (h : inputOf calls = inputOf calls') :
    ∃ w1 dr1 v1 w2 dr2 v2, encRun p pol tun calls = some (w1, dr1) ∧ w1.iov 0 = some v1 ∧
      encRun p pol' tun' calls' = some (w2, dr2) ∧ w2.iov 0 = some v2 ∧
      dr1 ++ w1.flat v1.slices = dr2 ++ w2.flat v2.slices := by
  obtain ⟨w1, v1, dr1, _, k1, k2, _, _, _, _, _, k8, _⟩ := encRun_sim p hp pol tun calls
  obtain ⟨w2, v2, dr2, _, j1, j2, _, _, _, _, _, j8, _⟩ := encRun_sim p hp pol' tun' calls'
  exact ⟨w1, dr1, v1, w2, dr2, v2, k1, k2, j1, j2, by rw [k8, j8, h]⟩

/-- Length bound on the real data path, production constants: drained plus buffered is at most
`len + 1 + 2·⌈len/64008⌉` bytes. -/
theorem enc_world_length_bound_prod_partial (pol : Policy) (tun : Tuning) (calls : List Call) :
    ∃ w' dr v', encRun C02.prod pol tun calls = some (w', dr) ∧ w'.iov 0 = some v' ∧
      dr.length + v'.totalSize ≤ (inputOf calls).length + 1 + 2 * (((inputOf calls).length + 64008 - 1) / 64008) := by
  obtain ⟨w', v', dr, _, k1, k2, k3, _, _, _, _, k8, _⟩ := encRun_sim C02.prod C02.prod_params_valid pol tun calls
  refine ⟨w', dr, v', k1, k2, ?_⟩
  have hl := C02.length_bound_prod (inputOf calls)
  rw [← k8, List.length_append, k3.flat_length] at hl
  have := k3.size_eq
  unfold Iov.totalSize
  omega

/-! ### Non-vacuity -/

/-- drained ++ flattened after a run with the crate's test parameters ⟨3, 5⟩ -/
def out (pol : Policy) (calls : List Call) : Option (List UInt8) :=
  (encRun ⟨3, 5, 253⟩ pol ⟨[4096, 8192], 4096⟩ calls).bind fun x => (x.1.iov 0).map fun v => x.2 ++ x.1.flat v.slices

-- "12\xFE\xFD": `FE` is the last byte of a full first chunk, `FD` the first byte after the header;
-- borrowed slices kept (policy ⟨0,0⟩), split between FE and FD, drained in between
example : out ⟨0, 0⟩ [.feed .borrow [0x31, 0x32, 0xFE], .consume 9, .feed .borrow [0xFD]]
    = some [3, 0x31, 0x32, 0xFE, 1, 0, 0xFD] := by decide +kernel
example : out ⟨64, 256⟩ [.feed .copy [0x31], .feed .copy [], .feed .borrow [0x32, 0xFE, 0xFD], .advance 3]
    = some [3, 0x31, 0x32, 0xFE, 1, 0, 0xFD] := by decide +kernel
example : inputOf [.feed .copy [0x31], .feed .copy [], .feed .borrow [0x32, 0xFE, 0xFD], .advance 3]
    = inputOf [.feed .borrow [0x31, 0x32, 0xFE], .consume 9, .feed .borrow [0xFD]] := by decide

end Woodpile.Props.C02W

/-
C15, iterator protocol (track gen3): after every operation sequence, every script of
`Iterator` / `DoubleEndedIterator` / `ExactSizeIterator` calls on the iterator of the `Deref`
slice (`deque.iter()`) answers what it answers on the reference deque's contents (the harness'
op `iterscript` of family `sdeque`; the list cursor is `Model/IterScript.lean`).
-/
import Woodpile.Props.C15
import Woodpile.Proofs.IterScript

namespace Woodpile.Props.C15I
open Woodpile.SlidingDeque

theorem run_iter_script_refines_list {α : Type} (l : List α) (ops : List (Op α))
    (script : List Woodpile.IterScript.Step) :
    ∃ s' v, run (SDeque.ofList l) ops = some ((runRef l ops).1, s') ∧ s'.deref = some v ∧
      Woodpile.IterScript.run v script = Woodpile.IterScript.run (runRef l ops).2 script := by
  obtain ⟨s', h1, h2⟩ := Woodpile.Props.C15.run_deref_refines_list l ops
  exact ⟨s', _, h1, h2, rfl⟩

end Woodpile.Props.C15I

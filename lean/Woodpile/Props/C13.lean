/-
C13 — AtomicBaseTime snapshots are never torn and never go backwards, on any schedule.

Property theorems only (helper lemmas: `Woodpile/Proofs/AtomicBaseTime.lean`).
Model: `Woodpile.Abt` (`Model/AtomicBaseTime.lean`): the programs of `snapshot`, `update`,
`try_update` (one atomic access or lock operation per step, with the code's locations and
orderings), run by
* `SC`: the sequentially consistent interleaving machine (the floor), and
* `RA`: a release/acquire view machine (the target; DESIGN.md appendix A.3).
`Reachable` quantifies over every schedule (and, on `RA`, every reads-from choice), any
number of threads and any number of operations.  The sequence counter is a `Nat`: wrap-around
after 2^64 accepted updates is excluded.

Ghost state used in the statements (never read by the programs):
* `hist`: `hist[0]` is the epoch pair `(0, v0)`; the sequence store of an update appends that
  update's argument pair (`hist_is_accepted_updates`), so `hist` = epoch pair :: arguments of
  the accepted updates, in publication order;
* `log t`: the pairs returned by thread `t`'s snapshots, most recent first (`logOf`);
* `start t`: SC: the number of updates published when `t`'s current snapshot began;
  RA: `t`'s view of `sequence` when it began (the updates that happened-before it).
`chk` is `BASE_TIME_CHECK.check`; the only fact used about it is `chk 0 v0` (the epoch pair
of `BaseTime::new()` is valid).
-/
import Woodpile.Proofs.AtomicBaseTime

namespace Woodpile.Props.C13
open Woodpile.Abt

/-! ## Sequentially consistent machine -/

/-- The inductive invariant holds in every reachable state. -/
theorem sc_invariant {chk : Nat → Nat → Bool} {v0 : Nat} (h0 : chk 0 v0 = true) {s : SC.State}
    (h : SC.Reachable chk v0 s) : SC.Inv chk s :=
  SC.inv_reachable h0 h

/-- What the ghost history is: a step either leaves it alone or is the sequence store of a
thread inside `update`/`try_update`, which appends exactly that call's argument pair; the
argument pair of a call is fixed when the call starts. -/
theorem sc_hist_is_accepted_updates (chk : Nat → Nat → Bool) (s s' : SC.State) (l : Label)
    (h : SC.step chk s l = some s') :
    s'.hist = s.hist ∨
    ∃ t ts, l = .run t ts ∧ (s.thr t).pc = .aStSeq ∧ s'.hist = s.hist ++ [((s.thr t).ub, (s.thr t).uv)] :=
  SC.hist_step chk s s' l h

/-- Never torn: whenever a snapshot has returned `(base, bits)`, that pair is an element of
the history - the epoch pair or a pair passed as a unit to an accepted update. -/
theorem sc_snapshot_not_torn {chk : Nat → Nat → Bool} {v0 : Nat} (h0 : chk 0 v0 = true) {s : SC.State}
    (h : SC.Reachable chk v0 s) (t : Nat) (hpc : (s.thr t).pc = .retSnap) :
    ((s.thr t).base, (s.thr t).bits) ∈ s.hist := by
  obtain ⟨_, k, _, _, hk⟩ := ((sc_invariant h0 h).logs t).2.2 hpc
  exact List.mem_of_getElem? hk

/-- Every pair any thread's snapshots ever returned is in the history. -/
theorem sc_snapshot_in_history {chk : Nat → Nat → Bool} {v0 : Nat} (h0 : chk 0 v0 = true) {s : SC.State}
    (h : SC.Reachable chk v0 s) (t : Nat) (p : Nat × Nat) (hp : p ∈ s.log t) : p ∈ s.hist := by
  obtain ⟨k, _, hk⟩ := ((sc_invariant h0 h).logs t).2.1 p hp
  exact List.mem_of_getElem? hk

/-- The assertion in `snapshot` never fails. -/
theorem sc_no_panic {chk : Nat → Nat → Bool} {v0 : Nat} (h0 : chk 0 v0 = true) {s : SC.State}
    (h : SC.Reachable chk v0 s) (t : Nat) : (s.thr t).pc ≠ .sPanic := by
  intro hpc
  have := (sc_invariant h0 h).reader t
  simp [SC.RInv, hpc] at this

/-- Every pair in the history passed `check` (so every returned snapshot does). -/
theorem sc_history_valid {chk : Nat → Nat → Bool} {v0 : Nat} (h0 : chk 0 v0 = true) {s : SC.State}
    (h : SC.Reachable chk v0 s) (p : Nat × Nat) (hp : p ∈ s.hist) : chk p.1 p.2 = true :=
  (sc_invariant h0 h).chkAll p hp

/-- Recency: a returned snapshot is the pair of some sequence number `k` that is at least the
number of updates published before the snapshot began; hence its base time is at least that
of every update that completed before the snapshot began. -/
theorem sc_recent {chk : Nat → Nat → Bool} {v0 : Nat} (h0 : chk 0 v0 = true) {s : SC.State}
    (h : SC.Reachable chk v0 s) (t : Nat) (hpc : (s.thr t).pc = .retSnap) :
    (∃ k, s.start t ≤ k ∧ s.hist[k]? = some ((s.thr t).base, (s.thr t).bits)) ∧
    ∀ j p, j ≤ s.start t → s.hist[j]? = some p → p.1 ≤ (s.thr t).base := by
  have hI := sc_invariant h0 h
  obtain ⟨_, k, hk1, _, hk⟩ := (hI.logs t).2.2 hpc
  refine ⟨⟨k, hk1, hk⟩, ?_⟩
  intro j p hj hp
  exact sorted_get hI.sorted hp hk (by omega)

/-- Base times returned by successive snapshots of one thread never decrease
(`log t` lists them most recent first). -/
theorem sc_per_thread_monotone {chk : Nat → Nat → Bool} {v0 : Nat} (h0 : chk 0 v0 = true) {s : SC.State}
    (h : SC.Reachable chk v0 s) (t : Nat) :
    (s.log t).Pairwise (fun newer older => older.1 ≤ newer.1) :=
  ((sc_invariant h0 h).logs t).1

/-- Published base times never decrease. -/
theorem sc_published_monotone {chk : Nat → Nat → Bool} {v0 : Nat} (h0 : chk 0 v0 = true) {s : SC.State}
    (h : SC.Reachable chk v0 s) : s.hist.Pairwise (fun a b => a.1 ≤ b.1) :=
  (sc_invariant h0 h).sorted

/-- A stale update is ignored: when `advance_once` compares its argument with the current
pair, what it loaded is the base time of the most recently published pair, and if the
argument is older the call goes straight to the guard drop that returns `false`, leaving
memory and history untouched. -/
theorem sc_stale_update_ignored {chk : Nat → Nat → Bool} {v0 : Nat} (h0 : chk 0 v0 = true) {s s' : SC.State}
    (h : SC.Reachable chk v0 s) (t ts : Nat) (hpc : (s.thr t).pc = .aB)
    (cur : Nat × Nat) (hcur : s.hist.getLast? = some cur) (hstale : (s.thr t).ub < cur.1)
    (hs : SC.step chk s (.run t ts) = some s') :
    (s'.thr t).pc = .aUnlock false ∧ s'.mem = s.mem ∧ s'.hist = s.hist ∧
    (s'.thr t).feedUnit.pc = .retBool false :=
  SC.stale_ignored (sc_invariant h0 h) t ts hpc cur hcur hstale hs

end Woodpile.Props.C13

namespace Woodpile.Props.C13
open Woodpile.Abt

/-! Non-vacuity (SC): with `check b v := v = b + 100` and epoch voucher `100`, the schedule
"thread 0 runs `update (5, 105)` to completion while thread 1's snapshot, started first, reads
the sequence before and after" reaches a state where the reader retried once, returned the
new pair, and a stale `try_update (3, 103)` by thread 2 was ignored. -/
example :
    (SC.run (fun b v => v == b + 100) (SC.init 100)
      [.start 1 .snapshot, .run 1 0, .start 0 (.update 5 105), .run 0 0, .run 0 0, .run 0 0, .run 0 0,
       .run 0 0, .run 0 0, .run 0 0, .run 0 0, .run 1 0, .run 1 0, .run 1 0, .run 1 0, .run 1 0, .run 1 0,
       .start 2 (.tryUpdate 3 103), .run 2 0, .run 2 0, .run 2 0, .run 2 0, .run 2 0]).map
      (fun s => decide ((s.thr 1).pc = .retSnap ∧ (s.thr 1).base = 5 ∧ (s.thr 1).bits = 105 ∧
        s.hist = [(0, 100), (5, 105)] ∧ s.log 1 = [(5, 105)] ∧ (s.thr 0).pc = .retBool true ∧
        (s.thr 2).pc = .retBool false ∧ s.mem .seq = 1)) = some true := by decide

/-- The hypotheses of `sc_stale_update_ignored` are satisfiable: thread 2 above at `aB`. -/
example :
    (SC.run (fun b v => v == b + 100) (SC.init 100)
      [.start 0 (.update 5 105), .run 0 0, .run 0 0, .run 0 0, .run 0 0, .run 0 0, .run 0 0, .run 0 0, .run 0 0,
       .start 2 (.tryUpdate 3 103), .run 2 0, .run 2 0, .run 2 0]).map
      (fun s => decide ((s.thr 2).pc = .aB ∧ s.hist.getLast? = some (5, 105) ∧ (s.thr 2).ub < 5)) = some true := by
  decide

end Woodpile.Props.C13

/-
C13 — AtomicBaseTime snapshots are never torn and never go backwards, on any schedule.

Property theorems only (helper lemmas: `Woodpile/Proofs/AtomicBaseTime.lean`).
Model: `Woodpile.Abt` (`Model/AtomicBaseTime.lean`): the programs of `snapshot`, `update`,
`try_update` (one atomic access or lock operation per step, with the code's locations and
orderings), run by
* `SC`: the sequentially consistent interleaving machine (the floor), and
* `RA`: a release/acquire view machine (the target; DESIGN.md appendix A.3).
`Reachable` quantifies over every schedule (and, on `RA`, every reads-from choice), any
number of threads and any number of operations.  The sequence counter is a `Nat`: wrap-around
after 2^64 accepted updates is excluded.

Ghost state used in the statements (never read by the programs):
* `hist`: `hist[0]` is the epoch pair `(0, v0)`; the sequence store of an update appends that
  update's argument pair (`hist_is_accepted_updates`), so `hist` = epoch pair :: arguments of
  the accepted updates, in publication order;
* `log t`: the pairs returned by thread `t`'s snapshots, most recent first (`logOf`);
* `start t`: SC: the number of updates published when `t`'s current snapshot began;
  RA: `t`'s view of `sequence` when it began (the updates that happened-before it).
`chk` is `BASE_TIME_CHECK.check`; the only fact used about it is `chk 0 v0` (the epoch pair
of `BaseTime::new()` is valid).
-/
import Woodpile.Proofs.AtomicBaseTime
import Woodpile.Proofs.AbtRA

namespace Woodpile.Props.C13
open Woodpile.Abt

/-! ## Sequentially consistent machine -/

/-- The inductive invariant holds in every reachable state. -/
theorem sc_invariant {chk : Nat → Nat → Bool} {v0 : Nat} (h0 : chk 0 v0 = true) {s : SC.State}
    (h : SC.Reachable chk v0 s) : SC.Inv chk s :=
  SC.inv_reachable h0 h

/-- What the ghost history is: a step either leaves it alone or is the sequence store of a
thread inside `update`/`try_update`, which appends exactly that call's argument pair; the
argument pair of a call is fixed when the call starts. -/
theorem sc_hist_is_accepted_updates (chk : Nat → Nat → Bool) (s s' : SC.State) (l : Label)
    (h : SC.step chk s l = some s') :
    s'.hist = s.hist ∨
    ∃ t ts, l = .run t ts ∧ (s.thr t).pc = .aStSeq ∧ s'.hist = s.hist ++ [((s.thr t).ub, (s.thr t).uv)] :=
  SC.hist_step chk s s' l h

/-- Never torn: whenever a snapshot has returned `(base, bits)`, that pair is an element of
the history - the epoch pair or a pair passed as a unit to an accepted update. -/
theorem sc_snapshot_not_torn {chk : Nat → Nat → Bool} {v0 : Nat} (h0 : chk 0 v0 = true) {s : SC.State}
    (h : SC.Reachable chk v0 s) (t : Nat) (hpc : (s.thr t).pc = .retSnap) :
    ((s.thr t).base, (s.thr t).bits) ∈ s.hist := by
  obtain ⟨_, k, _, _, hk⟩ := ((sc_invariant h0 h).logs t).2.2 hpc
  exact List.mem_of_getElem? hk

/-- Every pair any thread's snapshots ever returned is in the history. -/
theorem sc_snapshot_in_history {chk : Nat → Nat → Bool} {v0 : Nat} (h0 : chk 0 v0 = true) {s : SC.State}
    (h : SC.Reachable chk v0 s) (t : Nat) (p : Nat × Nat) (hp : p ∈ s.log t) : p ∈ s.hist := by
  obtain ⟨k, _, hk⟩ := ((sc_invariant h0 h).logs t).2.1 p hp
  exact List.mem_of_getElem? hk

/-- The assertion in `snapshot` never fails. -/
theorem sc_no_panic {chk : Nat → Nat → Bool} {v0 : Nat} (h0 : chk 0 v0 = true) {s : SC.State}
    (h : SC.Reachable chk v0 s) (t : Nat) : (s.thr t).pc ≠ .sPanic := by
  intro hpc
  have := (sc_invariant h0 h).reader t
  simp [SC.RInv, hpc] at this

/-- Every pair in the history passed `check` (so every returned snapshot does). -/
theorem sc_history_valid {chk : Nat → Nat → Bool} {v0 : Nat} (h0 : chk 0 v0 = true) {s : SC.State}
    (h : SC.Reachable chk v0 s) (p : Nat × Nat) (hp : p ∈ s.hist) : chk p.1 p.2 = true :=
  (sc_invariant h0 h).chkAll p hp

/-- Recency: a returned snapshot is the pair of some sequence number `k` that is at least the
number of updates published before the snapshot began; hence its base time is at least that
of every update that completed before the snapshot began. -/
theorem sc_recent {chk : Nat → Nat → Bool} {v0 : Nat} (h0 : chk 0 v0 = true) {s : SC.State}
    (h : SC.Reachable chk v0 s) (t : Nat) (hpc : (s.thr t).pc = .retSnap) :
    (∃ k, s.start t ≤ k ∧ s.hist[k]? = some ((s.thr t).base, (s.thr t).bits)) ∧
    ∀ j p, j ≤ s.start t → s.hist[j]? = some p → p.1 ≤ (s.thr t).base := by
  have hI := sc_invariant h0 h
  obtain ⟨_, k, hk1, _, hk⟩ := (hI.logs t).2.2 hpc
  refine ⟨⟨k, hk1, hk⟩, ?_⟩
  intro j p hj hp
  exact sorted_get hI.sorted hp hk (by omega)

/-- Base times returned by successive snapshots of one thread never decrease
(`log t` lists them most recent first). -/
theorem sc_per_thread_monotone {chk : Nat → Nat → Bool} {v0 : Nat} (h0 : chk 0 v0 = true) {s : SC.State}
    (h : SC.Reachable chk v0 s) (t : Nat) :
    (s.log t).Pairwise (fun newer older => older.1 ≤ newer.1) :=
  ((sc_invariant h0 h).logs t).1

/-- Published base times never decrease. -/
theorem sc_published_monotone {chk : Nat → Nat → Bool} {v0 : Nat} (h0 : chk 0 v0 = true) {s : SC.State}
    (h : SC.Reachable chk v0 s) : s.hist.Pairwise (fun a b => a.1 ≤ b.1) :=
  (sc_invariant h0 h).sorted

/-- A stale update is ignored: when `advance_once` compares its argument with the current
pair, what it loaded is the base time of the most recently published pair, and if the
argument is older the call goes straight to the guard drop that returns `false`, leaving
memory and history untouched. -/
theorem sc_stale_update_ignored {chk : Nat → Nat → Bool} {v0 : Nat} (h0 : chk 0 v0 = true) {s s' : SC.State}
    (h : SC.Reachable chk v0 s) (t ts : Nat) (hpc : (s.thr t).pc = .aB)
    (cur : Nat × Nat) (hcur : s.hist.getLast? = some cur) (hstale : (s.thr t).ub < cur.1)
    (hs : SC.step chk s (.run t ts) = some s') :
    (s'.thr t).pc = .aUnlock false ∧ s'.mem = s.mem ∧ s'.hist = s.hist ∧
    (s'.thr t).feedUnit.pc = .retBool false :=
  SC.stale_ignored (sc_invariant h0 h) t ts hpc cur hcur hstale hs

/-! ## Release/acquire view machine

Same statements on `RA`: per-location message lists `(value, view)`, per-thread views, relaxed
loads read any message at or after the thread's view of the location, acquire loads join the
message's view, release stores attach the thread's view, lock / guard drop transfer views,
`sync` models synchronisation outside the object.  `start t` is the reader's view of
`sequence` when its snapshot began: an update "completed before the snapshot began" in the
happens-before sense iff the sequence message it published is at or below that view. -/

/-- The inductive invariant of DESIGN.md appendix A.3 holds in every reachable state:
(S) `sequence` messages are `0..n` with value = timestamp; (P) the pair of sequence `k` sits
at timestamp `⌈k/2⌉` of slot `k mod 2` and is the epoch pair or an accepted update's argument,
all valid, base times non-decreasing; (V1) the `sequence = k` message's view covers both slot
words of `k`; (V2) a slot message at timestamp `i ≥ 1` of slot `j` carries a view with
`sequence ≥ 2i - j - 1`; (W) only the lock holder appends, its view covers every message, slot
lengths exceed the published ones by the holder's progress; (R) per reader pc; plus
well-formedness of all views and the per-thread snapshot logs. -/
theorem ra_invariant {chk : Nat → Nat → Bool} {v0 : Nat} (h0 : chk 0 v0 = true) {s : RA.State}
    (h : RA.Reachable chk v0 s) : RA.Inv chk s :=
  RA.inv_reachable h0 h

/-- What the ghost history is on `RA` (as `sc_hist_is_accepted_updates`). -/
theorem ra_hist_is_accepted_updates (chk : Nat → Nat → Bool) (s s' : RA.State) (l : Label)
    (h : RA.step chk s l = some s') :
    s'.hist = s.hist ∨
    ∃ t ts, l = .run t ts ∧ (s.thr t).loc.pc = .aStSeq ∧
      s'.hist = s.hist ++ [((s.thr t).loc.ub, (s.thr t).loc.uv)] :=
  RA.hist_step chk s s' l h

/-- Never torn under release/acquire: a returned snapshot is an element of the history. -/
theorem ra_snapshot_not_torn {chk : Nat → Nat → Bool} {v0 : Nat} (h0 : chk 0 v0 = true) {s : RA.State}
    (h : RA.Reachable chk v0 s) (t : Nat) (hpc : (s.thr t).loc.pc = .retSnap) :
    ((s.thr t).loc.base, (s.thr t).loc.bits) ∈ s.hist := by
  obtain ⟨_, k, _, _, hk⟩ := ((ra_invariant h0 h).t t).lg.2.2 hpc
  exact List.mem_of_getElem? hk

theorem ra_snapshot_in_history {chk : Nat → Nat → Bool} {v0 : Nat} (h0 : chk 0 v0 = true) {s : RA.State}
    (h : RA.Reachable chk v0 s) (t : Nat) (p : Nat × Nat) (hp : p ∈ s.log t) : p ∈ s.hist := by
  obtain ⟨k, _, hk⟩ := ((ra_invariant h0 h).t t).lg.2.1 p hp
  exact List.mem_of_getElem? hk

/-- The assertion in `snapshot` never fails under release/acquire. -/
theorem ra_no_panic {chk : Nat → Nat → Bool} {v0 : Nat} (h0 : chk 0 v0 = true) {s : RA.State}
    (h : RA.Reachable chk v0 s) (t : Nat) : (s.thr t).loc.pc ≠ .sPanic := by
  intro hpc
  have := ((ra_invariant h0 h).t t).rd
  simp [RA.RInv, hpc] at this

theorem ra_history_valid {chk : Nat → Nat → Bool} {v0 : Nat} (h0 : chk 0 v0 = true) {s : RA.State}
    (h : RA.Reachable chk v0 s) (p : Nat × Nat) (hp : p ∈ s.hist) : chk p.1 p.2 = true :=
  (ra_invariant h0 h).g.chkAll p hp

/-- `start t` really is the reader's view of `sequence` when the call began. -/
theorem ra_start_records_view (chk : Nat → Nat → Bool) (s s' : RA.State) (t : Nat) (op : Op)
    (h : RA.step chk s (.start t op) = some s') : s'.start t = (s.thr t).view .seq := by
  simp only [RA.step] at h
  split at h
  · simp at h; subst h; simp
  · simp at h

/-- Recency under release/acquire: a returned snapshot is the pair of a sequence number `k` at
or above the reader's view of `sequence` when the snapshot began, so its base time is at least
that of every update whose publication happened-before the start of the snapshot. -/
theorem ra_recent {chk : Nat → Nat → Bool} {v0 : Nat} (h0 : chk 0 v0 = true) {s : RA.State}
    (h : RA.Reachable chk v0 s) (t : Nat) (hpc : (s.thr t).loc.pc = .retSnap) :
    (∃ k, s.start t ≤ k ∧ s.hist[k]? = some ((s.thr t).loc.base, (s.thr t).loc.bits)) ∧
    ∀ j p, j ≤ s.start t → s.hist[j]? = some p → p.1 ≤ (s.thr t).loc.base := by
  have hI := ra_invariant h0 h
  obtain ⟨_, k, hk1, _, hk⟩ := (hI.t t).lg.2.2 hpc
  refine ⟨⟨k, hk1, hk⟩, ?_⟩
  intro j p hj hp
  exact sorted_get hI.g.sorted hp hk (by omega)

theorem ra_per_thread_monotone {chk : Nat → Nat → Bool} {v0 : Nat} (h0 : chk 0 v0 = true) {s : RA.State}
    (h : RA.Reachable chk v0 s) (t : Nat) :
    (s.log t).Pairwise (fun newer older => older.1 ≤ newer.1) :=
  ((ra_invariant h0 h).t t).lg.1

theorem ra_published_monotone {chk : Nat → Nat → Bool} {v0 : Nat} (h0 : chk 0 v0 = true) {s : RA.State}
    (h : RA.Reachable chk v0 s) : s.hist.Pairwise (fun a b => a.1 ≤ b.1) :=
  (ra_invariant h0 h).g.sorted

/-- A stale update is ignored under release/acquire, whichever message the (acquire) load of
the current base word is allowed to read: the holder's view covers every message, so it reads
the most recently published base time. -/
theorem ra_stale_update_ignored {chk : Nat → Nat → Bool} {v0 : Nat} (h0 : chk 0 v0 = true) {s s' : RA.State}
    (h : RA.Reachable chk v0 s) (t ts : Nat) (hpc : (s.thr t).loc.pc = .aB)
    (cur : Nat × Nat) (hcur : s.hist.getLast? = some cur) (hstale : (s.thr t).loc.ub < cur.1)
    (hs : RA.step chk s (.run t ts) = some s') :
    (s'.thr t).loc.pc = .aUnlock false ∧ s'.mem = s.mem ∧ s'.hist = s.hist ∧
    (s'.thr t).loc.feedUnit.pc = .retBool false :=
  RA.stale_ignored (ra_invariant h0 h) t ts hpc cur hcur hstale hs

end Woodpile.Props.C13

namespace Woodpile.Props.C13
open Woodpile.Abt

/-! Non-vacuity (SC): with `check b v := v = b + 100` and epoch voucher `100`, the schedule
"thread 0 runs `update (5, 105)` to completion while thread 1's snapshot, started first, reads
the sequence before and after" reaches a state where the reader retried once, returned the
new pair, and a stale `try_update (3, 103)` by thread 2 was ignored. -/
example :
    (SC.run (fun b v => v == b + 100) (SC.init 100)
      [.start 1 .snapshot, .run 1 0, .start 0 (.update 5 105), .run 0 0, .run 0 0, .run 0 0, .run 0 0,
       .run 0 0, .run 0 0, .run 0 0, .run 0 0, .run 1 0, .run 1 0, .run 1 0, .run 1 0, .run 1 0, .run 1 0,
       .start 2 (.tryUpdate 3 103), .run 2 0, .run 2 0, .run 2 0, .run 2 0, .run 2 0]).map
      (fun s => decide ((s.thr 1).pc = .retSnap ∧ (s.thr 1).base = 5 ∧ (s.thr 1).bits = 105 ∧
        s.hist = [(0, 100), (5, 105)] ∧ s.log 1 = [(5, 105)] ∧ (s.thr 0).pc = .retBool true ∧
        (s.thr 2).pc = .retBool false ∧ s.mem .seq = 1)) = some true := by decide

/-- The hypotheses of `sc_stale_update_ignored` are satisfiable: thread 2 above at `aB`. -/
example :
    (SC.run (fun b v => v == b + 100) (SC.init 100)
      [.start 0 (.update 5 105), .run 0 0, .run 0 0, .run 0 0, .run 0 0, .run 0 0, .run 0 0, .run 0 0, .run 0 0,
       .start 2 (.tryUpdate 3 103), .run 2 0, .run 2 0, .run 2 0]).map
      (fun s => decide ((s.thr 2).pc = .aB ∧ s.hist.getLast? = some (5, 105) ∧ (s.thr 2).ub < 5)) = some true := by
  decide

end Woodpile.Props.C13

namespace Woodpile.Props.C13
open Woodpile.Abt

/-! Non-vacuity (RA): the reader (thread 1) reads sequence message 0; the writer (thread 0)
then publishes `(5, 105)`; the reader reads both (unchanged) words of slot 0, reads the NEW
sequence message at its re-check (its view allowed 0 or 1), retries on slot 1 and returns the
new pair; a second reader (thread 2, view still 0) legitimately reads the stale sequence
message 0 afterwards and returns the epoch pair - allowed, since nothing happened-before it. -/
example :
    (RA.run (fun b v => v == b + 100) (RA.init 100)
      [.start 1 .snapshot, .run 1 0, .start 0 (.update 5 105), .run 0 0, .run 0 0, .run 0 0, .run 0 0,
       .run 0 0, .run 0 0, .run 0 0, .run 0 0, .run 1 0, .run 1 0, .run 1 1, .run 1 1, .run 1 1, .run 1 1,
       .start 2 .snapshot, .run 2 0, .run 2 0, .run 2 0, .run 2 0]).map
      (fun s => decide ((s.thr 1).loc.pc = .retSnap ∧ (s.thr 1).loc.base = 5 ∧ (s.thr 1).loc.bits = 105 ∧
        s.hist = [(0, 100), (5, 105)] ∧ s.log 1 = [(5, 105)] ∧ (s.thr 0).loc.pc = .retBool true ∧
        (s.thr 2).loc.pc = .retSnap ∧ (s.thr 2).loc.base = 0 ∧ s.start 2 = 0 ∧
        (s.mem .seq).length = 2)) = some true := by decide

end Woodpile.Props.C13

namespace Woodpile.Props.C13
open Woodpile.Abt

/-! ## Completed calls (track abt2, claim-audit gap 7)

The theorems above speak of *published* history entries.  The ones below tie the history to
*calls*: a call that was accepted really is in the history at an index its caller's view covers
when it returns; a call that was ignored has seen a strictly newer published pair; and a
snapshot whose start has seen an update's return reflects it.

Two forms.  (1) State form, at the program counters `aUnlock r` (decided, about to drop the
guard) and `retBool true`.  (2) Call form: `SC.GReachable` / `RA.GReachable` run the very same
`step` function next to pure bookkeeping (`Mach.gnext`: a step counter, the operation each
thread has in progress, and one `CallRec` per completed call with the caller's view of
`sequence` at the start and at the return, the step numbers of its start and of its last step,
and its result).  `*_bookkeeping_exact` shows the bookkeeping neither removes nor adds machine
behaviours, so the call-form theorems quantify over every schedule / reads-from choice / number
of threads and operations, exactly like `Reachable`. -/

/-! ### Sequentially consistent machine -/

/-- Accept direction, one step: at the comparison in `advance_once`, an argument whose base time
is not older than the most recently published one is NOT ignored: the call proceeds to the
slot stores when the pair is valid (and to the panic path when it is not), memory and history
untouched by the comparison itself.  (While the lock is held only the holder appends to `hist`
- `sc_hist_is_accepted_updates` + `sc_invariant.lock` - so "most recently published when it
compares" is "most recently published when it took the lock".) -/
theorem sc_fresh_update_accepted {chk : Nat → Nat → Bool} {v0 : Nat} (h0 : chk 0 v0 = true) {s s' : SC.State}
    (h : SC.Reachable chk v0 s) (t ts : Nat) (hpc : (s.thr t).pc = .aB)
    (cur : Nat × Nat) (hcur : s.hist.getLast? = some cur) (hfresh : cur.1 ≤ (s.thr t).ub)
    (hs : SC.step chk s (.run t ts) = some s') :
    (s'.thr t).pc = (if chk (s.thr t).ub (s.thr t).uv then .aStB else .aUnlockPanic) ∧
    s'.mem = s.mem ∧ s'.hist = s.hist :=
  SC.fresh_accepted (sc_invariant h0 h) t ts hpc cur hcur hfresh hs

/-- ... and from there the call's remaining four steps (two slot stores, the sequence store,
the guard drop) are enabled in ANY state; taking them returns `true` with exactly the call's
pair appended to the history and the lock released. -/
theorem sc_accepted_update_completes (chk : Nat → Nat → Bool) (s : SC.State) (t : Nat)
    (hpc : (s.thr t).pc = .aStB) :
    ∃ s', SC.run chk s (List.replicate 4 (.run t 0)) = some s' ∧ (s'.thr t).pc = .retBool true ∧
      s'.hist = s.hist ++ [((s.thr t).ub, (s.thr t).uv)] ∧ s'.held = none :=
  SC.accepted_completes chk s t hpc

/-- A call that returned `true` (or has decided to): its argument pair is in the history, at an
index not beyond the number of updates published so far. -/
theorem sc_update_completed {chk : Nat → Nat → Bool} {v0 : Nat} (h0 : chk 0 v0 = true) {s : SC.State}
    (h : SC.Reachable chk v0 s) (t : Nat) (hpc : (s.thr t).pc = .retBool true ∨ (s.thr t).pc = .aUnlock true) :
    ∃ j, j ≤ s.mem .seq ∧ s.hist[j]? = some ((s.thr t).ub, (s.thr t).uv) := by
  have := (SC.ok_reachable h0 h).2 t
  rcases hpc with hpc | hpc <;> simpa [UInv, hpc] using this

/-- A call that was ignored (it is about to drop the guard and return `false` from
`advance_once`): a pair with a strictly newer base time is already published. -/
theorem sc_update_ignored_covered {chk : Nat → Nat → Bool} {v0 : Nat} (h0 : chk 0 v0 = true) {s : SC.State}
    (h : SC.Reachable chk v0 s) (t : Nat) (hpc : (s.thr t).pc = .aUnlock false) :
    ∃ j p, j ≤ s.mem .seq ∧ s.hist[j]? = some p ∧ (s.thr t).ub < p.1 := by
  have := (SC.ok_reachable h0 h).2 t
  simpa [UInv, hpc] using this

/-- The bookkeeping layer is exact: the machine states it reaches are precisely the reachable ones. -/
theorem sc_bookkeeping_exact (chk : Nat → Nat → Bool) (v0 : Nat) (s : SC.State) :
    SC.Reachable chk v0 s ↔ ∃ g : (SC.mach chk).GState, SC.GReachable chk v0 g ∧ g.s = s :=
  SC.greachable_iff chk v0 s

/-- Every completed call, on every execution (`Mach.RecOK`, with `hist` the history now - it
only ever grows): `vStart ≤ vRet`, started before it ended, and
* `snapshot` returned a pair `hist[k]` with `vStart ≤ k ≤ vRet`, and never panicked;
* `update(b, v)` that returned: `∃ j ≤ vRet`, `hist[j]` is its own pair `(b, v)` if
  `advance_once` said `true`, a pair with base time `> b` if it said `false` (so: every pair
  up to `vRet` having base ≤ `b` forces acceptance - the accept direction, call form);
* `try_update(b, v) = true`: `hist[j] = (b, v)` for some `j ≤ vRet`;
* a call that panicked was given a pair that fails the voucher check. -/
theorem sc_calls_sound {chk : Nat → Nat → Bool} {v0 : Nat} (h0 : chk 0 v0 = true) {g : (SC.mach chk).GState}
    (h : SC.GReachable chk v0 g) (R : CallRec) (hR : R ∈ g.done) :
    Mach.RecOK chk g.s.hist R :=
  ((SC.ginv_reachable h0 h).recs R hR).1

/-- On SC "completed before" is real time: if `U`'s last step precedes `S`'s start label,
everything `U` had seen published, `S` sees at its start. -/
theorem sc_real_time_order {chk : Nat → Nat → Bool} {v0 : Nat} (h0 : chk 0 v0 = true) {g : (SC.mach chk).GState}
    (h : SC.GReachable chk v0 g) (U S : CallRec) (hU : U ∈ g.done) (hS : S ∈ g.done)
    (hlt : U.tRet < S.tStart) : U.vRet ≤ S.vStart :=
  (SC.ginv_reachable h0 h).pairs U hU S hS (Or.inr trivial) hlt

/-- END TO END (SC): a snapshot is at least as recent as every update that completed before it
began.  `U` is an `update(b, v)` call that returned (it did not panic, i.e. its voucher was
valid or it was stale), or a `try_update(b, v)` that returned `true`; `S` is a `snapshot` call,
by any thread, whose `.start` came after `U`'s last step; then `S` returned a base time ≥ `b`. -/
theorem sc_completed_update_visible {chk : Nat → Nat → Bool} {v0 : Nat} (h0 : chk 0 v0 = true)
    {g : (SC.mach chk).GState} (h : SC.GReachable chk v0 g) (U S : CallRec) (hU : U ∈ g.done) (hS : S ∈ g.done)
    (b v sb sv : Nat)
    (hUop : (U.op = .update b v ∧ ∃ r, U.res = .bool r) ∨ (U.op = .tryUpdate b v ∧ U.res = .bool true))
    (hSop : S.op = .snapshot) (hSres : S.res = .snap sb sv) (hlt : U.tRet < S.tStart) : b ≤ sb :=
  Mach.update_then_snapshot (SC.laws chk) (SC.ginv_reachable h0 h) U S hU hS b v sb sv hUop hSop hSres
    (sc_real_time_order h0 h U S hU hS hlt)

end Woodpile.Props.C13

namespace Woodpile.Props.C13
open Woodpile.Abt

/-! ### Release/acquire view machine

There is no global time on this machine: "call `U` returned before call `S` began" is
happens-before, i.e. view inclusion on `sequence` - `U.vRet ≤ S.vStart`, the view of `U`'s
caller when `U` returned is included in the view of `S`'s caller when `S` began.  That holds
when both are calls of one thread in program order (`ra_program_order`), and whenever the
views were transferred by synchronisation: every step only grows views
(`ra_view_monotone`, `ra_view_monotone_run`), a `sync t u` step - a join, a channel, any
release/acquire pair outside the object - makes `t`'s view include `u`'s
(`ra_sync_transfers_view`), and so do the writer mutex's guard drop / acquisition. -/

/-- Accept direction, one step (as `sc_fresh_update_accepted`), whichever message of the current
slot's base word the acquire load is allowed to read. -/
theorem ra_fresh_update_accepted {chk : Nat → Nat → Bool} {v0 : Nat} (h0 : chk 0 v0 = true) {s s' : RA.State}
    (h : RA.Reachable chk v0 s) (t ts : Nat) (hpc : (s.thr t).loc.pc = .aB)
    (cur : Nat × Nat) (hcur : s.hist.getLast? = some cur) (hfresh : cur.1 ≤ (s.thr t).loc.ub)
    (hs : RA.step chk s (.run t ts) = some s') :
    (s'.thr t).loc.pc = (if chk (s.thr t).loc.ub (s.thr t).loc.uv then .aStB else .aUnlockPanic) ∧
    s'.mem = s.mem ∧ s'.hist = s.hist :=
  RA.fresh_accepted (ra_invariant h0 h) t ts hpc cur hcur hfresh hs

/-- ... and from there the call's remaining four steps are enabled in ANY state and return
`true` with exactly the call's pair appended to the history and the lock released. -/
theorem ra_accepted_update_completes (chk : Nat → Nat → Bool) (s : RA.State) (t : Nat)
    (hpc : (s.thr t).loc.pc = .aStB) :
    ∃ s', RA.run chk s (List.replicate 4 (.run t 0)) = some s' ∧ (s'.thr t).loc.pc = .retBool true ∧
      s'.hist = s.hist ++ [((s.thr t).loc.ub, (s.thr t).loc.uv)] ∧ s'.held = none :=
  RA.accepted_completes chk s t hpc

/-- A completed accepted call: its pair is in the history at an index covered by the thread's
own view of `sequence` at return (so everything that later includes this view sees it). -/
theorem ra_update_completed {chk : Nat → Nat → Bool} {v0 : Nat} (h0 : chk 0 v0 = true) {s : RA.State}
    (h : RA.Reachable chk v0 s) (t : Nat)
    (hpc : (s.thr t).loc.pc = .retBool true ∨ (s.thr t).loc.pc = .aUnlock true) :
    ∃ j, j ≤ (s.thr t).view .seq ∧ s.hist[j]? = some ((s.thr t).loc.ub, (s.thr t).loc.uv) := by
  have := (RA.ok_reachable h0 h).2 t
  rcases hpc with hpc | hpc <;> simpa [UInv, hpc] using this

/-- An ignored call: a pair with a strictly newer base time is published at an index covered by
the thread's own view of `sequence`. -/
theorem ra_update_ignored_covered {chk : Nat → Nat → Bool} {v0 : Nat} (h0 : chk 0 v0 = true) {s : RA.State}
    (h : RA.Reachable chk v0 s) (t : Nat) (hpc : (s.thr t).loc.pc = .aUnlock false) :
    ∃ j p, j ≤ (s.thr t).view .seq ∧ s.hist[j]? = some p ∧ (s.thr t).loc.ub < p.1 := by
  have := (RA.ok_reachable h0 h).2 t
  simpa [UInv, hpc] using this

/-- Every step only grows every thread's view of every location. -/
theorem ra_view_monotone {chk : Nat → Nat → Bool} {v0 : Nat} (h0 : chk 0 v0 = true) {s s' : RA.State}
    (h : RA.Reachable chk v0 s) (l : Label) (hs : RA.step chk s l = some s') (t : Nat) (loc : Loc) :
    (s.thr t).view loc ≤ (s'.thr t).view loc :=
  (RA.step_frame (ra_invariant h0 h) l hs).views t loc

theorem ra_view_monotone_run {chk : Nat → Nat → Bool} {v0 : Nat} (h0 : chk 0 v0 = true) {s s' : RA.State}
    (h : RA.Reachable chk v0 s) (ls : List Label) (hs : RA.run chk s ls = some s') (t : Nat) (loc : Loc) :
    (s.thr t).view loc ≤ (s'.thr t).view loc :=
  RA.views_run ls s s' (ra_invariant h0 h) hs t loc

/-- `sync t u`: afterwards `t`'s view includes `u`'s. -/
theorem ra_sync_transfers_view {chk : Nat → Nat → Bool} {v0 : Nat} (h0 : chk 0 v0 = true) {s s' : RA.State}
    (h : RA.Reachable chk v0 s) (t u : Nat) (hs : RA.step chk s (.sync t u) = some s') (loc : Loc) :
    (s.thr u).view loc ≤ (s'.thr t).view loc :=
  ((RA.step_frame (ra_invariant h0 h) _ hs).sync t u rfl).2.2 loc

/-- The bookkeeping layer is exact on the view machine too. -/
theorem ra_bookkeeping_exact (chk : Nat → Nat → Bool) (v0 : Nat) (s : RA.State) :
    RA.Reachable chk v0 s ↔ ∃ g : (RA.mach chk).GState, RA.GReachable chk v0 g ∧ g.s = s :=
  RA.greachable_iff chk v0 s

/-- Every completed call on every execution of the view machine (see `sc_calls_sound`; `vStart`,
`vRet` are the caller's views of `sequence`). -/
theorem ra_calls_sound {chk : Nat → Nat → Bool} {v0 : Nat} (h0 : chk 0 v0 = true) {g : (RA.mach chk).GState}
    (h : RA.GReachable chk v0 g) (R : CallRec) (hR : R ∈ g.done) :
    Mach.RecOK chk g.s.hist R :=
  ((RA.ginv_reachable h0 h).recs R hR).1

/-- A completed call's view at return stays included in its thread's view for ever. -/
theorem ra_return_view_kept {chk : Nat → Nat → Bool} {v0 : Nat} (h0 : chk 0 v0 = true) {g : (RA.mach chk).GState}
    (h : RA.GReachable chk v0 g) (R : CallRec) (hR : R ∈ g.done) :
    R.vRet ≤ (g.s.thr R.tid).view .seq :=
  ((RA.ginv_reachable h0 h).recs R hR).2.2 R.tid (Or.inl rfl)

/-- Program order: for two calls of one thread, the earlier one's view at return is included
in the later one's view at its start. -/
theorem ra_program_order {chk : Nat → Nat → Bool} {v0 : Nat} (h0 : chk 0 v0 = true) {g : (RA.mach chk).GState}
    (h : RA.GReachable chk v0 g) (U S : CallRec) (hU : U ∈ g.done) (hS : S ∈ g.done)
    (hsame : U.tid = S.tid) (hlt : U.tRet < S.tStart) : U.vRet ≤ S.vStart :=
  (RA.ginv_reachable h0 h).pairs U hU S hS (Or.inl hsame) hlt

/-- END TO END (release/acquire): a snapshot is at least as recent as every update that
completed before it began, in happens-before order.  `U` is an `update(b, v)` call that
returned (it did not panic: its voucher was valid, or it was stale), or a `try_update(b, v)`
that returned `true`; `S` is a `snapshot` call whose caller's view of `sequence` at its start
includes `U`'s caller's view at `U`'s return; then `S` returned a base time ≥ `b`. -/
theorem ra_update_then_snapshot {chk : Nat → Nat → Bool} {v0 : Nat} (h0 : chk 0 v0 = true)
    {g : (RA.mach chk).GState} (h : RA.GReachable chk v0 g) (U S : CallRec) (hU : U ∈ g.done) (hS : S ∈ g.done)
    (b v sb sv : Nat)
    (hUop : (U.op = .update b v ∧ ∃ r, U.res = .bool r) ∨ (U.op = .tryUpdate b v ∧ U.res = .bool true))
    (hSop : S.op = .snapshot) (hSres : S.res = .snap sb sv) (hb : U.vRet ≤ S.vStart) : b ≤ sb :=
  Mach.update_then_snapshot (RA.laws chk) (RA.ginv_reachable h0 h) U S hU hS b v sb sv hUop hSop hSres hb

/-- ... in particular for a thread's own earlier update (program order). -/
theorem ra_own_update_visible {chk : Nat → Nat → Bool} {v0 : Nat} (h0 : chk 0 v0 = true)
    {g : (RA.mach chk).GState} (h : RA.GReachable chk v0 g) (U S : CallRec) (hU : U ∈ g.done) (hS : S ∈ g.done)
    (b v sb sv : Nat)
    (hUop : (U.op = .update b v ∧ ∃ r, U.res = .bool r) ∨ (U.op = .tryUpdate b v ∧ U.res = .bool true))
    (hSop : S.op = .snapshot) (hSres : S.res = .snap sb sv) (hsame : U.tid = S.tid) (hlt : U.tRet < S.tStart) :
    b ≤ sb :=
  ra_update_then_snapshot h0 h U S hU hS b v sb sv hUop hSop hSres (ra_program_order h0 h U S hU hS hsame hlt)

end Woodpile.Props.C13

namespace Woodpile.Props.C13
open Woodpile.Abt

/-! Non-vacuity (completed calls, RA): thread 0 completes `update (5, 105)`; thread 2's stale
`try_update (3, 103)` is ignored; thread 1 synchronises with thread 0 (`sync 1 0`) and then
snapshots: its start view (1) includes the update's return view (1), the hypotheses of
`ra_update_then_snapshot` hold, and it returns `(5, 105)`; thread 3, which never synchronised,
has start view 0, is NOT covered by the theorem and legitimately returns the epoch pair;
thread 0's own later snapshot is covered through program order (`ra_own_update_visible`). -/
example :
    ((RA.mach (fun b v => v == b + 100)).grun ((RA.mach (fun b v => v == b + 100)).ginit (RA.init 100))
      [.start 0 (.update 5 105), .run 0 0, .run 0 0, .run 0 0, .run 0 0, .run 0 0, .run 0 0, .run 0 0, .run 0 0,
       .start 2 (.tryUpdate 3 103), .run 2 0, .run 2 1, .run 2 1, .run 2 1, .run 2 0,
       .sync 1 0, .start 1 .snapshot, .run 1 1, .run 1 1, .run 1 1, .run 1 1,
       .start 3 .snapshot, .run 3 0, .run 3 0, .run 3 0, .run 3 0,
       .start 0 .snapshot, .run 0 1, .run 0 1, .run 0 1, .run 0 1]).map
      (fun g => decide (g.done =
        [⟨0, .snapshot, 1, 1, 26, 30, .snap 5 105⟩, ⟨3, .snapshot, 0, 0, 21, 25, .snap 0 100⟩,
         ⟨1, .snapshot, 1, 1, 16, 20, .snap 5 105⟩, ⟨2, .tryUpdate 3 103, 0, 1, 9, 14, .bool false⟩,
         ⟨0, .update 5 105, 0, 1, 0, 8, .bool true⟩] ∧ g.s.hist = [(0, 100), (5, 105)])) = some true := by
  decide

/-- Non-vacuity (completed calls, SC): the same labels on the SC machine; every snapshot that
started after the update's last step (step 8) returns `(5, 105)` (`sc_completed_update_visible`). -/
example :
    ((SC.mach (fun b v => v == b + 100)).grun ((SC.mach (fun b v => v == b + 100)).ginit (SC.init 100))
      [.start 0 (.update 5 105), .run 0 0, .run 0 0, .run 0 0, .run 0 0, .run 0 0, .run 0 0, .run 0 0, .run 0 0,
       .start 2 (.tryUpdate 3 103), .run 2 0, .run 2 0, .run 2 0, .run 2 0, .run 2 0,
       .start 1 .snapshot, .run 1 0, .run 1 0, .run 1 0, .run 1 0]).map
      (fun g => decide (g.done =
        [⟨1, .snapshot, 1, 1, 15, 19, .snap 5 105⟩, ⟨2, .tryUpdate 3 103, 1, 1, 9, 14, .bool false⟩,
         ⟨0, .update 5 105, 0, 1, 0, 8, .bool true⟩] ∧ g.s.hist = [(0, 100), (5, 105)])) = some true := by
  decide

/-- The hypotheses of `*_fresh_update_accepted` / `*_update_ignored_covered` / `*_update_completed`
are satisfiable: a fresh valid update at `aB`; an ignored one at `aUnlock false`; a completed one. -/
example :
    (RA.run (fun b v => v == b + 100) (RA.init 100)
      [.start 0 (.update 5 105), .run 0 0, .run 0 0, .run 0 0]).map
      (fun s => decide ((s.thr 0).loc.pc = .aB ∧ s.hist.getLast? = some (0, 100) ∧ 0 ≤ (s.thr 0).loc.ub)) = some true := by
  decide
example :
    (RA.run (fun b v => v == b + 100) (RA.init 100)
      [.start 0 (.update 5 105), .run 0 0, .run 0 0, .run 0 0, .run 0 0, .run 0 0, .run 0 0, .run 0 0, .run 0 0,
       .start 2 (.tryUpdate 3 103), .run 2 0, .run 2 1, .run 2 1, .run 2 1]).map
      (fun s => decide ((s.thr 2).loc.pc = .aUnlock false ∧ (s.thr 0).loc.pc = .retBool true ∧
        (s.thr 0).view .seq = 1)) = some true := by
  decide
example :
    (SC.run (fun b v => v == b + 100) (SC.init 100)
      [.start 0 (.update 5 105), .run 0 0, .run 0 0, .run 0 0, .run 0 0]).map
      (fun s => decide ((s.thr 0).pc = .aStB)) = some true := by
  decide

end Woodpile.Props.C13

namespace Woodpile.Props.C13
open Woodpile.Abt

/-- Synchronises-with, call form.  `U` is a call its thread had completed when thread `t`
synchronised with that thread (`sync t U.tid`, step number `g0.clock`); `S` is any call of `t`
that starts after that step, in any continuation `ls` of the execution: then `S`'s start view
includes `U`'s return view. -/
theorem ra_sync_order {chk : Nat → Nat → Bool} {v0 : Nat} (h0 : chk 0 v0 = true) {g0 g1 g2 : (RA.mach chk).GState}
    (h : RA.GReachable chk v0 g0) (U : CallRec) (hU : U ∈ g0.done) (t : Nat)
    (hsync : (RA.mach chk).gstep g0 (.sync t U.tid) = some g1) (ls : List Label)
    (hrun : (RA.mach chk).grun g1 ls = some g2)
    (S : CallRec) (hS : S ∈ g2.done) (hSt : S.tid = t) (hlater : g0.clock < S.tStart) : U.vRet ≤ S.vStart :=
  Mach.sync_order (RA.laws chk) (RA.ginv_reachable h0 h) U hU t hsync ls hrun S hS hSt hlater

/-- END TO END across threads: thread `U.tid` completed `update(b, v)` (or `try_update(b, v) = true`),
then thread `t` synchronised with it (join, channel, …), then `t` called `snapshot`: that
snapshot returns a base time ≥ `b`. -/
theorem ra_synced_update_visible {chk : Nat → Nat → Bool} {v0 : Nat} (h0 : chk 0 v0 = true)
    {g0 g1 g2 : (RA.mach chk).GState} (h : RA.GReachable chk v0 g0) (U : CallRec) (hU : U ∈ g0.done) (t : Nat)
    (hsync : (RA.mach chk).gstep g0 (.sync t U.tid) = some g1) (ls : List Label)
    (hrun : (RA.mach chk).grun g1 ls = some g2)
    (S : CallRec) (hS : S ∈ g2.done) (hSt : S.tid = t) (hlater : g0.clock < S.tStart) (b v sb sv : Nat)
    (hUop : (U.op = .update b v ∧ ∃ r, U.res = .bool r) ∨ (U.op = .tryUpdate b v ∧ U.res = .bool true))
    (hSop : S.op = .snapshot) (hSres : S.res = .snap sb sv) : b ≤ sb := by
  have hg2 : RA.GReachable chk v0 g2 := by
    obtain ⟨l0, hl0⟩ := h
    refine ⟨l0 ++ (.sync t U.tid :: ls), ?_⟩
    rw [Mach.grun_append, hl0]
    simp only [Mach.grun, hsync]
    exact hrun
  have hU2 : U ∈ g2.done :=
    Mach.done_mono _ ls g1 g2 hrun U (Mach.done_mono_step _ g0 g1 _ hsync U hU)
  exact ra_update_then_snapshot h0 hg2 U S hU2 hS b v sb sv hUop hSop hSres
    (ra_sync_order h0 h U hU t hsync ls hrun S hS hSt hlater)

end Woodpile.Props.C13

namespace Woodpile.Props.C13
open Woodpile.Abt

/-! Non-vacuity of `ra_sync_order` / `ra_synced_update_visible`: in the execution of the example
above, `g0` = the state after the first 15 labels has the completed `update (5, 105)` of thread 0
in `done` and `clock = 15`; the next label is `sync 1 0`; thread 1's snapshot starts at step
16 > 15 (and, in that example, returns `(5, 105)`). -/
example :
    ((RA.mach (fun b v => v == b + 100)).grun ((RA.mach (fun b v => v == b + 100)).ginit (RA.init 100))
      [.start 0 (.update 5 105), .run 0 0, .run 0 0, .run 0 0, .run 0 0, .run 0 0, .run 0 0, .run 0 0, .run 0 0,
       .start 2 (.tryUpdate 3 103), .run 2 0, .run 2 1, .run 2 1, .run 2 1, .run 2 0]).map
      (fun g0 => decide ((⟨0, .update 5 105, 0, 1, 0, 8, .bool true⟩ : CallRec) ∈ g0.done ∧ g0.clock = 15 ∧
        (((RA.mach (fun b v => v == b + 100)).grun g0
            [.sync 1 0, .start 1 .snapshot, .run 1 1, .run 1 1, .run 1 1, .run 1 1]).map
          (fun g2 => decide ((⟨1, .snapshot, 1, 1, 16, 20, .snap 5 105⟩ : CallRec) ∈ g2.done))) = some true))
      = some true := by decide

end Woodpile.Props.C13

namespace Woodpile.Props.C13
open Woodpile.Abt

/-- The argument pair `(ub, uv)` of a call is fixed when the call starts: no step of any of the
three programs changes it, whatever result is fed (so the pair appended by the sequence store,
`*_hist_is_accepted_updates`, is the pair the call was given). -/
theorem call_arguments_fixed (chk : Nat → Nat → Bool) (th : Local) :
    (∀ val, (th.feedLoad chk val).ub = th.ub ∧ (th.feedLoad chk val).uv = th.uv) ∧
    (∀ r, (th.feedLock r).ub = th.ub ∧ (th.feedLock r).uv = th.uv) ∧
    (th.feedUnit.ub = th.ub ∧ th.feedUnit.uv = th.uv) ∧
    (∀ b v, (th.start (.update b v)).ub = b ∧ (th.start (.update b v)).uv = v ∧
      (th.start (.tryUpdate b v)).ub = b ∧ (th.start (.tryUpdate b v)).uv = v) :=
  ⟨fun val => RA.feedLoad_args chk th val, fun r => RA.feedLock_args th r, RA.feedUnit_args th,
   fun _ _ => ⟨rfl, rfl, rfl, rfl⟩⟩

end Woodpile.Props.C13

namespace Woodpile.Props.C13
open Woodpile.Abt

/-- Only the lock holder publishes: a step that changes the history is a step of the thread
holding the writer mutex.  Hence from the moment a writer takes the lock until it drops the
guard nobody else appends, and "the most recently published pair when it compares" in
`*_fresh_update_accepted` / `*_stale_update_ignored` is "the most recently published pair when
it took the lock". -/
theorem sc_only_holder_publishes {chk : Nat → Nat → Bool} {v0 : Nat} (h0 : chk 0 v0 = true) {s s' : SC.State}
    (h : SC.Reachable chk v0 s) (l : Label) (hs : SC.step chk s l = some s') (hne : s'.hist ≠ s.hist) :
    ∃ t ts, l = .run t ts ∧ s.held = some t := by
  rcases SC.hist_step chk s s' l hs with he | ⟨t, ts, hl, hpc, _⟩
  · exact absurd he hne
  · exact ⟨t, ts, hl, ((sc_invariant h0 h).lock t).1 (by simp [hpc, Pc.inCS])⟩

theorem ra_only_holder_publishes {chk : Nat → Nat → Bool} {v0 : Nat} (h0 : chk 0 v0 = true) {s s' : RA.State}
    (h : RA.Reachable chk v0 s) (l : Label) (hs : RA.step chk s l = some s') (hne : s'.hist ≠ s.hist) :
    ∃ t ts, l = .run t ts ∧ s.held = some t := by
  rcases RA.hist_step chk s s' l hs with he | ⟨t, ts, hl, hpc, _⟩
  · exact absurd he hne
  · exact ⟨t, ts, hl, ((ra_invariant h0 h).t t).lock.1 (by simp [hpc, Pc.inCS])⟩

end Woodpile.Props.C13

namespace Woodpile.Props.C13
open Woodpile.Abt

/-- A completed `update` / `try_update` call that was given a VALID pair returned normally (a
`Bool`; it did not panic) - so "`U` returned" in the end-to-end theorems is implied by "`U`
completed and its voucher was valid". -/
theorem valid_update_returns {chk : Nat → Nat → Bool} {hist : List (Nat × Nat)} {R : CallRec}
    (hR : Mach.RecOK chk hist R) (b v : Nat) (hop : R.op = .update b v ∨ R.op = .tryUpdate b v)
    (hv : chk b v = true) : ∃ r, R.res = .bool r := by
  obtain ⟨_, _, h⟩ := hR
  rcases hop with hop | hop <;> rw [hop] at h <;> cases hres : R.res <;> rw [hres] at h
  all_goals first
    | exact ⟨_, rfl⟩
    | (simp at h; done)
    | (simp only [hv] at h; cases h)

end Woodpile.Props.C13

/-
C13 — AtomicBaseTime snapshots are never torn and never go backwards, on any schedule.

Property theorems only (helper lemmas: `Woodpile/Proofs/AtomicBaseTime.lean`).
Model: `Woodpile.Abt` (`Model/AtomicBaseTime.lean`): the programs of `snapshot`, `update`,
`try_update` (one atomic access or lock operation per step, with the code's locations and
orderings), run by
* `SC`: the sequentially consistent interleaving machine (the floor), and
* `RA`: a release/acquire view machine (the target; DESIGN.md appendix A.3).
`Reachable` quantifies over every schedule (and, on `RA`, every reads-from choice), any
number of threads and any number of operations.  The sequence counter is a `Nat`: wrap-around
after 2^64 accepted updates is excluded.

Ghost state used in the statements (never read by the programs):
* `hist`: `hist[0]` is the epoch pair `(0, v0)`; the sequence store of an update appends that
  update's argument pair (`hist_is_accepted_updates`), so `hist` = epoch pair :: arguments of
  the accepted updates, in publication order;
* `log t`: the pairs returned by thread `t`'s snapshots, most recent first (`logOf`);
* `start t`: SC: the number of updates published when `t`'s current snapshot began;
  RA: `t`'s view of `sequence` when it began (the updates that happened-before it).
`chk` is `BASE_TIME_CHECK.check`; the only fact used about it is `chk 0 v0` (the epoch pair
of `BaseTime::new()` is valid).
-/
import Woodpile.Proofs.AtomicBaseTime
import Woodpile.Proofs.AbtRA

namespace Woodpile.Props.C13
open Woodpile.Abt

/-! ## Sequentially consistent machine -/

/-- The inductive invariant holds in every reachable state. -/
theorem sc_invariant {chk : Nat → Nat → Bool} {v0 : Nat} (h0 : chk 0 v0 = true) {s : SC.State}
    (h : SC.Reachable chk v0 s) : SC.Inv chk s :=
  SC.inv_reachable h0 h

/-- What the ghost history is: a step either leaves it alone or is the sequence store of a
thread inside `update`/`try_update`, which appends exactly that call's argument pair; the
argument pair of a call is fixed when the call starts. -/
theorem sc_hist_is_accepted_updates (chk : Nat → Nat → Bool) (s s' : SC.State) (l : Label)
    (h : SC.step chk s l = some s') :
    s'.hist = s.hist ∨
    ∃ t ts, l = .run t ts ∧ (s.thr t).pc = .aStSeq ∧ s'.hist = s.hist ++ [((s.thr t).ub, (s.thr t).uv)] :=
  SC.hist_step chk s s' l h

/-- Never torn: whenever a snapshot has returned `(base, bits)`, that pair is an element of
the history - the epoch pair or a pair passed as a unit to an accepted update. -/
theorem sc_snapshot_not_torn {chk : Nat → Nat → Bool} {v0 : Nat} (h0 : chk 0 v0 = true) {s : SC.State}
    (h : SC.Reachable chk v0 s) (t : Nat) (hpc : (s.thr t).pc = .retSnap) :
    ((s.thr t).base, (s.thr t).bits) ∈ s.hist := by
  obtain ⟨_, k, _, _, hk⟩ := ((sc_invariant h0 h).logs t).2.2 hpc
  exact List.mem_of_getElem? hk

/-- Every pair any thread's snapshots ever returned is in the history. -/
theorem sc_snapshot_in_history {chk : Nat → Nat → Bool} {v0 : Nat} (h0 : chk 0 v0 = true) {s : SC.State}
    (h : SC.Reachable chk v0 s) (t : Nat) (p : Nat × Nat) (hp : p ∈ s.log t) : p ∈ s.hist := by
  obtain ⟨k, _, hk⟩ := ((sc_invariant h0 h).logs t).2.1 p hp
  exact List.mem_of_getElem? hk

/-- The assertion in `snapshot` never fails. -/
theorem sc_no_panic {chk : Nat → Nat → Bool} {v0 : Nat} (h0 : chk 0 v0 = true) {s : SC.State}
    (h : SC.Reachable chk v0 s) (t : Nat) : (s.thr t).pc ≠ .sPanic := by
  intro hpc
  have := (sc_invariant h0 h).reader t
  simp [SC.RInv, hpc] at this

/-- Every pair in the history passed `check` (so every returned snapshot does). -/
theorem sc_history_valid {chk : Nat → Nat → Bool} {v0 : Nat} (h0 : chk 0 v0 = true) {s : SC.State}
    (h : SC.Reachable chk v0 s) (p : Nat × Nat) (hp : p ∈ s.hist) : chk p.1 p.2 = true :=
  (sc_invariant h0 h).chkAll p hp

/-- Recency: a returned snapshot is the pair of some sequence number `k` that is at least the
number of updates published before the snapshot began; hence its base time is at least that
of every update that completed before the snapshot began. -/
theorem sc_recent {chk : Nat → Nat → Bool} {v0 : Nat} (h0 : chk 0 v0 = true) {s : SC.State}
    (h : SC.Reachable chk v0 s) (t : Nat) (hpc : (s.thr t).pc = .retSnap) :
    (∃ k, s.start t ≤ k ∧ s.hist[k]? = some ((s.thr t).base, (s.thr t).bits)) ∧
    ∀ j p, j ≤ s.start t → s.hist[j]? = some p → p.1 ≤ (s.thr t).base := by
  have hI := sc_invariant h0 h
  obtain ⟨_, k, hk1, _, hk⟩ := (hI.logs t).2.2 hpc
  refine ⟨⟨k, hk1, hk⟩, ?_⟩
  intro j p hj hp
  exact sorted_get hI.sorted hp hk (by omega)

/-- Base times returned by successive snapshots of one thread never decrease
(`log t` lists them most recent first). -/
theorem sc_per_thread_monotone {chk : Nat → Nat → Bool} {v0 : Nat} (h0 : chk 0 v0 = true) {s : SC.State}
    (h : SC.Reachable chk v0 s) (t : Nat) :
    (s.log t).Pairwise (fun newer older => older.1 ≤ newer.1) :=
  ((sc_invariant h0 h).logs t).1

/-- Published base times never decrease. -/
theorem sc_published_monotone {chk : Nat → Nat → Bool} {v0 : Nat} (h0 : chk 0 v0 = true) {s : SC.State}
    (h : SC.Reachable chk v0 s) : s.hist.Pairwise (fun a b => a.1 ≤ b.1) :=
  (sc_invariant h0 h).sorted

/-- A stale update is ignored: when `advance_once` compares its argument with the current
pair, what it loaded is the base time of the most recently published pair, and if the
argument is older the call goes straight to the guard drop that returns `false`, leaving
memory and history untouched. -/
theorem sc_stale_update_ignored {chk : Nat → Nat → Bool} {v0 : Nat} (h0 : chk 0 v0 = true) {s s' : SC.State}
    (h : SC.Reachable chk v0 s) (t ts : Nat) (hpc : (s.thr t).pc = .aB)
    (cur : Nat × Nat) (hcur : s.hist.getLast? = some cur) (hstale : (s.thr t).ub < cur.1)
    (hs : SC.step chk s (.run t ts) = some s') :
    (s'.thr t).pc = .aUnlock false ∧ s'.mem = s.mem ∧ s'.hist = s.hist ∧
    (s'.thr t).feedUnit.pc = .retBool false :=
  SC.stale_ignored (sc_invariant h0 h) t ts hpc cur hcur hstale hs

/-! ## Release/acquire view machine

Same statements on `RA`: per-location message lists `(value, view)`, per-thread views, relaxed
loads read any message at or after the thread's view of the location, acquire loads join the
message's view, release stores attach the thread's view, lock / guard drop transfer views,
`sync` models synchronisation outside the object.  `start t` is the reader's view of
`sequence` when its snapshot began: an update "completed before the snapshot began" in the
happens-before sense iff the sequence message it published is at or below that view. -/

/-- The inductive invariant of DESIGN.md appendix A.3 holds in every reachable state:
(S) `sequence` messages are `0..n` with value = timestamp; (P) the pair of sequence `k` sits
at timestamp `⌈k/2⌉` of slot `k mod 2` and is the epoch pair or an accepted update's argument,
all valid, base times non-decreasing; (V1) the `sequence = k` message's view covers both slot
words of `k`; (V2) a slot message at timestamp `i ≥ 1` of slot `j` carries a view with
`sequence ≥ 2i - j - 1`; (W) only the lock holder appends, its view covers every message, slot
lengths exceed the published ones by the holder's progress; (R) per reader pc; plus
well-formedness of all views and the per-thread snapshot logs. -/
theorem ra_invariant {chk : Nat → Nat → Bool} {v0 : Nat} (h0 : chk 0 v0 = true) {s : RA.State}
    (h : RA.Reachable chk v0 s) : RA.Inv chk s :=
  RA.inv_reachable h0 h

/-- What the ghost history is on `RA` (as `sc_hist_is_accepted_updates`). -/
theorem ra_hist_is_accepted_updates (chk : Nat → Nat → Bool) (s s' : RA.State) (l : Label)
    (h : RA.step chk s l = some s') :
    s'.hist = s.hist ∨
    ∃ t ts, l = .run t ts ∧ (s.thr t).loc.pc = .aStSeq ∧
      s'.hist = s.hist ++ [((s.thr t).loc.ub, (s.thr t).loc.uv)] :=
  RA.hist_step chk s s' l h

/-- Never torn under release/acquire: a returned snapshot is an element of the history. -/
theorem ra_snapshot_not_torn {chk : Nat → Nat → Bool} {v0 : Nat} (h0 : chk 0 v0 = true) {s : RA.State}
    (h : RA.Reachable chk v0 s) (t : Nat) (hpc : (s.thr t).loc.pc = .retSnap) :
    ((s.thr t).loc.base, (s.thr t).loc.bits) ∈ s.hist := by
  obtain ⟨_, k, _, _, hk⟩ := ((ra_invariant h0 h).t t).lg.2.2 hpc
  exact List.mem_of_getElem? hk

theorem ra_snapshot_in_history {chk : Nat → Nat → Bool} {v0 : Nat} (h0 : chk 0 v0 = true) {s : RA.State}
    (h : RA.Reachable chk v0 s) (t : Nat) (p : Nat × Nat) (hp : p ∈ s.log t) : p ∈ s.hist := by
  obtain ⟨k, _, hk⟩ := ((ra_invariant h0 h).t t).lg.2.1 p hp
  exact List.mem_of_getElem? hk

/-- The assertion in `snapshot` never fails under release/acquire. -/
theorem ra_no_panic {chk : Nat → Nat → Bool} {v0 : Nat} (h0 : chk 0 v0 = true) {s : RA.State}
    (h : RA.Reachable chk v0 s) (t : Nat) : (s.thr t).loc.pc ≠ .sPanic := by
  intro hpc
  have := ((ra_invariant h0 h).t t).rd
  simp [RA.RInv, hpc] at this

theorem ra_history_valid {chk : Nat → Nat → Bool} {v0 : Nat} (h0 : chk 0 v0 = true) {s : RA.State}
    (h : RA.Reachable chk v0 s) (p : Nat × Nat) (hp : p ∈ s.hist) : chk p.1 p.2 = true :=
  (ra_invariant h0 h).g.chkAll p hp

/-- `start t` really is the reader's view of `sequence` when the call began. -/
theorem ra_start_records_view (chk : Nat → Nat → Bool) (s s' : RA.State) (t : Nat) (op : Op)
    (h : RA.step chk s (.start t op) = some s') : s'.start t = (s.thr t).view .seq := by
  simp only [RA.step] at h
  split at h
  · simp at h; subst h; simp
  · simp at h

/-- Recency under release/acquire: a returned snapshot is the pair of a sequence number `k` at
or above the reader's view of `sequence` when the snapshot began, so its base time is at least
that of every update whose publication happened-before the start of the snapshot. -/
theorem ra_recent {chk : Nat → Nat → Bool} {v0 : Nat} (h0 : chk 0 v0 = true) {s : RA.State}
    (h : RA.Reachable chk v0 s) (t : Nat) (hpc : (s.thr t).loc.pc = .retSnap) :
    (∃ k, s.start t ≤ k ∧ s.hist[k]? = some ((s.thr t).loc.base, (s.thr t).loc.bits)) ∧
    ∀ j p, j ≤ s.start t → s.hist[j]? = some p → p.1 ≤ (s.thr t).loc.base := by
  have hI := ra_invariant h0 h
  obtain ⟨_, k, hk1, _, hk⟩ := (hI.t t).lg.2.2 hpc
  refine ⟨⟨k, hk1, hk⟩, ?_⟩
  intro j p hj hp
  exact sorted_get hI.g.sorted hp hk (by omega)

theorem ra_per_thread_monotone {chk : Nat → Nat → Bool} {v0 : Nat} (h0 : chk 0 v0 = true) {s : RA.State}
    (h : RA.Reachable chk v0 s) (t : Nat) :
    (s.log t).Pairwise (fun newer older => older.1 ≤ newer.1) :=
  ((ra_invariant h0 h).t t).lg.1

theorem ra_published_monotone {chk : Nat → Nat → Bool} {v0 : Nat} (h0 : chk 0 v0 = true) {s : RA.State}
    (h : RA.Reachable chk v0 s) : s.hist.Pairwise (fun a b => a.1 ≤ b.1) :=
  (ra_invariant h0 h).g.sorted

/-- A stale update is ignored under release/acquire, whichever message the (acquire) load of
the current base word is allowed to read: the holder's view covers every message, so it reads
the most recently published base time. -/
theorem ra_stale_update_ignored {chk : Nat → Nat → Bool} {v0 : Nat} (h0 : chk 0 v0 = true) {s s' : RA.State}
    (h : RA.Reachable chk v0 s) (t ts : Nat) (hpc : (s.thr t).loc.pc = .aB)
    (cur : Nat × Nat) (hcur : s.hist.getLast? = some cur) (hstale : (s.thr t).loc.ub < cur.1)
    (hs : RA.step chk s (.run t ts) = some s') :
    (s'.thr t).loc.pc = .aUnlock false ∧ s'.mem = s.mem ∧ s'.hist = s.hist ∧
    (s'.thr t).loc.feedUnit.pc = .retBool false :=
  RA.stale_ignored (ra_invariant h0 h) t ts hpc cur hcur hstale hs

end Woodpile.Props.C13

namespace Woodpile.Props.C13
open Woodpile.Abt

/-! Non-vacuity (SC): with `check b v := v = b + 100` and epoch voucher `100`, the schedule
"thread 0 runs `update (5, 105)` to completion while thread 1's snapshot, started first, reads
the sequence before and after" reaches a state where the reader retried once, returned the
new pair, and a stale `try_update (3, 103)` by thread 2 was ignored. -/
example :
    (SC.run (fun b v => v == b + 100) (SC.init 100)
      [.start 1 .snapshot, .run 1 0, .start 0 (.update 5 105), .run 0 0, .run 0 0, .run 0 0, .run 0 0,
       .run 0 0, .run 0 0, .run 0 0, .run 0 0, .run 1 0, .run 1 0, .run 1 0, .run 1 0, .run 1 0, .run 1 0,
       .start 2 (.tryUpdate 3 103), .run 2 0, .run 2 0, .run 2 0, .run 2 0, .run 2 0]).map
      (fun s => decide ((s.thr 1).pc = .retSnap ∧ (s.thr 1).base = 5 ∧ (s.thr 1).bits = 105 ∧
        s.hist = [(0, 100), (5, 105)] ∧ s.log 1 = [(5, 105)] ∧ (s.thr 0).pc = .retBool true ∧
        (s.thr 2).pc = .retBool false ∧ s.mem .seq = 1)) = some true := by decide

/-- The hypotheses of `sc_stale_update_ignored` are satisfiable: thread 2 above at `aB`. -/
example :
    (SC.run (fun b v => v == b + 100) (SC.init 100)
      [.start 0 (.update 5 105), .run 0 0, .run 0 0, .run 0 0, .run 0 0, .run 0 0, .run 0 0, .run 0 0, .run 0 0,
       .start 2 (.tryUpdate 3 103), .run 2 0, .run 2 0, .run 2 0]).map
      (fun s => decide ((s.thr 2).pc = .aB ∧ s.hist.getLast? = some (5, 105) ∧ (s.thr 2).ub < 5)) = some true := by
  decide

end Woodpile.Props.C13

namespace Woodpile.Props.C13
open Woodpile.Abt

/-! Non-vacuity (RA): the reader (thread 1) reads sequence message 0; the writer (thread 0)
then publishes `(5, 105)`; the reader reads both (unchanged) words of slot 0, reads the NEW
sequence message at its re-check (its view allowed 0 or 1), retries on slot 1 and returns the
new pair; a second reader (thread 2, view still 0) legitimately reads the stale sequence
message 0 afterwards and returns the epoch pair - allowed, since nothing happened-before it. -/
example :
    (RA.run (fun b v => v == b + 100) (RA.init 100)
      [.start 1 .snapshot, .run 1 0, .start 0 (.update 5 105), .run 0 0, .run 0 0, .run 0 0, .run 0 0,
       .run 0 0, .run 0 0, .run 0 0, .run 0 0, .run 1 0, .run 1 0, .run 1 1, .run 1 1, .run 1 1, .run 1 1,
       .start 2 .snapshot, .run 2 0, .run 2 0, .run 2 0, .run 2 0]).map
      (fun s => decide ((s.thr 1).loc.pc = .retSnap ∧ (s.thr 1).loc.base = 5 ∧ (s.thr 1).loc.bits = 105 ∧
        s.hist = [(0, 100), (5, 105)] ∧ s.log 1 = [(5, 105)] ∧ (s.thr 0).loc.pc = .retBool true ∧
        (s.thr 2).loc.pc = .retSnap ∧ (s.thr 2).loc.base = 0 ∧ s.start 2 = 0 ∧
        (s.mem .seq).length = 2)) = some true := by decide

end Woodpile.Props.C13

/-
C07 — The encoder's output is byte-for-byte the canonical hybrid COBS encoding;
the decoder accepts precisely the well-formed chunk sequences that end on a short
chunk and returns exactly what the format defines.

Spec-level half (helper lemmas in `Woodpile/Proofs/HcobsSpec.lean`).  The wire
format is spelled out twice, declaratively, as inductive relations that do not
mention `encode`/`decode`/`header`/`parseHdr`:

* `Spec.WellFormed p bytes data` — the canonical encoding (greedy chunk ends,
  stuff-free bodies, headers as in `Spec.IsHeader`);
* `Spec.Decodes p bytes data` — what a decoder must accept (any chunk sequence
  with valid headers ending right after a short chunk) and what it means.

`Spec.encode` is proved to produce the first, `Spec.decode` to compute exactly
the second, for ALL byte strings; `WellFormed → Decodes`.  That the incremental
`Encoder`/`Decoder` state machines compute `Spec.encode`/`Spec.decode` for every
segmentation and input method (and never panic) is the refinement half.
-/
import Woodpile.Gen.Consts
import Woodpile.Proofs.HcobsSpec

namespace Woodpile.Props.C07
open Woodpile.Hcobs Woodpile.Hcobs.Spec

/-- The constants of the format, as extracted from `hcobs/src/lib.rs`: a change
that shifts a limit on both the encoder and the decoder side still round-trips,
but fails here. -/
theorem wire_consts :
    Gen.maxInit = 252 ∧ Gen.maxSub = 64008 ∧ Gen.radix = 253 ∧
      Gen.stuff0 = 0xFE ∧ Gen.stuff1 = 0xFD := by decide

/-- The model's `FE`/`FD` are those bytes, and the limits are `radix − 1`, `radix² − 1`. -/
theorem wire_consts_model :
    FE.toNat = Gen.stuff0 ∧ FD.toNat = Gen.stuff1 ∧
      Gen.maxInit = Gen.radix - 1 ∧ Gen.maxSub = Gen.radix * Gen.radix - 1 := by decide

/-- The production parameters. -/
def prod : Params := ⟨Gen.maxInit, Gen.maxSub, Gen.radix⟩

theorem prod_params_valid : prod.Valid := by decide

/-- **Canonical encoding**: for every byte string, the encoder's output is the
well-formed encoding of it: chunks end at the first `FE FD` of the window or at
the limit (`maxInit` first, `maxSub` later), one-byte first header, two-byte
little-endian radix-`radix` later headers, final short chunk. -/
theorem encode_wellformed (p : Params) (hp : p.Valid) (d : List UInt8) :
    WellFormed p (encode p d) d :=
  encode_wf hp d

/-- … and it is the only one: `WellFormed p · d` holds of exactly one byte string. -/
theorem wellformed_iff_encode (p : Params) (hp : p.Valid) (b d : List UInt8) :
    WellFormed p b d ↔ b = encode p d :=
  wf_iff_encode hp

/-- **Uniqueness** both ways: among well-formed pairs, the bytes determine the data
and the data determine the bytes. -/
theorem wf_unique (p : Params) (hp : p.Valid) {b b' d d' : List UInt8}
    (h : WellFormed p b d) (h' : WellFormed p b' d') : b = b' ↔ d = d' :=
  Spec.wf_unique hp h h'

/-- **Decoder = format**: `decode` succeeds with `d` iff the input is a well-formed
chunk sequence ending on a short chunk whose meaning is `d`.  (All parameters.) -/
theorem decode_iff (p : Params) (b d : List UInt8) : decode p b = some d ↔ Decodes p b d :=
  Spec.decode_iff

/-- Every byte string is either rejected — exactly when no reading of it as a chunk
sequence exists — or mapped to the one `d` the format defines. -/
theorem decode_total (p : Params) (b : List UInt8) :
    (decode p b = none ∧ ¬ ∃ d, Decodes p b d) ∨
    (∃ d, decode p b = some d ∧ Decodes p b d ∧ ∀ d', Decodes p b d' → d' = d) := by
  cases h : decode p b with
  | none => exact Or.inl ⟨rfl, decode_none_iff.1 h⟩
  | some d =>
    exact Or.inr ⟨d, rfl, Spec.decode_iff.1 h, fun d' h' => decodes_unique h' (Spec.decode_iff.1 h)⟩

/-- Canonical encodings are among the accepted inputs, with the same meaning. -/
theorem wellformed_decodes (p : Params) {b d : List UInt8} (h : WellFormed p b d) :
    Decodes p b d :=
  wf_decodes h

/-- The fuel of `Spec.decode` / `Spec.encode` is not a bound: any larger fuel gives
the same result (so the `none` of `decode` is a rejection, never exhaustion). -/
theorem fuel_irrelevant (p : Params) (hp : p.Valid) (x : List UInt8) (extra : Nat) :
    decLoop p (x.length + 1 + extra) true false x = decode p x ∧
    encLoop p (x.length + 1 + extra) true x = encode p x :=
  ⟨decLoop_fuel (by omega) (by omega), encLoop_fuel hp (by omega) (by omega)⟩

/-! ### Non-vacuity: the crate's own vectors (test parameters 3/5) -/

def tiny : Params := ⟨3, 5, 253⟩

theorem tiny_valid : tiny.Valid := by decide

/-- ASCII digits `'1'..'9'`. -/
def digits (n : Nat) : List UInt8 := (List.range n).map (fun i => UInt8.ofNat (0x31 + i))

-- `hcobs/src/encoder.rs`, `test_simple_miri`
example : encode tiny [] = [0] := by decide
example : encode tiny (digits 1) = 1 :: digits 1 := by decide
example : encode tiny (digits 2) = 2 :: digits 2 := by decide
example : encode tiny (digits 3) = [3, 0x31, 0x32, 0x33, 0, 0] := by decide
example : encode tiny (digits 7) = [3, 0x31, 0x32, 0x33, 4, 0, 0x34, 0x35, 0x36, 0x37] := by decide
example : encode tiny (digits 8) =
    [3, 0x31, 0x32, 0x33, 5, 0, 0x34, 0x35, 0x36, 0x37, 0x38, 0, 0] := by decide
example : encode tiny (digits 9) =
    [3, 0x31, 0x32, 0x33, 5, 0, 0x34, 0x35, 0x36, 0x37, 0x38, 1, 0, 0x39] := by decide
example : encode tiny [FE, FD] = [0, 0, 0] := by decide
example : encode tiny [0x31, FE, FD] = [1, 0x31, 0, 0] := by decide
example : encode tiny [0x31, 0x32, FE, FD] = [3, 0x31, 0x32, FE, 1, 0, FD] := by decide
example : encode tiny [0x31, 0x32, 0x33, FE, FD] = [3, 0x31, 0x32, 0x33, 0, 0, 0, 0] := by decide
example : encode tiny [0x31, 0x32, 0x33, 0x34, FE, FD, FE] =
    [3, 0x31, 0x32, 0x33, 1, 0, 0x34, 1, 0, FE] := by decide
example : encode tiny [0x31, 0x32, 0x33, 0x34, FE, FE, FD] =
    [3, 0x31, 0x32, 0x33, 2, 0, 0x34, FE, 0, 0] := by decide
example : encode tiny [0x31, 0x32, 0x33, 0x34, FE, FE, FE] =
    [3, 0x31, 0x32, 0x33, 4, 0, 0x34, FE, FE, FE] := by decide
example : encode tiny [0x31, 0x32, 0x33, 0x34, FD, FD, FD] =
    [3, 0x31, 0x32, 0x33, 4, 0, 0x34, FD, FD, FD] := by decide

-- the relation itself, built by hand (not through `encode`): "12" and "12 FE FD"
example : WellFormed tiny [2, 0x31, 0x32] [0x31, 0x32] :=
  .last (hdr := [2]) (body := [0x31, 0x32]) (by decide) (by decide) (by decide)
example : WellFormed tiny [3, 0x31, 0x32, FE, 1, 0, FD] [0x31, 0x32, FE, FD] :=
  .full (hdr := [3]) (body := [0x31, 0x32, FE]) (by decide) (by decide) (by decide)
    (.last (hdr := [1, 0]) (body := [FD]) (by decide) (by decide) (by decide))
example : WellFormed tiny [1, 0x31, 0, 0] [0x31, FE, FD] :=
  .stuff (hdr := [1]) (body := [0x31]) (by decide) (by decide) (by decide)
    (.last (hdr := [0, 0]) (body := []) (by decide) (by decide) (by decide))
-- … and it is not trivially true: wrong header, non-greedy cut, stuff left in a body
example : ¬ WellFormed tiny [1, 0x31, 0x32] [0x31, 0x32] := by
  rw [wf_iff_encode tiny_valid]; decide
example : ¬ WellFormed tiny [2, 0x31, 0x32, 0, 0] [0x31, 0x32, FE, FD] := by
  rw [wf_iff_encode tiny_valid]; decide
example : ¬ WellFormed tiny [2, FE, FD] [FE, FD] := by
  rw [wf_iff_encode tiny_valid]; decide

-- `hcobs/src/decoder.rs`, `test_simple_miri` / `test_error_miri`
example : decode tiny [0] = some [] := by decide
example : decode tiny [3, 0x31, 0x32, 0x33, 0, 0] = some (digits 3) := by decide
example : decode tiny [3, 0x31, 0x32, 0x33, 5, 0, 0x34, 0x35, 0x36, 0x37, 0x38, 1, 0, 0x39] =
    some (digits 9) := by decide
example : decode tiny [3, 0x31, 0x32, FE, 1, 0, FD] = some [0x31, 0x32, FE, FD] := by decide
example : decode tiny [1, 0x31, 0, 0] = some [0x31, FE, FD] := by decide
example : decode tiny [] = none := by decide                                   -- empty
example : decode tiny [1] = none := by decide                                  -- cut short
example : decode tiny [3, 0x31, 0x32, 0x33] = none := by decide                -- no final short chunk
example : decode tiny [0xff] = none := by decide                               -- first header > maxInit
example : decode tiny [0x0f] = none := by decide
example : decode tiny [2, 0x31] = none := by decide
example : decode tiny [3, 0x31, 0x32, 0x33, 0xff] = none := by decide          -- digit ≥ radix
example : decode tiny [3, 0x31, 0x32, 0x33, 0, 0xff] = none := by decide
example : decode tiny [3, 0x31, 0x32, 0x33, 0, 1] = none := by decide          -- value > maxSub
example : decode tiny [3, 0x31, 0x32, 0x33, 1, 0] = none := by decide          -- body missing
example : decode tiny [3, 0x31, 0x32, 0x33, 5, 0, 0x34, 0x35, 0x36, 0x37, 0x38] = none := by decide

-- the decoder accepts more than the canonical encodings (it checks neither
-- greediness nor stuff-freeness of bodies) …
example : decode tiny [2, FE, FD] = some [FE, FD] := by decide
example : Decodes tiny [2, FE, FD] [FE, FD] := (decode_iff _ _ _).1 (by decide)
example : encode tiny [FE, FD] ≠ [2, FE, FD] := by decide
example : decode tiny [1, 0x31, 1, 0, 0x32] = some [0x31, FE, FD, 0x32] := by decide
example : decode tiny [2, 0x31, 0x32, 0, 0] = some [0x31, 0x32, FE, FD] := by decide   -- `FD` was outside the window
-- … and `Decodes`, built by hand: a short chunk, an implicit `FE FD`, a final short chunk
example : Decodes tiny [1, 0x31, 1, 0, 0x32] [0x31, FE, FD, 0x32] :=
  .chunk (hdr := [1]) (body := [0x31]) (by decide)
    (.chunk (hdr := [1, 0]) (body := [0x32]) (by decide) .done)
-- rejected = no reading exists
example : ¬ ∃ d, Decodes tiny [3, 0x31, 0x32, 0x33] d := decode_none_iff.1 (by decide)

-- production constants
example : encode prod [FE, FD] = [0, 0, 0] := by decide
example : decode prod [0, 0, 0] = some [FE, FD] := by decide
example : decode prod [253] = none := by decide
example : decode prod [0, 253, 0] = none := by decide

/-! ### Each side condition is needed (see also `Props/C02.lean`) -/

/-- `maxSub = radix²`: the two-digit header cannot express a full chunk's length, the
decoder rejects the encoder's own output (the header is not an `IsHeader`). -/
example : decode ⟨1, 9, 3⟩ (encode ⟨1, 9, 3⟩ (List.replicate 10 0)) = none := by decide
example : ¬ IsHeader ⟨1, 9, 3⟩ false 9 (header ⟨1, 9, 3⟩ false 9) := by decide
/-- `maxInit = 256 > 255`: the one-byte header wraps. -/
example : header ⟨256, 5, 300⟩ true 256 = [0] := by decide

end Woodpile.Props.C07

/-
C10, streaming footprint: the listed capacities are the allocation-time capacities (track `glue`;
open item of `Props/C10.streaming_footprint`).

`streaming_footprint` covers the live chunks of the streaming pattern by at most `2·B/m₀ + 2`
(chunk, capacity) pairs with capacities at most `S`; the capacities were the ones the proof recorded,
not tied to the capacity ghost `caps` of `GReach` (C05: the capacity each chunk was ALLOCATED with,
inside which `ArenaInv.inCap` keeps every owned slice).  Here the bound is on the ghost itself: on
every world of the streaming pattern there is a `GReach` ghost that is at most `S` on every live
chunk and equals the recorded capacity of the current cache — so the live arena bytes (the sum of the
allocation-time capacities of the live chunks) are at most `(2·B/m₀ + 2) · S`.
-/
import Woodpile.Props.C10
import Woodpile.Proofs.FootprintGlue

namespace Woodpile.Props.C10G
open Woodpile.Iovec Woodpile.Arena

/-- The capacity ghost along the streaming pattern. -/
theorem streaming_caps_ghost {tun : Tuning} {P B m₀ S : Nat} {w : World} (hb : TuningBounds tun P m₀ S)
    (h : Streaming tun P B w) :
    ∃ caps, GReach w caps ∧ (∀ k ∈ w.liveChunks, caps k ≤ S) ∧
      (∀ v c, w.iov 0 = some v → v.arena.cache = some c → caps c.chunk = c.cap) := by
  obtain ⟨caps, hg, hcap⟩ := h.capReach hb
  refine ⟨caps, hg, fun k hk => hcap k (mem_liveChunks.1 hk).1, ?_⟩
  intro v c hv hc
  exact (hg.caps_of_cache (h := .iov 0) (by rw [cacheAt_iov hv]; exact hc)).1

/-- `streaming_footprint` with the ghost: the live chunks are covered by a list of at most
`2·B/m₀ + 2` chunks, each of allocation-time capacity at most `S`. -/
theorem streaming_footprint_ghost {tun : Tuning} {P B m₀ S : Nat} {w : World} (hb : TuningBounds tun P m₀ S)
    (hm : 0 < m₀) (h : Streaming tun P B w) :
    ∃ caps, GReach w caps ∧ ∃ L : List (Nat × Nat), L.length ≤ 2 * B / m₀ + 2 ∧
      (∀ k ∈ w.liveChunks, k ∈ L.map (·.1) ∧ caps k ≤ S) ∧
      (∀ v c, w.iov 0 = some v → v.arena.cache = some c → L.getLast? = some (c.chunk, caps c.chunk)) := by
  obtain ⟨caps, hg, h1, h2⟩ := streaming_caps_ghost hb h
  obtain ⟨L, hl, hlive, _, hcache⟩ := C10.streaming_footprint hb hm h
  refine ⟨caps, hg, L, hl, fun k hk => ⟨hlive k hk, h1 k hk⟩, ?_⟩
  intro v c hv hc
  rw [h2 v c hv hc]; exact hcache v c hv hc

/-- Production tuning: at most `2·B/4096 + 2` live chunks, each ALLOCATED with at most 1 MiB. -/
theorem streaming_footprint_ghost_prod {P B : Nat} {w : World} (hP : P < 1048576) (h : Streaming prodTuning P B w) :
    ∃ caps, GReach w caps ∧ ∃ L : List (Nat × Nat), L.length ≤ 2 * B / 4096 + 2 ∧
      (∀ k ∈ w.liveChunks, k ∈ L.map (·.1) ∧ caps k ≤ 1048576) ∧
      (∀ v c, w.iov 0 = some v → v.arena.cache = some c → L.getLast? = some (c.chunk, caps c.chunk)) :=
  streaming_footprint_ghost (prodTuning_bounds P hP) (by decide) h

/-! Non-vacuity: a world of the streaming pattern with a live chunk. -/

example : Streaming ⟨[4096, 8192], 4096⟩ 100 100
    ((World.init ⟨64, 256⟩ ⟨[4096, 8192], 4096⟩).addIov Iov.empty).1 := Streaming.start _

end Woodpile.Props.C10G

/-
C13 (and C18 flavour) for the rest of `AtomicBaseTime`'s public API:
`sequence()`, `new()`, `Default::default()`.

Rust (`vouched_time/src/atomic_base_time.rs`):
* `pub fn sequence(&self) -> u64 { self.sequence.load(Ordering::Relaxed) }` - ONE relaxed load of
  the counter.  Model: program `qSeq → retSeq` of `Model/AtomicBaseTime.lean` (`Op.sequence`,
  result `Res.seqv sq`), run by the same SC machine and release/acquire view machine as
  `snapshot` / `update` / `try_update`; every existing theorem that quantifies over reachable
  states / schedules / programs (`Props/C13.lean`, `C18.lean`) now also covers executions in which
  threads call `sequence()`.
* `pub const fn new()`: lock free and clean, `sequence = 0`, the epoch pair `(0, vouch(0))` in both
  slots; `impl Default { fn default() -> Self { Self::new() } }`.  Model: `SC.init v0` / `RA.init v0`
  (there is one initial state: `default()` IS `new()`; the harness builds every second object under
  test through `Default::default()` and op `new_default` compares both constructors with `init`).

What "`sequence()` returns the number of accepted updates it has seen" means here.  `hist` is the
ghost history (`hist[0]` = epoch pair, `hist[k]` = the `k`-th accepted update's pair), so the number
of accepted updates published so far is `hist.length - 1`.
* SC: the value returned is exactly that number at the moment of the load, which is the moment
  of the return (the call is one step) - `sc_sequence_at_load`, `sc_sequence_counts`.
* Release/acquire: a relaxed load may read any `sequence` message at or after the thread's view;
  the messages are `0..n` with value = timestamp, so the value returned is the timestamp of a
  message it was allowed to read: at least its view of `sequence` when the call began (everything
  that happened-before the call), it IS its view of `sequence` afterwards, and it never exceeds the
  number of accepted updates so far (`hist[n]` exists) - `ra_sequence_at_load`, `ra_sequence_counts`.
  Being relaxed, the load does not acquire the slot words (the thread's other views are unchanged):
  `sequence()` says how many updates have been accepted, it does not make their pairs visible.
* Per thread, successive results never decrease, and a `sequence()` after the thread's own
  `snapshot()` / accepted `update` / `try_update` is at least the sequence number that call
  observed / published (`*_sequence_monotone`; on SC for calls of ANY threads in real-time order).

Helper lemmas: `Proofs/AbtSeq.lean`; ghost layer (`Mach.gstep`, `CallRec`, `RecOK`): `Proofs/AtomicBaseTime.lean`.
-/
import Woodpile.Proofs.AbtSeq

namespace Woodpile.Props.C13Q
open Woodpile.Abt

/-! ## The program (C18 flavour): one access, a relaxed load of the counter -/

/-- `sequence()` performs exactly one access - `self.sequence.load(Relaxed)` - and no lock
operation, no store: the program is entered at `qSeq` (its only non-terminal pc, visited by no
other program), the access there is the relaxed load of `seq`, and whatever value `val` the load
returns the call has then returned `val`.  Machine independent. -/
theorem sequence_no_lock_no_store (chk : Nat → Nat → Bool) :
    (∀ th : Local, (th.start .sequence).pc = .qSeq) ∧
    (∀ pc, OpPc .sequence pc = true ↔ pc = .qSeq) ∧
    (∀ op, OpPc op .qSeq = true → op = .sequence) ∧
    (∀ th : Local, th.pc = .qSeq → th.next = .load .seq .rlx ∧
      ∀ val, (th.feedLoad chk val).pc = .retSeq ∧ (th.feedLoad chk val).sq = val ∧
        (th.feedLoad chk val).result = some (.seqv val) ∧ (th.feedLoad chk val).pc.terminal = true) ∧
    (∀ th th' : Local, th.pc = .qSeq → Local.Succ chk th th' → th'.pc = .retSeq ∧ th'.pc.terminal = true) :=
  ⟨fun th => (sequence_program chk th).1, fun pc => (opPc_sequence .sequence pc).1,
   fun op => (opPc_sequence op .qSeq).2, fun th h => (sequence_program chk th).2 h,
   fun _ _ h hs => ⟨(sequence_one_step h hs).1, (sequence_one_step h hs).2.1⟩⟩

/-- SC: from ANY state (reachable or not; a writer may hold the lock half way through its stores,
the mutex may be poisoned) a thread with no call in progress completes `sequence()` in one own
step after the call label; the step is always enabled (`ts` is ignored on SC), the result is the
current counter, and memory, lock, poison flag and history are untouched. -/
theorem sc_sequence_one_step (chk : Nat → Nat → Bool) (s : SC.State) (t ts : Nat)
    (hterm : (s.thr t).pc.terminal = true) :
    ∃ s', SC.run chk s [.start t .sequence, .run t ts] = some s' ∧ (s'.thr t).pc = .retSeq ∧
      (s'.thr t).sq = s.mem .seq ∧ s'.mem = s.mem ∧ s'.held = s.held ∧ s'.poisoned = s.poisoned ∧ s'.hist = s.hist :=
  SC.sequence_call chk s t ts hterm

/-- RA: the single step of `sequence()` is enabled for exactly the messages the thread may read
(`view(seq) ≤ ts`, message `ts` of `seq` exists), from ANY state; it returns that message's value,
sets the thread's view of `sequence` to `ts` and leaves every other view alone (relaxed: nothing is
acquired); memory, lock, poison flag, mutex view, history and the other threads are untouched. -/
theorem ra_sequence_one_step (chk : Nat → Nat → Bool) (s : RA.State) (t ts : Nat)
    (hpc : (s.thr t).loc.pc = .qSeq) (m : Msg) (hm : (s.mem .seq)[ts]? = some m) (hv : (s.thr t).view .seq ≤ ts) :
    ∃ s', RA.step chk s (.run t ts) = some s' ∧ (s'.thr t).loc.pc = .retSeq ∧ (s'.thr t).loc.sq = m.val ∧
      (s'.thr t).view = upd (s.thr t).view .seq ts ∧
      s'.mem = s.mem ∧ s'.held = s.held ∧ s'.poisoned = s.poisoned ∧ s'.mview = s.mview ∧ s'.hist = s.hist ∧
      s'.start = s.start ∧ ∀ t', t' ≠ t → s'.thr t' = s.thr t' :=
  RA.sequence_step chk s t ts hpc m hm hv

/-- RA: `sequence()` never waits: in every reachable state some message is readable (the one at
the thread's own view of `sequence`, and the latest one). -/
theorem ra_sequence_enabled {chk : Nat → Nat → Bool} {v0 : Nat} (h0 : chk 0 v0 = true) {s : RA.State}
    (h : RA.Reachable chk v0 s) (t : Nat) (hpc : (s.thr t).loc.pc = .qSeq) :
    (∃ s', RA.step chk s (.run t ((s.thr t).view .seq)) = some s' ∧ (s'.thr t).loc.pc = .retSeq) ∧
    (∃ s', RA.step chk s (.run t ((s.mem .seq).length - 1)) = some s' ∧ (s'.thr t).loc.pc = .retSeq) := by
  have hwf := ((RA.inv_reachable h0 h).t t).wfv .seq
  constructor
  · obtain ⟨s', h1, h2, _⟩ := RA.sequence_step chk s t _ hpc _ (List.getElem?_eq_getElem hwf) (Nat.le_refl _)
    exact ⟨s', h1, h2⟩
  · have hlt : (s.mem .seq).length - 1 < (s.mem .seq).length := by omega
    obtain ⟨s', h1, h2, _⟩ := RA.sequence_step chk s t _ hpc _ (List.getElem?_eq_getElem hlt) (by omega)
    exact ⟨s', h1, h2⟩

/-! ## What it returns -/

/-- SC, at the load.  In any reachable execution (with bookkeeping: `SC.GReachable`, which restricts
nothing - `C13.sc_bookkeeping_exact`), when a thread inside `sequence()` takes its step: the call
completes with this step, and the record it leaves says it returned EXACTLY the number of accepted
updates published at that moment (`hist.length - 1`), which is at least the number published when
the call began (`start t`, recorded by the `.start` label: `sc_start_records_count`); nothing shared
changed. -/
theorem sc_sequence_at_load {chk : Nat → Nat → Bool} {v0 : Nat} (h0 : chk 0 v0 = true)
    {g g' : (SC.mach chk).GState} (h : SC.GReachable chk v0 g) (t ts : Nat) (hpc : (g.s.thr t).pc = .qSeq)
    (hs : (SC.mach chk).gstep g (.run t ts) = some g') :
    ∃ t0, g.cur t = some (.sequence, t0) ∧
      g'.done = ⟨t, .sequence, g.s.start t, g.s.hist.length - 1, t0, g.clock,
                  .seqv (g.s.hist.length - 1)⟩ :: g.done ∧
      g.s.start t ≤ g.s.hist.length - 1 ∧
      g'.s.hist = g.s.hist ∧ g'.s.mem = g.s.mem ∧ g'.s.held = g.s.held ∧ g'.s.poisoned = g.s.poisoned := by
  have hI := SC.ginv_reachable h0 h
  obtain ⟨t0, hc, _, hst⟩ := Mach.cur_at_qSeq hI t hpc
  have hlen := hI.ok.1.len
  obtain ⟨s1, e1, e2, e3, e4, e5, e6, e7, e8, _⟩ := SC.sequence_step chk g.s t ts hpc
  simp only [Mach.gstep] at hs
  rw [e1] at hs
  cases hs
  obtain ⟨d1, d2⟩ := Mach.gnext_sequence (SC.mach chk) g t ts t0 s1 hc e2
  have hst' : g.s.start t ≤ g.s.mem .seq := hst
  refine ⟨t0, hc, ?_, by omega, ?_, ?_, ?_, ?_⟩
  · rw [d1]
    show (⟨t, .sequence, s1.start t, s1.mem .seq, t0, g.clock, .seqv (s1.thr t).sq⟩ : CallRec) :: g.done = _
    rw [e3, e4, e8]
    have : g.s.hist.length - 1 = g.s.mem .seq := by omega
    rw [this]
  · rw [d2]; exact e7
  · rw [d2]; exact e4
  · rw [d2]; exact e5
  · rw [d2]; exact e6

/-- On SC `start t` is the number of accepted updates published when the call began. -/
theorem sc_start_records_count {chk : Nat → Nat → Bool} (s s' : SC.State) (t : Nat) (op : Op)
    (h : SC.step chk s (.start t op) = some s') : s'.start t = s.hist.length - 1 := by
  simp only [SC.step] at h
  split at h
  · simp at h; subst h; simp
  · simp at h

/-- SC, every completed `sequence()` call of every execution: it returned a number `n` with
`vStart ≤ n = vRet < hist.length`: between (inclusive) the number of accepted updates published when
the call began and when it returned - in fact equal to the latter, the load being the last step -
and never more than the number of accepted updates so far (`hist[n]` exists, for ever after:
the history only grows). -/
theorem sc_sequence_counts {chk : Nat → Nat → Bool} {v0 : Nat} (h0 : chk 0 v0 = true)
    {g : (SC.mach chk).GState} (h : SC.GReachable chk v0 g) (R : CallRec) (hR : R ∈ g.done)
    (hop : R.op = .sequence) :
    ∃ n, R.res = .seqv n ∧ R.vStart ≤ n ∧ n = R.vRet ∧ n < g.s.hist.length ∧ ∃ p, g.s.hist[n]? = some p :=
  Mach.sequence_rec (SC.ginv_reachable h0 h) R hR hop

/-- RA, at the load: when a thread inside `sequence()` takes its step reading message `ts` of
`sequence` (the machine allows exactly `view(seq) ≤ ts < number of messages`): the message's value
is its timestamp, the call completes and its record says it returned `ts`; `ts` is at least the
thread's view of `sequence` when the call began (`start t`), it is the thread's view of `sequence`
afterwards, `hist[ts]` exists (so `ts ≤` the number of accepted updates so far), and nothing else
changed: in particular the views of the slot words are NOT advanced. -/
theorem ra_sequence_at_load {chk : Nat → Nat → Bool} {v0 : Nat} (h0 : chk 0 v0 = true)
    {g g' : (RA.mach chk).GState} (h : RA.GReachable chk v0 g) (t ts : Nat) (hpc : (g.s.thr t).loc.pc = .qSeq)
    (hs : (RA.mach chk).gstep g (.run t ts) = some g') :
    ∃ t0 m, g.cur t = some (.sequence, t0) ∧ (g.s.mem .seq)[ts]? = some m ∧ m.val = ts ∧
      (g.s.thr t).view .seq ≤ ts ∧
      g'.done = ⟨t, .sequence, g.s.start t, ts, t0, g.clock, .seqv ts⟩ :: g.done ∧
      g.s.start t ≤ ts ∧ ts < g.s.hist.length ∧ (∃ p, g.s.hist[ts]? = some p) ∧
      (g'.s.thr t).view = upd (g.s.thr t).view .seq ts ∧
      g'.s.hist = g.s.hist ∧ g'.s.mem = g.s.mem ∧ g'.s.held = g.s.held := by
  have hI := RA.ginv_reachable h0 h
  obtain ⟨t0, hc, _, hst⟩ := Mach.cur_at_qSeq hI t hpc
  have hG := hI.ok.1.g
  simp only [Mach.gstep] at hs
  cases hst1' : RA.step chk g.s (.run t ts) with
  | none => simp [hst1'] at hs
  | some s1 =>
    simp only [hst1'] at hs
    cases hs
    obtain ⟨m, hm, hv⟩ := RA.sequence_step_inv hpc hst1'
    obtain ⟨s2, e1, e2, e3, e4, e5, e6, _, _, e9, e10, _⟩ := RA.sequence_step chk g.s t ts hpc m hm hv
    rw [hst1'] at e1; cases e1
    have hval := hG.seqval ts m hm
    have hlt : ts < (g.s.mem .seq).length := (List.getElem?_eq_some_iff.mp hm).1
    have hlt' : ts < g.s.hist.length := by rw [hG.hlen]; exact hlt
    obtain ⟨d1, d2⟩ := Mach.gnext_sequence (RA.mach chk) g t ts t0 s1 hc e2
    have hst' : g.s.start t ≤ (g.s.thr t).view .seq := hst
    refine ⟨t0, m, hc, hm, hval, hv, ?_, by omega, hlt', ⟨_, List.getElem?_eq_getElem hlt'⟩, ?_, ?_, ?_, ?_⟩
    · rw [d1]
      show (⟨t, .sequence, s1.start t, (s1.thr t).view .seq, t0, g.clock, .seqv (s1.thr t).loc.sq⟩ : CallRec)
        :: g.done = _
      rw [e3, e4, e10, hval]; simp
    · rw [d2]; exact e4
    · rw [d2]; exact e9
    · rw [d2]; exact e5
    · rw [d2]; exact e6

/-- RA, every completed `sequence()` call of every execution: it returned `n` = the timestamp of a
`sequence` message the thread was allowed to read: `vStart ≤ n` (at least its view of `sequence`
when the call began), `n = vRet` (its view afterwards - kept for ever: `n ≤ view(seq)` of that
thread in every later state), `n < hist.length` and `hist[n]` is the `n`-th accepted update: `n` is
"the number of accepted updates it has seen", never more than the accepted updates so far. -/
theorem ra_sequence_counts {chk : Nat → Nat → Bool} {v0 : Nat} (h0 : chk 0 v0 = true)
    {g : (RA.mach chk).GState} (h : RA.GReachable chk v0 g) (R : CallRec) (hR : R ∈ g.done)
    (hop : R.op = .sequence) :
    ∃ n, R.res = .seqv n ∧ R.vStart ≤ n ∧ n = R.vRet ∧ n < g.s.hist.length ∧ (∃ p, g.s.hist[n]? = some p) ∧
      n ≤ (g.s.thr R.tid).view .seq := by
  have hI := RA.ginv_reachable h0 h
  obtain ⟨n, a, b, c, d, e⟩ := Mach.sequence_rec hI R hR hop
  refine ⟨n, a, b, c, d, e, ?_⟩
  rw [c]; exact (hI.recs R hR).2.2 R.tid (Or.inl rfl)

/-! ## Monotone per thread -/

/-- RA, program order: `R2` is a `sequence()` call that returned `n2`; `R1` is any call of the SAME
thread that returned before `R2` began.  Then `n2` is at least `R1`'s view of `sequence` at its
return, hence: at least an earlier `sequence()`'s result (successive results never decrease); at
least the sequence number `k` whose pair an earlier `snapshot()` returned; at least the sequence
number `j` under which an earlier accepted `update` / `try_update = true` published its pair
(so a thread that has completed `m` accepted updates reads `sequence() ≥ m`). -/
theorem ra_sequence_monotone {chk : Nat → Nat → Bool} {v0 : Nat} (h0 : chk 0 v0 = true)
    {g : (RA.mach chk).GState} (h : RA.GReachable chk v0 g) (R1 R2 : CallRec) (h1 : R1 ∈ g.done) (h2 : R2 ∈ g.done)
    (hsame : R1.tid = R2.tid) (hlt : R1.tRet < R2.tStart) (hop : R2.op = .sequence) (n2 : Nat)
    (hres : R2.res = .seqv n2) :
    R1.vRet ≤ n2 ∧
    (∀ n1, R1.res = .seqv n1 → n1 ≤ n2) ∧
    (∀ b v, R1.op = .snapshot → R1.res = .snap b v → ∃ k, k ≤ n2 ∧ g.s.hist[k]? = some (b, v)) ∧
    (∀ b v, (R1.op = .update b v ∨ R1.op = .tryUpdate b v) → R1.res = .bool true →
      ∃ j, j ≤ n2 ∧ g.s.hist[j]? = some (b, v)) :=
  Mach.sequence_monotone (RA.ginv_reachable h0 h) R1 R2 h1 h2 (Or.inl hsame) hlt hop n2 hres

/-- SC: the same, for calls of ANY two threads in real-time order (`R1`'s last step precedes
`R2`'s call label): in particular per thread. -/
theorem sc_sequence_monotone {chk : Nat → Nat → Bool} {v0 : Nat} (h0 : chk 0 v0 = true)
    {g : (SC.mach chk).GState} (h : SC.GReachable chk v0 g) (R1 R2 : CallRec) (h1 : R1 ∈ g.done) (h2 : R2 ∈ g.done)
    (hlt : R1.tRet < R2.tStart) (hop : R2.op = .sequence) (n2 : Nat) (hres : R2.res = .seqv n2) :
    R1.vRet ≤ n2 ∧
    (∀ n1, R1.res = .seqv n1 → n1 ≤ n2) ∧
    (∀ b v, R1.op = .snapshot → R1.res = .snap b v → ∃ k, k ≤ n2 ∧ g.s.hist[k]? = some (b, v)) ∧
    (∀ b v, (R1.op = .update b v ∨ R1.op = .tryUpdate b v) → R1.res = .bool true →
      ∃ j, j ≤ n2 ∧ g.s.hist[j]? = some (b, v)) :=
  Mach.sequence_monotone (SC.ginv_reachable h0 h) R1 R2 h1 h2 (Or.inr trivial) hlt hop n2 hres

/-- RA, across threads: a `sequence()` by thread `t` that starts after `t` synchronised with the
thread of a completed call `U` (`sync t U.tid`: join, channel, ...) returns at least `U`'s return
view - e.g. at least the sequence number of `U`'s accepted update. -/
theorem ra_sequence_after_sync {chk : Nat → Nat → Bool} {v0 : Nat} (h0 : chk 0 v0 = true)
    {g0 g1 g2 : (RA.mach chk).GState} (h : RA.GReachable chk v0 g0) (U : CallRec) (hU : U ∈ g0.done) (t : Nat)
    (hsync : (RA.mach chk).gstep g0 (.sync t U.tid) = some g1) (ls : List Label)
    (hrun : (RA.mach chk).grun g1 ls = some g2)
    (S : CallRec) (hS : S ∈ g2.done) (hSt : S.tid = t) (hlater : g0.clock < S.tStart)
    (hop : S.op = .sequence) (n : Nat) (hres : S.res = .seqv n) : U.vRet ≤ n := by
  have hg2 : RA.GReachable chk v0 g2 := by
    obtain ⟨l0, hl0⟩ := h
    refine ⟨l0 ++ (.sync t U.tid :: ls), ?_⟩
    rw [Mach.grun_append, hl0]
    simp only [Mach.grun, hsync]
    exact hrun
  have hord := Mach.sync_order (RA.laws chk) (RA.ginv_reachable h0 h) U hU t hsync ls hrun S hS hSt hlater
  obtain ⟨n', a, b, _⟩ := Mach.sequence_rec (RA.ginv_reachable h0 hg2) S hS hop
  rw [hres] at a; cases a
  omega

/-! ## `new()` / `default()` -/

/-- What `AtomicBaseTime::new()` (= `Default::default()`) establishes, as the two machines see it:
counter 0, the epoch pair `(0, v0)` in BOTH slots, history = the epoch pair alone (no accepted
update), writer mutex free and not poisoned, no thread inside a call (on `RA`: one initial message
per location with the empty view, all views empty); and from it a solo `snapshot()` returns the
epoch pair (provided it is valid, `chk 0 v0`: `C13R.epoch_pair_checks` for the real check) and a
solo `sequence()` returns 0, on both machines. -/
theorem new_is_init (chk : Nat → Nat → Bool) (v0 : Nat) (h0 : chk 0 v0 = true) (t : Nat) :
    ((SC.init v0).mem .seq = 0 ∧ (∀ o, (SC.init v0).mem (.b o) = 0 ∧ (SC.init v0).mem (.v o) = v0) ∧
      (SC.init v0).hist = [(0, v0)] ∧ (SC.init v0).held = none ∧ (SC.init v0).poisoned = false ∧
      ∀ t', ((SC.init v0).thr t').pc = .idle) ∧
    ((RA.init v0).mem .seq = [⟨0, View.bot⟩] ∧
      (∀ o, (RA.init v0).mem (.b o) = [⟨0, View.bot⟩] ∧ (RA.init v0).mem (.v o) = [⟨v0, View.bot⟩]) ∧
      (RA.init v0).hist = [(0, v0)] ∧ (RA.init v0).held = none ∧ (RA.init v0).poisoned = false ∧
      (RA.init v0).mview = View.bot ∧
      ∀ t', ((RA.init v0).thr t').loc.pc = .idle ∧ ((RA.init v0).thr t').view = View.bot) ∧
    (∃ s', SC.run chk (SC.init v0) (.start t .snapshot :: List.replicate 4 (.run t 0)) = some s' ∧
      (s'.thr t).result = some (.snap 0 v0)) ∧
    (∃ s', SC.run chk (SC.init v0) [.start t .sequence, .run t 0] = some s' ∧
      (s'.thr t).result = some (.seqv 0)) ∧
    (∃ s', RA.run chk (RA.init v0) (.start t .snapshot :: List.replicate 4 (.run t 0)) = some s' ∧
      (s'.thr t).loc.result = some (.snap 0 v0)) ∧
    (∃ s', RA.run chk (RA.init v0) [.start t .sequence, .run t 0] = some s' ∧
      (s'.thr t).loc.result = some (.seqv 0)) := by
  refine ⟨⟨rfl, fun o => ⟨rfl, rfl⟩, rfl, rfl, rfl, fun _ => rfl⟩,
    ⟨rfl, fun o => ⟨rfl, rfl⟩, rfl, rfl, rfl, rfl, fun _ => ⟨rfl, rfl⟩⟩, ?_, ?_, ?_, ?_⟩
  · simp [List.replicate, SC.run, SC.step, SC.init, Pc.terminal, Local.start, Local.next, Local.feedLoad,
      Local.result, upd_same, odd, h0]
  · simp [SC.run, SC.step, SC.init, Pc.terminal, Local.start, Local.next, Local.feedLoad, Local.result, upd_same]
  · simp [List.replicate, RA.run, RA.step, RA.init, Pc.terminal, Local.start, Local.next, Local.feedLoad,
      Local.result, odd, h0, View.bot, RA.loadView, View.join, upd]
  · simp [RA.run, RA.step, RA.init, Pc.terminal, Local.start, Local.next, Local.feedLoad, Local.result, upd_same,
      View.bot, RA.loadView]

end Woodpile.Props.C13Q

namespace Woodpile.Props.C13Q
open Woodpile.Abt

/-! ## Non-vacuity

`check b v := v = b + 100`, epoch voucher 100. -/

/-- The program: at `qSeq` the access is the relaxed load of the counter; fed 7 it returns 7. -/
example : ((({} : Local).start .sequence).pc = .qSeq) ∧ ({ pc := .qSeq } : Local).next = .load .seq .rlx ∧
    (({ pc := .qSeq } : Local).feedLoad (fun b v => v == b + 100) 7).result = some (.seqv 7) := by decide

/-- SC, completed calls.  Thread 1's `sequence()` starts while thread 0's `update (5, 105)` holds the
lock (before the sequence store) and takes its step after the update returned: it returns 1, with
`vStart = 0 ≤ 1 = vRet` (hypotheses of `sc_sequence_counts`; strictly between start and return);
thread 2 then snapshots (sequence number 1) and calls `sequence()`: 1 again (`sc_sequence_monotone`
with `R1` = thread 0's update, thread 1's `sequence()` and its own snapshot). -/
example :
    ((SC.mach (fun b v => v == b + 100)).grun ((SC.mach (fun b v => v == b + 100)).ginit (SC.init 100))
      [.start 2 .sequence, .run 2 0,
       .start 0 (.update 5 105), .run 0 0, .run 0 0, .run 0 0, .start 1 .sequence,
       .run 0 0, .run 0 0, .run 0 0, .run 0 0, .run 0 0, .run 1 0,
       .start 2 .snapshot, .run 2 0, .run 2 0, .run 2 0, .run 2 0, .start 2 .sequence, .run 2 0]).map
      (fun g => decide (g.done =
        [⟨2, .sequence, 1, 1, 18, 19, .seqv 1⟩, ⟨2, .snapshot, 1, 1, 13, 17, .snap 5 105⟩,
         ⟨1, .sequence, 0, 1, 6, 12, .seqv 1⟩, ⟨0, .update 5 105, 0, 1, 2, 11, .bool true⟩,
         ⟨2, .sequence, 0, 0, 0, 1, .seqv 0⟩] ∧ g.s.hist = [(0, 100), (5, 105)])) = some true := by
  decide

/-- The hypotheses of `sc_sequence_at_load` are satisfiable (thread 1 above, at `qSeq` while the
writer holds the lock after its slot stores), and the step returns `hist.length - 1 = 0`. -/
example :
    ((SC.mach (fun b v => v == b + 100)).grun ((SC.mach (fun b v => v == b + 100)).ginit (SC.init 100))
      [.start 0 (.update 5 105), .run 0 0, .run 0 0, .run 0 0, .run 0 0, .run 0 0, .run 0 0, .start 1 .sequence]).map
      (fun g => decide ((g.s.thr 1).pc = .qSeq ∧ (g.s.thr 0).pc = .aStSeq ∧ g.s.held = some 0 ∧
        (((SC.mach (fun b v => v == b + 100)).gstep g (.run 1 0)).map
          (fun g' => decide (g'.done = [⟨1, .sequence, 0, 0, 7, 8, .seqv 0⟩]))) = some true)) = some true := by
  decide

/-- RA, completed calls.  Thread 1 reads 0; thread 0 publishes `(5, 105)` and its own `sequence()`
must read the new message (its view of `sequence` is 1: reading message 0 is disabled) and
returns 1; thread 1, which has not synchronised, may still read the stale message 0 (allowed:
nothing happened-before it), then reads message 1; its snapshot then returns the pair of sequence
number 1 and its next `sequence()` returns 1 (≥ its previous result, ≥ the snapshot's sequence
number: `ra_sequence_monotone`). -/
example :
    ((RA.mach (fun b v => v == b + 100)).grun ((RA.mach (fun b v => v == b + 100)).ginit (RA.init 100))
      [.start 1 .sequence, .run 1 0,
       .start 0 (.update 5 105), .run 0 0, .run 0 0, .run 0 0, .run 0 0, .run 0 0, .run 0 0, .run 0 0, .run 0 0,
       .start 0 .sequence, .run 0 1,
       .start 1 .sequence, .run 1 0, .start 1 .sequence, .run 1 1,
       .start 1 .snapshot, .run 1 1, .run 1 1, .run 1 1, .run 1 1, .start 1 .sequence, .run 1 1]).map
      (fun g => decide (g.done =
        [⟨1, .sequence, 1, 1, 22, 23, .seqv 1⟩, ⟨1, .snapshot, 1, 1, 17, 21, .snap 5 105⟩,
         ⟨1, .sequence, 0, 1, 15, 16, .seqv 1⟩, ⟨1, .sequence, 0, 0, 13, 14, .seqv 0⟩,
         ⟨0, .sequence, 1, 1, 11, 12, .seqv 1⟩, ⟨0, .update 5 105, 0, 1, 2, 10, .bool true⟩,
         ⟨1, .sequence, 0, 0, 0, 1, .seqv 0⟩] ∧ g.s.hist = [(0, 100), (5, 105)])) = some true := by
  decide

/-- The hypotheses of `ra_sequence_at_load` / `ra_sequence_enabled` are satisfiable: after its own
update thread 0 is at `qSeq` with view 1: message 0 is not readable, message 1 is, and the step
leaves the record `sequence() = 1`; the relaxed load of thread 1 (view 0) reading message 1 moves
only its view of `sequence` (the slot views stay 0). -/
example :
    ((RA.mach (fun b v => v == b + 100)).grun ((RA.mach (fun b v => v == b + 100)).ginit (RA.init 100))
      [.start 0 (.update 5 105), .run 0 0, .run 0 0, .run 0 0, .run 0 0, .run 0 0, .run 0 0, .run 0 0, .run 0 0,
       .start 0 .sequence, .start 1 .sequence]).map
      (fun g => decide ((g.s.thr 0).loc.pc = .qSeq ∧ (g.s.thr 0).view .seq = 1 ∧
        ((RA.mach (fun b v => v == b + 100)).gstep g (.run 0 0)).isNone ∧
        (((RA.mach (fun b v => v == b + 100)).gstep g (.run 0 1)).map
          (fun g' => decide (g'.done.head? = some ⟨0, .sequence, 1, 1, 9, 11, .seqv 1⟩))) = some true ∧
        (((RA.mach (fun b v => v == b + 100)).gstep g (.run 1 1)).map
          (fun g' => decide (g'.done.head? = some ⟨1, .sequence, 0, 1, 10, 11, .seqv 1⟩ ∧
            (g'.s.thr 1).view .seq = 1 ∧ (g'.s.thr 1).view (.b true) = 0 ∧ (g'.s.thr 1).view (.v true) = 0))) = some true))
      = some true := by decide

/-- `ra_sequence_after_sync`: `g0` = after thread 0's completed update (`clock = 9`); thread 1
synchronises with thread 0 and then calls `sequence()`: message 0 is no longer readable, it returns 1. -/
example :
    ((RA.mach (fun b v => v == b + 100)).grun ((RA.mach (fun b v => v == b + 100)).ginit (RA.init 100))
      [.start 0 (.update 5 105), .run 0 0, .run 0 0, .run 0 0, .run 0 0, .run 0 0, .run 0 0, .run 0 0, .run 0 0]).map
      (fun g0 => decide ((⟨0, .update 5 105, 0, 1, 0, 8, .bool true⟩ : CallRec) ∈ g0.done ∧ g0.clock = 9 ∧
        (((RA.mach (fun b v => v == b + 100)).grun g0 [.sync 1 0, .start 1 .sequence, .run 1 0]).isNone) ∧
        (((RA.mach (fun b v => v == b + 100)).grun g0 [.sync 1 0, .start 1 .sequence, .run 1 1]).map
          (fun g2 => decide ((⟨1, .sequence, 1, 1, 10, 11, .seqv 1⟩ : CallRec) ∈ g2.done))) = some true))
      = some true := by decide

/-- `new_is_init` at a concrete check, and the one-step theorems' hypotheses (`terminal`) hold initially. -/
example : ((SC.init 100).thr 3).pc.terminal = true ∧ ((RA.init 100).thr 3).loc.pc.terminal = true ∧
    ((SC.run (fun b v => v == b + 100) (SC.init 100)
        [.start 3 .snapshot, .run 3 0, .run 3 0, .run 3 0, .run 3 0, .start 3 .sequence, .run 3 0]).map
      (fun s => decide ((s.thr 3).result = some (.seqv 0) ∧ (s.thr 3).base = 0 ∧ (s.thr 3).bits = 100 ∧ s.log 3 = [(0, 100)])))
      = some true := by decide

end Woodpile.Props.C13Q

/-
Lemmas about the public-API completion of the structural `OwningIovec` model
(`Model/IovecApi.lean`, track `apigaps`): every new function is characterised through the objects
the existing theorems already speak about (`IovInv`, `absCells`, `World.visible`, `step`), so that
the property theorems of `Props/C03A.lean`, `Props/C04A.lean`, `Props/C05A.lean` are corollaries
of the per-operation theorems of `Proofs/IovecAbs.lean`.
-/
import Woodpile.Model.IovecApi
import Woodpile.Proofs.IovecAbs

namespace Woodpile.Iovec.Api
open Woodpile.Iovec Woodpile.Arena
open Woodpile.Pipe (Cell Pipe)

/-! ### Caller buffers registered by `addExts` -/

/-- The borrowed slices that cover the buffers `bufs`, registered from buffer id `base` on. -/
def extSlices (base : Nat) : List (List UInt8) → List Slice
  | [] => []
  | b :: t => ⟨.ext base, 0, b.length⟩ :: extSlices (base + 1) t

/-- One step of `World.addExts`. -/
def addExtStep (acc : World × List Slice) (bs : List UInt8) : World × List Slice :=
  let (w1, id) := acc.1.addExt bs
  (w1, acc.2 ++ [⟨.ext id, 0, bs.length⟩])

theorem addExtStep_eq (w : World) (acc : List Slice) (b : List UInt8) :
    addExtStep (w, acc) b = ({ w with exts := w.exts ++ [b] }, acc ++ [⟨.ext w.exts.length, 0, b.length⟩]) := rfl

theorem addExts_go (bufs : List (List UInt8)) : ∀ (w : World) (acc : List Slice),
    bufs.foldl addExtStep (w, acc) = ({ w with exts := w.exts ++ bufs }, acc ++ extSlices w.exts.length bufs) := by
  induction bufs with
  | nil => intro w acc; simp [extSlices]
  | cons b t ih =>
    intro w acc
    rw [List.foldl_cons, addExtStep_eq, ih]
    simp [extSlices, List.append_assoc]

theorem addExts_eq (w : World) (bufs : List (List UInt8)) :
    w.addExts bufs = ({ w with exts := w.exts ++ bufs }, extSlices w.exts.length bufs) := by
  have : w.addExts bufs = bufs.foldl addExtStep (w, []) := rfl
  rw [this, addExts_go]
  simp

theorem extSlices_ext (base : Nat) (bufs : List (List UInt8)) :
    ∀ s ∈ extSlices base bufs, ∃ b, s.region = .ext b := by
  induction bufs generalizing base with
  | nil => intro s hs; cases hs
  | cons b t ih =>
    intro s hs
    simp only [extSlices, List.mem_cons] at hs
    rcases hs with rfl | hs
    · exact ⟨base, rfl⟩
    · exact ih (base + 1) s hs

/-- Each registered slice lies inside its buffer, and reads back exactly the buffer. -/
theorem extSlices_spec (bufs : List (List UInt8)) : ∀ (pre : List (List UInt8)) (w : World),
    w.exts = pre ++ bufs →
    w.flat (extSlices pre.length bufs) = bufs.flatten ∧
    ∀ s ∈ extSlices pre.length bufs, ∀ b, s.region = .ext b → s.off + s.len ≤ (w.exts.getD b []).length := by
  induction bufs with
  | nil => intro pre w _; exact ⟨rfl, fun s hs => by cases hs⟩
  | cons b t ih =>
    intro pre w hw
    have hw' : w.exts = (pre ++ [b]) ++ t := by rw [hw]; simp
    have hlen : (pre ++ [b]).length = pre.length + 1 := by simp
    obtain ⟨h1, h2⟩ := ih (pre ++ [b]) w hw'
    rw [hlen] at h1 h2
    have hget : (w.exts[pre.length]?).getD [] = b := by
      rw [hw]; simp
    refine ⟨?_, ?_⟩
    · simp only [extSlices, World.flat_cons, List.flatten_cons, h1]
      congr 1
      simp [World.sliceBytes, hget]
    · intro s hs b' hb'
      simp only [extSlices, List.mem_cons] at hs
      rcases hs with rfl | hs
      · simp only [Region.ext.injEq] at hb'
        subst hb'
        simp [List.getD_eq_getElem?_getD, hget]
      · exact h2 s hs b' hb'

theorem sliceBytes_len_zero (w : World) (s : Slice) (h : s.len = 0) : w.sliceBytes s = [] := by
  unfold World.sliceBytes
  cases s.region with
  | chunk k => simp [Heap.read, h]
  | ext b => simp [h]

theorem flat_filter_pos (w : World) (l : List Slice) : w.flat (l.filter (fun s => s.len > 0)) = w.flat l := by
  induction l with
  | nil => rfl
  | cons s t ih =>
    by_cases hs : s.len > 0
    · simp [hs, ih]
    · have h0 : s.len = 0 := by omega
      simp [hs, ih, sliceBytes_len_zero w s h0]

/-! ### `new_from_slices` (hence `from_iter`, both impls) establishes the invariant -/

theorem iov_addIov (w : World) (v : Iov) : (w.addIov v).1.iov (w.addIov v).2 = some v := by
  simp [World.addIov, World.iov, List.getD_eq_getElem?_getD]

/-- `new_from_slices(slices, arena)` for borrowed in-bounds slices and a fresh-or-empty arena: the new
iovec satisfies the structural invariant, nothing is pending, and it abstracts to the byte cells of
the concatenated slices (empty ones dropped — they have no bytes). -/
theorem newFromSlices_spec (w : World) (slices : List Slice) (ar : Arena)
    (hext : ∀ s ∈ slices, ∃ b, s.region = .ext b)
    (hin : ∀ s ∈ slices, ∀ b, s.region = .ext b → s.off + s.len ≤ (w.exts.getD b []).length)
    (har : ∀ ca, ar.cache = some ca → ca.chunk < w.next) :
    ∃ v, (w.newFromSlices slices ar).1.iov (w.newFromSlices slices ar).2 = some v ∧
      IovInv (w.newFromSlices slices ar).1 v ∧ v.backrefs = [] ∧ v.consumedSize = 0 ∧ v.arena = ar ∧
      v.slices = slices.filter (fun s => s.len > 0) ∧
      (w.newFromSlices slices ar).1.flat v.slices = w.flat slices := by
  unfold World.newFromSlices
  refine ⟨_, iov_addIov _ _, ?_, rfl, rfl, rfl, rfl, ?_⟩
  · have hmem : ∀ s ∈ slices.filter (fun s => s.len > 0), s ∈ slices ∧ 0 < s.len := by
      intro s hs
      rw [List.mem_filter] at hs
      exact ⟨hs.1, by simpa using hs.2⟩
    exact {
      slices_ok := by
        intro s hs
        obtain ⟨hm, hp⟩ := hmem s hs
        obtain ⟨b, hb⟩ := hext s hm
        exact ⟨hp, fun b' hb' => hin s hm b' hb', fun c hc => by rw [hb] at hc; cases hc⟩
      ordered := by
        unfold SlicesOrdered
        apply List.Pairwise.imp_of_mem (R := fun _ _ => True)
        · intro a b ha _ _ c hc
          obtain ⟨b', hb'⟩ := hext a (hmem a ha).1
          rw [hb'] at hc; cases hc
        · exact List.pairwise_of_forall (fun _ _ => trivial)
      size_eq := by
        simp only [Iov.empty, foldl_add_eq_sum, sumLens]
        omega
      anchors_sum := by
        by_cases he : (slices.filter (fun s => s.len > 0)).isEmpty
        · simp only [he, if_true, sumCounts_nil]
          simp only [List.isEmpty_iff] at he
          simp [he]
        · simp [he]
      cache_fresh := by
        intro ca hca
        exact har ca hca
      br_ok := by intro e he; simp [Iov.empty] at he
      br_sorted := by simp [Iov.empty] }
  · rw [flat_filter_pos]
    exact flat_congr _ (fun s _ => sliceBytes_congr s rfl rfl)

/-- Cells of an iovec with nothing pending: all bytes. -/
theorem absCells_no_backrefs (w : World) (v : Iov) (hb : v.backrefs = []) :
    absCells w v = (w.flat v.slices).map Cell.byte := by
  unfold absCells
  apply mkCells_none
  intro j _
  rw [hb]; rfl

theorem visible_no_backrefs (w : World) (v : Iov) (hb : v.backrefs = []) : w.visible v = w.flat v.slices := by
  unfold World.visible; rw [stableN_nil v hb, List.take_length]

/-! ### The pure read methods under the invariant -/

theorem stablePrefix_of_inv {w : World} {v : Iov} (h : IovInv w v) :
    v.stablePrefix = some (v.slices.take v.stableN) := by
  unfold Iov.stablePrefix; rw [h.stableCount]

theorem foldl_sliceBytes (w : World) (ss : List Slice) (dst : List UInt8) :
    ss.foldl (fun acc s => acc ++ w.sliceBytes s) dst = dst ++ w.flat ss := by
  induction ss generalizing dst with
  | nil => simp
  | cons s t ih => simp [ih, List.append_assoc]

/-- `flatten_into(dst)`: `dst` followed by the stable bytes; `Ok` iff nothing is pending. -/
theorem flattenInto_spec {w : World} {v : Iov} (h : IovInv w v) (dst : List UInt8) :
    w.flattenInto v dst = some (!v.hasPending, dst ++ w.visible v) := by
  unfold World.flattenInto World.flattenIntoImpl
  rw [stablePrefix_of_inv h]
  simp only [foldl_sliceBytes, World.visible]

theorem iovs_spec {w : World} {v : Iov} (h : IovInv w v) :
    v.iovs = some (!v.hasPending, v.slices.take v.stableN) := by
  unfold Iov.iovs; rw [stablePrefix_of_inv h]

theorem front_spec {w : World} {v : Iov} (h : IovInv w v) :
    v.front = some ((v.slices.take v.stableN).head?) := by
  unfold Iov.front; rw [stablePrefix_of_inv h]

theorem iter_spec {w : World} {v : Iov} (h : IovInv w v) :
    v.iter = some (v.slices.take v.stableN) := stablePrefix_of_inv h

/-- `front()` is `None` exactly when no byte is readable; otherwise it is a non-empty slice of the
iovec whose bytes are a prefix of the readable bytes. -/
theorem front_cases {w : World} {v : Iov} (h : IovInv w v) :
    (v.front = some none ∧ w.visible v = []) ∨
    (∃ s, v.front = some (some s) ∧ s ∈ v.slices.take v.stableN ∧ 0 < s.len ∧
      w.sliceBytes s ≠ [] ∧ w.sliceBytes s <+: w.visible v) := by
  rw [front_spec h]
  unfold World.visible
  cases hs : v.slices.take v.stableN with
  | nil => left; exact ⟨rfl, rfl⟩
  | cons s t =>
    right
    have hm : s ∈ v.slices := List.mem_of_mem_take (by rw [hs]; simp)
    have hok := h.slices_ok s hm
    have hl := sliceBytes_length w v.arena s hok
    refine ⟨s, rfl, by simp, hok.pos, ?_, by simp⟩
    intro he
    rw [he] at hl
    have := hok.pos
    simp at hl
    omega

/-! ### `impl Read for ConsumingIovec` as written (loop of `front` + `advance_slices`) -/

theorem readViaFront_eq (fuel : Nat) : ∀ (w : World) (i room : Nat) (acc : List UInt8),
    World.readViaFront fuel w i room acc = World.readInto fuel w i room acc := by
  induction fuel with
  | zero => intro w i room acc; rfl
  | succ n ih =>
    intro w i room acc
    unfold World.readViaFront World.readInto
    by_cases hr : room = 0
    · simp [hr]
    · simp only [hr, if_false]
      cases hv : w.iov i with
      | none => rfl
      | some v =>
        simp only [Iov.front, Iov.stablePrefix]
        cases hc : v.stableCount with
        | none => rfl
        | some k =>
          simp only []
          cases hh : (v.slices.take k).head? with
          | none => rfl
          | some s =>
            simp only []
            cases ha : w.advance i (min s.len room) with
            | none => rfl
            | some p => simp only [ih]

/-! ### `StableIovec` -/

theorem tryStable_eq_not_pending {w : World} {v : Iov} (h : IovInv w v) :
    v.tryStable = !(absCells w v).any (fun c => !c.isByte) := by
  unfold Iov.tryStable; rw [hasPending_eq_pending h]

/-- Behind a `StableIovec` every buffered byte is exposed. -/
theorem stable_views {w : World} {v : Iov} (h : IovInv w v) (hs : v.tryStable = true) (dst : List UInt8) :
    w.stableIovs v = some v.slices ∧ w.stableFlatten v = some (w.flat v.slices) ∧
    w.stableFlattenInto v dst = some (dst ++ w.flat v.slices) ∧
    absCells w v = (w.flat v.slices).map Cell.byte := by
  have hp : v.hasPending = false := by
    unfold Iov.tryStable at hs
    cases hq : v.hasPending with
    | false => rfl
    | true => rw [hq] at hs; simp at hs
  have hb : v.backrefs = [] := by
    unfold Iov.hasPending at hp
    cases hbb : v.backrefs with
    | nil => rfl
    | cons _ _ => rw [hbb] at hp; simp at hp
  have hn : v.stableN = v.slices.length := stableN_nil v hb
  unfold World.stableIovs World.stableFlatten World.stableFlattenInto World.flattenIntoImpl
  rw [stablePrefix_of_inv h, hn, List.take_length]
  simp only [foldl_sliceBytes, List.nil_append]
  refine ⟨?_, ?_, ?_, absCells_no_backrefs w v hb⟩ <;> simp

/-! ### Pipe-level corollaries -/

theorem cellBytes_map_byte (bs : List UInt8) : Woodpile.Pipe.cellBytes (bs.map Cell.byte) = bs := by
  have := cellBytes_map_byte_append bs []
  simpa [Woodpile.Pipe.cellBytes] using this

/-- What the read accessors expose is a prefix of the pipe's stable bytes. -/
theorem visible_prefix_stable (i : Nat) (s : State) (v : Iov) (hv : s.w.iov i = some v) (hi : IovInv s.w v) :
    s.w.visible v <+: (abs i s).stable := by
  have hcells : (abs i s).cells = (s.w.visible v).map Cell.byte ++
      mkCells v.backrefs (v.consumedSize + (s.w.visible v).length) (s.w.flat (v.slices.drop v.stableN)) := by
    rw [abs_eq i s v hv]; exact absCells_visible hi
  rw [Pipe.stable_of_cells (abs i s) _ _ hcells]
  exact List.prefix_append _ _

end Woodpile.Iovec.Api

/-! ### `new_from_slices(slices, Some(arena))` is the history `new_from_arena(arena); extend(slices)` -/

namespace Woodpile.Iovec.Api
open Woodpile.Iovec Woodpile.Arena

/-- An iovec that only holds borrowed slices `ss` (what `new_from_slices` builds). -/
def borrowedIov (ar : Arena) (ss : List Slice) : Iov :=
  { Iov.empty with slices := ss, anchors := if ss.isEmpty then [] else [⟨ss.length, none⟩], arena := ar,
                   logicalSize := (ss.map (·.len)).foldl (· + ·) 0 }

theorem arenaContains_ext (a : Arena) (s : Slice) (b : Nat) (h : s.region = .ext b) : arenaContains a s = false := by
  unfold arenaContains
  cases a.cache with
  | none => rfl
  | some c => simp [h]

theorem tryJoin_ext (a : Arena) (l r : Slice) (b : Nat) (h : l.region = .ext b) : tryJoin a l r = none := by
  unfold tryJoin
  simp [arenaContains_ext a l b h]

theorem setIov_setIov (w : World) (i : Nat) (a b : Option Iov) : (w.setIov i a).setIov i b = w.setIov i b := by
  unfold World.setIov
  simp only [World.mk.injEq, and_true, true_and]
  unfold listSet
  by_cases h : i < w.iovs.length
  · simp [h]
  · simp only [h, if_false]
    have hl : (w.iovs ++ List.replicate (i - w.iovs.length) none ++ [a]).length = i + 1 := by
      simp; omega
    rw [if_pos (by rw [hl]; omega)]
    rw [List.set_append_right _ _ (by simp; omega)]
    have : i - (w.iovs ++ List.replicate (i - w.iovs.length) none).length = 0 := by simp; omega
    rw [this]
    simp

/-- `optimize` cannot merge when the slices are caller buffers. -/
theorem optimize_borrowed (ar : Arena) (l : List Slice) (hext : ∀ x ∈ l, ∃ b, x.region = .ext b) :
    (borrowedIov ar l).optimize = some (borrowedIov ar l) := by
  unfold Iov.optimize
  by_cases hn : (borrowedIov ar l).slices.length < 2
  · simp only [hn, if_true]
  · simp only [hn, if_false]
    have hlen : (borrowedIov ar l).slices.length = l.length := rfl
    rw [hlen] at hn
    have hne : l.isEmpty = false := by
      cases l with
      | nil => simp at hn
      | cons _ _ => rfl
    have hlast : (borrowedIov ar l).anchors.getLast? = some ⟨l.length, none⟩ := by
      simp [borrowedIov, hne]
    rw [hlast]
    simp only
    have hc0 : ¬ l.length = 0 := by omega
    rw [if_neg hc0, if_neg hn]
    have hidx : l.length - 2 < l.length := by omega
    have hmem : (borrowedIov ar l).slices.getD ((borrowedIov ar l).slices.length - 2) ⟨.ext 0, 0, 0⟩ ∈ l := by
      show l.getD (l.length - 2) _ ∈ l
      rw [List.getD_eq_getElem?_getD, List.getElem?_eq_getElem hidx]
      exact List.getElem_mem hidx
    obtain ⟨b, hb⟩ := hext _ hmem
    rw [tryJoin_ext _ _ _ b hb]

theorem pushBorrowedSlice_borrowed (ar : Arena) (pre : List Slice) (s : Slice)
    (hext : ∀ x ∈ pre ++ [s], ∃ b, x.region = .ext b) (hs : s.len ≠ 0) :
    (borrowedIov ar pre).pushBorrowedSlice s = some (borrowedIov ar (pre ++ [s])) := by
  unfold Iov.pushBorrowedSlice
  rw [if_neg hs]
  have key : ∀ X : Iov, X = borrowedIov ar (pre ++ [s]) → X.optimize = some (borrowedIov ar (pre ++ [s])) := by
    intro X hX; rw [hX]; exact optimize_borrowed ar _ hext
  apply key
  cases pre with
  | nil => simp [borrowedIov, Iov.empty, setLast]
  | cons p t => simp [borrowedIov, Iov.empty, setLast, List.foldl_append]

theorem foldl_sum_filter_pos (l : List Slice) :
    ((l.filter (fun s => s.len > 0)).map (·.len)).foldl (· + ·) 0 = (l.map (·.len)).foldl (· + ·) 0 := by
  rw [foldl_add_eq_sum, foldl_add_eq_sum]
  induction l with
  | nil => rfl
  | cons s t ih =>
    by_cases hs : s.len > 0
    · simp [hs, ih]
    · have : s.len = 0 := by omega
      simp [ih, this]

/-- `extend` with borrowed slices on an iovec that only holds borrowed slices. -/
theorem extend_borrowed (n : Nat) (ar : Arena) : ∀ (new pre : List Slice) (W : World),
    (∀ x ∈ pre ++ new, ∃ b, x.region = .ext b) →
    W.iov n = some (borrowedIov ar pre) →
    W.extend n new = some (W.setIov n (some (borrowedIov ar (pre ++ new.filter (fun s => s.len > 0))))) := by
  intro new
  induction new with
  | nil =>
    intro pre W _ hv
    simp only [World.extend, List.filter_nil, List.append_nil]
    congr 1
    unfold World.setIov World.iov at *
    cases W
    simp only [World.mk.injEq, true_and, and_true] at *
    unfold listSet
    by_cases h : n < ‹List (Option Iov)›.length
    · simp only [h, if_true]
      apply List.ext_getElem?
      intro k
      rw [List.getElem?_set]
      by_cases hk : n = k
      · subst hk
        simp only [h, if_true]
        rw [List.getD_eq_getElem?_getD] at hv
        rw [List.getElem?_eq_getElem h] at hv ⊢
        simpa using hv
      · simp [hk]
    · exfalso
      rw [List.getD_eq_getElem?_getD, List.getElem?_eq_none (by omega)] at hv
      simp at hv
  | cons s rest ih =>
    intro pre W hext hv
    unfold World.extend
    by_cases hs : s.len = 0
    · rw [if_pos hs]
      have hf : (s :: rest).filter (fun s => s.len > 0) = rest.filter (fun s => s.len > 0) := by
        simp [hs]
      rw [hf]
      exact ih pre W (fun x hx => hext x (by
        rcases List.mem_append.mp hx with h | h
        · exact List.mem_append.mpr (Or.inl h)
        · exact List.mem_append.mpr (Or.inr (List.mem_cons_of_mem _ h)))) hv
    · rw [if_neg hs]
      have hpb : W.pushBorrowed n s = some (W.setIov n (some (borrowedIov ar (pre ++ [s])))) := by
        unfold World.pushBorrowed
        rw [hv]
        simp only [hs, if_false]
        rw [pushBorrowedSlice_borrowed ar pre s (fun x hx => hext x (by
          rcases List.mem_append.mp hx with h | h
          · exact List.mem_append.mpr (Or.inl h)
          · simp only [List.mem_singleton] at h; subst h; simp)) hs]
      rw [hpb]
      simp only
      have hf : (s :: rest).filter (fun s => s.len > 0) = s :: rest.filter (fun s => s.len > 0) := by
        have : s.len > 0 := by omega
        simp [this]
      rw [hf]
      have := ih (pre ++ [s]) (W.setIov n (some (borrowedIov ar (pre ++ [s]))))
        (fun x hx => hext x (by
          rcases List.mem_append.mp hx with h | h
          · rcases List.mem_append.mp h with h' | h'
            · exact List.mem_append.mpr (Or.inl h')
            · simp only [List.mem_singleton] at h'; subst h'; simp
          · exact List.mem_append.mpr (Or.inr (List.mem_cons_of_mem _ h))))
        (by simp)
      rw [this, setIov_setIov]
      simp [List.append_assoc]

end Woodpile.Iovec.Api

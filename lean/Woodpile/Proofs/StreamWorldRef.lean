/-
The world-level chunker (`Model/StreamWorld.lean`: `pumpW`) returns the SAME chunks as the byte-level
chunker of C08 / C06 (`Model/Stream.lean`: `pump`): same verdict, same offsets, same bytes (the bytes of a
`Data` chunk are the bytes the world holds at the anchored slice handed out), same reader position, same
request sizes — for every stream, reader script, block size, arena position and world.  The byte-level
result does not depend on the arena at all (`Stream.pump_arena`), so nothing about the arena is assumed.

The relation carried between the two chunker states is `CRel`: the world's detached slice `self.buf` holds
exactly the byte-level buffer, and the offsets agree.
-/
import Woodpile.Proofs.StreamWorld
import Woodpile.Proofs.Stream

namespace Woodpile.StreamWorld
open Woodpile.Arena Woodpile.ReadN Woodpile.Hcobs Woodpile.Iovec Woodpile.Stream Woodpile.EncWorld

/-! ### What the operations of `pump` do to the detached slices -/

theorem aslice_lt {w : World} {j : Nat} {a : ASlice} (h : w.aslice j = some a) : j < w.aslices.length := by
  apply Nat.lt_of_not_le
  intro hge
  rw [aslice_none_of_ge w j hge] at h
  cases h

theorem listSet_length_lt {α} (l : List α) (i : Nat) (x d : α) (h : i < l.length) :
    (listSet l i x d).length = l.length := by
  simp [listSet, h]

theorem setASlice_length {w : World} {j : Nat} (x : Option ASlice) (h : j < w.aslices.length) :
    (w.setASlice j x).aslices.length = w.aslices.length := listSet_length_lt _ _ _ _ h

theorem sliceBytes_setASlice (w : World) (j : Nat) (x : Option ASlice) (s : Slice) :
    (w.setASlice j x).sliceBytes s = w.sliceBytes s := rfl

theorem sliceBytes_addASlice (w : World) (a : ASlice) (s : Slice) :
    (w.addASlice a).1.sliceBytes s = w.sliceBytes s := rfl

theorem sliceBytes_empty (w : World) : w.sliceBytes ASlice.empty.slice = [] := by
  simp [World.sliceBytes, ASlice.empty]

/-- `self.buf.take()`. -/
theorem sTake_effect {w w1 : World} {si : Nat} {b : ASlice} (hb : w.aslice si = some b)
    (h : w.step (.sTake si) = some w1) :
    w1.aslices.length = w.aslices.length + 1 ∧ w1.aslice si = some ASlice.empty ∧
    w1.aslice w.aslices.length = some b ∧ (∀ s, w1.sliceBytes s = w.sliceBytes s) := by
  simp only [World.step, hb, Option.some.injEq] at h
  subst h
  have hlt := aslice_lt hb
  refine ⟨?_, ?_, ?_, fun _ => rfl⟩
  · simp [World.addASlice, setASlice_length _ hlt]
  · rw [aslice_addASlice, setASlice_length _ hlt, if_neg (by omega), aslice_setASlice, if_pos rfl]
  · rw [aslice_addASlice, setASlice_length _ hlt, if_pos rfl]

/-- `drop(x)` of a detached slice. -/
theorem sDrop_effect {w w1 : World} {si : Nat} (h : w.step (.sDrop si) = some w1) :
    (∀ j, j ≠ si → w1.aslice j = w.aslice j) ∧ w1.aslices.length = w.aslices.length ∧
    (∀ s, w1.sliceBytes s = w.sliceBytes s) := by
  simp only [World.step] at h
  cases hb : w.aslice si with
  | none => rw [hb] at h; cases h
  | some b =>
    rw [hb] at h
    simp only [Option.some.injEq] at h
    subst h
    refine ⟨fun j hj => by rw [aslice_setASlice, if_neg hj], setASlice_length _ (aslice_lt hb), fun _ => rfl⟩

theorem readN_out (w : World) (a : Arena) (r : Reader) (count attempts : Nat) (hc : count ≠ 0) :
    (w.readN a r count attempts).2.2.2 = readNCore r count attempts := by
  unfold World.readN
  rw [if_neg hc]
  generalize alloc w.tun a w.next count = al
  obtain ⟨a1, next1, chunk, off⟩ := al
  simp only
  cases (readNCore r count attempts).res <;> rfl

/-- The result of `World.readN`: what is added to the world. -/
theorem readN_result (w : World) (a : Arena) (r : Reader) (count attempts : Nat) :
    (count = 0 → (w.readN a r count attempts).1 = w ∧ (w.readN a r count attempts).2.2.1 = .ok ASlice.empty) ∧
    (count ≠ 0 →
      (∀ k, (readNCore r count attempts).res = .err k → (w.readN a r count attempts).2.2.1 = .error k) ∧
      (∀ got, (readNCore r count attempts).res = .ok got → ∃ x, (w.readN a r count attempts).2.2.1 = .ok x ∧
        x.slice.len = got.length ∧ (∃ c, x.slice.region = .chunk c) ∧
        (w.readN a r count attempts).1.sliceBytes x.slice = got)) := by
  refine ⟨fun hc => ?_, fun hc => ?_⟩
  · subst hc; simp [World.readN]
  · unfold World.readN
    rw [if_neg hc]
    generalize alloc w.tun a w.next count = al
    obtain ⟨a1, next1, chunk, off⟩ := al
    simp only
    refine ⟨fun k hk => by rw [hk], fun got hg => ?_⟩
    rw [hg]
    refine ⟨_, rfl, rfl, ⟨chunk, rfl⟩, ?_⟩
    show Heap.read _ chunk off got.length = got
    exact Heap.read_write_same _ _ _ _

theorem readN_shape (w : World) (a : Arena) (r : Reader) (count attempts : Nat) :
    ∃ hp nx, (w.readN a r count attempts).1 = { w with heap := hp, next := nx } := by
  unfold World.readN
  split
  · exact ⟨w.heap, w.next, rfl⟩
  · generalize alloc w.tun a w.next count = al
    obtain ⟨a1, next1, chunk, off⟩ := al
    simp only
    cases (readNCore r count attempts).res <;> exact ⟨_, _, rfl⟩

/-- `arena.read_n(reader, count, attempts)` on either kind of arena: which detached slice appears. -/
theorem readOp_effect {w w' : World} (X : ArenaAt) (count attempts : Nat) (r : Reader)
    (hs : w.step (readOp X count attempts r) = some w') :
    (count = 0 → w'.aslices = w.aslices ++ [some ASlice.empty] ∧ ∀ s, w'.sliceBytes s = w.sliceBytes s) ∧
    (count ≠ 0 →
      (∀ k, (readNCore r count attempts).res = .err k → w'.aslices = w.aslices) ∧
      (∀ got, (readNCore r count attempts).res = .ok got → ∃ x, w'.aslices = w.aslices ++ [some x] ∧
        x.slice.len = got.length ∧ (∃ c, x.slice.region = .chunk c) ∧ w'.sliceBytes x.slice = got)) := by
  have hr : (⟨r.src, r.script⟩ : Reader) = r := rfl
  -- the part common to both arms: `res` and the world `w1 = { w with heap, next }` after `readN`
  have common : ∀ (a : Arena) (w1 : World) (ar' : Arena) (res : Except Nat ASlice) (o : Out) (W : World),
      w.readN a r count attempts = (w1, ar', res, o) → W.aslices = w1.aslices →
      (∀ s, W.sliceBytes s = w1.sliceBytes s) →
      (match res with
        | .ok x => some (W.addASlice x).1
        | .error _ => some W) = some w' →
      (count = 0 → w'.aslices = w.aslices ++ [some ASlice.empty] ∧ ∀ s, w'.sliceBytes s = w.sliceBytes s) ∧
      (count ≠ 0 →
        (∀ k, (readNCore r count attempts).res = .err k → w'.aslices = w.aslices) ∧
        (∀ got, (readNCore r count attempts).res = .ok got → ∃ x, w'.aslices = w.aslices ++ [some x] ∧
          x.slice.len = got.length ∧ (∃ c, x.slice.region = .chunk c) ∧ w'.sliceBytes x.slice = got)) := by
    intro a w1 ar' res o W hrd hWa hWb hres
    obtain ⟨h0, h1⟩ := readN_result w a r count attempts
    obtain ⟨hp, nx, hsh⟩ := readN_shape w a r count attempts
    rw [hrd] at h0 h1 hsh
    simp only at h0 h1 hsh
    have hw1 : w1.aslices = w.aslices := by rw [hsh]
    refine ⟨fun hc => ?_, fun hc => ⟨fun k hk => ?_, fun got hg => ?_⟩⟩
    · obtain ⟨e1, e2⟩ := h0 hc
      rw [e2] at hres
      simp only [Option.some.injEq] at hres
      subst hres
      refine ⟨by simp only [World.addASlice]; rw [hWa, hw1], fun s => ?_⟩
      rw [sliceBytes_addASlice, hWb, e1]
    · rw [(h1 hc).1 k hk] at hres
      simp only [Option.some.injEq] at hres
      subst hres
      rw [hWa, hw1]
    · obtain ⟨x, e1, e2, e3, e4⟩ := (h1 hc).2 got hg
      rw [e1] at hres
      simp only [Option.some.injEq] at hres
      subst hres
      exact ⟨x, by simp only [World.addASlice]; rw [hWa, hw1], e2, e3, by rw [sliceBytes_addASlice, hWb]; exact e4⟩
  cases X with
  | iov j =>
    simp only [readOp, World.step, World.readNIov, hr] at hs
    cases hv : w.iov j with
    | none => rw [hv] at hs; cases hs
    | some v =>
      rw [hv] at hs
      simp only at hs
      rcases hrd : w.readN v.arena r count attempts with ⟨w1, ar', res, o⟩
      rw [hrd] at hs
      simp only at hs
      exact common v.arena w1 ar' res o _ hrd (by split <;> rfl) (fun s => by split <;> rfl) hs
  | arena j =>
    simp only [readOp, World.step, World.readNArena, hr] at hs
    cases hv : w.arena j with
    | none => rw [hv] at hs; cases hs
    | some ar =>
      rw [hv] at hs
      simp only at hs
      rcases hrd : w.readN ar r count attempts with ⟨w1, ar', res, o⟩
      rw [hrd] at hs
      simp only at hs
      exact common ar w1 ar' res o (w1.setArena j (some ar')) hrd rfl (fun s => rfl) hs

theorem aslice_of_snoc {w w' : World} {x : Option ASlice} (h : w'.aslices = w.aslices ++ [x]) (j : Nat) :
    w'.aslice j = if j = w.aslices.length then x else w.aslice j := by
  show w'.aslices.getD j none = _
  rw [h]
  exact getD_append_one ..

theorem aslice_of_same {w w' : World} (h : w'.aslices = w.aslices) (j : Nat) : w'.aslice j = w.aslice j := by
  show w'.aslices.getD j none = w.aslices.getD j none
  rw [h]

/-- The read of one refill iteration, `count = 0` included: an error adds nothing; success adds one detached
slice that holds exactly the bytes read. -/
theorem readOp_unified {w w' : World} (X : ArenaAt) (count attempts : Nat) (r r0 : Reader)
    (hs : w.step (readOp X count attempts r) = some w') :
    (∀ k, (if count = 0 then (⟨.ok [], [], r0⟩ : Out) else readNCore r count attempts).res = .err k →
      w'.aslices = w.aslices) ∧
    (∀ got, (if count = 0 then (⟨.ok [], [], r0⟩ : Out) else readNCore r count attempts).res = .ok got →
      ∃ x, w'.aslices = w.aslices ++ [some x] ∧ x.slice.len = got.length ∧ w'.sliceBytes x.slice = got) := by
  obtain ⟨h0, h1⟩ := readOp_effect X count attempts r hs
  by_cases hc : count = 0
  · simp only [hc, if_true]
    refine ⟨(fun k hk => by cases hk), fun got hg => ?_⟩
    simp only [ReadRes.ok.injEq] at hg
    subst hg
    obtain ⟨e1, e2⟩ := h0 hc
    exact ⟨ASlice.empty, e1, rfl, by rw [e2]; exact sliceBytes_empty w⟩
  · simp only [hc, if_false]
    obtain ⟨e1, e2⟩ := h1 hc
    refine ⟨e1, fun got hg => ?_⟩
    obtain ⟨x, a1, a2, _, a4⟩ := e2 got hg
    exact ⟨x, a1, a2, a4⟩

/-! ### The relation between the two chunkers -/

/-- The world's detached slice `self.buf` holds exactly the byte-level buffer; the offsets agree. -/
structure CRel (w : World) (cw : ChunkerW) (c : Chunker) : Prop where
  buf : ∃ b, w.aslice cw.buf = some b ∧ w.sliceBytes b.slice = c.buf ∧ b.slice.len = c.buf.length
  off : cw.offset = c.offset

/-- Same verdict; a `Data` chunk's handle names a non-empty detached slice holding the byte-level chunk. -/
def ResRel (w : World) : PumpResW → PumpRes → Prop
  | .ok (.sentinel o), .ok (.sentinel o') => o = o'
  | .ok .eof, .ok .eof => True
  | .ok (.data o h), .ok (.data o' bs) =>
    o = o' ∧ ∃ a, w.aslice h = some a ∧ w.sliceBytes a.slice = bs ∧ a.slice.len = bs.length ∧ bs ≠ []
  | .ioerr k, .ioerr k' => k = k'
  | .panic, .panic => True
  | _, _ => False

/-- A `Data` chunk handed out is not the chunker's buffer, and does not overlap it. -/
def DataDisj (s' : PumpSt) : PumpResW → Prop
  | .ok (.data _ h) => h ≠ s'.c.buf ∧ ∃ a b', s'.w.aslice h = some a ∧ s'.w.aslice s'.c.buf = some b' ∧
      a.slice.Disj b'.slice
  | _ => True

def RefillRel (s' : PumpSt) (rf : RefillW) (out : Refill × Mem × Reader × List Nat) : Prop :=
  s'.r = out.2.2.1 ∧ s'.reqs = out.2.2.2 ∧
  match rf, out.1 with
  | .filled, .filled c' => CRel s'.w s'.c c'
  | .done res, .done res' c' => ResRel s'.w res res' ∧ CRel s'.w s'.c c' ∧ DataDisj s' res
  | _, _ => False

theorem readChained_fst (t : Tuning) (m : Mem) (carry : List UInt8) (r : Reader) (count : Nat) :
    (readChained t m carry r count).1 =
      if count = 0 then (⟨.ok [], [], r⟩ : Out)
      else readNCore (chain carry r) count ((chain carry r).script.length + 1) := by
  unfold readChained
  split
  · rfl
  · simp only [readN_fst]

theorem crel_empty_slot {w : World} {si : Nat} {off : Nat} (h : w.aslice si = some ASlice.empty) :
    CRel w ⟨si, off⟩ ⟨[], off⟩ :=
  ⟨⟨ASlice.empty, h, sliceBytes_empty w, rfl⟩, rfl⟩

theorem refillW_refines (X : ArenaAt) (count : Nat) (t : Tuning) : ∀ (fuel : Nat) (s : PumpSt) (c : Chunker)
    (m : Mem) (rf : RefillW) (s' : PumpSt), CRel s.w s.c c → refillW X count fuel s = some (rf, s') →
    RefillRel s' rf (refill t count fuel c m s.r s.reqs) := by
  intro fuel
  induction fuel with
  | zero =>
    intro s c m rf s' hrel h
    simp only [refillW, Option.some.injEq, Prod.mk.injEq] at h
    obtain ⟨rfl, rfl⟩ := h
    exact ⟨rfl, rfl, trivial, hrel, trivial⟩
  | succ fuel ih =>
    intro s c m rf s' hrel h
    obtain ⟨⟨b, hb, hbytes, hblen⟩, hoff⟩ := hrel
    simp only [refillW] at h
    rw [hb] at h
    simp only at h
    unfold refill
    by_cases h2 : 2 ≤ b.slice.len
    · rw [if_pos h2] at h
      simp only [Option.some.injEq, Prod.mk.injEq] at h
      obtain ⟨rfl, rfl⟩ := h
      rw [if_pos (by omega)]
      exact ⟨rfl, rfl, ⟨⟨b, hb, hbytes, hblen⟩, hoff⟩⟩
    · rw [if_neg h2] at h
      rw [if_neg (by omega)]
      simp only
      rw [hbytes] at h
      cases h1 : s.w.step (.sTake s.c.buf) with
      | none => rw [h1] at h; cases h
      | some w1 =>
        rw [h1] at h
        simp only at h
        obtain ⟨t1, t2, t3, t4⟩ := sTake_effect hb h1
        cases hr : w1.step (readOp X count ((chain c.buf s.r).script.length + 1) (chain c.buf s.r)) with
        | none => rw [hr] at h; cases h
        | some w2 =>
          rw [hr] at h
          simp only at h
          obtain ⟨u1, u2⟩ := readOp_unified X count _ (chain c.buf s.r) s.r hr
          cases hd : w2.step (.sDrop s.w.aslices.length) with
          | none => rw [hd] at h; cases h
          | some w3 =>
            rw [hd] at h
            simp only at h
            obtain ⟨d1, d2, d3⟩ := sDrop_effect hd
            have hsi : s.c.buf < s.w.aslices.length := aslice_lt hb
            rw [readChained_fst]
            generalize ho : (if count = 0 then (⟨.ok [], [], s.r⟩ : Out)
              else readNCore (chain c.buf s.r) count ((chain c.buf s.r).script.length + 1)) = o at h u1 u2 ⊢
            cases hres : o.res with
            | err k =>
              rw [hres] at h
              simp only [Option.some.injEq, Prod.mk.injEq] at h
              obtain ⟨rfl, rfl⟩ := h
              have hw2 := u1 k hres
              refine ⟨rfl, rfl, rfl, ?_⟩
              have : w3.aslice s.c.buf = some ASlice.empty := by
                rw [d1 _ (by omega), aslice_of_same hw2, t2]
              obtain ⟨cb, co⟩ := c
              simp only at hoff ⊢
              have e := crel_empty_slot (off := s.c.offset) this
              rw [hoff] at e
              exact ⟨⟨e.buf, hoff⟩, trivial⟩
            | ok got =>
              rw [hres] at h
              simp only at h ⊢
              obtain ⟨x, x1, x2, x3⟩ := u2 got hres
              have hx : w3.aslice (s.w.aslices.length + 1) = some x := by
                rw [d1 _ (by omega), aslice_of_snoc x1, t1, if_pos rfl]
              have hxb : w3.sliceBytes x.slice = got := by rw [d3]; exact x3
              have hslot : w3.aslice s.c.buf = some ASlice.empty := by
                rw [d1 _ (by omega), aslice_of_snoc x1, t1, if_neg (by omega), t2]
              rw [hblen] at h
              by_cases hnp : got.length = c.buf.length
              · rw [if_pos hnp] at h ⊢
                by_cases hge : got.isEmpty = true
                · rw [if_pos hge] at h ⊢
                  cases hd4 : w3.step (.sDrop (s.w.aslices.length + 1)) with
                  | none => rw [hd4] at h; cases h
                  | some w4 =>
                    rw [hd4] at h
                    simp only [Option.some.injEq, Prod.mk.injEq] at h
                    obtain ⟨rfl, rfl⟩ := h
                    obtain ⟨f1, _, _⟩ := sDrop_effect hd4
                    refine ⟨rfl, rfl, trivial, ?_⟩
                    have : w4.aslice s.c.buf = some ASlice.empty := by rw [f1 _ (by omega), hslot]
                    obtain ⟨cb, co⟩ := c
                    simp only at hoff ⊢
                    have e := crel_empty_slot (off := s.c.offset) this
                    rw [hoff] at e
                    exact ⟨⟨e.buf, hoff⟩, trivial⟩
                · rw [if_neg hge] at h ⊢
                  simp only [Option.some.injEq, Prod.mk.injEq] at h
                  obtain ⟨rfl, rfl⟩ := h
                  have hne : got ≠ [] := by intro e; rw [e] at hge; exact hge rfl
                  refine ⟨rfl, rfl, ⟨by rw [hoff], x, hx, hxb, x2, hne⟩, ?_, ?_⟩
                  · exact ⟨⟨ASlice.empty, hslot, sliceBytes_empty w3, rfl⟩, by simp only; rw [hoff]⟩
                  · refine ⟨by simp only; omega, x, ASlice.empty, hx, hslot, ?_⟩
                    intro c _ _
                    exact Or.inl rfl
              · rw [if_neg hnp] at h ⊢
                cases hd4 : w3.step (.sDrop s.c.buf) with
                | none => rw [hd4] at h; cases h
                | some w4 =>
                  rw [hd4] at h
                  simp only at h
                  obtain ⟨f1, _, f3⟩ := sDrop_effect hd4
                  have hrel' : CRel w4 { s.c with buf := s.w.aslices.length + 1 } { c with buf := got } :=
                    ⟨⟨x, by simp only; rw [f1 _ (by omega), hx], by rw [f3]; exact hxb, x2⟩, hoff⟩
                  exact ih _ _ _ rf s' hrel' h

/-! ### One `pump` -/

theorem sSkip_effect {w w' : World} {si k : Nat} {b : ASlice} (hb : w.aslice si = some b)
    (h : w.step (.sSkip si k) = some w') :
    w'.aslice si = some (b.skipPrefix k).1 ∧ ∀ s, w'.sliceBytes s = w.sliceBytes s := by
  simp only [World.step, hb, Option.some.injEq] at h
  subst h
  exact ⟨by rw [aslice_setASlice, if_pos rfl], fun _ => rfl⟩

theorem sSplit_effect {w w' : World} {si k : Nat} {b : ASlice} (hb : w.aslice si = some b)
    (h : w.step (.sSplit si k) = some w') :
    w'.aslice w.aslices.length = some (b.splitAt k).1 ∧ w'.aslice (w.aslices.length + 1) = some (b.splitAt k).2 ∧
    ∀ s, w'.sliceBytes s = w.sliceBytes s := by
  simp only [World.step, hb, Option.some.injEq] at h
  subst h
  have hlt := aslice_lt hb
  have hl1 : ((w.setASlice si none).addASlice (b.splitAt k).1).1.aslices.length = w.aslices.length + 1 := by
    simp [World.addASlice, setASlice_length _ hlt]
  refine ⟨?_, ?_, fun _ => rfl⟩
  · rw [aslice_addASlice, hl1, if_neg (by omega), aslice_addASlice, setASlice_length _ hlt, if_pos rfl]
  · rw [aslice_addASlice, hl1, if_pos rfl]

/-- A prefix of a slice reads a prefix of its bytes (any region). -/
theorem sliceBytes_take (w : World) (s : Slice) (k : Nat) (hk : k ≤ s.len) :
    w.sliceBytes { s with len := k } = (w.sliceBytes s).take k := by
  unfold World.sliceBytes
  cases hreg : s.region with
  | chunk c =>
    simp only
    have : s.len = k + (s.len - k) := by omega
    conv => rhs; rw [this, Heap.read_add]
    rw [List.take_left' (by simp)]
  | ext b =>
    simp only
    rw [List.take_take, Nat.min_eq_left hk]

def PumpRel (res : PumpResW) (s' : PumpSt) (o : PumpOut) : Prop :=
  ResRel s'.w res o.res ∧ CRel s'.w s'.c o.chunker ∧ s'.r = o.reader ∧ s'.reqs = o.reqs ∧ DataDisj s' res

/-- `pumpW` returns what the byte-level `pump` returns (for ANY tuning and arena on the byte-level side:
they do not influence its result), and the two chunkers stay related. -/
theorem pumpW_refines (clamp : Nat) (X : ArenaAt) (block : Nat) (t : Tuning) (s : PumpSt) (c : Chunker) (m : Mem)
    (res : PumpResW) (s' : PumpSt) (hrel : CRel s.w s.c c) (h : pumpW clamp X block s = some (res, s')) :
    PumpRel res s' (pump clamp t block c m s.r) := by
  simp only [pumpW] at h
  cases hr : refillW X (max block clamp) 3 { s with reqs := [] } with
  | none => rw [hr] at h; cases h
  | some y =>
    obtain ⟨rf, s1⟩ := y
    rw [hr] at h
    have hrf := refillW_refines X (max block clamp) t 3 { s with reqs := [] } c m rf s1 hrel hr
    simp only at hrf
    unfold pump
    simp only
    rcases hb : refill t (max block clamp) 3 c m s.r [] with ⟨rb, m', r', reqs'⟩
    rw [hb] at hrf
    obtain ⟨e1, e2, e3⟩ := hrf
    simp only at e1 e2 e3
    cases rf with
    | done rw =>
      cases rb with
      | filled c' => exact absurd e3 (by simp)
      | done rb c' =>
        simp only [Option.some.injEq, Prod.mk.injEq] at h
        obtain ⟨rfl, rfl⟩ := h
        exact ⟨e3.1, e3.2.1, e1, e2, e3.2.2⟩
    | filled =>
      cases rb with
      | done rb c' => exact absurd e3 (by simp)
      | filled c' =>
        simp only at h e3 ⊢
        obtain ⟨⟨b, hbb, hbytes, hblen⟩, hoff⟩ := e3
        rw [hbb] at h
        simp only at h
        rw [hbytes, hblen] at h
        by_cases hlt : c'.buf.length < 2
        · rw [if_pos hlt] at h ⊢
          simp only [Option.some.injEq, Prod.mk.injEq] at h
          obtain ⟨rfl, rfl⟩ := h
          exact ⟨trivial, ⟨⟨b, hbb, hbytes, hblen⟩, hoff⟩, e1, e2, trivial⟩
        · rw [if_neg hlt] at h ⊢
          by_cases hst : c'.buf.take 2 = [FE, FD]
          · rw [if_pos hst] at h ⊢
            cases hk : s1.w.step (.sSkip s1.c.buf 2) with
            | none => rw [hk] at h; cases h
            | some w' =>
              rw [hk] at h
              simp only [Option.some.injEq, Prod.mk.injEq] at h
              obtain ⟨rfl, rfl⟩ := h
              obtain ⟨k1, k2⟩ := sSkip_effect hbb hk
              refine ⟨by simp only [ResRel]; rw [hoff], ⟨⟨_, k1, ?_, ?_⟩, by simp only; rw [hoff]⟩, e1, e2, trivial⟩
              · rw [k2]
                have h2 : min 2 b.slice.len = 2 := by omega
                simp only [ASlice.skipPrefix, h2]
                rw [sliceBytes_trim s1.w b.slice 2 (by omega), hbytes]
              · simp only [ASlice.skipPrefix, List.length_drop]
                omega
          · rw [if_neg hst] at h ⊢
            by_cases hsp : splitPos c'.buf = 0
            · rw [if_pos hsp] at h ⊢
              simp only [Option.some.injEq, Prod.mk.injEq] at h
              obtain ⟨rfl, rfl⟩ := h
              exact ⟨trivial, ⟨⟨b, hbb, hbytes, hblen⟩, hoff⟩, e1, e2, trivial⟩
            · rw [if_neg hsp] at h ⊢
              cases hk : s1.w.step (.sSplit s1.c.buf (splitPos c'.buf)) with
              | none => rw [hk] at h; cases h
              | some w' =>
                rw [hk] at h
                simp only [Option.some.injEq, Prod.mk.injEq] at h
                obtain ⟨rfl, rfl⟩ := h
                obtain ⟨k1, k2, k3⟩ := sSplit_effect hbb hk
                have hpre : (c'.buf.take (splitPos c'.buf)).length = min (splitPos c'.buf) c'.buf.length := by
                  simp
                -- the two halves
                have halves : (s1.w.sliceBytes (b.splitAt (splitPos c'.buf)).1.slice = c'.buf.take (splitPos c'.buf) ∧
                    (b.splitAt (splitPos c'.buf)).1.slice.len = min (splitPos c'.buf) c'.buf.length) ∧
                    (s1.w.sliceBytes (b.splitAt (splitPos c'.buf)).2.slice = c'.buf.drop (splitPos c'.buf) ∧
                    (b.splitAt (splitPos c'.buf)).2.slice.len = (c'.buf.drop (splitPos c'.buf)).length) := by
                  unfold ASlice.splitAt
                  by_cases hge : splitPos c'.buf ≥ b.slice.len
                  · rw [if_pos hge]
                    simp only
                    refine ⟨⟨?_, by omega⟩, ?_, ?_⟩
                    · rw [hbytes, List.take_of_length_le (by omega)]
                    · rw [sliceBytes_empty, List.drop_eq_nil_of_le (by omega)]
                    · simp [ASlice.empty]; omega
                  · rw [if_neg hge]
                    simp only
                    refine ⟨⟨?_, by omega⟩, ?_, ?_⟩
                    · rw [sliceBytes_take s1.w b.slice _ (by omega), hbytes]
                    · rw [sliceBytes_trim s1.w b.slice _ (by omega), hbytes]
                    · simp only [List.length_drop]; omega
                obtain ⟨⟨l1, l2⟩, r1, r2⟩ := halves
                refine ⟨⟨by rw [hoff, hpre], _, k1, by rw [k3]; exact l1, by rw [l2, hpre], ?_⟩,
                  ⟨⟨_, k2, by rw [k3]; exact r1, r2⟩, by simp only; rw [hoff, hpre]⟩, e1, e2,
                  ⟨by simp only; omega, _, _, k1, k2, ?_⟩⟩
                rotate_left
                · unfold ASlice.splitAt
                  intro c _ _
                  by_cases hge : splitPos c'.buf ≥ b.slice.len
                  · rw [if_pos hge]; exact Or.inl rfl
                  · rw [if_neg hge]; simp only; omega
                intro hnil
                have : (c'.buf.take (splitPos c'.buf)).length = 0 := by rw [hnil]; rfl
                rw [hpre] at this
                omega

/-! ### Histories of a chunker and its caller -/

/-- What the caller sees of a world-level result at the time it is returned: the bytes of a `Data` chunk. -/
def absRes (w : World) : PumpResW → PumpRes
  | .ok (.sentinel o) => .ok (.sentinel o)
  | .ok .eof => .ok .eof
  | .ok (.data o h) => .ok (.data o (match w.aslice h with | some a => w.sliceBytes a.slice | none => []))
  | .ioerr k => .ioerr k
  | .panic => .panic

theorem ResRel.abs {w : World} {res : PumpResW} {res' : PumpRes} (h : ResRel w res res') : absRes w res = res' := by
  cases res with
  | ok ch =>
    cases ch with
    | sentinel o =>
      cases res' with
      | ok ch' => cases ch' <;> simp_all [ResRel, absRes]
      | ioerr k => exact absurd h (by simp [ResRel])
      | panic => exact absurd h (by simp [ResRel])
    | eof =>
      cases res' with
      | ok ch' => cases ch' <;> simp_all [ResRel, absRes]
      | ioerr k => exact absurd h (by simp [ResRel])
      | panic => exact absurd h (by simp [ResRel])
    | data o hd =>
      cases res' with
      | ok ch' =>
        cases ch' with
        | sentinel o' => exact absurd h (by simp [ResRel])
        | eof => exact absurd h (by simp [ResRel])
        | data o' bs =>
          obtain ⟨rfl, a, ha, hb, _, _⟩ := h
          simp [absRes, ha, hb]
      | ioerr k => exact absurd h (by simp [ResRel])
      | panic => exact absurd h (by simp [ResRel])
  | ioerr k =>
    cases res' with
    | ok ch' => exact absurd h (by simp [ResRel])
    | ioerr k' => simp only [ResRel] at h; subst h; rfl
    | panic => exact absurd h (by simp [ResRel])
  | panic =>
    cases res' with
    | ok ch' => exact absurd h (by simp [ResRel])
    | ioerr k' => exact absurd h (by simp [ResRel])
    | panic => rfl

/-- What a chunker's caller does: pump with some block size, or drop a chunk it was handed earlier. -/
inductive COp where
  | pump (block : Nat)
  | drop (h : Nat)
  deriving Repr, DecidableEq

/-- A history of the chunker and its caller; the results of the pumps (as the caller sees them when they are
returned).  Dropping the chunker's own buffer handle is not something a caller can do. -/
def chunkerRun (clamp : Nat) (X : ArenaAt) : List COp → PumpSt → Option (List PumpRes × PumpSt)
  | [], s => some ([], s)
  | .pump b :: ops, s =>
    match pumpW clamp X b s with
    | none => none
    | some (res, s') =>
      match chunkerRun clamp X ops s' with
      | none => none
      | some (rs, s'') => some (absRes s'.w res :: rs, s'')
  | .drop h :: ops, s =>
    if h = s.c.buf then none
    else
      match s.w.step (.sDrop h) with
      | none => none
      | some w' => chunkerRun clamp X ops { s with w := w' }

def blocksOf : List COp → List Nat
  | [] => []
  | .pump b :: t => b :: blocksOf t
  | .drop _ :: t => blocksOf t

/-- Every history of a world-level chunker and its caller (pumps with any block sizes, interleaved with the
caller dropping chunks it holds; any arena position, stream, reader script) returns, pump by pump, exactly
what the byte-level chunker of C08 returns — verdicts, offsets and BYTES — and leaves the reader where it
leaves it. -/
theorem chunkerRun_refines (clamp : Nat) (X : ArenaAt) (t : Tuning) : ∀ (ops : List COp) (s : PumpSt) (c : Chunker)
    (m : Mem) (rs : List PumpRes) (s' : PumpSt), CRel s.w s.c c → chunkerRun clamp X ops s = some (rs, s') →
    rs = (pumpSeq clamp t (blocksOf ops) c m s.r).1 ∧
    CRel s'.w s'.c (pumpSeq clamp t (blocksOf ops) c m s.r).2.1 ∧
    s'.r = (pumpSeq clamp t (blocksOf ops) c m s.r).2.2.2 := by
  intro ops
  induction ops with
  | nil =>
    intro s c m rs s' hrel h
    simp only [chunkerRun, Option.some.injEq, Prod.mk.injEq] at h
    obtain ⟨rfl, rfl⟩ := h
    exact ⟨rfl, hrel, rfl⟩
  | cons op rest ih =>
    intro s c m rs s' hrel h
    cases op with
    | pump b =>
      simp only [chunkerRun] at h
      cases hp : pumpW clamp X b s with
      | none => rw [hp] at h; cases h
      | some y =>
        obtain ⟨res, s1⟩ := y
        rw [hp] at h
        simp only at h
        cases hr : chunkerRun clamp X rest s1 with
        | none => rw [hr] at h; cases h
        | some z =>
          obtain ⟨rs1, s2⟩ := z
          rw [hr] at h
          simp only [Option.some.injEq, Prod.mk.injEq] at h
          obtain ⟨rfl, rfl⟩ := h
          obtain ⟨p1, p2, p3, _⟩ := pumpW_refines clamp X b t s c m res s1 hrel hp
          obtain ⟨q1, q2, q3⟩ := ih s1 (pump clamp t b c m s.r).chunker (pump clamp t b c m s.r).mem rs1 s2 p2 hr
          simp only [blocksOf, pumpSeq]
          rw [p3] at q1 q2 q3
          exact ⟨by rw [p1.abs, q1], q2, q3⟩
    | drop hd =>
      simp only [chunkerRun] at h
      split at h
      · cases h
      · rename_i hne
        cases hd1 : s.w.step (.sDrop hd) with
        | none => rw [hd1] at h; cases h
        | some w' =>
          rw [hd1] at h
          simp only at h
          obtain ⟨d1, _, d3⟩ := sDrop_effect hd1
          obtain ⟨⟨b, hb, hbytes, hblen⟩, hoff⟩ := hrel
          have hrel' : CRel w' s.c c :=
            ⟨⟨b, by rw [d1 _ (fun e => hne e.symm), hb], by rw [d3]; exact hbytes, hblen⟩, hoff⟩
          exact ih { s with w := w' } c m rs s' hrel' h

end Woodpile.StreamWorld

/-
Helper lemmas about the `read_n` retry-loop model.
-/
import Woodpile.Model.ReadN

namespace Woodpile.ReadN

/-- Bytes handed over by a list of calls, in order. -/
def delivered : List Call → List UInt8
  | [] => []
  | (_, .ok bs) :: t => bs ++ delivered t
  | (_, .err _) :: t => delivered t

@[simp] theorem delivered_nil : delivered [] = [] := rfl

theorem delivered_append (a b : List Call) : delivered (a ++ b) = delivered a ++ delivered b := by
  induction a with
  | nil => simp
  | cons h t ih =>
    obtain ⟨n, res⟩ := h
    cases res <;> simp [delivered, ih]

/-- A call after which `read_n_impl` keeps going: a non-empty delivery that
does not complete the request, or `Interrupted`. -/
def Call.continues (count : Nat) (before : List UInt8) : Call → Prop
  | (_, .ok bs) => bs ≠ [] ∧ (before ++ bs).length ≠ count
  | (_, .err k) => k = 0

/-- A call after which `read_n_impl` stops: end of file, a hard error, or the
delivery that completes the request. -/
def Call.terminal (count : Nat) (before : List UInt8) : Call → Prop
  | (_, .ok bs) => bs = [] ∨ (before ++ bs).length = count
  | (_, .err k) => k ≠ 0

/-- The calls `new` made from a state that already holds `got`: every call
asks for exactly what is missing, all but the last continue. -/
inductive Run (count : Nat) : List UInt8 → List Call → Prop
  | nil (got) : Run count got []
  | last (got) (c : Call) : c.1 = count - got.length → Run count got [c]
  | cons (got) (c : Call) (rest : List Call) :
      c.1 = count - got.length → Call.continues count got c → rest ≠ [] →
      Run count (got ++ delivered [c]) rest → Run count got (c :: rest)

theorem read_ok_len (r : Reader) (n : Nat) (bs : List UInt8) (r' : Reader)
    (h : r.read n = (.ok bs, r')) : bs.length ≤ n ∧ r.src = bs ++ r'.src := by
  unfold Reader.read at h
  split at h
  · simp at h; obtain ⟨rfl, rfl⟩ := h; simp
  · simp at h; obtain ⟨rfl, rfl⟩ := h
    simp [List.length_take]; omega
  · simp at h; obtain ⟨rfl, rfl⟩ := h; simp
  · simp at h

theorem read_err_src (r : Reader) (n k : Nat) (r' : Reader)
    (h : r.read n = (.err k, r')) : r'.src = r.src := by
  unfold Reader.read at h
  split at h <;> simp at h
  obtain ⟨_, rfl⟩ := h; rfl

/-- What the loop guarantees, from any intermediate state, about the calls
`new` it makes. -/
structure LoopSpec (count fuel : Nat) (r : Reader) (got : List UInt8) (err : Option Nat)
    (calls : List Call) (o : LoopOut) (new : List Call) : Prop where
  calls_eq : o.calls = calls ++ new
  len_le : new.length ≤ fuel
  got_eq : o.got = got ++ delivered new
  src_eq : r.src = delivered new ++ o.reader.src
  run : Run count got new
  got_le : o.got.length ≤ count
  /-- if fewer calls than allowed were made, the last one was terminal -/
  stop : new.length < fuel → ∃ pre c, new = pre ++ [c] ∧ Call.terminal count (got ++ delivered pre) c
  /-- the `err` register when nothing at all was delivered: cleared by EOF,
  else the last error -/
  err_eq : o.got = [] → o.err =
    match new.getLast? with
    | none => err
    | some (_, .ok _) => none
    | some (_, .err k) => some k

theorem getLast?_cons_ne {α} (a : α) (l : List α) (h : l ≠ []) : (a :: l).getLast? = l.getLast? := by
  cases l with
  | nil => exact absurd rfl h
  | cons b t => simp [List.getLast?_cons_cons]

theorem loop_spec (count : Nat) : ∀ (fuel : Nat) (r : Reader) (got : List UInt8) (err : Option Nat)
    (calls : List Call), got.length < count →
    ∃ new, LoopSpec count fuel r got err calls (loop count fuel r got err calls) new := by
  intro fuel
  induction fuel with
  | zero =>
    intro r got err calls hlt
    exact ⟨[], { calls_eq := by simp [loop], len_le := by simp, got_eq := by simp [loop],
                 src_eq := by simp [loop], run := Run.nil _, got_le := by simp [loop]; omega,
                 stop := by simp, err_eq := by simp [loop] }⟩
  | succ fuel ih =>
    intro r got err calls hlt
    unfold loop
    simp only
    cases hread : r.read (count - got.length) with
    | mk res r' =>
      cases res with
      | ok bs =>
        obtain ⟨hlen, hsrc⟩ := read_ok_len _ _ _ _ hread
        simp only
        by_cases hbs : bs.length = 0
        · -- EOF
          have hbs' : bs = [] := List.length_eq_zero_iff.mp hbs
          subst hbs'
          exact ⟨[(count - got.length, .ok [])],
            { calls_eq := by simp, len_le := by simp, got_eq := by simp [delivered],
              src_eq := by simp [delivered, hsrc], run := Run.last _ _ rfl,
              got_le := by simp; omega,
              stop := fun _ => ⟨[], _, rfl, by simp [Call.terminal]⟩,
              err_eq := by simp }⟩
        · simp only [hbs, if_false]
          have hne : bs ≠ [] := fun h => hbs (by simp [h])
          by_cases hfull : (got ++ bs).length = count
          · simp only [hfull, if_true]
            exact ⟨[(count - got.length, .ok bs)],
              { calls_eq := by simp, len_le := by simp, got_eq := by simp [delivered],
                src_eq := by simp [delivered, hsrc], run := Run.last _ _ rfl,
                got_le := by simp at hfull ⊢; omega,
                stop := fun _ => ⟨[], _, rfl, by simp only [Call.terminal, delivered_nil, List.append_nil]; exact Or.inr hfull⟩,
                err_eq := by intro h; simp at h; exact absurd h.2 hne }⟩
          · simp only [hfull, if_false]
            have hlt' : (got ++ bs).length < count := by simp at hfull ⊢; omega
            obtain ⟨new, hs⟩ := ih r' (got ++ bs) err (calls ++ [(count - got.length, .ok bs)]) hlt'
            refine ⟨(count - got.length, .ok bs) :: new,
              { calls_eq := by simp [hs.calls_eq], len_le := by simp; exact hs.len_le,
                got_eq := by simp [hs.got_eq, delivered],
                src_eq := by simp [delivered, hsrc, hs.src_eq],
                run := ?_, got_le := hs.got_le, stop := ?_, err_eq := ?_ }⟩
            · cases hnew : new with
              | nil => exact Run.last _ _ rfl
              | cons c rest =>
                refine Run.cons _ _ _ rfl ⟨hne, hfull⟩ (by simp) ?_
                have := hs.run; simpa [delivered, hnew] using this
            · intro hl
              have hl' : new.length < fuel := by simp at hl; omega
              obtain ⟨pre, c, hpc, ht⟩ := hs.stop hl'
              refine ⟨(count - got.length, .ok bs) :: pre, c, by simp [hpc], ?_⟩
              simpa [delivered, List.append_assoc] using ht
            · intro hg
              have h1 := hs.got_eq; rw [hg] at h1
              have h2 := congrArg List.length h1
              have h3 : bs.length ≠ 0 := hbs
              simp at h2; omega
      | err k =>
        have hsrc := read_err_src _ _ _ _ hread
        simp only
        by_cases hk : k ≠ 0
        · rw [if_pos hk]
          exact ⟨[(count - got.length, .err k)],
            { calls_eq := by simp, len_le := by simp, got_eq := by simp [delivered],
              src_eq := by simp [delivered, hsrc], run := Run.last _ _ rfl,
              got_le := by simp; omega,
              stop := fun _ => ⟨[], _, rfl, by simpa [Call.terminal] using hk⟩,
              err_eq := by simp }⟩
        · have hk0 : k = 0 := by simpa using hk
          subst hk0
          have hne : got.length ≠ count := by omega
          simp only [hne, if_false, ne_eq, not_true_eq_false]
          obtain ⟨new, hs⟩ := ih r' got (some 0) (calls ++ [(count - got.length, .err 0)]) hlt
          refine ⟨(count - got.length, .err 0) :: new,
            { calls_eq := by simp [hs.calls_eq], len_le := by simp; exact hs.len_le,
              got_eq := by simp [hs.got_eq, delivered],
              src_eq := by rw [← hsrc, hs.src_eq]; simp [delivered],
              run := ?_, got_le := hs.got_le, stop := ?_, err_eq := ?_ }⟩
          · cases hnew : new with
            | nil => exact Run.last _ _ rfl
            | cons c rest =>
              refine Run.cons _ _ _ rfl (by simp [Call.continues]) (by simp) ?_
              have := hs.run; simpa [delivered, hnew] using this
          · intro hl
            have hl' : new.length < fuel := by simp at hl; omega
            obtain ⟨pre, c, hpc, ht⟩ := hs.stop hl'
            refine ⟨(count - got.length, .err 0) :: pre, c, by simp [hpc], ?_⟩
            simpa [delivered] using ht
          · intro hg
            have := hs.err_eq hg
            rw [this]
            cases hnew : new with
            | nil => simp
            | cons c rest =>
              have hx : ((count - got.length, ReadRes.err 0) :: c :: rest).getLast? = (c :: rest).getLast? :=
                getLast?_cons_ne _ _ (by simp)
              rw [hx]
              cases h : (c :: rest).getLast? with
              | none => simp at h
              | some x => obtain ⟨n, res⟩ := x; cases res <;> rfl

@[simp] theorem finish_calls (o : LoopOut) : (finish o).calls = o.calls := by
  unfold finish; split <;> rfl

@[simp] theorem finish_reader (o : LoopOut) : (finish o).reader = o.reader := by
  unfold finish; split <;> rfl

theorem finish_res (o : LoopOut) :
    ((finish o).res = .ok o.got ∧ ¬ (o.got = [] ∧ ∃ e, o.err = some e)) ∨
    (∃ e, (finish o).res = .err e ∧ o.got = [] ∧ o.err = some e) := by
  unfold finish
  split
  · rename_i e hg he
    exact Or.inr ⟨e, rfl, hg, he⟩
  · rename_i got hnot
    refine Or.inl ⟨rfl, ?_⟩
    rintro ⟨hd, e, he⟩
    exact hnot e hd he

end Woodpile.ReadN

namespace Woodpile.Arena

/-- `ensure_capacity_internal` always leaves a cache with room for `len`. -/
theorem ensureCapacity_spec (t : Tuning) (a : Arena) (next len : Nat) :
    ∃ c, (ensureCapacity t a next len).1.cache = some c ∧ len ≤ c.remaining := by
  unfold ensureCapacity
  split
  · rename_i c hc
    split
    · exact ⟨c, hc, by assumption⟩
    · exact ⟨_, rfl, by simp [Cache.remaining]; omega⟩
  · exact ⟨_, rfl, by simp [Cache.remaining]; omega⟩

end Woodpile.Arena

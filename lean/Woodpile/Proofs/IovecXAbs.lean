/-
`Proofs/IovecAbs.lean` re-proved for the invariant `W.IovInv` (no slice disjointness; `pend_disj` instead): see
`Proofs/IovecXInv.lean`.  Definitions (`mkCells`, `absCells`, `Op`, `State`, `step`, `abs`, `specStep`, `specOk`,
the ledger, …) are the originals; `Inv`, `Refines`, `Pushed` are re-defined over `W.IovInv`.  Proof scripts are
the originals except in `push_slice_inv` (the pushed slice must miss the pending ranges instead of every
slice), `World.pushCopy_spec` (one more conclusion: everything but the last slice lies below the copy),
`World.registerPatch_spec`, `World.backfill_spec` (uses `pend_disj`).
-/
import Woodpile.Proofs.IovecAbs
import Woodpile.Proofs.IovecXInv

namespace Woodpile.Iovec.W
open Woodpile.Arena
open Woodpile.Pipe (Cell Pipe cellBytes fillCells)

/-! ### Cells from bytes and pending ranges -/

@[simp] theorem mkCells_length (brs : List (Nat × BackrefInfo)) (off : Nat) (bs : List UInt8) :
    (mkCells brs off bs).length = bs.length := by
  induction bs generalizing off with
  | nil => rfl
  | cons b t ih => simp [mkCells, ih]

theorem mkCells_append (brs : List (Nat × BackrefInfo)) (off : Nat) (a b : List UInt8) :
    mkCells brs off (a ++ b) = mkCells brs off a ++ mkCells brs (off + a.length) b := by
  induction a generalizing off with
  | nil => simp [mkCells]
  | cons x t ih =>
    simp only [List.cons_append, mkCells, List.length_cons]
    rw [ih]
    congr 3
    omega

theorem mkCells_drop (brs : List (Nat × BackrefInfo)) (off : Nat) (bs : List UInt8) (m : Nat) :
    (mkCells brs off bs).drop m = mkCells brs (off + m) (bs.drop m) := by
  induction m generalizing off bs with
  | zero => simp
  | succ m ih =>
    cases bs with
    | nil => simp [mkCells]
    | cons b t =>
      simp only [mkCells, List.drop_succ_cons]
      rw [ih]
      congr 1
      omega

theorem mkCells_congr (brs brs' : List (Nat × BackrefInfo)) (off : Nat) (bs : List UInt8)
    (h : ∀ j, j < bs.length → holeAt brs (off + j) = holeAt brs' (off + j)) :
    mkCells brs off bs = mkCells brs' off bs := by
  induction bs generalizing off with
  | nil => rfl
  | cons b t ih =>
    simp only [mkCells]
    have h0 := h 0 (by simp)
    simp only [Nat.add_zero] at h0
    rw [h0]
    congr 1
    apply ih
    intro j hj
    have := h (j + 1) (by simp; omega)
    rw [show off + 1 + j = off + (j + 1) by omega]
    exact this

theorem mkCells_none (brs : List (Nat × BackrefInfo)) (off : Nat) (bs : List UInt8)
    (h : ∀ j, j < bs.length → holeAt brs (off + j) = none) :
    mkCells brs off bs = bs.map Cell.byte := by
  induction bs generalizing off with
  | nil => rfl
  | cons b t ih =>
    simp only [mkCells, List.map_cons]
    have h0 := h 0 (by simp)
    simp only [Nat.add_zero] at h0
    rw [h0]
    congr 1
    apply ih
    intro j hj
    have := h (j + 1) (by simp; omega)
    rw [show off + 1 + j = off + (j + 1) by omega]
    exact this

theorem mkCells_hole (brs : List (Nat × BackrefInfo)) (off : Nat) (bs : List UInt8) (k : Nat)
    (h : ∀ j, j < bs.length → holeAt brs (off + j) = some k) :
    mkCells brs off bs = List.replicate bs.length (Cell.hole k) := by
  induction bs generalizing off with
  | nil => rfl
  | cons b t ih =>
    simp only [mkCells, List.length_cons, List.replicate_succ]
    have h0 := h 0 (by simp)
    simp only [Nat.add_zero] at h0
    rw [h0]
    congr 1
    apply ih
    intro j hj
    have := h (j + 1) (by simp; omega)
    rw [show off + 1 + j = off + (j + 1) by omega]
    exact this

theorem holeAt_eq_none_iff (brs : List (Nat × BackrefInfo)) (off : Nat) :
    holeAt brs off = none ↔ ∀ e ∈ brs, ¬ (e.1 ≤ off + e.2.len ∧ off < e.1) := by
  induction brs with
  | nil => simp [holeAt]
  | cons e t ih =>
    simp only [holeAt, List.mem_cons, forall_eq_or_imp]
    by_cases hc : e.1 ≤ off + e.2.len ∧ off < e.1
    · simp [hc]
    · rw [if_neg hc, ih]
      exact ⟨fun h => ⟨hc, h⟩, fun h => h.2⟩

theorem holeAt_some_mem (brs : List (Nat × BackrefInfo)) (off k : Nat) (h : holeAt brs off = some k) :
    ∃ e ∈ brs, e.1 = k ∧ e.1 ≤ off + e.2.len ∧ off < e.1 := by
  induction brs with
  | nil => simp [holeAt] at h
  | cons e t ih =>
    simp only [holeAt] at h
    by_cases hc : e.1 ≤ off + e.2.len ∧ off < e.1
    · rw [if_pos hc] at h
      exact ⟨e, by simp, Option.some.inj h, hc⟩
    · rw [if_neg hc] at h
      obtain ⟨e', he', h'⟩ := ih h
      exact ⟨e', by simp [he'], h'⟩

theorem holeAt_append (a b : List (Nat × BackrefInfo)) (off : Nat) :
    holeAt (a ++ b) off = (holeAt a off).or (holeAt b off) := by
  induction a with
  | nil => simp [holeAt]
  | cons e t ih =>
    simp only [List.cons_append, holeAt]
    split
    · simp
    · exact ih

/-! ### The abstraction -/

theorem stableN_le (v : Iov) : v.stableN ≤ v.slices.length := by
  unfold Iov.stableN
  split
  · exact Nat.le_refl _
  · exact Nat.min_le_right _ _

theorem IovInv.stableCount {w : World} {v : Iov} (h : IovInv w v) : v.stableCount = some v.stableN := by
  unfold Iov.stableCount Iov.stableN
  cases hb : v.backrefs with
  | nil => rfl
  | cons e t =>
    obtain ⟨k, info⟩ := e
    simp only [List.head?_cons]
    have := (h.br_ok (k, info) (by rw [hb]; simp)).idx_ge
    rw [if_neg (by simp only at this; omega)]

theorem IovInv.noBrBelow_stableN {w : World} {v : Iov} (h : IovInv w v) : NoBrBelow v v.stableN := by
  intro e he
  unfold Iov.stableN
  cases hb : v.backrefs with
  | nil => rw [hb] at he; cases he
  | cons e0 t =>
    obtain ⟨k, info⟩ := e0
    simp only [List.head?_cons]
    have h0 := (h.br_ok (k, info) (by rw [hb]; simp)).idx_ge
    simp only at h0
    have hs := h.br_sorted
    rw [hb, List.pairwise_cons] at hs
    rw [hb] at he
    simp only [List.mem_cons] at he
    rcases he with rfl | he
    · simp only; omega
    · have := (hs.1 e he).2
      simp only at this
      omega

theorem holeAt_none_below {w : World} {v : Iov} (h : IovInv w v) (n : Nat) (hnb : NoBrBelow v n)
    (off : Nat) (hoff : off < v.consumedSize + sumLens (v.slices.take n)) :
    holeAt v.backrefs off = none := by
  rw [holeAt_eq_none_iff]
  intro e he hc
  have hb := h.br_ok e he
  have hn := hnb e he
  have hkey := hb.key_eq
  unfold sliceStart at hkey
  have := sumLens_take_mono v.slices (show n ≤ e.2.sliceIndex - v.consumedSlices by omega)
  omega

theorem holeAt_none_above {w : World} {v : Iov} (h : IovInv w v) (off : Nat) (hoff : v.logicalSize ≤ off) :
    holeAt v.backrefs off = none := by
  rw [holeAt_eq_none_iff]
  intro e he hc
  have := (h.br_ok e he).key_le h.size_eq
  omega

/-- C04 core: the stable prefix consists of byte cells only and is a prefix of the cells. -/
theorem absCells_visible {w : World} {v : Iov} (h : IovInv w v) :
    absCells w v = (w.visible v).map Cell.byte ++
      mkCells v.backrefs (v.consumedSize + (w.visible v).length) (w.flat (v.slices.drop v.stableN)) := by
  unfold absCells World.visible
  conv => lhs; rw [← List.take_append_drop v.stableN v.slices]
  rw [World.flat_append, mkCells_append]
  congr 1
  apply mkCells_none
  intro j hj
  rw [h.flat_take_length] at hj
  exact holeAt_none_below h v.stableN h.noBrBelow_stableN _ (by omega)

/-- Removing `m` bytes from the front, all of them before the first pending slice, removes
exactly `m` byte cells from the abstraction. -/
theorem absCells_consumed {w : World} {v v' : Iov} {m : Nat} (h : IovInv w v) (hc : Consumed w v v' m)
    (n : Nat) (hnb : NoBrBelow v n) (hm : m ≤ sumLens (v.slices.take n)) :
    absCells w v = ((w.flat v.slices).take m).map Cell.byte ++ absCells w v' := by
  unfold absCells
  rw [hc.backrefs, hc.consumedSize, hc.flat]
  conv => lhs; rw [← List.take_append_drop m (w.flat v.slices)]
  rw [mkCells_append]
  have hml : m ≤ (w.flat v.slices).length := by
    rw [h.flat_length]; exact Nat.le_trans hm (sumLens_take_le _ _)
  rw [List.length_take, Nat.min_eq_left hml]
  congr 1
  apply mkCells_none
  intro j hj
  rw [List.length_take, Nat.min_eq_left hml] at hj
  exact holeAt_none_below h n hnb _ (by omega)

/-- Appending bytes (whatever the slice structure does) appends byte cells. -/
theorem absCells_push {w w' : World} {v v' : Iov} (h : IovInv w v) (bytes : List UInt8)
    (hflat : w'.flat v'.slices = w.flat v.slices ++ bytes) (hbr : v'.backrefs = v.backrefs)
    (hcs : v'.consumedSize = v.consumedSize) :
    absCells w' v' = absCells w v ++ bytes.map Cell.byte := by
  unfold absCells
  rw [hflat, hbr, hcs, mkCells_append]
  congr 1
  apply mkCells_none
  intro j _
  apply holeAt_none_above h
  rw [h.flat_length]
  have := h.size_eq
  omega

/-! ### Pipe-level facts -/

theorem cellBytes_map_byte_append (bs : List UInt8) (l : List Cell) :
    cellBytes (bs.map Cell.byte ++ l) = bs ++ cellBytes l := by
  induction bs with
  | nil => rfl
  | cons b t ih => simp [cellBytes, ih]

theorem takeWhile_map_byte_append (bs : List UInt8) (l : List Cell) :
    (bs.map Cell.byte ++ l).takeWhile Cell.isByte = bs.map Cell.byte ++ l.takeWhile Cell.isByte := by
  induction bs with
  | nil => rfl
  | cons b t ih => simp [List.takeWhile, Cell.isByte, ih]

theorem Pipe.stable_of_cells (p : Pipe) (bs : List UInt8) (rest : List Cell)
    (h : p.cells = bs.map Cell.byte ++ rest) : p.stable = bs ++ cellBytes (rest.takeWhile Cell.isByte) := by
  unfold Pipe.stable
  rw [h, takeWhile_map_byte_append, cellBytes_map_byte_append]

/-- Consuming a known byte prefix of the cells. -/
theorem Pipe.consume_of_cells (p : Pipe) (rm : List UInt8) (rest : List Cell)
    (h : p.cells = rm.map Cell.byte ++ rest) :
    p.consume rm.length = (⟨rest, p.consumed ++ rm, p.nextId⟩, rm.length) ∧ rm <+: p.stable := by
  have hs := Pipe.stable_of_cells p rm rest h
  refine ⟨?_, by rw [hs]; exact List.prefix_append _ _⟩
  unfold Pipe.consume
  have hmin : min rm.length p.stable.length = rm.length := by
    rw [hs]; simp
  simp only [hmin]
  rw [hs, List.take_left' rfl, h, List.drop_left' (by simp)]

/-! ### Operation vocabulary, ghost state, `step` -/

/-- The invariant of the history state: iovec `i` exists and satisfies `IovInv`. -/
def Inv (i : Nat) (s : State) : Prop := ∃ v, s.w.iov i = some v ∧ IovInv s.w v

/-! ### Frame lemmas: what `IovInv` and `absCells` depend on -/

theorem SliceOk.of_world {w w' : World} {a : Arena} {s : Slice} (h : SliceOk w a s)
    (hexts : ∀ b, (w.exts.getD b []).length ≤ (w'.exts.getD b []).length) (hnext : w.next ≤ w'.next) :
    SliceOk w' a s :=
  { pos := h.pos
    ext := fun b hb => Nat.le_trans (h.ext b hb) (hexts b)
    chunk := fun c hc => ⟨Nat.lt_of_lt_of_le (h.chunk c hc).1 hnext, (h.chunk c hc).2⟩ }

theorem IovInv.of_world {w w' : World} {v : Iov} (h : IovInv w v)
    (hexts : ∀ b, (w.exts.getD b []).length ≤ (w'.exts.getD b []).length) (hnext : w.next ≤ w'.next) :
    IovInv w' v :=
  { slices_ok := fun s hs => (h.slices_ok s hs).of_world hexts hnext
    pend_disj := h.pend_disj, size_eq := h.size_eq, anchors_sum := h.anchors_sum
    cache_fresh := fun ca hca => Nat.lt_of_lt_of_le (h.cache_fresh ca hca) hnext
    br_ok := h.br_ok, br_sorted := h.br_sorted }

theorem IovInv.setIov {w : World} {v : Iov} (h : IovInv w v) (i : Nat) (o : Option Iov) :
    IovInv (w.setIov i o) v :=
  h.of_world (fun _ => Nat.le_refl _) (Nat.le_refl _)

theorem sliceBytes_congr {w w' : World} (s : Slice) (hheap : w'.heap = w.heap) (hexts : w'.exts = w.exts) :
    w'.sliceBytes s = w.sliceBytes s := by
  unfold World.sliceBytes; rw [hheap, hexts]

theorem flat_congr {w w' : World} (l : List Slice) (h : ∀ s ∈ l, w'.sliceBytes s = w.sliceBytes s) :
    w'.flat l = w.flat l := by
  induction l with
  | nil => rfl
  | cons s t ih => simp [h s (by simp), ih (fun x hx => h x (by simp [hx]))]

@[simp] theorem flat_setIov (w : World) (i : Nat) (o : Option Iov) (l : List Slice) :
    (w.setIov i o).flat l = w.flat l :=
  flat_congr l (fun s _ => sliceBytes_congr s rfl rfl)

@[simp] theorem absCells_setIov (w : World) (i : Nat) (o : Option Iov) (v : Iov) :
    absCells (w.setIov i o) v = absCells w v := by
  unfold absCells; rw [flat_setIov]

@[simp] theorem visible_setIov (w : World) (i : Nat) (o : Option Iov) (v : Iov) :
    (w.setIov i o).visible v = w.visible v := by
  unfold World.visible; rw [flat_setIov]

/-- Lending a caller buffer leaves every valid slice's bytes alone. -/
theorem sliceBytes_exts_append (w : World) (a : Arena) (s : Slice) (extra : List (List UInt8)) (h : SliceOk w a s) :
    ({ w with exts := w.exts ++ extra } : World).sliceBytes s = w.sliceBytes s := by
  unfold World.sliceBytes
  cases hr : s.region with
  | chunk k => rfl
  | ext b =>
    simp only
    have h1 := h.ext b hr
    have h2 := h.pos
    have hb : b < w.exts.length := by
      rcases Nat.lt_or_ge b w.exts.length with h3 | h3
      · exact h3
      · rw [List.getD_eq_getElem?_getD, List.getElem?_eq_none h3] at h1
        simp at h1; omega
    simp only [List.getD_eq_getElem?_getD, List.getElem?_append_left hb]

theorem exts_append_mono (l extra : List (List UInt8)) (b : Nat) :
    (l.getD b []).length ≤ ((l ++ extra).getD b []).length := by
  simp only [List.getD_eq_getElem?_getD]
  rcases Nat.lt_or_ge b l.length with h | h
  · rw [List.getElem?_append_left h]; exact Nat.le_refl _
  · rw [List.getElem?_eq_none h]; simp

/-! ### Pushing one slice (before `optimize`) -/

theorem BrOk.of_append {v v' : Iov} {e : Nat × BackrefInfo} (h : BrOk v e) (x : List Slice)
    (hs : v'.slices = v.slices ++ x) (hcs : v'.consumedSize = v.consumedSize)
    (hcn : v'.consumedSlices = v.consumedSlices) : BrOk v' e := by
  obtain ⟨s, c, hget, hreg, hle⟩ := h.slice
  have hj : e.2.sliceIndex - v.consumedSlices < v.slices.length := by
    rcases Nat.lt_or_ge (e.2.sliceIndex - v.consumedSlices) v.slices.length with h1 | h1
    · exact h1
    · rw [List.getElem?_eq_none h1] at hget; cases hget
  refine ⟨h.len_pos, by rw [hcn]; exact h.idx_ge, ⟨s, c, ?_, hreg, hle⟩, ?_⟩
  · rw [hcn, hs, List.getElem?_append_left hj]; exact hget
  · have := h.key_eq
    unfold sliceStart at this ⊢
    rw [hcn, hcs, hs, List.take_append_of_le_length (Nat.le_of_lt hj)]
    exact this

theorem BrOk.idx_lt {v : Iov} {e : Nat × BackrefInfo} (h : BrOk v e) :
    e.2.sliceIndex < v.consumedSlices + v.slices.length := by
  obtain ⟨s, c, hget, _, _⟩ := h.slice
  rcases Nat.lt_or_ge (e.2.sliceIndex - v.consumedSlices) v.slices.length with h1 | h1
  · have := h.idx_ge; omega
  · rw [List.getElem?_eq_none h1] at hget; cases hget

/-- The state right after `GlobalDeque::push`/`push_borrowed`, before `optimize`. -/
theorem push_slice_inv (w0 w : World) (v : Iov) (s : Slice) (anchors' : List Anchor) (arena' : Arena)
    (hinv : IovInv w0 v) (hs : SliceOk w arena' s)
    (hold : ∀ x ∈ v.slices, SliceOk w arena' x)
    (hcache : ∀ ca, arena'.cache = some ca → ca.chunk < w.next)
    (hord : ∀ e ∈ v.backrefs, ∀ t, v.slices[e.2.sliceIndex - v.consumedSlices]? = some t → s.region = t.region →
      Disj (t.off + e.2.begin) e.2.len s)
    (hasum : sumCounts anchors' = v.slices.length + 1) :
    IovInv w { v with slices := v.slices ++ [s], anchors := anchors',
                      logicalSize := v.logicalSize + s.len, arena := arena' } :=
  { slices_ok := by
      intro x hx
      simp only [List.mem_append, List.mem_singleton] at hx
      rcases hx with hx | rfl
      · exact hold x hx
      · exact hs
    pend_disj := by
      intro e he t ht j x hx hj hreg
      have hlt := (hinv.br_ok e he).idx_lt'
      simp only at ht hx hj
      rw [List.getElem?_append_left hlt] at ht
      rcases Nat.lt_or_ge j v.slices.length with h1 | h1
      · rw [List.getElem?_append_left h1] at hx
        exact hinv.pend_disj e he t ht j x hx hj hreg
      · have hj2 : j = v.slices.length := by
          rcases Nat.lt_or_ge j (v.slices.length + 1) with h2 | h2
          · omega
          · rw [List.getElem?_eq_none (by simp; omega)] at hx; cases hx
        subst hj2
        simp at hx
        subst hx
        exact hord e he t ht hreg
    size_eq := by
      have := hinv.size_eq
      simp only [sumLens_append, sumLens_cons, sumLens_nil]
      omega
    anchors_sum := by simp [hasum]
    cache_fresh := hcache
    br_ok := fun e he => (hinv.br_ok e he).of_append [s] rfl rfl rfl
    br_sorted := hinv.br_sorted }

/-! ### `push_borrowed` -/

theorem pushBorrowedSlice_eq (v : Iov) (s : Slice) (h : s.len ≠ 0) :
    v.pushBorrowedSlice s = Iov.optimize { v with slices := v.slices ++ [s], anchors := pbAnchors v.anchors,
                                                  logicalSize := v.logicalSize + s.len } := by
  unfold Iov.pushBorrowedSlice
  rw [if_neg h]
  rfl

theorem pushBorrowed_anchors (anchors : List Anchor) (n : Nat) (hsum : sumCounts anchors = n) :
    (∀ a, (pbAnchors anchors).getLast? = some a → 0 < a.count) ∧ sumCounts (pbAnchors anchors) = n + 1 := by
  rcases List.eq_nil_or_concat anchors with hnil | ⟨anc, a, hanc⟩
  · subst hnil
    simp only [sumCounts_nil] at hsum
    subst hsum
    refine ⟨?_, ?_⟩ <;> simp [pbAnchors, setLast]
  · rw [List.concat_eq_append] at hanc
    subst hanc
    have e2 : pbAnchors (anc ++ [a]) = anc ++ [{ a with count := a.count + 1 }] := by
      have hne : (anc ++ [a]).isEmpty = false := by simp
      unfold pbAnchors
      simp only [hne, Bool.false_eq_true, if_false, List.getLast?_append,
        List.getLast?_singleton, Option.some_or]
      exact setLast_append_singleton _ _ _
    rw [e2]
    simp only [sumCounts_append, sumCounts_cons, sumCounts_nil] at hsum
    refine ⟨?_, by simp only [sumCounts_append, sumCounts_cons, sumCounts_nil]; omega⟩
    intro x hx
    simp only [List.getLast?_append, List.getLast?_singleton, Option.some_or, Option.some.injEq] at hx
    subst hx
    simp

/-- `push_borrowed` of a valid, non-empty slice that overlaps no slice already in the iovec (a caller
slice, or arena memory the iovec does not reference yet) appends exactly its bytes. -/
theorem World.pushBorrowed_spec' (w : World) (i : Nat) (v : Iov) (s : Slice) (hv : w.iov i = some v)
    (hinv : IovInv w v) (hs : SliceOk w v.arena s)
    (hd : ∀ e ∈ v.backrefs, ∀ t, v.slices[e.2.sliceIndex - v.consumedSlices]? = some t → s.region = t.region →
      Disj (t.off + e.2.begin) e.2.len s) :
    ∃ v', w.pushBorrowed i s = some (w.setIov i (some v')) ∧ IovInv w v' ∧
      absCells w v' = absCells w v ++ (w.sliceBytes s).map Cell.byte ∧
      v'.backrefs = v.backrefs ∧ v'.arena = v.arena ∧ v'.consumedSize = v.consumedSize ∧
      v'.logicalSize = v.logicalSize + s.len ∧ w.flat v'.slices = w.flat v.slices ++ w.sliceBytes s ∧
      v'.consumedSlices = v.consumedSlices ∧ (∀ j, j < v.slices.length → v'.slices.take j = v.slices.take j) ∧
      Iov.optimize { v with slices := v.slices ++ [s], anchors := pbAnchors v.anchors,
                            logicalSize := v.logicalSize + s.len } = some v' := by
  unfold World.pushBorrowed
  rw [hv]
  simp only
  have hpos := hs.pos
  rw [if_neg (by omega)]
  rw [pushBorrowedSlice_eq v s (by omega)]
  obtain ⟨hapos, hasum⟩ := pushBorrowed_anchors v.anchors v.slices.length hinv.anchors_sum
  generalize pbAnchors v.anchors = anchors' at hapos hasum ⊢
  have h1 := push_slice_inv w w v s anchors' v.arena hinv hs hinv.slices_ok hinv.cache_fresh hd hasum
  have h1' : IovInv w { v with slices := v.slices ++ [s], anchors := anchors', logicalSize := v.logicalSize + s.len } := h1
  obtain ⟨v2, hv2⟩ := optimize_some { v with slices := v.slices ++ [s], anchors := anchors', logicalSize := v.logicalSize + s.len }
    hapos (by intro _ hn; simp only at hn; rw [hn] at hasum; simp at hasum)
  rw [hv2]
  obtain ⟨hinv2, hflat2, hbr2, hls2, hcs2, hcn2, har2⟩ := optimize_inv w _ v2 h1'
    (by intro e he; have := (hinv.br_ok e he).idx_lt; simp only [List.length_append, List.length_singleton]; omega) hv2
  refine ⟨v2, rfl, hinv2, ?_, hbr2, har2, hcs2, hls2, ?_, hcn2, ?_, rfl⟩
  · apply absCells_push hinv _ _ hbr2 hcs2
    rw [hflat2]; simp
  · rw [hflat2]; simp
  · intro j hj
    rw [optimize_take _ v2 hv2 j (by show j + 2 ≤ (v.slices ++ [_]).length; rw [List.length_append, List.length_singleton]; exact Nat.add_le_add_right hj 1)]
    exact List.take_append_of_le_length (Nat.le_of_lt hj)

/-- `push_borrowed` of a valid, non-empty caller slice appends exactly its bytes. -/
theorem World.pushBorrowed_spec (w : World) (i : Nat) (v : Iov) (s : Slice) (hv : w.iov i = some v)
    (hinv : IovInv w v) (hs : SliceOk w v.arena s) (hext : ∃ b, s.region = .ext b) :
    ∃ v', w.pushBorrowed i s = some (w.setIov i (some v')) ∧ IovInv w v' ∧
      absCells w v' = absCells w v ++ (w.sliceBytes s).map Cell.byte ∧
      v'.backrefs = v.backrefs ∧ v'.arena = v.arena ∧ v'.consumedSize = v.consumedSize ∧
      v'.logicalSize = v.logicalSize + s.len ∧ w.flat v'.slices = w.flat v.slices ++ w.sliceBytes s ∧
      v'.consumedSlices = v.consumedSlices ∧ (∀ j, j < v.slices.length → v'.slices.take j = v.slices.take j) := by
  obtain ⟨b, hb⟩ := hext
  obtain ⟨v', h1, h2, h3, h4, h5, h6, h7, h8, h9, h10, _⟩ := World.pushBorrowed_spec' w i v s hv hinv hs
    (by intro e he t ht hreg
        obtain ⟨s0, c, hget, hr0, _⟩ := (hinv.br_ok e he).slice
        rw [ht] at hget; cases hget
        rw [hb, hr0] at hreg; cases hreg)
  exact ⟨v', h1, h2, h3, h4, h5, h6, h7, h8, h9, h10⟩

/-! ### Consumer side -/

theorem flat_take_prefix (w : World) (a : Arena) (l : List Slice) (k : Nat) (h : ∀ s ∈ l, SliceOk w a s) :
    (w.flat l).take (sumLens (l.take k)) = w.flat (l.take k) := by
  have hl := flat_length w a (l.take k) (fun s hs => h s (List.mem_of_mem_take hs))
  have : w.flat l = w.flat (l.take k) ++ w.flat (l.drop k) := by
    rw [← World.flat_append, List.take_append_drop]
  rw [this, List.take_left' hl]

/-- `ConsumingIovec::consume`. -/
theorem World.consume_spec (w : World) (i : Nat) (v : Iov) (count : Nat) (hv : w.iov i = some v)
    (hinv : IovInv w v) :
    ∃ v', w.consume i count = some (w.setIov i (some v'), min count v.stableN) ∧
      Consumed w v v' (sumLens (v.slices.take (min count v.stableN))) ∧
      v'.slices = v.slices.drop (min count v.stableN) := by
  unfold World.consume
  rw [hv]
  simp only [hinv.stableCount]
  have hle := stableN_le v
  have hmin : min (min count v.stableN) v.slices.length = min count v.stableN := by omega
  obtain ⟨v', h1, h2, h3, _⟩ := consumeSlices_spec w v (min count v.stableN) hinv
    (by rw [hmin]; intro e he; have := hinv.noBrBelow_stableN e he; omega)
  rw [h1, hmin]
  exact ⟨v', rfl, h2, h3⟩

/-- `ConsumingIovec::advance_slices`. -/
theorem World.advance_spec (w : World) (i : Nat) (v : Iov) (count : Nat) (hv : w.iov i = some v)
    (hinv : IovInv w v) :
    ∃ v', w.advance i count = some (w.setIov i (some v'), min count (sumLens (v.slices.take v.stableN))) ∧
      Consumed w v v' (min count (sumLens (v.slices.take v.stableN))) := by
  unfold World.advance
  rw [hv]
  simp only [hinv.stableCount, foldl_add_eq_sum]
  have hsl : (List.map (fun x => x.len) (List.take v.stableN v.slices)).sum = sumLens (v.slices.take v.stableN) := rfl
  rw [hsl]
  obtain ⟨v', h1, h2⟩ := consumeBytes_spec w (v.slices.length + 1) v
    (min count (sumLens (v.slices.take v.stableN))) 0 v.stableN hinv hinv.noBrBelow_stableN (stableN_le v)
    (Nat.zero_le _) (by simp; omega) (Nat.lt_succ_self _)
  rw [h1]
  exact ⟨v', rfl, by simpa using h2⟩

/-- The common part of every consumer operation: `m` stable bytes leave from the front. -/
theorem consumer_refines (i : Nat) (s : State) (v v' : Iov) (m : Nat) (hv : s.w.iov i = some v)
    (hinv : IovInv s.w v) (hc : Consumed s.w v v' m) (hm : m ≤ sumLens (v.slices.take v.stableN)) :
    Inv i { s with w := s.w.setIov i (some v'), ghost := s.ghost ++ (s.w.flat v.slices).take m } ∧
    abs i { s with w := s.w.setIov i (some v'), ghost := s.ghost ++ (s.w.flat v.slices).take m }
      = ((abs i s).consume ((s.w.flat v.slices).take m).length).1 ∧
    (s.w.flat v.slices).take m <+: (abs i s).stable ∧ ((s.w.flat v.slices).take m).length = m := by
  have hcells := absCells_consumed hinv hc v.stableN hinv.noBrBelow_stableN hm
  have hp : (abs i s).cells = ((s.w.flat v.slices).take m).map Cell.byte ++ absCells s.w v' := by
    unfold abs; rw [hv]; exact hcells
  obtain ⟨h1, h2⟩ := Pipe.consume_of_cells (abs i s) _ _ hp
  refine ⟨⟨v', by simp, hc.inv.setIov _ _⟩, ?_, h2, ?_⟩
  · rw [h1]
    unfold abs
    simp [hv]
  · rw [List.length_take, hinv.flat_length]
    have := sumLens_take_le v.slices v.stableN
    omega

/-! ### Lending caller buffers -/

@[simp] theorem lend_iov (w : World) (b : Borrow) (i : Nat) : (w.lend b).1.iov i = w.iov i := rfl
@[simp] theorem lend_heap (w : World) (b : Borrow) : (w.lend b).1.heap = w.heap := rfl
@[simp] theorem lend_next (w : World) (b : Borrow) : (w.lend b).1.next = w.next := rfl
@[simp] theorem lend_pol (w : World) (b : Borrow) : (w.lend b).1.pol = w.pol := rfl
@[simp] theorem lend_tun (w : World) (b : Borrow) : (w.lend b).1.tun = w.tun := rfl

theorem IovInv.lend {w : World} {v : Iov} (h : IovInv w v) (b : Borrow) : IovInv (w.lend b).1 v :=
  h.of_world (fun _ => exts_append_mono _ _ _) (Nat.le_refl _)

theorem flat_lend {w : World} {a : Arena} (l : List Slice) (b : Borrow) (h : ∀ s ∈ l, SliceOk w a s) :
    (w.lend b).1.flat l = w.flat l :=
  flat_congr l (fun s hs => sliceBytes_exts_append w a s _ (h s hs))

theorem absCells_lend {w : World} {v : Iov} (h : IovInv w v) (b : Borrow) :
    absCells (w.lend b).1 v = absCells w v := by
  unfold absCells; rw [flat_lend _ b h.slices_ok]

theorem lend_sliceBytes (w : World) (b : Borrow) : (w.lend b).1.sliceBytes (w.lend b).2 = b.bs := by
  unfold World.lend World.sliceBytes
  simp only [List.getD_eq_getElem?_getD]
  rw [List.getElem?_append_right (Nat.le_refl _)]
  simp only [Nat.sub_self, List.getElem?_cons_zero, Option.getD_some]
  rw [List.append_assoc, List.drop_left' rfl, List.take_left' rfl]

theorem lend_sliceOk (w : World) (a : Arena) (b : Borrow) (h : b.bs ≠ []) : SliceOk (w.lend b).1 a (w.lend b).2 := by
  refine ⟨?_, ?_, ?_⟩
  · simp only [World.lend]; exact List.length_pos_iff.mpr h
  · intro x hx
    simp only [World.lend, Region.ext.injEq] at hx ⊢
    subst hx
    simp only [List.getD_eq_getElem?_getD]
    rw [List.getElem?_append_right (Nat.le_refl _)]
    simp
  · intro c hc; simp [World.lend] at hc

/-! ### Per-operation refinement at the level of `step` -/

/-- Operation `op` does not panic in state `s`, preserves the invariant and refines the abstract
pipe operation. -/
def Refines (i : Nat) (s : State) (op : Op) : Prop :=
  ∃ s' r, step i s op = some (s', r) ∧ Inv i s' ∧ abs i s' = specStep (abs i s) op r ∧ specOk (abs i s) op r

theorem Pipe.append_nil (p : Pipe) : p.append [] = p := by
  simp [Pipe.append]

theorem abs_eq (i : Nat) (s : State) (v : Iov) (hv : s.w.iov i = some v) :
    abs i s = ⟨absCells s.w v, s.ghost, s.nextId⟩ := by
  unfold abs; rw [hv]

theorem refines_pushBorrowed (i : Nat) (s : State) (b : Borrow) (hinv : Inv i s) :
    Refines i s (.pushBorrowed b) := by
  obtain ⟨v, hv, hi⟩ := hinv
  unfold Refines
  simp only [step]
  by_cases hb : b.bs = []
  · -- empty slice: nothing happens
    have h0 : (s.w.lend b).2.len = 0 := by simp [World.lend, hb]
    have : (s.w.lend b).1.pushBorrowed i (s.w.lend b).2 = some (s.w.lend b).1 := by
      unfold World.pushBorrowed
      rw [lend_iov, hv]
      simp only [h0, if_true]
    rw [this]
    refine ⟨_, _, rfl, ⟨v, by simpa using hv, hi.lend b⟩, ?_, rfl⟩
    simp only [specStep, hb, Pipe.append_nil]
    rw [abs_eq i s v hv, abs_eq i _ v (by simpa using hv)]
    simp only [absCells_lend hi b]
  · obtain ⟨v', h1, h2, h3, _⟩ := World.pushBorrowed_spec (s.w.lend b).1 i v (s.w.lend b).2 (by simpa using hv)
      (hi.lend b) (lend_sliceOk _ _ b hb) ⟨_, rfl⟩
    rw [h1]
    refine ⟨_, _, rfl, ⟨v', by simp, h2.setIov _ _⟩, ?_, rfl⟩
    simp only [specStep]
    rw [abs_eq i s v hv, abs_eq i _ v' (by simp)]
    simp only [absCells_setIov, h3, lend_sliceBytes, absCells_lend hi b, Pipe.append]

theorem refines_consume (i : Nat) (s : State) (count : Nat) (hinv : Inv i s) :
    Refines i s (.consume count) := by
  obtain ⟨v, hv, hi⟩ := hinv
  unfold Refines
  simp only [step, hv]
  obtain ⟨v', h1, h2, _⟩ := World.consume_spec s.w i v count hv hi
  rw [h1]
  have hm : sumLens (v.slices.take (min count v.stableN)) ≤ sumLens (v.slices.take v.stableN) :=
    sumLens_take_mono _ (Nat.min_le_right _ _)
  obtain ⟨g1, g2, g3, _⟩ := consumer_refines i s v v' _ hv hi h2 hm
  rw [flat_take_prefix s.w v.arena v.slices _ hi.slices_ok] at g1 g2 g3
  exact ⟨_, _, rfl, g1, g2, g3⟩

theorem refines_advance (i : Nat) (s : State) (count : Nat) (hinv : Inv i s) :
    Refines i s (.advance count) := by
  obtain ⟨v, hv, hi⟩ := hinv
  unfold Refines
  simp only [step, hv]
  obtain ⟨v', h1, h2⟩ := World.advance_spec s.w i v count hv hi
  rw [h1]
  obtain ⟨g1, g2, g3, g4⟩ := consumer_refines i s v v' _ hv hi h2 (Nat.min_le_right _ _)
  exact ⟨_, _, rfl, g1, g2, g4, Nat.min_le_left _ _, g3⟩

/-! ### Histories -/

theorem IovInv.empty (w : World) (a : Arena) (h : ∀ ca, a.cache = some ca → ca.chunk < w.next) :
    IovInv w { Iov.empty with arena := a } :=
  { slices_ok := by intro s hs; cases hs
    pend_disj := by intro e he; cases he
    size_eq := rfl
    anchors_sum := rfl
    cache_fresh := h
    br_ok := by intro e he; cases he
    br_sorted := List.Pairwise.nil }

theorem Inv.init (pol : Policy) (tun : Tuning) : Inv 0 (State.init pol tun) :=
  ⟨Iov.empty, rfl, IovInv.empty _ ⟨none⟩ (by intro ca h; cases h)⟩

theorem abs_init (pol : Policy) (tun : Tuning) : abs 0 (State.init pol tun) = Woodpile.Pipe.empty := rfl

theorem run_refines (i : Nat) (P : Op → Prop)
    (hstep : ∀ s op, P op → Inv i s → ∀ s' r, step i s op = some (s', r) →
      Inv i s' ∧ abs i s' = specStep (abs i s) op r ∧ specOk (abs i s) op r) :
    ∀ (ops : List Op) (s s' : State) (rs : List Ret), (∀ op ∈ ops, P op) → Inv i s →
      run i s ops = some (s', rs) →
      Inv i s' ∧ abs i s' = specRun (abs i s) ops rs ∧ specOkRun (abs i s) ops rs := by
  intro ops
  induction ops with
  | nil =>
    intro s s' rs _ hinv h
    simp only [run, Option.some.injEq, Prod.mk.injEq] at h
    obtain ⟨rfl, rfl⟩ := h
    exact ⟨hinv, rfl, trivial⟩
  | cons op ops ih =>
    intro s s' rs hP hinv h
    simp only [run] at h
    cases h1 : step i s op with
    | none => rw [h1] at h; cases h
    | some sr =>
      obtain ⟨s1, r⟩ := sr
      rw [h1] at h
      simp only at h
      cases h2 : run i s1 ops with
      | none => rw [h2] at h; cases h
      | some srs =>
        obtain ⟨s2, rs2⟩ := srs
        rw [h2] at h
        simp only [Option.some.injEq, Prod.mk.injEq] at h
        obtain ⟨rfl, rfl⟩ := h
        obtain ⟨a1, a2, a3⟩ := hstep s op (hP op (by simp)) hinv s1 r h1
        obtain ⟨b1, b2, b3⟩ := ih s1 s2 rs2 (fun o ho => hP o (by simp [ho])) a1 h2
        refine ⟨b1, ?_, ?_⟩
        · simp only [specRun]; rw [← a2]; exact b2
        · simp only [specOkRun]; rw [← a2]; exact ⟨a3, b3⟩

theorem Refines.elim {i : Nat} {s : State} {op : Op} (h : Refines i s op) (s' : State) (r : Ret)
    (hs : step i s op = some (s', r)) :
    Inv i s' ∧ abs i s' = specStep (abs i s) op r ∧ specOk (abs i s) op r := by
  obtain ⟨s1, r1, h1, h2⟩ := h
  rw [h1] at hs
  simp only [Option.some.injEq, Prod.mk.injEq] at hs
  obtain ⟨rfl, rfl⟩ := hs
  exact h2

/-! ### `push_copy` -/

theorem alloc_cases (t : Tuning) (a : Arena) (next len : Nat) :
    (∃ c, a.cache = some c ∧ len ≤ c.remaining ∧
      alloc t a next len = (⟨some { c with bump := c.bump + len }⟩, next, c.chunk, c.bump)) ∨
    (∃ cap, alloc t a next len = (⟨some ⟨next, cap, len⟩⟩, next + 1, next, 0)) := by
  unfold alloc ensureCapacity
  cases hc : a.cache with
  | none => right; simp
  | some c =>
    simp only
    by_cases hr : c.remaining ≥ len
    · left
      rw [if_pos hr]
      simp only [hc]
      exact ⟨c, rfl, hr, rfl⟩
    · right
      rw [if_neg hr]
      simp

/-- Everything the rest of the proof needs to know about `ByteArena::alloc` on the iovec's arena. -/
theorem alloc_facts (w : World) (v : Iov) (len : Nat) (hinv : IovInv w v)
    (al : Arena × Nat × Nat × Nat) (h : alloc w.tun v.arena w.next len = al) :
    w.next ≤ al.2.1 ∧ al.2.2.1 < al.2.1 ∧
    (∀ ca', al.1.cache = some ca' → ca'.chunk = al.2.2.1 ∧ ca'.bump = al.2.2.2 + len) ∧
    (∀ x ∈ v.slices, ∀ c, x.region = .chunk c → c = al.2.2.1 → x.off + x.len ≤ al.2.2.2) := by
  rcases alloc_cases w.tun v.arena w.next len with ⟨c, hc, hrem, he⟩ | ⟨cap, he⟩
  · rw [he] at h
    subst h
    refine ⟨Nat.le_refl _, hinv.cache_fresh c hc, ?_, ?_⟩
    · intro ca' hca'
      simp only [Option.some.injEq] at hca'
      subst hca'
      exact ⟨rfl, rfl⟩
    · intro x hx c' hreg hcc
      exact ((hinv.slices_ok x hx).chunk c' hreg).2 c hc hcc.symm
  · rw [he] at h
    subst h
    refine ⟨Nat.le_succ _, Nat.lt_succ_self _, ?_, ?_⟩
    · intro ca' hca'
      simp only [Option.some.injEq] at hca'
      subst hca'
      exact ⟨rfl, by simp⟩
    · intro x hx c' hreg hcc
      have := ((hinv.slices_ok x hx).chunk c' hreg).1
      simp only at hcc
      omega

theorem pcAnchors_spec (anchors : List Anchor) (chunk n : Nat) (hsum : sumCounts anchors = n) :
    (∀ a, (pcAnchors anchors chunk).getLast? = some a → 0 < a.count) ∧
      sumCounts (pcAnchors anchors chunk) = n + 1 := by
  rcases List.eq_nil_or_concat anchors with hnil | ⟨anc, a, hanc⟩
  · subst hnil
    simp only [sumCounts_nil] at hsum
    subst hsum
    refine ⟨?_, ?_⟩ <;> simp [pcAnchors, mergeRefOrCreate]
  · rw [List.concat_eq_append] at hanc
    subst hanc
    simp only [sumCounts_append, sumCounts_cons, sumCounts_nil] at hsum
    have hl : (anc ++ [a]).getLast? = some a := by simp
    by_cases hc : a.chunk = some chunk
    · have e : pcAnchors (anc ++ [a]) chunk = anc ++ [{ a with count := a.count + 1 }] := by
        unfold pcAnchors
        simp only [hl, mergeRefOrCreate, hc, if_true]
        exact setLast_append_singleton _ _ _
      rw [e]
      refine ⟨?_, by simp only [sumCounts_append, sumCounts_cons, sumCounts_nil]; omega⟩
      intro x hx
      simp only [List.getLast?_append, List.getLast?_singleton, Option.some_or, Option.some.injEq] at hx
      subst hx
      simp
    · have e : pcAnchors (anc ++ [a]) chunk = anc ++ [a] ++ [⟨1, some chunk⟩] := by
        unfold pcAnchors
        simp only [hl, mergeRefOrCreate, hc, if_false]
        rw [setLast_append_singleton]
      rw [e]
      refine ⟨?_, by simp only [sumCounts_append, sumCounts_cons, sumCounts_nil]; omega⟩
      intro x hx
      simp only [List.getLast?_append, List.getLast?_singleton, Option.some_or, Option.some.injEq] at hx
      subst hx
      simp

theorem pushCopy_eq (w : World) (i : Nat) (v : Iov) (src : List UInt8) (hv : w.iov i = some v) (hne : src ≠ []) :
    w.pushCopy i src =
      (if (pcAnchors v.anchors (alloc w.tun v.arena w.next src.length).2.2.1).isEmpty then none
       else
        match Iov.optimize { v with
            slices := v.slices ++ [⟨.chunk (alloc w.tun v.arena w.next src.length).2.2.1,
                                    (alloc w.tun v.arena w.next src.length).2.2.2, src.length⟩],
            anchors := pcAnchors v.anchors (alloc w.tun v.arena w.next src.length).2.2.1,
            logicalSize := v.logicalSize + src.length,
            arena := (alloc w.tun v.arena w.next src.length).1 } with
        | none => none
        | some v'' => some { (w.setIov i (some v'')) with
            heap := w.heap.write (alloc w.tun v.arena w.next src.length).2.2.1
                      (alloc w.tun v.arena w.next src.length).2.2.2 src,
            next := (alloc w.tun v.arena w.next src.length).2.1 }) := by
  unfold World.pushCopy
  rw [hv]
  have : src.isEmpty = false := by cases src with | nil => exact absurd rfl hne | cons _ _ => rfl
  simp only [this, Bool.false_eq_true, if_false]
  rfl

theorem sliceBytes_write_disjoint (w w' : World) (k off : Nat) (bs : List UInt8) (x : Slice)
    (hheap : w'.heap = w.heap.write k off bs) (hexts : w'.exts = w.exts)
    (h : ∀ c, x.region = .chunk c → c ≠ k ∨ x.off + x.len ≤ off ∨ off + bs.length ≤ x.off) :
    w'.sliceBytes x = w.sliceBytes x := by
  unfold World.sliceBytes
  cases hr : x.region with
  | chunk c =>
    simp only
    rw [hheap, Heap.read_write_disjoint _ _ _ _ _ _ _ (h c hr)]
  | ext b => simp only [hexts]

theorem optimize_last (v v' : Iov) (pre : List Slice) (s : Slice) (hs : v.slices = pre ++ [s])
    (h : v.optimize = some v') :
    ∃ pre' last, v'.slices = pre' ++ [last] ∧ last.region = s.region ∧ s.len ≤ last.len ∧
      last.off + last.len = s.off + s.len ∧ ∀ x ∈ pre', x ∈ pre := by
  rcases optimize_cases v v' h with rfl | ⟨pre1, l, r, anc, a, ca, hsl, _, _, _, _, hr, hadj, rfl⟩
  · exact ⟨pre, s, hs, rfl, Nat.le_refl _, rfl, fun _ hx => hx⟩
  · rw [hs] at hsl
    have h0 : pre ++ [s] = (pre1 ++ [l]) ++ [r] := by simpa using hsl
    have h1 := List.append_inj_right' h0 rfl
    have h2 := List.append_inj_left' h0 rfl
    simp only [List.cons.injEq, and_true] at h1
    subst h1
    exact ⟨pre1, _, rfl, by simp [hr], by simp, by simp only; omega, fun x hx => by rw [h2]; simp [hx]⟩

/-- `push_copy` of a non-empty source appends exactly its bytes; all earlier slices keep their bytes. -/
theorem World.pushCopy_spec (w : World) (i : Nat) (v : Iov) (src : List UInt8) (hv : w.iov i = some v)
    (hinv : IovInv w v) (hne : src ≠ []) :
    ∃ w' v', w.pushCopy i src = some w' ∧ w'.iov i = some v' ∧ IovInv w' v' ∧
      absCells w' v' = absCells w v ++ src.map Cell.byte ∧
      w'.flat v'.slices = w.flat v.slices ++ src ∧
      v'.backrefs = v.backrefs ∧ v'.consumedSize = v.consumedSize ∧ v'.consumedSlices = v.consumedSlices ∧
      v'.logicalSize = v.logicalSize + src.length ∧
      w'.exts = w.exts ∧ w'.pol = w.pol ∧ w'.tun = w.tun ∧
      (∀ x ∈ v.slices, w'.sliceBytes x = w.sliceBytes x) ∧
      (∃ pre last c, v'.slices = pre ++ [last] ∧ last.region = .chunk c ∧ src.length ≤ last.len ∧
        ∀ x ∈ pre, x.region = .chunk c → x.off + x.len ≤ last.off + last.len - src.length) ∧
      (∀ j, j < v.slices.length → v'.slices.take j = v.slices.take j) ∧ w.next ≤ w'.next := by
  rw [pushCopy_eq w i v src hv hne]
  have hlen : 0 < src.length := List.length_pos_iff.mpr hne
  obtain ⟨hnext, hchunk, hcache, hord⟩ := alloc_facts w v src.length hinv _ rfl
  generalize alloc w.tun v.arena w.next src.length = al at hnext hchunk hcache hord ⊢
  obtain ⟨arena', next', chunk, off⟩ := al
  simp only at hnext hchunk hcache hord ⊢
  obtain ⟨hapos, hasum⟩ := pcAnchors_spec v.anchors chunk v.slices.length hinv.anchors_sum
  generalize pcAnchors v.anchors chunk = anchors' at hapos hasum ⊢
  have hane : anchors'.isEmpty = false := by
    cases anchors' with
    | nil => simp at hasum
    | cons _ _ => rfl
  simp only [hane, Bool.false_eq_true, if_false]
  -- the world after the copy
  let w1 : World := { w with heap := w.heap.write chunk off src, next := next' }
  have hold : ∀ x ∈ v.slices, SliceOk w1 arena' x := by
    intro x hx
    have hx0 := hinv.slices_ok x hx
    refine ⟨hx0.pos, hx0.ext, ?_⟩
    intro c hc
    refine ⟨Nat.lt_of_lt_of_le (hx0.chunk c hc).1 hnext, ?_⟩
    intro ca' hca' hcc
    obtain ⟨e1, e2⟩ := hcache ca' hca'
    have := hord x hx c hc (by omega)
    omega
  have hnew : SliceOk w1 arena' ⟨.chunk chunk, off, src.length⟩ := by
    refine ⟨hlen, (by intro b hb; cases hb), ?_⟩
    intro c hc
    simp only [Region.chunk.injEq] at hc
    subst hc
    refine ⟨hchunk, ?_⟩
    intro ca' hca' _
    obtain ⟨_, e2⟩ := hcache ca' hca'
    simp only; omega
  have h1 := push_slice_inv w w1 v ⟨.chunk chunk, off, src.length⟩ anchors' arena' hinv hnew hold
    (by intro ca' hca'; obtain ⟨e1, _⟩ := hcache ca' hca'; rw [e1]; exact hchunk)
    (by intro e he t ht hreg
        obtain ⟨s0, c, hget, _, hle⟩ := (hinv.br_ok e he).slice
        rw [ht] at hget; cases hget
        have := hord t (List.mem_of_getElem? ht) chunk hreg.symm rfl
        exact Or.inr (Or.inr (by simp only; omega)))
    hasum
  obtain ⟨v2, hv2⟩ := optimize_some _
    (show ∀ a, ({ v with slices := v.slices ++ [⟨.chunk chunk, off, src.length⟩], anchors := anchors', logicalSize := v.logicalSize + src.length, arena := arena' } : Iov).anchors.getLast? = some a → 0 < a.count from hapos) (by intro _ hn; simp only at hn; rw [hn] at hasum; simp at hasum)
  rw [hv2]
  obtain ⟨hinv2, hflat2, hbr2, hls2, hcs2, hcn2, har2⟩ := optimize_inv w1 _ v2 h1
    (by intro e he; have := (hinv.br_ok e he).idx_lt; simp only [List.length_append, List.length_singleton]; omega) hv2
  obtain ⟨pre', last, hl1, hl2, hl3, hl4, hl5⟩ := optimize_last _ v2 v.slices _ rfl hv2
  -- bytes of the old slices are untouched by the copy
  have hframe : ∀ x ∈ v.slices, w1.sliceBytes x = w.sliceBytes x := by
    intro x hx
    apply sliceBytes_write_disjoint w w1 chunk off src x rfl rfl
    intro c hc
    by_cases hcc : c = chunk
    · right; left; exact hord x hx c hc hcc
    · left; exact hcc
  have hflat1 : w1.flat (v.slices ++ [⟨.chunk chunk, off, src.length⟩]) = w.flat v.slices ++ src := by
    rw [World.flat_append, flat_congr v.slices hframe]
    simp only [World.flat_cons, World.flat_nil, List.append_nil]
    congr 1
    simp only [World.sliceBytes, w1]
    exact Heap.read_write_same _ _ _ _
  let wf : World := { (w.setIov i (some v2)) with heap := w.heap.write chunk off src, next := next' }
  have hwf_flat : ∀ l, wf.flat l = w1.flat l := fun l => flat_congr l (fun s _ => sliceBytes_congr s rfl rfl)
  refine ⟨wf, v2, rfl, ?_, ?_, ?_, ?_, hbr2, hcs2, hcn2, hls2, rfl, rfl, rfl, ?_, ?_, ?_, ?_⟩
  · show (World.iov { (w.setIov i (some v2)) with heap := _, next := _ } i) = some v2
    have := World.iov_setIov w i (some v2)
    exact this
  · exact hinv2.of_world (w := w1) (fun _ => Nat.le_refl _) (Nat.le_refl _)
  · apply absCells_push hinv src _ hbr2 hcs2
    rw [hwf_flat, hflat2]; exact hflat1
  · rw [hwf_flat, hflat2]; exact hflat1
  · intro x hx
    rw [← hframe x hx]
    exact sliceBytes_congr x rfl rfl
  · refine ⟨pre', last, chunk, hl1, hl2, hl3, ?_⟩
    intro x hx hxr
    have := hord x (hl5 x hx) chunk hxr rfl
    simp only at hl4
    omega
  · intro j hj
    rw [optimize_take _ v2 hv2 j (by show j + 2 ≤ (v.slices ++ [_]).length; rw [List.length_append, List.length_singleton]; exact Nat.add_le_add_right hj 1)]
    exact List.take_append_of_le_length (Nat.le_of_lt hj)
  · exact hnext

/-! ### Producer steps, composable -/

theorem stableN_nil (v : Iov) (h : v.backrefs = []) : v.stableN = v.slices.length := by
  unfold Iov.stableN; rw [h]; rfl

theorem visible_push {w w' : World} {v v' : Iov} (bytes : List UInt8) (hinv : IovInv w v)
    (hbr : v'.backrefs = v.backrefs) (hcn : v'.consumedSlices = v.consumedSlices)
    (hflat : w'.flat v'.slices = w.flat v.slices ++ bytes)
    (hframe : ∀ x ∈ v.slices, w'.sliceBytes x = w.sliceBytes x)
    (htake : ∀ j, j < v.slices.length → v'.slices.take j = v.slices.take j) :
    w'.visible v' = w.visible v ++ (if v.backrefs = [] then bytes else []) := by
  unfold World.visible
  cases hb : v.backrefs with
  | nil =>
    rw [stableN_nil v hb, stableN_nil v' (hbr.trans hb)]
    simp only [List.take_length, if_true]
    exact hflat
  | cons e t =>
    simp only [List.cons_ne_nil, if_false, List.append_nil]
    have hlt := (hinv.br_ok e (by rw [hb]; simp)).idx_lt
    have hge := (hinv.br_ok e (by rw [hb]; simp)).idx_ge
    have hj : e.2.sliceIndex - v.consumedSlices < v.slices.length := by omega
    have e1 : v.stableN = e.2.sliceIndex - v.consumedSlices := by
      unfold Iov.stableN; rw [hb]; simp only [List.head?_cons]; omega
    have ht := htake _ hj
    have hlen' : e.2.sliceIndex - v.consumedSlices ≤ v'.slices.length := by
      have := congrArg List.length ht
      simp only [List.length_take] at this
      omega
    have e2 : v'.stableN = e.2.sliceIndex - v.consumedSlices := by
      unfold Iov.stableN; rw [hbr, hb, hcn]; simp only [List.head?_cons]; omega
    rw [e1, e2, ht]
    exact flat_congr _ (fun x hx => hframe x (List.mem_of_mem_take hx))

/-- `v'` in world `w'` is `v` in world `w` with `bytes` appended (possibly merged into the last
slice); nothing already buffered changed. -/
structure Pushed (w w' : World) (v v' : Iov) (bytes : List UInt8) : Prop where
  inv : IovInv w' v'
  cells : absCells w' v' = absCells w v ++ bytes.map Cell.byte
  flat : w'.flat v'.slices = w.flat v.slices ++ bytes
  backrefs : v'.backrefs = v.backrefs
  consumedSize : v'.consumedSize = v.consumedSize
  consumedSlices : v'.consumedSlices = v.consumedSlices
  logicalSize : v'.logicalSize = v.logicalSize + bytes.length
  visible : w'.visible v' = w.visible v ++ (if v.backrefs = [] then bytes else [])
  pol : w'.pol = w.pol
  tun : w'.tun = w.tun

theorem Pushed.trans {w w' w'' : World} {v v' v'' : Iov} {b1 b2 : List UInt8}
    (h1 : Pushed w w' v v' b1) (h2 : Pushed w' w'' v' v'' b2) : Pushed w w'' v v'' (b1 ++ b2) :=
  { inv := h2.inv
    cells := by rw [h2.cells, h1.cells]; simp
    flat := by rw [h2.flat, h1.flat]; simp
    backrefs := h2.backrefs.trans h1.backrefs
    consumedSize := h2.consumedSize.trans h1.consumedSize
    consumedSlices := h2.consumedSlices.trans h1.consumedSlices
    logicalSize := by rw [h2.logicalSize, h1.logicalSize]; simp; omega
    visible := by
      rw [h2.visible, h1.visible, h1.backrefs]
      split <;> simp
    pol := h2.pol.trans h1.pol
    tun := h2.tun.trans h1.tun }

theorem Pushed.of_frame {w w' : World} {v : Iov} (_hinv : IovInv w v) (hinv' : IovInv w' v)
    (hf : ∀ x ∈ v.slices, w'.sliceBytes x = w.sliceBytes x) (hpol : w'.pol = w.pol) (htun : w'.tun = w.tun) :
    Pushed w w' v v [] := by
  have hflat : w'.flat v.slices = w.flat v.slices := flat_congr _ hf
  exact
    { inv := hinv'
      cells := by unfold absCells; rw [hflat]; simp
      flat := by rw [hflat]; simp
      backrefs := rfl, consumedSize := rfl, consumedSlices := rfl, logicalSize := rfl
      visible := by
        unfold World.visible
        rw [flat_congr _ (fun x hx => hf x (List.mem_of_mem_take hx))]
        split <;> simp
      pol := hpol, tun := htun }

theorem Pushed.refl {w : World} {v : Iov} (hinv : IovInv w v) : Pushed w w v v [] :=
  Pushed.of_frame hinv hinv (fun _ _ => rfl) rfl rfl

theorem Pushed.lend {w : World} {v : Iov} (hinv : IovInv w v) (b : Borrow) : Pushed w (w.lend b).1 v v [] :=
  Pushed.of_frame hinv (hinv.lend b) (fun x hx => sliceBytes_exts_append w v.arena x _ (hinv.slices_ok x hx)) rfl rfl

theorem Pushed.setIov {w w' : World} {v v' : Iov} {bytes : List UInt8} (h : Pushed w w' v v' bytes) (i : Nat)
    (o : Option Iov) : Pushed w (w'.setIov i o) v v' bytes :=
  { inv := h.inv.setIov i o
    cells := by rw [absCells_setIov]; exact h.cells
    flat := by rw [flat_setIov]; exact h.flat
    backrefs := h.backrefs, consumedSize := h.consumedSize, consumedSlices := h.consumedSlices
    logicalSize := h.logicalSize
    visible := by rw [visible_setIov]; exact h.visible
    pol := h.pol, tun := h.tun }

/-- `push_copy`, empty source included. -/
theorem World.pushCopy_total (w : World) (i : Nat) (v : Iov) (src : List UInt8) (hv : w.iov i = some v)
    (hinv : IovInv w v) :
    ∃ w' v', w.pushCopy i src = some w' ∧ w'.iov i = some v' ∧ Pushed w w' v v' src ∧ w'.exts = w.exts := by
  by_cases hne : src = []
  · subst hne
    refine ⟨w, v, ?_, hv, Pushed.refl hinv, rfl⟩
    unfold World.pushCopy; rw [hv]; rfl
  · obtain ⟨w', v', h1, h2, h3, h4, h5, h6, h7, h8, h9, h10, h11, h12, h13, _, h15, _⟩ :=
      World.pushCopy_spec w i v src hv hinv hne
    exact ⟨w', v', h1, h2,
      { inv := h3, cells := h4, flat := h5, backrefs := h6, consumedSize := h7, consumedSlices := h8,
        logicalSize := h9, visible := visible_push src hinv h6 h8 h5 h13 h15, pol := h11, tun := h12 }, h10⟩

/-- `push_borrowed` of a lent slice, empty slice included. -/
theorem World.pushBorrowed_total (w : World) (i : Nat) (v : Iov) (b : Borrow) (hv : w.iov i = some v)
    (hinv : IovInv w v) :
    ∃ v', (w.lend b).1.pushBorrowed i (w.lend b).2 = some ((w.lend b).1.setIov i (some v')) ∧
      Pushed w ((w.lend b).1.setIov i (some v')) v v' b.bs ∧ v'.arena = v.arena := by
  by_cases hb : b.bs = []
  · have h0 : (w.lend b).2.len = 0 := by simp [World.lend, hb]
    refine ⟨v, ?_, ?_, rfl⟩
    · unfold World.pushBorrowed
      rw [lend_iov, hv]
      simp only [h0, if_true]
      have : (w.lend b).1.setIov i (some v) = (w.lend b).1 := by
        unfold World.setIov
        congr 1
        unfold listSet
        have hvi := hv
        unfold World.iov at hvi
        have hlt : i < w.iovs.length := by
          rcases Nat.lt_or_ge i w.iovs.length with h | h
          · exact h
          · rw [List.getD_eq_getElem?_getD, List.getElem?_eq_none h] at hvi; cases hvi
        show (if i < w.iovs.length then w.iovs.set i (some v) else _) = w.iovs
        rw [if_pos hlt]
        apply List.ext_getElem?
        intro j
        rw [List.getElem?_set]
        by_cases hij : i = j
        · subst hij
          rw [List.getD_eq_getElem?_getD, List.getElem?_eq_getElem hlt] at hvi
          simp only [Option.getD_some] at hvi
          simp [hlt, hvi]
        · simp [hij]
      rw [this]
    · rw [hb]; exact (Pushed.lend hinv b).setIov i _
  · obtain ⟨v', h1, h2, h3, h4, h5, h6, h7, h8, h9, h10⟩ :=
      World.pushBorrowed_spec (w.lend b).1 i v (w.lend b).2 (by simpa using hv) (hinv.lend b)
        (lend_sliceOk _ _ b hb) ⟨_, rfl⟩
    rw [lend_sliceBytes] at h3 h8
    refine ⟨v', h1, ?_, h5⟩
    have hp : Pushed (w.lend b).1 (w.lend b).1 v v' b.bs :=
      { inv := h2, cells := h3, flat := h8, backrefs := h4, consumedSize := h6, consumedSlices := h9
        logicalSize := by rw [h7]; simp [World.lend]
        visible := visible_push b.bs (hinv.lend b) h4 h9 h8 (fun _ _ => rfl) h10
        pol := rfl, tun := rfl }
    have := (Pushed.lend hinv b).trans hp
    simpa using this.setIov i (some v')

/-! ### `push`, `extend` -/

theorem ite_cases' {α} (c : Prop) [Decidable c] (a b : α) : (if c then a else b) = a ∨ (if c then a else b) = b := by
  by_cases h : c
  · left; rw [if_pos h]
  · right; rw [if_neg h]

theorem World.push_eq (w : World) (i : Nat) (v : Iov) (s : Slice) (hv : w.iov i = some v) :
    w.push i s = w.pushCopy i (w.sliceBytes s) ∨ w.push i s = w.pushBorrowed i s := by
  unfold World.push
  rw [hv]
  exact ite_cases' _ _ _

/-- `OwningIovec::push` of a lent slice: copied or borrowed, the same bytes are appended. -/
theorem World.push_total (w : World) (i : Nat) (v : Iov) (b : Borrow) (hv : w.iov i = some v)
    (hinv : IovInv w v) :
    ∃ w' v', (w.lend b).1.push i (w.lend b).2 = some w' ∧ w'.iov i = some v' ∧ Pushed w w' v v' b.bs := by
  rcases World.push_eq (w.lend b).1 i v (w.lend b).2 (by simpa using hv) with h | h
  · rw [h, lend_sliceBytes]
    obtain ⟨w', v', h1, h2, h3, _⟩ := World.pushCopy_total (w.lend b).1 i v b.bs (by simpa using hv) (hinv.lend b)
    exact ⟨w', v', h1, h2, by simpa using (Pushed.lend hinv b).trans h3⟩
  · rw [h]
    obtain ⟨v', h1, h2, _⟩ := World.pushBorrowed_total w i v b hv hinv
    exact ⟨_, v', h1, by simp, h2⟩

theorem LentOk.of_exts_append {w : World} {s : Slice} {bs : List UInt8} (h : LentOk w s bs)
    (extra : List (List UInt8)) : LentOk ({ w with exts := w.exts ++ extra } : World) s bs := by
  by_cases hb : bs = []
  · subst hb
    refine ⟨h.ext, h.len, ?_, fun hne => absurd rfl hne⟩
    obtain ⟨b, hb⟩ := h.ext
    have hl := h.len
    simp only [List.length_nil] at hl
    simp [World.sliceBytes, hb, hl]
  · refine ⟨h.ext, h.len, ?_, ?_⟩
    · rw [sliceBytes_exts_append w ⟨none⟩ s extra (h.ok hb _)]; exact h.bytes
    · intro _ a
      exact (h.ok hb a).of_world (fun _ => exts_append_mono _ _ _) (Nat.le_refl _)

theorem LentOk.of_exts_eq {w w' : World} {s : Slice} {bs : List UInt8} (h : LentOk w s bs)
    (he : w'.exts = w.exts) (hn : w.next ≤ w'.next) : LentOk w' s bs := by
  refine ⟨h.ext, h.len, ?_, ?_⟩
  · obtain ⟨b, hb⟩ := h.ext
    have := h.bytes
    unfold World.sliceBytes at this ⊢
    rw [hb] at this ⊢
    simp only at this ⊢
    rw [he]; exact this
  · intro hne a
    exact (h.ok hne a).of_world (fun _ => by rw [he]; exact Nat.le_refl _) hn

theorem lend_lentOk (w : World) (b : Borrow) : LentOk (w.lend b).1 (w.lend b).2 b.bs :=
  ⟨⟨_, rfl⟩, rfl, lend_sliceBytes w b, fun hne a => lend_sliceOk w a b hne⟩

theorem lendAll_fst (w : World) (bs : List Borrow) :
    (w.lendAll bs).1 = { w with exts := w.exts ++ bs.map (fun b => b.pre ++ b.bs ++ b.post) } := by
  induction bs generalizing w with
  | nil => simp [World.lendAll]
  | cons b t ih =>
    simp only [World.lendAll]
    rw [ih]
    simp [World.lend]

theorem lendAll_spec (w : World) (bs : List Borrow) :
    ∃ l : List (Slice × List UInt8), (w.lendAll bs).2 = l.map (·.1) ∧ l.map (·.2) = bs.map (·.bs) ∧
      ∀ p ∈ l, LentOk (w.lendAll bs).1 p.1 p.2 := by
  induction bs generalizing w with
  | nil => exact ⟨[], rfl, rfl, by intro p hp; cases hp⟩
  | cons b t ih =>
    obtain ⟨l, h1, h2, h3⟩ := ih (w.lend b).1
    refine ⟨((w.lend b).2, b.bs) :: l, ?_, ?_, ?_⟩
    · simp only [World.lendAll, List.map_cons]; rw [h1]
    · simp only [List.map_cons]; rw [h2]
    · intro p hp
      simp only [List.mem_cons] at hp
      rcases hp with rfl | hp
      · simp only [World.lendAll]
        rw [lendAll_fst]
        exact (lend_lentOk w b).of_exts_append _
      · simp only [World.lendAll]
        exact h3 p hp

theorem World.extend_spec (i : Nat) : ∀ (l : List (Slice × List UInt8)) (w : World) (v : Iov),
    w.iov i = some v → IovInv w v → (∀ p ∈ l, LentOk w p.1 p.2) →
    ∃ w' v', w.extend i (l.map (·.1)) = some w' ∧ w'.iov i = some v' ∧
      Pushed w w' v v' (l.flatMap (·.2)) := by
  intro l
  induction l with
  | nil =>
    intro w v hv hinv _
    exact ⟨w, v, rfl, hv, Pushed.refl hinv⟩
  | cons p t ih =>
    intro w v hv hinv hl
    obtain ⟨s, bs⟩ := p
    have hp := hl (s, bs) (by simp)
    simp only [List.map_cons, World.extend, List.flatMap_cons]
    by_cases h0 : s.len = 0
    · rw [if_pos h0]
      have hbs : bs = [] := by
        have := hp.len; simp only at this; rw [h0] at this
        exact List.length_eq_zero_iff.mp this.symm
      obtain ⟨w', v', h1, h2, h3⟩ := ih w v hv hinv (fun q hq => hl q (by simp [hq]))
      exact ⟨w', v', h1, h2, by simpa [hbs] using h3⟩
    · rw [if_neg h0]
      have hbs : bs ≠ [] := by
        intro hb; have := hp.len; simp only at this; rw [hb] at this; simp at this; exact h0 this
      obtain ⟨v1, g1, g2, g3, _, _, g6, g7, g8, g9, g10⟩ :=
        World.pushBorrowed_spec w i v s hv hinv (hp.ok hbs _) hp.ext
      rw [g1]
      simp only
      have hb := hp.bytes
      simp only at hb
      rw [hb] at g3 g8
      have hp1 : Pushed w (w.setIov i (some v1)) v v1 bs :=
        Pushed.setIov
          { inv := g2, cells := g3, flat := g8, backrefs := by assumption, consumedSize := g6,
            consumedSlices := g9, logicalSize := by rw [g7, hp.len]
            visible := visible_push bs hinv (by assumption) g9 g8 (fun _ _ => rfl) g10
            pol := rfl, tun := rfl } i _
      obtain ⟨w', v', h1, h2, h3⟩ := ih (w.setIov i (some v1)) v1 (by simp) (g2.setIov _ _)
        (fun q hq => (hl q (by simp [hq])).of_exts_eq rfl (Nat.le_refl _))
      exact ⟨w', v', h1, h2, hp1.trans h3⟩

/-- `OwningIovec::extend` with lent buffers. -/
theorem World.extend_total (w : World) (i : Nat) (v : Iov) (bs : List Borrow) (hv : w.iov i = some v)
    (hinv : IovInv w v) :
    ∃ w' v', (w.lendAll bs).1.extend i (w.lendAll bs).2 = some w' ∧ w'.iov i = some v' ∧
      Pushed w w' v v' (bs.flatMap (·.bs)) := by
  obtain ⟨l, h1, h2, h3⟩ := lendAll_spec w bs
  have hw1 : (w.lendAll bs).1 = { w with exts := w.exts ++ bs.map (fun b => b.pre ++ b.bs ++ b.post) } :=
    lendAll_fst w bs
  have hinv1 : IovInv (w.lendAll bs).1 v := by
    rw [hw1]; exact hinv.of_world (fun _ => exts_append_mono _ _ _) (Nat.le_refl _)
  have hp0 : Pushed w (w.lendAll bs).1 v v [] := by
    apply Pushed.of_frame hinv hinv1
    · intro x hx; rw [hw1]; exact sliceBytes_exts_append w v.arena x _ (hinv.slices_ok x hx)
    · rw [hw1]
    · rw [hw1]
  obtain ⟨w', v', g1, g2, g3⟩ := World.extend_spec i l (w.lendAll bs).1 v (by rw [hw1]; exact hv) hinv1 h3
  rw [← h1] at g1
  have hflat : l.flatMap (·.2) = bs.flatMap (·.bs) := by
    rw [List.flatMap_def, List.flatMap_def, h2]
  rw [hflat] at g3
  exact ⟨w', v', g1, g2, by simpa using hp0.trans g3⟩

theorem producer_refines (i : Nat) (s : State) (w' : World) (v v' : Iov) (bytes : List UInt8)
    (hv : s.w.iov i = some v) (hv' : w'.iov i = some v') (hp : Pushed s.w w' v v' bytes) :
    Inv i { s with w := w' } ∧ abs i { s with w := w' } = (abs i s).append bytes := by
  refine ⟨⟨v', hv', hp.inv⟩, ?_⟩
  rw [abs_eq i s v hv, abs_eq i _ v' hv']
  simp only [Pipe.append, hp.cells]

theorem refines_pushCopy (i : Nat) (s : State) (src : List UInt8) (hinv : Inv i s) :
    Refines i s (.pushCopy src) := by
  obtain ⟨v, hv, hi⟩ := hinv
  obtain ⟨w', v', h1, h2, h3, _⟩ := World.pushCopy_total s.w i v src hv hi
  obtain ⟨g1, g2⟩ := producer_refines i s w' v v' src hv h2 h3
  exact ⟨_, _, by simp only [step, h1]; rfl, g1, g2, rfl⟩

theorem refines_push (i : Nat) (s : State) (b : Borrow) (hinv : Inv i s) :
    Refines i s (.push b) := by
  obtain ⟨v, hv, hi⟩ := hinv
  obtain ⟨w', v', h1, h2, h3⟩ := World.push_total s.w i v b hv hi
  obtain ⟨g1, g2⟩ := producer_refines i s w' v v' b.bs hv h2 h3
  exact ⟨_, _, by simp only [step, h1]; rfl, g1, g2, rfl⟩

theorem refines_extend (i : Nat) (s : State) (bs : List Borrow) (hinv : Inv i s) :
    Refines i s (.extend bs) := by
  obtain ⟨v, hv, hi⟩ := hinv
  obtain ⟨w', v', h1, h2, h3⟩ := World.extend_total s.w i v bs hv hi
  obtain ⟨g1, g2⟩ := producer_refines i s w' v v' _ hv h2 h3
  exact ⟨_, _, by simp only [step, h1]; rfl, g1, g2, rfl⟩

/-! ### `register_patch` -/

theorem BrOk.congr {v v' : Iov} {e : Nat × BackrefInfo} (h : BrOk v e) (hs : v'.slices = v.slices)
    (hcs : v'.consumedSize = v.consumedSize) (hcn : v'.consumedSlices = v.consumedSlices) : BrOk v' e :=
  h.of_append [] (by simp [hs]) hcs hcn

theorem mem_mkCells_hole (brs : List (Nat × BackrefInfo)) (off : Nat) (bs : List UInt8) (k : Nat)
    (h : Cell.hole k ∈ mkCells brs off bs) : ∃ e ∈ brs, e.1 = k := by
  induction bs generalizing off with
  | nil => simp [mkCells] at h
  | cons b t ih =>
    simp only [mkCells, List.mem_cons] at h
    rcases h with h | h
    · cases hh : holeAt brs off with
      | none => rw [hh] at h; cases h
      | some k' =>
        rw [hh] at h
        simp only [Cell.hole.injEq] at h
        subst h
        obtain ⟨e, he, hk, _⟩ := holeAt_some_mem brs off k hh
        exact ⟨e, he, hk⟩
    · exact ih _ h

theorem registerPatch_eq (w w' : World) (i : Nat) (v : Iov) (pat : List UInt8) (last : Slice)
    (hne : pat.isEmpty = false) (h1 : w.pushCopy i pat = some w') (h2 : w'.iov i = some v)
    (h3 : v.slices.getLast? = some last) :
    w.registerPatch i pat =
      (if (!lastKeyOk v || decide (v.logicalSize = 0)) = true then none
       else some (w'.setIov i (some { v with backrefs := v.backrefs ++
              [(v.logicalSize, ⟨v.consumedSlices + v.slices.length - 1, last.len - pat.length, pat.length⟩)] }),
            some (v.logicalSize, ⟨v.consumedSlices + v.slices.length - 1, last.len - pat.length, pat.length⟩))) := by
  unfold World.registerPatch
  simp only [hne, Bool.false_eq_true, if_false, h1, h2, h3]
  rfl

theorem World.registerPatch_spec (w : World) (i : Nat) (v : Iov) (pat : List UInt8) (hv : w.iov i = some v)
    (hinv : IovInv w v) (hne : pat ≠ []) :
    ∃ w' v' info, w.registerPatch i pat = some (w', some (v.logicalSize + pat.length, info)) ∧
      w'.iov i = some v' ∧ IovInv w' v' ∧ info.len = pat.length ∧
      absCells w' v' = absCells w v ++ List.replicate pat.length (Cell.hole (v.logicalSize + pat.length)) ∧
      (∀ c ∈ absCells w v, c ≠ Cell.hole (v.logicalSize + pat.length)) ∧
      v'.backrefs = v.backrefs ++ [(v.logicalSize + pat.length, info)] ∧
      v'.logicalSize = v.logicalSize + pat.length ∧ v'.consumedSize = v.consumedSize := by
  obtain ⟨w1, v1, h1, h2, h3, h4, h5, h6, h7, h8, h9, h10, h11, h12, h13, ⟨pre, last, c, hl1, hl2, hl3, hl4⟩, _, _⟩ :=
    World.pushCopy_spec w i v pat hv hinv hne
  have hplen : 0 < pat.length := List.length_pos_iff.mpr hne
  have hpe : pat.isEmpty = false := by cases pat with | nil => exact absurd rfl hne | cons _ _ => rfl
  have hlast : v1.slices.getLast? = some last := by rw [hl1]; simp
  rw [registerPatch_eq w w1 i v1 pat last hpe h1 h2 hlast]
  have hkeys : ∀ e ∈ v.backrefs, e.1 ≤ v.logicalSize := fun e he => (hinv.br_ok e he).key_le hinv.size_eq
  have hkey0 : ¬ v1.logicalSize = 0 := by omega
  have hok : lastKeyOk v1 = true := by
    unfold lastKeyOk
    cases hg : v1.backrefs.getLast? with
    | none => rfl
    | some e =>
      obtain ⟨k, inf⟩ := e
      simp only [decide_eq_true_eq]
      have hm : (k, inf) ∈ v.backrefs := by
        rw [← h6]; exact List.mem_of_getLast? hg
      have := hkeys _ hm
      simp only at this
      omega
  simp only [hok, Bool.not_true, Bool.false_or, hkey0, decide_false, Bool.false_eq_true, if_false]
  rw [← h9]
  have hlen1 : v1.slices.length = pre.length + 1 := by rw [hl1]; simp
  let info : BackrefInfo := ⟨v1.consumedSlices + v1.slices.length - 1, last.len - pat.length, pat.length⟩
  refine ⟨w1.setIov i (some { v1 with backrefs := v1.backrefs ++ [(v1.logicalSize, info)] }),
    { v1 with backrefs := v1.backrefs ++ [(v1.logicalSize, info)] }, info, rfl, by simp, ?_, rfl, ?_, ?_,
    by simp [h6], rfl, by simp [h7]⟩
  · -- invariant
    apply IovInv.setIov
    refine
      { slices_ok := h3.slices_ok, size_eq := h3.size_eq,
        anchors_sum := h3.anchors_sum, cache_fresh := h3.cache_fresh, br_ok := ?_, br_sorted := ?_,
        pend_disj := ?_ }
    · intro e he
      simp only [List.mem_append, List.mem_singleton] at he
      rcases he with he | rfl
      · exact (h3.br_ok e he).congr rfl rfl rfl
      · refine ⟨hplen, by simp only [info]; omega, ⟨last, c, ?_, hl2, by simp only [info]; omega⟩, ?_⟩
        · have : info.sliceIndex - v1.consumedSlices = pre.length := by simp only [info]; omega
          simp only [this, hl1]
          simp
        · have : info.sliceIndex - v1.consumedSlices = pre.length := by simp only [info]; omega
          unfold sliceStart
          simp only [this]
          have hs := h3.size_eq
          rw [hl1] at hs ⊢
          simp only [List.take_left', sumLens_append, sumLens_cons, sumLens_nil, info] at hs ⊢
          omega
    · show List.Pairwise BrLt (v1.backrefs ++ [(v1.logicalSize, info)])
      rw [List.pairwise_append]
      refine ⟨h3.br_sorted, by simp, ?_⟩
      intro a ha b hb
      simp only [List.mem_singleton] at hb
      subst hb
      have hk := hkeys a (by rw [← h6]; exact ha)
      have hi := (h3.br_ok a ha).idx_lt
      exact ⟨by simp only [info]; omega, by simp only [info]; omega⟩
    · intro e he t ht j x hx hj hreg
      simp only [List.mem_append, List.mem_singleton] at he
      simp only at ht hx hj
      rcases he with he | rfl
      · exact h3.pend_disj e he t ht j x hx hj hreg
      · have hidx : info.sliceIndex - v1.consumedSlices = pre.length := by simp only [info]; omega
        simp only [hidx, hl1] at ht hx hj
        simp at ht
        subst ht
        have hjlt : j < pre.length := by
          rcases Nat.lt_or_ge j (pre.length + 1) with h0 | h0
          · omega
          · rw [List.getElem?_eq_none (by simp; omega)] at hx; cases hx
        rw [List.getElem?_append_left hjlt] at hx
        have := hl4 x (List.mem_of_getElem? hx) (by rw [hreg, hl2])
        exact Or.inr (Or.inl (by simp only [info]; omega))
  · -- abstraction
    rw [absCells_setIov]
    unfold absCells
    simp only [h5, h6, h7]
    rw [mkCells_append]
    have hfl : (w.flat v.slices).length + v.consumedSize = v.logicalSize := by
      rw [hinv.flat_length]; have := hinv.size_eq; omega
    congr 1
    · apply mkCells_congr
      intro j hj
      rw [holeAt_append]
      have : holeAt [(v1.logicalSize, info)] (v.consumedSize + j) = none := by
        simp only [holeAt, info]
        rw [if_neg (by omega)]
      rw [this]; simp
    · apply mkCells_hole
      intro j hj
      rw [holeAt_append, holeAt_none_above hinv _ (by omega)]
      simp only [Option.none_or, holeAt, info]
      rw [if_pos (by omega)]
  · intro cell hc heq
    subst heq
    obtain ⟨e, he, hk⟩ := mem_mkCells_hole _ _ _ _ hc
    have := hkeys e he
    omega

/-! ### `backfill`: cell-level lemmas -/

theorem pairwise_trichotomy {α} {R : α → α → Prop} {l : List α} (h : l.Pairwise R) {a b : α}
    (ha : a ∈ l) (hb : b ∈ l) : a = b ∨ R a b ∨ R b a := by
  induction l with
  | nil => cases ha
  | cons x t ih =>
    rw [List.pairwise_cons] at h
    simp only [List.mem_cons] at ha hb
    rcases ha with rfl | ha <;> rcases hb with rfl | hb
    · left; rfl
    · right; left; exact h.1 b hb
    · right; right; exact h.1 a ha
    · exact ih h.2 ha hb

theorem BrLt.disjoint {a b : Nat × BackrefInfo} (h : BrLt a b) (off : Nat) : ¬ (InRange a off ∧ InRange b off) := by
  unfold BrLt at h; unfold InRange
  omega

theorem holeAt_eq_some_of_mem {brs : List (Nat × BackrefInfo)} (hs : brs.Pairwise BrLt)
    {e : Nat × BackrefInfo} (he : e ∈ brs) {off : Nat} (hr : InRange e off) : holeAt brs off = some e.1 := by
  induction brs with
  | nil => cases he
  | cons h t ih =>
    rw [List.pairwise_cons] at hs
    simp only [List.mem_cons] at he
    simp only [holeAt]
    rcases he with rfl | he
    · rw [if_pos (show e.1 ≤ off + e.2.len ∧ off < e.1 from hr)]
    · have : ¬ (h.1 ≤ off + h.2.len ∧ off < h.1) := fun hh => (hs.1 e he).disjoint off ⟨hh, hr⟩
      rw [if_neg this]
      exact ih hs.2 he

theorem holeAt_filter_of_not_inRange (brs : List (Nat × BackrefInfo)) (key off : Nat)
    (h : ∀ e ∈ brs, e.1 = key → ¬ InRange e off) :
    holeAt (brs.filter (fun e => decide (e.1 ≠ key))) off = holeAt brs off := by
  induction brs with
  | nil => rfl
  | cons x t ih =>
    have iht := ih (fun e he => h e (by simp [he]))
    by_cases hk : x.1 = key
    · have hnr := h x (by simp) hk
      simp only [List.filter_cons, hk, ne_eq, not_true_eq_false, decide_false, Bool.false_eq_true, if_false]
      rw [iht]
      simp only [holeAt]
      rw [if_neg (show ¬ (x.1 ≤ off + x.2.len ∧ off < x.1) from hnr)]
    · simp only [List.filter_cons, ne_eq, hk, not_false_eq_true, decide_true, if_true, holeAt]
      rw [iht]

theorem fillCells_nil_src (id : Nat) (l : List Cell) : fillCells id l [] = l := by
  induction l with
  | nil => rfl
  | cons c t ih => cases c <;> simp [fillCells, ih]

theorem fillCells_append_of_no_hole (id : Nat) (X Y : List Cell) (src : List UInt8)
    (h : ∀ c ∈ X, c ≠ Cell.hole id) : fillCells id (X ++ Y) src = X ++ fillCells id Y src := by
  induction X with
  | nil => rfl
  | cons c t ih =>
    have iht := ih (fun c hc => h c (by simp [hc]))
    cases c with
    | byte b => simp [fillCells, iht]
    | hole j =>
      have hj : j ≠ id := fun e => h (Cell.hole j) (by simp) (by rw [e])
      cases src with
      | nil => simp [fillCells_nil_src]
      | cons s ss =>
        simp only [List.cons_append, fillCells, hj, if_false, iht]

theorem fillCells_replicate (id : Nat) (src : List UInt8) (Z : List Cell) :
    fillCells id (List.replicate src.length (Cell.hole id) ++ Z) src = src.map Cell.byte ++ Z := by
  induction src with
  | nil => simp [fillCells_nil_src]
  | cons s ss ih =>
    simp only [List.length_cons, List.replicate_succ, List.cons_append, fillCells, if_true, List.map_cons, ih]

theorem mkCells_fill (brs : List (Nat × BackrefInfo)) (cs : Nat) (A B C src : List UInt8) (e : Nat × BackrefInfo)
    (he : e ∈ brs) (hs : brs.Pairwise BrLt) (hpos : ∀ x ∈ brs, 0 < x.2.len)
    (hA : cs + A.length + e.2.len = e.1) (hB : B.length = e.2.len) (hsrc : src.length = e.2.len) :
    mkCells (brs.filter (fun x => decide (x.1 ≠ e.1))) cs (A ++ src ++ C)
      = fillCells e.1 (mkCells brs cs (A ++ B ++ C)) src := by
  -- entries sharing the key are `e` itself
  have huniq : ∀ x ∈ brs, x.1 = e.1 → x = e := by
    intro x hx hk
    rcases pairwise_trichotomy hs hx he with h | h | h
    · exact h
    · have := hpos e he; unfold BrLt at h; omega
    · have := hpos x hx; unfold BrLt at h; omega
  have hout : ∀ off, ¬ InRange e off →
      holeAt (brs.filter (fun x => decide (x.1 ≠ e.1))) off = holeAt brs off ∧ holeAt brs off ≠ some e.1 := by
    intro off hnr
    refine ⟨holeAt_filter_of_not_inRange brs e.1 off (fun x hx hk => by rw [huniq x hx hk]; exact hnr), ?_⟩
    intro hh
    obtain ⟨x, hx, hk, hr⟩ := holeAt_some_mem brs off e.1 hh
    rw [huniq x hx hk] at hr
    exact hnr hr
  have hin : ∀ off, InRange e off →
      holeAt (brs.filter (fun x => decide (x.1 ≠ e.1))) off = none ∧ holeAt brs off = some e.1 := by
    intro off hr
    refine ⟨?_, holeAt_eq_some_of_mem hs he hr⟩
    rw [holeAt_eq_none_iff]
    intro x hx hxr
    simp only [List.mem_filter, ne_eq, decide_eq_true_eq] at hx
    rcases pairwise_trichotomy hs hx.1 he with h | h | h
    · exact hx.2 (by rw [h])
    · exact h.disjoint off ⟨hxr, hr⟩
    · exact h.disjoint off ⟨hr, hxr⟩
  have nohole : ∀ off (l : List UInt8), (∀ j, j < l.length → ¬ InRange e (off + j)) →
      mkCells (brs.filter (fun x => decide (x.1 ≠ e.1))) off l = mkCells brs off l ∧
      ∀ c ∈ mkCells brs off l, c ≠ Cell.hole e.1 := by
    intro off l hl
    refine ⟨mkCells_congr _ _ _ _ (fun j hj => (hout _ (hl j hj)).1), ?_⟩
    intro c hc heq
    subst heq
    -- a hole with key `e.1` would come from an offset in range
    clear hin
    induction l generalizing off with
    | nil => simp [mkCells] at hc
    | cons b t ih =>
      simp only [mkCells, List.mem_cons] at hc
      rcases hc with hc | hc
      · have h0 := (hout off (by simpa using hl 0 (by simp))).2
        cases hh : holeAt brs off with
        | none => rw [hh] at hc; cases hc
        | some k =>
          rw [hh] at hc h0
          simp only [Cell.hole.injEq] at hc
          exact h0 (by rw [hc])
      · apply ih (off + 1) _ hc
        intro j hj
        have := hl (j + 1) (by simp; omega)
        rwa [show off + 1 + j = off + (j + 1) by omega]
  rw [mkCells_append, mkCells_append, mkCells_append, mkCells_append]
  obtain ⟨eA, nA⟩ := nohole cs A (by intro j hj; unfold InRange; omega)
  obtain ⟨eC, nC⟩ := nohole (cs + (A ++ B).length) C
    (by intro j hj; unfold InRange; simp only [List.length_append]; omega)
  have hlen : (A ++ src).length = (A ++ B).length := by simp [hB, hsrc]
  rw [hlen, eA, eC]
  have eB : mkCells brs (cs + A.length) B = List.replicate src.length (Cell.hole e.1) := by
    rw [hsrc, ← hB]
    apply mkCells_hole
    intro j hj
    exact (hin _ (by unfold InRange; omega)).2
  have eS : mkCells (brs.filter (fun x => decide (x.1 ≠ e.1))) (cs + A.length) src = src.map Cell.byte := by
    apply mkCells_none
    intro j hj
    exact (hin _ (by unfold InRange; omega)).1
  rw [eB, eS, List.append_assoc, List.append_assoc, fillCells_append_of_no_hole _ _ _ _ nA, fillCells_replicate]

/-! ### `backfill_or_panic` -/

theorem br_key_unique {brs : List (Nat × BackrefInfo)} (hs : brs.Pairwise BrLt) (hpos : ∀ x ∈ brs, 0 < x.2.len)
    {a b : Nat × BackrefInfo} (ha : a ∈ brs) (hb : b ∈ brs) (hk : a.1 = b.1) : a = b := by
  rcases pairwise_trichotomy hs ha hb with h | h | h
  · exact h
  · have := hpos b hb; unfold BrLt at h; omega
  · have := hpos a ha; unfold BrLt at h; omega

theorem find?_key {brs : List (Nat × BackrefInfo)} (hs : brs.Pairwise BrLt) (hpos : ∀ x ∈ brs, 0 < x.2.len)
    {e : Nat × BackrefInfo} (he : e ∈ brs) : brs.find? (fun x => decide (x.1 = e.1)) = some e := by
  induction brs with
  | nil => cases he
  | cons x t ih =>
    simp only [List.find?_cons]
    by_cases hk : x.1 = e.1
    · have := br_key_unique hs hpos (List.mem_cons_self) he hk
      simp [this]
    · simp only [hk, decide_false]
      rw [List.pairwise_cons] at hs
      simp only [List.mem_cons] at he
      rcases he with rfl | he
      · exact absurd rfl hk
      · exact ih hs.2 (fun y hy => hpos y (by simp [hy])) he

/-- A stale, foreign or wrong-size token panics (no invariant needed). -/
theorem World.backfill_invalid (w : World) (i : Nat) (v : Iov) (tok : Backref) (src : List UInt8)
    (hv : w.iov i = some v) (h : ¬ ValidToken v tok src) : w.backfill i tok src = none := by
  unfold World.backfill
  rw [hv]
  cases tok with
  | none =>
    simp only [ValidToken] at h
    cases src with
    | nil => exact absurd rfl h
    | cons _ _ => rfl
  | some e =>
    obtain ⟨key, info⟩ := e
    simp only [ValidToken] at h
    simp only
    by_cases hl : info.len = src.length
    · rw [if_neg (by simpa using hl)]
      cases hf : v.backrefs.find? (fun x => decide (x.1 = key)) with
      | none => simp only []
      | some found =>
        simp only []
        have hm := List.mem_of_find?_eq_some hf
        have hne : found ≠ (key, info) := fun e => h ⟨by rw [← e]; exact hm, hl⟩
        rw [if_pos hne]
    · rw [if_pos (by simpa using hl)]

theorem slices_split (l : List Slice) (j : Nat) (t : Slice) (h : l[j]? = some t) :
    l = l.take j ++ t :: l.drop (j + 1) := by
  have hj : j < l.length := by
    rcases Nat.lt_or_ge j l.length with h1 | h1
    · exact h1
    · rw [List.getElem?_eq_none h1] at h; cases h
  have ht : l[j] = t := by rw [List.getElem?_eq_getElem hj] at h; exact Option.some.inj h
  conv => lhs; rw [← List.take_append_drop j l]
  rw [List.drop_eq_getElem_cons hj, ht]

theorem mem_take_getElem {α} {l : List α} {n : Nat} {x : α} (h : x ∈ l.take n) : ∃ j, j < n ∧ l[j]? = some x := by
  obtain ⟨j, hj, hx⟩ := List.mem_iff_getElem.mp h
  simp only [List.length_take] at hj
  refine ⟨j, by omega, ?_⟩
  rw [List.getElem_take] at hx
  rw [List.getElem?_eq_getElem (by omega), hx]

theorem mem_drop_getElem {α} {l : List α} {n : Nat} {x : α} (h : x ∈ l.drop n) : ∃ j, n ≤ j ∧ l[j]? = some x := by
  obtain ⟨j, hj, hx⟩ := List.mem_iff_getElem.mp h
  simp only [List.length_drop] at hj
  refine ⟨n + j, by omega, ?_⟩
  rw [List.getElem_drop] at hx
  rw [List.getElem?_eq_getElem (by omega), hx]

theorem World.backfill_spec (w : World) (i : Nat) (v : Iov) (e : Nat × BackrefInfo) (src : List UInt8)
    (hv : w.iov i = some v) (hinv : IovInv w v) (he : e ∈ v.backrefs) (hlen : e.2.len = src.length) :
    ∃ w' v', w.backfill i (some e) src = some w' ∧ w'.iov i = some v' ∧ IovInv w' v' ∧
      absCells w' v' = fillCells e.1 (absCells w v) src ∧
      v'.backrefs = v.backrefs.filter (fun x => decide (x.1 ≠ e.1)) ∧ v'.slices = v.slices ∧
      v'.consumedSize = v.consumedSize ∧ v'.logicalSize = v.logicalSize ∧ w'.exts = w.exts ∧
      (∀ x ∈ v.slices.take (e.2.sliceIndex - v.consumedSlices), w'.sliceBytes x = w.sliceBytes x) := by
  obtain ⟨key, info⟩ := e
  have hb := hinv.br_ok _ he
  obtain ⟨target, k, hget, hreg, hle⟩ := hb.slice
  simp only at hget hle hlen
  have hpos : ∀ x ∈ v.backrefs, 0 < x.2.len := fun x hx => (hinv.br_ok x hx).len_pos
  have hfind := find?_key hinv.br_sorted hpos he
  simp only at hfind
  let v' : Iov := { v with backrefs := v.backrefs.filter (fun x => decide (x.1 ≠ key)) }
  let wf : World := { (w.setIov i (some v')) with heap := w.heap.write k (target.off + info.begin) src }
  have hres : w.backfill i (some (key, info)) src = some wf := by
    unfold World.backfill
    rw [hv]
    simp only
    rw [if_neg (by simpa using hlen)]
    simp only [hfind]
    rw [if_neg (by simp)]
    rw [if_neg (by have := hb.idx_ge; simp only at this; omega)]
    simp only [hget]
    rw [if_neg (by omega)]
    simp only [hreg]
    rfl
  have hinv' : IovInv wf v' :=
    { slices_ok := fun s hs => (hinv.slices_ok s hs).of_world (fun _ => Nat.le_refl _) (Nat.le_refl _)
      pend_disj := fun x hx => hinv.pend_disj x (List.mem_filter.mp hx).1, size_eq := hinv.size_eq
      anchors_sum := hinv.anchors_sum, cache_fresh := hinv.cache_fresh
      br_ok := fun x hx => (hinv.br_ok x (List.mem_filter.mp hx).1).congr rfl rfl rfl
      br_sorted := hinv.br_sorted.filter _ }
  have hpd := hinv.pend_disj (key, info) he target hget
  simp only at hpd
  have hlp := hb.len_pos
  simp only at hlp
  have hframe : ∀ j x, v.slices[j]? = some x → j ≠ info.sliceIndex - v.consumedSlices → wf.sliceBytes x = w.sliceBytes x := by
    intro j x hx hj
    apply sliceBytes_write_disjoint w wf k (target.off + info.begin) src x rfl rfl
    intro c hc
    by_cases hck : c = k
    · right
      have := hpd j x hx hj (by rw [hc, hck, hreg])
      unfold Disj at this
      omega
    · left; exact hck
  refine ⟨wf, v', hres, ?_, hinv', ?_, rfl, rfl, rfl, rfl, rfl, ?_⟩
  · exact World.iov_setIov w i (some v')
  rotate_left
  · intro x hx
    obtain ⟨j, hj, hxj⟩ := mem_take_getElem hx
    simp only at hj
    exact hframe j x hxj (by omega)
  · -- contents
    have hsplit := slices_split v.slices _ target hget
    generalize hj : info.sliceIndex - v.consumedSlices = j at hget hsplit
    have hokT := hinv.slices_ok target (by rw [hsplit]; simp)
    -- bytes of the slices in the new world
    have hpreB : wf.flat (v.slices.take j) = w.flat (v.slices.take j) := by
      apply flat_congr
      intro x hx
      obtain ⟨j', hj', hxj⟩ := mem_take_getElem hx
      exact hframe j' x hxj (by omega)
    have hpostB : wf.flat (v.slices.drop (j + 1)) = w.flat (v.slices.drop (j + 1)) := by
      apply flat_congr
      intro x hx
      obtain ⟨j', hj', hxj⟩ := mem_drop_getElem hx
      exact hframe j' x hxj (by omega)
    have hT : wf.sliceBytes target =
        (w.sliceBytes target).take info.begin ++ src ++ (w.sliceBytes target).drop (info.begin + src.length) := by
      simp only [World.sliceBytes, hreg, wf]
      exact Heap.read_write_inside _ _ _ _ _ _ (by omega)
    have hTlen : (w.sliceBytes target).length = target.len := sliceBytes_length w v.arena target hokT
    -- the three pieces
    have hkey := hb.key_eq
    unfold sliceStart at hkey
    simp only [hj] at hkey
    have hpl : (w.flat (v.slices.take j)).length = sumLens (v.slices.take j) := hinv.flat_take_length j
    have hflat : w.flat v.slices =
        (w.flat (v.slices.take j) ++ (w.sliceBytes target).take info.begin) ++
          ((w.sliceBytes target).drop info.begin).take info.len ++
          (((w.sliceBytes target).drop (info.begin + info.len)) ++ w.flat (v.slices.drop (j + 1))) := by
      conv => lhs; rw [hsplit]
      simp only [World.flat_append, World.flat_cons, List.append_assoc]
      congr 1
      rw [← List.append_assoc, ← List.append_assoc]
      congr 1
      rw [List.append_assoc, ← List.drop_drop, List.take_append_drop, List.take_append_drop]
    have hflat' : wf.flat v.slices =
        (w.flat (v.slices.take j) ++ (w.sliceBytes target).take info.begin) ++ src ++
          (((w.sliceBytes target).drop (info.begin + info.len)) ++ w.flat (v.slices.drop (j + 1))) := by
      conv => lhs; rw [hsplit]
      simp only [World.flat_append, World.flat_cons, hpreB, hpostB, hT, hlen, List.append_assoc]
    unfold absCells
    show mkCells (v.backrefs.filter (fun x => decide (x.1 ≠ key))) v.consumedSize (wf.flat v.slices) = _
    rw [hflat, hflat']
    exact mkCells_fill v.backrefs v.consumedSize _ _ _ src (key, info) he hinv.br_sorted hpos
      (by simp only [List.length_append, List.length_take, hpl, hTlen]; omega)
      (by simp only [List.length_take, List.length_drop, hTlen]; omega)
      hlen.symm

/-! ### `impl Read for ConsumingIovec` -/

theorem SameMem.refl (w : World) : SameMem w w := ⟨rfl, rfl, rfl, rfl, rfl⟩
theorem SameMem.trans {w w' w'' : World} (h1 : SameMem w w') (h2 : SameMem w' w'') : SameMem w w'' :=
  ⟨h2.heap.trans h1.heap, h2.exts.trans h1.exts, h2.next.trans h1.next, h2.pol.trans h1.pol, h2.tun.trans h1.tun⟩
theorem SameMem.setIov (w : World) (i : Nat) (o : Option Iov) : SameMem w (w.setIov i o) := ⟨rfl, rfl, rfl, rfl, rfl⟩

theorem SameMem.flat {w w' : World} (h : SameMem w w') (l : List Slice) : w'.flat l = w.flat l :=
  flat_congr l (fun s _ => sliceBytes_congr s h.heap h.exts)

theorem sameMem_inv {w w' : World} (h : SameMem w w') {v : Iov} (hi : IovInv w v) : IovInv w' v :=
  hi.of_world (fun _ => by rw [h.exts]; exact Nat.le_refl _) (by rw [h.next]; exact Nat.le_refl _)

theorem SameMem.symm {w w' : World} (h : SameMem w w') : SameMem w' w :=
  ⟨h.heap.symm, h.exts.symm, h.next.symm, h.pol.symm, h.tun.symm⟩

theorem Consumed.of_sameMem {w w' : World} (h : SameMem w w') {v v' : Iov} {m : Nat} (hc : Consumed w v v' m) :
    Consumed w' v v' m :=
  { inv := sameMem_inv h hc.inv, backrefs := hc.backrefs, logicalSize := hc.logicalSize, arena := hc.arena,
    consumedSize := hc.consumedSize, slices_ge := hc.slices_ge, slices_end := hc.slices_end
    flat_take := by intro n hn; rw [h.flat, h.flat]; exact hc.flat_take n hn }

theorem Consumed.stableN {w : World} {v v' : Iov} {m : Nat} (hc : Consumed w v v' m) (hinv : IovInv w v) :
    v'.consumedSlices + v'.stableN = v.consumedSlices + v.stableN := by
  have h1 := hc.slices_ge
  have h2 := hc.slices_end
  unfold Iov.stableN
  rw [hc.backrefs]
  cases hb : v.backrefs with
  | nil => simp only [List.head?_nil]; omega
  | cons e t =>
    obtain ⟨k, info⟩ := e
    simp only [List.head?_cons]
    have g1 := (hinv.br_ok (k, info) (by rw [hb]; simp)).idx_ge
    have g2 := (hc.inv.br_ok (k, info) (by rw [hc.backrefs, hb]; simp)).idx_ge
    simp only at g1 g2
    omega

theorem Consumed.visible {w : World} {v v' : Iov} {m : Nat} (hc : Consumed w v v' m) (hinv : IovInv w v) :
    w.visible v' = (w.visible v).drop m := by
  unfold World.visible
  have h := hc.stableN hinv
  have := hc.flat_take v.stableN (by omega)
  rw [← this]
  congr 2
  omega

theorem visible_prefix_flat (w : World) (v : Iov) : w.visible v <+: w.flat v.slices := by
  unfold World.visible
  conv => rhs; rw [← List.take_append_drop v.stableN v.slices]
  rw [World.flat_append]
  exact List.prefix_append _ _

theorem IovInv.visible_length {w : World} {v : Iov} (h : IovInv w v) :
    (w.visible v).length = sumLens (v.slices.take v.stableN) := h.flat_take_length _

theorem World.readInto_spec (i : Nat) (fuel : Nat) : ∀ (w : World) (v : Iov) (room : Nat) (acc : List UInt8),
    w.iov i = some v → IovInv w v → room < fuel →
    ∃ w' v', World.readInto fuel w i room acc = some (w', acc ++ (w.visible v).take room) ∧
      w'.iov i = some v' ∧ SameMem w w' ∧ Consumed w v v' (min room (w.visible v).length) := by
  induction fuel with
  | zero => intro _ _ _ _ _ _ h; omega
  | succ fuel ih =>
    intro w v room acc hv hinv hfuel
    rw [World.readInto]
    by_cases hr : room = 0
    · subst hr
      rw [if_pos rfl]
      exact ⟨w, v, by simp, hv, SameMem.refl w, by simpa using Consumed.refl hinv⟩
    · rw [if_neg hr]
      simp only [hv, hinv.stableCount]
      cases hh : (v.slices.take v.stableN).head? with
      | none =>
        have hnil : v.slices.take v.stableN = [] := by
          cases ht : v.slices.take v.stableN with
          | nil => rfl
          | cons a t => rw [ht] at hh; cases hh
        have hvis : w.visible v = [] := by unfold World.visible; rw [hnil]; rfl
        simp only
        exact ⟨w, v, by simp [hvis], hv, SameMem.refl w, by simpa [hvis] using Consumed.refl hinv⟩
      | some s =>
        simp only
        obtain ⟨t, ht⟩ : ∃ t, v.slices.take v.stableN = s :: t := by
          cases ht : v.slices.take v.stableN with
          | nil => rw [ht] at hh; cases hh
          | cons a t => rw [ht] at hh; simp at hh; exact ⟨t, by rw [hh]⟩
        have hsok : SliceOk w v.arena s :=
          hinv.slices_ok s (List.mem_of_mem_take (by rw [ht]; simp))
        have hslen := sliceBytes_length w v.arena s hsok
        have hvis : w.visible v = w.sliceBytes s ++ w.flat t := by
          unfold World.visible; rw [ht]; simp
        have hsl : sumLens (v.slices.take v.stableN) = s.len + sumLens t := by rw [ht]; simp
        obtain ⟨v1, h1, h2⟩ := World.advance_spec w i v (min s.len room) hv hinv
        have hk : min (min s.len room) (sumLens (v.slices.take v.stableN)) = min s.len room := by
          rw [hsl]; omega
        rw [hk] at h1 h2
        rw [h1]
        simp only
        have hpos := hsok.pos
        obtain ⟨w2, v2, g1, g2, g3, g4⟩ := ih (w.setIov i (some v1)) v1 (room - min s.len room)
          (acc ++ (w.sliceBytes s).take (min s.len room)) (by simp) (h2.inv.setIov _ _) (by omega)
        have hvis1 : (w.setIov i (some v1)).visible v1 = (w.visible v).drop (min s.len room) := by
          rw [visible_setIov]; exact h2.visible hinv
        rw [hvis1] at g1 g4
        refine ⟨w2, v2, ?_, g2, (SameMem.setIov w i _).trans g3, ?_⟩
        · rw [g1]
          congr 1
          rw [List.append_assoc]
          congr 1
          have e1 : (w.sliceBytes s).take (min s.len room) = (w.visible v).take (min s.len room) := by
            rw [hvis, List.take_append_of_le_length (by omega)]
          rw [e1]
          have e2 : room = min s.len room + (room - min s.len room) := by omega
          conv => rhs; rw [e2, List.take_add]
        · have hc2 : Consumed w v1 v2 _ := g4.of_sameMem (SameMem.setIov w i (some v1)).symm
          have := h2.trans hc2
          have hl : (w.visible v).length = s.len + sumLens t := by rw [hinv.visible_length, hsl]
          have e : min s.len room + min (room - min s.len room) ((w.visible v).drop (min s.len room)).length
              = min room (w.visible v).length := by
            rw [List.length_drop, hl]; omega
          rw [e] at this
          exact this

/-! ### Remaining operations at the level of `step` -/

theorem refines_registerPatch (i : Nat) (s : State) (pat : List UInt8) (hinv : Inv i s) :
    Refines i s (.registerPatch pat) := by
  obtain ⟨v, hv, hi⟩ := hinv
  by_cases hne : pat = []
  · subst hne
    have h1 : s.w.registerPatch i [] = some (s.w, none) := by unfold World.registerPatch; rfl
    refine ⟨{ s with nextId := s.nextId + 1 }, .token none, by simp only [step, h1]; rfl, ⟨v, hv, hi⟩, ?_, rfl⟩
    rw [abs_eq i s v hv, abs_eq i { s with nextId := s.nextId + 1 } v hv]
    simp [specStep, Pipe.registerAs]
  · obtain ⟨w', v', info, h1, h2, h3, h4, h5, h6, _⟩ := World.registerPatch_spec s.w i v pat hv hi hne
    refine ⟨_, _, by simp only [step, h1]; rfl, ⟨v', h2, h3⟩, ?_, ?_⟩
    · rw [abs_eq i s v hv, abs_eq i _ v' h2]
      simp only [specStep, Pipe.registerAs, h5]
    · rw [abs_eq i s v hv]
      exact ⟨hne, h4, h6⟩

theorem refines_backfill (i : Nat) (s : State) (v : Iov) (tok : Backref) (src : List UInt8)
    (hv : s.w.iov i = some v) (hi : IovInv s.w v) (hvalid : ValidToken v tok src) :
    Refines i s (.backfill tok src) := by
  cases tok with
  | none =>
    simp only [ValidToken] at hvalid
    subst hvalid
    have h1 : s.w.backfill i none [] = some s.w := by unfold World.backfill; rw [hv]; rfl
    exact ⟨_, _, by simp only [step, h1]; rfl, ⟨v, hv, hi⟩, rfl, rfl⟩
  | some e =>
    obtain ⟨he, hl⟩ := hvalid
    obtain ⟨w', v', h1, h2, h3, h4, _⟩ := World.backfill_spec s.w i v e src hv hi he hl
    obtain ⟨key, info⟩ := e
    refine ⟨_, _, by simp only [step, h1]; rfl, ⟨v', h2, h3⟩, ?_, rfl⟩
    rw [abs_eq i s v hv, abs_eq i _ v' h2]
    simp only [specStep, Pipe.fill, h4]

theorem step_backfill_invalid (i : Nat) (s : State) (v : Iov) (tok : Backref) (src : List UInt8)
    (hv : s.w.iov i = some v) (h : ¬ ValidToken v tok src) : step i s (.backfill tok src) = none := by
  simp only [step, World.backfill_invalid s.w i v tok src hv h]
  rfl

/-- The general form of `consumer_refines`: the new world may be any world with the same memory. -/
theorem consumer_refines' (i : Nat) (s : State) (w' : World) (v v' : Iov) (m : Nat) (hv : s.w.iov i = some v)
    (hv' : w'.iov i = some v') (hmem : SameMem s.w w')
    (hinv : IovInv s.w v) (hc : Consumed s.w v v' m) (hm : m ≤ sumLens (v.slices.take v.stableN)) :
    Inv i { s with w := w', ghost := s.ghost ++ (s.w.flat v.slices).take m } ∧
    abs i { s with w := w', ghost := s.ghost ++ (s.w.flat v.slices).take m }
      = ((abs i s).consume ((s.w.flat v.slices).take m).length).1 ∧
    (s.w.flat v.slices).take m <+: (abs i s).stable ∧ ((s.w.flat v.slices).take m).length = m := by
  obtain ⟨g1, g2, g3, g4⟩ := consumer_refines i s v v' m hv hinv hc hm
  refine ⟨⟨v', hv', sameMem_inv hmem hc.inv⟩, ?_, g3, g4⟩
  rw [← g2, abs_eq i _ v' hv', abs_eq i _ v' (by simp)]
  simp only [absCells_setIov]
  unfold absCells
  rw [hmem.flat]

theorem refines_readInto (i : Nat) (s : State) (room : Nat) (hinv : Inv i s) :
    Refines i s (.readInto room) := by
  obtain ⟨v, hv, hi⟩ := hinv
  obtain ⟨w', v', h1, h2, h3, h4⟩ := World.readInto_spec i (room + 2) s.w v room [] hv hi (by omega)
  have hm : min room (s.w.visible v).length ≤ sumLens (v.slices.take v.stableN) := by
    rw [hi.visible_length]; exact Nat.min_le_right _ _
  obtain ⟨g1, g2, g3, g4⟩ := consumer_refines' i s w' v v' _ hv h2 h3 hi h4 hm
  have hrm : (s.w.flat v.slices).take (min room (s.w.visible v).length) = (s.w.visible v).take room := by
    obtain ⟨rest, hrest⟩ := visible_prefix_flat s.w v
    rw [← hrest, List.take_append_of_le_length (Nat.min_le_right _ _)]
    rw [List.take_eq_take_iff]; simp
  rw [hrm] at g1 g2 g3 g4
  simp only [List.nil_append] at h1
  refine ⟨{ s with w := w', ghost := s.ghost ++ (s.w.visible v).take room },
    .took ((s.w.visible v).take room).length ((s.w.visible v).take room),
    by simp only [step, h1]; rfl, g1, g2, rfl, ?_, g3⟩
  rw [g4]; exact Nat.min_le_left _ _

theorem refines_pop (i : Nat) (s : State) (v : Iov) (hv : s.w.iov i = some v) (hi : IovInv s.w v)
    (hn : 0 < v.stableN) : Refines i s .pop := by
  unfold Refines
  simp only [step, hv]
  obtain ⟨v', h1, h2, _⟩ := World.consume_spec s.w i v 1 hv hi
  have h11 : min 1 v.stableN = 1 := by omega
  rw [h11] at h1 h2
  rw [h1]
  have hm : sumLens (v.slices.take 1) ≤ sumLens (v.slices.take v.stableN) := sumLens_take_mono _ hn
  obtain ⟨g1, g2, g3, _⟩ := consumer_refines i s v v' _ hv hi h2 hm
  rw [flat_take_prefix s.w v.arena v.slices _ hi.slices_ok] at g1 g2 g3
  exact ⟨_, _, rfl, g1, g2, rfl, g3⟩

theorem step_pop_empty (i : Nat) (s : State) (v : Iov) (hv : s.w.iov i = some v) (hi : IovInv s.w v)
    (hn : v.stableN = 0) : step i s .pop = none := by
  simp only [step, hv]
  obtain ⟨v', h1, _⟩ := World.consume_spec s.w i v 1 hv hi
  rw [h1, hn]
  rfl

theorem refines_clear (i : Nat) (s : State) (hinv : Inv i s) : Refines i s .clear := by
  obtain ⟨v, hv, hi⟩ := hinv
  have h1 : s.w.clear i = some (s.w.setIov i (some { Iov.empty with arena := v.arena })) := by
    unfold World.clear; rw [hv]
  refine ⟨{ s with w := s.w.setIov i (some { Iov.empty with arena := v.arena }), ghost := [] }, .unit,
    by simp only [step, h1]; rfl,
    ⟨{ Iov.empty with arena := v.arena }, by simp, (IovInv.empty s.w v.arena hi.cache_fresh).setIov _ _⟩, ?_, rfl⟩
  rw [abs_eq i s v hv, abs_eq i _ { Iov.empty with arena := v.arena } (by simp)]
  simp [specStep, Pipe.clear, absCells, Iov.empty, mkCells]

/-- Replacing the arena by one whose cache (if any) lies above every owned slice. -/
theorem IovInv.set_arena {w w' : World} {v : Iov} (h : IovInv w v) (a' : Arena)
    (hexts : w'.exts = w.exts) (hnext : w.next ≤ w'.next)
    (hcache : ∀ ca', a'.cache = some ca' → ca'.chunk < w'.next ∧
      ∀ s ∈ v.slices, ∀ c, s.region = .chunk c → ca'.chunk = c → s.off + s.len ≤ ca'.bump) :
    IovInv w' { v with arena := a' } :=
  { slices_ok := fun s hs =>
      { pos := (h.slices_ok s hs).pos
        ext := fun b hb => by rw [hexts]; exact (h.slices_ok s hs).ext b hb
        chunk := fun c hc => ⟨Nat.lt_of_lt_of_le ((h.slices_ok s hs).chunk c hc).1 hnext,
          fun ca' hca' hcc => (hcache ca' hca').2 s hs c hc hcc⟩ }
    pend_disj := h.pend_disj, size_eq := h.size_eq, anchors_sum := h.anchors_sum
    cache_fresh := fun ca' hca' => (hcache ca' hca').1
    br_ok := fun e he => (h.br_ok e he).congr rfl rfl rfl
    br_sorted := h.br_sorted }

theorem refines_flush (i : Nat) (s : State) (hinv : Inv i s) : Refines i s .flush := by
  obtain ⟨v, hv, hi⟩ := hinv
  refine ⟨{ s with w := s.w.setIov i (some { v with arena := flush v.arena }) }, .unit, by simp only [step, hv],
    ⟨{ v with arena := flush v.arena }, by simp, ?_⟩, ?_, rfl⟩
  · apply IovInv.setIov
    exact hi.set_arena (flush v.arena) rfl (Nat.le_refl _) (by intro ca' h; cases h)
  · rw [abs_eq i s v hv, abs_eq i _ { v with arena := flush v.arena } (by simp)]
    simp [specStep, absCells]

theorem refines_reserve (i : Nat) (s : State) (k : Nat) (hinv : Inv i s) : Refines i s (.reserve k) := by
  obtain ⟨v, hv, hi⟩ := hinv
  have hcases : (ensureCapacity s.w.tun v.arena s.w.next k = (v.arena, s.w.next)) ∨
      ∃ cap, ensureCapacity s.w.tun v.arena s.w.next k = (⟨some ⟨s.w.next, cap, 0⟩⟩, s.w.next + 1) := by
    unfold ensureCapacity
    cases hc : v.arena.cache with
    | none => right; exact ⟨_, rfl⟩
    | some c =>
      simp only
      by_cases hr : c.remaining ≥ k
      · left; rw [if_pos hr]
      · right; rw [if_neg hr]; exact ⟨_, rfl⟩
  rcases hcases with he | ⟨cap, he⟩
  · refine ⟨{ s with w := { s.w with next := s.w.next }.setIov i (some { v with arena := v.arena }) }, .unit,
      by simp only [step, hv, he], ⟨{ v with arena := v.arena }, by simp, ?_⟩, ?_, rfl⟩
    · apply IovInv.setIov
      exact hi.set_arena (w' := { s.w with next := s.w.next }) v.arena rfl (Nat.le_refl _)
        (fun ca' hca' => ⟨hi.cache_fresh ca' hca', fun x hx c hc hcc => ((hi.slices_ok x hx).chunk c hc).2 ca' hca' hcc⟩)
    · rw [abs_eq i s v hv, abs_eq i _ { v with arena := v.arena } (by simp)]
      simp only [specStep, absCells_setIov]
  · refine ⟨{ s with w := { s.w with next := s.w.next + 1 }.setIov i (some { v with arena := ⟨some ⟨s.w.next, cap, 0⟩⟩ }) },
      .unit, by simp only [step, hv, he], ⟨{ v with arena := ⟨some ⟨s.w.next, cap, 0⟩⟩ }, by simp, ?_⟩, ?_, rfl⟩
    · apply IovInv.setIov
      apply hi.set_arena (w' := { s.w with next := s.w.next + 1 }) _ rfl (Nat.le_succ _)
      intro ca' hca'
      simp only [Option.some.injEq] at hca'
      subst hca'
      refine ⟨Nat.lt_succ_self _, fun x hx c hc hcc => ?_⟩
      have := ((hi.slices_ok x hx).chunk c hc).1
      simp only at hcc
      omega
    · rw [abs_eq i s v hv, abs_eq i _ { v with arena := ⟨some ⟨s.w.next, cap, 0⟩⟩ } (by simp)]
      simp only [specStep, absCells_setIov]
      rfl

/-! ### All operations together; panics; the ledger of appended cells -/

theorem refines_of_not_panics (i : Nat) (s : State) (op : Op) (hinv : Inv i s) (hp : ¬ Panics i s op) :
    Refines i s op := by
  obtain ⟨v, hv, hi⟩ := hinv
  cases op with
  | pushCopy src => exact refines_pushCopy i s src ⟨v, hv, hi⟩
  | pushBorrowed b => exact refines_pushBorrowed i s b ⟨v, hv, hi⟩
  | push b => exact refines_push i s b ⟨v, hv, hi⟩
  | extend bs => exact refines_extend i s bs ⟨v, hv, hi⟩
  | registerPatch pat => exact refines_registerPatch i s pat ⟨v, hv, hi⟩
  | backfill tok src =>
    apply refines_backfill i s v tok src hv hi
    apply Classical.byContradiction
    intro hnv
    exact hp (fun v' hv' => by rw [hv] at hv'; cases hv'; exact hnv)
  | consume c => exact refines_consume i s c ⟨v, hv, hi⟩
  | pop =>
    apply refines_pop i s v hv hi
    apply Nat.pos_of_ne_zero
    intro h0
    exact hp (fun v' hv' => by rw [hv] at hv'; cases hv'; exact h0)
  | advance c => exact refines_advance i s c ⟨v, hv, hi⟩
  | readInto room => exact refines_readInto i s room ⟨v, hv, hi⟩
  | clear => exact refines_clear i s ⟨v, hv, hi⟩
  | flush => exact refines_flush i s ⟨v, hv, hi⟩
  | reserve k => exact refines_reserve i s k ⟨v, hv, hi⟩

theorem step_none_iff (i : Nat) (s : State) (op : Op) (hinv : Inv i s) :
    step i s op = none ↔ Panics i s op := by
  constructor
  · intro h
    apply Classical.byContradiction
    intro hp
    obtain ⟨s', r, h1, _⟩ := refines_of_not_panics i s op hinv hp
    rw [h] at h1; cases h1
  · intro hp
    obtain ⟨v, hv, hi⟩ := hinv
    cases op with
    | backfill tok src => exact step_backfill_invalid i s v tok src hv (hp v hv)
    | pop => exact step_pop_empty i s v hv hi (hp v hv)
    | _ => exact absurd hp (by simp [Panics])

theorem step_refines (i : Nat) (s s' : State) (op : Op) (r : Ret) (hinv : Inv i s)
    (h : step i s op = some (s', r)) :
    Inv i s' ∧ abs i s' = specStep (abs i s) op r ∧ specOk (abs i s) op r := by
  have hp : ¬ Panics i s op := by
    intro hp
    rw [(step_none_iff i s op hinv).mpr hp] at h; cases h
  exact (refines_of_not_panics i s op hinv hp).elim s' r h

/-! #### The ledger -/

theorem cells_of_prefix_stable (cells : List Cell) (rm : List UInt8)
    (h : rm <+: cellBytes (cells.takeWhile Cell.isByte)) : cells = rm.map Cell.byte ++ cells.drop rm.length := by
  induction rm generalizing cells with
  | nil => simp
  | cons b t ih =>
    cases cells with
    | nil => simp [cellBytes] at h
    | cons c cs =>
      cases c with
      | hole j => simp [List.takeWhile, Cell.isByte, cellBytes] at h
      | byte x =>
        simp only [List.takeWhile, Cell.isByte, cellBytes, List.cons_prefix_cons] at h
        obtain ⟨rfl, h2⟩ := h
        simp only [List.map_cons, List.length_cons, List.drop_succ_cons, List.cons_append, List.cons.injEq, true_and]
        exact ih cs h2

theorem Pipe.consume_history (p : Pipe) (rm : List UInt8) (h : rm <+: p.stable) :
    pipeHistory (p.consume rm.length).1 = pipeHistory p ∧ p.cells = rm.map Cell.byte ++ (p.consume rm.length).1.cells ∧
      (p.consume rm.length).1.consumed = p.consumed ++ rm := by
  have hc := cells_of_prefix_stable p.cells rm h
  obtain ⟨e1, _⟩ := Pipe.consume_of_cells p rm _ hc
  rw [e1]
  refine ⟨?_, hc, rfl⟩
  unfold pipeHistory
  simp only [List.map_append, List.append_assoc]
  rw [← hc]

theorem fillCells_map_byte_append (id : Nat) (bs : List UInt8) (l : List Cell) (src : List UInt8) :
    fillCells id (bs.map Cell.byte ++ l) src = bs.map Cell.byte ++ fillCells id l src :=
  fillCells_append_of_no_hole id _ _ _ (by
    intro c hc heq
    simp only [List.mem_map] at hc
    obtain ⟨b, _, hb⟩ := hc
    rw [heq] at hb; cases hb)

theorem history_specStep (p : Pipe) (op : Op) (r : Ret) (hok : specOk p op r) :
    pipeHistory (specStep p op r) = ledgerStep (pipeHistory p) op r := by
  cases op with
  | pushCopy src => simp [specStep, ledgerStep, pipeHistory, Pipe.append]
  | pushBorrowed b => simp [specStep, ledgerStep, pipeHistory, Pipe.append]
  | push b => simp [specStep, ledgerStep, pipeHistory, Pipe.append]
  | extend bs => simp [specStep, ledgerStep, pipeHistory, Pipe.append]
  | registerPatch pat =>
    cases r with
    | token b =>
      cases b with
      | none => simp [specStep, ledgerStep, pipeHistory, Pipe.registerAs]
      | some e => obtain ⟨k, inf⟩ := e; simp [specStep, ledgerStep, pipeHistory, Pipe.registerAs]
    | unit => exact absurd hok (by simp [specOk])
    | took n rm => exact absurd hok (by simp [specOk])
  | backfill tok src =>
    cases tok with
    | none => simp [specStep, ledgerStep]
    | some e =>
      obtain ⟨k, inf⟩ := e
      simp only [specStep, ledgerStep, pipeHistory, Pipe.fill]
      rw [fillCells_map_byte_append]
  | consume c =>
    cases r with
    | took n rm => simp only [specStep, ledgerStep]; exact (Pipe.consume_history p rm hok).1
    | unit => exact absurd hok (by simp [specOk])
    | token b => exact absurd hok (by simp [specOk])
  | pop =>
    cases r with
    | took n rm => simp only [specStep, ledgerStep]; exact (Pipe.consume_history p rm hok.2).1
    | unit => exact absurd hok (by simp [specOk])
    | token b => exact absurd hok (by simp [specOk])
  | advance c =>
    cases r with
    | took n rm => simp only [specStep, ledgerStep]; exact (Pipe.consume_history p rm hok.2.2).1
    | unit => exact absurd hok (by simp [specOk])
    | token b => exact absurd hok (by simp [specOk])
  | readInto c =>
    cases r with
    | took n rm => simp only [specStep, ledgerStep]; exact (Pipe.consume_history p rm hok.2.2).1
    | unit => exact absurd hok (by simp [specOk])
    | token b => exact absurd hok (by simp [specOk])
  | clear => simp [specStep, ledgerStep, pipeHistory, Pipe.clear]
  | flush => simp [specStep, ledgerStep]
  | reserve k => simp [specStep, ledgerStep]

theorem history_specRun (ops : List Op) : ∀ (p : Pipe) (rs : List Ret), specOkRun p ops rs →
    pipeHistory (specRun p ops rs) = ledger (pipeHistory p) ops rs := by
  induction ops with
  | nil => intro p rs _; cases rs <;> rfl
  | cons op ops ih =>
    intro p rs hok
    cases rs with
    | nil => exact absurd hok (by simp [specOkRun])
    | cons r rs =>
      simp only [specOkRun] at hok
      simp only [specRun, ledger]
      rw [ih _ _ hok.2, history_specStep p op r hok.1]

/-! ### Exact results of the consumer operations -/

theorem step_consume_exact (i : Nat) (s : State) (v : Iov) (count : Nat) (hv : s.w.iov i = some v)
    (hi : IovInv s.w v) :
    ∃ v', step i s (.consume count) =
        some ({ s with w := s.w.setIov i (some v'),
                       ghost := s.ghost ++ s.w.flat (v.slices.take (min count v.stableN)) },
              .took (min count v.stableN) (s.w.flat (v.slices.take (min count v.stableN)))) ∧
      v'.slices = v.slices.drop (min count v.stableN) := by
  obtain ⟨v', h1, _, h3⟩ := World.consume_spec s.w i v count hv hi
  exact ⟨v', by simp only [step, hv, h1]; rfl, h3⟩

theorem step_advance_exact (i : Nat) (s : State) (v : Iov) (count : Nat) (hv : s.w.iov i = some v)
    (hi : IovInv s.w v) :
    ∃ v', step i s (.advance count) =
        some ({ s with w := s.w.setIov i (some v'),
                       ghost := s.ghost ++ (s.w.visible v).take count },
              .took (min count (s.w.visible v).length) ((s.w.visible v).take count)) := by
  obtain ⟨v', h1, _⟩ := World.advance_spec s.w i v count hv hi
  refine ⟨v', ?_⟩
  have hrm : (s.w.flat v.slices).take (min count (sumLens (v.slices.take v.stableN))) = (s.w.visible v).take count := by
    obtain ⟨rest, hrest⟩ := visible_prefix_flat s.w v
    rw [← hi.visible_length, ← hrest, List.take_append_of_le_length (Nat.min_le_right _ _)]
    rw [List.take_eq_take_iff]; simp
  simp only [step, hv, h1, Option.map_some, hrm, hi.visible_length]

theorem step_readInto_exact (i : Nat) (s : State) (v : Iov) (room : Nat) (hv : s.w.iov i = some v)
    (hi : IovInv s.w v) :
    ∃ w', step i s (.readInto room) =
        some ({ s with w := w', ghost := s.ghost ++ (s.w.visible v).take room },
              .took ((s.w.visible v).take room).length ((s.w.visible v).take room)) := by
  obtain ⟨w', v', h1, _⟩ := World.readInto_spec i (room + 2) s.w v room [] hv hi (by omega)
  simp only [List.nil_append] at h1
  exact ⟨w', by simp only [step, h1]; rfl⟩

/-! ### C04: pending placeholders, immutability of known bytes -/

theorem mkCells_cons (brs : List (Nat × BackrefInfo)) (off : Nat) (b : UInt8) (t : List UInt8) :
    mkCells brs off (b :: t) = cellAt brs off b :: mkCells brs (off + 1) t := rfl

theorem mkCells_getElem? (brs : List (Nat × BackrefInfo)) (off : Nat) (bs : List UInt8) (j : Nat) :
    (mkCells brs off bs)[j]? = bs[j]?.map (cellAt brs (off + j)) := by
  induction bs generalizing off j with
  | nil => simp [mkCells]
  | cons x t ih =>
    rw [mkCells_cons]
    cases j with
    | zero => simp
    | succ j =>
      simp only [List.getElem?_cons_succ]
      rw [ih, show off + 1 + j = off + (j + 1) by omega]

theorem any_not_isByte_map_byte (bs : List UInt8) : (bs.map Cell.byte).any (fun c => !c.isByte) = false := by
  induction bs with
  | nil => rfl
  | cons b t ih => simp [Cell.isByte]

/-- `has_pending_backrefs` (hence `iovs`/`flatten`/`stable_consumer` reporting an error) holds
exactly when the abstract pipe still has a hole. -/
theorem hasPending_eq_pending {w : World} {v : Iov} (h : IovInv w v) :
    v.hasPending = (absCells w v).any (fun c => !c.isByte) := by
  unfold Iov.hasPending
  cases hb : v.backrefs with
  | nil =>
    have : absCells w v = (w.flat v.slices).map Cell.byte := by
      unfold absCells
      apply mkCells_none
      intro j _
      rw [hb]; rfl
    rw [this, any_not_isByte_map_byte]; rfl
  | cons e t =>
    have he : e ∈ v.backrefs := by rw [hb]; simp
    have hbo := h.br_ok e he
    have hk := hbo.key_le h.size_eq
    have hs := hbo.start_ge
    have hp := hbo.len_pos
    have hfl := h.flat_length
    have hsz := h.size_eq
    have hin : InRange e (v.consumedSize + (e.1 - 1 - v.consumedSize)) := by unfold InRange; omega
    have hh := holeAt_eq_some_of_mem h.br_sorted he hin
    have hlt : e.1 - 1 - v.consumedSize < (w.flat v.slices).length := by omega
    have hcell : (absCells w v)[e.1 - 1 - v.consumedSize]? = some (Cell.hole e.1) := by
      unfold absCells
      rw [mkCells_getElem?, List.getElem?_eq_getElem hlt]
      simp only [Option.map_some, cellAt, hh]
    have hmem : Cell.hole e.1 ∈ absCells w v := List.mem_of_getElem? hcell
    have : (absCells w v).any (fun c => !c.isByte) = true := by
      rw [List.any_eq_true]
      exact ⟨_, hmem, rfl⟩
    rw [this]; rfl

/-- With no pending backref the stable prefix is everything that is buffered. -/
theorem visible_all_of_no_pending {w : World} {v : Iov} (_h : IovInv w v) (hp : v.hasPending = false) :
    w.visible v = w.flat v.slices ∧ absCells w v = (w.visible v).map Cell.byte := by
  have hb : v.backrefs = [] := by
    unfold Iov.hasPending at hp
    cases hbb : v.backrefs with
    | nil => rfl
    | cons _ _ => rw [hbb] at hp; simp at hp
  have hv : w.visible v = w.flat v.slices := by
    unfold World.visible; rw [stableN_nil v hb, List.take_length]
  refine ⟨hv, ?_⟩
  rw [hv]
  unfold absCells
  apply mkCells_none
  intro j _
  rw [hb]; rfl

theorem fillCells_byte (id : Nat) : ∀ (l : List Cell) (src : List UInt8) (j : Nat) (b : UInt8),
    l[j]? = some (Cell.byte b) → (fillCells id l src)[j]? = some (Cell.byte b) := by
  intro l
  induction l with
  | nil => intro src j b h; simp at h
  | cons c t ih =>
    intro src j b h
    cases c with
    | byte x =>
      have : fillCells id (Cell.byte x :: t) src = Cell.byte x :: fillCells id t src := by
        cases src <;> simp [fillCells]
      rw [this]
      cases j with
      | zero => simpa using h
      | succ j => simp only [List.getElem?_cons_succ] at h ⊢; exact ih src j b h
    | hole k =>
      cases src with
      | nil => rw [fillCells_nil_src]; exact h
      | cons s ss =>
        simp only [fillCells]
        cases j with
        | zero => simp at h
        | succ j =>
          simp only [List.getElem?_cons_succ] at h
          split
          · simp only [List.getElem?_cons_succ]; exact ih ss j b h
          · simp only [List.getElem?_cons_succ]; exact ih (s :: ss) j b h

/-- A byte cell of the ledger never changes (until `clear`). -/
theorem ledgerStep_byte (l : List Cell) (op : Op) (r : Ret) (hop : op ≠ .clear) (j : Nat) (b : UInt8)
    (h : l[j]? = some (Cell.byte b)) : (ledgerStep l op r)[j]? = some (Cell.byte b) := by
  have hj : j < l.length := by
    rcases Nat.lt_or_ge j l.length with h1 | h1
    · exact h1
    · rw [List.getElem?_eq_none h1] at h; cases h
  have happ : ∀ x : List Cell, (l ++ x)[j]? = some (Cell.byte b) := fun x => by
    rw [List.getElem?_append_left hj]; exact h
  cases op with
  | pushCopy src => exact happ _
  | pushBorrowed b' => exact happ _
  | push b' => exact happ _
  | extend bs => exact happ _
  | registerPatch pat =>
    cases r with
    | token t =>
      cases t with
      | none => exact h
      | some e => obtain ⟨k, inf⟩ := e; exact happ _
    | unit => exact h
    | took n rm => exact h
  | backfill tok src =>
    cases tok with
    | none => exact h
    | some e => obtain ⟨k, inf⟩ := e; exact fillCells_byte k l src j b h
  | clear => exact absurd rfl hop
  | consume c => exact h
  | pop => exact h
  | advance c => exact h
  | readInto c => exact h
  | flush => exact h
  | reserve k => exact h

theorem ledger_byte (ops : List Op) : ∀ (l : List Cell) (rs : List Ret), Op.clear ∉ ops → ∀ (j : Nat) (b : UInt8),
    l[j]? = some (Cell.byte b) → (ledger l ops rs)[j]? = some (Cell.byte b) := by
  induction ops with
  | nil => intro l rs _ j b h; cases rs <;> exact h
  | cons op ops ih =>
    intro l rs hnc j b h
    cases rs with
    | nil => exact h
    | cons r rs =>
      simp only [ledger]
      apply ih _ _ (fun hm => hnc (by simp [hm]))
      exact ledgerStep_byte l op r (fun e => hnc (by simp [e])) j b h

/-! ### Heap-level frame: which memory an operation may write -/

theorem MemStep.refl (w : World) (v : Iov) : MemStep w w v := ⟨⟨[], by simp⟩, Or.inl rfl⟩

theorem MemStep.of_eq {w w' : World} {v : Iov} (hh : w'.heap = w.heap) (he : w'.exts = w.exts) : MemStep w w' v :=
  ⟨⟨[], by simp [he]⟩, Or.inl hh⟩

/-- A memory step leaves the bytes of every slice of the iovec alone. -/
theorem MemStep.frame {w w' : World} {v : Iov} (h : MemStep w w' v) (hinv : IovInv w v) (x : Slice)
    (hx : x ∈ v.slices) : w'.sliceBytes x = w.sliceBytes x := by
  have hok := hinv.slices_ok x hx
  obtain ⟨extra, he⟩ := h.exts
  unfold World.sliceBytes
  cases hr : x.region with
  | ext b =>
    simp only [he]
    have h1 := hok.ext b hr
    have h2 := hok.pos
    have hb : b < w.exts.length := by
      rcases Nat.lt_or_ge b w.exts.length with h3 | h3
      · exact h3
      · rw [List.getD_eq_getElem?_getD, List.getElem?_eq_none h3] at h1
        simp at h1; omega
    simp only [List.getD_eq_getElem?_getD, List.getElem?_append_left hb]
  | chunk c =>
    simp only
    rcases h.heap with hh | ⟨len, src, hl, hh⟩
    · rw [hh]
    · rw [hh]
      obtain ⟨_, _, _, hord⟩ := alloc_facts w v len hinv _ rfl
      apply Heap.read_write_disjoint
      by_cases hc : c = (alloc w.tun v.arena w.next len).2.2.1
      · right; left; exact hord x hx c hr hc
      · left; exact hc

theorem World.pushCopy_mem (w w' : World) (i : Nat) (v : Iov) (src : List UInt8) (hv : w.iov i = some v)
    (h : w.pushCopy i src = some w') : MemStep w w' v := by
  by_cases hne : src = []
  · subst hne
    have : w.pushCopy i [] = some w := by unfold World.pushCopy; rw [hv]; rfl
    rw [this] at h; cases h
    exact MemStep.refl w v
  · rw [pushCopy_eq w i v src hv hne] at h
    split at h
    · cases h
    · split at h
      · cases h
      · cases h
        exact ⟨⟨[], by simp⟩, Or.inr ⟨src.length, src, rfl, rfl⟩⟩

theorem World.pushBorrowed_mem (w w' : World) (i : Nat) (s : Slice)
    (h : w.pushBorrowed i s = some w') : w'.heap = w.heap ∧ w'.exts = w.exts ∧ w'.tun = w.tun ∧ w'.next = w.next := by
  unfold World.pushBorrowed at h
  split at h
  · cases h
  · split at h
    · cases h; exact ⟨rfl, rfl, rfl, rfl⟩
    · split at h
      · cases h
      · cases h; exact ⟨rfl, rfl, rfl, rfl⟩

theorem World.extend_mem (i : Nat) : ∀ (ss : List Slice) (w w' : World), w.extend i ss = some w' →
    w'.heap = w.heap ∧ w'.exts = w.exts := by
  intro ss
  induction ss with
  | nil => intro w w' h; simp only [World.extend, Option.some.injEq] at h; subst h; exact ⟨rfl, rfl⟩
  | cons s t ih =>
    intro w w' h
    simp only [World.extend] at h
    split at h
    · exact ih w w' h
    · split at h
      · cases h
      · rename_i w1 hw1
        obtain ⟨a, b, _, _⟩ := World.pushBorrowed_mem w w1 i s hw1
        obtain ⟨c, d⟩ := ih w1 w' h
        exact ⟨c.trans a, d.trans b⟩

theorem MemStep.of_lend {w w1 w' : World} {v : Iov} (extra : List (List UInt8))
    (h1 : w1 = { w with exts := w.exts ++ extra }) (h : MemStep w1 w' v) : MemStep w w' v := by
  subst h1
  obtain ⟨e2, he2⟩ := h.exts
  refine ⟨⟨extra ++ e2, by rw [he2]; simp⟩, ?_⟩
  rcases h.heap with hh | ⟨len, src, hl, hh⟩
  · exact Or.inl hh
  · exact Or.inr ⟨len, src, hl, hh⟩

/-- Every non-panicking operation other than `backfill` is a memory step. -/
theorem step_mem (i : Nat) (s s' : State) (op : Op) (r : Ret) (v : Iov) (hv : s.w.iov i = some v)
    (hi : IovInv s.w v) (hop : ∀ tok src, op ≠ .backfill tok src) (h : step i s op = some (s', r)) :
    MemStep s.w s'.w v := by
  cases op with
  | backfill tok src => exact absurd rfl (hop tok src)
  | pushCopy src =>
    simp only [step, Option.map_eq_some_iff] at h
    obtain ⟨w', hw, he⟩ := h
    cases he
    exact World.pushCopy_mem s.w w' i v src hv hw
  | pushBorrowed b =>
    simp only [step, Option.map_eq_some_iff] at h
    obtain ⟨w', hw, he⟩ := h
    cases he
    obtain ⟨a, b', _, _⟩ := World.pushBorrowed_mem _ w' i _ hw
    exact MemStep.of_lend [b.pre ++ b.bs ++ b.post] rfl (MemStep.of_eq a b')
  | push b =>
    simp only [step, Option.map_eq_some_iff] at h
    obtain ⟨w', hw, he⟩ := h
    cases he
    apply MemStep.of_lend [b.pre ++ b.bs ++ b.post] (w1 := (s.w.lend b).1) rfl
    rcases World.push_eq (s.w.lend b).1 i v (s.w.lend b).2 (by simpa using hv) with hp | hp
    · rw [hp] at hw
      exact World.pushCopy_mem _ w' i v _ (by simpa using hv) hw
    · rw [hp] at hw
      obtain ⟨a, b', _, _⟩ := World.pushBorrowed_mem _ w' i _ hw
      exact MemStep.of_eq a b'
  | extend bs =>
    simp only [step, Option.map_eq_some_iff] at h
    obtain ⟨w', hw, he⟩ := h
    cases he
    obtain ⟨a, b'⟩ := World.extend_mem i _ _ w' hw
    exact MemStep.of_lend _ (lendAll_fst s.w bs) (MemStep.of_eq a b')
  | registerPatch pat =>
    simp only [step, Option.map_eq_some_iff] at h
    obtain ⟨⟨w', b⟩, hw, he⟩ := h
    cases he
    by_cases hne : pat = []
    · subst hne
      have : s.w.registerPatch i [] = some (s.w, none) := by unfold World.registerPatch; rfl
      rw [this] at hw; cases hw
      exact MemStep.refl _ _
    · obtain ⟨w1, v1, h1, h2, _, _, _, _, _, _, _, _, _, _, _, ⟨pre, last, c, hl1, _, _⟩, _, _⟩ :=
        World.pushCopy_spec s.w i v pat hv hi hne
      have hpe : pat.isEmpty = false := by cases pat with | nil => exact absurd rfl hne | cons _ _ => rfl
      have hlast : v1.slices.getLast? = some last := by rw [hl1]; simp
      rw [registerPatch_eq s.w w1 i v1 pat last hpe h1 h2 hlast] at hw
      have hm := World.pushCopy_mem s.w w1 i v pat hv h1
      split at hw
      · cases hw
      · cases hw
        exact ⟨hm.exts, hm.heap⟩
  | consume c =>
    obtain ⟨v', h1, _⟩ := step_consume_exact i s v c hv hi
    rw [h1] at h; cases h
    exact MemStep.of_eq rfl rfl
  | pop =>
    simp only [step, hv] at h
    obtain ⟨v', h1, _⟩ := World.consume_spec s.w i v 1 hv hi
    rw [h1] at h
    split at h
    · rename_i heq
      cases h
      simp only [Option.some.injEq, Prod.mk.injEq] at heq
      rw [← heq.1]
      exact MemStep.of_eq rfl rfl
    · cases h
  | advance c =>
    obtain ⟨v', h1⟩ := step_advance_exact i s v c hv hi
    rw [h1] at h; cases h
    exact MemStep.of_eq rfl rfl
  | readInto room =>
    obtain ⟨w', v', h1, _, h3, _⟩ := World.readInto_spec i (room + 2) s.w v room [] hv hi (by omega)
    simp only [step, h1, Option.map_some, Option.some.injEq, Prod.mk.injEq] at h
    obtain ⟨rfl, _⟩ := h
    exact MemStep.of_eq h3.heap h3.exts
  | clear =>
    have h1 : s.w.clear i = some (s.w.setIov i (some { Iov.empty with arena := v.arena })) := by
      unfold World.clear; rw [hv]
    simp only [step, h1, Option.map_some, Option.some.injEq, Prod.mk.injEq] at h
    obtain ⟨rfl, _⟩ := h
    exact MemStep.of_eq rfl rfl
  | flush =>
    simp only [step, hv, Option.some.injEq, Prod.mk.injEq] at h
    obtain ⟨rfl, _⟩ := h
    exact MemStep.of_eq rfl rfl
  | reserve k =>
    simp only [step, hv, Option.some.injEq, Prod.mk.injEq] at h
    obtain ⟨rfl, _⟩ := h
    exact MemStep.of_eq rfl rfl

end Woodpile.Iovec.W
